#!/bin/bash
cd "$(dirname "$0")"
export PYTHONPATH=/repo:/verif/tools PYTHONHASHSEED=0
exec /venv/bin/python -u tools/setup.py
