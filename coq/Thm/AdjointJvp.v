(** C08, forward mode of the nonlinear nodal column algebra of the primitive
    equations (Model/PrimEq.v): every term, evaluated at the dual-number carrier
    with the grid / level tables as constants (zero tangent), returns
    (value, explicit product-rule linearisation).  All sizes K, every carrier.

    Side conditions = the "finite for every admissible state" clause, made
    explicit: the model divides by
      * the layer thickness  [thickness b n]   (t_omega_over_sigma_sp),
      * [1 + (Cp_vapor/Cp - 1) q k]            (moist adiabatic term),
      * the constants 2, R, R/kappa, and the centre-to-centre distances
        (inside [centered_vertical_advection]; these are constants of the level
        set and enter both sides in the same way).
    The linearisations below are written with exactly these denominators; the
    equalities that need a denominator to be non-zero say so as a hypothesis. *)
From Dino Require Import Base.Ops Base.Sums Base.Ord Model.Dual Model.Sigma Model.Implicit Model.PrimEq Thm.Dual.
Local Open Scope F_scope.

Section Lift.
  Context {F : Type} {o : Ops F}.

  (** constants of the configuration / physics as dual numbers with zero tangent *)
  Definition dcfg (c : @PEcfg F) : @PEcfg (dual F) :=
    mkPE (cK c) (dconst (cR c)) (dconst (ckappa c))
         (fun k => dconst (cls c k)) (fun k => dconst (cb c k)) (fun k => dconst (cTref c k)).
  Definition dmoist (m : @Moist F) : @Moist (dual F) := mkMoist (dconst (mRv m)) (dconst (mCpv m)).
  (** nodal column with tangent [dx]; the grid tables sec2_lat and the Coriolis
      parameter are constants ([n_sec2 dx], [n_f dx] are ignored) *)
  Definition dcol (x dx : @NCol F) : @NCol (dual F) :=
    mkNCol (fun k => mkdual (n_u x k) (n_u dx k)) (fun k => mkdual (n_v x k) (n_v dx k))
           (fun k => mkdual (n_vort x k) (n_vort dx k)) (fun k => mkdual (n_div x k) (n_div dx k))
           (fun k => mkdual (n_temp x k) (n_temp dx k))
           (mkdual (n_gx x) (n_gx dx)) (mkdual (n_gy x) (n_gy dx))
           (dconst (n_sec2 x)) (dconst (n_f x)).
  (** a dual-valued array with primal part [x] and tangent part [dx] *)
  Definition tracks (X : nat -> dual F) (x dx : nat -> F) : Prop :=
    forall k, X k = mkdual (x k) (dx k).

  (** *** the explicit linearisations (tangent [d.] at the point [.]) *)
  Definition d_u_dot_grad (x dx : @NCol F) (k : nat) : F :=
    (n_u dx k * n_gx x + n_u x k * n_gx dx) * n_sec2 x
    + (n_v dx k * n_gy x + n_v x k * n_gy dx) * n_sec2 x.
  Definition d_sigma_dot_explicit c (x dx : @NCol F) : nat -> F :=
    sigma_dot c (d_u_dot_grad x dx).
  Definition d_sigma_dot_full c (x dx : @NCol F) : nat -> F :=
    sigma_dot c (fun k => n_div dx k + d_u_dot_grad x dx k).
  Definition d_vertical_tendency c (w xx dw dxx : nat -> F) (n : nat) : F :=
    vertical_tendency c dw xx n + vertical_tendency c w dxx n.
  Definition d_t_omega c (Tf g vg dTf dg dvg : nat -> F) (n : nat) : F :=
    dTf n * (vg n - g_part c g n) + Tf n * (dvg n - g_part c dg n).
  Definition d_temp_adiabatic c (x dx : @NCol F) (n : nat) : F :=
    ckappa c *
    (d_t_omega c (cTref c) (g_explicit x) (u_dot_grad x)
               (fun _ => 0) (d_u_dot_grad x dx) (d_u_dot_grad x dx) n
     + d_t_omega c (n_temp x) (g_full_adiabatic x) (u_dot_grad x)
                 (n_temp dx) (fun k => d_u_dot_grad x dx k + n_div dx k) (d_u_dot_grad x dx) n).
  Definition d_temp_vertical_tendency c (inc_va : bool) (x dx : @NCol F) (n : nat) : F :=
    let tendency :=
      if inc_va then d_vertical_tendency c (sigma_dot_full c x) (n_temp x)
                                         (d_sigma_dot_full c x dx) (n_temp dx) n else 0 in
    if tref_nonuniform c
    then tendency + d_vertical_tendency c (sigma_dot_explicit c x) (cTref c)
                                        (d_sigma_dot_explicit c x dx) (fun _ => 0) n
    else tendency.
  Definition d_kinetic (x dx : @NCol F) (k : nat) : F :=
    (n_u x k * n_u dx k + n_v x k * n_v dx k) * n_sec2 x.
  Definition d_hsa_nodal (x dx : @NCol F) (s ds : nat -> F) (k : nat) : F :=
    ds k * n_div x k + s k * n_div dx k.
  Definition d_hsa_mu (x dx : @NCol F) (s ds : nat -> F) (k : nat) : F :=
    (n_u dx k * s k + n_u x k * ds k) * n_sec2 x.
  Definition d_hsa_mv (x dx : @NCol F) (s ds : nat -> F) (k : nat) : F :=
    (n_v dx k * s k + n_v x k * ds k) * n_sec2 x.
  Definition d_rt_dry c (dx : @NCol F) (k : nat) : F := cR c * n_temp dx k.
  Definition d_rt_moist c (m : @Moist F) (x dx : @NCol F) (q dq : nat -> F) (k : nat) : F :=
    cR c * n_temp dx k * (1 + moisture_contribution c m q k)
    + cR c * n_temp x k * ((mRv m / cR c - 1) * dq k).
  Definition d_rt_cloud c (m : @Moist F) (x dx : @NCol F) (q qc qi dq dqc dqi : nat -> F) (k : nat) : F :=
    cR c * n_temp dx k * (1 + moisture_contribution c m q k - qc k - qi k)
    + cR c * n_temp x k * ((mRv m / cR c - 1) * dq k - dqc k - dqi k).
  Definition d_combined_u c (va : bool) (x dx : @NCol F) (rt drt : nat -> F) (k : nat) : F :=
    - (n_v dx k * (n_vort x k + n_f x) + n_v x k * n_vort dx k) * n_sec2 x
    + ((if va then - d_vertical_tendency c (sigma_dot_full c x) (n_u x) (d_sigma_dot_full c x dx) (n_u dx) k else 0)
       + (drt k * n_gx x + rt k * n_gx dx)) * n_sec2 x.
  Definition d_combined_v c (va : bool) (x dx : @NCol F) (rt drt : nat -> F) (k : nat) : F :=
    (n_u dx k * (n_vort x k + n_f x) + n_u x k * n_vort dx k) * n_sec2 x
    + ((if va then - d_vertical_tendency c (sigma_dot_full c x) (n_v x) (d_sigma_dot_full c x dx) (n_v dx) k else 0)
       + (drt k * n_gy x + rt k * n_gy dx)) * n_sec2 x.
  (** moist adiabatic term: T' (1+(g-1)q)/(1+(h-1)q) + T_ref (g-h) q/(1+(h-1)q),
      g = R_vapor/R, h = Cp_vapor/Cp; d/dq of both fractions is (g-h)/(1+(h-1)q)^2 *)
  Definition gcr c (m : @Moist F) : F := mRv m / cR c.
  Definition hcr c (m : @Moist F) : F := mCpv m / (cR c / ckappa c).
  Definition moist_den c (m : @Moist F) (q : nat -> F) (k : nat) : F := 1 + (hcr c m - 1) * q k.
  Definition vht c (m : @Moist F) (x : @NCol F) (q : nat -> F) (k : nat) : F :=
    n_temp x k * ((1 + (gcr c m - 1) * q k) / moist_den c m q k)
    + cTref c k * (((gcr c m - hcr c m) * q k) / moist_den c m q k).
  Definition d_vht c (m : @Moist F) (x dx : @NCol F) (q dq : nat -> F) (k : nat) : F :=
    n_temp dx k * ((1 + (gcr c m - 1) * q k) / moist_den c m q k)
    + (n_temp x k + cTref c k) * (gcr c m - hcr c m) * dq k / (moist_den c m q k * moist_den c m q k).
  Definition d_temp_adiabatic_moist c (m : @Moist F) (x dx : @NCol F) (q dq : nat -> F) (n : nat) : F :=
    ckappa c *
    (d_t_omega c (cTref c) (g_explicit x) (u_dot_grad x)
               (fun _ => 0) (d_u_dot_grad x dx) (d_u_dot_grad x dx) n
     + d_t_omega c (vht c m x q) (g_full_adiabatic x) (u_dot_grad x)
                 (d_vht c m x dx q dq) (fun k => d_u_dot_grad x dx k + n_div dx k) (d_u_dot_grad x dx) n).
  Definition d_humidity_div_nodal c (m : @Moist F) (x dx : @NCol F) (q gqx gqy dq dgqx dgqy : nat -> F)
             (lap dlap : F) (k : nat) : F :=
    cTref c k * (mRv m - cR c) * n_sec2 x
      * (dgqx k * n_gx x + gqx k * n_gx dx + dgqy k * n_gy x + gqy k * n_gy dx)
    + (dq k * lap + q k * dlap) * cTref c k * (mRv m - cR c).
  Definition d_humidity_curl_nodal c (m : @Moist F) (x dx : @NCol F) (gqx gqy dgqx dgqy : nat -> F) (k : nat) : F :=
    cTref c k * (mRv m - cR c) * n_sec2 x
      * (n_gx dx * gqy k + n_gx x * dgqy k - n_gy dx * gqx k - n_gy x * dgqx k).
  Definition d_humidity_temperature_diff c (m : @Moist F) (x dx : @NCol F) (q dq : nat -> F) (k : nat) : F :=
    (dq k * (n_temp x k + cTref c k) + q k * n_temp dx k) * (mRv m / cR c - 1).
End Lift.

Ltac dred :=
  cbn [re ep fadd fmul fsub fopp fdiv f0 f1 DualOps dadd dmul dsub dopp ddiv dconst dvar].

Section Jvp.
  Context {F : Type} {o : Ops F} {Fc : FieldC o}.
  Add Field FFj : (field_c : FieldTh o).

  Lemma mul_nz (a b : F) : a <> 0 -> b <> 0 -> a * b <> 0.
  Proof.
    intros Ha Hb E. apply Hb. transitivity (finv a * (a * b)); [field; exact Ha | rewrite E; ring].
  Qed.

  Lemma tracks_const (c : nat -> F) : tracks (fun k => dconst (c k)) c (fun _ => 0).
  Proof. intros k. reflexivity. Qed.
  Lemma tracks_add X Y (x dx y dy : nat -> F) :
    tracks X x dx -> tracks Y y dy -> tracks (fun k => X k + Y k) (fun k => x k + y k) (fun k => dx k + dy k).
  Proof. intros HX HY k. rewrite HX, HY. reflexivity. Qed.

  Section Cfg.
    Variable c : @PEcfg F.
    Let K := cK c.
    Let b := cb c.
    Let Dd := Fdiv_def (field_c : FieldTh o).

    (** *** the linear column operators: tangent = the operator applied to the tangent *)
    Lemma cumint_dual G g dg : tracks G g dg ->
      tracks (cumint (dcfg c) G) (cumint c g) (cumint c dg).
    Proof.
      intros HG j. unfold cumint, cum_sigma_integral, cumsum_m, cumsum_dot.
      apply dual_eq; [rewrite re_sumn | rewrite ep_sumn]; apply sumn_ext; intros i Hi;
        unfold xdsigma, thickness, ind; rewrite (HG i); unfold dcfg; cbn [cb];
        destruct (Nat.leb i j); dred; ring.
    Qed.

    Lemma sum_sigma_dual r : sum_sigma (dcfg c) r = mkdual (sum_sigma c r) 0.
    Proof.
      unfold sum_sigma, cumsum_seq.
      apply dual_eq; [rewrite re_sumn | rewrite ep_sumn]; cbn [re ep].
      - apply sumn_ext; intros i Hi. reflexivity.
      - apply sumn_zero; intros i Hi. unfold thickness, dcfg; cbn [cb]; dred. ring.
    Qed.

    Theorem sigma_dot_dual G g dg : tracks G g dg ->
      tracks (sigma_dot (dcfg c) G) (sigma_dot c g) (sigma_dot c dg).
    Proof.
      intros HG r. unfold sigma_dot.
      rewrite !(cumint_dual G g dg HG), sum_sigma_dual.
      change (cK (dcfg c)) with (cK c).
      apply dual_eq; dred; ring.
    Qed.

    Theorem vertical_tendency_dual W XX w dw xx dxx : tracks W w dw -> tracks XX xx dxx ->
      tracks (vertical_tendency (dcfg c) W XX) (vertical_tendency c w xx) (d_vertical_tendency c w xx dw dxx).
    Proof.
      intros HW HX n.
      unfold d_vertical_tendency, vertical_tendency, centered_vertical_advection, pad_tb, centered_difference,
        c2c, centers, half, two.
      change (cK (dcfg c)) with (cK c).
      apply dual_eq;
        repeat (match goal with |- context [if ?t then _ else _] => destruct t end);
        rewrite ?HW, ?HX; unfold dcfg; cbn [cb]; dred; rewrite ?Dd; ring.
    Qed.

    Lemma alpha_dual k : alpha (cK (dcfg c)) (cls (dcfg c)) k = mkdual (alpha (cK c) (cls c) k) 0.
    Proof.
      unfold alpha, two. change (cK (dcfg c)) with (cK c). unfold dcfg; cbn [cls].
      destruct (Nat.ltb (S k) (cK c)); apply dual_eq; dred; rewrite ?Dd; ring.
    Qed.

    (** division by the layer thickness: the first "admissible state" side condition *)
    Lemma g_part_dual G g dg n : thickness (cb c) n <> 0 -> tracks G g dg ->
      g_part (dcfg c) G n = mkdual (g_part c g n) (g_part c dg n).
    Proof.
      intros Hth HG. unfold thickness in Hth. unfold g_part.
      rewrite !(cumint_dual G g dg HG), !alpha_dual.
      unfold thickness, dcfg; cbn [cb].
      apply dual_eq; destruct (Nat.eqb n 0); dred; field; exact Hth.
    Qed.

    Theorem t_omega_dual Tf G VG t dt g dg vg dvg n :
      thickness (cb c) n <> 0 -> tracks Tf t dt -> tracks G g dg -> tracks VG vg dvg ->
      t_omega_over_sigma_sp (dcfg c) Tf G VG n
      = mkdual (t_omega_over_sigma_sp c t g vg n) (d_t_omega c t g vg dt dg dvg n).
    Proof.
      intros Hth HT HG HV. unfold t_omega_over_sigma_sp, d_t_omega.
      rewrite (g_part_dual G g dg n Hth HG), (HT n), (HV n).
      apply dual_eq; dred; ring.
    Qed.

    (** *** u . grad(log ps), sigma-dot *)
    Theorem u_dot_grad_dual x dx :
      tracks (u_dot_grad (dcol x dx)) (u_dot_grad x) (d_u_dot_grad x dx).
    Proof.
      intros k. unfold u_dot_grad, d_u_dot_grad, dcol; cbn [n_u n_v n_gx n_gy n_sec2].
      apply dual_eq; dred; ring.
    Qed.

    Lemma g_full_diag_dual x dx :
      tracks (g_full_diag (dcol x dx)) (g_full_diag x) (fun k => n_div dx k + d_u_dot_grad x dx k).
    Proof. intros k. unfold g_full_diag. rewrite u_dot_grad_dual. reflexivity. Qed.
    Lemma g_full_adiabatic_dual x dx :
      tracks (g_full_adiabatic (dcol x dx)) (g_full_adiabatic x) (fun k => d_u_dot_grad x dx k + n_div dx k).
    Proof. intros k. unfold g_full_adiabatic. rewrite u_dot_grad_dual. reflexivity. Qed.

    Theorem sigma_dot_explicit_dual x dx :
      tracks (sigma_dot_explicit (dcfg c) (dcol x dx)) (sigma_dot_explicit c x) (d_sigma_dot_explicit c x dx).
    Proof. apply sigma_dot_dual, u_dot_grad_dual. Qed.
    Theorem sigma_dot_full_dual x dx :
      tracks (sigma_dot_full (dcfg c) (dcol x dx)) (sigma_dot_full c x) (d_sigma_dot_full c x dx).
    Proof. apply sigma_dot_dual, g_full_diag_dual. Qed.

    Lemma ntemp_tracks x dx : tracks (n_temp (dcol x dx)) (n_temp x) (n_temp dx).
    Proof. intros k. reflexivity. Qed.
    Lemma nu_tracks x dx : tracks (n_u (dcol x dx)) (n_u x) (n_u dx).
    Proof. intros k. reflexivity. Qed.
    Lemma nv_tracks x dx : tracks (n_v (dcol x dx)) (n_v x) (n_v dx).
    Proof. intros k. reflexivity. Qed.
    Lemma tref_tracks : tracks (cTref (dcfg c)) (cTref c) (fun _ => 0).
    Proof. intros k. reflexivity. Qed.

    (** *** dry temperature tendencies *)
    Theorem temp_adiabatic_jvp x dx n : thickness (cb c) n <> 0 ->
      temp_adiabatic (dcfg c) (dcol x dx) n
      = mkdual (temp_adiabatic c x n) (d_temp_adiabatic c x dx n).
    Proof.
      intros Hth. unfold temp_adiabatic, d_temp_adiabatic, g_explicit.
      rewrite (t_omega_dual (cTref (dcfg c)) _ _ _ _ _ _ _ _ n Hth tref_tracks
                 (u_dot_grad_dual x dx) (u_dot_grad_dual x dx)).
      rewrite (t_omega_dual (n_temp (dcol x dx)) _ _ _ _ _ _ _ _ n Hth (ntemp_tracks x dx)
                 (g_full_adiabatic_dual x dx) (u_dot_grad_dual x dx)).
      apply dual_eq; unfold dcfg; cbn [ckappa]; dred; ring.
    Qed.

    Lemma tref_nonuniform_dual : tref_nonuniform (dcfg c) = tref_nonuniform c.
    Proof. reflexivity. Qed.

    Theorem temp_vertical_tendency_jvp va x dx n :
      temp_vertical_tendency (dcfg c) va (dcol x dx) n
      = mkdual (temp_vertical_tendency c va x n) (d_temp_vertical_tendency c va x dx n).
    Proof.
      unfold temp_vertical_tendency, d_temp_vertical_tendency. rewrite tref_nonuniform_dual.
      rewrite (vertical_tendency_dual _ _ _ _ _ _ (sigma_dot_explicit_dual x dx) tref_tracks n).
      destruct va.
      - rewrite (vertical_tendency_dual _ _ _ _ _ _ (sigma_dot_full_dual x dx) (ntemp_tracks x dx) n).
        destruct (tref_nonuniform c); apply dual_eq; unfold d_vertical_tendency; dred; ring.
      - destruct (tref_nonuniform c); apply dual_eq; unfold d_vertical_tendency; dred; ring.
    Qed.

    (** *** surface-pressure tendency (linear in u . grad) *)
    Theorem log_pressure_tendency_jvp x dx :
      log_pressure_tendency (dcfg c) (dcol x dx)
      = mkdual (log_pressure_tendency c x) (- sigma_integral (cK c) (cb c) (d_u_dot_grad x dx)).
    Proof.
      unfold log_pressure_tendency, sigma_integral. change (cK (dcfg c)) with (cK c).
      apply dual_eq; dred; [rewrite re_sumn | rewrite ep_sumn]; f_equal; apply sumn_ext; intros i Hi;
        unfold xdsigma, thickness; rewrite (u_dot_grad_dual x dx i); unfold dcfg; cbn [cb]; dred; ring.
    Qed.

    (** *** kinetic energy, horizontal scalar advection *)
    Theorem kinetic_jvp x dx k : 1 + 1 <> 0 ->
      kinetic (dcol x dx) k = mkdual (kinetic x k) (d_kinetic x dx k).
    Proof.
      intros H2. unfold kinetic, d_kinetic, two, dcol; cbn [n_u n_v n_sec2].
      apply dual_eq; dred; [reflexivity|]. field. first [exact H2 | apply mul_nz; exact H2].
    Qed.

    Theorem hsa_nodal_jvp x dx S s ds k : tracks S s ds ->
      hsa_nodal (dcol x dx) S k = mkdual (hsa_nodal x s k) (d_hsa_nodal x dx s ds k).
    Proof.
      intros HS. unfold hsa_nodal, d_hsa_nodal, dcol; cbn [n_div]. rewrite (HS k).
      apply dual_eq; dred; ring.
    Qed.
    Theorem hsa_mu_jvp x dx S s ds k : tracks S s ds ->
      hsa_mu (dcol x dx) S k = mkdual (hsa_mu x s k) (d_hsa_mu x dx s ds k).
    Proof.
      intros HS. unfold hsa_mu, d_hsa_mu, dcol; cbn [n_u n_sec2]. rewrite (HS k).
      apply dual_eq; dred; ring.
    Qed.
    Theorem hsa_mv_jvp x dx S s ds k : tracks S s ds ->
      hsa_mv (dcol x dx) S k = mkdual (hsa_mv x s k) (d_hsa_mv x dx s ds k).
    Proof.
      intros HS. unfold hsa_mv, d_hsa_mv, dcol; cbn [n_v n_sec2]. rewrite (HS k).
      apply dual_eq; dred; ring.
    Qed.

    (** *** R T' and the virtual-temperature variants *)
    Theorem rt_dry_jvp x dx : tracks (rt_dry (dcfg c) (dcol x dx)) (rt_dry c x) (d_rt_dry c dx).
    Proof.
      intros k. unfold rt_dry, d_rt_dry, dcol, dcfg; cbn [n_temp cR]. apply dual_eq; dred; ring.
    Qed.
    Theorem rt_moist_jvp m x dx Q q dq : tracks Q q dq ->
      tracks (rt_moist (dcfg c) (dmoist m) (dcol x dx) Q) (rt_moist c m x q) (d_rt_moist c m x dx q dq).
    Proof.
      intros HQ k. unfold rt_moist, d_rt_moist, moisture_contribution, dcol, dcfg, dmoist; cbn [n_temp cR mRv].
      rewrite (HQ k). apply dual_eq; dred; rewrite ?Dd; ring.
    Qed.
    Theorem rt_cloud_jvp m x dx Q QC QI q dq qc dqc qi dqi :
      tracks Q q dq -> tracks QC qc dqc -> tracks QI qi dqi ->
      tracks (rt_cloud (dcfg c) (dmoist m) (dcol x dx) Q QC QI) (rt_cloud c m x q qc qi)
             (d_rt_cloud c m x dx q qc qi dq dqc dqi).
    Proof.
      intros HQ HC HI k. unfold rt_cloud, d_rt_cloud, moisture_contribution, dcol, dcfg, dmoist; cbn [n_temp cR mRv].
      rewrite (HQ k), (HC k), (HI k). apply dual_eq; dred; rewrite ?Dd; ring.
    Qed.

    (** *** the two nodal arrays of curl_and_div_tendencies *)
    Theorem combined_u_jvp va x dx RT rt drt k : tracks RT rt drt ->
      combined_u (dcfg c) va (dcol x dx) RT k
      = mkdual (combined_u c va x rt k) (d_combined_u c va x dx rt drt k).
    Proof.
      intros HR. unfold combined_u, d_combined_u. rewrite (HR k).
      destruct va.
      - rewrite (vertical_tendency_dual _ _ _ _ _ _ (sigma_dot_full_dual x dx) (nu_tracks x dx) k).
        unfold dcol; cbn [n_v n_vort n_f n_sec2 n_gx]. apply dual_eq; dred; ring.
      - unfold dcol; cbn [n_v n_vort n_f n_sec2 n_gx]. apply dual_eq; dred; ring.
    Qed.
    Theorem combined_v_jvp va x dx RT rt drt k : tracks RT rt drt ->
      combined_v (dcfg c) va (dcol x dx) RT k
      = mkdual (combined_v c va x rt k) (d_combined_v c va x dx rt drt k).
    Proof.
      intros HR. unfold combined_v, d_combined_v. rewrite (HR k).
      destruct va.
      - rewrite (vertical_tendency_dual _ _ _ _ _ _ (sigma_dot_full_dual x dx) (nv_tracks x dx) k).
        unfold dcol; cbn [n_u n_vort n_f n_sec2 n_gy]. apply dual_eq; dred; ring.
      - unfold dcol; cbn [n_u n_vort n_f n_sec2 n_gy]. apply dual_eq; dred; ring.
    Qed.

    (** *** moist adiabatic term: the only state-dependent denominator *)
    Lemma gcr_dual m : mRv (dmoist m) / cR (dcfg c) = mkdual (gcr c m) 0.
    Proof. unfold gcr, dmoist, dcfg; cbn [mRv cR]. apply dual_eq; dred; rewrite ?Dd; ring. Qed.
    Lemma hcr_dual m : mCpv (dmoist m) / (cR (dcfg c) / ckappa (dcfg c)) = mkdual (hcr c m) 0.
    Proof. unfold hcr, dmoist, dcfg; cbn [mCpv cR ckappa]. apply dual_eq; dred; rewrite ?Dd; ring. Qed.

    Lemma vht_dual m x dx Q q dq :
      (forall k, moist_den c m q k <> 0) -> tracks Q q dq ->
      tracks (fun k =>
                n_temp (dcol x dx) k *
                ((1 + (mRv (dmoist m) / cR (dcfg c) - 1) * Q k)
                 / (1 + (mCpv (dmoist m) / (cR (dcfg c) / ckappa (dcfg c)) - 1) * Q k))
                + cTref (dcfg c) k *
                  (((mRv (dmoist m) / cR (dcfg c) - mCpv (dmoist m) / (cR (dcfg c) / ckappa (dcfg c))) * Q k)
                   / (1 + (mCpv (dmoist m) / (cR (dcfg c) / ckappa (dcfg c)) - 1) * Q k)))
             (vht c m x q) (d_vht c m x dx q dq).
    Proof.
      intros Hden HQ k. specialize (Hden k). unfold moist_den in Hden.
      cbv beta. rewrite gcr_dual, hcr_dual, (HQ k).
      unfold vht, d_vht, moist_den, dcol, dcfg; cbn [n_temp cTref].
      apply dual_eq; dred; [reflexivity|]. field.
      first [exact Hden | apply mul_nz; exact Hden | repeat split; first [exact Hden | apply mul_nz; exact Hden]].
    Qed.

    Theorem temp_adiabatic_moist_jvp m x dx Q q dq n :
      thickness (cb c) n <> 0 -> (forall k, moist_den c m q k <> 0) -> tracks Q q dq ->
      temp_adiabatic_moist (dcfg c) (dmoist m) (dcol x dx) Q n
      = mkdual (temp_adiabatic_moist c m x q n) (d_temp_adiabatic_moist c m x dx q dq n).
    Proof.
      intros Hth Hden HQ.
      transitivity (mkdual
        (ckappa c * (t_omega_over_sigma_sp c (cTref c) (g_explicit x) (u_dot_grad x) n
                     + t_omega_over_sigma_sp c (vht c m x q) (g_full_adiabatic x) (u_dot_grad x) n))
        (d_temp_adiabatic_moist c m x dx q dq n)); [|reflexivity].
      unfold temp_adiabatic_moist, d_temp_adiabatic_moist, g_explicit.
      rewrite (t_omega_dual (cTref (dcfg c)) _ _ _ _ _ _ _ _ n Hth tref_tracks
                 (u_dot_grad_dual x dx) (u_dot_grad_dual x dx)).
      rewrite (t_omega_dual _ _ _ _ _ _ _ _ _ n Hth (vht_dual m x dx Q q dq Hden HQ)
                 (g_full_adiabatic_dual x dx) (u_dot_grad_dual x dx)).
      apply dual_eq; unfold dcfg; cbn [ckappa]; dred; ring.
    Qed.

    (** *** the explicit humidity corrections *)
    Theorem humidity_div_nodal_jvp m x dx Q GX GY q dq gqx dgqx gqy dgqy lap dlap k :
      tracks Q q dq -> tracks GX gqx dgqx -> tracks GY gqy dgqy ->
      humidity_div_nodal (dcfg c) (dmoist m) (dcol x dx) Q GX GY (mkdual lap dlap) k
      = mkdual (humidity_div_nodal c m x q gqx gqy lap k)
               (d_humidity_div_nodal c m x dx q gqx gqy dq dgqx dgqy lap dlap k).
    Proof.
      intros HQ HX HY. unfold humidity_div_nodal, d_humidity_div_nodal, dcol, dcfg, dmoist;
        cbn [cTref cR mRv n_sec2 n_gx n_gy]. rewrite (HQ k), (HX k), (HY k).
      apply dual_eq; dred; ring.
    Qed.
    Theorem humidity_curl_nodal_jvp m x dx GX GY gqx dgqx gqy dgqy k :
      tracks GX gqx dgqx -> tracks GY gqy dgqy ->
      humidity_curl_nodal (dcfg c) (dmoist m) (dcol x dx) GX GY k
      = mkdual (humidity_curl_nodal c m x gqx gqy k)
               (d_humidity_curl_nodal c m x dx gqx gqy dgqx dgqy k).
    Proof.
      intros HX HY. unfold humidity_curl_nodal, d_humidity_curl_nodal, dcol, dcfg, dmoist;
        cbn [cTref cR mRv n_sec2 n_gx n_gy]. rewrite (HX k), (HY k).
      apply dual_eq; dred; ring.
    Qed.
    Theorem humidity_temperature_diff_jvp m x dx Q q dq : tracks Q q dq ->
      tracks (humidity_temperature_diff (dcfg c) (dmoist m) (dcol x dx) Q)
             (humidity_temperature_diff c m x q) (d_humidity_temperature_diff c m x dx q dq).
    Proof.
      intros HQ k. unfold humidity_temperature_diff, d_humidity_temperature_diff, dcol, dcfg, dmoist;
        cbn [cTref cR mRv n_temp]. rewrite (HQ k).
      apply dual_eq; dred; rewrite ?Dd; ring.
    Qed.

    (** *** the sums handed to to_modal *)
    Theorem temp_nodal_total_jvp va x dx n : thickness (cb c) n <> 0 ->
      temp_nodal_total (dcfg c) va (dcol x dx) n
      = mkdual (temp_nodal_total c va x n)
               (d_hsa_nodal x dx (n_temp x) (n_temp dx) n + d_temp_vertical_tendency c va x dx n
                + d_temp_adiabatic c x dx n).
    Proof.
      intros Hth. unfold temp_nodal_total.
      rewrite (hsa_nodal_jvp x dx _ _ _ n (ntemp_tracks x dx)), temp_vertical_tendency_jvp,
        (temp_adiabatic_jvp x dx n Hth).
      reflexivity.
    Qed.
    Theorem tracer_nodal_total_jvp va x dx S s ds n : tracks S s ds ->
      tracer_nodal_total (dcfg c) va (dcol x dx) S n
      = mkdual (tracer_nodal_total c va x s n)
               ((if va then d_vertical_tendency c (sigma_dot_full c x) s (d_sigma_dot_full c x dx) ds n else 0)
                + d_hsa_nodal x dx s ds n).
    Proof.
      intros HS. unfold tracer_nodal_total. rewrite (hsa_nodal_jvp x dx S s ds n HS).
      destruct va.
      - rewrite (vertical_tendency_dual _ _ _ _ _ _ (sigma_dot_full_dual x dx) HS n). reflexivity.
      - reflexivity.
    Qed.
  End Cfg.
End Jvp.
