(** Theorems about the model of the spectral differential operators
    (property C02): for every field, every truncation (M, L), every padded
    shape (R, C), every radius r <> 0, arbitrary weight tables unless a
    hypothesis on the tables is stated. *)
From Dino Require Import Base.Ops Base.Sums Gen.DerivExprs Model.Deriv.
From Coq Require Import ZifyNat.
Local Open Scope F_scope.
Ltac Zify.zify_post_hook ::= Z.div_mod_to_equations.

(** The translator understood every construct (fails to compile otherwise). *)
Lemma gen_derivexprs_complete_ok : gen_derivexprs_complete = true.
Proof. reflexivity. Qed.

Section DerivThm.
  Context {F : Type} {o : Ops F} {Fc : FieldC o}.
  Add Field FFd : (field_c : FieldTh o).

  (** *** integer literals *)
  Lemma lit_S n : lit (S n) = lit n + 1. Proof. reflexivity. Qed.
  Lemma lit_add n k : lit (n + k) = lit n + lit k.
  Proof. induction k as [|k IH]; [rewrite Nat.add_0_r; cbn; ring|]. rewrite Nat.add_succ_r. cbn [lit]. rewrite IH. ring. Qed.
  Lemma lit_mul n k : lit (n * k) = lit n * lit k.
  Proof. induction k as [|k IH]; [rewrite Nat.mul_0_r; cbn; ring|]. rewrite Nat.mul_succ_r, lit_add, IH. cbn [lit]. ring. Qed.

  Lemma laxis_lt L k : (k < L)%nat -> laxis L k = k.
  Proof. intros H. unfold laxis. destruct (Nat.ltb_spec k L); [reflexivity|lia]. Qed.
  Lemma laxis_ge L k : (L <= k)%nat -> laxis L k = 0%nat.
  Proof. intros H. unfold laxis. destruct (Nat.ltb_spec k L); [lia|reflexivity]. Qed.

  (** *** shift by -1 / +1 *)
  Lemma shift1_m1 n (x : nat -> F) k :
    shift1 n (-1) x k = if Nat.ltb (S k) n then x (S k) else 0.
  Proof.
    unfold shift1. change (Z.abs (-1)) with 1%Z.
    destruct (Z.leb_spec (Z.of_nat n) 1) as [H|H].
    - destruct (Nat.ltb_spec (S k) n); [lia|reflexivity].
    - change (Z.ltb 0 (-1)) with false. cbv iota. change (Z.to_nat (- -1)) with 1%nat.
      rewrite Nat.add_1_r. reflexivity.
  Qed.

  Lemma shift1_p1 n (x : nat -> F) k :
    (k < n)%nat -> shift1 n 1 x k = if Nat.eqb k 0 then 0 else x (k - 1)%nat.
  Proof.
    intros Hk. unfold shift1. change (Z.abs 1) with 1%Z.
    destruct (Z.leb_spec (Z.of_nat n) 1) as [H|H].
    - assert (k = 0)%nat by lia. subst k. reflexivity.
    - change (Z.ltb 0 1) with true. cbv iota. change (Z.to_nat 1) with 1%nat.
      destruct (Nat.ltb_spec k 1), (Nat.eqb_spec k 0); try lia; reflexivity.
  Qed.

  Lemma shift1_ext n off (x y : nat -> F) k :
    (forall j, (j < n)%nat -> x j = y j) -> (k < n)%nat -> shift1 n off x k = shift1 n off y k.
  Proof.
    intros H Hk. unfold shift1.
    destruct (Z.leb (Z.of_nat n) (Z.abs off)); [reflexivity|].
    destruct (Z.ltb 0 off).
    - destruct (Nat.ltb_spec k (Z.to_nat off)); [reflexivity|apply H; lia].
    - destruct (Nat.ltb_spec (k + Z.to_nat (- off)) n); [apply H; lia|reflexivity].
  Qed.

  (** *** longitude derivative: explicit rows *)
  Lemma dlon_ref_unfold R (x : arr2) i l :
    (i < R)%nat ->
    dlon_ref R x i l =
    lit ((i + 1) / 2) * (if negb (Nat.eqb (i mod 2) 0)
                         then (if Nat.ltb (S i) R then x (S i) l else 0)
                         else - (if Nat.eqb i 0 then 0 else x (i - 1)%nat l)).
  Proof.
    intros Hi. unfold dlon_ref, dref_j, dref_cond, dref_sel, dref_down_off, dref_up_off, shift_rows.
    rewrite shift1_m1, (shift1_p1 R _ i Hi). reflexivity.
  Qed.

  Lemma dlon_fast_unfold R off (x : arr2) i l :
    (i < R)%nat ->
    dlon_fast R off x i l =
    lit (off + i / 2) * (if negb (Nat.eqb ((i + 1) mod 2) 0)
                         then (if Nat.ltb (S i) R then x (S i) l else 0)
                         else - (if Nat.eqb i 0 then 0 else x (i - 1)%nat l)).
  Proof.
    intros Hi. unfold dlon_fast, dfast_j, dfast_cond, dfast_sel, dfast_down_off, dfast_up_off, shift_rows.
    rewrite shift1_m1, (shift1_p1 R _ i Hi). reflexivity.
  Qed.

  (** reference layout: row 2j-1 (cos) and row 2j (sin) of wavenumber j *)
  Theorem dlon_pairs_ref R (x : arr2) j l :
    (1 <= j)%nat -> (2 * j < R)%nat ->
    dlon_ref R x (2 * j - 1)%nat l = lit j * x (2 * j)%nat l /\
    dlon_ref R x (2 * j)%nat l = - (lit j * x (2 * j - 1)%nat l) /\
    dlon_ref R x 0%nat l = 0.
  Proof.
    intros Hj HR. repeat split.
    - rewrite dlon_ref_unfold by lia.
      replace ((2 * j - 1 + 1) / 2)%nat with j by lia.
      replace ((2 * j - 1) mod 2)%nat with 1%nat by lia. cbn [Nat.eqb negb].
      replace (S (2 * j - 1)) with (2 * j)%nat by lia.
      destruct (Nat.ltb_spec (2 * j) R); [reflexivity|lia].
    - rewrite dlon_ref_unfold by lia.
      replace ((2 * j + 1) / 2)%nat with j by lia.
      replace ((2 * j) mod 2)%nat with 0%nat by lia. cbn [Nat.eqb negb].
      destruct (Nat.eqb_spec (2 * j) 0); [lia|]. ring.
    - rewrite dlon_ref_unfold by lia. cbn. ring.
  Qed.

  (** fast layout: row 2j (cos) and row 2j+1 (sin) of wavenumber off+j *)
  Theorem dlon_pairs_fast R off (x : arr2) j l :
    (2 * j + 1 < R)%nat ->
    dlon_fast R off x (2 * j)%nat l = lit (off + j) * x (2 * j + 1)%nat l /\
    dlon_fast R off x (2 * j + 1)%nat l = - (lit (off + j) * x (2 * j)%nat l).
  Proof.
    intros HR. split.
    - rewrite dlon_fast_unfold by lia.
      replace ((2 * j) / 2)%nat with j by lia.
      replace ((2 * j + 1) mod 2)%nat with 1%nat by lia. cbn [Nat.eqb negb].
      replace (S (2 * j)) with (2 * j + 1)%nat by lia.
      destruct (Nat.ltb_spec (2 * j + 1) R); [reflexivity|lia].
    - rewrite dlon_fast_unfold by lia.
      replace ((2 * j + 1) / 2)%nat with j by lia.
      replace ((2 * j + 1 + 1) mod 2)%nat with 0%nat by lia. cbn [Nat.eqb negb].
      destruct (Nat.eqb_spec (2 * j + 1) 0); [lia|].
      replace (2 * j + 1 - 1)%nat with (2 * j)%nat by lia. ring.
  Qed.

  (** d_dlon o d_dlon = -m^2 (R odd: reference; R even: fast) *)
  Theorem dlon_twice_ref R (x : arr2) i l :
    (R mod 2 = 1)%nat -> (i < R)%nat ->
    dlon_ref R (dlon_ref R x) i l = - (lit (dref_j i) * lit (dref_j i)) * x i l.
  Proof.
    intros HR Hi. unfold dref_j.
    destruct (Nat.eq_dec i 0) as [->|Hi0].
    { rewrite dlon_ref_unfold by lia. cbn. ring. }
    set (j := ((i + 1) / 2)%nat).
    assert (Hj : (1 <= j)%nat) by (unfold j; lia).
    assert (H2j : (2 * j < R)%nat) by (unfold j; lia).
    destruct (dlon_pairs_ref R x j l Hj H2j) as (P1 & P2 & _).
    destruct (dlon_pairs_ref R (dlon_ref R x) j l Hj H2j) as (Q1 & Q2 & _).
    assert (Hc : (i = 2 * j - 1 \/ i = 2 * j)%nat) by (unfold j; lia).
    destruct Hc as [Hc|Hc]; rewrite Hc at 1.
    - rewrite Q1, P2. replace (2 * j - 1)%nat with i by lia. ring.
    - rewrite Q2, P1. replace (2 * j)%nat with i by lia. ring.
  Qed.

  Theorem dlon_twice_fast R off (x : arr2) i l :
    (R mod 2 = 0)%nat -> (i < R)%nat ->
    dlon_fast R off (dlon_fast R off x) i l = - (lit (dfast_j off i) * lit (dfast_j off i)) * x i l.
  Proof.
    intros HR Hi. unfold dfast_j.
    set (j := (i / 2)%nat).
    assert (H2j : (2 * j + 1 < R)%nat) by (unfold j; lia).
    destruct (dlon_pairs_fast R off x j l H2j) as (P1 & P2).
    destruct (dlon_pairs_fast R off (dlon_fast R off x) j l H2j) as (Q1 & Q2).
    assert (Hc : (i = 2 * j \/ i = 2 * j + 1)%nat) by (unfold j; lia).
    destruct Hc as [Hc|Hc]; rewrite Hc at 1.
    - rewrite Q1, P2. replace (2 * j)%nat with i by lia. ring.
    - rewrite Q2, P1. replace (2 * j + 1)%nat with i by lia. ring.
  Qed.

  (** the multiplier of the longitude derivative is |m| of the modal axis *)
  Theorem dlon_index_is_wavenumber M i :
    mabs false M i = dref_j i /\ ((i < 2 * M)%nat -> mabs true M i = dfast_j 0 i).
  Proof.
    unfold mabs, maxis, dref_j, dfast_j. split.
    - destruct (Nat.eqb_spec i 0) as [->|Hi]; [reflexivity|].
      destruct (Nat.odd i) eqn:E.
      + apply Nat.odd_spec in E. destruct E as [k Hk]. lia.
      + assert (E' : Nat.even i = true) by (rewrite <- Nat.negb_odd, E; reflexivity).
        apply Nat.even_spec in E'. destruct E' as [k Hk]. lia.
    - intros Hi. destruct (Nat.ltb_spec i (2 * M)); [|lia].
      destruct (Nat.even i); lia.
  Qed.

  (** *** latitude operators: explicit entries *)
  Definition tri (C : nat) (wm wp : nat -> nat -> F) (x : arr2) : arr2 :=
    fun i l => (if Nat.ltb (S l) C then wm i (S l) * x i (S l) else 0) +
               (if Nat.eqb l 0 then 0 else wp i (l - 1)%nat * x i (l - 1)%nat).

  Lemma D1_entries L C (a b x : arr2) i l :
    (l < C)%nat ->
    D1 L C a b x i l =
    tri C (fun i l => (lit (laxis L l) + 1) * a i l) (fun i l => - lit (laxis L l) * b i l) x i l.
  Proof.
    intros Hl. unfold D1, tri, shift_cols, d1_om, d1_op, d1_wm, d1_wp.
    rewrite shift1_m1, (shift1_p1 C _ l Hl). cbn [lit].
    destruct (Nat.ltb (S l) C), (Nat.eqb l 0); ring.
  Qed.

  Lemma D2_entries L C (a b x : arr2) i l :
    (l < C)%nat ->
    D2 L C a b x i l =
    tri C (fun i l => (lit (laxis L l) - 1) * a i l) (fun i l => - (lit (laxis L l) + (1 + 1)) * b i l) x i l.
  Proof.
    intros Hl. unfold D2, tri, shift_cols, d2_om, d2_op, d2_wm, d2_wp.
    rewrite shift1_m1, (shift1_p1 C _ l Hl). cbn [lit].
    destruct (Nat.ltb (S l) C), (Nat.eqb l 0); ring.
  Qed.

  Lemma Mmu_entries C (a b x : arr2) i l :
    (l < C)%nat -> Mmu C a b x i l = tri C a b x i l.
  Proof.
    intros Hl. unfold Mmu, tri, shift_cols.
    rewrite shift1_m1, (shift1_p1 C _ l Hl). reflexivity.
  Qed.

  (** D2 = D1 - 2 M_mu for arbitrary weight tables *)
  Theorem D2_eq_D1_minus_2mu L C (a b x : arr2) i l :
    (l < C)%nat ->
    D2 L C a b x i l = D1 L C a b x i l - (1 + 1) * Mmu C a b x i l.
  Proof.
    intros Hl. rewrite D1_entries, D2_entries, Mmu_entries by assumption. unfold tri.
    destruct (Nat.ltb (S l) C), (Nat.eqb l 0); ring.
  Qed.

  (** the generated weight expressions: a^2 (4 l^2 - 1) = l^2 - m^2 and b^2(l) = a^2(l+1) *)
  Theorem weight_exprs (l m : F) :
    (lit 4 * (l * l) - lit 1 <> 0 -> a2_expr 1 l m * (lit 4 * (l * l) - lit 1) = l * l - m * m) /\
    (forall mask, b2_expr mask l m = a2_expr mask (l + lit 1) m).
  Proof.
    unfold a2_expr, b2_expr. split.
    - intros H. field. exact H.
    - intros mask. reflexivity.
  Qed.

  Lemma mul_cancel_r (k t : F) : t <> 0 -> k * t = 0 -> k = 0.
  Proof. intros Ht H. transitivity (k * t / t); [field; exact Ht|]. rewrite H. field. exact Ht. Qed.

  (** *** Laplacian and its inverse *)
  Lemma lap_eig_val L r l :
    lap_eig L r l = - lit (laxis L l) * (lit (laxis L l) + 1) / (r * r).
  Proof. unfold lap_eig, lap_eig_expr. cbn [lit]. replace (0 + 1) with 1 by ring. reflexivity. Qed.

  Theorem lap_inverse L r (x : arr2) i l :
    r <> 0 -> (1 <= l < L)%nat -> lit l <> 0 -> lit l + 1 <> 0 ->
    laplacian L r (inverse_laplacian L r x) i l = x i l /\
    inverse_laplacian L r (laplacian L r x) i l = x i l.
  Proof.
    intros Hr Hl H0 H1. unfold laplacian, inverse_laplacian, inv_eig.
    destruct (Nat.eqb_spec l 0); [lia|]. destruct (Nat.leb_spec L l); [lia|].
    rewrite lap_eig_val, laxis_lt by lia.
    assert (Hn : - lit l <> 0) by (intro E; apply H0; transitivity (- - lit l); [ring|rewrite E; ring]).
    split; field; repeat split; assumption.
  Qed.

  Theorem inverse_laplacian_zero L r (x : arr2) i l :
    (l = 0 \/ L <= l)%nat -> inverse_laplacian L r x i l = 0.
  Proof.
    intros H. unfold inverse_laplacian, inv_eig.
    destruct (Nat.eqb_spec l 0); [ring|]. destruct (Nat.leb_spec L l); [ring|lia].
  Qed.

  Lemma laplacian_padded L r (x : arr2) i l : (l = 0 \/ L <= l)%nat -> r <> 0 -> laplacian L r x i l = 0.
  Proof.
    intros H Hr. unfold laplacian. rewrite lap_eig_val.
    replace (laxis L l) with 0%nat.
    - cbn [lit]. field. exact Hr.
    - destruct H as [->|H]; [unfold laxis; destruct (Nat.ltb 0 L); reflexivity|now rewrite laxis_ge].
  Qed.

  (** *** the cos^2 identity:  (D1 D1 - m^2) x = (1 - M_mu M_mu)(r^2 laplacian x)  at |m| <= l <= L-3 *)
  Section Cos2.
    Variables (L C : nat) (a b x : nat -> nat -> F) (r : F) (i l mn : nat).
    Hypothesis Hr : r <> 0.
    Hypothesis HLC : (L <= C)%nat.
    Hypothesis Hl : (l + 2 < L)%nat.
    Hypothesis Hm : (mn <= l)%nat.
    (** table hypotheses (H_b_shift, H_eps2), only at the entries that are used *)
    Hypothesis Hb0 : b i l = a i (S l).
    Hypothesis Hb1 : (1 <= l)%nat -> b i (l - 1)%nat = a i l.
    Hypothesis Ha1 : a i (S l) * a i (S l) = a2_expr 1 (lit (S l)) (lit mn).
    Hypothesis Ha0 : (1 <= l)%nat -> a i l * a i l = a2_expr 1 (lit l) (lit mn).
    (** the denominators of the code and the factor 2l+1 are invertible (true in characteristic 0) *)
    Hypothesis Hd1 : lit 4 * (lit (S l) * lit (S l)) - lit 1 <> 0.
    Hypothesis Hd0 : lit 4 * (lit l * lit l) - lit 1 <> 0.
    Hypothesis H2l1 : (1 + 1) * lit l + 1 <> 0.

    Let y : nat -> nat -> F := fun i l => laplacian L r x i l * (r * r).

    Lemma y_val k : (k < L)%nat -> y i k = - lit k * (lit k + 1) * x i k.
    Proof. intros Hk. unfold y, laplacian. rewrite lap_eig_val, laxis_lt by assumption. field. exact Hr. Qed.

    Lemma cos2_diag :
      let e1 := a i (S l) in
      let e0 := if Nat.eqb l 0 then 0 else a i l in
      - (lit mn * lit mn) + lit l * (lit l + 1)
      - e1 * e1 * (lit l * ((1 + 1) * lit l + (1 + 1 + 1)))
      - e0 * e0 * ((lit l + 1) * ((1 + 1) * lit l - 1)) = 0.
    Proof.
      cbv zeta.
      pose proof (proj1 (weight_exprs (lit (S l)) (lit mn)) Hd1) as E1. rewrite <- Ha1 in E1.
      set (e1 := a i (S l)) in *.
      set (t := (1 + 1) * lit l + 1) in *.
      destruct (Nat.eqb_spec l 0) as [Hl0|Hl0].
      - assert (mn = 0)%nat by lia. subst mn l. cbn [lit] in *. ring.
      - pose proof (proj1 (weight_exprs (lit l) (lit mn)) Hd0) as E0. rewrite <- Ha0 in E0 by lia.
        set (e0 := a i l) in *.
        set (K := - (lit mn * lit mn) + lit l * (lit l + 1)
                  - e1 * e1 * (lit l * ((1 + 1) * lit l + (1 + 1 + 1)))
                  - e0 * e0 * ((lit l + 1) * ((1 + 1) * lit l - 1))).
        assert (HK : K * t = 0).
        { cbn [lit] in E1, E0.
          transitivity (- lit l * (e1 * e1 * ((0 + 1 + 1 + 1 + 1) * ((lit l + 1) * (lit l + 1)) - (0 + 1))
                                   - ((lit l + 1) * (lit l + 1) - lit mn * lit mn))
                        - (lit l + 1) * (e0 * e0 * ((0 + 1 + 1 + 1 + 1) * (lit l * lit l) - (0 + 1))
                                         - (lit l * lit l - lit mn * lit mn))).
          - unfold K, t. ring.
          - rewrite E1, E0. ring. }
        exact (mul_cancel_r K t H2l1 HK).
    Qed.

    Lemma lit_pred k : (1 <= k)%nat -> lit (k - 1) = lit k - 1.
    Proof. intros H. replace k with (S (k - 1)) at 2 by lia. cbn [lit]. ring. Qed.

    Theorem cos2_laplacian_identity :
      D1 L C a b (D1 L C a b x) i l - lit mn * lit mn * x i l
      = y i l - Mmu C a b (Mmu C a b y) i l.
    Proof.
      pose proof cos2_diag as D. cbv zeta in D.
      assert (Hmn2 : lit mn * lit mn =
                     lit l * (lit l + 1)
                     - a i (S l) * a i (S l) * (lit l * ((1 + 1) * lit l + (1 + 1 + 1)))
                     - (if Nat.eqb l 0 then 0 else a i l) * (if Nat.eqb l 0 then 0 else a i l)
                       * ((lit l + 1) * ((1 + 1) * lit l - 1))).
      { match type of D with ?e = 0 => transitivity (lit l * (lit l + 1)
                     - a i (S l) * a i (S l) * (lit l * ((1 + 1) * lit l + (1 + 1 + 1)))
                     - (if Nat.eqb l 0 then 0 else a i l) * (if Nat.eqb l 0 then 0 else a i l)
                       * ((lit l + 1) * ((1 + 1) * lit l - 1)) - e) end; [ring|rewrite D; ring]. }
      rewrite Hmn2. clear D Hmn2.
      rewrite (D1_entries L C a b (D1 L C a b x) i l) by lia.
      rewrite (Mmu_entries C a b (Mmu C a b y) i l) by lia.
      unfold tri.
      destruct (Nat.ltb_spec (S l) C) as [_|]; [|lia].
      rewrite (D1_entries L C a b x i (S l)), (Mmu_entries C a b y i (S l)) by lia.
      unfold tri.
      destruct (Nat.ltb_spec (S (S l)) C) as [_|]; [|lia].
      destruct (Nat.eqb_spec (S l) 0) as [|_]; [lia|].
      replace (S l - 1)%nat with l by lia.
      rewrite !(laxis_lt L (S l)), !(laxis_lt L (S (S l))), !(laxis_lt L l) by lia.
      rewrite !y_val by lia. rewrite Hb0.
      destruct (Nat.eqb_spec l 0) as [Hl0|Hl0].
      - rewrite Hl0. cbn [lit]. ring.
      - rewrite (D1_entries L C a b x i (l - 1)), (Mmu_entries C a b y i (l - 1)) by lia.
        unfold tri.
        replace (S (l - 1)) with l by lia.
        destruct (Nat.ltb_spec l C) as [_|]; [|lia].
        rewrite !(laxis_lt L l), !(laxis_lt L (l - 1)) by lia.
        rewrite !y_val by lia. rewrite (Hb1 ltac:(lia)).
        destruct (Nat.eqb_spec (l - 1) 0) as [Hl1|Hl1].
        + rewrite !lit_pred by lia. cbn [lit]. ring.
        + rewrite !(laxis_lt L (l - 1 - 1)) by lia. rewrite ?y_val by lia.
          rewrite (lit_pred (l - 1)) by lia. rewrite !(lit_pred l) by lia. cbn [lit]. ring.
    Qed.
  End Cos2.

  (** *** unified view of [d_dlon] (both layouts) *)
  Definition jmul (fast : bool) (i : nat) : nat := if fast then dfast_j 0 i else dref_j i.
  Definition dcond (fast : bool) (i : nat) : bool := if fast then dfast_cond i else dref_cond i.

  Lemma d_dlon_unfold fast R (x : arr2) i l :
    (i < R)%nat ->
    d_dlon fast R x i l =
    lit (jmul fast i) * (if dcond fast i
                         then (if Nat.ltb (S i) R then x (S i) l else 0)
                         else - (if Nat.eqb i 0 then 0 else x (i - 1)%nat l)).
  Proof.
    intros Hi. unfold d_dlon, jmul, dcond. destruct fast.
    - rewrite dlon_fast_unfold by assumption. reflexivity.
    - rewrite dlon_ref_unfold by assumption. reflexivity.
  Qed.

  Lemma d_dlon_opp fast R (x : arr2) i l :
    (i < R)%nat -> d_dlon fast R (fun i l => - x i l) i l = - d_dlon fast R x i l.
  Proof.
    intros Hi. rewrite !d_dlon_unfold by assumption.
    destruct (dcond fast i), (Nat.ltb (S i) R), (Nat.eqb i 0); ring.
  Qed.

  Lemma d_dlon_div fast R (x : arr2) r i l :
    r <> 0 -> (i < R)%nat -> d_dlon fast R (fun i l => x i l / r) i l = d_dlon fast R x i l / r.
  Proof.
    intros Hr Hi. rewrite !d_dlon_unfold by assumption.
    destruct (dcond fast i), (Nat.ltb (S i) R), (Nat.eqb i 0); field; exact Hr.
  Qed.

  Lemma d_dlon_ext fast R (x y : arr2) i l :
    (forall i', (i' < R)%nat -> x i' l = y i' l) -> (i < R)%nat ->
    d_dlon fast R x i l = d_dlon fast R y i l.
  Proof.
    intros H Hi. rewrite !d_dlon_unfold by assumption.
    destruct (dcond fast i).
    - destruct (Nat.ltb_spec (S i) R); [rewrite H by lia|]; reflexivity.
    - destruct (Nat.eqb_spec i 0); [|rewrite H by lia]; reflexivity.
  Qed.

  (** the layout's row count has the parity the code insists on *)
  Definition layout_ok (fast : bool) (R : nat) : Prop := (R mod 2 = if fast then 0 else 1)%nat.

  (** partner row (cos <-> sin of the same wavenumber) *)
  Definition partner (fast : bool) (i : nat) : nat :=
    if dcond fast i then S i else (i - 1)%nat.

  Lemma d_dlon_partner fast R (x : arr2) i l :
    layout_ok fast R -> (i < R)%nat ->
    (partner fast i < R)%nat /\
    d_dlon fast R x i l = (if dcond fast i then lit (jmul fast i) else - lit (jmul fast i)) * x (partner fast i) l.
  Proof.
    intros HR Hi. rewrite d_dlon_unfold by assumption. unfold partner, layout_ok in *.
    destruct fast; unfold dcond, jmul, dfast_cond, dref_cond, dfast_j, dref_j in *.
    - destruct (Nat.eqb_spec ((i + 1) mod 2) 0) as [E|E]; cbn [negb].
      + split; [lia|]. destruct (Nat.eqb_spec i 0); [lia|]. ring.
      + split; [lia|]. destruct (Nat.ltb_spec (S i) R); [ring|lia].
    - destruct (Nat.eqb_spec (i mod 2) 0) as [E|E]; cbn [negb].
      + split; [lia|]. destruct (Nat.eqb_spec i 0) as [->|]; [cbn; ring|ring].
      + split; [lia|]. destruct (Nat.ltb_spec (S i) R); [ring|lia].
  Qed.

  (** d_dlon commutes with every tridiagonal column operator whose weights agree on partner rows
      (or vanish where the multiplier is zero: row 0) *)
  Definition sym_rows (fast : bool) (R : nat) (w : nat -> nat -> F) : Prop :=
    forall i l, (i < R)%nat -> jmul fast i <> 0%nat -> w i l = w (partner fast i) l.

  Lemma tri_dlon_commute fast R C (wm wp : nat -> nat -> F) (x : arr2) i l :
    layout_ok fast R -> (i < R)%nat -> sym_rows fast R wm -> sym_rows fast R wp ->
    d_dlon fast R (tri C wm wp x) i l = tri C wm wp (d_dlon fast R x) i l.
  Proof.
    intros HR Hi Sm Sp.
    destruct (d_dlon_partner fast R (tri C wm wp x) i l HR Hi) as [Hp ->].
    unfold tri.
    rewrite (proj2 (d_dlon_partner fast R x i (S l) HR Hi)).
    rewrite (proj2 (d_dlon_partner fast R x i (l - 1)%nat HR Hi)).
    destruct (Nat.eq_dec (jmul fast i) 0) as [E|E].
    - rewrite E. cbn [lit]. destruct (dcond fast i), (Nat.ltb (S l) C), (Nat.eqb l 0); ring.
    - rewrite (Sm i (S l) Hi E), (Sp i (l - 1)%nat Hi E).
      destruct (dcond fast i), (Nat.ltb (S l) C), (Nat.eqb l 0); ring.
  Qed.

  Lemma tri_ext C (wm wp : nat -> nat -> F) (x y : arr2) i l :
    (forall l', x i l' = y i l') -> tri C wm wp x i l = tri C wm wp y i l.
  Proof. intros H. unfold tri. now rewrite !H. Qed.

  Theorem dlon_commutes fast L R C (a b x : arr2) i l :
    layout_ok fast R -> (i < R)%nat -> (l < C)%nat -> sym_rows fast R a -> sym_rows fast R b ->
    d_dlon fast R (D1 L C a b x) i l = D1 L C a b (d_dlon fast R x) i l /\
    d_dlon fast R (D2 L C a b x) i l = D2 L C a b (d_dlon fast R x) i l /\
    d_dlon fast R (Mmu C a b x) i l = Mmu C a b (d_dlon fast R x) i l.
  Proof.
    intros HR Hi Hl Sa Sb.
    assert (S1 : forall f : nat -> F, sym_rows fast R (fun i l => f l * a i l)).
    { intros f i' l' H1 H2. now rewrite (Sa i' l' H1 H2). }
    assert (S2 : forall f : nat -> F, sym_rows fast R (fun i l => f l * b i l)).
    { intros f i' l' H1 H2. now rewrite (Sb i' l' H1 H2). }
    repeat split.
    - rewrite (D1_entries L C a b (d_dlon fast R x)) by assumption.
      rewrite <- (tri_dlon_commute fast R C _ _ x i l HR Hi
                    (S1 (fun l => lit (laxis L l) + 1)) (S2 (fun l => - lit (laxis L l)))).
      apply d_dlon_ext; [|assumption]. intros i' _. now apply D1_entries.
    - rewrite (D2_entries L C a b (d_dlon fast R x)) by assumption.
      rewrite <- (tri_dlon_commute fast R C _ _ x i l HR Hi
                    (S1 (fun l => lit (laxis L l) - 1)) (S2 (fun l => - (lit (laxis L l) + (1 + 1))))).
      apply d_dlon_ext; [|assumption]. intros i' _. now apply D2_entries.
    - rewrite (Mmu_entries C a b (d_dlon fast R x)) by assumption.
      rewrite <- (tri_dlon_commute fast R C _ _ x i l HR Hi Sa Sb).
      apply d_dlon_ext; [|assumption]. intros i' _. now apply Mmu_entries.
  Qed.

  (** *** linearity of the latitude operators *)
  Lemma D2_opp L C (a b x : arr2) i l :
    (l < C)%nat -> D2 L C a b (fun i l => - x i l) i l = - D2 L C a b x i l.
  Proof.
    intros Hl. rewrite !D2_entries by assumption. unfold tri.
    destruct (Nat.ltb (S l) C), (Nat.eqb l 0); ring.
  Qed.

  Lemma D2_div L C (a b x : arr2) r i l :
    r <> 0 -> (l < C)%nat -> D2 L C a b (fun i l => x i l / r) i l = D2 L C a b x i l / r.
  Proof.
    intros Hr Hl. rewrite !D2_entries by assumption. unfold tri.
    destruct (Nat.ltb (S l) C), (Nat.eqb l 0); field; exact Hr.
  Qed.

  (** *** vector algebra of the coefficient operators (no nodal step) *)
  Theorem div_kcross fast L R C r (a b : arr2) c (v : vec2) i l :
    r <> 0 -> (i < R)%nat -> (l < C)%nat ->
    div_cos_lat fast L R C r a b c (k_cross v) i l = - curl_cos_lat fast L R C r a b c v i l.
  Proof.
    intros Hr Hi Hl. unfold div_cos_lat, curl_cos_lat, k_cross, clip_if, clip. cbn [fst snd].
    destruct c; rewrite d_dlon_opp by assumption; field; exact Hr.
  Qed.

  Theorem curl_kcross fast L R C r (a b : arr2) c (v : vec2) i l :
    r <> 0 -> (i < R)%nat -> (l < C)%nat ->
    curl_cos_lat fast L R C r a b c (k_cross v) i l = div_cos_lat fast L R C r a b c v i l.
  Proof.
    intros Hr Hi Hl. unfold div_cos_lat, curl_cos_lat, k_cross, clip_if, clip. cbn [fst snd].
    destruct c; rewrite D2_opp by assumption; field; exact Hr.
  Qed.

  (** curl of the (cos^2-weighted) spectral gradient is 2 M_mu d_dlon / r^2, not 0:
      the sec^2 factor of the nodal path is needed *)
  Theorem curl_grad_spectral fast L R C r (a b x : arr2) i l :
    r <> 0 -> layout_ok fast R -> (i < R)%nat -> (l < C)%nat -> sym_rows fast R a -> sym_rows fast R b ->
    curl_cos_lat fast L R C r a b false (cos_lat_grad fast L R C r a b false x) i l
    = (1 + 1) * Mmu C a b (d_dlon fast R x) i l / (r * r).
  Proof.
    intros Hr HR Hi Hl Sa Sb. unfold curl_cos_lat, cos_lat_grad, clip_if. cbn [fst snd].
    rewrite d_dlon_div, D2_div by assumption.
    destruct (dlon_commutes fast L R C a b x i l HR Hi Hl Sa Sb) as (E1 & _ & _).
    rewrite E1, D2_eq_D1_minus_2mu by assumption. field. exact Hr.
  Qed.

  (** div of the spectral gradient: (d_dlon^2 + D1 D1 - 2 M_mu D1)/r^2 *)
  Theorem div_grad_spectral fast L R C r (a b x : arr2) i l :
    r <> 0 -> (i < R)%nat -> (l < C)%nat ->
    div_cos_lat fast L R C r a b false (cos_lat_grad fast L R C r a b false x) i l
    = (d_dlon fast R (d_dlon fast R x) i l + D1 L C a b (D1 L C a b x) i l
       - (1 + 1) * Mmu C a b (D1 L C a b x) i l) / (r * r).
  Proof.
    intros Hr Hi Hl. unfold div_cos_lat, cos_lat_grad, clip_if. cbn [fst snd].
    rewrite d_dlon_div, D2_div by assumption.
    rewrite D2_eq_D1_minus_2mu by assumption. field. exact Hr.
  Qed.

  (** *** homogeneity in the radius *)
  Theorem radius_scaling fast L R C r k (a b x : arr2) (v : vec2) c i l :
    r <> 0 -> k <> 0 ->
    laplacian L (k * r) x i l = laplacian L r x i l / (k * k) /\
    ((1 <= l < L)%nat -> lit l <> 0 -> lit l + 1 <> 0 ->
     inverse_laplacian L (k * r) x i l = inverse_laplacian L r x i l * (k * k)) /\
    fst (cos_lat_grad fast L R C (k * r) a b c x) i l = fst (cos_lat_grad fast L R C r a b c x) i l / k /\
    snd (cos_lat_grad fast L R C (k * r) a b c x) i l = snd (cos_lat_grad fast L R C r a b c x) i l / k /\
    div_cos_lat fast L R C (k * r) a b c v i l = div_cos_lat fast L R C r a b c v i l / k /\
    curl_cos_lat fast L R C (k * r) a b c v i l = curl_cos_lat fast L R C r a b c v i l / k.
  Proof.
    intros Hr Hk. repeat split.
    - unfold laplacian. rewrite !lap_eig_val. field. split; assumption.
    - intros Hl H0 H1. unfold inverse_laplacian, inv_eig.
      destruct (Nat.eqb_spec l 0); [lia|]. destruct (Nat.leb_spec L l); [lia|].
      rewrite !lap_eig_val, laxis_lt by lia.
      assert (Hn : - lit l <> 0) by (intro E; apply H0; transitivity (- - lit l); [ring|rewrite E; ring]).
      field. repeat split; assumption.
    - unfold cos_lat_grad, clip_if, clip. cbn [fst]. destruct c; field; split; assumption.
    - unfold cos_lat_grad, clip_if, clip. cbn [snd]. destruct c; field; split; assumption.
    - unfold div_cos_lat, clip_if, clip. destruct c; field; split; assumption.
    - unfold curl_cos_lat, clip_if, clip. destruct c; field; split; assumption.
  Qed.

  (** *** what the default clip removes: the top coefficient of cos(lat) d/dlat of a field of degree L-2 *)
  Theorem grad_top_clipped fast L R C r (a b x : arr2) i :
    r <> 0 -> (2 <= L <= C)%nat -> ((L < C)%nat -> x i L = 0) ->
    snd (cos_lat_grad fast L R C r a b true x) i (L - 1)%nat = 0 /\
    snd (cos_lat_grad fast L R C r a b false x) i (L - 1)%nat
    = - lit (L - 2) * b i (L - 2)%nat * x i (L - 2)%nat / r /\
    (forall l, (l + 1 < L)%nat ->
       snd (cos_lat_grad fast L R C r a b true x) i l = snd (cos_lat_grad fast L R C r a b false x) i l).
  Proof.
    intros Hr HL Hx. unfold cos_lat_grad, clip_if, clip. cbn [snd]. repeat split.
    - destruct (Nat.ltb_spec (L - 1) (C - (1 + (C - L)))); [lia|]. field. exact Hr.
    - rewrite D1_entries by lia. unfold tri.
      replace (S (L - 1)) with L by lia. replace (L - 1 - 1)%nat with (L - 2)%nat by lia.
      destruct (Nat.eqb_spec (L - 1) 0); [lia|].
      rewrite (laxis_lt L (L - 2)) by lia.
      destruct (Nat.ltb_spec L C) as [H|H].
      + rewrite (Hx H). field. exact Hr.
      + field. exact Hr.
    - intros l Hl. destruct (Nat.ltb_spec l (C - (1 + (C - L)))); [|lia]. field. exact Hr.
  Qed.

  (** *** identities through the nodal sec^2 step, from the two abstract hypotheses H_sec2
      ([S] = to_modal(sec^2 * to_nodal(.)), not modelled here; the hypotheses are table obligations
      checked on every basis vector of degree <= L-3 on every explored grid) *)
  Theorem vecid_sec2 fast L R C r (a b : arr2) (S : arr2 -> arr2) (psi : arr2) i l :
    r <> 0 -> (i < R)%nat -> (l < C)%nat ->
    let g := cos_lat_grad fast L R C r a b true psi in
    let sg := (S (fst g), S (snd g)) in
    (* H_sec2_curl *) d_dlon fast R (S (snd g)) i l = D2 L C a b (S (fst g)) i l ->
    (* H_sec2_div  *) d_dlon fast R (S (fst g)) i l + D2 L C a b (S (snd g)) i l = r * laplacian L r psi i l ->
    curl_cos_lat fast L R C r a b true sg i l = 0 /\
    div_cos_lat fast L R C r a b true (k_cross sg) i l = 0 /\
    div_cos_lat fast L R C r a b true sg i l = clip L C 1 (laplacian L r psi) i l.
  Proof.
    intros Hr Hi Hl g sg Hc Hd.
    assert (E1 : curl_cos_lat fast L R C r a b true sg i l = 0).
    { unfold curl_cos_lat, clip_if, clip, sg. cbn [fst snd]. rewrite Hc. field. exact Hr. }
    repeat split.
    - exact E1.
    - rewrite div_kcross by assumption. rewrite E1. ring.
    - unfold div_cos_lat, clip_if, clip, sg. cbn [fst snd]. rewrite Hd. field. exact Hr.
  Qed.
End DerivThm.
