(** Theorems about the model of dinosaur/shallow_water.py (Model/ShallowWater.v):
    equatorial-mirror and longitude-rotation equivariance of the assembled explicit
    tendencies (property C10), zero (0,0) coefficients and support pattern of the
    tendencies (property C11).  Every field, every size, every number of layers, any
    densities / orography, both modal layouts. *)
From Dino Require Import Base.Ops Base.Sums Base.Ord Gen.DerivExprs Model.SHT Model.Deriv Model.Invariants Model.Sigma Model.Implicit
     Model.PrimEq Model.Symmetry Model.ShallowWater Thm.SHT Thm.Deriv Thm.Invariants Thm.Symmetry.
From Coq Require Import ZifyNat.
Local Open Scope F_scope.

(** * 1. the nodal algebra of one node under the actions *)
Section SWNodal.
  Context {F : Type} {o : Ops F} {Fc : FieldC o}.
  Add Field FFsw1 : (field_c : FieldTh o).

  (** [sg] = -1: reflection (b = (odd, even) pseudo-vector, g = (even, odd) vector, e even); [sg] = 1: rotations *)
  Theorem sw_nodal_act (sg : F) (x : SWCol) k :
    sg * sg = 1 ->
    sw_b_u (swcol_act sg x) k = sg * sw_b_u x k /\
    sw_b_v (swcol_act sg x) k = sw_b_v x k /\
    sw_g_u (swcol_act sg x) k = sw_g_u x k /\
    sw_g_v (swcol_act sg x) k = sg * sw_g_v x k /\
    sw_e (swcol_act sg x) k = sw_e x k.
  Proof.
    intros Hs. unfold sw_b_u, sw_b_v, sw_g_u, sw_g_v, sw_e, sw_total_vorticity, swcol_act.
    cbn [s_u s_v s_vort s_pot s_sec2 s_f].
    repeat split; try ring.
    - transitivity ((sg * sg) * (s_v x k * (s_vort x k + s_f x) * s_sec2 x)); [ring|rewrite Hs; ring].
    - rewrite !fdiv_mul.
      transitivity ((s_u x k * s_u x k + (sg * sg) * (s_v x k * s_v x k)) * s_sec2 x * finv (1 + 1)); [ring|rewrite Hs; ring].
  Qed.

  Lemma neg1_sq : (- (1)) * (- (1)) = (1 : F).
  Proof. ring. Qed.

  (** the mirror parities, spelled out *)
  Theorem sw_nodal_mirror (x : SWCol) k :
    sw_b_u (swcol_mirror x) k = - sw_b_u x k /\
    sw_b_v (swcol_mirror x) k = sw_b_v x k /\
    sw_g_u (swcol_mirror x) k = sw_g_u x k /\
    sw_g_v (swcol_mirror x) k = - sw_g_v x k /\
    sw_e (swcol_mirror x) k = sw_e x k.
  Proof.
    destruct (sw_nodal_act (- (1)) x k neg1_sq) as (A & B & C & D & E). unfold swcol_mirror.
    rewrite A, B, C, D, E. repeat split; ring.
  Qed.

  (** two columns that agree on the layers k < N give the same nodal expressions there *)
  Definition swcol_eqv (N : nat) (x y : @SWCol F) : Prop :=
    (forall k, (k < N)%nat -> s_u x k = s_u y k) /\ (forall k, (k < N)%nat -> s_v x k = s_v y k) /\
    (forall k, (k < N)%nat -> s_vort x k = s_vort y k) /\ (forall k, (k < N)%nat -> s_pot x k = s_pot y k) /\
    s_sec2 x = s_sec2 y /\ s_f x = s_f y.

  Theorem sw_nodal_cong N (x y : SWCol) k :
    swcol_eqv N x y -> (k < N)%nat ->
    sw_b_u x k = sw_b_u y k /\ sw_b_v x k = sw_b_v y k /\ sw_g_u x k = sw_g_u y k /\ sw_g_v x k = sw_g_v y k /\
    sw_e x k = sw_e y k.
  Proof.
    intros (Eu & Ev & Ez & Ep & Es & Ef) Hk.
    unfold sw_b_u, sw_b_v, sw_g_u, sw_g_v, sw_e, sw_total_vorticity.
    rewrite (Eu k Hk), (Ev k Hk), (Ez k Hk), (Ep k Hk), Es, Ef. repeat split; reflexivity.
  Qed.
End SWNodal.

(** * 2. the assembled tendencies over abstract horizontal operators: one section for both actions.
    [Te] acts on the modal coefficients of true scalars and first components of vectors, [To] on pseudo-scalars and
    second components; the nodes are permuted by [piN]; the per-node sign is [sg] (-1: mirror, 1: rotation, Te = To) *)
Section SWTendencySym.
  Context {F : Type} {o : Ops F} {Fc : FieldC o}.
  Add Field FFsw2 : (field_c : FieldTh o).
  Variables W P : Type.
  Variable inW : W -> Prop.
  Variable inP : P -> Prop.
  Variable toM : (P -> F) -> W -> F.
  Variable divc curlc : (W -> F) -> (W -> F) -> W -> F.
  Variable lap clip : (W -> F) -> W -> F.
  Variable N : nat.
  Variable dens : nat -> F.
  Variable piN : P -> P.
  Variable Te To : (W -> F) -> W -> F.
  Variable sg : F.
  Hypothesis sg_sq : sg * sg = 1.

  Hypothesis toM_ext : forall z z', (forall p, inP p -> z p = z' p) -> forall w, inW w -> toM z w = toM z' w.
  Hypothesis clip_ext : ext1 W inW clip.
  Hypothesis lap_ext : ext1 W inW lap.
  Hypothesis divc_ext : ext2 W inW divc.
  Hypothesis curlc_ext : ext2 W inW curlc.
  Hypothesis Te_ext : ext1 W inW Te.
  Hypothesis Te_lin : lin1 W inW Te.
  Hypothesis To_lin : lin1 W inW To.
  Hypothesis toM_e : forall z w, inW w -> toM (fun p => z (piN p)) w = Te (toM z) w.
  Hypothesis toM_o : forall z w, inW w -> toM (fun p => sg * z (piN p)) w = To (toM z) w.
  Hypothesis divc_e : forall a b w, inW w -> divc (Te a) (To b) w = Te (divc a b) w.
  Hypothesis divc_o : forall a b w, inW w -> divc (To a) (Te b) w = To (divc a b) w.
  Hypothesis curlc_o : forall a b w, inW w -> curlc (To a) (Te b) w = Te (curlc a b) w.
  Hypothesis lap_e : forall a w, inW w -> lap (Te a) w = Te (lap a) w.
  Hypothesis clip_e : forall a w, inW w -> clip (Te a) w = Te (clip a) w.
  Hypothesis clip_o : forall a w, inW w -> clip (To a) w = To (clip a) w.

  (** the nodal columns of the transformed state *)
  Definition sw_actX (X : P -> @SWCol F) : P -> @SWCol F := fun p => swcol_act sg (X (piN p)).
  Definition sw_cols_eqv (X Y : P -> @SWCol F) : Prop := forall p, inP p -> swcol_eqv N (X p) (Y p).

  Lemma toM_e' (z' z : P -> F) w : (forall p, inP p -> z' p = z (piN p)) -> inW w -> toM z' w = Te (toM z) w.
  Proof. intros E Hw. rewrite <- toM_e by assumption. now apply toM_ext. Qed.
  Lemma toM_o' (z' z : P -> F) w : (forall p, inP p -> z' p = sg * z (piN p)) -> inW w -> toM z' w = To (toM z) w.
  Proof. intros E Hw. rewrite <- toM_o by assumption. now apply toM_ext. Qed.

  (** a linear operator commutes with the weighted sum over the layers *)
  Lemma lin1_sumn (T : (W -> F) -> W -> F) (c : nat -> F) (x : nat -> W -> F) n w :
    lin1 W inW T -> ext1 W inW T -> inW w ->
    T (fun w' => sumn n (fun b => c b * x b w')) w = sumn n (fun b => c b * T (x b) w).
  Proof.
    intros (Tadd & Topp & Tscal) Text Hw. induction n as [|n IH].
    - cbn [sumn]. rewrite (Text _ (fun w' => 0 * x 0%nat w')) by (try assumption; intros; ring).
      rewrite Tscal by assumption. ring.
    - cbn [sumn].
      rewrite (Tadd (fun w' => sumn n (fun b => c b * x b w')) (fun w' => c n * x n w') w Hw), IH, Tscal by assumption.
      reflexivity.
  Qed.

  (** the pressure term is linear in the modal potentials and the orography *)
  Lemma sw_pressure_sym (pot : nat -> W -> F) (orog : option (W -> F)) a w :
    inW w ->
    sw_pressure W N dens (fun b => Te (pot b)) (option_map Te orog) a w = Te (sw_pressure W N dens pot orog a) w.
  Proof.
    intros Hw. destruct Te_lin as (Tadd & _). unfold sw_pressure. destruct orog as [h|]; cbn [option_map].
    - rewrite (Tadd (fun w' => sumn N (fun b => density_ratio dens a b * pot b w')) h w Hw).
      rewrite lin1_sumn by assumption. reflexivity.
    - rewrite lin1_sumn by assumption. reflexivity.
  Qed.

  Lemma sw_b_pair (X : P -> SWCol) r :
    (forall w, inW w -> toM (fun p => sw_b_u (sw_actX X p) r) w = To (toM (fun p => sw_b_u (X p) r)) w) /\
    (forall w, inW w -> toM (fun p => sw_b_v (sw_actX X p) r) w = Te (toM (fun p => sw_b_v (X p) r)) w).
  Proof.
    split; intros w Hw.
    - apply toM_o'; [|assumption]. intros p _. exact (proj1 (sw_nodal_act sg (X (piN p)) r sg_sq)).
    - apply toM_e'; [|assumption]. intros p _. exact (proj1 (proj2 (sw_nodal_act sg (X (piN p)) r sg_sq))).
  Qed.

  (** vorticity: a pseudo-scalar *)
  Theorem sw_vorticity_sym (X : P -> SWCol) r w :
    inW w ->
    sw_vort_explicit W P toM divc clip (sw_actX X) r w = To (sw_vort_explicit W P toM divc clip X r) w.
  Proof.
    intros Hw. destruct To_lin as (_ & Topp & _). destruct (sw_b_pair X r) as [BU BV].
    unfold sw_vort_explicit. cbv zeta. rewrite <- clip_o by assumption. apply clip_ext; [|assumption]. intros w' Hw'.
    rewrite Topp by assumption. f_equal.
    rewrite <- divc_o by assumption. apply divc_ext; assumption.
  Qed.

  (** divergence: a scalar; the orography and the potentials of the transformed configuration are the transformed ones *)
  Theorem sw_divergence_sym (X : P -> SWCol) (pot : nat -> W -> F) (orog : option (W -> F)) r w :
    inW w ->
    sw_div_explicit W P toM curlc lap clip N dens (sw_actX X) (fun b => Te (pot b)) (option_map Te orog) r w
    = Te (sw_div_explicit W P toM curlc lap clip N dens X pot orog r) w.
  Proof.
    intros Hw. destruct Te_lin as (Tadd & Topp & _). destruct (sw_b_pair X r) as [BU BV].
    unfold sw_div_explicit. cbv zeta. rewrite <- clip_e by assumption. apply clip_ext; [|assumption]. intros w' Hw'.
    rewrite Tadd, Topp by assumption. f_equal; [f_equal|].
    - rewrite <- lap_e by assumption. apply lap_ext; [|assumption]. intros w'' Hw''.
      rewrite Tadd by assumption. f_equal.
      + now apply sw_pressure_sym.
      + apply toM_e'; [|assumption]. intros p _.
        exact (proj2 (proj2 (proj2 (proj2 (sw_nodal_act sg (X (piN p)) r sg_sq))))).
    - rewrite <- curlc_o by assumption. apply curlc_ext; assumption.
  Qed.

  (** potential (layer thickness): a scalar *)
  Theorem sw_potential_sym (X : P -> SWCol) r w :
    inW w ->
    sw_pot_explicit W P toM divc clip (sw_actX X) r w = Te (sw_pot_explicit W P toM divc clip X r) w.
  Proof.
    intros Hw. destruct Te_lin as (_ & Topp & _).
    unfold sw_pot_explicit. cbv zeta. rewrite <- clip_e by assumption. apply clip_ext; [|assumption]. intros w' Hw'.
    rewrite Topp by assumption. f_equal.
    rewrite <- divc_e by assumption. apply divc_ext; try assumption; intros w'' Hw''.
    - apply toM_e'; [|assumption]. intros p _. exact (proj1 (proj2 (proj2 (sw_nodal_act sg (X (piN p)) r sg_sq)))).
    - apply toM_o'; [|assumption]. intros p _. exact (proj1 (proj2 (proj2 (proj2 (sw_nodal_act sg (X (piN p)) r sg_sq))))).
  Qed.

  (** congruence of the assembly in the family of columns and in the modal inputs *)
  Theorem sw_assembly_cong (X Y : P -> SWCol) (pot pot' : nat -> W -> F) (orog orog' : option (W -> F)) r w :
    sw_cols_eqv X Y -> (r < N)%nat -> inW w ->
    (forall b w', (b < N)%nat -> inW w' -> pot b w' = pot' b w') ->
    (forall w', inW w' -> match orog, orog' with Some h, Some h' => h w' = h' w' | None, None => True | _, _ => False end) ->
    sw_vort_explicit W P toM divc clip X r w = sw_vort_explicit W P toM divc clip Y r w /\
    sw_div_explicit W P toM curlc lap clip N dens X pot orog r w = sw_div_explicit W P toM curlc lap clip N dens Y pot' orog' r w /\
    sw_pot_explicit W P toM divc clip X r w = sw_pot_explicit W P toM divc clip Y r w.
  Proof.
    intros EXY Hr Hw Hpot Horo.
    assert (NC : forall p, inP p -> _) by (intros p Hp; exact (sw_nodal_cong N (X p) (Y p) r (EXY p Hp) Hr)).
    assert (BU : forall w', inW w' -> toM (fun p => sw_b_u (X p) r) w' = toM (fun p => sw_b_u (Y p) r) w').
    { intros w' Hw'. apply toM_ext; [|assumption]. intros p Hp. exact (proj1 (NC p Hp)). }
    assert (BV : forall w', inW w' -> toM (fun p => sw_b_v (X p) r) w' = toM (fun p => sw_b_v (Y p) r) w').
    { intros w' Hw'. apply toM_ext; [|assumption]. intros p Hp. exact (proj1 (proj2 (NC p Hp))). }
    repeat split.
    - unfold sw_vort_explicit. cbv zeta. apply clip_ext; [|assumption]. intros w' Hw'. f_equal. apply divc_ext; assumption.
    - unfold sw_div_explicit. cbv zeta. apply clip_ext; [|assumption]. intros w' Hw'. f_equal; [f_equal|].
      + apply lap_ext; [|assumption]. intros w'' Hw''. f_equal.
        * unfold sw_pressure. specialize (Horo w'' Hw'').
          assert (ES : sumn N (fun b => density_ratio dens r b * pot b w'') = sumn N (fun b => density_ratio dens r b * pot' b w'')).
          { apply sumn_ext; intros b Hb. now rewrite (Hpot b w'' Hb Hw''). }
          destruct orog as [h|], orog' as [h'|]; try contradiction; rewrite ES; [rewrite Horo|]; reflexivity.
        * apply toM_ext; [|assumption]. intros p Hp. exact (proj2 (proj2 (proj2 (proj2 (NC p Hp))))).
      + apply curlc_ext; assumption.
    - unfold sw_pot_explicit. cbv zeta. apply clip_ext; [|assumption]. intros w' Hw'. f_equal.
      apply divc_ext; try assumption; intros w'' Hw''; apply toM_ext; try assumption; intros p Hp.
      + exact (proj1 (proj2 (proj2 (NC p Hp)))).
      + exact (proj1 (proj2 (proj2 (proj2 (NC p Hp))))).
  Qed.

  (** the tendencies of ANY column family X' that agrees entrywise with the transformed family of X (as the columns
      synthesised from the transformed modal state do) are the transformed tendencies *)
  Theorem sw_transformed_columns_tendency (X X' : P -> SWCol) (pot pot' : nat -> W -> F) (orog : option (W -> F)) r w :
    sw_cols_eqv X' (sw_actX X) -> (r < N)%nat -> inW w ->
    (forall b w', (b < N)%nat -> inW w' -> pot' b w' = Te (pot b) w') ->
    sw_vort_explicit W P toM divc clip X' r w = To (sw_vort_explicit W P toM divc clip X r) w /\
    sw_div_explicit W P toM curlc lap clip N dens X' pot' (option_map Te orog) r w
      = Te (sw_div_explicit W P toM curlc lap clip N dens X pot orog r) w /\
    sw_pot_explicit W P toM divc clip X' r w = Te (sw_pot_explicit W P toM divc clip X r) w.
  Proof.
    intros EX Hr Hw Hpot.
    destruct (sw_assembly_cong X' (sw_actX X) pot' (fun b => Te (pot b)) (option_map Te orog) (option_map Te orog) r w EX Hr Hw Hpot)
      as (A1 & A2 & A3).
    { intros w' _. destruct orog; cbn [option_map]; [reflexivity|exact I]. }
    rewrite A1, A2, A3. repeat split.
    - now apply sw_vorticity_sym.
    - now apply sw_divergence_sym.
    - now apply sw_potential_sym.
  Qed.
End SWTendencySym.

(** * 3. the concrete (materialised) operators of Model/ShallowWater.v agree with the plain ones on the index range *)
Section SWConcreteOps.
  Context {F : Type} {o : Ops F} {Fc : FieldC o}.
  Add Field FFsw3 : (field_c : FieldTh o).
  Variables (fast : bool) (R L I J N : nat).
  Variable f : nat -> nat -> F.
  Variable p : nat -> nat -> nat -> F.
  Variable wq : nat -> F.
  Variables (rad : F) (wa wb : @marr F).

  Notation inW := (inWc R L).
  Notation inP := (inPc I J).
  Notation toMs := (sw_toM R L I J f p wq).
  Notation divs := (sw_divc fast R L rad wa wb).
  Notation curls := (sw_curlc fast R L rad wa wb).
  Notation laps := (sw_lap L rad).
  Notation clips := (sw_clip L).

  Lemma sw_stage_ok n m (g : arr2) (w : Wn) : (fst w < n)%nat -> (snd w < m)%nat -> sw_stage n m g w = g (fst w) (snd w).
  Proof. intros H1 H2. unfold sw_stage. now apply sh_memo2_ok. Qed.

  Lemma sw_stack_ok (g : nat -> Wn -> F) k : (k < N)%nat -> sw_stack N g k = g k.
  Proof. intros Hk. unfold sw_stack. now apply nth_map_seq. Qed.

  Lemma sw_toM_plain z w : inW w -> toMs z w = toMc R I J f p wq z w.
  Proof. intros [H1 H2]. unfold sw_toM. now rewrite sw_stage_ok. Qed.

  Lemma sw_toN_ok (x : arr2) q : inP q -> sw_toN R L I J f p x q = synth R L J f p x (fst q) (snd q).
  Proof. intros [H1 H2]. unfold sw_toN. now rewrite sw_stage_ok. Qed.

  Lemma sw_divc_plain a b w :
    inW w -> divs a b w = div_cos_lat fast L R L rad wa wb true (un a, un b) (fst w) (snd w).
  Proof. intros [H1 H2]. unfold sw_divc. now rewrite sw_stage_ok. Qed.
  Lemma sw_curlc_plain a b w :
    inW w -> curls a b w = curl_cos_lat fast L R L rad wa wb true (un a, un b) (fst w) (snd w).
  Proof. intros [H1 H2]. unfold sw_curlc. now rewrite sw_stage_ok. Qed.

  Lemma sw_toM_ext : forall z z' : Wn -> F, (forall q, inP q -> z q = z' q) -> forall w, inW w -> toMs z w = toMs z' w.
  Proof. intros z z' E w Hw. rewrite !sw_toM_plain by assumption. now apply (toMc_ext R L I J f p wq). Qed.

  Lemma sw_clip_ext : ext1 Wn inW clips.
  Proof. exact (clipc_ext R L). Qed.
  Lemma sw_lap_ext : ext1 Wn inW laps.
  Proof. exact (lapc_ext R L rad). Qed.

  Lemma sw_divc_ext : ext2 Wn inW divs.
  Proof.
    intros a a' b b' Ea Eb [i l] Hw. rewrite !sw_divc_plain by assumption. destruct Hw as [Hi Hl]. cbn [fst snd] in *.
    unfold div_cos_lat, clip_if, clip. cbn [fst snd].
    rewrite (d_dlon_ext fast R (un a) (un a') i l) by (try assumption; intros i' Hi'; apply Ea; split; assumption).
    rewrite (D2_ext_range L f wa wb (un b) (un b') i l) by (try assumption; intros l' Hl'; apply Eb; split; assumption).
    reflexivity.
  Qed.
  Lemma sw_curlc_ext : ext2 Wn inW curls.
  Proof.
    intros a a' b b' Ea Eb [i l] Hw. rewrite !sw_curlc_plain by assumption. destruct Hw as [Hi Hl]. cbn [fst snd] in *.
    unfold curl_cos_lat, clip_if, clip. cbn [fst snd].
    rewrite (d_dlon_ext fast R (un b) (un b') i l) by (try assumption; intros i' Hi'; apply Eb; split; assumption).
    rewrite (D2_ext_range L f wa wb (un a) (un a') i l) by (try assumption; intros l' Hl'; apply Ea; split; assumption).
    reflexivity.
  Qed.
End SWConcreteOps.

(** * 4. mirror equivariance with the concrete transforms / spectral operators, both layouts, under H_parity, H_nodes_sym *)
Section SWConcreteMirror.
  Context {F : Type} {o : Ops F} {Fc : FieldC o}.
  Add Field FFsw4 : (field_c : FieldTh o).
  Variables (fast : bool) (R L I J N : nat).
  Variable f : nat -> nat -> F.
  Variable p : nat -> nat -> nat -> F.
  Variable wq : nat -> F.
  Variables (rad : F) (wa wb : @marr F).
  Variable dens : nat -> F.
  Hypothesis HR : layout_ok fast R.
  Hypothesis Hpar : H_parity fast R L J p.
  Hypothesis Hnod : H_nodes_sym J wq.

  Notation inW := (inWc R L).
  Notation inP := (inPc I J).
  Notation toMs := (sw_toM R L I J f p wq).
  Notation divs := (sw_divc fast R L rad wa wb).
  Notation curls := (sw_curlc fast R L rad wa wb).
  Notation laps := (sw_lap L rad).
  Notation clips := (sw_clip L).
  Notation mirw ps a := (fun w : Wn => mir_modal fast ps (un a) (fst w) (snd w)).

  Lemma sw_toM_even : forall (z : Wn -> F) w, inW w -> toMs (fun q => z (piNc J q)) w = Sec fast (toMs z) w.
  Proof.
    intros z w Hw. rewrite sw_toM_plain by assumption.
    etransitivity; [exact (toMc_even fast R L I J f p wq Hpar Hnod z w Hw)|].
    apply (Sec_ext fast R L); [|assumption]. intros w' Hw'. symmetry. now apply sw_toM_plain.
  Qed.
  Lemma sw_toM_odd : forall (z : Wn -> F) w, inW w -> toMs (fun q => (- (1)) * z (piNc J q)) w = Soc fast (toMs z) w.
  Proof.
    intros z w Hw. rewrite sw_toM_plain by assumption.
    etransitivity; [apply (toMc_ext R L I J f p wq _ (fun q => - z (piNc J q))); [intros; ring|assumption]|].
    etransitivity; [exact (toMc_odd fast R L I J f p wq Hpar Hnod z w Hw)|].
    apply (Soc_ext fast R L); [|assumption]. intros w' Hw'. symmetry. now apply sw_toM_plain.
  Qed.

  Lemma sw_divc_mir ps : forall (a b : Wn -> F) w, inW w ->
    divs (mirw ps a) (mirw (negb ps) b) w = mir_modal fast ps (un (divs a b)) (fst w) (snd w).
  Proof.
    intros a b [i l] Hw. rewrite sw_divc_plain by assumption. destruct Hw as [Hi Hl]. cbn [fst snd] in *.
    transitivity (mir_modal fast ps (div_cos_lat fast L R L rad wa wb true (un a, un b)) i l).
    - exact (proj1 (proj2 (proj2 (vector_calculus_mirror fast L R L rad wa wb true HR ps (un a) (un a) (un b) i l Hi Hl)))).
    - unfold mir_modal. f_equal. symmetry. exact (sw_divc_plain fast R L rad wa wb a b (i, l) (conj Hi Hl)).
  Qed.
  Lemma sw_curlc_mir ps : forall (a b : Wn -> F) w, inW w ->
    curls (mirw ps a) (mirw (negb ps) b) w = mir_modal fast (negb ps) (un (curls a b)) (fst w) (snd w).
  Proof.
    intros a b [i l] Hw. rewrite sw_curlc_plain by assumption. destruct Hw as [Hi Hl]. cbn [fst snd] in *.
    transitivity (mir_modal fast (negb ps) (curl_cos_lat fast L R L rad wa wb true (un a, un b)) i l).
    - exact (proj1 (proj2 (proj2 (proj2 (vector_calculus_mirror fast L R L rad wa wb true HR ps (un a) (un a) (un b) i l Hi Hl))))).
    - unfold mir_modal. f_equal. symmetry. exact (sw_curlc_plain fast R L rad wa wb a b (i, l) (conj Hi Hl)).
  Qed.

  Lemma sw_divc_e : forall a b w, inW w -> divs (Sec fast a) (Soc fast b) w = Sec fast (divs a b) w.
  Proof. exact (sw_divc_mir false). Qed.
  Lemma sw_divc_o : forall a b w, inW w -> divs (Soc fast a) (Sec fast b) w = Soc fast (divs a b) w.
  Proof. exact (sw_divc_mir true). Qed.
  Lemma sw_curlc_o : forall a b w, inW w -> curls (Soc fast a) (Sec fast b) w = Sec fast (curls a b) w.
  Proof. exact (sw_curlc_mir true). Qed.

  Lemma sw_cols_eqv_refl (X : Wn -> @SWCol F) : sw_cols_eqv Wn inP N X X.
  Proof. intros q _. repeat split; reflexivity. Qed.

  (** (a) X: the nodal columns of a state, indexed by the node (i, j); [sw_actX (piNc J) (-1) X] those of the mirrored state:
      vorticity tendency pseudo-scalar, divergence and potential tendencies scalars; potentials and orography mirrored too *)
  Theorem sw_tendency_mirror_equivariant (X X' : Wn -> SWCol) (pot pot' : nat -> Wn -> F) (orog : option (Wn -> F)) r a l :
    sw_cols_eqv Wn inP N X' (sw_actX Wn (piNc J) (- (1)) X) ->
    (forall b w', (b < N)%nat -> inW w' -> pot' b w' = Sec fast (pot b) w') ->
    (r < N)%nat -> (a < R)%nat -> (l < L)%nat ->
    sw_vort_explicit Wn Wn toMs divs clips X' r (a, l)
      = mir_modal fast true (un (sw_vort_explicit Wn Wn toMs divs clips X r)) a l /\
    sw_div_explicit Wn Wn toMs curls laps clips N dens X' pot' (option_map (Sec fast) orog) r (a, l)
      = mir_modal fast false (un (sw_div_explicit Wn Wn toMs curls laps clips N dens X pot orog r)) a l /\
    sw_pot_explicit Wn Wn toMs divs clips X' r (a, l)
      = mir_modal fast false (un (sw_pot_explicit Wn Wn toMs divs clips X r)) a l.
  Proof.
    intros EX Hpot Hr Ha Hl. assert (Hw : inW (a, l)) by (split; assumption).
    exact (sw_transformed_columns_tendency Wn Wn inW inP toMs divs curls laps clips N dens (piNc J) (Sec fast) (Soc fast) (- (1))
             neg1_sq (sw_toM_ext R L I J f p wq) (sw_clip_ext R L) (sw_lap_ext R L rad) (sw_divc_ext fast R L f rad wa wb)
             (sw_curlc_ext fast R L f rad wa wb) (Sec_ext fast R L) (Sec_lin fast R L) (Soc_lin fast R L)
             sw_toM_even sw_toM_odd sw_divc_e sw_divc_o sw_curlc_o (lapc_mir fast R L rad) (clipc_Se fast R L) (clipc_So fast R L)
             X X' pot pot' orog r (a, l) EX Hr Hw Hpot).
  Qed.

  (** the nodal columns synthesised from the mirrored MODAL state are (entrywise) the mirrored family of columns *)
  Theorem sw_columns_of_mirrored_state (vort dive pot : nat -> marr) (sec2 cor : nat -> F) :
    (forall j, (j < J)%nat -> sec2 j = sec2 (J - 1 - j)%nat) -> (forall j, (j < J)%nat -> cor j = - cor (J - 1 - j)%nat) ->
    sw_cols_eqv Wn inP N
      (sw_cols_of_state fast R L I J N f p rad wa wb (fun k => mir_modal fast true (vort k)) (fun k => mir_modal fast false (dive k))
                        (fun k => mir_modal fast false (pot k)) sec2 cor)
      (sw_actX Wn (piNc J) (- (1)) (sw_cols_of_state fast R L I J N f p rad wa wb vort dive pot sec2 cor)).
  Proof.
    intros Hs Hc [i j] [Hi Hj]. cbn [fst snd] in Hi, Hj.
    assert (Hj' : (J - 1 - j < J)%nat) by lia.
    assert (Hq' : inP (i, (J - 1 - j)%nat)) by (split; assumption).
    assert (Hq : inP (i, j)) by (split; assumption).
    unfold swcol_eqv, sw_actX, swcol_act, sw_cols_of_state, piNc. cbv zeta.
    cbn [s_u s_v s_vort s_pot s_sec2 s_f fst snd].
    repeat split; try (intros k Hk; rewrite !sw_stack_ok by assumption; rewrite !sw_toN_ok by assumption; cbn [fst snd]).
    - rewrite (synth_ext R L J f p _ (mir_modal fast false (fst (get_cos_lat_vector fast L R L rad wa wb true (vort k) (dive k)))) i j Hj).
      2:{ intros a' l' Ha' Hl'. exact (proj1 (get_cos_lat_vector_mirror fast R L f rad wa wb HR true (vort k) (dive k) a' l' Ha' Hl')). }
      rewrite (synth_mir_equivariant fast R L J f p wq false _ i j Hpar Hj). unfold flip_lat. cbn [sgn_if]. ring.
    - rewrite (synth_ext R L J f p _ (mir_modal fast true (snd (get_cos_lat_vector fast L R L rad wa wb true (vort k) (dive k)))) i j Hj).
      2:{ intros a' l' Ha' Hl'. exact (proj2 (get_cos_lat_vector_mirror fast R L f rad wa wb HR true (vort k) (dive k) a' l' Ha' Hl')). }
      rewrite (synth_mir_equivariant fast R L J f p wq true _ i j Hpar Hj). unfold flip_lat. cbn [sgn_if]. ring.
    - rewrite (synth_ext R L J f p _ (mir_modal fast true (clip L L 1 (vort k))) i j Hj).
      2:{ intros a' l' Ha' Hl'. unfold clip, mir_modal. ring. }
      rewrite (synth_mir_equivariant fast R L J f p wq true _ i j Hpar Hj). unfold flip_lat. cbn [sgn_if]. ring.
    - rewrite (synth_ext R L J f p _ (mir_modal fast false (clip L L 1 (pot k))) i j Hj).
      2:{ intros a' l' Ha' Hl'. unfold clip, mir_modal. ring. }
      rewrite (synth_mir_equivariant fast R L J f p wq false _ i j Hpar Hj). unfold flip_lat. cbn [sgn_if]. ring.
    - exact (Hs j Hj).
    - rewrite (Hc j Hj). ring.
  Qed.

  (** sec2_lat even and Coriolis odd follow from antisymmetric sin(latitude) nodes *)
  Lemma sw_tables_parity (omega : F) (sinlat : nat -> F) :
    (forall j, (j < J)%nat -> sinlat (J - 1 - j)%nat = - sinlat j) ->
    (forall j, (j < J)%nat -> sw_sec2 sinlat j = sw_sec2 sinlat (J - 1 - j)%nat) /\
    (forall j, (j < J)%nat -> sw_coriolis omega sinlat j = - sw_coriolis omega sinlat (J - 1 - j)%nat).
  Proof.
    intros Hs. split; intros j Hj; unfold sw_sec2, sw_coriolis; rewrite (Hs j Hj).
    - f_equal. ring.
    - ring.
  Qed.

  (** (a') the whole method: explicit_terms of the mirrored modal state (orography mirrored too) = mirrored explicit_terms *)
  Theorem sw_explicit_terms_mirror_equivariant (omega : F) (sinlat : nat -> F) (orog : option marr) (vort dive pot : nat -> marr) r a l :
    (forall j, (j < J)%nat -> sinlat (J - 1 - j)%nat = - sinlat j) ->
    (r < N)%nat -> (a < R)%nat -> (l < L)%nat ->
    let E := sw_explicit_terms fast R L I J N f p wq rad wa wb dens omega sinlat in
    let T := E orog vort dive pot in
    let T' := E (option_map (mir_modal fast false) orog) (fun k => mir_modal fast true (vort k))
                (fun k => mir_modal fast false (dive k)) (fun k => mir_modal fast false (pot k)) in
    fst (fst T') r (a, l) = mir_modal fast true (un (fst (fst T) r)) a l /\
    snd (fst T') r (a, l) = mir_modal fast false (un (snd (fst T) r)) a l /\
    snd T' r (a, l) = mir_modal fast false (un (snd T r)) a l.
  Proof.
    intros Hsin Hr Ha Hl E T T'. destruct (sw_tables_parity omega sinlat Hsin) as [Hs Hc].
    pose proof (sw_columns_of_mirrored_state vort dive pot (sw_sec2 sinlat) (sw_coriolis omega sinlat) Hs Hc) as EX.
    pose proof (sw_tendency_mirror_equivariant _ _ (fun k => sw_pk (pot k)) (fun k => sw_pk (mir_modal fast false (pot k)))
                  (option_map sw_pk orog) r a l EX) as H.
    assert (Hpot : forall b w', (b < N)%nat -> inW w' -> sw_pk (mir_modal fast false (pot b)) w' = Sec fast (sw_pk (pot b)) w')
      by (intros b w' _ _; reflexivity).
    specialize (H Hpot Hr Ha Hl).
    assert (EO : option_map (Sec fast) (option_map sw_pk orog) = option_map sw_pk (option_map (mir_modal fast false) orog))
      by (destruct orog; reflexivity).
    rewrite EO in H. exact H.
  Qed.
End SWConcreteMirror.

(** * 5. rotation by k longitude grid steps, both layouts, under H_rot_table, H_p_pairs, H_rot_unit and paired recurrence weights *)
Section SWConcreteRot.
  Context {F : Type} {o : Ops F} {Fc : FieldC o}.
  Add Field FFsw5 : (field_c : FieldTh o).
  Variables (fast : bool) (R L I J N : nat).
  Variable f : nat -> nat -> F.
  Variable p : nat -> nat -> nat -> F.
  Variable wq : nat -> F.
  Variables (rad : F) (wa wb : @marr F).
  Variable dens : nat -> F.
  Variables (k : nat) (rc rs : nat -> F).
  Hypothesis HR : layout_ok fast R.
  Hypothesis Hrot : H_rot_table fast R I f k rc rs.
  Hypothesis Hpp : H_p_pairs fast R L J p.
  Hypothesis Hun : H_rot_unit rc rs.
  Hypothesis Hwa : sym_rows fast R wa.
  Hypothesis Hwb : sym_rows fast R wb.

  Notation inW := (inWc R L).
  Notation inP := (inPc I J).
  Notation toMs := (sw_toM R L I J f p wq).
  Notation divs := (sw_divc fast R L rad wa wb).
  Notation curls := (sw_curlc fast R L rad wa wb).
  Notation laps := (sw_lap L rad).
  Notation clips := (sw_clip L).
  Notation Rm := (Rmc fast rc rs).

  Lemma one_sq : 1 * 1 = (1 : F).
  Proof. ring. Qed.

  Lemma sw_toM_rot : forall (z : Wn -> F) w, inW w -> toMs (fun q => z (piNr I k q)) w = Rm (toMs z) w.
  Proof.
    intros z w Hw. rewrite sw_toM_plain by assumption.
    etransitivity; [exact (toMc_rot fast R L I J f p wq k rc rs HR Hrot Hpp Hun z w Hw)|].
    apply (Rmc_ext fast R L rc rs HR); [|assumption]. intros w' Hw'. symmetry. now apply sw_toM_plain.
  Qed.
  Lemma sw_toM_rot1 : forall (z : Wn -> F) w, inW w -> toMs (fun q => 1 * z (piNr I k q)) w = Rm (toMs z) w.
  Proof.
    intros z w Hw. rewrite <- sw_toM_rot by assumption. apply (sw_toM_ext R L I J f p wq); [|assumption]. intros; ring.
  Qed.

  Lemma sw_divc_rot : forall a b w, inW w -> divs (Rm a) (Rm b) w = Rm (divs a b) w.
  Proof.
    intros a b [i l] Hw. rewrite sw_divc_plain by assumption. destruct Hw as [Hi Hl]. cbn [fst snd] in *.
    transitivity (rot_modal fast rc rs (div_cos_lat fast L R L rad wa wb true (un a, un b)) i l).
    - exact (proj1 (proj2 (proj2 (vector_calculus_rot fast L R L rad wa wb true HR rc rs (un a) (un a) (un b) i l Hi Hl
                                                       (proj1 Hun) Hwa Hwb)))).
    - unfold Rmc, rot_modal, un. cbn [fst snd].
      rewrite (sw_divc_plain fast R L rad wa wb a b (i, l) (conj Hi Hl)).
      rewrite (sw_divc_plain fast R L rad wa wb a b (sy_partner fast i, l) (conj (partner_lt fast R i HR Hi) Hl)).
      reflexivity.
  Qed.
  Lemma sw_curlc_rot : forall a b w, inW w -> curls (Rm a) (Rm b) w = Rm (curls a b) w.
  Proof.
    intros a b [i l] Hw. rewrite sw_curlc_plain by assumption. destruct Hw as [Hi Hl]. cbn [fst snd] in *.
    transitivity (rot_modal fast rc rs (curl_cos_lat fast L R L rad wa wb true (un a, un b)) i l).
    - exact (proj1 (proj2 (proj2 (proj2 (vector_calculus_rot fast L R L rad wa wb true HR rc rs (un a) (un a) (un b) i l Hi Hl
                                                              (proj1 Hun) Hwa Hwb))))).
    - unfold Rmc, rot_modal, un. cbn [fst snd].
      rewrite (sw_curlc_plain fast R L rad wa wb a b (i, l) (conj Hi Hl)).
      rewrite (sw_curlc_plain fast R L rad wa wb a b (sy_partner fast i, l) (conj (partner_lt fast R i HR Hi) Hl)).
      reflexivity.
  Qed.

  (** (b) X': any family that agrees entrywise with the family of X shifted by k nodes *)
  Theorem sw_tendency_rot_equivariant (X X' : Wn -> SWCol) (pot pot' : nat -> Wn -> F) (orog : option (Wn -> F)) r a l :
    sw_cols_eqv Wn inP N X' (fun q => X (piNr I k q)) ->
    (forall b w', (b < N)%nat -> inW w' -> pot' b w' = Rm (pot b) w') ->
    (r < N)%nat -> (a < R)%nat -> (l < L)%nat ->
    sw_vort_explicit Wn Wn toMs divs clips X' r (a, l)
      = rot_modal fast rc rs (un (sw_vort_explicit Wn Wn toMs divs clips X r)) a l /\
    sw_div_explicit Wn Wn toMs curls laps clips N dens X' pot' (option_map Rm orog) r (a, l)
      = rot_modal fast rc rs (un (sw_div_explicit Wn Wn toMs curls laps clips N dens X pot orog r)) a l /\
    sw_pot_explicit Wn Wn toMs divs clips X' r (a, l)
      = rot_modal fast rc rs (un (sw_pot_explicit Wn Wn toMs divs clips X r)) a l.
  Proof.
    intros EX Hpot Hr Ha Hl. assert (Hw : inW (a, l)) by (split; assumption).
    assert (EX1 : sw_cols_eqv Wn inP N X' (sw_actX Wn (piNr I k) 1 X)).
    { intros q Hq. destruct (EX q Hq) as (E1 & E2 & E3 & E4 & E5 & E6).
      unfold swcol_eqv, sw_actX, swcol_act. cbn [s_u s_v s_vort s_pot s_sec2 s_f].
      cbv beta in E1, E2, E3, E4, E5, E6.
      repeat split; try assumption.
      - intros n Hn. rewrite (E2 n Hn). ring.
      - intros n Hn. rewrite (E3 n Hn). ring.
      - rewrite E6. ring. }
    exact (sw_transformed_columns_tendency Wn Wn inW inP toMs divs curls laps clips N dens (piNr I k) Rm Rm 1
             one_sq (sw_toM_ext R L I J f p wq) (sw_clip_ext R L) (sw_lap_ext R L rad) (sw_divc_ext fast R L f rad wa wb)
             (sw_curlc_ext fast R L f rad wa wb) (Rmc_ext fast R L rc rs HR) (Rmc_lin fast R L rc rs) (Rmc_lin fast R L rc rs)
             sw_toM_rot sw_toM_rot1 sw_divc_rot sw_divc_rot sw_curlc_rot (lapc_rot fast R L rad rc rs) (clipc_rot fast R L rc rs)
             (clipc_rot fast R L rc rs) X X' pot pot' orog r (a, l) EX1 Hr Hw Hpot).
  Qed.

  (** the nodal columns synthesised from the rotated MODAL state are (entrywise) the family shifted by k nodes *)
  Theorem sw_columns_of_rotated_state (vort dive pot : nat -> marr) (sec2 cor : nat -> F) :
    sw_cols_eqv Wn inP N
      (sw_cols_of_state fast R L I J N f p rad wa wb (fun n => rot_modal fast rc rs (vort n)) (fun n => rot_modal fast rc rs (dive n))
                        (fun n => rot_modal fast rc rs (pot n)) sec2 cor)
      (fun q => sw_cols_of_state fast R L I J N f p rad wa wb vort dive pot sec2 cor (piNr I k q)).
  Proof.
    intros [i j] [Hi Hj]. cbn [fst snd] in Hi, Hj.
    assert (Hi' : ((i + k) mod I < I)%nat) by (apply Nat.mod_upper_bound; lia).
    assert (Hq' : inP (((i + k) mod I)%nat, j)) by (split; assumption).
    assert (Hq : inP (i, j)) by (split; assumption).
    unfold swcol_eqv, sw_cols_of_state, piNr. cbv zeta.
    cbn [s_u s_v s_vort s_pot s_sec2 s_f fst snd].
    repeat split; try (intros n Hn; rewrite !sw_stack_ok by assumption; rewrite !sw_toN_ok by assumption; cbn [fst snd]).
    - rewrite (synth_ext R L J f p _ (rot_modal fast rc rs (fst (get_cos_lat_vector fast L R L rad wa wb true (vort n) (dive n)))) i j Hj).
      2:{ intros a' l' Ha' Hl'. exact (proj1 (get_cos_lat_vector_rot fast R L f rad wa wb rc rs HR Hun Hwa Hwb true (vort n) (dive n) a' l' Ha' Hl')). }
      exact (synth_rot_equivariant fast R L I J f p HR k rc rs _ i j Hrot Hpp (proj1 Hun) Hi Hj).
    - rewrite (synth_ext R L J f p _ (rot_modal fast rc rs (snd (get_cos_lat_vector fast L R L rad wa wb true (vort n) (dive n)))) i j Hj).
      2:{ intros a' l' Ha' Hl'. exact (proj2 (get_cos_lat_vector_rot fast R L f rad wa wb rc rs HR Hun Hwa Hwb true (vort n) (dive n) a' l' Ha' Hl')). }
      exact (synth_rot_equivariant fast R L I J f p HR k rc rs _ i j Hrot Hpp (proj1 Hun) Hi Hj).
    - rewrite (synth_ext R L J f p _ (rot_modal fast rc rs (clip L L 1 (vort n))) i j Hj).
      2:{ intros a' l' Ha' Hl'. unfold clip, rot_modal. ring. }
      exact (synth_rot_equivariant fast R L I J f p HR k rc rs _ i j Hrot Hpp (proj1 Hun) Hi Hj).
    - rewrite (synth_ext R L J f p _ (rot_modal fast rc rs (clip L L 1 (pot n))) i j Hj).
      2:{ intros a' l' Ha' Hl'. unfold clip, rot_modal. ring. }
      exact (synth_rot_equivariant fast R L I J f p HR k rc rs _ i j Hrot Hpp (proj1 Hun) Hi Hj).
  Qed.

  (** (b') the whole method: explicit_terms of the modal state rotated by k grid steps (orography rotated too) *)
  Theorem sw_explicit_terms_rot_equivariant (omega : F) (sinlat : nat -> F) (orog : option marr) (vort dive pot : nat -> marr) r a l :
    (r < N)%nat -> (a < R)%nat -> (l < L)%nat ->
    let E := sw_explicit_terms fast R L I J N f p wq rad wa wb dens omega sinlat in
    let T := E orog vort dive pot in
    let T' := E (option_map (rot_modal fast rc rs) orog) (fun n => rot_modal fast rc rs (vort n))
                (fun n => rot_modal fast rc rs (dive n)) (fun n => rot_modal fast rc rs (pot n)) in
    fst (fst T') r (a, l) = rot_modal fast rc rs (un (fst (fst T) r)) a l /\
    snd (fst T') r (a, l) = rot_modal fast rc rs (un (snd (fst T) r)) a l /\
    snd T' r (a, l) = rot_modal fast rc rs (un (snd T r)) a l.
  Proof.
    intros Hr Ha Hl E T T'.
    pose proof (sw_columns_of_rotated_state vort dive pot (sw_sec2 sinlat) (sw_coriolis omega sinlat)) as EX.
    pose proof (sw_tendency_rot_equivariant _ _ (fun n => sw_pk (pot n)) (fun n => sw_pk (rot_modal fast rc rs (pot n)))
                  (option_map sw_pk orog) r a l EX) as H.
    assert (Hpot : forall b w', (b < N)%nat -> inW w' -> sw_pk (rot_modal fast rc rs (pot b)) w' = Rm (sw_pk (pot b)) w')
      by (intros b w' _ _; reflexivity).
    specialize (H Hpot Hr Ha Hl).
    assert (EO : option_map Rm (option_map sw_pk orog) = option_map sw_pk (option_map (rot_modal fast rc rs) orog))
      by (destruct orog; reflexivity).
    rewrite EO in H. exact H.
  Qed.
End SWConcreteRot.

(** * 6. property C11 on the concrete model: global means, top wavenumber, triangular support *)
Section SWInvariants.
  Context {F : Type} {o : Ops F} {Fc : FieldC o}.
  Add Field FFsw6 : (field_c : FieldTh o).
  Variables (fast : bool) (M R L I J N : nat).
  Variable f : nat -> nat -> F.
  Variable p : nat -> nat -> nat -> F.
  Variable wq : nat -> F.
  Variables (rad : F) (wa wb : @marr F).
  Variable dens : nat -> F.

  Notation inW := (inWc R L).
  Notation toMs := (sw_toM R L I J f p wq).
  Notation divs := (sw_divc fast R L rad wa wb).
  Notation curls := (sw_curlc fast R L rad wa wb).
  Notation laps := (sw_lap L rad).
  Notation clips := (sw_clip L).

  (** Stokes / Gauss: the (0,0) coefficients of the vorticity and divergence tendencies vanish, and so does the (0,0)
      coefficient of the potential tendency (mean layer thickness), for ANY nodal columns, potentials, orography,
      densities, number of layers and ANY tables *)
  Theorem sw_mean_tendencies_vanish (X : Wn -> SWCol) (pot : nat -> Wn -> F) (orog : option (Wn -> F)) r :
    rad <> 0 -> (2 <= L)%nat -> (0 < R)%nat ->
    sw_vort_explicit Wn Wn toMs divs clips X r (0%nat, 0%nat) = 0 /\
    sw_div_explicit Wn Wn toMs curls laps clips N dens X pot orog r (0%nat, 0%nat) = 0 /\
    sw_pot_explicit Wn Wn toMs divs clips X r (0%nat, 0%nat) = 0.
  Proof.
    intros Hr HL HR0. assert (H0 : inW (0%nat, 0%nat)) by (split; cbn [fst snd]; lia).
    unfold sw_vort_explicit, sw_div_explicit, sw_pot_explicit. cbv zeta. unfold sw_clip. cbn [fst snd].
    repeat split; apply clip_zero; unfold sw_un.
    - rewrite sw_divc_plain by assumption. cbn [fst snd].
      rewrite (div_cos_lat_00 fast L R L rad wa wb Hr HL (le_n L) HR0). ring.
    - rewrite sw_curlc_plain by assumption. unfold sw_lap. cbn [fst snd].
      rewrite (curl_cos_lat_00 fast L R L rad wa wb Hr HL (le_n L) HR0), (laplacian_00 L rad Hr). ring.
    - rewrite sw_divc_plain by assumption. cbn [fst snd].
      rewrite (div_cos_lat_00 fast L R L rad wa wb Hr HL (le_n L) HR0). ring.
  Qed.

  (** the clipped top total wavenumber: for ANY inputs and tables *)
  Theorem sw_explicit_top_zero (X : Wn -> SWCol) (pot : nat -> Wn -> F) (orog : option (Wn -> F)) r a l :
    (L - 1 <= l)%nat ->
    sw_vort_explicit Wn Wn toMs divs clips X r (a, l) = 0 /\
    sw_div_explicit Wn Wn toMs curls laps clips N dens X pot orog r (a, l) = 0 /\
    sw_pot_explicit Wn Wn toMs divs clips X r (a, l) = 0.
  Proof.
    intros Hl. unfold sw_vort_explicit, sw_div_explicit, sw_pot_explicit. cbv zeta. unfold sw_clip. cbn [fst snd].
    repeat split; now apply (clip_top L L (le_n L)).
  Qed.

  (** entries outside the triangular mask.  Named hypotheses: [sw_H_p_support] (the basis functions f[i,a] * p[a,j,l] vanish outside the
      mask - exact zeros in the implementation: Legendre table, and the zero sine column of m = 0 in the fast layout) and [sw_H_deriv_mask] (div_cos_lat / curl_cos_lat map arrays that
      vanish outside the mask to such arrays; rows of a cos/sin pair share |m|, the recurrence weights vanish at
      l = |m|) *)
  Definition sw_masked (a : Wn -> F) : Prop :=
    forall i l, (i < R)%nat -> (l < L)%nat -> mask fast M L i l = false -> a (i, l) = 0.
  Definition sw_H_p_support : Prop :=
    forall i a j l, (i < I)%nat -> (a < R)%nat -> (j < J)%nat -> (l < L)%nat -> mask fast M L a l = false -> f i a * p a j l = 0.
  Definition sw_H_deriv_mask : Prop :=
    forall a b, sw_masked a -> sw_masked b ->
      sw_masked (fun w => div_cos_lat fast L R L rad wa wb true (un a, un b) (fst w) (snd w)) /\
      sw_masked (fun w => curl_cos_lat fast L R L rad wa wb true (un a, un b) (fst w) (snd w)).

  Lemma sw_toM_masked (z : Wn -> F) : sw_H_p_support -> sw_masked (toMs z).
  Proof.
    intros Hp i l Hi Hl Hm. rewrite sw_toM_plain by (split; assumption). unfold toMc. cbn [fst snd].
    rewrite analysis_eq by assumption. unfold sum2, ylm. apply sumn_zero; intros i' Hi'. apply sumn_zero; intros j Hj.
    rewrite (Hp i' i j l Hi' Hi Hj Hl Hm). ring.
  Qed.

  Theorem sw_explicit_into_Supp (X : Wn -> SWCol) (pot : nat -> Wn -> F) (orog : option (Wn -> F)) :
    sw_H_p_support -> sw_H_deriv_mask ->
    (forall b, (b < N)%nat -> sw_masked (pot b)) -> (forall h, orog = Some h -> sw_masked h) ->
    Supp fast M L R L (fun k i l => sw_vort_explicit Wn Wn toMs divs clips X k (i, l)) /\
    Supp fast M L R L (fun k i l => sw_div_explicit Wn Wn toMs curls laps clips N dens X pot orog k (i, l)) /\
    Supp fast M L R L (fun k i l => sw_pot_explicit Wn Wn toMs divs clips X k (i, l)).
  Proof.
    intros Hp Hd Hpot Horo.
    assert (D : forall a b, sw_masked a -> sw_masked b -> sw_masked (divs a b)).
    { intros a b Ma Mb i l Hi Hl Hm. rewrite sw_divc_plain by (split; assumption).
      exact (proj1 (Hd a b Ma Mb) i l Hi Hl Hm). }
    assert (Cu : forall a b, sw_masked a -> sw_masked b -> sw_masked (curls a b)).
    { intros a b Ma Mb i l Hi Hl Hm. rewrite sw_curlc_plain by (split; assumption).
      exact (proj2 (Hd a b Ma Mb) i l Hi Hl Hm). }
    assert (TM := fun z => sw_toM_masked z Hp).
    repeat split; intros k i l Hi Hl Hm; unfold must_vanish in Hm; apply Bool.orb_true_iff in Hm;
      (destruct Hm as [Hm|Hm];
       [apply Bool.negb_true_iff in Hm|
        apply Nat.leb_le in Hm; first [exact (proj1 (sw_explicit_top_zero X pot orog k i l Hm))
                                      |exact (proj1 (proj2 (sw_explicit_top_zero X pot orog k i l Hm)))
                                      |exact (proj2 (proj2 (sw_explicit_top_zero X pot orog k i l Hm)))]]).
    - unfold sw_vort_explicit. cbv zeta. unfold sw_clip. cbn [fst snd]. apply clip_zero. unfold sw_un.
      rewrite (D _ _ (TM _) (TM _) i l Hi Hl Hm). ring.
    - unfold sw_div_explicit. cbv zeta. unfold sw_clip. cbn [fst snd]. apply clip_zero. unfold sw_un.
      rewrite (Cu _ _ (TM _) (TM _) i l Hi Hl Hm). unfold sw_lap, laplacian, sw_un. cbn [fst snd].
      assert (E0 : sw_pressure Wn N dens pot orog k (i, l) = 0).
      { unfold sw_pressure.
        assert (S0 : sumn N (fun b => density_ratio dens k b * pot b (i, l)) = 0).
        { apply sumn_zero; intros b Hb. rewrite (Hpot b Hb i l Hi Hl Hm). ring. }
        rewrite S0. destruct orog as [h|]; [rewrite (Horo h eq_refl i l Hi Hl Hm)|]; ring. }
      rewrite E0, (TM _ i l Hi Hl Hm). ring.
    - unfold sw_pot_explicit. cbv zeta. unfold sw_clip. cbn [fst snd]. apply clip_zero. unfold sw_un.
      rewrite (D _ _ (TM _) (TM _) i l Hi Hl Hm). ring.
  Qed.
End SWInvariants.
