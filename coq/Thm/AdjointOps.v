(** C08, transposes of the concrete linear model operators (all sizes, every
    carrier):

    (a) the spherical-harmonic transforms of Model/SHT.v.  With the Euclidean
        inner products [dot2] on modal (K x L) and nodal (I x J) arrays,
          <synth x, z>            = <x, synthT z>          (synth_adjoint)
          synthT                  = analysis with all quadrature weights 1
          <synth x, z>_w          = <x, analysis z>        (synth_analysis_adjoint)
          <analysis z, y>         = <z, analysisT y>       (analysis_adjoint)
          analysisT y i j         = w j * synth y i j
        where <y, z>_w = sum_ij w_j y_ij z_ij is the quadrature inner product.
        So reverse mode of [to_nodal] is "[to_modal] without the weights", and
        reverse mode of [to_modal] is "weights times [to_nodal]".  No hypothesis
        on the tables f, p, w is needed.
    (b) the spectral derivative operators of Model/Deriv.v: [d_dlon] is
        skew-adjoint (both layouts), [laplacian], [inverse_laplacian], [clip]
        are self-adjoint (diagonal), [D1] / [D2] have explicit tridiagonal
        transposes, and D1^T = -D2 when the recurrence tables satisfy
        a[., l+1] = b[., l] and vanish beyond the truncation.
    The nonlinear (jvp) part is in Thm/AdjointJvp.v, the filters and time
    steppers in Thm/AdjointLin.v. *)
From Dino Require Import Base.Ops Base.Sums Model.Dual Model.SHT Thm.Dual Thm.Adjoint.
From Dino Require Gen.DerivExprs Model.Deriv Thm.Deriv.
Local Open Scope F_scope.

Section Defs.
  Context {F : Type} {o : Ops F}.
  (** Euclidean inner product of two 2-D arrays of shape (n, m) *)
  Definition dot2 (n m : nat) (x y : nat -> nat -> F) : F :=
    sumn n (fun i => sumn m (fun j => x i j * y i j)).
  (** nodal inner product weighted by the latitude quadrature weights *)
  Definition dot2w (I J : nat) (w : nat -> F) (y z : nat -> nat -> F) : F :=
    sumn I (fun i => sumn J (fun j => w j * (y i j * z i j))).
  (** the explicit transposes of [synth] and [analysis] *)
  Definition synthT (I J : nat) (f : nat -> nat -> F) (p : nat -> nat -> nat -> F)
             (z : nat -> nat -> F) : nat -> nat -> F :=
    fun a l => sumn I (fun i => sumn J (fun j => (f i a * p a j l) * z i j)).
  Definition analysisT (K L : nat) (f : nat -> nat -> F) (p : nat -> nat -> nat -> F)
             (w : nat -> F) (y : nat -> nat -> F) : nat -> nat -> F :=
    fun i j => w j * sumn K (fun a => sumn L (fun l => (f i a * p a j l) * y a l)).
End Defs.

Section Memo.
  Context {F : Type} {o : Ops F}.
  Lemma ao_nth_map_seq {A} (g : nat -> A) n i d : (i < n)%nat -> nth i (map g (seq 0 n)) d = g i.
  Proof.
    intros Hi. rewrite (nth_indep _ d (g 0%nat)) by (now rewrite map_length, seq_length).
    rewrite map_nth, seq_nth; auto.
  Qed.

  Lemma ao_memo2_ok n m (g : nat -> nat -> F) a j :
    (a < n)%nat -> (j < m)%nat -> sh_memo2 n m g a j = g a j.
  Proof.
    intros Ha Hj. unfold sh_memo2.
    rewrite (ao_nth_map_seq (fun a => map (g a) (seq 0 m)) n a []) by assumption.
    now apply ao_nth_map_seq.
  Qed.
End Memo.

Section SHTAdjoint.
  Context {F : Type} {o : Ops F} {Fc : FieldC o}.
  Add Field FFao : (field_c : FieldTh o).

  Lemma ao_scal_lr n c d (g : nat -> F) : c * (sumn n g * d) = sumn n (fun i => c * (g i * d)).
  Proof. induction n as [|n IH]; cbn; [ring|]. rewrite <- IH. ring. Qed.

  Lemma ao_sum4_exchange n m k q (g : nat -> nat -> nat -> nat -> F) :
    sumn n (fun i => sumn m (fun j => sumn k (fun a => sumn q (fun l => g i j a l))))
    = sumn k (fun a => sumn q (fun l => sumn n (fun i => sumn m (fun j => g i j a l)))).
  Proof.
    transitivity (sumn n (fun i => sumn k (fun a => sumn m (fun j => sumn q (fun l => g i j a l))))).
    { apply sumn_ext; intros i _.
      apply (sumn_exchange m k (fun j a => sumn q (fun l => g i j a l))). }
    rewrite (sumn_exchange n k (fun i a => sumn m (fun j => sumn q (fun l => g i j a l)))).
    apply sumn_ext; intros a _.
    transitivity (sumn n (fun i => sumn q (fun l => sumn m (fun j => g i j a l)))).
    { apply sumn_ext; intros i _. apply (sumn_exchange m q (fun j l => g i j a l)). }
    apply (sumn_exchange n q (fun i l => sumn m (fun j => g i j a l))).
  Qed.

  Section Tables.
    Variables (K L I J : nat).
    Variable f : nat -> nat -> F.
    Variable p : nat -> nat -> nat -> F.

    Lemma ao_synth_eq x i j : (j < J)%nat ->
      synth K L J f p x i j = sumn K (fun a => sumn L (fun l => (f i a * p a j l) * x a l)).
    Proof.
      intros Hj. unfold synth, inv_fourier. apply sumn_ext; intros a Ha.
      rewrite ao_memo2_ok by assumption. unfold inv_legendre.
      rewrite <- sumn_scal_l. apply sumn_ext; intros l _. ring.
    Qed.

    Lemma ao_analysis_eq w z a l : (a < K)%nat ->
      analysis K I J f p w z a l
      = sumn I (fun i => sumn J (fun j => (w j * (f i a * p a j l)) * z i j)).
    Proof.
      intros Ha. unfold analysis, fwd_legendre.
      rewrite (sumn_exchange I J (fun i j => (w j * (f i a * p a j l)) * z i j)).
      apply sumn_ext; intros j Hj. rewrite ao_memo2_ok by assumption.
      unfold fwd_fourier. rewrite <- sumn_scal_l. apply sumn_ext; intros i Hi.
      rewrite ao_memo2_ok by assumption. ring.
    Qed.

    (** the common four-fold sum *)
    Lemma ao_weighted_pairing (w : nat -> F) x z :
      sumn I (fun i => sumn J (fun j => w j * (synth K L J f p x i j * z i j)))
      = sumn K (fun a => sumn L (fun l => x a l *
          sumn I (fun i => sumn J (fun j => (w j * (f i a * p a j l)) * z i j)))).
    Proof.
      transitivity (sumn I (fun i => sumn J (fun j => sumn K (fun a => sumn L (fun l =>
                      x a l * ((w j * (f i a * p a j l)) * z i j)))))).
      { apply sumn_ext; intros i Hi. apply sumn_ext; intros j Hj.
        rewrite ao_synth_eq by assumption. rewrite ao_scal_lr.
        apply sumn_ext; intros a Ha. rewrite ao_scal_lr.
        apply sumn_ext; intros l Hl. ring. }
      rewrite ao_sum4_exchange.
      apply sumn_ext; intros a Ha. apply sumn_ext; intros l Hl.
      rewrite <- sumn_scal_l. apply sumn_ext; intros i Hi.
      rewrite <- sumn_scal_l. reflexivity.
    Qed.

    (** <synth x, z>_w = <x, analysis z> : the transforms are mutually adjoint
        with respect to the quadrature inner product on the nodal side *)
    Theorem synth_analysis_adjoint (w : nat -> F) x z :
      dot2w I J w (synth K L J f p x) z = dot2 K L x (analysis K I J f p w z).
    Proof.
      unfold dot2w, dot2. rewrite ao_weighted_pairing.
      apply sumn_ext; intros a Ha. apply sumn_ext; intros l Hl.
      now rewrite ao_analysis_eq.
    Qed.

    (** Euclidean transpose of [synth] (= the vjp of [to_nodal]) *)
    Theorem synth_adjoint x z :
      dot2 I J (synth K L J f p x) z = dot2 K L x (synthT I J f p z).
    Proof.
      unfold dot2, synthT.
      transitivity (sumn I (fun i => sumn J (fun j => 1 * (synth K L J f p x i j * z i j)))).
      { apply sumn_ext; intros i _. apply sumn_ext; intros j _. ring. }
      rewrite (ao_weighted_pairing (fun _ => 1)).
      apply sumn_ext; intros a Ha. apply sumn_ext; intros l Hl. f_equal.
      apply sumn_ext; intros i _. apply sumn_ext; intros j _. ring.
    Qed.

    (** ... which is [analysis] with all quadrature weights replaced by 1 *)
    Theorem synthT_is_unweighted_analysis z a l : (a < K)%nat ->
      synthT I J f p z a l = analysis K I J f p (fun _ => 1) z a l.
    Proof.
      intros Ha. rewrite ao_analysis_eq by assumption. unfold synthT.
      apply sumn_ext; intros i _. apply sumn_ext; intros j _. ring.
    Qed.

    (** Euclidean transpose of [analysis] (= the vjp of [to_modal]) *)
    Theorem analysis_adjoint (w : nat -> F) z y :
      dot2 K L (analysis K I J f p w z) y = dot2 I J z (analysisT K L f p w y).
    Proof.
      unfold dot2, analysisT.
      transitivity (sumn K (fun a => sumn L (fun l => sumn I (fun i => sumn J (fun j =>
                      z i j * (w j * ((f i a * p a j l) * y a l))))))).
      { apply sumn_ext; intros a Ha. apply sumn_ext; intros l Hl.
        rewrite ao_analysis_eq by assumption.
        transitivity (1 * (sumn I (fun i => sumn J (fun j => w j * (f i a * p a j l) * z i j)) * y a l)); [ring|].
        rewrite ao_scal_lr. apply sumn_ext; intros i Hi. rewrite ao_scal_lr.
        apply sumn_ext; intros j Hj. ring. }
      rewrite <- ao_sum4_exchange.
      apply sumn_ext; intros i Hi. apply sumn_ext; intros j Hj.
      transitivity (z i j * w j * (sumn K (fun a => sumn L (fun l => f i a * p a j l * y a l)) * 1)); [|ring].
      rewrite ao_scal_lr. apply sumn_ext; intros a Ha. rewrite ao_scal_lr.
      apply sumn_ext; intros l Hl. ring.
    Qed.

    (** ... which is the weights times [synth] *)
    Theorem analysisT_is_weighted_synth (w : nat -> F) y i j : (j < J)%nat ->
      analysisT K L f p w y i j = w j * synth K L J f p y i j.
    Proof. intros Hj. unfold analysisT. now rewrite ao_synth_eq. Qed.

    (** the vjp-jvp dot-product identity for both transforms run at dual numbers
        (tables constant): the tangent of synth(x + eps v) is synth v, whatever x *)
    Theorem synth_jvp_is_self (x v : nat -> nat -> F) i j : (j < J)%nat ->
      synth (o := DualOps) K L J (fun i a => dconst (f i a)) (fun a j l => dconst (p a j l))
            (fun a l => dvar (x a l) (v a l)) i j
      = mkdual (synth K L J f p x i j) (synth K L J f p v i j).
    Proof.
      intros Hj. unfold synth, inv_fourier. apply dual_eq.
      - rewrite re_sumn. apply sumn_ext; intros a Ha. rewrite !ao_memo2_ok by assumption.
        unfold inv_legendre.
        transitivity (f i a * re (sumn L (fun l => dconst (p a j l) * dvar (x a l) (v a l)))).
        { reflexivity. }
        f_equal. rewrite re_sumn. apply sumn_ext; intros l _. reflexivity.
      - rewrite ep_sumn. apply sumn_ext; intros a Ha. rewrite !ao_memo2_ok by assumption.
        unfold inv_legendre.
        transitivity (f i a * ep (sumn L (fun l => dconst (p a j l) * dvar (x a l) (v a l)))).
        { cbn [ep re fmul DualOps dmul dconst]. ring. }
        f_equal. rewrite ep_sumn. apply sumn_ext; intros l _. cbn. ring.
    Qed.
  End Tables.
End SHTAdjoint.

(** ** (b) transposes of the spectral derivative operators (Model/Deriv.v) *)
Section DerivDefs.
  Context {F : Type} {o : Ops F}.
  Import Gen.DerivExprs Model.Deriv.

  (** transpose of the tridiagonal column operator [Thm.Deriv.tri] *)
  Definition triT (C : nat) (wm wp : nat -> nat -> F) (y : nat -> nat -> F) : nat -> nat -> F :=
    fun i k => (if Nat.ltb (S k) C then wp i k * y i (S k) else 0) +
               (if Nat.eqb k 0 then 0 else wm i k * y i (k - 1)%nat).
  (** transposes of [Grid.cos_lat_d_dlat] (D1) and [Grid.sec_lat_d_dlat_cos2] (D2):
      the same recurrence tables [a], [b], weights of the source column *)
  Definition D1T (L C : nat) (a b : nat -> nat -> F) (y : nat -> nat -> F) : nat -> nat -> F :=
    triT C (fun i l => d1_wm (lit (laxis L l)) (a i l)) (fun i l => d1_wp (lit (laxis L l)) (b i l)) y.
  Definition D2T (L C : nat) (a b : nat -> nat -> F) (y : nat -> nat -> F) : nat -> nat -> F :=
    triT C (fun i l => d2_wm (lit (laxis L l)) (a i l)) (fun i l => d2_wp (lit (laxis L l)) (b i l)) y.
  (** the transpose of [cos_lat_grad] (without clipping) as a map from pairs to scalars *)
  Definition cos_lat_gradT (fast : bool) (L R C : nat) (r : F) (a b : nat -> nat -> F)
             (v : (nat -> nat -> F) * (nat -> nat -> F)) : nat -> nat -> F :=
    fun i l => (- d_dlon fast R (fst v) i l + D1T L C a b (snd v) i l) / r.
End DerivDefs.

Section DerivAdjoint.
  Context {F : Type} {o : Ops F} {Fc : FieldC o}.
  Add Field FFad : (field_c : FieldTh o).
  Import Gen.DerivExprs Model.Deriv Thm.Deriv.

  Lemma ao_sumn_pairs n (g : nat -> F) :
    sumn (2 * n) g = sumn n (fun j => g (2 * j)%nat + g (2 * j + 1)%nat).
  Proof.
    induction n as [|n IH]; [reflexivity|].
    replace (2 * S n)%nat with (S (S (2 * n))) by lia.
    cbn [sumn]. rewrite IH. replace (2 * n + 1)%nat with (S (2 * n)) by lia. ring.
  Qed.

  (** shifting a sum by one column *)
  Lemma ao_shift_sum C (g : nat -> nat -> F) :
    sumn C (fun l => if Nat.ltb (S l) C then g (S l) l else 0)
    = sumn C (fun k => if Nat.eqb k 0 then 0 else g k (k - 1)%nat).
  Proof.
    destruct C as [|n]; [reflexivity|].
    rewrite (sumn_S_first n (fun k => if Nat.eqb k 0 then 0 else g k (k - 1)%nat)).
    cbn [sumn Nat.eqb].
    rewrite (sumn_ext n (fun l => if Nat.ltb (S l) (S n) then g (S l) l else 0) (fun l => g (S l) l)).
    2:{ intros l Hl. destruct (Nat.ltb_spec (S l) (S n)); [reflexivity|lia]. }
    rewrite (sumn_ext n (fun i => if Nat.eqb (S i) 0 then 0 else g (S i) (S i - 1)%nat) (fun l => g (S l) l)).
    2:{ intros l Hl. cbn [Nat.eqb]. replace (S l - 1)%nat with l by lia. reflexivity. }
    destruct (Nat.ltb_spec (S n) (S n)); [lia|]. ring.
  Qed.

  Theorem tri_adjoint C (wm wp : nat -> nat -> F) (x y : nat -> nat -> F) i :
    sumn C (fun l => tri C wm wp x i l * y i l) = sumn C (fun l => x i l * triT C wm wp y i l).
  Proof.
    unfold tri, triT.
    transitivity (sumn C (fun l => if Nat.ltb (S l) C then wm i (S l) * x i (S l) * y i l else 0)
                  + sumn C (fun l => if Nat.eqb l 0 then 0 else wp i (l - 1)%nat * x i (l - 1)%nat * y i l)).
    { rewrite <- sumn_add. apply sumn_ext; intros l Hl.
      destruct (Nat.ltb (S l) C), (Nat.eqb l 0); ring. }
    rewrite (ao_shift_sum C (fun k l => wm i k * x i k * y i l)).
    rewrite <- (ao_shift_sum C (fun k l => wp i l * x i l * y i k)).
    rewrite <- sumn_add. apply sumn_ext; intros l Hl.
    destruct (Nat.ltb (S l) C), (Nat.eqb l 0); ring.
  Qed.

  Theorem D1_adjoint L C (a b x y : nat -> nat -> F) i :
    sumn C (fun l => D1 L C a b x i l * y i l) = sumn C (fun l => x i l * D1T L C a b y i l).
  Proof.
    unfold D1T, d1_wm, d1_wp. rewrite <- tri_adjoint. apply sumn_ext; intros l Hl.
    rewrite D1_entries by assumption. unfold tri. cbn [lit].
    destruct (Nat.ltb (S l) C), (Nat.eqb l 0); ring.
  Qed.

  Theorem D2_adjoint L C (a b x y : nat -> nat -> F) i :
    sumn C (fun l => D2 L C a b x i l * y i l) = sumn C (fun l => x i l * D2T L C a b y i l).
  Proof.
    unfold D2T, d2_wm, d2_wp. rewrite <- tri_adjoint. apply sumn_ext; intros l Hl.
    rewrite D2_entries by assumption. unfold tri. cbn [lit].
    destruct (Nat.ltb (S l) C), (Nat.eqb l 0); ring.
  Qed.

  (** the recurrence tables of the code satisfy a[., l+1] = b[., l] (both are
      sqrt(((l+1)^2 - m^2) / (4 (l+1)^2 - 1)) inside the mask) and vanish at and beyond
      the truncation; then cos_lat_d_dlat and sec_lat_d_dlat_cos2 are negative transposes *)
  Definition H_ab_shift (C : nat) (a b : nat -> nat -> F) : Prop :=
    forall i l, (S l < C)%nat -> a i (S l) = b i l.
  Definition H_b_trunc (L C : nat) (b : nat -> nat -> F) : Prop :=
    forall i l, (S l < C)%nat -> (L <= S l)%nat -> b i l = 0.

  Theorem D1T_is_neg_D2 L C (a b y : nat -> nat -> F) i l :
    H_ab_shift C a b -> H_b_trunc L C b -> (l < C)%nat ->
    D1T L C a b y i l = - D2 L C a b y i l.
  Proof.
    intros Hab Hb Hl. rewrite D2_entries by assumption.
    unfold D1T, triT, tri, d1_wm, d1_wp. cbn [lit].
    assert (E1 : (if Nat.ltb (S l) C then - lit (laxis L l) * b i l * y i (S l) else 0)
                 = - (if Nat.ltb (S l) C then (lit (laxis L (S l)) - (0 + 1)) * a i (S l) * y i (S l) else 0)).
    { destruct (Nat.ltb_spec (S l) C) as [H|H]; [|ring].
      rewrite (Hab i l H).
      destruct (Nat.ltb_spec (S l) L) as [H'|H'].
      - rewrite !laxis_lt by lia. rewrite lit_S. ring.
      - rewrite (Hb i l H H'). ring. }
    assert (E2 : (if Nat.eqb l 0 then 0 else (lit (laxis L l) + (0 + 1)) * a i l * y i (l - 1)%nat)
                 = - (if Nat.eqb l 0 then 0 else - (lit (laxis L (l - 1)) + (0 + 1 + 1)) * b i (l - 1)%nat * y i (l - 1)%nat)).
    { destruct (Nat.eqb_spec l 0) as [H|H]; [ring|].
      assert (Hs : (S (l - 1) < C)%nat) by lia.
      pose proof (Hab i (l - 1)%nat Hs) as Ea. replace (S (l - 1)) with l in Ea by lia.
      destruct (Nat.ltb_spec l L) as [H'|H'].
      - rewrite !laxis_lt by lia. rewrite Ea.
        replace l with (S (l - 1)) at 1 by lia. rewrite lit_S. ring.
      - assert (Hz : b i (l - 1)%nat = 0) by (apply Hb; lia).
        rewrite Ea, Hz. ring. }
    transitivity ((if Nat.ltb (S l) C then - lit (laxis L l) * b i l * y i (S l) else 0)
                  + (if Nat.eqb l 0 then 0 else (lit (laxis L l) + (0 + 1)) * a i l * y i (l - 1)%nat)).
    { destruct (Nat.ltb (S l) C), (Nat.eqb l 0); ring. }
    rewrite E1, E2.
    destruct (Nat.ltb (S l) C), (Nat.eqb l 0); ring.
  Qed.

  (** longitude derivative: skew-adjoint in both layouts *)
  Theorem d_dlon_skew fast R (x y : nat -> nat -> F) l :
    layout_ok fast R ->
    sumn R (fun i => d_dlon fast R x i l * y i l) = - sumn R (fun i => x i l * d_dlon fast R y i l).
  Proof.
    intros HR. unfold layout_ok in HR. pose proof (Nat.div_mod_eq R 2) as HD.
    rewrite <- sumn_opp. destruct fast; unfold d_dlon.
    - assert (ER : R = (2 * (R / 2))%nat) by lia.
      assert (HS : forall g : nat -> F, sumn R g = sumn (2 * (R / 2)) g) by (intros g; f_equal; exact ER).
      rewrite !HS. rewrite !ao_sumn_pairs. apply sumn_ext; intros j Hj.
      assert (Hlt : (2 * j + 1 < R)%nat) by lia.
      destruct (dlon_pairs_fast R 0 x j l Hlt) as [X0 X1].
      destruct (dlon_pairs_fast R 0 y j l Hlt) as [Y0 Y1].
      rewrite X0, X1, Y0, Y1. ring.
    - assert (ER : R = S (2 * (R / 2))) by lia.
      assert (HS : forall g : nat -> F, sumn R g = sumn (S (2 * (R / 2))) g) by (intros g; f_equal; exact ER).
      rewrite !HS. rewrite !sumn_S_first, !ao_sumn_pairs.
      assert (Z0 : forall z : nat -> nat -> F, dlon_ref R z 0%nat l = 0).
      { intros z. rewrite dlon_ref_unfold by lia. cbn. ring. }
      rewrite !Z0.
      transitivity (sumn (R / 2) (fun j =>
                      - (x (S (2 * j)) l * dlon_ref R y (S (2 * j)) l)
                      + - (x (S (2 * j + 1)) l * dlon_ref R y (S (2 * j + 1)) l))).
      2:{ ring. }
      transitivity (sumn (R / 2) (fun j =>
                      dlon_ref R x (S (2 * j)) l * y (S (2 * j)) l
                      + dlon_ref R x (S (2 * j + 1)) l * y (S (2 * j + 1)) l)).
      { ring. }
      apply sumn_ext; intros j Hj.
      assert (H1 : (1 <= S j)%nat) by lia. assert (H2 : (2 * S j < R)%nat) by lia.
      destruct (dlon_pairs_ref R x (S j) l H1 H2) as (X0 & X1 & _).
      destruct (dlon_pairs_ref R y (S j) l H1 H2) as (Y0 & Y1 & _).
      replace (2 * S j - 1)%nat with (S (2 * j)) in * by lia.
      replace (2 * S j)%nat with (S (2 * j + 1)) in * by lia.
      rewrite X0, X1, Y0, Y1. ring.
  Qed.

  (** diagonal operators are self-adjoint (entrywise) *)
  Theorem laplacian_self_adjoint L r (x y : nat -> nat -> F) i l :
    laplacian L r x i l * y i l = x i l * laplacian L r y i l.
  Proof. unfold laplacian. ring. Qed.
  Theorem inverse_laplacian_self_adjoint L r (x y : nat -> nat -> F) i l :
    inverse_laplacian L r x i l * y i l = x i l * inverse_laplacian L r y i l.
  Proof. unfold inverse_laplacian. ring. Qed.
  Theorem clip_self_adjoint L C n (x y : nat -> nat -> F) i l :
    clip L C n x i l * y i l = x i l * clip L C n y i l.
  Proof. unfold clip. ring. Qed.

  (** gradient: <cos_lat_grad x, (u, v)> = <x, cos_lat_gradT (u, v)> (no clipping), and with the
      table relations the transpose of the gradient is minus the divergence *)
  Lemma ao_dlon_scaled_adjoint fast R C r (x u : nat -> nat -> F) :
    layout_ok fast R ->
    dot2 R C (fun i l => d_dlon fast R x i l / r) u = dot2 R C x (fun i l => - d_dlon fast R u i l / r).
  Proof.
    intros HR. pose proof (Fdiv_def (field_c : FieldTh o)) as Dd. unfold dot2.
    rewrite (sumn_exchange R C (fun i l => d_dlon fast R x i l / r * u i l)).
    rewrite (sumn_exchange R C (fun i l => x i l * (- d_dlon fast R u i l / r))).
    apply sumn_ext; intros l Hl.
    transitivity (finv r * sumn R (fun i => d_dlon fast R x i l * u i l)).
    { rewrite <- sumn_scal_l. apply sumn_ext; intros i Hi. rewrite Dd. ring. }
    rewrite (d_dlon_skew fast R x u l HR).
    transitivity (finv r * sumn R (fun i => - (x i l * d_dlon fast R u i l))).
    { rewrite sumn_opp. reflexivity. }
    rewrite <- sumn_scal_l. apply sumn_ext; intros i Hi. rewrite Dd. ring.
  Qed.

  Lemma ao_D1_scaled_adjoint L R C r (a b x v : nat -> nat -> F) :
    dot2 R C (fun i l => D1 L C a b x i l / r) v = dot2 R C x (fun i l => D1T L C a b v i l / r).
  Proof.
    pose proof (Fdiv_def (field_c : FieldTh o)) as Dd. unfold dot2.
    apply sumn_ext; intros i Hi.
    transitivity (finv r * sumn C (fun l => D1 L C a b x i l * v i l)).
    { rewrite <- sumn_scal_l. apply sumn_ext; intros l Hl. rewrite Dd. ring. }
    rewrite D1_adjoint.
    rewrite <- sumn_scal_l. apply sumn_ext; intros l Hl. rewrite Dd. ring.
  Qed.

  Theorem cos_lat_grad_adjoint fast L R C r (a b x u v : nat -> nat -> F) :
    layout_ok fast R ->
    dot2 R C (fst (cos_lat_grad fast L R C r a b false x)) u
    + dot2 R C (snd (cos_lat_grad fast L R C r a b false x)) v
    = dot2 R C x (cos_lat_gradT fast L R C r a b (u, v)).
  Proof.
    intros HR. pose proof (Fdiv_def (field_c : FieldTh o)) as Dd.
    unfold cos_lat_grad, cos_lat_gradT, clip_if. cbn [fst snd].
    rewrite (ao_dlon_scaled_adjoint fast R C r x u HR), (ao_D1_scaled_adjoint L R C r a b x v).
    unfold dot2. rewrite <- sumn_add. apply sumn_ext; intros i Hi.
    rewrite <- sumn_add. apply sumn_ext; intros l Hl. rewrite !Dd. ring.
  Qed.

  Theorem grad_div_adjoint fast L R C r (a b x u v : nat -> nat -> F) :
    layout_ok fast R -> H_ab_shift C a b -> H_b_trunc L C b ->
    dot2 R C (fst (cos_lat_grad fast L R C r a b false x)) u
    + dot2 R C (snd (cos_lat_grad fast L R C r a b false x)) v
    = - dot2 R C x (div_cos_lat fast L R C r a b false (u, v)).
  Proof.
    intros HR Hab Hb. pose proof (Fdiv_def (field_c : FieldTh o)) as Dd.
    rewrite cos_lat_grad_adjoint by assumption.
    unfold dot2, cos_lat_gradT, div_cos_lat, clip_if. cbn [fst snd].
    rewrite <- sumn_opp. apply sumn_ext; intros i Hi.
    rewrite <- sumn_opp. apply sumn_ext; intros l Hl.
    rewrite (D1T_is_neg_D2 L C a b v i l Hab Hb Hl). rewrite !Dd. ring.
  Qed.
End DerivAdjoint.
