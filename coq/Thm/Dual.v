(** Dual numbers compute derivatives: for every expression built from field
    operations, evaluation at [x + eps v] has eps-part equal to the formal
    directional derivative; the derivative is linear in the direction; and the
    Taylor polynomial in the step [h] gives the exact central-difference
    identities (degree <= 2: exact; degree 3: error h^2 * c3).  (C08) *)
From Dino Require Import Base.Ops Base.Sums Model.Dual.
Local Open Scope F_scope.

Section Expr.
  Context {F : Type}.
  Inductive expr : Type :=
  | EConst (c : F) | EVar (i : nat)
  | EAdd (a b : expr) | ESub (a b : expr) | EMul (a b : expr) | EOpp (a : expr)
  | EDiv (a b : expr).
End Expr.
Arguments expr F : clear implicits.

Section Eval.
  Context {F : Type} {o : Ops F}.

  Fixpoint eval (env : nat -> F) (e : expr F) : F :=
    match e with
    | EConst c => c | EVar i => env i
    | EAdd a b => eval env a + eval env b
    | ESub a b => eval env a - eval env b
    | EMul a b => eval env a * eval env b
    | EOpp a => - eval env a
    | EDiv a b => eval env a / eval env b
    end.

  (** formal directional derivative at [x] in direction [v] *)
  Fixpoint deriv (x v : nat -> F) (e : expr F) : F :=
    match e with
    | EConst _ => 0 | EVar i => v i
    | EAdd a b => deriv x v a + deriv x v b
    | ESub a b => deriv x v a - deriv x v b
    | EMul a b => eval x a * deriv x v b + deriv x v a * eval x b
    | EOpp a => - deriv x v a
    | EDiv a b => (deriv x v a * eval x b - eval x a * deriv x v b) / (eval x b * eval x b)
    end.

  Fixpoint lift (e : expr F) : expr (dual F) :=
    match e with
    | EConst c => EConst (dconst c) | EVar i => EVar i
    | EAdd a b => EAdd (lift a) (lift b) | ESub a b => ESub (lift a) (lift b)
    | EMul a b => EMul (lift a) (lift b) | EOpp a => EOpp (lift a)
    | EDiv a b => EDiv (lift a) (lift b)
    end.

  Fixpoint no_div (e : expr F) : bool :=
    match e with
    | EConst _ | EVar _ => true
    | EAdd a b | ESub a b | EMul a b => no_div a && no_div b
    | EOpp a => no_div a
    | EDiv _ _ => false
    end.

  Fixpoint degree (e : expr F) : nat :=
    match e with
    | EConst _ => 0 | EVar _ => 1
    | EAdd a b | ESub a b => Nat.max (degree a) (degree b)
    | EMul a b => degree a + degree b
    | EOpp a => degree a
    | EDiv a b => degree a + degree b
    end.

  (** polynomials in the step size h: coefficient lists, lowest degree first *)
  Definition poly := list F.
  Fixpoint peval (p : poly) (h : F) : F :=
    match p with [] => 0 | a :: q => a + h * peval q h end.
  Fixpoint padd (p q : poly) : poly :=
    match p, q with
    | [], _ => q | _, [] => p
    | a :: p', b :: q' => (a + b) :: padd p' q'
    end.
  Definition pscal (c : F) (p : poly) : poly := map (fun a => c * a) p.
  Fixpoint pmul (p q : poly) : poly :=
    match p with
    | [] => []
    | a :: p' => padd (pscal a q) (0 :: pmul p' q)
    end.
  Definition popp (p : poly) : poly := pscal (- (1)) p.
  Definition coef (p : poly) (k : nat) : F := nth k p 0.

  (** Taylor polynomial of [h |-> eval (x + h v) e] for division-free [e] *)
  Fixpoint texp (x v : nat -> F) (e : expr F) : poly :=
    match e with
    | EConst c => [c] | EVar i => [x i; v i]
    | EAdd a b => padd (texp x v a) (texp x v b)
    | ESub a b => padd (texp x v a) (popp (texp x v b))
    | EMul a b => pmul (texp x v a) (texp x v b)
    | EOpp a => popp (texp x v a)
    | EDiv a b => []
    end.
End Eval.

Section Thm.
  Context {F : Type} {o : Ops F} {Fc : FieldC o}.
  Add Field FFd : (field_c : FieldTh o).

  (** *** dual numbers form a commutative ring (so [ring]-style reasoning is sound at this carrier) *)
  Lemma dual_eq (a b : dual F) : re a = re b -> ep a = ep b -> a = b.
  Proof. destruct a, b; cbn; intros -> ->; reflexivity. Qed.

  Theorem dual_ring :
    ring_theory (dconst 0) (dconst 1) (@dadd F o) (@dmul F o) (@dsub F o) (@dopp F o) eq.
  Proof.
    constructor; intros; apply dual_eq; cbn; ring.
  Qed.

  (** the primal part is a ring morphism, the eps part obeys the Leibniz rule *)
  Lemma re_sumn n (f : nat -> dual F) : re (sumn n f) = sumn n (fun i => re (f i)).
  Proof. induction n as [|n IH]; cbn; [reflexivity|]. now rewrite IH. Qed.
  Lemma ep_sumn n (f : nat -> dual F) : ep (sumn n f) = sumn n (fun i => ep (f i)).
  Proof. induction n as [|n IH]; cbn; [reflexivity|]. now rewrite IH. Qed.

  (** *** evaluation at x + eps v = (value, directional derivative) *)
  Theorem dual_eval (x v : nat -> F) (e : expr F) :
    eval (o := DualOps) (fun i => dvar (x i) (v i)) (lift e)
    = mkdual (eval x e) (deriv x v e).
  Proof.
    induction e as [c|i|a IHa b IHb|a IHa b IHb|a IHa b IHb|a IHa|a IHa b IHb]; cbn [lift eval deriv].
    - reflexivity.
    - reflexivity.
    - rewrite IHa, IHb. reflexivity.
    - rewrite IHa, IHb. reflexivity.
    - rewrite IHa, IHb. reflexivity.
    - rewrite IHa. reflexivity.
    - rewrite IHa, IHb. reflexivity.
  Qed.

  (** the derivative is linear in the direction (where denominators do not vanish) *)
  Fixpoint denoms_nz (x : nat -> F) (e : expr F) : Prop :=
    match e with
    | EConst _ | EVar _ => True
    | EAdd a b | ESub a b | EMul a b => denoms_nz x a /\ denoms_nz x b
    | EOpp a => denoms_nz x a
    | EDiv a b => denoms_nz x a /\ denoms_nz x b /\ eval x b <> 0
    end.

  Theorem deriv_linear (x v w : nat -> F) (s t : F) (e : expr F) :
    denoms_nz x e ->
    deriv x (fun i => s * v i + t * w i) e = s * deriv x v e + t * deriv x w e.
  Proof.
    induction e as [c|i|a IHa b IHb|a IHa b IHb|a IHa b IHb|a IHa|a IHa b IHb]; cbn [deriv denoms_nz]; intros H.
    - ring.
    - ring.
    - destruct H. rewrite IHa, IHb by assumption. ring.
    - destruct H. rewrite IHa, IHb by assumption. ring.
    - destruct H. rewrite IHa, IHb by assumption. ring.
    - rewrite IHa by assumption. ring.
    - destruct H as (Ha & Hb & Hn). rewrite IHa, IHb by assumption. field. exact Hn.
  Qed.

  (** *** polynomial arithmetic is sound *)
  Lemma peval_padd p q h : peval (padd p q) h = peval p h + peval q h.
  Proof.
    revert q; induction p as [|a p IH]; intros q; cbn; [ring|].
    destruct q as [|b q]; cbn; [ring|]. rewrite IH. ring.
  Qed.
  Lemma peval_pscal c p h : peval (pscal c p) h = c * peval p h.
  Proof. induction p as [|a p IH]; cbn; [ring|]. fold (pscal c p). rewrite IH. ring. Qed.
  Lemma peval_popp p h : peval (popp p) h = - peval p h.
  Proof. unfold popp. rewrite peval_pscal. ring. Qed.
  Lemma peval_pmul p q h : peval (pmul p q) h = peval p h * peval q h.
  Proof.
    induction p as [|a p IH]; cbn [pmul peval]; [ring|].
    rewrite peval_padd, peval_pscal. cbn [peval]. rewrite IH. ring.
  Qed.

  Theorem texp_sound (x v : nat -> F) (e : expr F) (h : F) :
    no_div e = true ->
    peval (texp x v e) h = eval (fun i => x i + h * v i) e.
  Proof.
    induction e as [c|i|a IHa b IHb|a IHa b IHb|a IHa b IHb|a IHa|a IHa b IHb]; cbn [texp eval no_div]; intros H.
    - cbn. ring.
    - cbn. ring.
    - apply andb_true_iff in H as [Ha Hb]. rewrite peval_padd, IHa, IHb by assumption. reflexivity.
    - apply andb_true_iff in H as [Ha Hb]. rewrite peval_padd, peval_popp, IHa, IHb by assumption. ring.
    - apply andb_true_iff in H as [Ha Hb]. rewrite peval_pmul, IHa, IHb by assumption. reflexivity.
    - rewrite peval_popp, IHa by assumption. reflexivity.
    - discriminate.
  Qed.

  (** coefficients 0 and 1 of the Taylor polynomial are the value and the derivative *)
  Lemma coef_padd p q k : coef (padd p q) k = coef p k + coef q k.
  Proof.
    unfold coef. revert q k; induction p as [|a p IH]; intros q k.
    - cbn. destruct k; cbn; ring.
    - destruct q as [|b q]; cbn [padd].
      + destruct k; cbn; ring.
      + destruct k; cbn; [ring|apply IH].
  Qed.
  Lemma coef_pscal c p k : coef (pscal c p) k = c * coef p k.
  Proof.
    unfold coef, pscal. revert k; induction p as [|a p IH]; intros k; cbn.
    - destruct k; ring.
    - destruct k; [ring|apply IH].
  Qed.
  Lemma coef_popp p k : coef (popp p) k = - coef p k.
  Proof. unfold popp. rewrite coef_pscal. ring. Qed.
  Lemma coef_pmul_0 p q : coef (pmul p q) 0 = coef p 0 * coef q 0.
  Proof.
    destruct p as [|a p]; cbn [pmul].
    - unfold coef; cbn. ring.
    - rewrite coef_padd, coef_pscal. unfold coef; cbn. ring.
  Qed.
  Lemma coef_pmul_1 p q : coef (pmul p q) 1 = coef p 0 * coef q 1 + coef p 1 * coef q 0.
  Proof.
    destruct p as [|a p]; cbn [pmul].
    - unfold coef; cbn. ring.
    - rewrite coef_padd, coef_pscal.
      change (coef (0 :: pmul p q) 1) with (coef (pmul p q) 0).
      rewrite coef_pmul_0. unfold coef; cbn. ring.
  Qed.

  Theorem texp_value_and_derivative (x v : nat -> F) (e : expr F) :
    no_div e = true ->
    coef (texp x v e) 0 = eval x e /\ coef (texp x v e) 1 = deriv x v e.
  Proof.
    induction e as [c|i|a IHa b IHb|a IHa b IHb|a IHa b IHb|a IHa|a IHa b IHb]; cbn [texp eval deriv no_div]; intros H.
    - unfold coef; cbn. auto.
    - unfold coef; cbn. auto.
    - apply andb_true_iff in H as [Ha Hb]. destruct (IHa Ha) as [A0 A1], (IHb Hb) as [B0 B1].
      rewrite !coef_padd, A0, A1, B0, B1. auto.
    - apply andb_true_iff in H as [Ha Hb]. destruct (IHa Ha) as [A0 A1], (IHb Hb) as [B0 B1].
      rewrite !coef_padd, !coef_popp, A0, A1, B0, B1. split; ring.
    - apply andb_true_iff in H as [Ha Hb]. destruct (IHa Ha) as [A0 A1], (IHb Hb) as [B0 B1].
      rewrite coef_pmul_0, coef_pmul_1, A0, A1, B0, B1. split; ring.
    - destruct (IHa H) as [A0 A1]. rewrite !coef_popp, A0, A1. auto.
    - discriminate.
  Qed.

  (** the Taylor polynomial has at most degree+1 coefficients *)
  Lemma length_padd p q : length (padd p q) = Nat.max (length p) (length q).
  Proof.
    revert q; induction p as [|a p IH]; intros q; [reflexivity|].
    destruct q as [|b q]; cbn; [reflexivity|]. now rewrite IH.
  Qed.
  Lemma length_pscal c p : length (pscal c p) = length p.
  Proof. apply map_length. Qed.
  Lemma length_pmul p q : (1 <= length q)%nat -> (length (pmul p q) <= length p + length q - 1)%nat.
  Proof.
    intros Hq. induction p as [|a p IH]; cbn [pmul length]; [lia|].
    rewrite length_padd, length_pscal. cbn [length]. lia.
  Qed.
  Lemma texp_nonempty x v e : no_div e = true -> (1 <= length (texp x v e))%nat.
  Proof.
    induction e as [c|i|a IHa b IHb|a IHa b IHb|a IHa b IHb|a IHa|a IHa b IHb]; cbn [texp no_div]; intros H.
    - cbn; lia.
    - cbn; lia.
    - apply andb_true_iff in H as [Ha Hb]. rewrite length_padd. specialize (IHa Ha). lia.
    - apply andb_true_iff in H as [Ha Hb]. rewrite length_padd. specialize (IHa Ha). lia.
    - apply andb_true_iff in H as [Ha Hb]. specialize (IHa Ha). specialize (IHb Hb).
      destruct (texp x v a) as [|a0 p]; [cbn in IHa; lia|]. cbn [pmul]. rewrite length_padd, length_pscal. cbn [length]. lia.
    - unfold popp. rewrite length_pscal. auto.
    - discriminate.
  Qed.
  Lemma texp_length x v e : no_div e = true -> (length (texp x v e) <= degree e + 1)%nat.
  Proof.
    induction e as [c|i|a IHa b IHb|a IHa b IHb|a IHa b IHb|a IHa|a IHa b IHb]; cbn [texp no_div degree]; intros H.
    - cbn; lia.
    - cbn; lia.
    - apply andb_true_iff in H as [Ha Hb]. rewrite length_padd. specialize (IHa Ha). specialize (IHb Hb). lia.
    - apply andb_true_iff in H as [Ha Hb]. rewrite length_padd. unfold popp. rewrite length_pscal.
      specialize (IHa Ha). specialize (IHb Hb). lia.
    - apply andb_true_iff in H as [Ha Hb].
      pose proof (length_pmul (texp x v a) (texp x v b) (texp_nonempty x v b Hb)).
      specialize (IHa Ha). specialize (IHb Hb). pose proof (texp_nonempty x v a Ha). lia.
    - unfold popp. rewrite length_pscal. auto.
    - discriminate.
  Qed.

  (** central difference of a polynomial with at most 4 coefficients *)
  Lemma central_difference_poly (p : poly) (h : F) :
    (length p <= 4)%nat -> 1 + 1 <> 0 -> h <> 0 ->
    (peval p h - peval p (- h)) / ((1 + 1) * h) = coef p 1 + h * h * coef p 3.
  Proof.
    intros Hl H2 Hh. unfold coef.
    destruct p as [|c0 [|c1 [|c2 [|c3 [|c4 p]]]]]; cbn in *; try lia; field; auto.
  Qed.

  (** *** central differences of the primal equal the dual-number derivative *)
  Theorem central_difference_exact_deg2 (x v : nat -> F) (e : expr F) (h : F) :
    no_div e = true -> (degree e <= 2)%nat -> 1 + 1 <> 0 -> h <> 0 ->
    (eval (fun i => x i + h * v i) e - eval (fun i => x i + (- h) * v i) e) / ((1 + 1) * h)
    = deriv x v e.
  Proof.
    intros Hn Hd H2 Hh.
    rewrite <- !texp_sound by assumption.
    pose proof (texp_length x v e Hn) as Hl.
    rewrite central_difference_poly by (auto; lia).
    destruct (texp_value_and_derivative x v e Hn) as [_ ->].
    assert (E : coef (texp x v e) 3 = 0).
    { unfold coef. apply nth_overflow. lia. }
    rewrite E. ring.
  Qed.

  Theorem central_difference_deg3 (x v : nat -> F) (e : expr F) (h : F) :
    no_div e = true -> (degree e <= 3)%nat -> 1 + 1 <> 0 -> h <> 0 ->
    (eval (fun i => x i + h * v i) e - eval (fun i => x i + (- h) * v i) e) / ((1 + 1) * h)
    = deriv x v e + h * h * coef (texp x v e) 3.
  Proof.
    intros Hn Hd H2 Hh.
    rewrite <- !texp_sound by assumption.
    pose proof (texp_length x v e Hn) as Hl.
    rewrite central_difference_poly by (auto; lia).
    destruct (texp_value_and_derivative x v e Hn) as [_ ->]. reflexivity.
  Qed.
End Thm.
