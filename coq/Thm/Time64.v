(** Proofs about Model/Time64.v: the binary64 round trips, through Flocq's
    specification of Coq's primitive floats ([Prim2B], [Bmult_correct], ...),
    the standard model of rounding ([relative_error_N_FLT_ex]) and [interval]
    for the accumulated error terms. *)
From Coq Require Import ZArith Reals Lra Lia PrimFloat Uint63 FloatOps List.
From Flocq Require Import Core Relative.
From Flocq Require Import IEEE754.BinarySingleNaN IEEE754.PrimFloat.
From Interval Require Import Tactic.
From Dino Require Import Model.Time64.
Local Open Scope R_scope.

Notation fexp64 := (FLT_exp (-1074) 53).
Definition rnd (x : R) : R := round radix2 fexp64 ZnearestE x.
Notation pfloat := Coq.Floats.PrimFloat.float.
Definition FR (x : pfloat) : R := B2R (Prim2B x).
Definition fin (x : pfloat) : Prop := is_finite (Prim2B x) = true.
Definition BIG : R := bpow radix2 1000.

Local Instance p53 : Prec_gt_0 53.
Proof. reflexivity. Qed.

Lemma fexp_eq : FLT_exp (3 - emax - prec) prec = fexp64.
Proof. reflexivity. Qed.

Lemma BIG_format : generic_format radix2 fexp64 BIG.
Proof. apply generic_format_FLT_bpow; [reflexivity | lia]. Qed.

Lemma rnd_lt_emax z : Rabs z <= BIG -> Rlt_bool (Rabs (rnd z)) (bpow radix2 emax) = true.
Proof.
  intros H. apply Rlt_bool_true.
  apply Rle_lt_trans with BIG.
  - apply abs_round_le_generic; auto with typeclass_instances. exact BIG_format.
  - apply bpow_lt. reflexivity.
Qed.

Lemma mul_R x y : fin x -> fin y -> Rabs (FR x * FR y) <= BIG ->
  FR (x * y)%float = rnd (FR x * FR y) /\ fin (x * y)%float.
Proof.
  unfold FR, fin. intros Hx Hy Hb. rewrite mul_equiv.
  generalize (Bmult_correct prec emax Hprec Hmax mode_NE (Prim2B x) (Prim2B y)).
  change (round radix2 (SpecFloat.fexp prec emax) (round_mode mode_NE)) with rnd.
  rewrite (rnd_lt_emax _ Hb). intros (H1 & H2 & _). rewrite H1, H2, Hx, Hy. split; reflexivity.
Qed.

Lemma div_R x y : fin x -> FR y <> 0 -> Rabs (FR x / FR y) <= BIG ->
  FR (x / y)%float = rnd (FR x / FR y) /\ fin (x / y)%float.
Proof.
  unfold FR, fin. intros Hx Hy Hb. rewrite div_equiv.
  generalize (Bdiv_correct prec emax Hprec Hmax mode_NE (Prim2B x) (Prim2B y) Hy).
  change (round radix2 (SpecFloat.fexp prec emax) (round_mode mode_NE)) with rnd.
  rewrite (rnd_lt_emax _ Hb). intros (H1 & H2 & _). rewrite H1, H2, Hx. split; reflexivity.
Qed.

Lemma rint_R x : fin x -> FR (rint x) = IZR (ZnearestE (FR x)) /\ fin (rint x).
Proof.
  unfold FR, fin, rint. intros Hx. rewrite Prim2B_B2Prim.
  destruct (Bnearbyint_correct prec emax Hmax mode_NE (Prim2B x)) as (H1 & H2 & _).
  rewrite H1, H2, Hx. split; [|reflexivity]. apply round_FIX_IZR.
Qed.

Lemma trunc_R x : trunc x = Ztrunc (FR x).
Proof.
  unfold trunc, FR. apply eq_IZR. rewrite Btrunc_correct. apply round_FIX_IZR. exact Hmax.
Qed.

Lemma format_IZR s : (Z.abs s < 2 ^ 53)%Z -> generic_format radix2 fexp64 (IZR s).
Proof.
  intros H. apply generic_format_FLT. apply (FLT_spec radix2 (-1074) 53 (IZR s) (Float radix2 s 0)).
  - unfold F2R; simpl. ring.
  - exact H.
  - simpl. lia.
Qed.

Lemma rnd_IZR s : (Z.abs s < 2 ^ 53)%Z -> rnd (IZR s) = IZR s.
Proof. intros H. apply round_generic; auto with typeclass_instances. now apply format_IZR. Qed.

Lemma of_nonneg_R s : (0 <= s < 2 ^ 53)%Z -> FR (of_uint63 (Uint63.of_Z s)) = IZR s /\ fin (of_uint63 (Uint63.of_Z s)).
Proof.
  intros Hs. unfold FR, fin.
  assert (E : Uint63.to_Z (Uint63.of_Z s) = s).
  { rewrite Uint63.of_Z_spec. apply Z.mod_small. unfold Uint63.wB, Uint63.size. simpl. lia. }
  rewrite (of_int63_equiv (Uint63.of_Z s)). rewrite E.
  generalize (binary_normalize_correct prec emax Hprec Hmax mode_NE s 0 false). cbv zeta.
  change (round radix2 (SpecFloat.fexp prec emax) (round_mode mode_NE)) with rnd.
  replace (F2R (Float radix2 s 0)) with (IZR s) by (unfold F2R; simpl; ring).
  rewrite rnd_IZR by lia.
  rewrite Rlt_bool_true.
  - intros (H1 & H2 & _). split; assumption.
  - apply Rlt_le_trans with (bpow radix2 53).
    + rewrite <- abs_IZR. rewrite <- (IZR_Zpower radix2 53) by lia. apply IZR_lt. simpl. lia.
    + apply bpow_le. unfold emax. lia.
Qed.

Lemma of_Z_R s : (Z.abs s < 2 ^ 53)%Z -> FR (of_Z s) = IZR s /\ fin (of_Z s).
Proof.
  intros Hs. unfold of_Z. destruct (Z.ltb_spec s 0) as [Hn|Hp].
  - destruct (of_nonneg_R (- s)) as (H1 & H2); [lia|].
    unfold FR, fin in *. rewrite opp_equiv, B2R_Bopp, is_finite_Bopp, H1, H2. split; [|reflexivity].
    rewrite opp_IZR. ring.
  - apply of_nonneg_R. lia.
Qed.

Lemma FR_SF x : FR x = SF2R radix2 (Prim2SF x).
Proof. unfold FR, Prim2B. apply B2R_SF2B. Qed.
Lemma fin_SF x : is_finite_SF (Prim2SF x) = true -> fin x.
Proof. unfold fin, Prim2B. now rewrite is_finite_SF2B. Qed.

Ltac const_val := rewrite FR_SF; match goal with |- SF2R _ ?v = _ => let w := eval vm_compute in v in change v with w end;
  unfold SF2R, F2R; simpl; lra.

Lemma FR_1000 : FR f1000 = 1000. Proof. const_val. Qed.
Lemma FR_3600 : FR f3600 = 3600. Proof. const_val. Qed.
Lemma FR_60 : FR f60 = 60. Proof. const_val. Qed.
Lemma FR_1 : FR 1%float = 1. Proof. const_val. Qed.
Lemma fin_1000 : fin f1000. Proof. apply fin_SF. vm_compute. reflexivity. Qed.
Lemma fin_3600 : fin f3600. Proof. apply fin_SF. vm_compute. reflexivity. Qed.
Lemma fin_60 : fin f60. Proof. apply fin_SF. vm_compute. reflexivity. Qed.
Lemma fin_1 : fin 1%float. Proof. apply fin_SF. vm_compute. reflexivity. Qed.

Definition u53 : R := / 9007199254740992.
Definition tiny : R := / 1606938044258990275541962092341162602522202993782792835301376.   (* 2^-200 *)
Definition big : R := 1606938044258990275541962092341162602522202993782792835301376.      (* 2^200 *)

Lemma u53_eq : / 2 * bpow radix2 (- 53 + 1) = u53.
Proof. unfold u53. simpl. lra. Qed.
Lemma tiny_eq : bpow radix2 (-200) = tiny. Proof. reflexivity. Qed.
Lemma big_eq : bpow radix2 200 = big. Proof. reflexivity. Qed.
Lemma big_le_BIG : big <= BIG.
Proof. rewrite <- big_eq. apply bpow_le. lia. Qed.

(** standard model of rounding to nearest, for arguments [IZR s * y] with [y]
    away from the subnormal range (covers s = 0) *)
Lemma rnd_rel_Zmul s y : tiny <= Rabs y ->
  exists e, Rabs e <= u53 /\ rnd (IZR s * y) = IZR s * y * (1 + e).
Proof.
  intros Hy. destruct (Z.eq_dec s 0) as [->|Hs].
  - exists 0. split; [unfold u53; rewrite Rabs_R0; lra|].
    rewrite Rmult_0_l. unfold rnd. rewrite round_0 by auto with typeclass_instances. ring.
  - rewrite <- u53_eq. apply (relative_error_N_FLT_ex radix2 (-1074) 53 p53 (fun x => negb (Z.even x))).
    apply Rle_trans with (bpow radix2 (-200)); [apply bpow_le; lia|]. rewrite tiny_eq.
    rewrite Rabs_mult. apply Rle_trans with (1 * Rabs y); [lra|].
    apply Rmult_le_compat_r; [apply Rabs_pos|]. rewrite <- abs_IZR. apply IZR_le. lia.
Qed.

Lemma IZR_bounds s k : (Z.abs s < k)%Z -> - IZR k <= IZR s <= IZR k.
Proof. intros H. split; [rewrite <- opp_IZR|]; apply IZR_le; lia. Qed.

(** admissible time scales: finite binary64 numbers in [2^-100, 2^100] seconds *)
Definition T_ok (T : pfloat) : Prop := fin T /\ bpow radix2 (-100) <= FR T <= bpow radix2 100.

Lemma T_ok_num T : T_ok T -> / 1267650600228229401496703205376 <= FR T <= 1267650600228229401496703205376.
Proof. intros (_ & H). exact H. Qed.

Ltac le_BIG := apply Rle_trans with (2 := big_le_BIG); unfold big.

Theorem timedelta_roundtrip (T : pfloat) (s : Z) :
  T_ok T -> (Z.abs s < 2 ^ 40)%Z -> td_roundtrip T s = s.
Proof.
  intros HT Hs. pose proof (T_ok_num T HT) as Ht. destruct HT as (FT & _).
  unfold td_roundtrip, dim_td, snap_ms, dim_s, nondim_td.
  destruct (of_Z_R s) as (Es & Fs); [lia|].
  pose proof (IZR_bounds s (2 ^ 40) Hs) as HS. change (IZR (2 ^ 40)) with 1099511627776 in HS.
  set (t := FR T) in *. set (S := IZR s) in *.
  assert (Ht0 : t <> 0) by lra.
  (* nondimensionalize: fl(s / T) *)
  destruct (div_R (of_Z s) T Fs Ht0) as (E1 & F1).
  { fold t. rewrite Es. fold S. le_BIG. interval. }
  rewrite Es in E1. fold t S in E1.
  destruct (rnd_rel_Zmul s (/ t)) as (e1 & He1 & R1). { unfold tiny. interval. }
  fold S in R1. change (S * / t) with (S / t) in R1. rewrite R1 in E1. clear R1.
  set (nd := (of_Z s / T)%float) in *.
  (* dimensionalize: fl(nd * T) *)
  assert (A2 : FR nd * t = S * (1 + e1)) by (rewrite E1; field; exact Ht0).
  destruct (mul_R nd T F1 FT) as (E2 & F2).
  { fold t. rewrite A2. le_BIG. interval. }
  fold t in E2. rewrite A2 in E2.
  destruct (rnd_rel_Zmul s (1 + e1)) as (e2 & He2 & R2). { unfold tiny. unfold u53 in He1. interval. }
  fold S in R2. rewrite R2 in E2. clear R2.
  set (d := (nd * T)%float) in *.
  (* dt * 1e3 *)
  assert (A3 : FR d * FR f1000 = S * ((1 + e1) * (1 + e2) * 1000)) by (rewrite E2, FR_1000; ring).
  destruct (mul_R d f1000 F2 fin_1000) as (E3 & F3).
  { rewrite A3. le_BIG. unfold u53 in *. interval. }
  rewrite A3 in E3.
  destruct (rnd_rel_Zmul s ((1 + e1) * (1 + e2) * 1000)) as (e3 & He3 & R3). { unfold tiny. unfold u53 in *. interval. }
  fold S in R3. rewrite R3 in E3. clear R3.
  set (m := (d * f1000)%float) in *.
  (* np.round *)
  destruct (rint_R m F3) as (E4 & F4).
  assert (N4 : ZnearestE (FR m) = (1000 * s)%Z).
  { apply Znearest_imp. rewrite E3, mult_IZR. fold S.
    replace (S * ((1 + e1) * (1 + e2) * 1000) * (1 + e3) - 1000 * S)
      with (S * (1000 * ((1 + e1) * (1 + e2) * (1 + e3) - 1))) by ring.
    unfold u53 in *. interval with (i_prec 200). }
  rewrite N4 in E4.
  set (r := rint m) in *.
  (* / 1e3 : exact *)
  assert (A5 : FR r / FR f1000 = S) by (rewrite E4, FR_1000, mult_IZR; fold S; field).
  destruct (div_R r f1000 F4) as (E5 & F5).
  { rewrite FR_1000. lra. }
  { rewrite A5. le_BIG. interval. }
  rewrite A5 in E5. unfold S in E5. rewrite rnd_IZR in E5 by lia.
  (* truncation *)
  rewrite trunc_R, E5. apply Ztrunc_IZR.
Qed.

Theorem datetime_roundtrip_minutes (T : pfloat) (M : Z) :
  T_ok T -> (Z.abs M < 2 ^ 40)%Z -> dt_roundtrip T M = M.
Proof.
  intros HT HM. pose proof (T_ok_num T HT) as Ht. destruct HT as (FT & _).
  unfold dt_roundtrip, dim_dt, dim_min, nondim_dt, nondim_hours, hours_of_minutes.
  destruct (of_Z_R M) as (Es & Fs); [lia|].
  pose proof (IZR_bounds M (2 ^ 40) HM) as HS. change (IZR (2 ^ 40)) with 1099511627776 in HS.
  set (t := FR T) in *. set (S := IZR M) in *.
  assert (Ht0 : t <> 0) by lra.
  (* c_min = fl(1 / 60) *)
  destruct (div_R 1%float f60 fin_1) as (E0 & F0).
  { rewrite FR_60. lra. }
  { rewrite FR_1, FR_60. le_BIG. interval. }
  rewrite FR_1, FR_60 in E0.
  destruct (rnd_rel_Zmul 1 (/ 60)) as (e0 & He0 & R0). { unfold tiny. interval. }
  replace (1 * / 60) with (1 / 60) in R0 by field. rewrite R0 in E0. clear R0.
  fold c_min in E0, F0.
  (* hours = fl(M / 60) *)
  destruct (div_R (of_Z M) f60 Fs) as (E1 & F1).
  { rewrite FR_60. lra. }
  { rewrite Es, FR_60. fold S. le_BIG. interval. }
  rewrite Es, FR_60 in E1. fold S in E1.
  destruct (rnd_rel_Zmul M (/ 60)) as (e1 & He1 & R1). { unfold tiny. interval. }
  fold S in R1. change (S * / 60) with (S / 60) in R1. rewrite R1 in E1. clear R1.
  set (h := (of_Z M / f60)%float) in *.
  (* fl(h / T) *)
  assert (A2 : FR h / t = S * (/ 60 * (1 + e1) / t)) by (rewrite E1; field; exact Ht0).
  destruct (div_R h T F1 Ht0) as (E2 & F2).
  { fold t. rewrite A2. le_BIG. unfold u53 in *. interval. }
  fold t in E2. rewrite A2 in E2.
  destruct (rnd_rel_Zmul M (/ 60 * (1 + e1) / t)) as (e2 & He2 & R2). { unfold tiny, u53 in *. interval. }
  fold S in R2. rewrite R2 in E2. clear R2.
  set (x := (h / T)%float) in *.
  (* fl(x * 3600) *)
  assert (A3 : FR x * FR f3600 = S * (/ 60 * (1 + e1) / t * (1 + e2) * 3600)) by (rewrite E2, FR_3600; ring).
  destruct (mul_R x f3600 F2 fin_3600) as (E3 & F3).
  { rewrite A3. le_BIG. unfold u53 in *. interval. }
  rewrite A3 in E3.
  destruct (rnd_rel_Zmul M (/ 60 * (1 + e1) / t * (1 + e2) * 3600)) as (e3 & He3 & R3). { unfold tiny, u53 in *. interval. }
  fold S in R3. rewrite R3 in E3. clear R3.
  set (nd := (x * f3600)%float) in *.
  (* fl(nd * T) *)
  assert (A4 : FR nd * t = S * (60 * (1 + e1) * (1 + e2) * (1 + e3))) by (rewrite E3; field; exact Ht0).
  destruct (mul_R nd T F3 FT) as (E4 & F4).
  { fold t. rewrite A4. le_BIG. unfold u53 in *. interval. }
  fold t in E4. rewrite A4 in E4.
  destruct (rnd_rel_Zmul M (60 * (1 + e1) * (1 + e2) * (1 + e3))) as (e4 & He4 & R4). { unfold tiny, u53 in *. interval. }
  fold S in R4. rewrite R4 in E4. clear R4.
  set (y := (nd * T)%float) in *.
  (* fl(y * c_min) *)
  assert (A5 : FR y * FR c_min = S * ((1 + e1) * (1 + e2) * (1 + e3) * (1 + e4) * (1 + e0))) by (rewrite E4, E0; field).
  destruct (mul_R y c_min F4 F0) as (E5 & F5).
  { rewrite A5. le_BIG. unfold u53 in *. interval. }
  rewrite A5 in E5.
  destruct (rnd_rel_Zmul M ((1 + e1) * (1 + e2) * (1 + e3) * (1 + e4) * (1 + e0))) as (e5 & He5 & R5). { unfold tiny, u53 in *. interval. }
  fold S in R5. rewrite R5 in E5. clear R5.
  set (mm := (y * c_min)%float) in *.
  (* np.round, astype(int) *)
  destruct (rint_R mm F5) as (E6 & F6).
  assert (N6 : ZnearestE (FR mm) = M).
  { apply Znearest_imp. rewrite E5. fold S.
    replace (S * ((1 + e1) * (1 + e2) * (1 + e3) * (1 + e4) * (1 + e0)) * (1 + e5) - S)
      with (S * ((1 + e1) * (1 + e2) * (1 + e3) * (1 + e4) * (1 + e0) * (1 + e5) - 1)) by ring.
    unfold u53 in *. interval with (i_prec 200). }
  rewrite N6 in E6.
  rewrite trunc_R, E6. apply Ztrunc_IZR.
Qed.

(** the code before the fix (truncation without the millisecond snap) loses a second at s = 27 *)
Theorem old_code_refuted : td_roundtrip_old T_default 27 = 26%Z.
Proof. vm_compute. reflexivity. Qed.

Lemma T_default_ok : T_ok T_default.
Proof.
  split; [apply fin_SF; vm_compute; reflexivity|].
  rewrite FR_SF.
  match goal with |- _ <= SF2R _ ?v <= _ => let w := eval vm_compute in v in change v with w end.
  unfold SF2R, F2R. simpl. lra.
Qed.

(** real-analysis core of the millisecond snap (no float rounding): a value
    within 2^-12 of a whole number of seconds is snapped onto it *)
Theorem snap_ms_R (dt : R) (s : Z) :
  Rabs (dt - IZR s) <= / 4096 -> Ztrunc (IZR (ZnearestE (dt * 1000)) / 1000) = s.
Proof.
  intros H.
  assert (N : ZnearestE (dt * 1000) = (1000 * s)%Z).
  { apply Znearest_imp. rewrite mult_IZR.
    replace (dt * 1000 - 1000 * IZR s) with (1000 * (dt - IZR s)) by ring.
    rewrite Rabs_mult, (Rabs_pos_eq 1000) by lra. lra. }
  rewrite N, mult_IZR. replace (1000 * IZR s / 1000) with (IZR s) by field. apply Ztrunc_IZR.
Qed.

(** without the snap the truncation is only safe from above: one ulp below a
    whole second already loses it *)
Theorem trunc_below_loses (s : Z) (dt : R) : (0 < s)%Z -> IZR s - 1 <= dt < IZR s -> Ztrunc dt = (s - 1)%Z.
Proof.
  intros Hs H. rewrite Ztrunc_floor.
  - apply Zfloor_imp. rewrite minus_IZR, plus_IZR, minus_IZR. simpl. lra.
  - assert (1 <= IZR s) by (apply IZR_le; lia). lra.
Qed.
