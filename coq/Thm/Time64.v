(** Proofs about Model/Time64.v: the binary64 round trips, through Flocq's
    specification of Coq's primitive floats ([Prim2B], [Bmult_correct], ...),
    the standard model of rounding ([relative_error_N_FLT_ex]) and explicit
    magnitude bookkeeping in powers of two (no [interval]: keeps the dependency
    closure - Print Assumptions, coqchk - small). *)
From Coq Require Import ZArith Reals Lra Lia PrimFloat Uint63 FloatOps List.
From Flocq Require Import Core Relative.
From Flocq Require Import IEEE754.BinarySingleNaN IEEE754.PrimFloat.
From Dino Require Import Model.Time64.
Local Open Scope R_scope.

Notation fexp64 := (FLT_exp (-1074) 53).
Definition rnd (x : R) : R := round radix2 fexp64 ZnearestE x.
Notation pfloat := Coq.Floats.PrimFloat.float.
Definition FR (x : pfloat) : R := B2R (Prim2B x).
Definition fin (x : pfloat) : Prop := is_finite (Prim2B x) = true.
Definition BIG : R := bpow radix2 1000.

Local Instance p53 : Prec_gt_0 53.
Proof. reflexivity. Qed.

Lemma fexp_eq : FLT_exp (3 - emax - prec) prec = fexp64.
Proof. reflexivity. Qed.

Lemma BIG_format : generic_format radix2 fexp64 BIG.
Proof. apply generic_format_FLT_bpow; [reflexivity | lia]. Qed.

Lemma rnd_lt_emax z : Rabs z <= BIG -> Rlt_bool (Rabs (rnd z)) (bpow radix2 emax) = true.
Proof.
  intros H. apply Rlt_bool_true.
  apply Rle_lt_trans with BIG.
  - apply abs_round_le_generic; auto with typeclass_instances. exact BIG_format.
  - apply bpow_lt. reflexivity.
Qed.

Lemma mul_R x y : fin x -> fin y -> Rabs (FR x * FR y) <= BIG ->
  FR (x * y)%float = rnd (FR x * FR y) /\ fin (x * y)%float.
Proof.
  unfold FR, fin. intros Hx Hy Hb. rewrite mul_equiv.
  generalize (Bmult_correct prec emax Hprec Hmax mode_NE (Prim2B x) (Prim2B y)).
  change (round radix2 (SpecFloat.fexp prec emax) (round_mode mode_NE)) with rnd.
  rewrite (rnd_lt_emax _ Hb). intros (H1 & H2 & _). rewrite H1, H2, Hx, Hy. split; reflexivity.
Qed.

Lemma div_R x y : fin x -> FR y <> 0 -> Rabs (FR x / FR y) <= BIG ->
  FR (x / y)%float = rnd (FR x / FR y) /\ fin (x / y)%float.
Proof.
  unfold FR, fin. intros Hx Hy Hb. rewrite div_equiv.
  generalize (Bdiv_correct prec emax Hprec Hmax mode_NE (Prim2B x) (Prim2B y) Hy).
  change (round radix2 (SpecFloat.fexp prec emax) (round_mode mode_NE)) with rnd.
  rewrite (rnd_lt_emax _ Hb). intros (H1 & H2 & _). rewrite H1, H2, Hx. split; reflexivity.
Qed.

Lemma rint_R x : fin x -> FR (rint x) = IZR (ZnearestE (FR x)) /\ fin (rint x).
Proof.
  unfold FR, fin, rint. intros Hx. rewrite Prim2B_B2Prim.
  destruct (Bnearbyint_correct prec emax Hmax mode_NE (Prim2B x)) as (H1 & H2 & _).
  rewrite H1, H2, Hx. split; [|reflexivity]. apply round_FIX_IZR.
Qed.

Lemma trunc_R x : trunc x = Ztrunc (FR x).
Proof.
  unfold trunc, FR. apply eq_IZR. rewrite Btrunc_correct. apply round_FIX_IZR. exact Hmax.
Qed.

Lemma format_IZR s : (Z.abs s < 2 ^ 53)%Z -> generic_format radix2 fexp64 (IZR s).
Proof.
  intros H. apply generic_format_FLT. apply (FLT_spec radix2 (-1074) 53 (IZR s) (Float radix2 s 0)).
  - unfold F2R; simpl. ring.
  - exact H.
  - simpl. lia.
Qed.

Lemma rnd_IZR s : (Z.abs s < 2 ^ 53)%Z -> rnd (IZR s) = IZR s.
Proof. intros H. apply round_generic; auto with typeclass_instances. now apply format_IZR. Qed.

Lemma of_nonneg_R s : (0 <= s < 2 ^ 53)%Z -> FR (of_uint63 (Uint63.of_Z s)) = IZR s /\ fin (of_uint63 (Uint63.of_Z s)).
Proof.
  intros Hs. unfold FR, fin.
  assert (E : Uint63.to_Z (Uint63.of_Z s) = s).
  { rewrite Uint63.of_Z_spec. apply Z.mod_small. unfold Uint63.wB, Uint63.size. simpl. lia. }
  rewrite (of_int63_equiv (Uint63.of_Z s)). rewrite E.
  generalize (binary_normalize_correct prec emax Hprec Hmax mode_NE s 0 false). cbv zeta.
  change (round radix2 (SpecFloat.fexp prec emax) (round_mode mode_NE)) with rnd.
  replace (F2R (Float radix2 s 0)) with (IZR s) by (unfold F2R; simpl; ring).
  rewrite rnd_IZR by lia.
  rewrite Rlt_bool_true.
  - intros (H1 & H2 & _). split; assumption.
  - apply Rlt_le_trans with (bpow radix2 53).
    + rewrite <- abs_IZR. rewrite <- (IZR_Zpower radix2 53) by lia. apply IZR_lt. simpl. lia.
    + apply bpow_le. unfold emax. lia.
Qed.

Lemma of_Z_R s : (Z.abs s < 2 ^ 53)%Z -> FR (of_Z s) = IZR s /\ fin (of_Z s).
Proof.
  intros Hs. unfold of_Z. destruct (Z.ltb_spec s 0) as [Hn|Hp].
  - destruct (of_nonneg_R (- s)) as (H1 & H2); [lia|].
    unfold FR, fin in *. rewrite opp_equiv, B2R_Bopp, is_finite_Bopp, H1, H2. split; [|reflexivity].
    rewrite opp_IZR. ring.
  - apply of_nonneg_R. lia.
Qed.

Lemma FR_SF x : FR x = SF2R radix2 (Prim2SF x).
Proof. unfold FR, Prim2B. apply B2R_SF2B. Qed.
Lemma fin_SF x : is_finite_SF (Prim2SF x) = true -> fin x.
Proof. unfold fin, Prim2B. now rewrite is_finite_SF2B. Qed.

Ltac const_val := rewrite FR_SF; match goal with |- SF2R _ ?v = _ => let w := eval vm_compute in v in change v with w end;
  unfold SF2R, F2R; simpl; lra.

Lemma FR_1000 : FR f1000 = 1000. Proof. const_val. Qed.
Lemma FR_3600 : FR f3600 = 3600. Proof. const_val. Qed.
Lemma FR_60 : FR f60 = 60. Proof. const_val. Qed.
Lemma FR_1 : FR 1%float = 1. Proof. const_val. Qed.
Lemma fin_1000 : fin f1000. Proof. apply fin_SF. vm_compute. reflexivity. Qed.
Lemma fin_3600 : fin f3600. Proof. apply fin_SF. vm_compute. reflexivity. Qed.
Lemma fin_60 : fin f60. Proof. apply fin_SF. vm_compute. reflexivity. Qed.
Lemma fin_1 : fin 1%float. Proof. apply fin_SF. vm_compute. reflexivity. Qed.

Definition u53 : R := / 9007199254740992.
Lemma u53_eq : / 2 * bpow radix2 (- 53 + 1) = u53.
Proof. unfold u53. simpl. lra. Qed.

(** magnitude bookkeeping: [Bnd a b x] is 2^a <= |x| <= 2^b *)
Definition Bnd (a b : Z) (x : R) : Prop := bpow radix2 a <= Rabs x <= bpow radix2 b.
Definition UB (b : Z) (x : R) : Prop := Rabs x <= bpow radix2 b.

Lemma Bnd_mul a1 b1 a2 b2 x y : Bnd a1 b1 x -> Bnd a2 b2 y -> Bnd (a1 + a2) (b1 + b2) (x * y).
Proof.
  unfold Bnd. intros [H1 H2] [H3 H4]. rewrite Rabs_mult, !bpow_plus.
  split; apply Rmult_le_compat; try apply bpow_ge_0; try apply Rabs_pos; assumption.
Qed.

Lemma Bnd_inv a b x : Bnd a b x -> Bnd (- b) (- a) (/ x).
Proof.
  unfold Bnd. intros [H1 H2].
  assert (Hp : 0 < Rabs x) by (apply Rlt_le_trans with (2 := H1); apply bpow_gt_0).
  assert (Hx : x <> 0) by (intro E; rewrite E, Rabs_R0 in Hp; lra).
  rewrite Rabs_inv. rewrite !bpow_opp. split.
  - apply Rinv_le_contravar; assumption.
  - apply Rinv_le_contravar; [apply bpow_gt_0 | assumption].
Qed.

Lemma Bnd_div a1 b1 a2 b2 x y : Bnd a1 b1 x -> Bnd a2 b2 y -> Bnd (a1 + - b2) (b1 + - a2) (x / y).
Proof. intros H1 H2. unfold Rdiv. apply Bnd_mul; [exact H1 | now apply Bnd_inv]. Qed.

Lemma Bnd_1pe e : Rabs e <= u53 -> Bnd (-1) 1 (1 + e).
Proof.
  intros H. apply Rabs_le_inv in H. unfold u53 in H. unfold Bnd.
  rewrite Rabs_pos_eq by lra. simpl. lra.
Qed.

Lemma Bnd_pos a b (x : R) : 0 < x -> bpow radix2 a <= x <= bpow radix2 b -> Bnd a b x.
Proof. intros Hx H. unfold Bnd. rewrite Rabs_pos_eq by lra. exact H. Qed.

Lemma Bnd_1000 : Bnd 9 10 1000. Proof. apply Bnd_pos; [lra | simpl; lra]. Qed.
Lemma Bnd_3600 : Bnd 11 12 3600. Proof. apply Bnd_pos; [lra | simpl; lra]. Qed.
Lemma Bnd_60 : Bnd 5 6 60. Proof. apply Bnd_pos; [lra | simpl; lra]. Qed.

Lemma UB_Z s k : (0 <= k)%Z -> (Z.abs s < 2 ^ k)%Z -> UB k (IZR s).
Proof.
  intros Hk H. unfold UB. rewrite <- abs_IZR, <- (IZR_Zpower radix2 k Hk). apply IZR_le. simpl. lia.
Qed.

Ltac bnd := lazymatch goal with
  | |- Bnd _ _ (_ * _) => eapply Bnd_mul; bnd
  | |- Bnd _ _ (_ / _) => eapply Bnd_div; bnd
  | |- Bnd _ _ (/ _) => eapply Bnd_inv; bnd
  | |- Bnd _ _ (1 + _) => eapply Bnd_1pe; eassumption
  | |- Bnd _ _ 1000 => exact Bnd_1000
  | |- Bnd _ _ 3600 => exact Bnd_3600
  | |- Bnd _ _ 60 => exact Bnd_60
  | |- _ => eassumption
  end.

(** one rounding step on an argument of the form [IZR s * y]: no overflow, the
    standard model holds (also for s = 0), and the magnitude bookkeeping of the
    new factor *)
Lemma step s y a b :
  UB 40 (IZR s) -> Bnd a b y -> (-1022 <= a)%Z -> (b <= 900)%Z ->
  Rabs (IZR s * y) <= BIG /\
  exists e, Rabs e <= u53 /\ rnd (IZR s * y) = IZR s * y * (1 + e) /\ Bnd (a + -1) (b + 1) (y * (1 + e)).
Proof.
  intros HS Hy Ha Hb. split.
  - unfold BIG. rewrite Rabs_mult. apply Rle_trans with (bpow radix2 40 * bpow radix2 b).
    + apply Rmult_le_compat; try apply Rabs_pos; [exact HS | apply Hy].
    + rewrite <- bpow_plus. apply bpow_le. lia.
  - assert (E : exists e, Rabs e <= u53 /\ rnd (IZR s * y) = IZR s * y * (1 + e)).
    { destruct (Z.eq_dec s 0) as [->|Hs].
      - exists 0. split; [unfold u53; rewrite Rabs_R0; lra|].
        rewrite Rmult_0_l. unfold rnd. rewrite round_0 by auto with typeclass_instances. ring.
      - rewrite <- u53_eq. apply (relative_error_N_FLT_ex radix2 (-1074) 53 p53 (fun x => negb (Z.even x))).
        apply Rle_trans with (bpow radix2 a); [apply bpow_le; lia|].
        apply Rle_trans with (1 := proj1 Hy).
        rewrite Rabs_mult. apply Rle_trans with (1 * Rabs y); [lra|].
        apply Rmult_le_compat_r; [apply Rabs_pos|]. rewrite <- abs_IZR. apply IZR_le. lia. }
    destruct E as (e & He & E). exists e. split; [exact He|]. split; [exact E|].
    apply Bnd_mul; [exact Hy | now apply Bnd_1pe].
Qed.

(** accumulated relative error of a product of (1 + e_i) *)
Lemma prod_err P e a : Rabs (P - 1) <= a -> Rabs e <= u53 -> Rabs (P * (1 + e) - 1) <= a + u53 + a * u53.
Proof.
  intros HP He. replace (P * (1 + e) - 1) with ((P - 1) + e + (P - 1) * e) by ring.
  apply Rle_trans with (1 := Rabs_triang _ _).
  apply Rplus_le_compat; [apply Rle_trans with (1 := Rabs_triang _ _); now apply Rplus_le_compat|].
  rewrite Rabs_mult. apply Rmult_le_compat; try apply Rabs_pos; assumption.
Qed.

Lemma prod_err1 e : Rabs e <= u53 -> Rabs ((1 + e) - 1) <= u53.
Proof. intros H. now replace (1 + e - 1) with e by ring. Qed.

Lemma err_scaled S x B c : Rabs S <= B -> Rabs x <= c -> 0 <= B -> Rabs (S * x) <= B * c.
Proof. intros HS Hx HB. rewrite Rabs_mult. apply Rmult_le_compat; try apply Rabs_pos; assumption. Qed.

(** admissible time scales: finite binary64 numbers in [2^-100, 2^100] seconds *)
Definition T_ok (T : pfloat) : Prop := fin T /\ bpow radix2 (-100) <= FR T <= bpow radix2 100.

Lemma T_ok_Bnd T : T_ok T -> Bnd (-100) 100 (FR T) /\ FR T <> 0.
Proof.
  intros (_ & H). assert (0 < FR T) by (apply Rlt_le_trans with (2 := proj1 H); apply bpow_gt_0).
  split; [now apply Bnd_pos | lra].
Qed.

Theorem timedelta_roundtrip (T : pfloat) (s : Z) :
  T_ok T -> (Z.abs s < 2 ^ 40)%Z -> td_roundtrip T s = s.
Proof.
  intros HT Hs. destruct (T_ok_Bnd T HT) as (Bt & Ht0). destruct HT as (FT & _).
  unfold td_roundtrip, dim_td, snap_ms, dim_s, nondim_td.
  destruct (of_Z_R s) as (Es & Fs); [lia|].
  pose proof (UB_Z s 40 ltac:(lia) Hs) as HS.
  set (t := FR T) in *. set (S := IZR s) in *.
  (* nondimensionalize: fl(s / T) *)
  eassert (B1 : Bnd _ _ (/ t)) by bnd.
  destruct (step s (/ t) _ _ HS B1) as (G1 & e1 & He1 & R1 & B1'); [lia | lia |].
  fold S in G1, R1. change (S * / t) with (S / t) in G1, R1.
  destruct (div_R (of_Z s) T Fs Ht0) as (E1 & F1). { fold t. rewrite Es. exact G1. }
  rewrite Es in E1. fold t S in E1. rewrite R1 in E1. clear R1 G1 B1 B1'.
  set (nd := (of_Z s / T)%float) in *.
  (* dimensionalize: fl(nd * T) *)
  assert (A2 : FR nd * t = S * (1 + e1)) by (rewrite E1; field; exact Ht0).
  eassert (B2 : Bnd _ _ (1 + e1)) by bnd.
  destruct (step s (1 + e1) _ _ HS B2) as (G2 & e2 & He2 & R2 & B2'); [lia | lia |].
  fold S in G2, R2.
  destruct (mul_R nd T F1 FT) as (E2 & F2). { fold t. rewrite A2. exact G2. }
  fold t in E2. rewrite A2, R2 in E2. clear R2 G2 B2 B2' A2.
  set (d := (nd * T)%float) in *.
  (* dt * 1e3 *)
  assert (A3 : FR d * FR f1000 = S * ((1 + e1) * (1 + e2) * 1000)) by (rewrite E2, FR_1000; ring).
  eassert (B3 : Bnd _ _ ((1 + e1) * (1 + e2) * 1000)) by bnd.
  destruct (step s _ _ _ HS B3) as (G3 & e3 & He3 & R3 & B3'); [lia | lia |].
  fold S in G3, R3.
  destruct (mul_R d f1000 F2 fin_1000) as (E3 & F3). { rewrite A3. exact G3. }
  rewrite A3, R3 in E3. clear R3 G3 B3 B3' A3.
  set (m := (d * f1000)%float) in *.
  (* np.round *)
  destruct (rint_R m F3) as (E4 & F4).
  assert (N4 : ZnearestE (FR m) = (1000 * s)%Z).
  { apply Znearest_imp. rewrite E3, mult_IZR. fold S.
    replace (S * ((1 + e1) * (1 + e2) * 1000) * (1 + e3) - 1000 * S)
      with (S * (1000 * ((1 + e1) * (1 + e2) * (1 + e3) - 1))) by ring.
    pose proof (prod_err _ _ _ (prod_err _ _ _ (prod_err1 e1 He1) He2) He3) as P3.
    assert (HS' : Rabs S <= 1099511627776) by (exact HS).
    match type of P3 with _ <= ?a => apply Rle_lt_trans with (1099511627776 * (1000 * a)) end.
    - apply err_scaled; [exact HS' | | lra].
      rewrite Rabs_mult, (Rabs_pos_eq 1000) by lra. apply Rmult_le_compat_l; [lra | exact P3].
    - unfold u53. lra. }
  rewrite N4 in E4.
  set (r := rint m) in *.
  (* / 1e3 : exact *)
  assert (A5 : FR r / FR f1000 = S) by (rewrite E4, FR_1000, mult_IZR; fold S; field).
  destruct (div_R r f1000 F4) as (E5 & F5).
  { rewrite FR_1000. lra. }
  { rewrite A5. unfold BIG. apply Rle_trans with (1 := HS). apply bpow_le. lia. }
  rewrite A5 in E5. unfold S in E5. rewrite rnd_IZR in E5 by lia.
  (* truncation *)
  rewrite trunc_R, E5. apply Ztrunc_IZR.
Qed.

Theorem datetime_roundtrip_minutes (T : pfloat) (M : Z) :
  T_ok T -> (Z.abs M < 2 ^ 40)%Z -> dt_roundtrip T M = M.
Proof.
  intros HT HM. destruct (T_ok_Bnd T HT) as (Bt & Ht0). destruct HT as (FT & _).
  unfold dt_roundtrip, dim_dt, dim_min, nondim_dt, nondim_hours, hours_of_minutes.
  destruct (of_Z_R M) as (Es & Fs); [lia|].
  pose proof (UB_Z M 40 ltac:(lia) HM) as HS.
  pose proof (UB_Z 1 40 ltac:(lia) ltac:(reflexivity)) as H1.
  set (t := FR T) in *. set (S := IZR M) in *.
  (* c_min = fl(1 / 60) *)
  eassert (B0 : Bnd _ _ (/ 60)) by bnd.
  destruct (step 1 (/ 60) _ _ H1 B0) as (G0 & e0 & He0 & R0 & _); [lia | lia |].
  replace (1 * / 60) with (1 / 60) in G0, R0 by field.
  destruct (div_R 1%float f60 fin_1) as (E0 & F0).
  { rewrite FR_60. lra. }
  { rewrite FR_1, FR_60. exact G0. }
  rewrite FR_1, FR_60, R0 in E0. clear R0 G0 B0.
  fold c_min in E0, F0.
  (* hours = fl(M / 60) *)
  eassert (B1 : Bnd _ _ (/ 60)) by bnd.
  destruct (step M (/ 60) _ _ HS B1) as (G1 & e1 & He1 & R1 & _); [lia | lia |].
  fold S in G1, R1. change (S * / 60) with (S / 60) in G1, R1.
  destruct (div_R (of_Z M) f60 Fs) as (E1 & F1).
  { rewrite FR_60. lra. }
  { rewrite Es, FR_60. fold S. exact G1. }
  rewrite Es, FR_60 in E1. fold S in E1. rewrite R1 in E1. clear R1 G1 B1.
  set (h := (of_Z M / f60)%float) in *.
  (* fl(h / T) *)
  assert (A2 : FR h / t = S * (/ 60 * (1 + e1) / t)) by (rewrite E1; field; exact Ht0).
  eassert (B2 : Bnd _ _ (/ 60 * (1 + e1) / t)) by bnd.
  destruct (step M _ _ _ HS B2) as (G2 & e2 & He2 & R2 & _); [lia | lia |].
  fold S in G2, R2.
  destruct (div_R h T F1 Ht0) as (E2 & F2). { fold t. rewrite A2. exact G2. }
  fold t in E2. rewrite A2, R2 in E2. clear R2 G2 B2 A2.
  set (x := (h / T)%float) in *.
  (* fl(x * 3600) *)
  assert (A3 : FR x * FR f3600 = S * (/ 60 * (1 + e1) / t * (1 + e2) * 3600)) by (rewrite E2, FR_3600; ring).
  eassert (B3 : Bnd _ _ (/ 60 * (1 + e1) / t * (1 + e2) * 3600)) by bnd.
  destruct (step M _ _ _ HS B3) as (G3 & e3 & He3 & R3 & _); [lia | lia |].
  fold S in G3, R3.
  destruct (mul_R x f3600 F2 fin_3600) as (E3 & F3). { rewrite A3. exact G3. }
  rewrite A3, R3 in E3. clear R3 G3 B3 A3.
  set (nd := (x * f3600)%float) in *.
  (* fl(nd * T) *)
  assert (A4 : FR nd * t = S * (60 * (1 + e1) * (1 + e2) * (1 + e3))) by (rewrite E3; field; exact Ht0).
  eassert (B4 : Bnd _ _ (60 * (1 + e1) * (1 + e2) * (1 + e3))) by bnd.
  destruct (step M _ _ _ HS B4) as (G4 & e4 & He4 & R4 & _); [lia | lia |].
  fold S in G4, R4.
  destruct (mul_R nd T F3 FT) as (E4 & F4). { fold t. rewrite A4. exact G4. }
  fold t in E4. rewrite A4, R4 in E4. clear R4 G4 B4 A4.
  set (y := (nd * T)%float) in *.
  (* fl(y * c_min) *)
  assert (A5 : FR y * FR c_min = S * ((1 + e1) * (1 + e2) * (1 + e3) * (1 + e4) * (1 + e0))) by (rewrite E4, E0; field).
  eassert (B5 : Bnd _ _ ((1 + e1) * (1 + e2) * (1 + e3) * (1 + e4) * (1 + e0))) by bnd.
  destruct (step M _ _ _ HS B5) as (G5 & e5 & He5 & R5 & _); [lia | lia |].
  fold S in G5, R5.
  destruct (mul_R y c_min F4 F0) as (E5 & F5). { rewrite A5. exact G5. }
  rewrite A5, R5 in E5. clear R5 G5 B5 A5.
  set (mm := (y * c_min)%float) in *.
  (* np.round, astype(int) *)
  destruct (rint_R mm F5) as (E6 & F6).
  assert (N6 : ZnearestE (FR mm) = M).
  { apply Znearest_imp. rewrite E5. fold S.
    replace (S * ((1 + e1) * (1 + e2) * (1 + e3) * (1 + e4) * (1 + e0)) * (1 + e5) - S)
      with (S * ((1 + e1) * (1 + e2) * (1 + e3) * (1 + e4) * (1 + e0) * (1 + e5) - 1)) by ring.
    pose proof (prod_err _ _ _ (prod_err _ _ _ (prod_err _ _ _ (prod_err _ _ _ (prod_err _ _ _
                  (prod_err1 e1 He1) He2) He3) He4) He0) He5) as P6.
    assert (HS' : Rabs S <= 1099511627776) by (exact HS).
    match type of P6 with _ <= ?a => apply Rle_lt_trans with (1099511627776 * a) end.
    - apply err_scaled; [exact HS' | exact P6 | lra].
    - unfold u53. lra. }
  rewrite N6 in E6.
  rewrite trunc_R, E6. apply Ztrunc_IZR.
Qed.

(** the code before the fix (truncation without the millisecond snap) loses a second at s = 27 *)
Theorem old_code_refuted : td_roundtrip_old T_default 27 = 26%Z.
Proof. vm_compute. reflexivity. Qed.

Lemma T_default_ok : T_ok T_default.
Proof.
  split; [apply fin_SF; vm_compute; reflexivity|].
  rewrite FR_SF.
  match goal with |- _ <= SF2R _ ?v <= _ => let w := eval vm_compute in v in change v with w end.
  unfold SF2R, F2R. simpl. lra.
Qed.

(** real-analysis core of the millisecond snap (no float rounding): a value
    within 2^-12 of a whole number of seconds is snapped onto it *)
Theorem snap_ms_R (dt : R) (s : Z) :
  Rabs (dt - IZR s) <= / 4096 -> Ztrunc (IZR (ZnearestE (dt * 1000)) / 1000) = s.
Proof.
  intros H.
  assert (N : ZnearestE (dt * 1000) = (1000 * s)%Z).
  { apply Znearest_imp. rewrite mult_IZR.
    replace (dt * 1000 - 1000 * IZR s) with (1000 * (dt - IZR s)) by ring.
    rewrite Rabs_mult, (Rabs_pos_eq 1000) by lra. lra. }
  rewrite N, mult_IZR. replace (1000 * IZR s / 1000) with (IZR s) by field. apply Ztrunc_IZR.
Qed.

(** without the snap the truncation is only safe from above: one ulp below a
    whole second already loses it *)
Theorem trunc_below_loses (s : Z) (dt : R) : (0 < s)%Z -> IZR s - 1 <= dt < IZR s -> Ztrunc dt = (s - 1)%Z.
Proof.
  intros Hs H. rewrite Ztrunc_floor.
  - apply Zfloor_imp. rewrite minus_IZR, plus_IZR, minus_IZR. simpl. lra.
  - assert (1 <= IZR s) by (apply IZR_le; lia). lra.
Qed.
