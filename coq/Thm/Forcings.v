(** Theorems about the forcing models (property C20).
    Part A: the generated transcription of the source formulas equals the
    hand-written model (any field).  Part B: solar radiation over the reals
    with Coq's [cos], [sin], [PI].  Part C: Held-Suarez over any ordered field. *)
From Dino Require Import Base.Ops Base.Sums Base.Inst Base.Ord Gen.Constants Model.Forcings.
From Coq Require Import Reals Lra Lia Qreals.
Local Open Scope F_scope.

(** * Part A: source transcription = model *)
Section GenAgree.
  Context {F : Type} {o : Ops F} {Fc : FieldC o}.
  Add Field FFg : (field_c : FieldTh o).
  Variables (cosf sinf : F -> F) (pi : F).

  Lemma gen_irradiance_ok op S V p :
    gen_get_direct_solar_irradiance cosf sinf pi op S V p = direct_solar_irradiance cosf op S V p.
  Proof. unfold gen_get_direct_solar_irradiance, direct_solar_irradiance. first [reflexivity | ring]. Qed.

  Lemma gen_declination_ok op : gen_get_declination cosf sinf pi op = declination sinf pi op.
  Proof. unfold gen_get_declination, declination. first [reflexivity | ring]. Qed.

  Lemma gen_equation_of_time_ok op : gen_equation_of_time cosf sinf pi op = equation_of_time cosf sinf pi op.
  Proof.
    unfold gen_equation_of_time, equation_of_time, eot_minutes, two_pi, ftwo. cbv zeta.
    first [reflexivity | ring].
  Qed.

  Lemma gen_hour_angle_ok op syn lon : gen_get_hour_angle cosf sinf pi op syn lon = hour_angle cosf sinf pi op syn lon.
  Proof.
    unfold gen_get_hour_angle, hour_angle. cbv zeta. rewrite gen_equation_of_time_ok.
    first [reflexivity | ring].
  Qed.

  Lemma gen_sin_altitude_ok op syn lon lat :
    gen_get_solar_sin_altitude cosf sinf pi op syn lon lat = solar_sin_altitude cosf sinf pi op syn lon lat.
  Proof.
    unfold gen_get_solar_sin_altitude, solar_sin_altitude, sin_altitude_of. cbv zeta.
    rewrite gen_declination_ok, gen_hour_angle_ok. first [reflexivity | ring].
  Qed.

  (** the argument order of the generated function follows [get_radiation_flux] *)
  Lemma gen_radiation_flux_ok op syn lon lat S V :
    gen_get_radiation_flux cosf sinf pi op syn lon lat S V = radiation_flux cosf sinf pi S V op syn lon lat.
  Proof.
    unfold gen_get_radiation_flux, radiation_flux, flux_of, daytime. cbv zeta.
    rewrite gen_sin_altitude_ok, gen_irradiance_ok. first [reflexivity | ring].
  Qed.

  (** exactly zero at night, in any field: the mask is an exact 0 factor *)
  Lemma flux_of_night irr s : fleb s 0 = true -> flux_of irr s = 0.
  Proof. intros H. unfold flux_of, daytime. rewrite H. ring. Qed.
  Lemma flux_of_day irr s : fleb s 0 = false -> flux_of irr s = irr * s.
  Proof. intros H. unfold flux_of, daytime. rewrite H. ring. Qed.
End GenAgree.

(** * Part B: solar radiation over the reals *)
Section RadiationR.
  Local Open Scope R_scope.

  Notation Rirr := (@direct_solar_irradiance R ROps cos).
  Notation Rdec := (@declination R ROps sin PI).
  Notation Reot := (@equation_of_time R ROps cos sin PI).
  Notation Rha := (@hour_angle R ROps cos sin PI).
  Notation Rsinalt := (@solar_sin_altitude R ROps cos sin PI).
  Notation Rflux := (@radiation_flux R ROps cos sin PI).
  Notation Rnflux := (@normalized_radiation_flux R ROps cos sin PI).
  Notation Rsrflux := (@solar_radiation_flux R ROps cos sin PI).
  Notation TWO_PI := (2 * PI).
  Local Arguments SPRING_EQUINOX : simpl never.
  Local Arguments PERIHELION : simpl never.
  Local Arguments EARTH_AXIS_INCLINATION : simpl never.
  Local Arguments MINUTES_PER_DAY : simpl never.
  Local Arguments fofQ : simpl never.

  Lemma fofQ_R (q : Q) : @fofQ R ROps q = Q2R q.
  Proof. unfold fofQ, Q2R. cbn. reflexivity. Qed.

  Lemma ftwo_R : @ftwo R ROps = 2.
  Proof. unfold ftwo. rewrite fofQ_R. unfold Q2R. cbn. lra. Qed.
  Lemma two_pi_R : @two_pi R ROps PI = TWO_PI.
  Proof. unfold two_pi. rewrite ftwo_R. reflexivity. Qed.

  (** ** |sin(altitude)| <= 1, for all arguments (no restriction on latitude needed) *)
  Lemma sin_altitude_of_bounds (a b c d e sh : R) :
    a * a + b * b = 1 -> c * c + d * d = 1 -> e * e + sh * sh = 1 ->
    -1 <= a * c * e + b * d <= 1.
  Proof.
    intros H1 H2 H3.
    assert (H4 : c * c * (sh * sh) = c * c - c * c * (e * e)).
    { replace (sh * sh) with (1 - e * e) by lra. ring. }
    pose proof (Rle_0_sqr (a - c * e)) as S1. pose proof (Rle_0_sqr (b - d)) as S2.
    pose proof (Rle_0_sqr (c * sh)) as S3.
    pose proof (Rle_0_sqr (a + c * e)) as S4. pose proof (Rle_0_sqr (b + d)) as S5.
    unfold Rsqr in *.
    split; nra.
  Qed.

  Lemma cs1 x : cos x * cos x + sin x * sin x = 1.
  Proof. pose proof (sin2_cos2 x) as H. unfold Rsqr in H. lra. Qed.

  Lemma sin_altitude_bounds op syn lon lat : -1 <= Rsinalt op syn lon lat <= 1.
  Proof.
    unfold solar_sin_altitude, sin_altitude_of. cbn.
    apply (sin_altitude_of_bounds _ _ _ _ _ (sin (Rha op syn lon))); apply cs1.
  Qed.

  Lemma irradiance_bounds S V op p : 0 <= V -> V <= S -> 0 <= S - V <= Rirr op S V p /\ Rirr op S V p <= S + V.
  Proof.
    intros HV HS. unfold direct_solar_irradiance. cbn.
    pose proof (COS_bound (op - p)) as [Hl Hu]. nra.
  Qed.

  Lemma Rdaytime_cases s : (s <= 0 /\ @daytime R ROps s = 0) \/ (0 < s /\ @daytime R ROps s = 1).
  Proof.
    unfold daytime. cbn. destruct (Rleb s 0) eqn:E.
    - left. split; auto. now apply Rleb_true.
    - right. split; auto. now apply Rleb_false.
  Qed.

  Lemma flux_of_bounds irr s M : 0 <= irr <= M -> s <= 1 -> 0 <= @flux_of R ROps irr s <= M.
  Proof.
    intros Hi Hs. unfold flux_of. cbn.
    destruct (Rdaytime_cases s) as [[H1 H2]|[H1 H2]]; rewrite H2.
    - split; nra.
    - split; nra.
  Qed.

  Theorem flux_nonneg S V op syn lon lat : 0 <= V -> V <= S -> 0 <= Rflux S V op syn lon lat.
  Proof.
    intros HV HS. unfold radiation_flux.
    destruct (irradiance_bounds S V op (PERIHELION PI) HV HS) as [[H0 H1] H2].
    apply (flux_of_bounds _ _ (S + V)); [lra|apply sin_altitude_bounds].
  Qed.

  Theorem flux_le_perihelion S V op syn lon lat : 0 <= V -> V <= S -> Rflux S V op syn lon lat <= S + V.
  Proof.
    intros HV HS. unfold radiation_flux.
    destruct (irradiance_bounds S V op (PERIHELION PI) HV HS) as [[H0 H1] H2].
    apply (flux_of_bounds _ _ (S + V)); [lra|apply sin_altitude_bounds].
  Qed.

  Theorem flux_zero_at_night S V op syn lon lat :
    Rsinalt op syn lon lat <= 0 -> Rflux S V op syn lon lat = 0.
  Proof.
    intros H. unfold radiation_flux. rewrite (@flux_of_night R ROps RFieldC); [reflexivity|].
    cbn. now apply Rleb_true.
  Qed.

  Theorem flux_pos_by_day S V op syn lon lat :
    0 <= V -> V < S -> 0 < Rsinalt op syn lon lat -> 0 < Rflux S V op syn lon lat.
  Proof.
    intros HV HS H. unfold radiation_flux. rewrite (@flux_of_day R ROps RFieldC) by (cbn; now apply Rleb_false).
    destruct (irradiance_bounds S V op (PERIHELION PI) HV (Rlt_le _ _ HS)) as [[H0 H1] H2].
    change (0 < Rirr op S V (PERIHELION PI) * Rsinalt op syn lon lat).
    apply Rmult_lt_0_compat; lra.
  Qed.

  (** ** periodicity *)
  Lemma cos_add_2PI x : cos (x + TWO_PI) = cos x.
  Proof. rewrite cos_plus, cos_2PI, sin_2PI. ring. Qed.
  Lemma sin_add_2PI x : sin (x + TWO_PI) = sin x.
  Proof. rewrite sin_plus, cos_2PI, sin_2PI. ring. Qed.

  Lemma trig_add_Z (n : Z) : forall x, cos (x + IZR n * TWO_PI) = cos x /\ sin (x + IZR n * TWO_PI) = sin x.
  Proof.
    induction n as [|n IH|n IH] using Z.peano_ind; intros x.
    - replace (x + 0 * TWO_PI) with x by ring. auto.
    - unfold Z.succ. rewrite plus_IZR.
      replace (x + (IZR n + 1) * TWO_PI) with ((x + IZR n * TWO_PI) + TWO_PI) by ring.
      rewrite cos_add_2PI, sin_add_2PI. apply IH.
    - destruct (IH x) as [IHc IHs]. rewrite <- IHc, <- IHs.
      unfold Z.pred. rewrite plus_IZR.
      replace (x + IZR n * TWO_PI) with ((x + (IZR n + -1) * TWO_PI) + TWO_PI) by ring.
      rewrite cos_add_2PI, sin_add_2PI. auto.
  Qed.
  Lemma cos_add_Z x n : cos (x + IZR n * TWO_PI) = cos x. Proof. apply trig_add_Z. Qed.
  Lemma sin_add_Z x n : sin (x + IZR n * TWO_PI) = sin x. Proof. apply trig_add_Z. Qed.

  Lemma irradiance_periodic S V op p n : Rirr (op + IZR n * TWO_PI) S V p = Rirr op S V p.
  Proof.
    unfold direct_solar_irradiance. cbn.
    replace (op + IZR n * TWO_PI - p) with ((op - p) + IZR n * TWO_PI) by ring.
    now rewrite cos_add_Z.
  Qed.

  Lemma declination_periodic op n : Rdec (op + IZR n * TWO_PI) = Rdec op.
  Proof.
    unfold declination. cbn.
    replace (op + IZR n * TWO_PI - SPRING_EQUINOX PI) with ((op - SPRING_EQUINOX PI) + IZR n * TWO_PI) by ring.
    now rewrite sin_add_Z.
  Qed.

  Lemma eot_periodic op n : Reot (op + IZR n * TWO_PI) = Reot op.
  Proof.
    unfold equation_of_time, eot_minutes. rewrite ftwo_R. cbn.
    replace (op + IZR n * TWO_PI - SPRING_EQUINOX PI) with ((op - SPRING_EQUINOX PI) + IZR n * TWO_PI) by ring.
    replace (2 * (op - SPRING_EQUINOX PI + IZR n * TWO_PI))
      with (2 * (op - SPRING_EQUINOX PI) + IZR (2 * n) * TWO_PI) by (rewrite mult_IZR; ring).
    now rewrite !sin_add_Z, cos_add_Z.
  Qed.

  Lemma hour_angle_shift op syn lon n m :
    Rha (op + IZR n * TWO_PI) (syn + IZR m * TWO_PI) lon = Rha op syn lon + IZR m * TWO_PI.
  Proof. unfold hour_angle. rewrite eot_periodic. cbn. ring. Qed.

  Lemma sin_altitude_periodic op syn lon lat n m :
    Rsinalt (op + IZR n * TWO_PI) (syn + IZR m * TWO_PI) lon lat = Rsinalt op syn lon lat.
  Proof.
    unfold solar_sin_altitude. rewrite declination_periodic, hour_angle_shift, cos_add_Z. reflexivity.
  Qed.

  (** adding whole turns to the orbital phase and/or to the daily phase does not change the flux *)
  Theorem flux_periodic S V op syn lon lat (n m : Z) :
    Rflux S V (op + IZR n * TWO_PI) (syn + IZR m * TWO_PI) lon lat = Rflux S V op syn lon lat.
  Proof. unfold radiation_flux. now rewrite irradiance_periodic, sin_altitude_periodic. Qed.

  Corollary flux_periodic_orbital S V op syn lon lat : Rflux S V (op + TWO_PI) syn lon lat = Rflux S V op syn lon lat.
  Proof.
    rewrite <- (flux_periodic S V op syn lon lat 1 0). f_equal; ring.
  Qed.
  Corollary flux_periodic_daily S V op syn lon lat : Rflux S V op (syn + TWO_PI) lon lat = Rflux S V op syn lon lat.
  Proof.
    rewrite <- (flux_periodic S V op syn lon lat 0 1). f_equal; ring.
  Qed.

  (** the phase reduction of [time_to_orbital_time] (whatever integers are
      subtracted) does not change the flux *)
  Lemma wrap_phase_R x n : @wrap_phase R ROps PI x n = x + IZR (- n) * TWO_PI.
  Proof. unfold wrap_phase. rewrite two_pi_R, opp_IZR. cbn. ring. Qed.

  Theorem flux_wrap_invariant S V ref_o ref_s rate_o rate_s t n_o n_s lon lat :
    Rsrflux S V ref_o ref_s rate_o rate_s t n_o n_s lon lat
    = Rflux S V (ref_o + rate_o * t) (ref_s + rate_s * t) lon lat.
  Proof.
    unfold solar_radiation_flux. rewrite !wrap_phase_R. unfold phase_raw. cbn.
    apply flux_periodic.
  Qed.

  (** periodic in model time: a time shift that advances both raw phases by
      whole turns leaves [SolarRadiation.radiation_flux] unchanged *)
  Theorem flux_time_periodic S V ref_o ref_s rate_o rate_s t T (a b : Z) n_o n_s n_o' n_s' lon lat :
    rate_o * T = IZR a * TWO_PI -> rate_s * T = IZR b * TWO_PI ->
    Rsrflux S V ref_o ref_s rate_o rate_s (t + T) n_o' n_s' lon lat
    = Rsrflux S V ref_o ref_s rate_o rate_s t n_o n_s lon lat.
  Proof.
    intros Ha Hb. rewrite !flux_wrap_invariant.
    replace (ref_o + rate_o * (t + T)) with ((ref_o + rate_o * t) + IZR a * TWO_PI) by (rewrite <- Ha; ring).
    replace (ref_s + rate_s * (t + T)) with ((ref_s + rate_s * t) + IZR b * TWO_PI) by (rewrite <- Hb; ring).
    apply flux_periodic.
  Qed.

  (** ** normalised variant *)
  Theorem normalized_in_unit_interval S V op syn lon lat :
    0 <= V -> V <= S -> 0 < S + V -> 0 <= Rnflux S V op syn lon lat <= 1.
  Proof.
    intros HV HS Hp. unfold normalized_radiation_flux. cbv zeta. cbn.
    assert (Hi : 0 < / (S + V)) by now apply Rinv_0_lt_compat.
    assert (H1 : 0 <= V / (S + V)) by (unfold Rdiv; nra).
    assert (H2 : V / (S + V) <= S / (S + V)) by (unfold Rdiv; nra).
    split.
    - now apply flux_nonneg.
    - replace 1 with (S / (S + V) + V / (S + V)) by (field; lra).
      now apply flux_le_perihelion.
  Qed.

  Theorem normalized_is_scaled S V op syn lon lat :
    S + V <> 0 -> Rnflux S V op syn lon lat = Rflux S V op syn lon lat / (S + V).
  Proof.
    intros Hp. unfold normalized_radiation_flux, radiation_flux, flux_of, direct_solar_irradiance. cbv zeta. cbn.
    field. exact Hp.
  Qed.

  (** ** the declination stays strictly inside (-pi/2, pi/2) (generated
      obliquity), so at every instant there is a night side and a day side *)
  Lemma inclination_small : 0 <= @EARTH_AXIS_INCLINATION R ROps PI < PI / 2.
  Proof.
    unfold EARTH_AXIS_INCLINATION, fofQ. cbn.
    pose proof PI_RGT_0. lra.
  Qed.

  Lemma declination_small op : - (PI / 2) < Rdec op < PI / 2.
  Proof.
    unfold declination. cbn. pose proof inclination_small as [H0 H1].
    pose proof (SIN_bound (op - SPRING_EQUINOX PI)) as [Hl Hu]. split; nra.
  Qed.

  Lemma night_and_day_exist op syn :
    (exists lon, Rsinalt op syn lon 0 <= 0) /\ (exists lon, 0 < Rsinalt op syn lon 0).
  Proof.
    pose proof (declination_small op) as [Hl Hu].
    pose proof (cos_gt_0 (Rdec op) Hl Hu) as Hc.
    split.
    - exists (2 * PI - syn - Reot op).
      unfold solar_sin_altitude, sin_altitude_of.
      replace (Rha op syn (2 * PI - syn - Reot op)) with PI by (unfold hour_angle; cbn; ring).
      cbn -[declination]. rewrite cos_0, sin_0, cos_PI. lra.
    - exists (PI - syn - Reot op).
      unfold solar_sin_altitude, sin_altitude_of.
      replace (Rha op syn (PI - syn - Reot op)) with 0 by (unfold hour_angle; cbn; ring).
      cbn -[declination]. rewrite cos_0, sin_0. lra.
  Qed.

  (** ** generated constants: S >= V >= 0, also after multiplication by a
      non-negative nondimensionalisation factor *)
  Lemma Q2R_le_of_bool (p q : Q) : Qle_bool p q = true -> Q2R p <= Q2R q.
  Proof. intros H. apply Qle_Rle. now apply Qle_bool_iff. Qed.
End RadiationR.

(** * Part C: Held-Suarez forcing, any ordered field *)
Section HSThm.
  Context {F : Type} {o : Ops F} {Oc : OrdFieldC o}.
  Add Field FFh : (field_c : FieldTh o).

  Lemma fmax0_of_nonpos x : fle x 0 -> fmax 0 x = 0.
  Proof.
    intros H. unfold fmax. destruct (fleb 0 x) eqn:E; [|reflexivity].
    apply fle_antisym; assumption.
  Qed.
  Lemma fmax0_of_nonneg x : fle 0 x -> fmax 0 x = x.
  Proof. intros H. unfold fmax. now rewrite H. Qed.

  Lemma fle_0_add x y : fle 0 y -> fle x (x + y).
  Proof.
    intros H. pose proof (fle_add _ _ x H) as H1.
    replace (0 + x) with x in H1 by ring. replace (y + x) with (x + y) in H1 by ring. exact H1.
  Qed.

  Lemma pow4_nonneg c : fle 0 (pow4 c).
  Proof. unfold pow4. apply fle_sq. Qed.

  (** ** the boundary-layer profile *)
  Lemma hs_cutoff_nonneg sb s : fle 0 (hs_cutoff sb s).
  Proof. apply fmax_ge_l. Qed.

  Lemma hs_cutoff_zero_above sb s : flt sb 1 -> fle s sb -> hs_cutoff sb s = 0.
  Proof.
    intros Hb Hs. unfold hs_cutoff. apply fmax0_of_nonpos.
    assert (Hd : flt 0 (1 - sb)) by (apply (proj1 (flt_sub _ _)); exact Hb).
    assert (Hn : 1 - sb <> 0) by now apply fpos_neq0.
    replace ((s - sb) / (1 - sb)) with (- ((sb - s) / (1 - sb))) by (field; exact Hn).
    replace 0 with (- 0) by ring. apply fle_opp. apply fdiv_pos; [now apply fle_sub_1|exact Hd].
  Qed.

  Lemma hs_cutoff_inside sb s : flt sb 1 -> fle sb s -> hs_cutoff sb s = (s - sb) / (1 - sb).
  Proof.
    intros Hb Hs. unfold hs_cutoff. apply fmax0_of_nonneg.
    apply fdiv_pos; [now apply fle_sub_1|apply (proj1 (flt_sub _ _)); exact Hb].
  Qed.

  Lemma hs_cutoff_le_1 sb s : flt sb 1 -> fle s 1 -> fle (hs_cutoff sb s) 1.
  Proof.
    intros Hb Hs. destruct (fle_total s sb) as [H|H].
    - rewrite hs_cutoff_zero_above by assumption. apply fle_0_1.
    - rewrite hs_cutoff_inside by assumption.
      assert (Hd : flt 0 (1 - sb)) by (apply (proj1 (flt_sub _ _)); exact Hb).
      assert (Hn : 1 - sb <> 0) by now apply fpos_neq0.
      apply fle_sub_2. replace (1 - (s - sb) / (1 - sb)) with ((1 - s) / (1 - sb)) by (field; exact Hn).
      apply fdiv_pos; [now apply fle_sub_1|exact Hd].
  Qed.

  (** ** Rayleigh friction rate *)
  Theorem hs_kv_nonneg P s : fle 0 (hp_kf P) -> fle 0 (hs_kv P s).
  Proof. intros H. unfold hs_kv. apply fle_mul_pos; [exact H|apply hs_cutoff_nonneg]. Qed.

  Theorem hs_kv_zero_above_boundary_layer P s :
    flt (hp_sigma_b P) 1 -> fle s (hp_sigma_b P) -> hs_kv P s = 0.
  Proof. intros Hb Hs. unfold hs_kv. rewrite hs_cutoff_zero_above by assumption. ring. Qed.

  Theorem hs_kv_inside P s :
    flt (hp_sigma_b P) 1 -> fle (hp_sigma_b P) s ->
    hs_kv P s = hp_kf P * ((s - hp_sigma_b P) / (1 - hp_sigma_b P)).
  Proof. intros Hb Hs. unfold hs_kv. now rewrite hs_cutoff_inside. Qed.

  (** ** Newtonian relaxation rate: ka <= kt (<= ks) *)
  Theorem hs_kt_ge_ka P s cl : fle (hp_ka P) (hp_ks P) -> fle (hp_ka P) (hs_kt P s cl).
  Proof.
    intros H. unfold hs_kt. apply fle_0_add. apply fle_mul_pos; [now apply fle_sub_1|].
    apply fle_mul_pos; [apply hs_cutoff_nonneg|apply pow4_nonneg].
  Qed.

  Theorem hs_kt_pos P s cl : flt 0 (hp_ka P) -> fle (hp_ka P) (hp_ks P) -> flt 0 (hs_kt P s cl).
  Proof. intros H0 H. eapply flt_le_trans; [exact H0|now apply hs_kt_ge_ka]. Qed.

  Lemma fle_mul_le_1 x y : fle 0 x -> fle x 1 -> fle 0 y -> fle y 1 -> fle (x * y) 1.
  Proof.
    intros Hx0 Hx1 Hy0 Hy1. apply fle_trans with (y := x); [|exact Hx1].
    apply fle_sub_2. replace (x - x * y) with (x * (1 - y)) by ring.
    apply fle_mul_pos; [exact Hx0|now apply fle_sub_1].
  Qed.

  Theorem hs_kt_le_ks P s cl :
    fle (hp_ka P) (hp_ks P) -> flt (hp_sigma_b P) 1 -> fle s 1 -> fle (cl * cl) 1 ->
    fle (hs_kt P s cl) (hp_ks P).
  Proof.
    intros H Hb Hs Hc. unfold hs_kt.
    assert (H1 : fle (hs_cutoff (hp_sigma_b P) s * pow4 cl) 1).
    { apply fle_mul_le_1; [apply hs_cutoff_nonneg|now apply hs_cutoff_le_1|apply pow4_nonneg|].
      unfold pow4. apply fle_mul_le_1; auto using fle_sq. }
    apply fle_sub_2.
    replace (hp_ks P - (hp_ka P + (hp_ks P - hp_ka P) * (hs_cutoff (hp_sigma_b P) s * pow4 cl)))
      with ((hp_ks P - hp_ka P) * (1 - hs_cutoff (hp_sigma_b P) s * pow4 cl)) by ring.
    apply fle_mul_pos; now apply fle_sub_1.
  Qed.

  (** ** equilibrium temperature is bounded below by its floor *)
  Theorem hs_teq_ge_minT P pk logp cl sl : fle (hp_minT P) (hs_teq P pk logp cl sl).
  Proof. apply fmax_ge_l. Qed.
  Theorem hs_teq_cases P pk logp cl sl :
    hs_teq P pk logp cl sl = hp_minT P \/ hs_teq P pk logp cl sl = hs_teq_unbounded P pk logp cl sl.
  Proof. unfold hs_teq, fmax. destruct (fleb _ _); auto. Qed.

  (** ** nodal tendencies are dissipative *)
  Lemma fle_opp_0 x : fle 0 x -> fle (- x) 0.
  Proof. intros H. replace 0 with (- 0) by ring. now apply fle_opp. Qed.

  Theorem hs_nodal_temperature_relaxes kt tref tvar teq :
    fle 0 kt -> fle (((tref + tvar) - teq) * hs_nodal_temperature_tendency kt tref tvar teq) 0.
  Proof.
    intros H. unfold hs_nodal_temperature_tendency.
    replace ((tref + tvar - teq) * (- kt * (tref + tvar - teq)))
      with (- (kt * ((tref + tvar - teq) * (tref + tvar - teq)))) by ring.
    apply fle_opp_0. apply fle_mul_pos; [exact H|apply fle_sq].
  Qed.

  Theorem hs_nodal_velocity_damped kv cu cl :
    fle 0 kv -> cl <> 0 -> fle (cu * hs_nodal_velocity_tendency kv cu cl) 0.
  Proof.
    intros H Hc. unfold hs_nodal_velocity_tendency.
    replace (cu * (- kv * cu / (cl * cl))) with (- (kv * ((cu / cl) * (cu / cl)))) by (field; exact Hc).
    apply fle_opp_0. apply fle_mul_pos; [exact H|apply fle_sq].
  Qed.

  (** ** the spectral tendencies: what [explicit_terms] computes *)
  Lemma matop_ext m A (x y : nat -> F) i :
    (forall j, (j < m)%nat -> x j = y j) -> matop m A x i = matop m A y i.
  Proof. intros H. unfold matop. apply sumn_ext. intros j Hj. now rewrite H. Qed.
  Lemma matop_scal m A c (x : nat -> F) i : matop m A (fun j => c * x j) i = c * matop m A x i.
  Proof.
    unfold matop. rewrite <- sumn_scal_l. apply sumn_ext. intros j _. ring.
  Qed.
  Lemma matopm_ok n m A (x : nat -> F) i : (i < n)%nat -> matopm n m A x i = matop m A x i.
  Proof. intros H. unfold matopm. now apply memo_ok. Qed.

  (** wind -> sec^2-scaled nodal wind -> modal (the path of the velocity
      tendency without the friction factor) *)
  Definition uv_chain (G : HSGrid F) (cm : nat -> F) (j : nat) : F :=
    matop (g_nn G) (g_toM G)
          (fun p => matop (g_nm G) (g_toN G) cm p / (g_cosl G p * g_cosl G p)) j.
  Definition cos_lat_u_of (G : HSGrid F) (vor div : nat -> F) : nat -> F :=
    vadd (matop (g_nm G) (g_CUv G) vor) (matop (g_nm G) (g_CUd G) div).
  Definition cos_lat_v_of (G : HSGrid F) (vor div : nat -> F) : nat -> F :=
    vadd (matop (g_nm G) (g_CVv G) vor) (matop (g_nm G) (g_CVd G) div).
  (** vorticity / divergence of the wind reconstructed from (vor, div):
      curl_cos_lat / div_cos_lat of to_modal(sec^2 * to_nodal(cos_lat_vector)) *)
  Definition roundtrip_vor (G : HSGrid F) (vor div : nat -> F) : nat -> F :=
    vadd (matop (g_nm G) (g_CRu G) (uv_chain G (cos_lat_u_of G vor div)))
         (matop (g_nm G) (g_CRv G) (uv_chain G (cos_lat_v_of G vor div))).
  Definition roundtrip_div (G : HSGrid F) (vor div : nat -> F) : nat -> F :=
    vadd (matop (g_nm G) (g_DVu G) (uv_chain G (cos_lat_u_of G vor div)))
         (matop (g_nm G) (g_DVv G) (uv_chain G (cos_lat_v_of G vor div))).

  Lemma fdiv_assoc (a b c : F) : a * b / c = a * (b / c).
  Proof. rewrite !(Fdiv_def field_c). ring. Qed.

  Lemma hs_ut_modal_scal G P sigma (cm cm' : nat -> F) j :
    (forall i, (i < g_nm G)%nat -> cm i = cm' i) -> (j < g_nm G)%nat ->
    hs_ut_modal G P sigma cm j = (- hs_kv P sigma) * uv_chain G cm' j.
  Proof.
    intros Hc Hj. unfold hs_ut_modal, uv_chain. rewrite matopm_ok by exact Hj.
    rewrite <- matop_scal. apply matop_ext. intros p Hp.
    unfold hs_ut_nodal. cbv zeta. rewrite memo_ok by exact Hp. rewrite matopm_ok by exact Hp.
    unfold hs_nodal_velocity_tendency. rewrite fdiv_assoc. f_equal. f_equal.
    now apply matop_ext.
  Qed.

  (** the vorticity / divergence tendencies are minus the friction rate of
      the level times the round trip of (vor, div) through the wind *)
  Theorem hs_vorticity_tendency_linear G P sigma (vor div : nat -> F) i :
    hs_vorticity_tendency G P sigma vor div i = (- hs_kv P sigma) * roundtrip_vor G vor div i.
  Proof.
    unfold hs_vorticity_tendency, roundtrip_vor, vadd. cbv zeta.
    rewrite (matop_ext _ (g_CRu G) _ (fun j => (- hs_kv P sigma) * uv_chain G (cos_lat_u_of G vor div) j)).
    2:{ intros j Hj. apply hs_ut_modal_scal; [|exact Hj]. intros k Hk. unfold hs_cos_lat_u. now apply memo_ok. }
    rewrite (matop_ext _ (g_CRv G) _ (fun j => (- hs_kv P sigma) * uv_chain G (cos_lat_v_of G vor div) j)).
    2:{ intros j Hj. apply hs_ut_modal_scal; [|exact Hj]. intros k Hk. unfold hs_cos_lat_v. now apply memo_ok. }
    rewrite !matop_scal. ring.
  Qed.

  Theorem hs_divergence_tendency_linear G P sigma (vor div : nat -> F) i :
    hs_divergence_tendency G P sigma vor div i = (- hs_kv P sigma) * roundtrip_div G vor div i.
  Proof.
    unfold hs_divergence_tendency, roundtrip_div, vadd. cbv zeta.
    rewrite (matop_ext _ (g_DVu G) _ (fun j => (- hs_kv P sigma) * uv_chain G (cos_lat_u_of G vor div) j)).
    2:{ intros j Hj. apply hs_ut_modal_scal; [|exact Hj]. intros k Hk. unfold hs_cos_lat_u. now apply memo_ok. }
    rewrite (matop_ext _ (g_DVv G) _ (fun j => (- hs_kv P sigma) * uv_chain G (cos_lat_v_of G vor div) j)).
    2:{ intros j Hj. apply hs_ut_modal_scal; [|exact Hj]. intros k Hk. unfold hs_cos_lat_v. now apply memo_ok. }
    rewrite !matop_scal. ring.
  Qed.

  (** under the wind round-trip hypothesis (C02; exact for states truncated
      two degrees below the grid's total wavenumber) the drag acts directly
      on vorticity and divergence *)
  Theorem hs_drag_linear G P sigma (vor div : nat -> F) i :
    roundtrip_vor G vor div i = vor i -> roundtrip_div G vor div i = div i ->
    hs_vorticity_tendency G P sigma vor div i = (- hs_kv P sigma) * vor i /\
    hs_divergence_tendency G P sigma vor div i = (- hs_kv P sigma) * div i.
  Proof.
    intros Hv Hd. rewrite hs_vorticity_tendency_linear, hs_divergence_tendency_linear, Hv, Hd. auto.
  Qed.

  Theorem hs_drag_zero_above_boundary_layer G P sigma (vor div : nat -> F) i :
    flt (hp_sigma_b P) 1 -> fle sigma (hp_sigma_b P) ->
    hs_vorticity_tendency G P sigma vor div i = 0 /\ hs_divergence_tendency G P sigma vor div i = 0.
  Proof.
    intros Hb Hs. rewrite hs_vorticity_tendency_linear, hs_divergence_tendency_linear.
    rewrite hs_kv_zero_above_boundary_layer by assumption. split; ring.
  Qed.

  (** temperature tendency = to_modal of -kt (T - Teq) with T = T_ref + to_nodal(T') *)
  Theorem hs_temperature_tendency_is_relaxation G P sigma tref (tv pk logp : nat -> F) i :
    hs_temperature_tendency G P sigma tref tv pk logp i
    = matop (g_nn G) (g_toM G)
            (fun p => (- hs_kt P sigma (g_cosl G p)) *
                      ((tref + matop (g_nm G) (g_toN G) tv p)
                       - hs_teq P (pk p) (logp p) (g_cosl G p) (g_sinl G p))) i.
  Proof.
    unfold hs_temperature_tendency. apply matop_ext. intros p Hp.
    unfold hs_tt_nodal. cbv zeta. rewrite memo_ok by exact Hp. rewrite matopm_ok by exact Hp.
    reflexivity.
  Qed.

  Theorem hs_lnps_tendency_zero (lnps : nat -> F) i : hs_log_surface_pressure_tendency lnps i = 0.
  Proof. reflexivity. Qed.
End HSThm.
