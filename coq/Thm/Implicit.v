(** Theorems about the implicit-solve model (property C03), for every field,
    every layer count K, all boundaries, reference temperatures, kappa, R,
    Laplacian eigenvalues and step sizes eta of either sign. *)
From Dino Require Import Base.Ops Base.Sums Base.Ord Model.Sigma Thm.Sigma Model.Implicit.
Local Open Scope F_scope.

Section LinAlg.
  Context {F : Type} {o : Ops F} {Fc : FieldC o}.
  Add Field FFla : (field_c : FieldTh o).

  (** [X] is a left inverse of the n x n matrix [M] *)
  Definition is_left_inverse (n : nat) (X M : @Mat F) : Prop :=
    forall i j, (i < n)%nat -> (j < n)%nat -> matmul n X M i j = eye i j.

  Lemma matvec_ext n (A : @Mat F) x y i :
    (forall h, (h < n)%nat -> x h = y h) -> matvec n A x i = matvec n A y i.
  Proof. intros H. unfold matvec. apply sumn_ext. intros h Hh. now rewrite H. Qed.

  Lemma matvec_ext_mat n (A B : @Mat F) x i :
    (forall h, (h < n)%nat -> A i h = B i h) -> matvec n A x i = matvec n B x i.
  Proof. intros H. unfold matvec. apply sumn_ext. intros h Hh. now rewrite H. Qed.

  Lemma matvec_lin n (A : @Mat F) a b x y i :
    matvec n A (fun h => a * x h + b * y h) i = a * matvec n A x i + b * matvec n A y i.
  Proof.
    unfold matvec. rewrite <- !sumn_scal_l, <- sumn_add. apply sumn_ext. intros; ring.
  Qed.

  Lemma matvec_add n (A : @Mat F) x y i :
    matvec n A (fun h => x h + y h) i = matvec n A x i + matvec n A y i.
  Proof. unfold matvec. rewrite <- sumn_add. apply sumn_ext. intros; ring. Qed.

  (** rectangular: A is p x m, B is m x n *)
  Lemma matvec_matmul n m (A B : @Mat F) x i :
    matvec n (matmul m A B) x i = matvec m A (matvec n B x) i.
  Proof.
    unfold matvec, matmul.
    rewrite (sumn_ext n _ (fun h => sumn m (fun k => A i k * (B k h * x h)))).
    2:{ intros h _. rewrite <- sumn_scal_r. apply sumn_ext. intros; cbv beta; ring. }
    rewrite sumn_exchange. apply sumn_ext. intros k _. now rewrite sumn_scal_l.
  Qed.

  Lemma matvec_eye n (x : nat -> F) i : (i < n)%nat -> matvec n eye x i = x i.
  Proof. intros Hi. unfold matvec, eye. now apply sumn_delta_l. Qed.

  Lemma left_inverse_apply n (X M : @Mat F) x i :
    is_left_inverse n X M -> (i < n)%nat -> matvec n X (matvec n M x) i = x i.
  Proof.
    intros H Hi. rewrite <- matvec_matmul.
    rewrite (matvec_ext_mat n _ eye) by (intros h Hh; now apply H).
    now apply matvec_eye.
  Qed.

  Lemma matvec_I_minus n (P : @Mat F) x i :
    (i < n)%nat -> matvec n (fun i j => eye i j - P i j) x i = x i - matvec n P x i.
  Proof.
    intros Hi. unfold matvec.
    rewrite (sumn_ext n _ (fun h => delta i h * x h - P i h * x h)) by (intros; unfold eye; ring).
    rewrite sumn_sub, sumn_delta_l by assumption. reflexivity.
  Qed.

  Lemma memo2_ok n m (f : @Mat F) i j : (i < n)%nat -> (j < m)%nat -> memo2 n m f i j = f i j.
  Proof.
    intros Hi Hj. unfold memo2.
    rewrite (nth_indep _ [] ((fun i => tab m (f i)) 0%nat)) by (rewrite map_length, seq_length; lia).
    rewrite (map_nth (fun i => tab m (f i))). rewrite seq_nth by lia. cbn [Nat.add].
    now apply tab_nth.
  Qed.

  (** *** the block-wise (Schur complement) solve, for arbitrary blocks
      G (n x m) and H (m x n):
        [ I G ]^-1 = [ (I-GH)^-1  0 ] [ I  -G ]
        [ H I ]      [ 0  (I-HG)^-1 ] [ -H  I ]
      used as a left inverse: applied to (u + G v, H u + v) it returns (u, v). *)
  Theorem schur_blockwise_generic n m (G H A B : @Mat F) (u v yu yv : nat -> F) :
    is_left_inverse n A (fun i j => eye i j - matmul m G H i j) ->
    is_left_inverse m B (fun i j => eye i j - matmul n H G i j) ->
    (forall i, (i < n)%nat -> yu i = u i + matvec m G v i) ->
    (forall i, (i < m)%nat -> yv i = matvec n H u i + v i) ->
    (forall i, (i < n)%nat -> matvec n A (fun g => yu g - matvec m G yv g) i = u i) /\
    (forall i, (i < m)%nat -> matvec m B (fun g => yv g - matvec n H yu g) i = v i).
  Proof.
    intros HA HB Hu Hv. split; intros i Hi.
    - rewrite <- (left_inverse_apply n A _ u i HA Hi). apply matvec_ext. intros g Hg.
      rewrite matvec_I_minus by assumption. rewrite matvec_matmul.
      rewrite Hu by assumption.
      rewrite (matvec_ext m G yv (fun h => matvec n H u h + v h)) by (intros; now apply Hv).
      rewrite matvec_add. ring.
    - rewrite <- (left_inverse_apply m B _ v i HB Hi). apply matvec_ext. intros g Hg.
      rewrite matvec_I_minus by assumption. rewrite matvec_matmul.
      rewrite Hv by assumption.
      rewrite (matvec_ext n H yu (fun h => u h + matvec m G v h)) by (intros; now apply Hu).
      rewrite matvec_add. ring.
  Qed.
End LinAlg.

Section Temperature.
  Context {F : Type} {o : Ops F} {Fc : FieldC o}.
  Add Field FFte : (field_c : FieldTh o).
  (** the boolean equality test of the carrier is sound (true for Q, Qc, R) *)
  Hypothesis feqb_sound : forall x y : F, feqb x y = true -> x = y.

  Lemma roll1_zero_pos K (a : @Mat F) r s :
    (0 < r)%nat -> (r < K)%nat -> roll1_zero K a r s = a (r - 1)%nat s.
  Proof.
    intros H0 HK. unfold roll1_zero.
    destruct (Nat.eqb_spec r 0%nat); [lia|].
    replace ((r + K - 1) mod K)%nat with (r - 1)%nat; [reflexivity|].
    replace (r + K - 1)%nat with ((r - 1) + 1 * K)%nat by lia.
    rewrite Nat.mod_add by lia. symmetry. apply Nat.mod_small. lia.
  Qed.

  Lemma roll1_zero_0 K (a : @Mat F) s : roll1_zero K a 0%nat s = 0.
  Proof. reflexivity. Qed.

  Ltac leb_true a b := replace (Nat.leb a b) with true by (symmetry; apply Nat.leb_le; lia).
  Ltac leb_false a b := replace (Nat.leb a b) with false by (symmetry; apply Nat.leb_gt; lia).

  (** H[r,s]/dsigma[s] takes one value for all s < r ... *)
  Lemma temp_weights_below (c : PEcfg) r s :
    (s < r)%nat -> (r < cK c)%nat ->
    temp_weights c r s * thickness (cb c) 0%nat = temp_weights c r 0%nat * thickness (cb c) s.
  Proof.
    intros Hs Hr. unfold temp_weights. cbv zeta.
    rewrite !roll1_zero_pos by lia. unfold tril.
    leb_true s r. leb_true 0%nat r. leb_true s (r - 1)%nat. leb_true 0%nat (r - 1)%nat.
    ring.
  Qed.

  (** ... and one value for all s > r *)
  Lemma temp_weights_above (c : PEcfg) r s :
    (r < s)%nat -> (s < cK c)%nat ->
    temp_weights c r s * thickness (cb c) (cK c - 1)%nat = temp_weights c r (cK c - 1)%nat * thickness (cb c) s.
  Proof.
    intros Hr Hs. unfold temp_weights. cbv zeta.
    destruct (Nat.eq_dec r 0%nat) as [->|Hr0].
    - rewrite !roll1_zero_0. unfold tril.
      leb_false s 0%nat. leb_false (cK c - 1)%nat 0%nat. ring.
    - rewrite !roll1_zero_pos by lia. unfold tril.
      leb_false s r. leb_false (cK c - 1)%nat r. leb_false s (r - 1)%nat. leb_false (cK c - 1)%nat (r - 1)%nat.
      ring.
  Qed.

  Lemma any_nonzero_false n (v : nat -> F) :
    any_nonzero n v = false -> forall i, (i < n)%nat -> v i = 0.
  Proof.
    intros H i Hi. unfold any_nonzero in H.
    destruct (feqb (v i) 0) eqn:E; [now apply feqb_sound|].
    exfalso. assert (X : existsb (fun i => negb (feqb (v i) 0)) (seq 0 n) = true).
    { apply existsb_exists. exists i. split; [apply in_seq; lia | now rewrite E]. }
    rewrite X in H. discriminate.
  Qed.

  (** the cumulative-sum form without the [if (down_weights != 0).any()] short cut *)
  Definition temp_sparse_full (c : PEcfg) (div : nat -> F) (r : nat) : F :=
    let wd := fun k => thickness (cb c) k * div k in
    up_weights c r * (cumsum_dot (cK c) wd r - wd r) + neg_temp_weights c r r * div r
    + down_weights c r * (revcumsum_dot (cK c) wd r - wd r).

  Lemma temp_sparse_branch (c : PEcfg) div r :
    (r < cK c)%nat -> temp_implicit_sparse c div r = temp_sparse_full c div r.
  Proof.
    intros Hr. unfold temp_implicit_sparse, temp_sparse_full. cbv zeta.
    destruct (any_nonzero (cK c) (down_weights c)) eqn:E; [reflexivity|].
    rewrite (any_nonzero_false _ _ E r Hr). ring.
  Qed.

  (** *** dense = cumulative-sum form of the temperature operator, all K, all levels *)
  Theorem temperature_sparse_eq_dense (c : PEcfg) (div : nat -> F) r :
    (r < cK c)%nat ->
    thickness (cb c) 0%nat <> 0 -> thickness (cb c) (cK c - 1)%nat <> 0 ->
    temp_implicit_sparse c div r = temp_implicit_dense c div r.
  Proof.
    intros Hr H0 HK. rewrite temp_sparse_branch by assumption.
    unfold temp_sparse_full, temp_implicit_dense, matvec, cumsum_dot, revcumsum_dot. cbv zeta.
    set (th := thickness (cb c)) in *. set (K := cK c) in *.
    set (w := neg_temp_weights c).
    symmetry.
    rewrite (sumn_ext K _ (fun s =>
       (up_weights c r * (ind (Nat.leb s r) * (th s * div s)) - up_weights c r * (delta r s * (th s * div s)))
       + delta r s * (w r s * div s)
       + (down_weights c r * (ind (Nat.leb r s) * (th s * div s)) - down_weights c r * (delta r s * (th s * div s))))).
    - rewrite !sumn_add, !sumn_sub, !sumn_scal_l.
      rewrite (sumn_delta_l K r (fun s => th s * div s)) by assumption.
      rewrite (sumn_delta_l K r (fun s => w r s * div s)) by assumption.
      ring.
    - intros s Hs. unfold delta, up_weights, down_weights. fold th. fold K. fold w.
      destruct (Nat.lt_trichotomy s r) as [Hlt|[Heq|Hgt]].
      + (* s < r *)
        assert (E : w r s = w r 0%nat * th s / th 0%nat).
        { unfold w, neg_temp_weights. pose proof (temp_weights_below c r s Hlt Hr) as T. fold th in T.
          apply (f_equal (fun z => - z / th 0%nat)) in T.
          transitivity (- (temp_weights c r s * th 0%nat) / th 0%nat); [field; exact H0|].
          rewrite T. field. exact H0. }
        rewrite E.
        destruct (Nat.eqb_spec r 0%nat); [lia|]. destruct (Nat.eqb_spec r s); [lia|].
        leb_true s r. leb_false r s.
        destruct (Nat.ltb (S r) K); cbn [ind]; field; auto.
      + subst s. rewrite Nat.eqb_refl. leb_true r r. cbn [ind]. ring.
      + (* s > r *)
        assert (E : w r s = w r (K - 1)%nat * th s / th (K - 1)%nat).
        { unfold w, neg_temp_weights. pose proof (temp_weights_above c r s Hgt Hs) as T. fold th in T. fold K in T.
          transitivity (- (temp_weights c r s * th (K - 1)%nat) / th (K - 1)%nat); [field; exact HK|].
          rewrite T. field. exact HK. }
        rewrite E.
        destruct (Nat.eqb_spec r s); [lia|].
        leb_false s r. leb_true r s.
        destruct (Nat.ltb_spec (S r) K); [|lia].
        destruct (Nat.eqb r 0%nat); cbn [ind]; field; auto.
  Qed.
End Temperature.

Section Primitive.
  Context {F : Type} {o : Ops F} {Fc : FieldC o}.
  Add Field FFpe : (field_c : FieldTh o).

  (** equality of the K + K + 1 active entries of two columns *)
  Definition col_eq (K : nat) (x y : @Col F) : Prop :=
    (forall g, (g < K)%nat -> c_div x g = c_div y g) /\
    (forall g, (g < K)%nat -> c_temp x g = c_temp y g) /\
    c_lnps x = c_lnps y.

  Lemma col_eq_refl K x : col_eq K x x.
  Proof. repeat split. Qed.
  Lemma col_eq_sym K x y : col_eq K x y -> col_eq K y x.
  Proof. intros (A & B & C). repeat split; intros; symmetry; auto. Qed.
  Lemma col_eq_trans K x y z : col_eq K x y -> col_eq K y z -> col_eq K x z.
  Proof.
    intros (A & B & C) (A' & B' & C'). repeat split; intros.
    - rewrite A by assumption. now apply A'.
    - rewrite B by assumption. now apply B'.
    - now rewrite C.
  Qed.

  Lemma stack_div K (x : @Col F) h : (h < K)%nat -> stack K x h = c_div x h.
  Proof. intros H. unfold stack. destruct (Nat.ltb_spec h K); [reflexivity|lia]. Qed.
  Lemma stack_temp K (x : @Col F) h : (h < K)%nat -> stack K x (K + h)%nat = c_temp x h.
  Proof.
    intros H. unfold stack. destruct (Nat.ltb_spec (K + h) K); [lia|].
    destruct (Nat.ltb_spec (K + h) (2 * K)); [|lia]. f_equal. lia.
  Qed.
  Lemma stack_lnps K (x : @Col F) : stack K x (2 * K)%nat = c_lnps x.
  Proof.
    unfold stack. destruct (Nat.ltb_spec (2 * K) K); [lia|].
    destruct (Nat.ltb_spec (2 * K) (2 * K)); [lia|reflexivity].
  Qed.

  Lemma stack_ext K (x y : @Col F) h : col_eq K x y -> (h < 2 * K + 1)%nat -> stack K x h = stack K y h.
  Proof.
    intros (A & B & C) Hh. unfold stack.
    destruct (Nat.ltb_spec h K); [now apply A|].
    destruct (Nat.ltb_spec h (2 * K)); [apply B; lia | exact C].
  Qed.

  (** a (2K+1)-row applied to a stacked column splits into its three blocks *)
  Lemma matvec_stack K (A : @Mat F) (x : @Col F) i :
    matvec (2 * K + 1) A (stack K x) i
    = matvec K (blk A 0 0) (c_div x) i + matvec K (blk A 0 K) (c_temp x) i
      + matvec 1 (blk A 0 (2 * K)) (lnps_vec x) i.
  Proof.
    unfold matvec, blk, lnps_vec.
    replace (2 * K + 1)%nat with (K + (K + 1))%nat by lia.
    rewrite sumn_split, sumn_split. cbn [sumn].
    rewrite (sumn_ext K (fun h => A i h * stack K x h) (fun h => A (0 + i)%nat (0 + h)%nat * c_div x h))
      by (intros h Hh; now rewrite stack_div).
    rewrite (sumn_ext K (fun h => A i (K + h)%nat * stack K x (K + h)%nat)
                        (fun h => A (0 + i)%nat (K + h)%nat * c_temp x h))
      by (intros h Hh; now rewrite stack_temp).
    replace (K + (K + 0))%nat with (2 * K)%nat by lia. rewrite stack_lnps.
    replace (2 * K + 0)%nat with (2 * K)%nat by lia. cbn [Nat.add]. ring.
  Qed.

  (** *** entries of the assembled matrix *)
  Section Entries.
    Variable c : @PEcfg F.
    Variables eta lam : F.
    Let K := cK c.
    Let M := implicit_matrix c eta lam.

    Lemma M00 i j : (i < K)%nat -> (j < K)%nat -> M i j = eye i j.
    Proof.
      intros Hi Hj. unfold M, implicit_matrix. fold K.
      destruct (Nat.ltb_spec i K); [|lia]. destruct (Nat.ltb_spec j K); [reflexivity|lia].
    Qed.
    Lemma M01 i j : (i < K)%nat -> (j < K)%nat ->
      M i (K + j)%nat = eta * (lam * geo_weights K (cR c) (cls c) i j).
    Proof.
      intros Hi Hj. unfold M, implicit_matrix. fold K.
      destruct (Nat.ltb_spec i K); [|lia]. destruct (Nat.ltb_spec (K + j) K); [lia|].
      destruct (Nat.ltb_spec (K + j) (2 * K)); [|lia]. replace (K + j - K)%nat with j by lia. reflexivity.
    Qed.
    Lemma M02 i : (i < K)%nat -> M i (2 * K)%nat = eta * cR c * (lam * cTref c i).
    Proof.
      intros Hi. unfold M, implicit_matrix. fold K.
      destruct (Nat.ltb_spec i K); [|lia]. destruct (Nat.ltb_spec (2 * K) K); [lia|].
      destruct (Nat.ltb_spec (2 * K) (2 * K)); [lia|reflexivity].
    Qed.
    Lemma M10 i j : (i < K)%nat -> (j < K)%nat -> M (K + i)%nat j = eta * temp_weights c i j.
    Proof.
      intros Hi Hj. unfold M, implicit_matrix. fold K.
      destruct (Nat.ltb_spec (K + i) K); [lia|]. destruct (Nat.ltb_spec (K + i) (2 * K)); [|lia].
      destruct (Nat.ltb_spec j K); [|lia]. replace (K + i - K)%nat with i by lia. reflexivity.
    Qed.
    Lemma M11 i j : (i < K)%nat -> (j < K)%nat -> M (K + i)%nat (K + j)%nat = eye i j.
    Proof.
      intros Hi Hj. unfold M, implicit_matrix. fold K.
      destruct (Nat.ltb_spec (K + i) K); [lia|]. destruct (Nat.ltb_spec (K + i) (2 * K)); [|lia].
      destruct (Nat.ltb_spec (K + j) K); [lia|]. destruct (Nat.ltb_spec (K + j) (2 * K)); [|lia].
      replace (K + i - K)%nat with i by lia. replace (K + j - K)%nat with j by lia. reflexivity.
    Qed.
    Lemma M12 i : (i < K)%nat -> M (K + i)%nat (2 * K)%nat = 0.
    Proof.
      intros Hi. unfold M, implicit_matrix. fold K.
      destruct (Nat.ltb_spec (K + i) K); [lia|]. destruct (Nat.ltb_spec (K + i) (2 * K)); [|lia].
      destruct (Nat.ltb_spec (2 * K) K); [lia|]. destruct (Nat.ltb_spec (2 * K) (2 * K)); [lia|reflexivity].
    Qed.
    Lemma M20 j : (j < K)%nat -> M (2 * K)%nat j = eta * thickness (cb c) j.
    Proof.
      intros Hj. unfold M, implicit_matrix. fold K.
      destruct (Nat.ltb_spec (2 * K) K); [lia|]. destruct (Nat.ltb_spec (2 * K) (2 * K)); [lia|].
      destruct (Nat.ltb_spec j K); [reflexivity|lia].
    Qed.
    Lemma M21 j : (j < K)%nat -> M (2 * K)%nat (K + j)%nat = 0.
    Proof.
      intros Hj. unfold M, implicit_matrix. fold K.
      destruct (Nat.ltb_spec (2 * K) K); [lia|]. destruct (Nat.ltb_spec (2 * K) (2 * K)); [lia|].
      destruct (Nat.ltb_spec (K + j) K); [lia|]. destruct (Nat.ltb_spec (K + j) (2 * K)); [reflexivity|lia].
    Qed.
    Lemma M22 : M (2 * K)%nat (2 * K)%nat = 1.
    Proof.
      unfold M, implicit_matrix. fold K.
      destruct (Nat.ltb_spec (2 * K) K); [lia|].
      destruct (Nat.ltb_spec (2 * K) (2 * K)); [lia|reflexivity].
    Qed.
  End Entries.

  Lemma implicit_matrix_tab_ok (c : @PEcfg F) eta lam i j :
    (i < 2 * cK c + 1)%nat -> (j < 2 * cK c + 1)%nat ->
    implicit_matrix_tab c eta lam i j = implicit_matrix c eta lam i j.
  Proof. intros. unfold implicit_matrix_tab. now apply memo2_ok. Qed.
End Primitive.

Section Operator.
  Context {F : Type} {o : Ops F} {Fc : FieldC o}.
  Add Field FFop : (field_c : FieldTh o).

  (** *** the assembled matrix is the operator I - eta * implicit_terms *)
  Theorem matrix_is_I_minus_eta_L (c : PEcfg) (eta lam : F) (x : Col) i :
    (i < 2 * cK c + 1)%nat ->
    matvec (2 * cK c + 1) (implicit_matrix c eta lam) (stack (cK c) x) i
    = stack (cK c) (col_minus_scaled x eta (implicit_terms false c lam x)) i.
  Proof.
    intros Hi. rewrite matvec_stack. unfold matvec, blk, lnps_vec. cbn [sumn Nat.add].
    replace (2 * cK c + 0)%nat with (2 * cK c)%nat by lia.
    destruct (Nat.lt_ge_cases i (cK c)) as [H1|H1]; [|destruct (Nat.lt_ge_cases i (2 * cK c)) as [H2|H2]].
    - (* divergence rows *)
      rewrite stack_div by assumption.
      rewrite (sumn_ext (cK c) (fun h => implicit_matrix c eta lam i h * c_div x h)
                 (fun h => delta i h * c_div x h)) by (intros h Hh; rewrite M00; auto).
      rewrite sumn_delta_l by assumption.
      rewrite (sumn_ext (cK c) (fun h => implicit_matrix c eta lam i (cK c + h)%nat * c_temp x h)
                 (fun h => (eta * lam) * (geo_weights (cK c) (cR c) (cls c) i h * c_temp x h)))
        by (intros h Hh; rewrite M01 by assumption; ring).
      rewrite sumn_scal_l. rewrite M02 by assumption.
      cbn [col_minus_scaled implicit_terms c_div c_temp c_lnps]. unfold geo_diff, geo_diff_dense. ring.
    - (* temperature rows *)
      replace i with (cK c + (i - cK c))%nat by lia.
      set (g := (i - cK c)%nat). assert (Hg : (g < cK c)%nat) by (unfold g; lia).
      rewrite stack_temp by assumption.
      rewrite (sumn_ext (cK c) (fun h => implicit_matrix c eta lam (cK c + g)%nat h * c_div x h)
                 (fun h => eta * (temp_weights c g h * c_div x h)))
        by (intros h Hh; rewrite M10 by assumption; ring).
      rewrite sumn_scal_l.
      rewrite (sumn_ext (cK c) (fun h => implicit_matrix c eta lam (cK c + g)%nat (cK c + h)%nat * c_temp x h)
                 (fun h => delta g h * c_temp x h)) by (intros h Hh; rewrite M11; auto).
      rewrite sumn_delta_l by assumption. rewrite M12 by assumption.
      cbn [col_minus_scaled implicit_terms c_div c_temp c_lnps temp_implicit].
      unfold temp_implicit_dense, matvec, neg_temp_weights.
      rewrite (sumn_ext (cK c) (fun h => - temp_weights c g h * c_div x h)
                 (fun h => - (temp_weights c g h * c_div x h))) by (intros; ring).
      rewrite sumn_opp. ring.
    - (* surface pressure row *)
      replace i with (2 * cK c)%nat by lia.
      rewrite stack_lnps.
      rewrite (sumn_ext (cK c) (fun h => implicit_matrix c eta lam (2 * cK c)%nat h * c_div x h)
                 (fun h => eta * (thickness (cb c) h * c_div x h)))
        by (intros h Hh; rewrite M20 by assumption; ring).
      rewrite sumn_scal_l.
      rewrite (sumn_zero (cK c) (fun h => implicit_matrix c eta lam (2 * cK c)%nat (cK c + h)%nat * c_temp x h))
        by (intros h Hh; rewrite M21 by assumption; ring).
      rewrite M22.
      cbn [col_minus_scaled implicit_terms c_div c_temp c_lnps]. unfold matvec. ring.
  Qed.
End Operator.

Section Resolvent.
  Context {F : Type} {o : Ops F} {Fc : FieldC o}.
  Add Field FFre : (field_c : FieldTh o).
  Hypothesis feqb_sound : forall x y : F, feqb x y = true -> x = y.

  (** *** implicit_terms: cumulative-sum strategy = dense strategy *)
  Theorem implicit_terms_sparse_eq_dense (c : PEcfg) (lam : F) (x : Col) (sp : bool) :
    thickness (cb c) 0%nat <> 0 -> thickness (cb c) (cK c - 1)%nat <> 0 ->
    col_eq (cK c) (implicit_terms sp c lam x) (implicit_terms false c lam x).
  Proof.
    intros H0 HK. destruct sp; [|apply col_eq_refl].
    repeat split; cbn [implicit_terms c_div c_temp c_lnps]; intros g Hg.
    - unfold geo_diff. now rewrite geo_sparse_eq_dense.
    - unfold temp_implicit. now apply temperature_sparse_eq_dense.
  Qed.

  (** *** linearity of implicit_terms (both strategies, no side conditions) *)
  Lemma cumsum_dot_lin K (w x y : nat -> F) a b j :
    cumsum_dot K (fun k => w k * (a * x k + b * y k)) j
    = a * cumsum_dot K (fun k => w k * x k) j + b * cumsum_dot K (fun k => w k * y k) j.
  Proof. unfold cumsum_dot. rewrite <- !sumn_scal_l, <- sumn_add. apply sumn_ext. intros; ring. Qed.
  Lemma revcumsum_dot_lin K (w x y : nat -> F) a b j :
    revcumsum_dot K (fun k => w k * (a * x k + b * y k)) j
    = a * revcumsum_dot K (fun k => w k * x k) j + b * revcumsum_dot K (fun k => w k * y k) j.
  Proof. unfold revcumsum_dot. rewrite <- !sumn_scal_l, <- sumn_add. apply sumn_ext. intros; ring. Qed.

  Lemma geo_diff_lin sp (c : PEcfg) (x y : nat -> F) a b k :
    geo_diff sp c (fun h => a * x h + b * y h) k = a * geo_diff sp c x k + b * geo_diff sp c y k.
  Proof.
    unfold geo_diff. destruct sp.
    - unfold geo_diff_sparse. cbv zeta. rewrite revcumsum_dot_lin. ring.
    - unfold geo_diff_dense. rewrite <- !sumn_scal_l, <- sumn_add. apply sumn_ext. intros; ring.
  Qed.

  Lemma temp_implicit_lin sp (c : PEcfg) (x y : nat -> F) a b k :
    temp_implicit sp c (fun h => a * x h + b * y h) k
    = a * temp_implicit sp c x k + b * temp_implicit sp c y k.
  Proof.
    unfold temp_implicit. destruct sp.
    - unfold temp_implicit_sparse. cbv zeta.
      destruct (any_nonzero (cK c) (down_weights c));
        rewrite ?cumsum_dot_lin, ?revcumsum_dot_lin; ring.
    - unfold temp_implicit_dense. apply matvec_lin.
  Qed.

  Theorem L_linear (sp : bool) (c : PEcfg) (lam : F) (a b : F) (x y : Col) :
    col_eq (cK c) (implicit_terms sp c lam (col_lin a x b y))
                  (col_lin a (implicit_terms sp c lam x) b (implicit_terms sp c lam y)).
  Proof.
    repeat split; cbn [implicit_terms col_lin c_div c_temp c_lnps].
    - intros g Hg. rewrite geo_diff_lin. ring.
    - intros g Hg. apply temp_implicit_lin.
    - rewrite matvec_lin. ring.
  Qed.

  (** *** split and stacked compute the same thing, for any matrix returned by inv *)
  Theorem split_eq_stacked inv (c : PEcfg) (eta lam : F) (y : Col) :
    col_eq (cK c) (inverse_split inv c eta lam y) (inverse_stacked inv c eta lam y).
  Proof.
    unfold inverse_split, inverse_stacked, unstack. cbv zeta.
    repeat split; cbn [c_div c_temp c_lnps]; intros.
    - rewrite matvec_stack. reflexivity.
    - rewrite matvec_stack. unfold matvec, blk. cbn [Nat.add]. reflexivity.
    - rewrite matvec_stack. unfold matvec, blk. cbn [Nat.add].
      replace (2 * cK c + 0)%nat with (2 * cK c)%nat by lia. reflexivity.
  Qed.

  (** *** the stacked solve is the resolvent whenever inv returns a left inverse *)
  Theorem stacked_resolvent_gen inv (c : PEcfg) (eta lam : F) (x y : Col) (sp : bool) :
    is_left_inverse (2 * cK c + 1) (inv (2 * cK c + 1)%nat (implicit_matrix c eta lam)) (implicit_matrix c eta lam) ->
    thickness (cb c) 0%nat <> 0 -> thickness (cb c) (cK c - 1)%nat <> 0 ->
    col_eq (cK c) y (col_minus_scaled x eta (implicit_terms sp c lam x)) ->
    col_eq (cK c) (inverse_stacked inv c eta lam y) x.
  Proof.
    intros Hinv H0 HK Hy.
    assert (Hy' : col_eq (cK c) y (col_minus_scaled x eta (implicit_terms false c lam x))).
    { eapply col_eq_trans; [exact Hy|].
      destruct (implicit_terms_sparse_eq_dense c lam x sp H0 HK) as (A & B & C).
      repeat split; cbn [col_minus_scaled c_div c_temp c_lnps]; intros;
        rewrite ?A, ?B, ?C by assumption; reflexivity. }
    assert (E : forall i, (i < 2 * cK c + 1)%nat ->
              matvec (2 * cK c + 1) (inv (2 * cK c + 1)%nat (implicit_matrix c eta lam)) (stack (cK c) y) i
              = stack (cK c) x i).
    { intros i Hi.
      rewrite (matvec_ext _ _ (stack (cK c) y)
                 (matvec (2 * cK c + 1) (implicit_matrix c eta lam) (stack (cK c) x))).
      - now apply left_inverse_apply.
      - intros h Hh. rewrite matrix_is_I_minus_eta_L by assumption. now apply stack_ext. }
    unfold inverse_stacked, unstack. cbv zeta.
    repeat split; cbn [c_div c_temp c_lnps]; intros.
    - rewrite E by lia. now apply stack_div.
    - rewrite E by lia. now apply stack_temp.
    - rewrite E by lia. apply stack_lnps.
  Qed.

  Theorem stacked_resolvent inv (c : PEcfg) (eta lam : F) (x : Col) (sp : bool) :
    is_left_inverse (2 * cK c + 1) (inv (2 * cK c + 1)%nat (implicit_matrix c eta lam)) (implicit_matrix c eta lam) ->
    thickness (cb c) 0%nat <> 0 -> thickness (cb c) (cK c - 1)%nat <> 0 ->
    col_eq (cK c) (inverse_stacked inv c eta lam (col_minus_scaled x eta (implicit_terms sp c lam x))) x.
  Proof. intros. eapply stacked_resolvent_gen; eauto. apply col_eq_refl. Qed.

  Theorem split_resolvent_gen inv (c : PEcfg) (eta lam : F) (x y : Col) (sp : bool) :
    is_left_inverse (2 * cK c + 1) (inv (2 * cK c + 1)%nat (implicit_matrix c eta lam)) (implicit_matrix c eta lam) ->
    thickness (cb c) 0%nat <> 0 -> thickness (cb c) (cK c - 1)%nat <> 0 ->
    col_eq (cK c) y (col_minus_scaled x eta (implicit_terms sp c lam x)) ->
    col_eq (cK c) (inverse_split inv c eta lam y) x.
  Proof.
    intros. eapply col_eq_trans; [apply split_eq_stacked|]. eapply stacked_resolvent_gen; eauto.
  Qed.

  Theorem split_resolvent inv (c : PEcfg) (eta lam : F) (x : Col) (sp : bool) :
    is_left_inverse (2 * cK c + 1) (inv (2 * cK c + 1)%nat (implicit_matrix c eta lam)) (implicit_matrix c eta lam) ->
    thickness (cb c) 0%nat <> 0 -> thickness (cb c) (cK c - 1)%nat <> 0 ->
    col_eq (cK c) (inverse_split inv c eta lam (col_minus_scaled x eta (implicit_terms sp c lam x))) x.
  Proof. intros. eapply split_resolvent_gen; eauto. apply col_eq_refl. Qed.
End Resolvent.

Section Blockwise.
  Context {F : Type} {o : Ops F} {Fc : FieldC o}.
  Add Field FFbw : (field_c : FieldTh o).
  Hypothesis feqb_sound : forall x y : F, feqb x y = true -> x = y.

  (** the (temperature, log surface pressure) part of a column as one vector of K+1 entries *)
  Definition tlvec (K : nat) (T : nat -> F) (p : F) (h : nat) : F := if Nat.ltb h K then T h else p.

  Lemma tlvec_lt K T p h : (h < K)%nat -> tlvec K T p h = T h.
  Proof. intros H. unfold tlvec. destruct (Nat.ltb_spec h K); [reflexivity|lia]. Qed.
  Lemma tlvec_K K T p : tlvec K T p K = p.
  Proof. unfold tlvec. now rewrite Nat.ltb_irrefl. Qed.

  Lemma matvec_tl K (A : @Mat F) w i :
    matvec (K + 1) A w i = matvec K A w i + A i K * w K.
  Proof. unfold matvec. rewrite Nat.add_1_r. reflexivity. Qed.

  Lemma blk_tl K (Bm : @Mat F) r tp lp i :
    matvec K (blk Bm r 0) tp i + matvec 1 (blk Bm r K) (fun _ => lp) i
    = matvec (K + 1) Bm (tlvec K tp lp) (r + i)%nat.
  Proof.
    rewrite matvec_tl, tlvec_K. unfold matvec, blk. cbn [sumn Nat.add].
    replace (K + 0)%nat with K by lia.
    rewrite (sumn_ext K (fun h => Bm (r + i)%nat h * tlvec K tp lp h) (fun h => Bm (r + i)%nat h * tp h))
      by (intros h Hh; now rewrite tlvec_lt).
    ring.
  Qed.

  Section Rows.
    Variable c : @PEcfg F.
    Variables eta lam : F.
    Variable x : @Col F.
    Let K := cK c.
    Let M := implicit_matrix_tab c eta lam.
    Let y := col_minus_scaled x eta (implicit_terms false c lam x).

    Lemma blockwise_row_div i : (i < K)%nat ->
      c_div y i = c_div x i + matvec (K + 1) (blk M 0 K) (tlvec K (c_temp x) (c_lnps x)) i.
    Proof.
      intros Hi. rewrite matvec_tl, tlvec_K. unfold matvec, blk. cbn [Nat.add].
      rewrite (sumn_ext K _ (fun h => (eta * lam) * (geo_weights K (cR c) (cls c) i h * c_temp x h))).
      2:{ intros h Hh. rewrite tlvec_lt by assumption. unfold M, K.
          rewrite implicit_matrix_tab_ok by lia. rewrite M01 by assumption. ring. }
      rewrite sumn_scal_l. replace (K + K)%nat with (2 * K)%nat by lia.
      unfold M, K. rewrite implicit_matrix_tab_ok by lia. rewrite M02 by assumption.
      unfold y. cbn [col_minus_scaled implicit_terms c_div c_temp c_lnps]. unfold geo_diff, geo_diff_dense. ring.
    Qed.

    Lemma blockwise_row_tl i : (i < K + 1)%nat ->
      tlvec K (c_temp y) (c_lnps y) i
      = matvec K (blk M K 0) (c_div x) i + tlvec K (c_temp x) (c_lnps x) i.
    Proof.
      intros Hi. unfold matvec, blk. cbn [Nat.add].
      destruct (Nat.lt_ge_cases i K) as [H1|H1].
      - rewrite !tlvec_lt by assumption.
        rewrite (sumn_ext K _ (fun h => eta * (temp_weights c i h * c_div x h))).
        2:{ intros h Hh. unfold M, K. rewrite implicit_matrix_tab_ok by lia. rewrite M10 by assumption. ring. }
        rewrite sumn_scal_l.
        unfold y. cbn [col_minus_scaled implicit_terms c_div c_temp c_lnps temp_implicit].
        unfold temp_implicit_dense, matvec, neg_temp_weights. fold K.
        rewrite (sumn_ext K (fun h => - temp_weights c i h * c_div x h)
                   (fun h => - (temp_weights c i h * c_div x h))) by (intros; ring).
        rewrite sumn_opp. ring.
      - replace i with K by lia. rewrite !tlvec_K.
        replace (K + K)%nat with (2 * K)%nat by lia.
        rewrite (sumn_ext K _ (fun h => eta * (thickness (cb c) h * c_div x h))).
        2:{ intros h Hh. unfold M, K. rewrite implicit_matrix_tab_ok by lia. rewrite M20 by assumption. ring. }
        rewrite sumn_scal_l.
        unfold y. cbn [col_minus_scaled implicit_terms c_div c_temp c_lnps]. unfold matvec. fold K. ring.
    Qed.
  End Rows.

  (** *** the block-wise solve of the code is the resolvent whenever the two
      [np.linalg.inv] calls return left inverses of I - GH and I - HG *)
  Theorem blockwise_resolvent_gen inv (c : PEcfg) (eta lam : F) (x y : Col) (sp : bool) :
    is_left_inverse (cK c) (inv (cK c) (schur_div c eta lam)) (schur_div c eta lam) ->
    is_left_inverse (cK c + 1) (inv (cK c + 1)%nat (schur_temp_logp c eta lam)) (schur_temp_logp c eta lam) ->
    thickness (cb c) 0%nat <> 0 -> thickness (cb c) (cK c - 1)%nat <> 0 ->
    col_eq (cK c) y (col_minus_scaled x eta (implicit_terms sp c lam x)) ->
    col_eq (cK c) (inverse_blockwise inv c eta lam y) x.
  Proof.
    intros HA HB H0 HK Hy.
    set (K := cK c) in *. set (M := implicit_matrix_tab c eta lam).
    set (y0 := col_minus_scaled x eta (implicit_terms false c lam x)).
    assert (Hy' : col_eq K y y0).
    { eapply col_eq_trans; [exact Hy|].
      destruct (implicit_terms_sparse_eq_dense feqb_sound c lam x sp H0 HK) as (A & B & C).
      repeat split; cbn [col_minus_scaled c_div c_temp c_lnps]; intros;
        rewrite ?A, ?B, ?C by assumption; reflexivity. }
    destruct Hy' as (Yd & Yt & Yl).
    set (u := c_div x). set (v := tlvec K (c_temp x) (c_lnps x)).
    set (yu := c_div y). set (yv := tlvec K (c_temp y) (c_lnps y)).
    assert (Hu : forall i, (i < K)%nat -> yu i = u i + matvec (K + 1) (blk M 0 K) v i).
    { intros i Hi. unfold yu. rewrite Yd by assumption. exact (blockwise_row_div c eta lam x i Hi). }
    assert (Hv : forall i, (i < K + 1)%nat -> yv i = matvec K (blk M K 0) u i + v i).
    { intros i Hi. transitivity (tlvec K (c_temp y0) (c_lnps y0) i); [|exact (blockwise_row_tl c eta lam x i Hi)].
      unfold yv.
      destruct (Nat.lt_ge_cases i K) as [H1|H1].
      - rewrite !tlvec_lt by assumption. now apply Yt.
      - replace i with K by lia. rewrite !tlvec_K. exact Yl. }
    destruct (schur_blockwise_generic K (K + 1) (blk M 0 K) (blk M K 0) _ _ u v yu yv HA HB Hu Hv) as [S1 S2].
    (* the code's right-hand sides are the generic ones *)
    assert (R1 : forall g, (g < K)%nat ->
              c_div y g - eta * lam * geo_diff true c (c_temp y) g - matvec 1 (blk M 0 (2 * K)) (lnps_vec y) g
              = yu g - matvec (K + 1) (blk M 0 K) yv g).
    { intros g Hg. rewrite matvec_tl. unfold yv. rewrite tlvec_K. unfold matvec, blk, lnps_vec. cbn [sumn Nat.add].
      rewrite (sumn_ext K (fun h => M g (K + h)%nat * tlvec K (c_temp y) (c_lnps y) h)
                 (fun h => (eta * lam) * (geo_weights K (cR c) (cls c) g h * c_temp y h))).
      2:{ intros h Hh. rewrite tlvec_lt by assumption. unfold M, K.
          rewrite implicit_matrix_tab_ok by lia. rewrite M01 by assumption. ring. }
      rewrite sumn_scal_l.
      replace (2 * K + 0)%nat with (2 * K)%nat by lia. replace (K + K)%nat with (2 * K)%nat by lia.
      unfold geo_diff. fold K. rewrite geo_sparse_eq_dense by assumption. unfold geo_diff_dense, yu. ring. }
    assert (R2 : forall g, (g < K)%nat ->
              c_temp y g - eta * (- temp_implicit true c (c_div y) g)
              = yv g - matvec K (blk M K 0) yu g).
    { intros g Hg. unfold yv. rewrite tlvec_lt by assumption.
      unfold temp_implicit. rewrite (temperature_sparse_eq_dense feqb_sound) by assumption.
      unfold temp_implicit_dense, matvec, blk, neg_temp_weights. fold K. cbn [Nat.add].
      rewrite (sumn_ext K (fun h => M (K + g)%nat h * yu h) (fun h => eta * (temp_weights c g h * c_div y h))).
      2:{ intros h Hh. unfold M, K, yu. rewrite implicit_matrix_tab_ok by lia. rewrite M10 by assumption. ring. }
      rewrite sumn_scal_l.
      rewrite (sumn_ext K (fun h => - temp_weights c g h * c_div y h)
                 (fun h => - (temp_weights c g h * c_div y h))) by (intros; ring).
      rewrite sumn_opp. ring. }
    assert (R3 : c_lnps y - matvec K (blk M (2 * K) 0) (c_div y) 0%nat
                 = yv K - matvec K (blk M K 0) yu K).
    { unfold yv. rewrite tlvec_K. unfold matvec, blk. cbn [Nat.add].
      replace (2 * K + 0)%nat with (2 * K)%nat by lia. replace (K + K)%nat with (2 * K)%nat by lia. reflexivity. }
    assert (W : forall h, (h < K + 1)%nat ->
              tlvec K (memo K (fun g => c_temp y g - eta * (- temp_implicit true c (c_div y) g)))
                      (c_lnps y - matvec K (blk M (2 * K) 0) (c_div y) 0%nat) h
              = yv h - matvec K (blk M K 0) yu h).
    { intros h Hh. destruct (Nat.lt_ge_cases h K) as [H1|H1].
      - rewrite tlvec_lt by assumption. rewrite memo_ok by assumption. now apply R2.
      - replace h with K by lia. rewrite tlvec_K. exact R3. }
    unfold inverse_blockwise. cbv zeta. fold K. fold M.
    repeat split; cbn [c_div c_temp c_lnps].
    - intros g Hg.
      transitivity (matvec K (inv K (schur_div c eta lam))
                      (fun g => yu g - matvec (K + 1) (blk M 0 K) yv g) g); [|exact (S1 g Hg)].
      apply matvec_ext. intros h Hh. rewrite memo_ok by assumption. now apply R1.
    - intros g Hg. assert (Hg' : (g < K + 1)%nat) by lia.
      rewrite blk_tl. cbn [Nat.add].
      transitivity (matvec (K + 1) (inv (K + 1)%nat (schur_temp_logp c eta lam))
                      (fun g => yv g - matvec K (blk M K 0) yu g) g).
      + apply matvec_ext. exact W.
      + rewrite (S2 g Hg'). unfold v. now apply tlvec_lt.
    - assert (Hg' : (K < K + 1)%nat) by lia.
      rewrite blk_tl. replace (K + 0)%nat with K by lia.
      transitivity (matvec (K + 1) (inv (K + 1)%nat (schur_temp_logp c eta lam))
                      (fun g => yv g - matvec K (blk M K 0) yu g) K).
      + apply matvec_ext. exact W.
      + rewrite (S2 K Hg'). unfold v. apply tlvec_K.
  Qed.
End Blockwise.

Section Wrappers.
  Context {F : Type} {o : Ops F} {Fc : FieldC o}.
  Add Field FFwr : (field_c : FieldTh o).
  Hypothesis feqb_sound : forall x y : F, feqb x y = true -> x = y.

  Theorem blockwise_resolvent inv (c : PEcfg) (eta lam : F) (x : Col) (sp : bool) :
    is_left_inverse (cK c) (inv (cK c) (schur_div c eta lam)) (schur_div c eta lam) ->
    is_left_inverse (cK c + 1) (inv (cK c + 1)%nat (schur_temp_logp c eta lam)) (schur_temp_logp c eta lam) ->
    thickness (cb c) 0%nat <> 0 -> thickness (cb c) (cK c - 1)%nat <> 0 ->
    col_eq (cK c) (inverse_blockwise inv c eta lam (col_minus_scaled x eta (implicit_terms sp c lam x))) x.
  Proof. intros. eapply (blockwise_resolvent_gen feqb_sound); eauto. apply col_eq_refl. Qed.

  Lemma stack_unstack K (v : nat -> F) h : (h < 2 * K + 1)%nat -> stack K (unstack K v) h = v h.
  Proof.
    intros Hh. unfold stack, unstack. cbn [c_div c_temp c_lnps].
    destruct (Nat.ltb_spec h K); [reflexivity|].
    destruct (Nat.ltb_spec h (2 * K)); f_equal; lia.
  Qed.

  Lemma stack_inj K (a b : @Col F) :
    (forall h, (h < 2 * K + 1)%nat -> stack K a h = stack K b h) -> col_eq K a b.
  Proof.
    intros H. repeat split.
    - intros g Hg. rewrite <- (stack_div K a g Hg), <- (stack_div K b g Hg). apply H. lia.
    - intros g Hg. rewrite <- (stack_temp K a g Hg), <- (stack_temp K b g Hg). apply H. lia.
    - rewrite <- (stack_lnps K a), <- (stack_lnps K b). apply H. lia.
  Qed.

  (** *** all three strategies agree on every right-hand side when [inv] returns
      two-sided inverses of the full matrix and left inverses of the Schur blocks *)
  Theorem blockwise_eq_split inv (c : PEcfg) (eta lam : F) (y : Col) :
    let n := (2 * cK c + 1)%nat in
    let M := implicit_matrix c eta lam in
    is_left_inverse n (inv n M) M -> is_left_inverse n M (inv n M) ->
    is_left_inverse (cK c) (inv (cK c) (schur_div c eta lam)) (schur_div c eta lam) ->
    is_left_inverse (cK c + 1) (inv (cK c + 1)%nat (schur_temp_logp c eta lam)) (schur_temp_logp c eta lam) ->
    thickness (cb c) 0%nat <> 0 -> thickness (cb c) (cK c - 1)%nat <> 0 ->
    col_eq (cK c) (inverse_blockwise inv c eta lam y) (inverse_split inv c eta lam y).
  Proof.
    intros n M HL HR HA HB H0 HK.
    set (x := inverse_stacked inv c eta lam y).
    assert (Hy : col_eq (cK c) y (col_minus_scaled x eta (implicit_terms false c lam x))).
    { apply stack_inj. intros h Hh.
      rewrite <- matrix_is_I_minus_eta_L by assumption.
      unfold x, inverse_stacked. cbv zeta.
      rewrite (matvec_ext _ _ (stack (cK c) (unstack (cK c) _)) _ h (stack_unstack (cK c) _)).
      symmetry. now apply (left_inverse_apply n M (inv n M)). }
    eapply col_eq_trans.
    - eapply (blockwise_resolvent_gen feqb_sound); eauto.
    - apply col_eq_sym. apply split_eq_stacked.
  Qed.

  (** *** TimeReversedImExODE: terms negated, solve called with -eta *)
  Theorem time_reversed inv (c : PEcfg) (eta lam : F) (x : Col) (sp : bool) :
    is_left_inverse (2 * cK c + 1) (inv (2 * cK c + 1)%nat (implicit_matrix c (- eta) lam))
                    (implicit_matrix c (- eta) lam) ->
    thickness (cb c) 0%nat <> 0 -> thickness (cb c) (cK c - 1)%nat <> 0 ->
    col_eq (cK c) (tr_implicit_inverse inv c eta lam (col_minus_scaled x eta (tr_implicit_terms sp c lam x))) x.
  Proof.
    intros Hinv H0 HK. unfold tr_implicit_inverse, implicit_inverse.
    apply (split_resolvent_gen feqb_sound inv c (- eta) lam x _ sp Hinv H0 HK).
    unfold tr_implicit_terms.
    repeat split; cbn [col_minus_scaled col_neg c_div c_temp c_lnps]; intros; ring.
  Qed.

  (** *** PrimitiveEquationsWithTime: sim_time has zero tendency and is passed through *)
  Theorem with_time_resolvent inv (c : PEcfg) (eta lam : F) (t : F) (x : Col) (sp : bool) :
    is_left_inverse (2 * cK c + 1) (inv (2 * cK c + 1)%nat (implicit_matrix c eta lam)) (implicit_matrix c eta lam) ->
    thickness (cb c) 0%nat <> 0 -> thickness (cb c) (cK c - 1)%nat <> 0 ->
    let L := wt_implicit_terms sp c lam (t, x) in
    let r := wt_implicit_inverse inv c eta lam (t - eta * fst L, col_minus_scaled x eta (snd L)) in
    fst r = t /\ col_eq (cK c) (snd r) x.
  Proof.
    intros Hinv H0 HK. cbv zeta. unfold wt_implicit_inverse, wt_implicit_terms. cbn [fst snd]. split.
    - ring.
    - now apply (split_resolvent feqb_sound).
  Qed.

  (** vorticity, tracers *)
  Theorem passive_resolvent (eta v : F) : passive_inverse (v - eta * passive_terms v) = v.
  Proof. unfold passive_inverse, passive_terms. ring. Qed.
End Wrappers.

Section ShallowWater.
  Context {F : Type} {o : Ops F} {Fc : FieldC o}.
  Add Field FFsw : (field_c : FieldTh o).

  Theorem sw_resolvent (Phi lam eta : F) (x : F * F) :
    sw_schur Phi lam eta <> 0 ->
    sw_implicit_inverse Phi lam eta (sw_minus_scaled x eta (sw_implicit_terms Phi lam x)) = x.
  Proof.
    intros Hs. destruct x as [d p].
    unfold sw_implicit_inverse, sw_minus_scaled, sw_implicit_terms, sw_schur in *. cbn [fst snd].
    f_equal; field; exact Hs.
  Qed.

  Theorem sw_L_linear (Phi lam a b : F) (x y : F * F) :
    sw_implicit_terms Phi lam (a * fst x + b * fst y, a * snd x + b * snd y)
    = (a * fst (sw_implicit_terms Phi lam x) + b * fst (sw_implicit_terms Phi lam y),
       a * snd (sw_implicit_terms Phi lam x) + b * snd (sw_implicit_terms Phi lam y)).
  Proof. unfold sw_implicit_terms. cbn [fst snd]. f_equal; ring. Qed.

  Theorem sw_time_reversed (Phi lam eta : F) (x : F * F) :
    sw_schur Phi lam (- eta) <> 0 ->
    sw_tr_implicit_inverse Phi lam eta (sw_minus_scaled x eta (sw_tr_implicit_terms Phi lam x)) = x.
  Proof.
    intros Hs. unfold sw_tr_implicit_inverse.
    transitivity (sw_implicit_inverse Phi lam (- eta) (sw_minus_scaled x (- eta) (sw_implicit_terms Phi lam x)));
      [|now apply sw_resolvent].
    f_equal. destruct x as [d p]. unfold sw_minus_scaled, sw_tr_implicit_terms, sw_implicit_terms. cbn [fst snd].
    f_equal; ring.
  Qed.
End ShallowWater.

Section ShallowWaterOrd.
  Context {F : Type} {o : Ops F} {Oc : OrdFieldC o}.
  Add Field FFso : (field_c : FieldTh o).

  (** the side condition always holds for non-negative reference potential
      and non-positive Laplacian eigenvalue, for every step size *)
  Theorem sw_side_condition (Phi lam eta : F) :
    fle 0 Phi -> fle lam 0 -> sw_schur Phi lam eta <> 0.
  Proof.
    intros HP Hl. unfold sw_schur.
    assert (A : fle 0 (eta * eta * Phi)) by (apply fle_mul_pos; [apply fle_sq|exact HP]).
    assert (B : fle 0 (- lam)) by (replace 0 with (- 0) by ring; now apply fle_opp).
    assert (C : fle 0 (eta * eta * Phi * (- lam))) by now apply fle_mul_pos.
    assert (D : fle 1 (1 - eta * eta * Phi * lam)).
    { apply fle_sub_2. replace (1 - eta * eta * Phi * lam - 1) with (eta * eta * Phi * (- lam)) by ring. exact C. }
    apply fpos_neq0. eapply flt_le_trans; [apply flt_0_1|exact D].
  Qed.
End ShallowWaterOrd.
