(** Adjoint identities for the linear model operators (C08): matrix-vector
    products, cumulative sums, compositions, bilinear nodal products; and the
    fact that a linear map evaluated at dual numbers returns itself applied to
    the tangent. *)
From Dino Require Import Base.Ops Base.Sums Base.Ord Model.Dual Model.Sigma Thm.Dual.
Local Open Scope F_scope.

Section Defs.
  Context {F : Type} {o : Ops F}.
  Definition dot (n : nat) (x y : nat -> F) : F := sumn n (fun i => x i * y i).
  (** [n] rows are implicit in the result index; [m] columns *)
  Definition matvec (m : nat) (a : nat -> nat -> F) (v : nat -> F) (i : nat) : F :=
    sumn m (fun j => a i j * v j).
  Definition transpose (a : nat -> nat -> F) : nat -> nat -> F := fun j i => a i j.
End Defs.

Section Thm.
  Context {F : Type} {o : Ops F} {Fc : FieldC o}.
  Add Field FFa : (field_c : FieldTh o).

  Theorem matvec_adjoint n m (a : nat -> nat -> F) (v w : nat -> F) :
    dot n (matvec m a v) w = dot m v (matvec n (transpose a) w).
  Proof.
    unfold dot, matvec, transpose.
    rewrite (sumn_ext n _ (fun i => sumn m (fun j => a i j * v j * w i))).
    2:{ intros i Hi. now rewrite <- sumn_scal_r. }
    rewrite sumn_exchange.
    apply sumn_ext. intros j Hj.
    rewrite <- sumn_scal_l. apply sumn_ext. intros i Hi. ring.
  Qed.

  (** adjoint of a composition is the reversed composition of adjoints *)
  Theorem compose_adjoint n m k (a b : nat -> nat -> F) (v w : nat -> F) :
    dot n (matvec m a (matvec k b v)) w
    = dot k v (matvec m (transpose b) (matvec n (transpose a) w)).
  Proof. now rewrite matvec_adjoint, matvec_adjoint. Qed.

  (** cumulative sum and reverse cumulative sum are mutually adjoint (all K) *)
  Theorem cumsum_adjoint K (x w : nat -> F) :
    dot K (cumsum_dot K x) w = dot K x (revcumsum_dot K w).
  Proof.
    pose (a := fun j i : nat => @ind F o (Nat.leb i j)).
    change (dot K (matvec K a x) w = dot K x (matvec K (transpose a) w)).
    apply matvec_adjoint.
  Qed.

  (** Jacobian of the pointwise (nodal) product and its transpose *)
  Theorem product_jacobian_adjoint n (x y vx vy w : nat -> F) :
    dot n (fun i => x i * vy i + vx i * y i) w
    = dot n vx (fun i => y i * w i) + dot n vy (fun i => x i * w i).
  Proof.
    unfold dot. rewrite <- sumn_add. apply sumn_ext. intros i Hi. ring.
  Qed.

  (** a linear map run at dual numbers: primal part A x, eps part A v, for every x *)
  Theorem linear_jvp_is_self m (a : nat -> nat -> F) (x v : nat -> F) i :
    matvec (o := DualOps) m (fun i j => dconst (a i j)) (fun j => dvar (x j) (v j)) i
    = mkdual (matvec m a x i) (matvec m a v i).
  Proof.
    unfold matvec. apply dual_eq.
    - rewrite re_sumn. apply sumn_ext. intros j Hj. reflexivity.
    - rewrite ep_sumn. apply sumn_ext. intros j Hj. cbn. ring.
  Qed.

  (** hence <J v, w> = <v, J^T w> for every linear model operator, with J = A *)
  Corollary linear_jvp_vjp n m (a : nat -> nat -> F) (x v w : nat -> F) :
    dot n (fun i => ep (matvec (o := DualOps) m (fun i j => dconst (a i j)) (fun j => dvar (x j) (v j)) i)) w
    = dot m v (matvec n (transpose a) w).
  Proof.
    rewrite <- matvec_adjoint. unfold dot. apply sumn_ext. intros i Hi.
    now rewrite linear_jvp_is_self.
  Qed.

  (** centred vertical advection is bilinear in (w, x): its dual-number
      evaluation is the product rule, for every K and every level set *)
  Theorem advection_jvp K (b w x dw dx : nat -> F) n :
    centered_vertical_advection (o := DualOps) K (fun k => dconst (b k))
        (fun k => dvar (w k) (dw k)) (fun k => dvar (x k) (dx k)) 0 0 0 0 n
    = mkdual (centered_vertical_advection K b w x 0 0 0 0 n)
             (centered_vertical_advection K b dw x 0 0 0 0 n
              + centered_vertical_advection K b w dx 0 0 0 0 n).
  Proof.
    unfold centered_vertical_advection, pad_tb, centered_difference, c2c, centers, half, two.
    pose proof (Fdiv_def (field_c : FieldTh o)) as Dd.
    apply dual_eq; cbn;
      repeat (match goal with |- context [if ?c then _ else _] => destruct c end); cbn;
      rewrite ?Dd; ring.
  Qed.
End Thm.
