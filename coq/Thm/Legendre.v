(** Theorems about the model of dinosaur/associated_legendre.py (Model/Legendre.v,
    whose arithmetic is Gen/Legendre.v, regenerated from the source).
    Every statement holds for an arbitrary field F, an arbitrary function [sq]
    (np.sqrt enters only through explicitly stated hypotheses), arbitrary node
    tables x, y, every number of nodes nx and all sizes n_m <= n_l. *)
From Dino Require Import Base.Ops Base.Sums Model.SHT Thm.SHT Gen.Legendre Gen.DerivExprs Model.Legendre.
Local Open Scope F_scope.

(** the translator understood every statement of the three functions *)
Lemma gen_legendre_complete_ok : gen_legendre_complete = true.
Proof. reflexivity. Qed.

(** *** the generated integer expressions are the intended ones *)
Lemma leg_m_max_spec n_m n_l k : leg_m_max n_m n_l k = Nat.min n_m (n_l - k).
Proof. unfold leg_m_max. lia. Qed.

Lemma leg_offsets_spec : leg_off1 = (-1)%Z /\ leg_off2 = (-2)%Z.
Proof. split; reflexivity. Qed.

Lemma leg_rejects_spec n_m n_l : leg_rejects n_m n_l = true <-> (n_l < n_m)%nat.
Proof.
  unfold leg_rejects.
  repeat match goal with
         | |- context [Nat.ltb ?a ?b] => destruct (Nat.ltb_spec a b)
         | |- context [Nat.leb ?a ?b] => destruct (Nat.leb_spec a b)
         end; split; intros; try lia; try discriminate; auto.
Qed.

Lemma leg_slices_spec m n_l :
  leg_dst_lo m n_l = m /\ leg_dst_hi m n_l = n_l /\ leg_src_lo m n_l = 0%nat /\ leg_src_hi m n_l = (n_l - m)%nat.
Proof. unfold leg_dst_lo, leg_dst_hi, leg_src_lo, leg_src_hi. lia. Qed.

(** evaluate raises ValueError exactly when n_m > n_l; for 1 <= n_m <= n_l the code
    runs through (no IndexError, slices of equal length inside the arrays) *)
Theorem legendre_accepts_spec n_m n_l : legendre_accepts n_m n_l = true <-> (n_m <= n_l)%nat.
Proof.
  unfold legendre_accepts. pose proof (leg_rejects_spec n_m n_l) as H.
  destruct (leg_rejects n_m n_l); cbn; split; intros; try discriminate; auto.
  - assert (n_l < n_m)%nat by now apply H. lia.
  - destruct (Nat.lt_ge_cases n_l n_m) as [Hlt|]; [|assumption]. apply H in Hlt. discriminate.
Qed.

Theorem legendre_defined_spec n_m n_l :
  legendre_defined n_m n_l = true <-> (1 <= n_m)%nat /\ (n_m <= n_l)%nat.
Proof.
  unfold legendre_defined. rewrite !andb_true_iff, Nat.leb_le, legendre_accepts_spec.
  split; [tauto|]. intros [H1 H2]. repeat split; auto.
  unfold legendre_slices_ok. apply forallb_forall. intros m Hm. apply in_seq in Hm.
  destruct (leg_slices_spec m n_l) as (-> & -> & -> & ->).
  rewrite !andb_true_iff, Nat.eqb_eq, !Nat.leb_le. lia.
Qed.

(** numpy's index wrap on the three reads that occur *)
Lemma pyidx_off1 n K : pyidx n (Z.of_nat (S K) + leg_off1) = K.
Proof. unfold pyidx, leg_off1. destruct (Z.ltb_spec (Z.of_nat (S K) + -1) 0); lia. Qed.
Lemma pyidx_off2_S n K : pyidx n (Z.of_nat (S (S K)) + leg_off2) = K.
Proof. unfold pyidx, leg_off2. destruct (Z.ltb_spec (Z.of_nat (S (S K)) + -2) 0); lia. Qed.
Lemma pyidx_off2_1 n : pyidx n (Z.of_nat 1 + leg_off2) = (n - 1)%nat.
Proof. unfold pyidx, leg_off2. change (Z.of_nat 1 + -2)%Z with (-1)%Z. destruct (Z.ltb_spec (-1) 0); lia. Qed.

Section Legendre.
  Context {F : Type} {o : Ops F} {Fc : FieldC o}.
  Add Field FFleg : (field_c : FieldTh o).

  Lemma llit_S n : llit (S n) = llit n + 1 :> F.
  Proof. reflexivity. Qed.
  Lemma llit_add n m : llit (n + m) = llit n + llit m :> F.
  Proof. induction m as [|m IH]. - rewrite Nat.add_0_r. cbn. ring. - rewrite Nat.add_succ_r. cbn. rewrite IH. ring. Qed.

  (** [t = 0] from [E : t' = 0] with t, t' equal as ring expressions *)
  Ltac via E := match type of E with ?l = _ => transitivity l; [ring | exact E] end.

  Lemma llit_lit n : llit n = lit n :> F.
  Proof. induction n as [|n IH]; cbn; [reflexivity|]. now rewrite IH. Qed.
  Lemma f1_neq_0 : (1 : F) <> 0.
  Proof. exact (F_1_neq_0 (field_c : FieldTh o)). Qed.

  (** *** the generated radicands are the intended rational functions.
      [leg_y2]: y^2 = 1 - x^2;  [rad_init] = 2;  [rad_diag m] = 1 + 1/(2m);
      [rad_b m k] = eps^2(m, m+k-1) and [rad_a m k] = 1 / eps^2(m, m+k), where
      eps^2(m, l) = (l^2 - m^2)/(4 l^2 - 1) is [a2_expr 1 l m] of Gen/DerivExprs.v - the square of
      the recurrence weight a[m, l] of Grid._derivative_recurrence_weights (spherical_harmonic.py),
      regenerated from that source: the Legendre recurrence and the derivative recurrences use
      the same eps. *)
  Lemma leg_y2_spec (t : F) : leg_y2 t = 1 - t * t.
  Proof. unfold leg_y2. cbn [llit]. ring. Qed.
  Lemma rad_init_spec : rad_init = 1 + 1 :> F.
  Proof. unfold rad_init. cbn [llit]. ring. Qed.
  Lemma rad_diag_spec (m : F) : rad_diag m = 1 + 1 / ((1 + 1) * m).
  Proof.
    unfold rad_diag. cbn [llit].
    replace (0 + 1 + 1 : F) with (1 + 1 : F) by ring. replace (0 + 1 : F) with (1 : F) by ring. ring.
  Qed.
  (** the update expressions themselves: sign of the diagonal recurrence (Condon-Shortley phase),
      shape of the three-term step, initial value *)
  Lemma leg_steps_spec (sq : F -> F) (m yy pp a b xx p1 p2 : F) :
    leg_diag_step sq m yy pp = - (sq (rad_diag m) * yy * pp) /\
    leg_step a b xx p1 p2 = a * (xx * p1 - b * p2) /\
    leg_init sq pp = pp + 1 / sq rad_init.
  Proof.
    unfold leg_diag_step, leg_step, leg_init. cbn [llit]. replace (0 + 1 : F) with (1 : F) by ring.
    repeat split; ring.
  Qed.
  Lemma rad_b_eps2 (m k : F) : rad_b m k = a2_expr 1 (m + k - 1) m.
  Proof. unfold rad_b, a2_expr. cbv zeta. cbn [llit lit]. f_equal; ring. Qed.
  Lemma div_mul_recip (a b : F) : a <> 0 -> b <> 0 -> (a / b) * (b / a) = 1.
  Proof. intros Ha Hb. field. split; assumption. Qed.
  Lemma rad_a_eps2 (m k : F) :
    lit 4 * ((m + k) * (m + k)) - 1 <> 0 -> (m + k) * (m + k) - m * m <> 0 ->
    rad_a m k * a2_expr 1 (m + k) m = 1.
  Proof.
    intros H1 H2. unfold rad_a, a2_expr. cbv zeta. cbn [llit lit] in *.
    etransitivity; [|exact (div_mul_recip _ _ H1 H2)]. f_equal; f_equal; ring.
  Qed.
  (** hence the coefficient a of degree l+1 is the reciprocal of the coefficient b of degree l+2,
      as soon as the square root is compatible with reciprocals on that radicand *)
  Lemma rad_a_rad_b (m k : F) :
    lit 4 * ((m + k) * (m + k)) - 1 <> 0 -> (m + k) * (m + k) - m * m <> 0 ->
    rad_a m k * rad_b m (k + 1) = 1.
  Proof.
    intros H1 H2. rewrite rad_b_eps2.
    replace (m + (k + 1) - 1) with (m + k) by ring. now apply rad_a_eps2.
  Qed.

  (** sign (-1)^k *)
  Definition sgn (k : nat) : F := if Nat.even k then 1 else - (1).
  Lemma sgn_S k : sgn (S k) = - sgn k.
  Proof. unfold sgn. rewrite Nat.even_succ, <- Nat.negb_even. destruct (Nat.even k); cbn; ring. Qed.
  Lemma sgn_sq k : sgn k * sgn k = 1.
  Proof. unfold sgn. destruct (Nat.even k); ring. Qed.

  Section Tables.
    Variable sq : F -> F.
    Variable nx : nat.
    Variables x y : nat -> F.

    (** *** the recurrence in closed (structurally recursive) form: for fixed order m and
        node i, the pair (r_k, r_{k-1}) with r_{-1} = 0 *)
    Fixpoint rs (m i k : nat) : F * F :=
      match k with
      | O => (leg_diag sq y m i, 0)
      | S k' => let pr := rs m i k' in
                (leg_step (sq (rad_a (llit m) (llit (S k')))) (sq (rad_b (llit m) (llit (S k'))))
                          (x i) (fst pr) (snd pr), fst pr)
      end.
    Definition rk (m i k : nat) : F := fst (rs m i k).

    Lemma rs_snd_S m i k : snd (rs m i (S k)) = rk m i k.
    Proof. reflexivity. Qed.
    Lemma rk_0 m i : rk m i 0 = leg_diag sq y m i.
    Proof. reflexivity. Qed.
    Lemma rk_S m i k :
      rk m i (S k) = leg_step (sq (rad_a (llit m) (llit (S k)))) (sq (rad_b (llit m) (llit (S k))))
                              (x i) (rk m i k) (snd (rs m i k)).
    Proof. reflexivity. Qed.

    (** *** the loop of _evaluate_rhombus computes that recurrence.
        State after the iterations k = 1..K: rows 0..K hold the recurrence on the columns
        m < min(n_m, n_l - k), every other entry is still zero - in particular the row
        n_l - 1 that the first iteration reads as p[k-2] = p[-1]. *)
    Definition rh_state (n_l n_m K : nat) : larr3 :=
      fun k m i => if Nat.leb k K && Nat.ltb m (Nat.min n_m (n_l - k)) then rk m i k else 0.

    Lemma rh_loop_spec n_l n_m : (n_m <= n_l)%nat ->
      forall K, (K = 0 \/ K < n_l)%nat ->
      forall k m i, (i < nx)%nat ->
        rh_loop sq nx x n_l n_m K (rh_init sq y n_m) k m i = rh_state n_l n_m K k m i.
    Proof.
      intros Hml K. induction K as [|K IH]; intros HK k m i Hi.
      - cbn [rh_loop]. unfold rh_init, rh_state.
        destruct (Nat.eqb_spec k 0) as [->|Hk].
        + cbn [Nat.leb andb]. rewrite Nat.sub_0_r, Nat.min_l by assumption.
          destruct (Nat.ltb_spec m n_m); reflexivity.
        + destruct (Nat.leb_spec k 0); [lia|reflexivity].
      - assert (HSK : (S K < n_l)%nat) by lia.
        assert (IH' := IH (or_intror (Nat.lt_succ_l _ _ HSK))). clear IH.
        cbn [rh_loop]. unfold rh_step, rh_set_row.
        destruct (Nat.eqb_spec k (S K)) as [->|Hk].
        + rewrite leg_m_max_spec. unfold rh_state at 1.
          rewrite Nat.leb_refl. cbn [andb].
          destruct (Nat.ltb_spec m (Nat.min n_m (n_l - S K))) as [Hm|Hm].
          * rewrite sh_memo2_ok by assumption.
            rewrite pyidx_off1, (IH' K m i Hi). rewrite rk_S.
            unfold rh_state at 1. rewrite Nat.leb_refl. cbn [andb].
            destruct (Nat.ltb_spec m (Nat.min n_m (n_l - K))); [|lia].
            f_equal.
            destruct K as [|K2].
            -- rewrite pyidx_off2_1, (IH' _ m i Hi). unfold rh_state.
               destruct (Nat.leb_spec (n_l - 1) 0); [lia|reflexivity].
            -- rewrite pyidx_off2_S, (IH' _ m i Hi). unfold rh_state.
               destruct (Nat.leb_spec K2 (S K2)); [|lia]. cbn [andb].
               destruct (Nat.ltb_spec m (Nat.min n_m (n_l - K2))); [|lia].
               now rewrite rs_snd_S.
          * rewrite (IH' (S K) m i Hi). unfold rh_state.
            destruct (Nat.leb_spec (S K) K); [lia|reflexivity].
        + rewrite (IH' k m i Hi). unfold rh_state.
          destruct (Nat.leb_spec k K), (Nat.leb_spec k (S K)); try lia; reflexivity.
    Qed.

    Theorem rhombus_triangle_spec n_l n_m k m i : (n_m <= n_l)%nat -> (i < nx)%nat ->
      rhombus_triangle sq nx x y n_l n_m k m i
      = if Nat.ltb k n_l && Nat.ltb m (Nat.min n_m (n_l - k)) then rk m i k else 0.
    Proof.
      intros Hml Hi. unfold rhombus_triangle.
      rewrite rh_loop_spec by (auto; lia). unfold rh_state.
      destruct (Nat.leb_spec k (n_l - 1)), (Nat.ltb_spec k n_l); try reflexivity; cbn [andb].
      - destruct (Nat.ltb_spec m (Nat.min n_m (n_l - k))); [lia|reflexivity].
      - lia.
    Qed.

    (** _evaluate_rhombus(truncation='triangle') is zero outside the triangle m + k < n_l *)
    Theorem rhombus_triangle_zero n_l n_m k m i : (n_m <= n_l)%nat -> (i < nx)%nat ->
      (n_l <= m + k)%nat \/ (n_m <= m)%nat -> rhombus_triangle sq nx x y n_l n_m k m i = 0.
    Proof.
      intros Hml Hi H. rewrite rhombus_triangle_spec by assumption.
      destruct (Nat.ltb_spec k n_l); [|reflexivity]. cbn [andb].
      destruct (Nat.ltb_spec m (Nat.min n_m (n_l - k))); [lia|reflexivity].
    Qed.

    (** evaluate(n_m, n_l, x)[m, i, l] = r_{l-m} of order m inside m <= l < n_l, m < n_m *)
    Theorem legendre_evaluate_spec n_m n_l m i l : (n_m <= n_l)%nat -> (i < nx)%nat ->
      legendre_evaluate sq nx x y n_m n_l m i l
      = if Nat.ltb m n_m && Nat.leb m l && Nat.ltb l n_l then rk m i (l - m) else 0.
    Proof.
      intros Hml Hi. unfold legendre_evaluate.
      destruct (leg_slices_spec m n_l) as (-> & -> & -> & _).
      destruct (Nat.ltb_spec m n_m); [|reflexivity]. cbn [andb].
      destruct (Nat.leb_spec m l); [|reflexivity]. cbn [andb].
      destruct (Nat.ltb_spec l n_l); [|reflexivity]. cbn [andb Nat.add].
      rewrite rhombus_triangle_spec by assumption.
      destruct (Nat.ltb_spec (l - m) n_l); [|lia]. cbn [andb].
      destruct (Nat.ltb_spec m (Nat.min n_m (n_l - (l - m)))); [reflexivity|lia].
    Qed.

    (** (a) support, exactly as the code zero-fills: below the diagonal, beyond the
        truncation, beyond the orders computed.  No hypothesis at all (not even n_m <= n_l). *)
    Theorem legendre_support n_m n_l m i l :
      (l < m)%nat \/ (n_l <= l)%nat \/ (n_m <= m)%nat -> legendre_evaluate sq nx x y n_m n_l m i l = 0.
    Proof.
      intros H. unfold legendre_evaluate.
      destruct (leg_slices_spec m n_l) as (-> & -> & _ & _).
      destruct (Nat.ltb_spec m n_m); [|reflexivity]. cbn [andb].
      destruct (Nat.leb_spec m l); [|reflexivity]. cbn [andb].
      destruct (Nat.ltb_spec l n_l); [lia|reflexivity].
    Qed.

    (** (b) the (0,0) function is the constant 1 / sqrt(2) *)
    Theorem legendre_p00 n_m n_l i : (1 <= n_m)%nat -> (n_m <= n_l)%nat -> (i < nx)%nat ->
      legendre_evaluate sq nx x y n_m n_l 0%nat i 0%nat = 1 / sq (1 + 1).
    Proof.
      intros H1 Hml Hi. rewrite legendre_evaluate_spec by assumption.
      destruct (Nat.ltb_spec 0 n_m); [|lia]. destruct (Nat.ltb_spec 0 n_l); [|lia].
      cbn [andb Nat.leb Nat.sub]. rewrite rk_0. cbn [leg_diag]. unfold leg_init, rad_init.
      replace (llit 2 : F) with (1 + 1 : F) by (cbn; ring).
      replace (llit 1 : F) with (1 : F) by (cbn; ring).
      generalize (1 / sq (1 + 1)). intros t. ring.
    Qed.

    (** (d) the three-term relation the loop implements, in the code's own coefficients
        a[m,l] = sqrt(rad_a m (l-m)), b[m,l] = sqrt(rad_b m (l-m)):
          x p[m,i,l] = p[m,i,l+1] / a[m,l+1] + b[m,l+1] p[m,i,l-1]      (p[m,i,m-1] := 0) *)
    Theorem legendre_three_term_ab n_m n_l m i l :
      (n_m <= n_l)%nat -> (i < nx)%nat -> (m < n_m)%nat -> (m <= l)%nat -> (l + 1 < n_l)%nat ->
      leg_a sq m (l + 1)%nat <> 0 ->
      x i * legendre_evaluate sq nx x y n_m n_l m i l
      = 1 / leg_a sq m (l + 1)%nat * legendre_evaluate sq nx x y n_m n_l m i (l + 1)%nat
        + leg_b sq m (l + 1)%nat * (if Nat.ltb m l then legendre_evaluate sq nx x y n_m n_l m i (l - 1)%nat else 0).
    Proof.
      intros Hml Hi Hm Hl Hl1 Ha. unfold leg_a, leg_b in *.
      rewrite !legendre_evaluate_spec by assumption.
      destruct (Nat.ltb_spec m n_m); [|lia]. cbn [andb].
      destruct (Nat.leb_spec m l); [|lia]. destruct (Nat.leb_spec m (l + 1)); [|lia].
      destruct (Nat.ltb_spec l n_l); [|lia]. destruct (Nat.ltb_spec (l + 1) n_l); [|lia]. cbn [andb].
      replace (l + 1 - m)%nat with (S (l - m)) in * by lia.
      rewrite rk_S. unfold leg_step.
      destruct (Nat.ltb_spec m l) as [Hlt|Hge].
      - destruct (Nat.leb_spec m (l - 1)); [|lia]. destruct (Nat.ltb_spec (l - 1) n_l); [|lia]. cbn [andb].
        replace (l - m)%nat with (S (l - 1 - m)) in * by lia. rewrite rs_snd_S.
        field. assumption.
      - replace (l - m)%nat with 0%nat in * by lia. cbn [rs snd].
        field. assumption.
    Qed.

    (** (d), normalised form: with eps(m, l) := b[m, l+1] = sqrt((l^2 - m^2)/(4 l^2 - 1))
        (see [rad_b_eps2]) and the reciprocity a[m, l+1] * b[m, l+2] = 1 of the two square roots,
          x p[m,i,l] = eps(m, l+1) p[m,i,l+1] + eps(m, l) p[m,i,l-1]. *)
    Definition leg_eps (m l : nat) : F := leg_b sq m (l + 1)%nat.

    Theorem legendre_three_term_eps n_m n_l m i l :
      (n_m <= n_l)%nat -> (i < nx)%nat -> (m < n_m)%nat -> (m <= l)%nat -> (l + 1 < n_l)%nat ->
      leg_a sq m (l + 1)%nat * leg_b sq m (l + 2)%nat = 1 ->
      x i * legendre_evaluate sq nx x y n_m n_l m i l
      = leg_eps m (l + 1)%nat * legendre_evaluate sq nx x y n_m n_l m i (l + 1)%nat
        + leg_eps m l * (if Nat.ltb m l then legendre_evaluate sq nx x y n_m n_l m i (l - 1)%nat else 0).
    Proof.
      intros Hml Hi Hm Hl Hl1 Hrec.
      assert (Ha : leg_a sq m (l + 1)%nat <> 0).
      { intro E. rewrite E in Hrec. apply f1_neq_0. rewrite <- Hrec. ring. }
      rewrite (legendre_three_term_ab n_m n_l m i l) by assumption.
      unfold leg_eps. replace (l + 1 + 1)%nat with (l + 2)%nat by lia.
      assert (E : 1 / leg_a sq m (l + 1)%nat = leg_b sq m (l + 2)%nat).
      { transitivity (leg_a sq m (l + 1)%nat * leg_b sq m (l + 2)%nat / leg_a sq m (l + 1)%nat).
        - now rewrite Hrec.
        - field. exact Ha. }
      now rewrite E.
    Qed.

    (** eps(m, l)^2 is the closed form of spherical_harmonic.py's recurrence weight a[m, l]^2 *)
    Theorem leg_eps_sq m l : (m <= l)%nat ->
      sq (rad_b (llit m) (llit (l + 1 - m))) * sq (rad_b (llit m) (llit (l + 1 - m))) = rad_b (llit m) (llit (l + 1 - m)) ->
      leg_eps m l * leg_eps m l = a2_expr 1 (lit l) (lit m).
    Proof.
      intros Hml Hsq. unfold leg_eps, leg_b. rewrite Hsq.
      assert (El : llit m + llit (l + 1 - m) - 1 = llit l :> F).
      { replace (l + 1 - m)%nat with ((l - m) + 1)%nat by lia. rewrite llit_add. cbn [llit].
        replace (llit l : F) with (llit (m + (l - m)) : F) by (f_equal; lia). rewrite llit_add. ring. }
      rewrite rad_b_eps2, El. now rewrite !llit_lit.
    Qed.
  End Tables.

  (** (c) PARITY: mirrored nodes (x' = -x, same y) give p'[m,i,l] = (-1)^(l-m) p[m,i,l] *)
  Section Parity.
    Variable sq : F -> F.
    Variable nx : nat.
    Variables x y x' y' : nat -> F.
    Hypothesis Hx : forall i, (i < nx)%nat -> x' i = - x i.
    Hypothesis Hy : forall i, (i < nx)%nat -> y' i = y i.

    Lemma leg_diag_mirror m i : (i < nx)%nat -> leg_diag sq y' m i = leg_diag sq y m i.
    Proof. intros Hi. induction m as [|m IH]; cbn [leg_diag]; [reflexivity|]. now rewrite IH, Hy. Qed.

    Lemma rs_mirror m i k : (i < nx)%nat ->
      fst (rs sq x' y' m i k) = sgn k * fst (rs sq x y m i k) /\
      snd (rs sq x' y' m i k) = - sgn k * snd (rs sq x y m i k).
    Proof.
      intros Hi. induction k as [|k [IH1 IH2]].
      - cbn [rs fst snd]. rewrite leg_diag_mirror by assumption. unfold sgn. cbn. split; ring.
      - cbn [rs fst snd]. rewrite IH1, IH2, Hx by assumption. rewrite sgn_S. unfold leg_step. split; ring.
    Qed.

    Theorem legendre_parity n_m n_l m i l : (n_m <= n_l)%nat -> (i < nx)%nat ->
      legendre_evaluate sq nx x' y' n_m n_l m i l = sgn (l - m) * legendre_evaluate sq nx x y n_m n_l m i l.
    Proof.
      intros Hml Hi. rewrite !legendre_evaluate_spec by assumption.
      destruct (Nat.ltb m n_m && Nat.leb m l && Nat.ltb l n_l); [|ring].
      unfold rk. now destruct (rs_mirror m i (l - m) Hi) as [-> _].
    Qed.
  End Parity.
End Legendre.
