(** Theorems about the sharded code paths (property C07): for every ring/field,
    every ring size n (1 or even), every chunk size and all data. *)
From Dino Require Import Base.Ops Base.Sums Base.Ord Model.Sigma Thm.Sigma Model.Sharding.
Local Open Scope F_scope.

(** * Modular arithmetic of the ring of devices *)
Section ModLemmas.
  Lemma pymod_lt n z : (0 < n)%nat -> (pymod n z < n)%nat.
  Proof.
    intros Hn. unfold pymod.
    assert (H : (0 <= z mod Z.of_nat n < Z.of_nat n)%Z) by (apply Z.mod_pos_bound; lia).
    lia.
  Qed.

  Lemma pymod_decomp n z : (0 < n)%nat -> exists q : Z, z = (Z.of_nat (pymod n z) + q * Z.of_nat n)%Z.
  Proof.
    intros Hn. exists (z / Z.of_nat n)%Z. unfold pymod.
    assert (H : (0 <= z mod Z.of_nat n < Z.of_nat n)%Z) by (apply Z.mod_pos_bound; lia).
    rewrite Z2Nat.id by lia.
    pose proof (Z.div_mod z (Z.of_nat n) ltac:(lia)) as E. lia.
  Qed.

  Lemma pymod_cong n a (m : nat) (k : Z) :
    (0 < n)%nat -> a = (Z.of_nat m + k * Z.of_nat n)%Z -> pymod n a = (m mod n)%nat.
  Proof.
    intros Hn ->. unfold pymod. rewrite Z.mod_add by lia.
    rewrite <- Nat2Z.inj_mod. apply Nat2Z.id.
  Qed.

  Lemma pymod_small n d : (d < n)%nat -> pymod n (Z.of_nat d) = d.
  Proof.
    intros Hd. rewrite (pymod_cong n _ d 0) by lia. now apply Nat.mod_small.
  Qed.

  Lemma pymod_idem n a b : (0 < n)%nat -> pymod n (Z.of_nat (pymod n a) + b) = pymod n (a + b).
  Proof.
    intros Hn. destruct (pymod_decomp n a Hn) as [q Hq].
    unfold pymod at 1 3. f_equal.
    rewrite Hq at 2.
    replace (Z.of_nat (pymod n a) + q * Z.of_nat n + b)%Z
      with (Z.of_nat (pymod n a) + b + q * Z.of_nat n)%Z by lia.
    now rewrite Z.mod_add by lia.
  Qed.

  Lemma find_unique (p : nat -> bool) l s0 :
    In s0 l -> p s0 = true -> (forall s, In s l -> p s = true -> s = s0) -> find p l = Some s0.
  Proof.
    induction l as [|x l IH]; intros Hin Hp Hu; [destruct Hin|].
    cbn. destruct (p x) eqn:E.
    - f_equal. apply Hu; [now left|exact E].
    - destruct Hin as [->|Hin]; [congruence|].
      apply IH; auto. intros s Hs. apply Hu. now right.
  Qed.

  (** after a forward rotation device d holds what device d-1 had; backward: d+1 *)
  Lemma ppermute_fwd_eq {T} n (zero : T) (x : nat -> T) d :
    (d < n)%nat -> ppermute n zero (perm_fwd n) x d = x (pymod n (Z.of_nat d - 1)).
  Proof.
    intros Hd. assert (Hn : (0 < n)%nat) by lia. unfold ppermute.
    rewrite (find_unique _ _ (pymod n (Z.of_nat d - 1))); [reflexivity| | |].
    - apply in_seq. pose proof (pymod_lt n (Z.of_nat d - 1) Hn). lia.
    - apply Nat.eqb_eq. unfold perm_fwd. rewrite pymod_idem by lia.
      replace (Z.of_nat d - 1 + 1)%Z with (Z.of_nat d) by lia. now apply pymod_small.
    - intros s Hs E. apply in_seq in Hs. apply Nat.eqb_eq in E. unfold perm_fwd in E.
      rewrite <- E.
      replace (Z.of_nat (pymod n (Z.of_nat s + 1)) - 1)%Z with (Z.of_nat (pymod n (Z.of_nat s + 1)) + (-1))%Z by lia.
      rewrite pymod_idem by lia.
      replace (Z.of_nat s + 1 + -1)%Z with (Z.of_nat s) by lia.
      symmetry. apply pymod_small. lia.
  Qed.

  Lemma ppermute_bwd_eq {T} n (zero : T) (x : nat -> T) d :
    (d < n)%nat -> ppermute n zero (perm_bwd n) x d = x (pymod n (Z.of_nat d + 1)).
  Proof.
    intros Hd. assert (Hn : (0 < n)%nat) by lia. unfold ppermute.
    rewrite (find_unique _ _ (pymod n (Z.of_nat d + 1))); [reflexivity| | |].
    - apply in_seq. pose proof (pymod_lt n (Z.of_nat d + 1) Hn). lia.
    - apply Nat.eqb_eq. unfold perm_bwd.
      replace (Z.of_nat (pymod n (Z.of_nat d + 1)) - 1)%Z with (Z.of_nat (pymod n (Z.of_nat d + 1)) + (-1))%Z by lia.
      rewrite pymod_idem by lia.
      replace (Z.of_nat d + 1 + -1)%Z with (Z.of_nat d) by lia. now apply pymod_small.
    - intros s Hs E. apply in_seq in Hs. apply Nat.eqb_eq in E. unfold perm_bwd in E.
      rewrite <- E. rewrite pymod_idem by lia.
      replace (Z.of_nat s - 1 + 1)%Z with (Z.of_nat s) by lia.
      symmetry. apply pymod_small. lia.
  Qed.

  Lemma gather_block {T} c (x : nat -> nat -> T) q j :
    (j < c)%nat -> all_gather_tiled c x (q * c + j)%nat = x q j.
  Proof.
    intros Hj. unfold all_gather_tiled.
    assert (E1 : ((q * c + j) / c = q)%nat).
    { rewrite Nat.div_add_l by lia. rewrite (Nat.div_small j c Hj). lia. }
    assert (E2 : ((q * c + j) mod c = j)%nat).
    { replace (q * c + j)%nat with (j + q * c)%nat by lia.
      rewrite Nat.mod_add by lia. now apply Nat.mod_small. }
    now rewrite E1, E2.
  Qed.
End ModLemmas.

Section SumLemmas.
  Context {F : Type} {o : Ops F} {Fc : FieldC o}.
  Add Field FFsh : (field_c : FieldTh o).

  Lemma sumn_blocks n c (f : nat -> F) :
    sumn (n * c) f = sumn n (fun q => sumn c (fun j => f (q * c + j)%nat)).
  Proof.
    induction n as [|n IH]; [reflexivity|].
    rewrite Nat.mul_succ_l, sumn_split, IH. reflexivity.
  Qed.

  (** a sum over one full turn of the ring does not depend on the start *)
  Lemma sumn_rot n (G : nat -> F) s :
    (0 < n)%nat -> sumn n (fun t => G ((s + t) mod n)%nat) = sumn n G.
  Proof.
    intros Hn. induction s as [|s IH].
    - apply sumn_ext. intros t Ht. cbn. now rewrite Nat.mod_small.
    - set (H := fun t => G ((s + t) mod n)%nat) in *.
      rewrite (sumn_ext n _ (fun t => H (S t))).
      2:{ intros t _. unfold H. f_equal. f_equal. lia. }
      pose proof (sumn_S_first n H) as E. change (sumn (S n) H) with (sumn n H + H n) in E.
      assert (E2 : H n = H 0%nat).
      { unfold H. f_equal. rewrite Nat.add_0_r.
        replace (s + n)%nat with (s + 1 * n)%nat by lia. now rewrite Nat.mod_add by lia. }
      rewrite E2 in E. rewrite <- IH.
      assert (E3 : sumn n (fun t => H (S t)) = (H 0%nat + sumn n (fun t => H (S t))) - H 0%nat) by ring.
      rewrite E3, <- E. ring.
  Qed.

  (** the chunks visited by the two directions (h backwards from z, h forwards
      from z+1) are exactly all n = 2h chunks *)
  Lemma two_way_cover h (G : nat -> F) (z : Z) :
    (0 < h)%nat ->
    sumn h (fun t => G (pymod (2 * h) (z - Z.of_nat t)))
    + sumn h (fun t => G (pymod (2 * h) (z + 1 + Z.of_nat t)))
    = sumn (2 * h) G.
  Proof.
    intros Hh. set (n := (2 * h)%nat). assert (Hn : (0 < n)%nat) by (unfold n; lia).
    destruct (pymod_decomp n z Hn) as [q Hq].
    set (r := pymod n z) in *.
    set (s := (r + h + 1)%nat).
    set (K := fun t => G ((s + t) mod n)%nat).
    rewrite (sumn_ext h _ (fun t => K (h - 1 - t)%nat)).
    2:{ intros t Ht. unfold K. f_equal.
        apply (pymod_cong n _ _ (q - 1)%Z Hn). unfold s, n in *. lia. }
    rewrite <- (sumn_rev h K).
    rewrite (sumn_ext h (fun t => G (pymod n (z + 1 + Z.of_nat t))) (fun t => K (h + t)%nat)).
    2:{ intros t Ht. unfold K. f_equal.
        apply (pymod_cong n _ _ (q - 1)%Z Hn). unfold s, n in *. lia. }
    rewrite <- (sumn_split h h K).
    replace (h + h)%nat with n by (unfold n; lia).
    unfold K. now apply sumn_rot.
  Qed.

  Lemma chunk_matmul_eq rev len (l r : nat -> F) :
    chunk_matmul rev len l r = sumn len (fun j => l j * r j).
  Proof. unfold chunk_matmul. apply sumn_ext. intros j _. destruct rev; ring. Qed.
End SumLemmas.

(** * [_parallel_dot_cumsum] = prefix / suffix sums of the concatenated data *)
Section ParCumsumThm.
  Context {F : Type} {o : Ops F} {Fc : FieldC o}.
  Add Field FFpc : (field_c : FieldTh o).

  Lemma pc_loop_sum c rv (x : nat -> nat -> F) d k total :
    pc_loop c rv x d k total
    = total + sumn k (fun k' => ind (pc_op rv (pc_index rv k') d) * pc_sums c rv x (pc_index rv k')).
  Proof.
    induction k as [|k IH]; cbn [pc_loop sumn]; [ring|]. rewrite IH. ring.
  Qed.

  Lemma cumsum_dot_full c (y : nat -> F) : cumsum_dot c y (c - 1) = sumn c y.
  Proof.
    unfold cumsum_dot. apply sumn_ext. intros i Hi.
    destruct (Nat.leb_spec i (c - 1)); [cbn; ring|lia].
  Qed.

  Lemma pc_sums_fwd c (x : nat -> nat -> F) e : pc_sums c false x e = sumn c (x e).
  Proof.
    unfold pc_sums, all_gather_tiled, pc_last_partial, pc_partials.
    rewrite Nat.div_1_r. apply cumsum_dot_full.
  Qed.

  Lemma pc_sums_rev c (x : nat -> nat -> F) e : pc_sums c true x e = sumn c (x e).
  Proof.
    unfold pc_sums, all_gather_tiled, pc_last_partial, pc_partials.
    rewrite Nat.div_1_r. apply revcumsum_dot_first.
  Qed.

  Lemma sumn_delta_const n k (v : F) : (k < n)%nat -> sumn n (fun e => delta k e * v) = v.
  Proof. intros Hk. now rewrite (sumn_delta_l n k (fun _ => v) Hk). Qed.

  Theorem parallel_cumsum_fwd n c (x : nat -> nat -> F) d j :
    (d < n)%nat -> (j < c)%nat ->
    parallel_dot_cumsum n c false x d j = cumsum_dot (n * c) (all_gather_tiled c x) (d * c + j).
  Proof.
    intros Hd Hj. unfold parallel_dot_cumsum. rewrite pc_loop_sum.
    unfold cumsum_dot. rewrite sumn_blocks.
    set (T := fun e => sumn c (x e)).
    rewrite (sumn_ext n _ (fun e => (if Nat.ltb e d then T e else 0) + delta d e * cumsum_dot c (x d) j)).
    2:{ intros e He. unfold delta, T.
        destruct (Nat.ltb_spec e d) as [Hlt|Hge]; destruct (Nat.eqb_spec d e) as [He2|Hne]; try lia.
        - rewrite <- (sumn_ext c (fun i => ind (Nat.leb (e * c + i) (d * c + j)) * all_gather_tiled c x (e * c + i)%nat) (x e)).
          + ring.
          + intros i Hi. rewrite gather_block by lia.
            destruct (Nat.leb_spec (e * c + i) (d * c + j)); [cbn; ring|nia].
        - subst e. unfold cumsum_dot.
          rewrite (sumn_ext c (fun i => ind (Nat.leb (d * c + i) (d * c + j)) * all_gather_tiled c x (d * c + i)%nat)
                            (fun i => ind (Nat.leb i j) * x d i)).
          + ring.
          + intros i Hi. rewrite gather_block by lia.
            destruct (Nat.leb_spec (d * c + i) (d * c + j)), (Nat.leb_spec i j); try lia; reflexivity.
        - rewrite sumn_zero; [ring|].
          intros i Hi. destruct (Nat.leb_spec (e * c + i) (d * c + j)); [nia|cbn; ring]. }
    rewrite sumn_add, sumn_prefix_mask by lia. rewrite sumn_delta_const by lia.
    rewrite (sumn_ext (n - 1) _ (fun k => if Nat.ltb k d then T k else 0)).
    2:{ intros k Hk. cbn [pc_index pc_op]. rewrite pc_sums_fwd. unfold T.
        destruct (Nat.ltb k d); cbn; ring. }
    rewrite sumn_prefix_mask by lia. unfold pc_partials. ring.
  Qed.

  Theorem parallel_cumsum_rev n c (x : nat -> nat -> F) d j :
    (d < n)%nat -> (j < c)%nat ->
    parallel_dot_cumsum n c true x d j = revcumsum_dot (n * c) (all_gather_tiled c x) (d * c + j).
  Proof.
    intros Hd Hj. unfold parallel_dot_cumsum. rewrite pc_loop_sum.
    unfold revcumsum_dot. rewrite sumn_blocks.
    set (T := fun e => sumn c (x e)).
    set (G := fun e => if Nat.ltb d e then T e else 0).
    rewrite (sumn_ext n _ (fun e => G e + delta d e * revcumsum_dot c (x d) j)).
    2:{ intros e He. unfold delta, G, T.
        destruct (Nat.ltb_spec d e) as [Hlt|Hge]; destruct (Nat.eqb_spec d e) as [He2|Hne]; try lia.
        - rewrite <- (sumn_ext c (fun i => ind (Nat.leb (d * c + j) (e * c + i)) * all_gather_tiled c x (e * c + i)%nat) (x e)).
          + ring.
          + intros i Hi. rewrite gather_block by lia.
            destruct (Nat.leb_spec (d * c + j) (e * c + i)); [cbn; ring|nia].
        - subst e. unfold revcumsum_dot.
          rewrite (sumn_ext c (fun i => ind (Nat.leb (d * c + j) (d * c + i)) * all_gather_tiled c x (d * c + i)%nat)
                            (fun i => ind (Nat.leb j i) * x d i)).
          + ring.
          + intros i Hi. rewrite gather_block by lia.
            destruct (Nat.leb_spec (d * c + j) (d * c + i)), (Nat.leb_spec j i); try lia; reflexivity.
        - rewrite sumn_zero; [ring|].
          intros i Hi. destruct (Nat.leb_spec (d * c + j) (e * c + i)); [nia|cbn; ring]. }
    rewrite sumn_add. rewrite sumn_delta_const by lia.
    replace n with (S (n - 1)) at 2 by lia.
    rewrite (sumn_S_first (n - 1) G).
    assert (G0 : G 0%nat = 0) by (unfold G; destruct (Nat.ltb_spec d 0); [lia|reflexivity]).
    rewrite G0.
    rewrite (sumn_ext (n - 1) (fun k' => ind (pc_op true (pc_index true k') d) * pc_sums c true x (pc_index true k'))
                      (fun k => G (S k))).
    2:{ intros k Hk. cbn [pc_index pc_op]. rewrite pc_sums_rev. unfold G, T.
        change (1 + k)%nat with (S k). destruct (Nat.ltb d (S k)); cbn; ring. }
    unfold pc_partials. ring.
  Qed.
End ParCumsumThm.

(** * [_allgather_matmul_twoway] *)
Section AllGatherThm.
  Context {F : Type} {o : Ops F} {Fc : FieldC o}.
  Add Field FFag : (field_c : FieldTh o).
  Variables (h c : nat) (rev : bool) (lhs : nat -> nat -> nat -> F) (rhs : nat -> nat -> F).
  Hypothesis Hh : (0 < h)%nat.
  Let n := (2 * h)%nat.

  (** product of chunk [q] of the coefficients of device d with shard [q] *)
  Definition ag_M (d a q : nat) : F :=
    chunk_matmul rev c (fun j => lhs d a (q * c + j)%nat) (rhs q).

  Lemma ag_ic_eq d i (rf rb : nat -> F) a :
    rf = rhs (pymod n (Z.of_nat d - Z.of_nat i)) ->
    rb = rhs (pymod n (Z.of_nat d + 1 + Z.of_nat i)) ->
    ag_indexed_computation n c rev lhs d i rf rb a
    = ag_M d a (pymod n (Z.of_nat d - Z.of_nat i)) + ag_M d a (pymod n (Z.of_nat d + 1 + Z.of_nat i)).
  Proof.
    intros -> ->. unfold ag_indexed_computation, ag_M, ag_get_lhs_chunk, ag_chunk_index.
    replace (Z.of_nat d + - Z.of_nat i)%Z with (Z.of_nat d - Z.of_nat i)%Z by lia.
    replace (Z.of_nat d + (Z.of_nat i + 1))%Z with (Z.of_nat d + 1 + Z.of_nat i)%Z by lia.
    reflexivity.
  Qed.

  (** Invariant of the [fori_loop]: after the iterations i = 1..k device d
      holds shard d-k in [rhs_fwd], shard d+1+k in [rhs_bwd], and has
      accumulated the chunks d-k..d and d+1..d+1+k. *)
  Lemma ag_invariant k :
    (k < h)%nat ->
    let s := fori_iter 1 k (ag_body n c rev lhs) (ag_init n c rev lhs rhs) in
    (forall d, (d < n)%nat -> ag_fwd s d = rhs (pymod n (Z.of_nat d - Z.of_nat k))) /\
    (forall d, (d < n)%nat -> ag_bwd s d = rhs (pymod n (Z.of_nat d + 1 + Z.of_nat k))) /\
    (forall d a, (d < n)%nat ->
       ag_acc s d a = sumn (S k) (fun t => ag_M d a (pymod n (Z.of_nat d - Z.of_nat t))
                                         + ag_M d a (pymod n (Z.of_nat d + 1 + Z.of_nat t)))).
  Proof.
    assert (Hn : (0 < n)%nat) by (unfold n; lia).
    induction k as [|k IH]; intros Hk.
    - cbn [fori_iter]. unfold ag_init. cbn [ag_fwd ag_bwd ag_acc]. repeat split.
      + intros d Hd. f_equal. rewrite Z.sub_0_r. symmetry. now apply pymod_small.
      + intros d Hd. rewrite ppermute_bwd_eq by exact Hd. f_equal. f_equal. cbn. lia.
      + intros d a Hd. cbn [sumn]. rewrite ppermute_bwd_eq by exact Hd.
        rewrite (ag_ic_eq d 0 _ _ a); [ring| |].
        * f_equal. rewrite Z.sub_0_r. symmetry. now apply pymod_small.
        * f_equal. f_equal. lia.
    - specialize (IH ltac:(lia)). cbn zeta in IH. destruct IH as (IHf & IHb & IHa).
      cbn [fori_iter]. set (s := fori_iter 1 k (ag_body n c rev lhs) (ag_init n c rev lhs rhs)) in *.
      unfold ag_body. cbn [ag_fwd ag_bwd ag_acc].
      assert (Ef : forall d, (d < n)%nat ->
                 ppermute n zshard (perm_fwd n) (ag_fwd s) d = rhs (pymod n (Z.of_nat d - Z.of_nat (S k)))).
      { intros d Hd. rewrite ppermute_fwd_eq by exact Hd.
        rewrite IHf by (apply pymod_lt; exact Hn). f_equal.
        replace (Z.of_nat (pymod n (Z.of_nat d - 1)) - Z.of_nat k)%Z
          with (Z.of_nat (pymod n (Z.of_nat d - 1)) + (- Z.of_nat k))%Z by lia.
        rewrite pymod_idem by exact Hn. f_equal. lia. }
      assert (Eb : forall d, (d < n)%nat ->
                 ppermute n zshard (perm_bwd n) (ag_bwd s) d = rhs (pymod n (Z.of_nat d + 1 + Z.of_nat (S k)))).
      { intros d Hd. rewrite ppermute_bwd_eq by exact Hd.
        rewrite IHb by (apply pymod_lt; exact Hn). f_equal.
        replace (Z.of_nat (pymod n (Z.of_nat d + 1)) + 1 + Z.of_nat k)%Z
          with (Z.of_nat (pymod n (Z.of_nat d + 1)) + (1 + Z.of_nat k))%Z by lia.
        rewrite pymod_idem by exact Hn. f_equal. lia. }
      repeat split; [exact Ef|exact Eb|].
      intros d a Hd. rewrite IHa by exact Hd. rewrite Ef, Eb by exact Hd.
      change (sumn (S (S k)) ?f) with (sumn (S k) f + f (S k)).
      f_equal. change (1 + k)%nat with (S k). now apply ag_ic_eq.
  Qed.

  Lemma ag_sum_chunks d a :
    sumn n (ag_M d a) = sumn (n * c) (fun j => lhs d a j * all_gather_tiled c rhs j).
  Proof.
    rewrite sumn_blocks. apply sumn_ext. intros q Hq. unfold ag_M.
    rewrite chunk_matmul_eq. apply sumn_ext. intros j Hj. now rewrite gather_block.
  Qed.

  Lemma allgather_even_correct :
    exists out, allgather_matmul_twoway n c rev lhs rhs = Some out /\
      forall d a, (d < n)%nat ->
        out d a = sumn (n * c) (fun j => lhs d a j * all_gather_tiled c rhs j).
  Proof.
    unfold allgather_matmul_twoway.
    assert (E1 : Nat.eqb n 1 = false) by (apply Nat.eqb_neq; unfold n; lia).
    assert (E2 : Nat.eqb (n mod 2) 1 = false).
    { apply Nat.eqb_neq. unfold n. rewrite Nat.mul_comm, Nat.mod_mul by lia. lia. }
    assert (E3 : (n / 2 = h)%nat) by (unfold n; rewrite Nat.mul_comm; apply Nat.div_mul; lia).
    rewrite E1, E2, E3. eexists. split; [reflexivity|].
    intros d a Hd. unfold fori_loop.
    destruct (ag_invariant (h - 1) ltac:(lia)) as (_ & _ & Ha).
    rewrite Ha by exact Hd. replace (S (h - 1)) with h by lia.
    rewrite sumn_add. unfold n. rewrite (two_way_cover h (ag_M d a) (Z.of_nat d) Hh).
    apply ag_sum_chunks.
  Qed.
End AllGatherThm.

Section AllGatherMain.
  Context {F : Type} {o : Ops F} {Fc : FieldC o}.
  Add Field FFag2 : (field_c : FieldTh o).

  (** for n = 1 and every even n >= 2: every device obtains the full
      contraction of its coefficient block with the concatenated input *)
  Theorem allgather_twoway_correct n c rev (lhs : nat -> nat -> nat -> F) (rhs : nat -> nat -> F) :
    (n = 1 \/ (0 < n /\ n mod 2 = 0))%nat ->
    exists out, allgather_matmul_twoway n c rev lhs rhs = Some out /\
      forall d a, (d < n)%nat ->
        out d a = sumn (n * c) (fun j => lhs d a j * all_gather_tiled c rhs j).
  Proof.
    intros [->|[Hn He]].
    - unfold allgather_matmul_twoway. cbn [Nat.eqb]. eexists. split; [reflexivity|].
      intros d a Hd. assert (d = 0)%nat by lia. subst d.
      rewrite chunk_matmul_eq. rewrite Nat.mul_1_l. apply sumn_ext. intros j Hj.
      f_equal. change j with (0 * c + j)%nat at 2. now rewrite gather_block.
    - assert (E : n = (2 * (n / 2))%nat).
      { pose proof (Nat.div_mod n 2 ltac:(lia)). lia. }
      rewrite E. apply allgather_even_correct. lia.
  Qed.

  Theorem allgather_odd_rejected n c rev (lhs : nat -> nat -> nat -> F) (rhs : nat -> nat -> F) :
    (1 < n)%nat -> (n mod 2 = 1)%nat -> allgather_matmul_twoway n c rev lhs rhs = None.
  Proof.
    intros Hn Ho. unfold allgather_matmul_twoway.
    destruct (Nat.eqb_spec n 1); [lia|]. now rewrite Ho.
  Qed.
End AllGatherMain.

(** * [_matmul_reducescatter_twoway] *)
Section ReduceScatterThm.
  Context {F : Type} {o : Ops F} {Fc : FieldC o}.
  Add Field FFrs : (field_c : FieldTh o).
  Variables (h c cj : nat) (rev : bool) (lhs : nat -> nat -> nat -> F) (rhs : nat -> nat -> F).
  Hypothesis Hh : (0 < h)%nat.
  Let n := (2 * h)%nat.

  (** partial product of device [e] for the output chunk [q], row [a] of the chunk *)
  Definition rs_P (e q a : nat) : F := chunk_matmul rev cj (lhs e (q * c + a)%nat) (rhs e).

  Lemma rs_half : (n / 2 = h)%nat.
  Proof. unfold n. rewrite Nat.mul_comm. apply Nat.div_mul. lia. Qed.

  Lemma rs_ic_eq d (i : Z) a :
    rs_indexed_computation n c cj rev lhs rhs d i a
    = rs_P d (pymod n (Z.of_nat d + Z.of_nat h + i)) a.
  Proof. unfold rs_indexed_computation, rs_chunk_index, rs_P. now rewrite rs_half. Qed.

  (** Invariant: after the iterations i = 1..k, [accum_fwd] on device d holds the
      partial products of devices d-k..d for output chunk d+h-k, and
      [accum_bwd] those of devices d..d+k for chunk d+h+k+1. *)
  Lemma rs_invariant k :
    (k < h)%nat ->
    let s := fori_iter 1 k (rs_body n c cj rev lhs rhs) (rs_init n c cj rev lhs rhs) in
    (forall d a, (d < n)%nat ->
       rs_fwd s d a = sumn (S k) (fun t => rs_P (pymod n (Z.of_nat d - Z.of_nat t))
                                             (pymod n (Z.of_nat d + Z.of_nat h - Z.of_nat k)) a)) /\
    (forall d a, (d < n)%nat ->
       rs_bwd s d a = sumn (S k) (fun t => rs_P (pymod n (Z.of_nat d + Z.of_nat t))
                                             (pymod n (Z.of_nat d + Z.of_nat h + Z.of_nat k + 1)) a)).
  Proof.
    assert (Hn : (0 < n)%nat) by (unfold n; lia).
    induction k as [|k IH]; intros Hk.
    - cbn [fori_iter]. unfold rs_init. cbn [rs_fwd rs_bwd sumn]. split; intros d a Hd.
      + rewrite rs_ic_eq. change (Z.of_nat 0) with 0%Z. rewrite !Z.sub_0_r, !Z.add_0_r, (pymod_small n d Hd). ring.
      + rewrite rs_ic_eq. change (Z.of_nat 0) with 0%Z. rewrite !Z.add_0_r, (pymod_small n d Hd). ring.
    - specialize (IH ltac:(lia)). cbn zeta in IH. destruct IH as (IHf & IHb).
      cbn [fori_iter]. set (s := fori_iter 1 k (rs_body n c cj rev lhs rhs) (rs_init n c cj rev lhs rhs)) in *.
      unfold rs_body. cbn [rs_fwd rs_bwd]. split; intros d a Hd.
      + rewrite ppermute_fwd_eq by exact Hd. rewrite IHf by (apply pymod_lt; exact Hn).
        rewrite rs_ic_eq.
        rewrite (sumn_S_first (S k)).
        rewrite Z.sub_0_r, (pymod_small n d Hd).
        replace (Z.of_nat d + Z.of_nat h + - Z.of_nat (1 + k))%Z
          with (Z.of_nat d + Z.of_nat h - Z.of_nat (S k))%Z by lia.
        rewrite (sumn_ext (S k) (fun t => rs_P (pymod n (Z.of_nat (pymod n (Z.of_nat d - 1)) - Z.of_nat t))
                                            (pymod n (Z.of_nat (pymod n (Z.of_nat d - 1)) + Z.of_nat h - Z.of_nat k)) a)
                          (fun t => rs_P (pymod n (Z.of_nat d - Z.of_nat (S t)))
                                         (pymod n (Z.of_nat d + Z.of_nat h - Z.of_nat (S k))) a)).
        * ring.
        * intros t Ht. f_equal.
          -- replace (Z.of_nat (pymod n (Z.of_nat d - 1)) - Z.of_nat t)%Z
               with (Z.of_nat (pymod n (Z.of_nat d - 1)) + (- Z.of_nat t))%Z by lia.
             rewrite pymod_idem by exact Hn. f_equal. lia.
          -- replace (Z.of_nat (pymod n (Z.of_nat d - 1)) + Z.of_nat h - Z.of_nat k)%Z
               with (Z.of_nat (pymod n (Z.of_nat d - 1)) + (Z.of_nat h - Z.of_nat k))%Z by lia.
             rewrite pymod_idem by exact Hn. f_equal. lia.
      + rewrite ppermute_bwd_eq by exact Hd. rewrite IHb by (apply pymod_lt; exact Hn).
        rewrite rs_ic_eq.
        rewrite (sumn_S_first (S k)).
        rewrite Z.add_0_r, (pymod_small n d Hd).
        replace (Z.of_nat d + Z.of_nat h + (Z.of_nat (1 + k) + 1))%Z
          with (Z.of_nat d + Z.of_nat h + Z.of_nat (S k) + 1)%Z by lia.
        rewrite (sumn_ext (S k) (fun t => rs_P (pymod n (Z.of_nat (pymod n (Z.of_nat d + 1)) + Z.of_nat t))
                                            (pymod n (Z.of_nat (pymod n (Z.of_nat d + 1)) + Z.of_nat h + Z.of_nat k + 1)) a)
                          (fun t => rs_P (pymod n (Z.of_nat d + Z.of_nat (S t)))
                                         (pymod n (Z.of_nat d + Z.of_nat h + Z.of_nat (S k) + 1)) a)).
        * ring.
        * intros t Ht. f_equal.
          -- rewrite pymod_idem by exact Hn. f_equal. lia.
          -- replace (Z.of_nat (pymod n (Z.of_nat d + 1)) + Z.of_nat h + Z.of_nat k + 1)%Z
               with (Z.of_nat (pymod n (Z.of_nat d + 1)) + (Z.of_nat h + Z.of_nat k + 1))%Z by lia.
             rewrite pymod_idem by exact Hn. f_equal. lia.
  Qed.

  Lemma reducescatter_even_correct :
    exists out, matmul_reducescatter_twoway n c cj rev lhs rhs = Some out /\
      forall d a, (d < n)%nat ->
        out d a = sumn (n * cj) (fun g => all_gather_tiled cj (fun e j => lhs e (d * c + a)%nat j) g
                                          * all_gather_tiled cj rhs g).
  Proof.
    assert (Hn : (0 < n)%nat) by (unfold n; lia).
    unfold matmul_reducescatter_twoway.
    assert (E1 : Nat.eqb n 1 = false) by (apply Nat.eqb_neq; unfold n; lia).
    assert (E2 : Nat.eqb (n mod 2) 1 = false).
    { apply Nat.eqb_neq. unfold n. rewrite Nat.mul_comm, Nat.mod_mul by lia. lia. }
    rewrite E1, E2, rs_half. eexists. split; [reflexivity|].
    intros d a Hd. unfold fori_loop.
    destruct (rs_invariant (h - 1) ltac:(lia)) as (Hf & Hb).
    rewrite ppermute_fwd_eq by exact Hd.
    rewrite Hf by (apply pymod_lt; exact Hn). rewrite Hb by exact Hd.
    replace (S (h - 1)) with h by lia.
    set (G := fun e => rs_P e d a).
    rewrite (sumn_ext h _ (fun t => G (pymod (2 * h) ((Z.of_nat d - 1) - Z.of_nat t)))).
    2:{ intros t Ht. unfold G. f_equal.
        - replace (Z.of_nat (pymod n (Z.of_nat d - 1)) - Z.of_nat t)%Z
            with (Z.of_nat (pymod n (Z.of_nat d - 1)) + (- Z.of_nat t))%Z by lia.
          rewrite pymod_idem by exact Hn. f_equal; lia.
        - replace (Z.of_nat (pymod n (Z.of_nat d - 1)) + Z.of_nat h - Z.of_nat (h - 1))%Z
            with (Z.of_nat (pymod n (Z.of_nat d - 1)) + (Z.of_nat h - Z.of_nat (h - 1)))%Z by lia.
          rewrite pymod_idem by exact Hn.
          rewrite (pymod_cong n _ d 0%Z Hn) by lia. now apply Nat.mod_small. }
    rewrite (sumn_ext h (fun t => rs_P (pymod n (Z.of_nat d + Z.of_nat t))
                                      (pymod n (Z.of_nat d + Z.of_nat h + Z.of_nat (h - 1) + 1)) a)
                      (fun t => G (pymod (2 * h) ((Z.of_nat d - 1) + 1 + Z.of_nat t)))).
    2:{ intros t Ht. unfold G. f_equal.
        - f_equal. lia.
        - rewrite (pymod_cong n _ d 1%Z Hn) by (unfold n; lia). now apply Nat.mod_small. }
    rewrite (two_way_cover h G (Z.of_nat d - 1) Hh).
    fold n. rewrite sumn_blocks. apply sumn_ext. intros e He. unfold G, rs_P.
    rewrite chunk_matmul_eq. apply sumn_ext. intros j Hj.
    rewrite !gather_block by exact Hj. reflexivity.
  Qed.
End ReduceScatterThm.

Section ReduceScatterMain.
  Context {F : Type} {o : Ops F} {Fc : FieldC o}.
  Add Field FFrs2 : (field_c : FieldTh o).

  (** device d ends with rows [d*c, (d+1)*c) of the full product: the sum over
      ALL devices' reduced-axis blocks *)
  Theorem reducescatter_twoway_correct n c cj rev (lhs : nat -> nat -> nat -> F) (rhs : nat -> nat -> F) :
    (n = 1 \/ (0 < n /\ n mod 2 = 0))%nat ->
    exists out, matmul_reducescatter_twoway n c cj rev lhs rhs = Some out /\
      forall d a, (d < n)%nat ->
        out d a = sumn (n * cj) (fun g => all_gather_tiled cj (fun e j => lhs e (d * c + a)%nat j) g
                                          * all_gather_tiled cj rhs g).
  Proof.
    intros [->|[Hn He]].
    - unfold matmul_reducescatter_twoway. cbn [Nat.eqb]. eexists. split; [reflexivity|].
      intros d a Hd. assert (d = 0)%nat by lia. subst d.
      rewrite chunk_matmul_eq. rewrite Nat.mul_1_l. apply sumn_ext. intros j Hj.
      change j with (0 * cj + j)%nat at 3 4. now rewrite !gather_block.
    - assert (E : n = (2 * (n / 2))%nat).
      { pose proof (Nat.div_mod n 2 ltac:(lia)). lia. }
      rewrite E. apply reducescatter_even_correct. lia.
  Qed.

  Theorem reducescatter_odd_rejected n c cj rev (lhs : nat -> nat -> nat -> F) (rhs : nat -> nat -> F) :
    (1 < n)%nat -> (n mod 2 = 1)%nat -> matmul_reducescatter_twoway n c cj rev lhs rhs = None.
  Proof.
    intros Hn Ho. unfold matmul_reducescatter_twoway.
    destruct (Nat.eqb_spec n 1); [lia|]. now rewrite Ho.
  Qed.
End ReduceScatterMain.

(** * Padded shapes *)
Section Shapes.
  Lemma round_to_multiple_spec x m :
    (0 < m)%nat ->
    (x <= round_to_multiple x m)%nat /\ (round_to_multiple x m < x + m)%nat /\
    exists q, round_to_multiple x m = (m * q)%nat.
  Proof.
    intros Hm. unfold round_to_multiple.
    pose proof (Nat.div_mod (x + m - 1) m ltac:(lia)) as E.
    pose proof (Nat.mod_upper_bound (x + m - 1) m ltac:(lia)) as B.
    repeat split; [lia|lia|]. now eexists.
  Qed.

  Lemma round_to_multiple_fixed x m q : (0 < m)%nat -> x = (m * q)%nat -> round_to_multiple x m = x.
  Proof.
    intros Hm ->. unfold round_to_multiple.
    replace (m * q + m - 1)%nat with (q * m + (m - 1))%nat by lia.
    rewrite Nat.div_add_l by lia. rewrite Nat.div_small by lia. lia.
  Qed.

  (** the divisibility that [modal_shape] guarantees: the padded number of
      longitudinal coefficients splits into [xs] shards of EVEN length, for every
      base multiple and every number of wavenumbers *)
  Theorem modal_shape_x_divisible lw base xs :
    (0 < base)%nat -> (0 < xs)%nat ->
    let M := modal_shape_x lw base xs in
    (exists q, M = (xs * (2 * q))%nat /\ (M / xs = 2 * q)%nat) /\
    (2 * lw <= M)%nat /\ (M < 2 * lw + 2 * base * xs)%nat.
  Proof.
    intros Hb Hx M. unfold M, modal_shape_x.
    assert (Hm : (0 < 2 * base * xs)%nat) by nia.
    destruct (round_to_multiple_spec (2 * lw) (2 * base * xs) Hm) as (H1 & H2 & q & Hq).
    split; [|split; assumption].
    exists (base * q)%nat. rewrite Hq. split; [nia|].
    replace (2 * base * xs * q)%nat with ((2 * (base * q)) * xs)%nat by nia.
    apply Nat.div_mul. lia.
  Qed.

  Theorem shapes_divisible n base s :
    (0 < base)%nat -> (0 < s)%nat ->
    let N := round_to_multiple n (base * s) in
    (exists q, N = (s * q)%nat) /\ (n <= N)%nat /\ (N < n + base * s)%nat.
  Proof.
    intros Hb Hs N. unfold N.
    assert (Hm : (0 < base * s)%nat) by nia.
    destruct (round_to_multiple_spec n (base * s) Hm) as (H1 & H2 & q & Hq).
    split; [|split; assumption]. exists (base * q)%nat. rewrite Hq. nia.
  Qed.
End Shapes.

(** * [_unstack_m] / [_stack_m] *)
Section StackThm.
  Context {F : Type} {o : Ops F}.

  Lemma divmod_block b q r : (r < b)%nat -> ((r + b * q) / b = q /\ (r + b * q) mod b = r)%nat.
  Proof.
    intros Hr. split.
    - symmetry. apply (Nat.div_unique _ b q r); lia.
    - symmetry. apply (Nat.mod_unique _ b q r); lia.
  Qed.

  Lemma flatF3_at Z M (x : nat -> nat -> nat -> F) z m l :
    (z < Z)%nat -> (m < M)%nat -> flatF3 Z M x (z + Z * (m + M * l)) = x z m l.
  Proof.
    intros Hz Hm. unfold flatF3.
    destruct (divmod_block Z (m + M * l) z Hz) as [E1 E2].
    destruct (divmod_block M l m Hm) as [E3 E4].
    rewrite <- Nat.div_div by lia. rewrite E1, E2, E3, E4. reflexivity.
  Qed.

  Lemma flatF4_at Z S K (y : nat -> nat -> nat -> nat -> F) z s k l :
    (z < Z)%nat -> (s < S)%nat -> (k < K)%nat ->
    flatF4 Z S K y (z + Z * (s + S * (k + K * l))) = y z s k l.
  Proof.
    intros Hz Hs Hk. unfold flatF4.
    destruct (divmod_block Z (s + S * (k + K * l)) z Hz) as [E1 E2].
    destruct (divmod_block S (k + K * l) s Hs) as [E3 E4].
    destruct (divmod_block K l k Hk) as [E5 E6].
    rewrite <- (Nat.div_div _ (Z * S) K) by nia. rewrite <- (Nat.div_div _ Z S) by lia.
    rewrite E1, E2, E3, E4, E5, E6. reflexivity.
  Qed.

  (** the Fortran-order reshape de-interleaves: even positions -> s = 0, odd -> s = 1 *)
  Lemma unstack_m_spec Z Kh (x : nat -> nat -> nat -> F) z s k l :
    (z < Z)%nat -> (s < 2)%nat -> (k < Kh)%nat ->
    unstack_m Z (2 * Kh) x z s k l = x z (2 * k + s)%nat l.
  Proof.
    intros Hz Hs Hk. unfold unstack_m.
    replace (2 * Kh / 2)%nat with Kh by (rewrite Nat.mul_comm, Nat.div_mul; lia).
    replace (z + Z * (s + 2 * (k + Kh * l)))%nat with (z + Z * ((2 * k + s) + (2 * Kh) * l))%nat by nia.
    apply flatF3_at; lia.
  Qed.

  Lemma stack_m_spec Z K (y : nat -> nat -> nat -> nat -> F) z s k l :
    (z < Z)%nat -> (s < 2)%nat -> (k < K)%nat ->
    stack_m Z K y z (2 * k + s)%nat l = y z s k l.
  Proof.
    intros Hz Hs Hk. unfold stack_m.
    replace (z + Z * (2 * k + s + 2 * K * l))%nat with (z + Z * (s + 2 * (k + K * l)))%nat by nia.
    apply flatF4_at; lia.
  Qed.

  Theorem stack_unstack_id Z Kh (x : nat -> nat -> nat -> F) z m l :
    (z < Z)%nat -> (m < 2 * Kh)%nat ->
    stack_m Z Kh (unstack_m Z (2 * Kh) x) z m l = x z m l.
  Proof.
    intros Hz Hm.
    pose proof (Nat.div_mod m 2 ltac:(lia)) as E.
    pose proof (Nat.mod_upper_bound m 2 ltac:(lia)) as B.
    rewrite E at 1. rewrite stack_m_spec by lia. rewrite unstack_m_spec by lia.
    f_equal. lia.
  Qed.

  (** per-shard reshape (shard_map over the x-ring) = global reshape, provided
      the shard length is even *)
  Theorem unstack_sharded_eq_global Z nx Kh (X : nat -> nat -> nat -> F) z s kg l :
    (z < Z)%nat -> (s < 2)%nat -> (kg < nx * Kh)%nat ->
    unstack_m_sharded Z (2 * Kh) X z s kg l = unstack_m Z (nx * (2 * Kh)) X z s kg l.
  Proof.
    intros Hz Hs Hk. assert (HK : (0 < Kh)%nat) by nia.
    unfold unstack_m_sharded.
    replace (2 * Kh / 2)%nat with Kh by (rewrite Nat.mul_comm, Nat.div_mul; lia).
    pose proof (Nat.div_mod kg Kh ltac:(lia)) as E.
    pose proof (Nat.mod_upper_bound kg Kh ltac:(lia)) as B.
    rewrite unstack_m_spec by lia. unfold shard_m.
    replace (nx * (2 * Kh))%nat with (2 * (nx * Kh))%nat by lia.
    rewrite unstack_m_spec by lia. f_equal. nia.
  Qed.

  Theorem stack_sharded_eq_global Z nx K (Y : nat -> nat -> nat -> nat -> F) z mg l :
    (z < Z)%nat -> (0 < K)%nat -> (mg < nx * (2 * K))%nat ->
    stack_m_sharded Z K Y z mg l = stack_m Z (nx * K) Y z mg l.
  Proof.
    intros Hz HK Hm. unfold stack_m_sharded. cbv zeta.
    pose proof (Nat.div_mod mg (2 * K) ltac:(lia)) as E.
    pose proof (Nat.mod_upper_bound mg (2 * K) ltac:(lia)) as B.
    set (d := (mg / (2 * K))%nat) in *. set (m := (mg mod (2 * K))%nat) in *.
    pose proof (Nat.div_mod m 2 ltac:(lia)) as E2.
    pose proof (Nat.mod_upper_bound m 2 ltac:(lia)) as B2.
    rewrite E2 at 1. rewrite stack_m_spec by lia. unfold shard_k.
    replace mg with (2 * (d * K + m / 2) + m mod 2)%nat by nia.
    rewrite stack_m_spec; [reflexivity|lia|lia|nia].
  Qed.
End StackThm.

(** * frequency-offset longitude derivative *)
Section DlonThm.
  Context {F : Type} {o : Ops F}.

  Theorem sharded_dlon_eq_global nx Kh (X : nat -> F) g :
    (0 < Kh)%nat -> (g < nx * (2 * Kh))%nat ->
    dlon_sharded (2 * Kh) X g = dlon_global (nx * (2 * Kh)) X g.
  Proof.
    intros HK Hg. unfold dlon_sharded, dlon_global, real_basis_derivative.
    pose proof (Nat.div_mod g (2 * Kh) ltac:(lia)) as E.
    pose proof (Nat.mod_upper_bound g (2 * Kh) ltac:(lia)) as B.
    set (d := (g / (2 * Kh))%nat) in *. set (i := (g mod (2 * Kh))%nat) in *.
    replace (2 * Kh / 2)%nat with Kh by (rewrite Nat.mul_comm, Nat.div_mul; lia).
    pose proof (Nat.div_mod i 2 ltac:(lia)) as Ei.
    pose proof (Nat.mod_upper_bound i 2 ltac:(lia)) as Bi.
    assert (G2 : (g / 2 = Kh * d + i / 2)%nat).
    { symmetry. apply (Nat.div_unique g 2 _ (i mod 2)); [lia|nia]. }
    assert (G3 : ((g + 1) mod 2 = (i + 1) mod 2)%nat).
    { rewrite E. replace (2 * Kh * d + i + 1)%nat with ((i + 1) + (Kh * d) * 2)%nat by nia.
      now rewrite Nat.mod_add by lia. }
    rewrite G2, G3. rewrite Nat.add_0_l. f_equal.
    pose proof (Nat.div_mod (i + 1) 2 ltac:(lia)) as Ej.
    pose proof (Nat.mod_upper_bound (i + 1) 2 ltac:(lia)) as Bj.
    assert (Hd : (d < nx)%nat) by nia.
    destruct (Nat.eqb_spec ((i + 1) mod 2) 0) as [Hodd|Heven].
    - (* odd position: uses the element below, inside the same shard *)
      f_equal. unfold shift_up.
      destruct (Nat.leb_spec (2 * Kh) 1); [lia|].
      destruct (Nat.leb_spec (nx * (2 * Kh)) 1); [nia|].
      destruct (Nat.eqb_spec i 0); [lia|]. destruct (Nat.eqb_spec g 0); [lia|].
      f_equal. nia.
    - (* even position: uses the element above, inside the same shard *)
      unfold shift_down.
      destruct (Nat.leb_spec (2 * Kh) 1); [lia|].
      destruct (Nat.leb_spec (nx * (2 * Kh)) 1); [nia|].
      destruct (Nat.ltb_spec (i + 1) (2 * Kh)); [|lia].
      destruct (Nat.ltb_spec (g + 1) (nx * (2 * Kh))); [|nia].
      f_equal. nia.
  Qed.
End DlonThm.

(** * vertical pad / crop *)
Section VerticalThm.
  Context {T : Type}.

  Theorem vertical_pad_crop_levelwise (zero : T) K zs (phi : nat -> T -> T) (f : nat -> (nat -> T) -> nat -> T) (x : nat -> T) :
    (0 < zs)%nat ->
    (forall Kp y k, f Kp y k = phi k (y k)) ->
    let r := with_vertical_padding zero K zs f x in
    fst r = K /\ (exists q, (K + vertical_padding K zs = zs * q)%nat) /\
    (vertical_padding K zs < zs)%nat /\
    forall k, (k < K)%nat -> snd r k = phi k (x k).
  Proof.
    intros Hz Hf r. unfold r, with_vertical_padding, vertical_padding. cbn [fst snd].
    destruct (round_to_multiple_spec K zs Hz) as (H1 & H2 & q & Hq).
    repeat split.
    - unfold vertical_crop_len. destruct (Nat.eqb_spec (round_to_multiple K zs - K) 0); lia.
    - exists q. lia.
    - lia.
    - intros k Hk. rewrite Hf. unfold vertical_pad. destruct (Nat.ltb_spec k K); [reflexivity|lia].
  Qed.

  Theorem vertical_pad_crop_id (zero : T) K zs (x : nat -> T) :
    (0 < zs)%nat ->
    let r := with_vertical_padding zero K zs (fun _ y => y) x in
    fst r = K /\ forall k, (k < K)%nat -> snd r k = x k.
  Proof.
    intros Hz r.
    destruct (vertical_pad_crop_levelwise zero K zs (fun _ v => v) (fun _ y => y) x Hz ltac:(reflexivity)) as (A & _ & _ & B).
    split; assumption.
  Qed.
End VerticalThm.

(** * subscript logic of [sharded_einsum] *)
Section EinsumLogicThm.
  Lemma filter_singleton {A} (p : A -> bool) l s :
    filter p l = [s] -> In s l /\ p s = true /\ forall s', In s' l -> p s' = true -> s' = s.
  Proof.
    intros E.
    assert (H : In s (filter p l)) by (rewrite E; now left).
    apply filter_In in H. destruct H as [H1 H2]. repeat split; auto.
    intros s' Hin Hp. assert (H : In s' (filter p l)) by (apply filter_In; auto).
    rewrite E in H. destruct H as [H|[]]. now symmetry.
  Qed.

  Theorem reduce_subscript_sound lhs rhs out spec s :
    determine_reduce_subscript lhs rhs out spec = Some s ->
    In s lhs /\ sub_in s out = false /\ sub_in s rhs = true /\
    is_some (spec_at spec (sub_index s rhs)) = true /\
    forall s', In s' lhs -> sub_in s' out = false -> sub_in s' rhs = true ->
               is_some (spec_at spec (sub_index s' rhs)) = true -> s' = s.
  Proof.
    unfold determine_reduce_subscript.
    destruct (filter _ lhs) as [|s0 [|s1 t]] eqn:E; try discriminate.
    intros H; injection H as ->.
    apply filter_singleton in E. destruct E as (H1 & H2 & H3).
    apply andb_true_iff in H2. destruct H2 as [H2 H4]. apply andb_true_iff in H2. destruct H2 as [H2 H5].
    apply negb_true_iff in H2. repeat split; auto.
    intros s' Hin Ho Hr Hs. apply H3; auto. now rewrite Ho, Hr, Hs.
  Qed.

  Theorem transfer_subscript_sound lhs rhs out spec s :
    determine_transfer_subscript lhs rhs out spec = Some s ->
    In s lhs /\ sub_in s rhs = false /\ sub_in s out = true /\
    is_some (spec_at spec (sub_index s out)) = true /\
    forall s', In s' lhs -> sub_in s' rhs = false -> sub_in s' out = true ->
               is_some (spec_at spec (sub_index s' out)) = true -> s' = s.
  Proof.
    unfold determine_transfer_subscript.
    destruct (filter _ lhs) as [|s0 [|s1 t]] eqn:E; try discriminate.
    intros H; injection H as ->.
    apply filter_singleton in E. destruct E as (H1 & H2 & H3).
    apply andb_true_iff in H2. destruct H2 as [H2 H4]. apply andb_true_iff in H2. destruct H2 as [H2 H5].
    apply negb_true_iff in H2. repeat split; auto.
    intros s' Hin Ho Hr Hs. apply H3; auto. now rewrite Ho, Hr, Hs.
  Qed.
End EinsumLogicThm.

(** * [_dot_cumsum]: sharded = unsharded = sequential prefix / suffix sums *)
Section DotCumsumThm.
  Context {F : Type} {o : Ops F} {Fc : FieldC o}.
  Add Field FFdc : (field_c : FieldTh o).

  Lemma regather c (X : nat -> F) g :
    (0 < c)%nat -> all_gather_tiled c (fun d j => X (d * c + j)%nat) g = X g.
  Proof.
    intros Hc. unfold all_gather_tiled. f_equal.
    pose proof (Nat.div_mod g c ltac:(lia)). lia.
  Qed.

  Theorem parallel_cumsum_correct n c (X : nat -> F) g :
    (0 < c)%nat -> (g < n * c)%nat ->
    (forall rv, dot_cumsum true rv n c X g = dot_cumsum false rv n c X g) /\
    dot_cumsum true false n c X g = cumsum_seq X g /\
    dot_cumsum true true n c X g = revcumsum_seq (n * c) X g.
  Proof.
    intros Hc Hg.
    pose proof (Nat.div_mod g c ltac:(lia)) as E.
    pose proof (Nat.mod_upper_bound g c ltac:(lia)) as B.
    assert (Hd : (g / c < n)%nat) by (apply Nat.div_lt_upper_bound; lia).
    assert (A : forall rv, dot_cumsum true rv n c X g = dot_cumsum false rv n c X g).
    { intros rv. unfold dot_cumsum. destruct rv.
      - rewrite parallel_cumsum_rev by assumption.
        replace (g / c * c + g mod c)%nat with g by lia.
        unfold revcumsum_dot. apply sumn_ext. intros i Hi. now rewrite regather.
      - rewrite parallel_cumsum_fwd by assumption.
        replace (g / c * c + g mod c)%nat with g by lia.
        unfold cumsum_dot. apply sumn_ext. intros i Hi. now rewrite regather. }
    split; [exact A|]. split.
    - rewrite A. unfold dot_cumsum. now apply cumsum_dot_seq.
    - rewrite A. unfold dot_cumsum. now apply revcumsum_dot_seq.
  Qed.
End DotCumsumThm.
