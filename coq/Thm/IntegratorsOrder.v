(** C06: "order conditions => order" made a theorem for NONLINEAR F, by formal power
    series in the step size h with SYMBOLIC Taylor coefficients.

    The step functions of Model/Integrators.v (the ones the correspondence ties to
    dinosaur/time_integration.py) are run at the carrier "truncated power series in h
    over K" (Model/SeriesH.v) on the coefficient lists of Gen/Tableaux.v, for the scalar
    autonomous problem  u' = F(u) + g u  with u0, g and c_j = F^(j)(u0)/j! ARBITRARY
    elements of an ARBITRARY field K of characteristic 0; the result is compared
    coefficient by coefficient with the Taylor series of the exact flow.

    Proof architecture.  Each coefficient identity is a polynomial identity in
    (u0, g, c0..c4) with rational coefficients.  The series arithmetic is executed once,
    by [vm_compute], on the reified carrier [poly] = Q[x0..x11] (sparse, Model/SeriesH.v);
    the evaluation map  pev rho : poly -> K  is proved to be a ring homomorphism that
    commutes with the injection of rational constants (section PolyEval), every series
    operation and every step function is proved to commute with such a homomorphism
    (sections Hom, StepHom: one induction per interpreter, over all coefficient lists),
    so "for every field, for all values" follows from the one computation.

    Why the SCALAR symbolic problem decides every order condition the property claims.
    - additive (F,G) scheme, order <= 2: the elementary differentials are f, Gu (order 1)
      and f'f, f'Gu, Gf, GGu (order 2); in the scalar problem they are the monomials
      c0, g u0, c1 c0, c1 g u0, g c0, g g u0, pairwise distinct, so the coefficient of
      each monomial is exactly one order condition (2 + 4 conditions).
    - G = 0: the elementary differentials of the rooted trees of order <= 4 are, for a
      scalar autonomous problem, the monomials c0; c1 c0; c2 c0^2, c1^2 c0;
      c3 c0^3, c2 c1 c0^2 (two trees: [t1,[t1]] and [[t1,t1]], weights 3 and 1),
      c1^3 c0.  Up to order 3 all trees give distinct monomials, so every condition is
      decided.  At order 4 the two trees [t1,[t1]] and [[t1,t1]] share the monomial
      c2 c1 c0^2: the scalar problem decides the conditions of c3 c0^3 and c1^3 c0 and the
      weighted sum of the other two; the four order-4 conditions are each decided
      separately (to 1e-13) in Thm/Integrators.v (order_cn_rk4), so nothing is hidden
      for the only scheme claimed to have order 4.
    - SIL3 "order 3 for linear F": only c1 is involved (c2 = c3 = c4 = 0).
    Not covered: vector-valued elementary differentials of order >= 5 (never claimed). *)
From Dino Require Import Base.Ops Base.Sums Gen.Tableaux Model.Integrators Model.SeriesH Thm.Integrators.
From Coq Require Import Lia Qabs InitialRing.
Local Open Scope F_scope.

Definition NN : nat := 5.   (* coefficients of h^0 .. h^4 *)

(** * 1. Series operations commute with ring homomorphisms of the coefficients *)
Section Hom.
  Context {A B : Type} {oA : Ops A} {oB : Ops B}.
  Variables (cqA : Q -> A) (cqB : Q -> B) (N : nat) (phi : A -> B).
  Hypothesis phi0 : phi 0 = 0.
  Hypothesis phi1 : phi 1 = 1.
  Hypothesis phi_add : forall a b, phi (a + b) = phi a + phi b.
  Hypothesis phi_mul : forall a b, phi (a * b) = phi a * phi b.
  Hypothesis phi_opp : forall a, phi (- a) = - phi a.
  Hypothesis phi_cq : forall q, phi (cqA q) = cqB q.
  Notation Phi := (map phi).

  Lemma Phi_tadd a b : Phi (tadd a b) = tadd (Phi a) (Phi b).
  Proof.
    revert b. induction a as [|x a IH]; intros [|y b]; cbn [tadd map]; try reflexivity.
    now rewrite phi_add, IH.
  Qed.
  Lemma Phi_topp a : Phi (topp a) = topp (Phi a).
  Proof. unfold topp. rewrite !map_map. apply map_ext. intros x. apply phi_opp. Qed.
  Lemma Phi_tsub a b : Phi (tsub a b) = tsub (Phi a) (Phi b).
  Proof. unfold tsub. now rewrite Phi_tadd, Phi_topp. Qed.
  Lemma phi_tcoef a k : phi (tcoef a k) = tcoef (Phi a) k.
  Proof. unfold tcoef. rewrite <- (map_nth phi a 0 k). now rewrite phi0. Qed.
  Lemma phi_sumn n (f : nat -> A) : phi (sumn n f) = sumn n (fun i => phi (f i)).
  Proof. induction n as [|n IH]; cbn [sumn]; [exact phi0|]. now rewrite phi_add, IH. Qed.
  Lemma sumn_ext' n (f h : nat -> B) : (forall i, f i = h i) -> sumn n f = sumn n h.
  Proof. intros H. induction n as [|n IH]; cbn [sumn]; [reflexivity|]. now rewrite IH, H. Qed.
  Lemma Phi_tmul a b : Phi (tmul N a b) = tmul N (Phi a) (Phi b).
  Proof.
    destruct a as [|x a]; [reflexivity|]. unfold tmul. cbn [map].
    rewrite map_map. apply map_ext. intros k. rewrite phi_sumn. apply sumn_ext'. intros i.
    rewrite phi_mul, !phi_tcoef. reflexivity.
  Qed.
  Lemma Phi_iter n (fA : list A -> list A) (fB : list B -> list B) :
    (forall x, Phi (fA x) = fB (Phi x)) -> forall x, Phi (Nat.iter n fA x) = Nat.iter n fB (Phi x).
  Proof. intros H x. induction n as [|n IH]; [reflexivity|].
    change (Phi (fA (Nat.iter n fA x)) = fB (Nat.iter n fB (Phi x))). now rewrite H, IH. Qed.
  Lemma Phi_tq q : Phi (tq cqA q) = tq cqB q.
  Proof. unfold tq. destruct (Qeq_bool q 0); cbn [map]; [reflexivity|]. now rewrite phi_cq. Qed.
  Lemma Phi_hh : Phi hh = hh.
  Proof. unfold hh. cbn [map]. now rewrite phi0, phi1. Qed.
  Lemma Phi_tint_from a : forall k, Phi (tint_from cqA k a) = tint_from cqB k (Phi a).
  Proof. induction a as [|x a IH]; intros k; cbn [tint_from map]; [reflexivity|]. now rewrite phi_mul, phi_cq, IH. Qed.
  Lemma Phi_tint a : Phi (tint cqA a) = tint cqB (Phi a).
  Proof. unfold tint. cbn [map]. now rewrite phi0, Phi_tint_from. Qed.
  Lemma Phi_tder_from a : forall k, Phi (tder_from cqA k a) = tder_from cqB k (Phi a).
  Proof. induction a as [|x a IH]; intros k; cbn [tder_from map]; [reflexivity|]. now rewrite phi_mul, phi_cq, IH. Qed.
  Lemma Phi_tderiv a : Phi (tderiv cqA a) = tderiv cqB (Phi a).
  Proof. destruct a as [|x a]; [reflexivity|]. cbn [tderiv map]. apply Phi_tder_from. Qed.
  Lemma Phi_talt a : forall s, Phi (talt s a) = talt s (Phi a).
  Proof.
    induction a as [|x a IH]; intros s; cbn [talt map]; [reflexivity|].
    rewrite IH. destruct s; [now rewrite phi_opp|reflexivity].
  Qed.

  Variables (cs : list A) (u0 g : A).
  Lemma Phi_Fser y : Phi (Fser N cs u0 y) = Fser N (Phi cs) (phi u0) (Phi y).
  Proof.
    unfold Fser. cbv zeta.
    replace (tsub (Phi y) [phi u0]) with (Phi (tsub y [u0])) by (now rewrite Phi_tsub).
    generalize (tsub y [u0]) as d. intros d.
    induction cs as [|c l IH]; cbn [fold_right map]; [reflexivity|].
    now rewrite Phi_tadd, Phi_tmul, IH.
  Qed.
  Lemma Phi_Gser y : Phi (Gser N g y) = Gser N (phi g) (Phi y).
  Proof. unfold Gser. now rewrite Phi_tmul. Qed.
  Lemma Phi_Ginvser x eta : Phi (Ginvser N g x eta) = Ginvser N (phi g) (Phi x) (Phi eta).
  Proof.
    unfold Ginvser. apply Phi_iter. intros y. now rewrite Phi_tadd, Phi_tmul, Phi_Gser.
  Qed.
  Lemma Phi_picard E : Phi (picard cqA N cs u0 g E) = picard cqB N (Phi cs) (phi u0) (phi g) (Phi E).
  Proof.
    unfold picard. rewrite <- firstn_map. now rewrite Phi_tadd, Phi_tint, Phi_tadd, Phi_Fser, Phi_Gser.
  Qed.
  Lemma Phi_exact_flow :
    Phi (exact_flow cqA N cs u0 g) = exact_flow cqB N (Phi cs) (phi u0) (phi g).
  Proof. unfold exact_flow. now rewrite (Phi_iter N _ _ Phi_picard). Qed.
  Lemma Phi_exact_flow_back :
    Phi (exact_flow_back cqA N cs u0 g) = exact_flow_back cqB N (Phi cs) (phi u0) (phi g).
  Proof. unfold exact_flow_back. now rewrite Phi_talt, Phi_exact_flow. Qed.
End Hom.

(** * 2. The step functions commute with module homomorphisms (every coefficient list) *)
Section StepHom.
  Context {FA VA FB VB : Type} {oFA : Ops FA} {voA : VOps FA VA} {oFB : Ops FB} {voB : VOps FB VB}.
  Variables (psi : FA -> FB) (Psi : VA -> VB).
  Hypothesis psi0 : psi 0 = 0.
  Hypothesis psi1 : psi 1 = 1.
  Hypothesis psi_add : forall a b, psi (a + b) = psi a + psi b.
  Hypothesis psi_mul : forall a b, psi (a * b) = psi a * psi b.
  Hypothesis psi_sub : forall a b, psi (a - b) = psi a - psi b.
  Hypothesis psi_half : psi half = half.
  Hypothesis Psi_zero : Psi vzero = vzero.
  Hypothesis Psi_add : forall x y, Psi (vadd x y) = vadd (Psi x) (Psi y).
  Hypothesis Psi_scal : forall c x, Psi (vscal c x) = vscal (psi c) (Psi x).
  Variables (FxA GA : VA -> VA) (GiA : VA -> FA -> VA) (FxB GB : VB -> VB) (GiB : VB -> FB -> VB).
  Hypothesis HF : forall x, Psi (FxA x) = FxB (Psi x).
  Hypothesis HG : forall x, Psi (GA x) = GB (Psi x).
  Hypothesis HGi : forall x e, Psi (GiA x e) = GiB (Psi x) (psi e).

  Ltac push := repeat first [ rewrite HGi | rewrite Psi_add | rewrite Psi_scal | rewrite HF | rewrite HG
                            | rewrite psi_mul | rewrite psi_sub | rewrite psi_add | rewrite psi_half
                            | rewrite psi1 ].

  Lemma euler_hom dt u : Psi (euler_step FxA GiA dt u) = euler_step FxB GiB (psi dt) (Psi u).
  Proof. unfold euler_step. cbv zeta. push. reflexivity. Qed.

  Lemma rk2_hom dt u : Psi (cn_rk2_step FxA GA GiA dt u) = cn_rk2_step FxB GB GiB (psi dt) (Psi u).
  Proof. unfold cn_rk2_step. cbv zeta. push. reflexivity. Qed.

  Lemma leapfrog_hom dt alpha p c :
    Psi (snd (leapfrog_step FxA GA GiA dt alpha (p, c))) =
    snd (leapfrog_step FxB GB GiB (psi dt) (psi alpha) (Psi p, Psi c)).
  Proof. unfold leapfrog_step, two. cbv zeta. cbn [snd]. push. reflexivity. Qed.

  Lemma ls_loop_hom dt : forall be ga al h u,
    Psi (ls_loop FxA GA GiA dt al be ga h u) =
    ls_loop FxB GB GiB (psi dt) (map psi al) (map psi be) (map psi ga) (Psi h) (Psi u).
  Proof.
    induction be as [|b be IH]; intros ga al h u; [reflexivity|].
    destruct ga as [|gm ga]; [reflexivity|].
    destruct al as [|a0 [|a1 al]]; try reflexivity.
    cbn [ls_loop map]. cbv zeta.
    specialize (IH ga (a1 :: al)). cbn [map] in IH. rewrite IH. push. reflexivity.
  Qed.
  Lemma ls_step_hom dt al be ga u :
    Psi (ls_step FxA GA GiA dt al be ga u) =
    ls_step FxB GB GiB (psi dt) (map psi al) (map psi be) (map psi ga) (Psi u).
  Proof. unfold ls_step. now rewrite ls_loop_hom, Psi_zero. Qed.

  Lemma wsum_hom : forall cs xs acc,
    Psi (wsum cs xs acc) = wsum (map psi cs) (map Psi xs) (Psi acc).
  Proof.
    induction cs as [|c cs IH]; intros xs acc; [destruct xs; reflexivity|].
    destruct xs as [|x xs]; [reflexivity|]. cbn [wsum map]. rewrite IH. push. reflexivity.
  Qed.
  Lemma ark_stages_hom dt y0 : forall rex rim i fs gs,
    ark_stages FxB GB GiB (psi dt) (Psi y0) i (map (map psi) rex) (map (map psi) rim) (map Psi fs) (map Psi gs) =
    (map Psi (fst (ark_stages FxA GA GiA dt y0 i rex rim fs gs)),
     map Psi (snd (ark_stages FxA GA GiA dt y0 i rex rim fs gs))).
  Proof.
    induction rex as [|re rex IH]; intros rim i fs gs; [reflexivity|].
    destruct rim as [|ri rim]; [reflexivity|].
    cbn [ark_stages map]. cbv zeta.
    rewrite <- IH. rewrite !map_app. cbn [map].
    assert (E : psi (nth i ri 0) = nth i (map psi ri) 0).
    { rewrite <- (map_nth psi ri 0 i). now rewrite psi0. }
    push. rewrite !wsum_hom, Psi_zero, E. reflexivity.
  Qed.
  Lemma ark_step_hom dt a_ex a_im b_ex b_im y0 :
    Psi (ark_step FxA GA GiA dt a_ex a_im b_ex b_im y0) =
    ark_step FxB GB GiB (psi dt) (map (map psi) a_ex) (map (map psi) a_im) (map psi b_ex) (map psi b_im) (Psi y0).
  Proof.
    unfold ark_step.
    pose proof (ark_stages_hom dt y0 a_ex a_im 1 [FxA y0] [GA y0]) as H.
    cbn [map] in H. rewrite HF, HG in H. rewrite H.
    destruct (ark_stages FxA GA GiA dt y0 1 a_ex a_im [FxA y0] [GA y0]) as [fs gs]. cbn [fst snd].
    push. rewrite !wsum_hom, Psi_zero. reflexivity.
  Qed.
End StepHom.

(** the two module laws (and the zero test) [imex_is_ark] needs hold on the nose *)
Section TpsLaws.
  Context {B : Type} {oB : Ops B} (cq : Q -> B) (N : nat).
  Lemma tps_nz_false (c : tps) : @nz tps (TpsOps cq N) c = false -> c = [].
  Proof. destruct c as [|x c]; [reflexivity|]. cbn. discriminate. Qed.
  Lemma tps_add_0_r (x : tps) : tadd x [] = x.
  Proof. destruct x; reflexivity. Qed.
  Lemma tps_mul_0_l (x : tps) : tmul N [] x = [].
  Proof. reflexivity. Qed.
End TpsLaws.

(** the h^k coefficients of two polynomial series differ by a nonzero rational constant *)
Definition differ_at (k : nat) (a b : list poly) : bool :=
  match pconst_val (defect a b k) with Some c => negb (Qeq_bool c 0) | None => false end.

(** * 3. Evaluation of polynomials in a field of characteristic 0 is a homomorphism *)
Section PolyEval.
  Context {K : Type} {oK : Ops K} {Kc : FieldC oK}.
  Add Field KF : (field_c : FieldTh oK).
  Hypothesis char0 : forall p : positive, @ofZ K oK (Zpos p) <> 0.

  Let zmorph := gen_phiZ_morph (Eqsth K) (Eq_ext fadd fmul fopp) (F_R (field_c : FieldTh oK)).
  Lemma ofZ_add a b : @ofZ K oK (a + b) = ofZ a + ofZ b.
  Proof. exact (morph_add zmorph a b). Qed.
  Lemma ofZ_mul a b : @ofZ K oK (a * b) = ofZ a * ofZ b.
  Proof. exact (morph_mul zmorph a b). Qed.
  Lemma ofZ_opp a : @ofZ K oK (- a) = - ofZ a.
  Proof. exact (morph_opp zmorph a). Qed.
  Lemma one_neq_0 : (1 : K) <> 0.
  Proof. exact (F_1_neq_0 (field_c : FieldTh oK)). Qed.
  Lemma ofZ_nz z : z <> 0%Z -> @ofZ K oK z <> 0.
  Proof.
    destruct z as [|p|p]; intros H; [congruence|apply char0|].
    change (- @ofZ K oK (Zpos p) <> 0). intros E. apply (char0 p).
    replace (ofZ (Zpos p)) with (- - @ofZ K oK (Zpos p)) by ring. rewrite E. ring.
  Qed.

  Lemma ofQ_Qeq a b : (a == b)%Q -> @ofQ K oK a = ofQ b.
  Proof.
    unfold Qeq, ofQ. intros H. apply (f_equal (@ofZ K oK)) in H. rewrite !ofZ_mul in H.
    transitivity ((ofZ (Qnum a) * ofZ (Zpos (Qden b))) / (ofZ (Zpos (Qden a)) * @ofZ K oK (Zpos (Qden b)))).
    - field. split; apply char0.
    - rewrite H. field. split; apply char0.
  Qed.
  Lemma ofQ_add a b : @ofQ K oK (a + b)%Q = ofQ a + ofQ b.
  Proof.
    unfold ofQ, Qplus. cbn [Qnum Qden]. rewrite Pos2Z.inj_mul, ofZ_add, !ofZ_mul.
    field. split; apply char0.
  Qed.
  Lemma ofQ_mul a b : @ofQ K oK (a * b)%Q = ofQ a * ofQ b.
  Proof.
    unfold ofQ, Qmult. cbn [Qnum Qden]. rewrite Pos2Z.inj_mul, !ofZ_mul.
    field. split; apply char0.
  Qed.
  Lemma ofQ_opp a : @ofQ K oK (- a)%Q = - ofQ a.
  Proof. unfold ofQ, Qopp. cbn [Qnum Qden]. rewrite ofZ_opp. field. apply char0. Qed.
  Lemma ofQ_red a : @ofQ K oK (Qred a) = ofQ a.
  Proof. apply ofQ_Qeq, Qred_correct. Qed.
  Lemma ofQ_0 : @ofQ K oK 0 = 0.
  Proof. unfold ofQ, ofZ. cbn. field. apply one_neq_0. Qed.
  Lemma ofQ_1 : @ofQ K oK 1 = 1.
  Proof. unfold ofQ, ofZ. cbn. field. apply one_neq_0. Qed.
  Lemma ofQ_zero a : Qeq_bool a 0 = true -> @ofQ K oK a = 0.
  Proof. intros H. apply Qeq_bool_eq in H. rewrite (ofQ_Qeq _ _ H). apply ofQ_0. Qed.
  Lemma ofQ_nz a : Qeq_bool a 0 = false -> @ofQ K oK a <> 0.
  Proof.
    intros H E. apply Qeq_bool_neq in H. apply H. unfold Qeq. cbn.
    destruct (Z.eq_dec (Qnum a) 0) as [Z0|NZ]; [rewrite Z0; reflexivity|exfalso].
    apply (ofZ_nz _ NZ). unfold ofQ in E.
    replace (ofZ (Qnum a)) with ((ofZ (Qnum a) / @ofZ K oK (Zpos (Qden a))) * ofZ (Zpos (Qden a)))
      by (field; apply char0).
    rewrite E. ring.
  Qed.
  Lemma ofQ_half : @ofQ K oK (1 # 2) = finv (1 + 1).
  Proof.
    assert (H2 : (1 + 1 : K) <> 0) by exact (char0 2).
    unfold ofQ, ofZ. cbn. field. exact H2.
  Qed.

  Variable rho : nat -> K.
  Notation pv := (pev rho).
  Notation mv := (mev rho).

  Lemma mcmp_eq : forall a b, mcmp a b = Eq -> a = b.
  Proof.
    induction a as [|x a IH]; intros [|y b]; cbn [mcmp]; try discriminate; [reflexivity|].
    destruct (Nat.compare x y) eqn:E; try discriminate.
    apply Nat.compare_eq in E. intros H. subst. f_equal. now apply IH.
  Qed.
  Lemma fpow_add x a b : fpow x (a + b) = fpow x a * fpow x b.
  Proof. induction a as [|a IH]; cbn [fpow Nat.add]; [ring|]. rewrite IH. ring. Qed.
  Lemma mev_mmul : forall a b i, mv i (mmul a b) = mv i a * mv i b.
  Proof.
    induction a as [|x a IH]; intros [|y b] i; cbn [mmul mev]; try ring.
    rewrite IH, fpow_add. ring.
  Qed.
  Lemma mev_zeros : forall m i, forallb (Nat.eqb 0) m = true -> mv i m = 1.
  Proof.
    induction m as [|e m IH]; intros i H; [reflexivity|]. cbn [forallb] in H.
    apply andb_prop in H. destruct H as [H1 H2]. apply Nat.eqb_eq in H1. subst e.
    cbn [mev fpow]. rewrite IH by assumption. ring.
  Qed.

  Lemma padd_cons_cons m c a' n d b' :
    padd ((m, c) :: a') ((n, d) :: b') =
    match mcmp m n with
    | Lt => (m, c) :: padd a' ((n, d) :: b')
    | Eq => let s := Qred (c + d) in if Qeq_bool s 0 then padd a' b' else (m, s) :: padd a' b'
    | Gt => (n, d) :: padd ((m, c) :: a') b'
    end.
  Proof. reflexivity. Qed.
  Lemma padd_nil_r a : padd a [] = a.
  Proof. destruct a as [|[m c] a]; reflexivity. Qed.

  Lemma pev_padd : forall a b, pv (padd a b) = pv a + pv b.
  Proof.
    induction a as [|[m c] a IHa]; intros b; [cbn; ring|].
    induction b as [|[n d] b IHb]; [rewrite padd_nil_r; cbn [pev]; ring|].
    rewrite padd_cons_cons. destruct (mcmp m n) eqn:E.
    - apply mcmp_eq in E. subst n. cbv zeta.
      assert (S : @ofQ K oK (Qred (c + d)) = ofQ c + ofQ d) by (now rewrite ofQ_red, ofQ_add).
      destruct (Qeq_bool (Qred (c + d)) 0) eqn:Z.
      + rewrite IHa. cbn [pev]. unfold tev. cbn [fst snd].
        apply ofQ_zero in Z. rewrite S in Z.
        replace (ofQ c * mv 0%nat m + pv a + (ofQ d * mv 0%nat m + pv b))
          with ((ofQ c + ofQ d) * mv 0%nat m + (pv a + pv b)) by ring.
        rewrite Z. ring.
      + cbn [pev]. rewrite IHa. unfold tev. cbn [fst snd]. rewrite S. ring.
    - cbn [pev]. rewrite IHa. cbn [pev]. ring.
    - cbn [pev]. rewrite IHb. cbn [pev]. ring.
  Qed.
  Lemma pev_pscale m c b : pv (pscale m c b) = ofQ c * mv 0%nat m * pv b.
  Proof.
    induction b as [|[n d] b IH]; cbn [pscale map pev]; [ring|].
    fold (pscale m c b). rewrite IH. unfold tev. cbn [fst snd].
    rewrite ofQ_red, ofQ_mul, mev_mmul. ring.
  Qed.
  Lemma pev_pmul a b : pv (pmul a b) = pv a * pv b.
  Proof.
    induction a as [|[m c] a IH]; cbn [pmul fold_right pev]; [ring|].
    fold (pmul a b). rewrite pev_padd, pev_pscale, IH. unfold tev. cbn [fst snd]. ring.
  Qed.
  Lemma pev_popp a : pv (popp a) = - pv a.
  Proof.
    induction a as [|[m c] a IH]; cbn [popp map pev]; [ring|].
    fold (popp a). rewrite IH. unfold tev. cbn [fst snd]. rewrite ofQ_opp. ring.
  Qed.
  Lemma pev_psub a b : pv (psub a b) = pv a - pv b.
  Proof. unfold psub. rewrite pev_padd, pev_popp. ring. Qed.
  Lemma pev_pconst q : pv (pconst q) = ofQ q.
  Proof.
    unfold pconst. destruct (Qeq_bool q 0) eqn:Z.
    - cbn [pev]. symmetry. now apply ofQ_zero.
    - cbn [pev]. unfold tev. cbn [fst snd]. rewrite ofQ_red, mev_zeros by reflexivity. ring.
  Qed.
  Lemma pev_pconst1 : pv (pconst 1) = 1.
  Proof. rewrite pev_pconst. apply ofQ_1. Qed.
  Lemma pev_pvar i : (i < nv)%nat -> pv (pvar i) = rho i.
  Proof.
    intros H. unfold nv in H.
    do 12 (destruct i as [|i]; [cbn -[ofQ]; unfold tev; cbn -[ofQ]; rewrite ofQ_1; ring|]). lia.
  Qed.
  Lemma pzerob_sound p : pzerob p = true -> pv p = 0.
  Proof.
    induction p as [|[m c] p IH]; cbn [pzerob forallb pev]; [reflexivity|]. intros H.
    apply andb_prop in H. destruct H as [H1 H2]. cbn [snd] in H1.
    fold (pzerob p) in H2. rewrite (IH H2). unfold tev. cbn [fst snd]. rewrite (ofQ_zero _ H1). ring.
  Qed.
  Lemma pconst_val_sound p c : pconst_val p = Some c -> pv p = ofQ c.
  Proof.
    destruct p as [|[m d] [|t p]]; cbn [pconst_val]; try discriminate.
    - intros H. injection H as <-. cbn. symmetry. apply ofQ_0.
    - destruct (forallb (Nat.eqb 0) m) eqn:E; [|discriminate]. intros H. injection H as <-.
      cbn [pev]. unfold tev. cbn [fst snd]. rewrite (mev_zeros _ _ E). ring.
  Qed.

  (** ** transfer: a series of polynomials evaluated coefficientwise *)
  Notation PV := (map pv).
  Lemma tcoef_PV s k : tcoef (PV s) k = pv (pcoef s k).
  Proof. unfold tcoef, pcoef. exact (map_nth pv s [] k). Qed.
  Lemma defect_eq a b k : pv (pcoef a k) = pv (pcoef b k) + pv (defect a b k).
  Proof. unfold defect. rewrite pev_psub. ring. Qed.
  Lemma agree_sound p a b : agree_upto p a b = true ->
    forall k, (k <= p)%nat -> tcoef (PV a) k = tcoef (PV b) k.
  Proof.
    unfold agree_upto. rewrite forallb_forall. intros H k Hk. rewrite !tcoef_PV.
    rewrite (defect_eq a b k), (pzerob_sound _ (H k ltac:(apply in_seq; lia))). ring.
  Qed.
  Lemma differ_sound a b k c : pconst_val (defect a b k) = Some c -> Qeq_bool c 0 = false ->
    tcoef (PV a) k <> tcoef (PV b) k.
  Proof.
    intros H1 H2 E. rewrite !tcoef_PV, (defect_eq a b k), (pconst_val_sound _ _ H1) in E.
    apply (ofQ_nz _ H2).
    replace (ofQ c) with (pv (pcoef b k) + @ofQ K oK c - pv (pcoef b k)) by ring. rewrite E. ring.
  Qed.

  Local Existing Instance POps.
  (** ** the step functions at K-series are the images of the step functions at poly-series *)
  Let oA := TpsOps (oB := POps) pconst NN.
  Let oB' := TpsOps (oB := oK) (@ofQ K oK) NN.
  Let vA := TpsV (oB := POps) NN.
  Let vB := TpsV (oB := oK) NN.

  Ltac side := first [ reflexivity | exact pev_padd | exact pev_pmul | exact pev_popp | exact pev_pconst
                     | exact pev_pconst1 ].
  Lemma PV_tadd a b : PV (tadd a b) = tadd (PV a) (PV b).
  Proof. apply Phi_tadd; side. Qed.
  Lemma PV_tmul a b : PV (tmul NN a b) = tmul NN (PV a) (PV b).
  Proof. apply Phi_tmul; side. Qed.
  Lemma PV_tsub a b : PV (tsub a b) = tsub (PV a) (PV b).
  Proof. apply Phi_tsub; side. Qed.
  Lemma PV_half : PV (@half _ oA) = @half _ oB'.
  Proof.
    change (PV (tmul NN [pconst 1] [pinv (padd (pconst 1) (pconst 1))]) = tmul NN [1] [finv (1 + 1)]).
    rewrite PV_tmul. cbn [map]. rewrite pev_pconst1.
    replace (pinv (padd (pconst 1) (pconst 1))) with (pconst (1 # 2)) by (vm_compute; reflexivity).
    now rewrite pev_pconst, ofQ_half.
  Qed.
  Lemma PV_one : PV (@f1 _ oA) = @f1 _ oB'.
  Proof. change (PV [pconst 1] = [1]). cbn [map]. now rewrite pev_pconst1. Qed.
  Lemma PV_tq q : PV (tq pconst q) = tq (@ofQ K oK) q.
  Proof. apply Phi_tq; side. Qed.
  Lemma PV_tqs l : map (tq (@ofQ K oK)) l = map PV (map (tq pconst) l).
  Proof. rewrite map_map. apply map_ext. intros q. symmetry. apply PV_tq. Qed.
  Lemma PV_tqss l : map (map (tq (@ofQ K oK))) l = map (map PV) (map (map (tq pconst)) l).
  Proof. rewrite map_map. apply map_ext. intros r. apply PV_tqs. Qed.
  Lemma PV_hh : PV (@hh _ POps) = @hh _ oK.
  Proof. apply Phi_hh; side. Qed.

  Lemma PV_tderiv a : PV (tderiv pconst a) = tderiv (@ofQ K oK) (PV a).
  Proof. apply Phi_tderiv; side. Qed.
  Lemma conclude (a b : list poly) (sK eK : list K) p :
    sK = PV a -> eK = PV b -> agree_upto p a b = true ->
    forall k, (k <= p)%nat -> tcoef sK k = tcoef eK k.
  Proof. intros -> -> H. now apply agree_sound. Qed.
  Lemma conclude_ne (a b : list poly) (sK eK : list K) k :
    sK = PV a -> eK = PV b -> differ_at k a b = true -> tcoef sK k <> tcoef eK k.
  Proof.
    intros -> -> H. unfold differ_at in H. destruct (pconst_val (defect a b k)) as [c|] eqn:E; [|discriminate].
    apply (differ_sound a b k c E). now apply Bool.negb_true_iff in H.
  Qed.
  Lemma conclude_near (a b : list poly) (sK eK : list K) :
    sK = PV a -> eK = PV b -> forall k, tcoef sK k = tcoef eK k + pv (defect a b k).
  Proof. intros -> -> k. rewrite !tcoef_PV. apply defect_eq. Qed.

  Section Inputs.
    Variables (csP : list poly) (u0P gP : poly).
    Let cs := PV csP.
    Let u0 := pv u0P.
    Let g := pv gP.
    Let FA := Fser NN csP u0P.
    Let GA := Gser NN gP.
    Let GiA := Ginvser NN gP.
    Let FB := Fser NN cs u0.
    Let GB := Gser NN g.
    Let GiB := Ginvser NN g.
    Lemma HF x : PV (FA x) = FB (PV x).
    Proof. apply Phi_Fser; side. Qed.
    Lemma HG x : PV (GA x) = GB (PV x).
    Proof. apply Phi_Gser; side. Qed.
    Lemma HGi x e : PV (GiA x e) = GiB (PV x) (PV e).
    Proof. apply Phi_Ginvser; side. Qed.
    Ltac side2 := first [ reflexivity | exact PV_tadd | exact PV_tmul | exact PV_tsub | exact PV_half
                        | exact HF | exact HG | exact HGi | exact PV_one ].

    Lemma T_exact : exact_flow (@ofQ K oK) NN cs u0 g = PV (exact_flow pconst NN csP u0P gP).
    Proof. symmetry. apply Phi_exact_flow; side. Qed.
    Lemma T_exact_back : exact_flow_back (@ofQ K oK) NN cs u0 g = PV (exact_flow_back pconst NN csP u0P gP).
    Proof. symmetry. apply Phi_exact_flow_back; side. Qed.
    Lemma T_euler : run_euler NN cs u0 g = PV (run_euler NN csP u0P gP).
    Proof.
      unfold run_euler. symmetry. rewrite <- PV_hh. change [u0] with (PV [u0P]).
      apply (euler_hom (voA := vA) (voB := vB)); side2.
    Qed.
    Lemma T_rk2 : run_rk2 (@ofQ K oK) NN cs u0 g = PV (run_rk2 pconst NN csP u0P gP).
    Proof.
      unfold run_rk2. symmetry. rewrite <- PV_hh. change [u0] with (PV [u0P]).
      apply (rk2_hom (oFA := oA) (voA := vA) (oFB := oB') (voB := vB)); side2.
    Qed.
    Lemma T_ls al be ga :
      run_ls (@ofQ K oK) NN cs u0 g al be ga = PV (run_ls pconst NN csP u0P gP al be ga).
    Proof.
      unfold run_ls. symmetry. rewrite <- PV_hh, !PV_tqs. change [u0] with (PV [u0P]).
      apply (ls_step_hom (oFA := oA) (voA := vA) (oFB := oB') (voB := vB)); side2.
    Qed.
    Lemma T_ark a_ex a_im b_ex b_im :
      run_ark (@ofQ K oK) NN cs u0 g a_ex a_im b_ex b_im = PV (run_ark pconst NN csP u0P gP a_ex a_im b_ex b_im).
    Proof.
      unfold run_ark. symmetry. rewrite <- PV_hh, !PV_tqs, !PV_tqss. change [u0] with (PV [u0P]).
      apply (ark_step_hom (oFA := oA) (voA := vA) (oFB := oB') (voB := vB)); side2.
    Qed.
    Lemma T_imex a_ex a_im b_ex b_im :
      run_imex (@ofQ K oK) NN cs u0 g a_ex a_im b_ex b_im =
      option_map PV (run_imex pconst NN csP u0P gP a_ex a_im b_ex b_im).
    Proof.
      unfold run_imex.
      rewrite (imex_is_ark (o := oB') (vo := vB) (tps_nz_false _ NN) tps_add_0_r (tps_mul_0_l NN)).
      rewrite (imex_is_ark (o := oA) (vo := vA) (tps_nz_false _ NN) tps_add_0_r (tps_mul_0_l NN)).
      cbn [option_map]. f_equal. apply T_ark.
    Qed.
    Lemma T_leapfrog alpha :
      run_leapfrog (@ofQ K oK) NN cs u0 g alpha = PV (run_leapfrog pconst NN csP u0P gP alpha).
    Proof.
      unfold run_leapfrog. symmetry. rewrite <- PV_hh, <- PV_tq, T_exact_back. change [u0] with (PV [u0P]).
      apply (leapfrog_hom (oFA := oA) (voA := vA) (oFB := oB') (voB := vB)); side2.
    Qed.
  End Inputs.
End PolyEval.

(** * 4. The runs on the reified carrier (executed by [vm_compute]) *)
Definition p0 : poly := pvar 0.     (* u0 *)
Definition p1 : poly := pvar 1.     (* g *)
Definition pone : poly := pconst 1.
Definition csV : list poly := [pvar 2; pvar 3; pvar 4; pvar 5; pvar 6].   (* c0..c4 *)
Definition csLin : list poly := [pvar 2; pvar 3; []; []; []].             (* linear F *)
Definition ptwo : poly := pconst 2.
Definition cs1 : list poly := [pone; ptwo; pone; pone; pone].
Definition csLin1 : list poly := [pone; ptwo; []; []; []].
Definition XP (cs : list poly) (u0 g : poly) := exact_flow (oB := POps) pconst NN cs u0 g.
Definition eulerP (cs : list poly) (u0 g : poly) := run_euler (oB := POps) NN cs u0 g.
Definition rk2P (cs : list poly) (u0 g : poly) := run_rk2 (oB := POps) pconst NN cs u0 g.
Definition rk3P (cs : list poly) (u0 g : poly) :=
  run_ls (oB := POps) pconst NN cs u0 g rk3_alphas rk3_betas rk3_gammas.
Definition rk4P (cs : list poly) (u0 g : poly) :=
  run_ls (oB := POps) pconst NN cs u0 g rk4_alphas rk4_betas rk4_gammas.
Definition sil3P (cs : list poly) (u0 g : poly) :=
  run_imex (oB := POps) pconst NN cs u0 g sil3_a_ex sil3_a_im sil3_b_ex sil3_b_im.
Definition lfP (alpha : Q) (cs : list poly) (u0 g : poly) := run_leapfrog (oB := POps) pconst NN cs u0 g alpha.
Definition is_some_tps (x : option (list poly)) : bool := match x with Some _ => true | None => false end.

(** RK4 (13-digit decimals), general g: every coefficient of the defect polynomials of
    h^0..h^2 is <= 1e-13, some coefficient of the h^3 defect exceeds 1e-5;
    g = 0: every coefficient of the defects of h^0..h^4 is <= 1e-13. *)
Lemma rk4_defects_general :
  (let a := rk4P csV p0 p1 in let b := XP csV p0 p1 in
   near_upto eps13 2 a b && negb (near_upto (1 # 100000) 3 a b)) = true.
Proof. vm_compute. reflexivity. Qed.
Lemma rk4_defects_G0 : near_upto eps13 4 (rk4P csV p0 []) (XP csV p0 []) = true.
Proof. vm_compute. reflexivity. Qed.

Definition rho7 {K} {oK : Ops K} (u0 g c0 c1 c2 c3 c4 : K) : nat -> K :=
  fun i => nth i [u0; g; c0; c1; c2; c3; c4] 0.

(** * 5. The theorems: every field of characteristic 0, all u0, g, c0..c4 *)
Section Main.
  Context {K : Type} {oK : Ops K} {Kc : FieldC oK}.
  Add Field KFm : (field_c : FieldTh oK).
  Hypothesis char0 : forall p : positive, @ofZ K oK (Zpos p) <> 0.
  Variables u0 g c0 c1 c2 c3 c4 : K.
  Let rho := rho7 u0 g c0 c1 c2 c3 c4.
  Notation pv := (pev rho).
  Notation PV := (map (pev rho)).
  Notation cs := [c0; c1; c2; c3; c4].
  Notation EX := (exact_flow (@ofQ K oK) NN).
  Local Existing Instance POps.

  Lemma Eu : pv p0 = u0. Proof. exact (pev_pvar rho 0 ltac:(unfold nv; lia)). Qed.
  Lemma Eg : pv p1 = g. Proof. exact (pev_pvar rho 1 ltac:(unfold nv; lia)). Qed.
  Lemma Ec : PV csV = cs.
  Proof. unfold csV. cbn [map]. rewrite !(pev_pvar rho) by (unfold nv; lia). reflexivity. Qed.
  Lemma El : PV csLin = [c0; c1; 0; 0; 0].
  Proof. unfold csLin. cbn [map pev]. rewrite !(pev_pvar rho) by (unfold nv; lia). reflexivity. Qed.
  Lemma E11 : pv pone = 1. Proof. exact (pev_pconst1 char0 rho). Qed.
  Lemma E12 : pv ptwo = 1 + 1.
  Proof.
    unfold ptwo. rewrite (pev_pconst char0 rho). unfold ofQ, ofZ. cbn.
    pose proof (@one_neq_0 K oK Kc). field. assumption.
  Qed.
  Lemma E1 : PV cs1 = [1; 1 + 1; 1; 1; 1].
  Proof. unfold cs1. cbn [map]. now rewrite E11, E12. Qed.
  Lemma ELin1 : PV csLin1 = [1; 1 + 1; 0; 0; 0].
  Proof. unfold csLin1. cbn [map pev]. now rewrite E11, E12. Qed.

  Ltac inp H := cbn [pev] in H; rewrite ?Ec, ?Eu, ?Eg, ?El, ?E1, ?ELin1, ?E11 in H; exact H.
  Ltac byX csP uP gP := let H := fresh in pose proof (T_exact char0 rho csP uP gP) as H; inp H.
  Ltac vmdec := vm_compute; reflexivity.

  (** ** the comparison series IS the Taylor series of the exact solution: it starts at
      u0 and satisfies  d/dh E = F(E) + g E  modulo h^(N-1)  (all N-1 equations that
      involve only the N retained coefficients) *)
  Theorem exact_flow_solves_ode :
    let E := EX cs u0 g in
    tcoef E 0 = u0 /\
    forall k, (k <= 3)%nat ->
      tcoef (tderiv (@ofQ K oK) E) k = tcoef (tadd (Fser NN cs u0 E) (Gser NN g E)) k.
  Proof.
    cbv zeta.
    assert (H : tcoef (EX (PV csV) (pv p0) (pv p1)) 0 = pv p0 /\
      forall k, (k <= 3)%nat ->
      tcoef (tderiv (@ofQ K oK) (EX (PV csV) (pv p0) (pv p1))) k =
      tcoef (tadd (Fser NN (PV csV) (pv p0) (EX (PV csV) (pv p0) (pv p1)))
                  (Gser NN (pv p1) (EX (PV csV) (pv p0) (pv p1)))) k).
    { rewrite (T_exact char0 rho). split.
      - rewrite tcoef_PV. f_equal.
      - rewrite <- (HF char0 rho), <- (HG char0 rho), <- (PV_tadd char0 rho), <- (PV_tderiv char0 rho).
        apply (agree_sound char0 rho). vmdec. }
    rewrite Ec, Eu, Eg in H. exact H.
  Qed.

  (** ** Euler pair: order 1, and not 2 (u0 = g = 1, c = [1; 2; 1; 1; 1]) *)
  Theorem euler_order1 : forall k, (k <= 1)%nat ->
    tcoef (run_euler NN cs u0 g) k = tcoef (EX cs u0 g) k.
  Proof.
    apply (conclude char0 rho (eulerP csV p0 p1) (XP csV p0 p1)); [|byX csV p0 p1|vmdec].
    pose proof (T_euler char0 rho csV p0 p1) as H. inp H.
  Qed.
  Theorem euler_not_order2 :
    tcoef (run_euler NN [1; 1 + 1; 1; 1; 1] 1 1) 2 <> tcoef (EX [1; 1 + 1; 1; 1; 1] 1 1) 2.
  Proof.
    apply (conclude_ne char0 rho (eulerP cs1 pone pone) (XP cs1 pone pone)); [|byX cs1 pone pone|vmdec].
    pose proof (T_euler char0 rho cs1 pone pone) as H. inp H.
  Qed.

  (** ** Crank-Nicolson + Heun: order 2, not 3 *)
  Theorem rk2_order2 : forall k, (k <= 2)%nat ->
    tcoef (run_rk2 (@ofQ K oK) NN cs u0 g) k = tcoef (EX cs u0 g) k.
  Proof.
    apply (conclude char0 rho (rk2P csV p0 p1) (XP csV p0 p1)); [|byX csV p0 p1|vmdec].
    pose proof (T_rk2 char0 rho csV p0 p1) as H. inp H.
  Qed.
  Theorem rk2_not_order3 :
    tcoef (run_rk2 (@ofQ K oK) NN [1; 1 + 1; 1; 1; 1] 1 1) 3 <> tcoef (EX [1; 1 + 1; 1; 1; 1] 1 1) 3.
  Proof.
    apply (conclude_ne char0 rho (rk2P cs1 pone pone) (XP cs1 pone pone)); [|byX cs1 pone pone|vmdec].
    pose proof (T_rk2 char0 rho cs1 pone pone) as H. inp H.
  Qed.

  (** ** Williamson RK3 + Crank-Nicolson: order 2 for every g, not 3 in general;
      with g = 0 order 3, not 4 *)
  Notation RK3 := (fun cs u0 g => run_ls (@ofQ K oK) NN cs u0 g rk3_alphas rk3_betas rk3_gammas).
  Ltac byLS al be ga csP uP gP :=
    let H := fresh in pose proof (T_ls char0 rho csP uP gP al be ga) as H; inp H.
  Theorem rk3_order2 : forall k, (k <= 2)%nat -> tcoef (RK3 cs u0 g) k = tcoef (EX cs u0 g) k.
  Proof.
    apply (conclude char0 rho (rk3P csV p0 p1) (XP csV p0 p1)); [|byX csV p0 p1|vmdec].
    byLS rk3_alphas rk3_betas rk3_gammas csV p0 p1.
  Qed.
  Theorem rk3_not_order3_general :
    tcoef (RK3 [1; 1 + 1; 1; 1; 1] 1 1) 3 <> tcoef (EX [1; 1 + 1; 1; 1; 1] 1 1) 3.
  Proof.
    apply (conclude_ne char0 rho (rk3P cs1 pone pone) (XP cs1 pone pone)); [|byX cs1 pone pone|vmdec].
    byLS rk3_alphas rk3_betas rk3_gammas cs1 pone pone.
  Qed.
  Theorem rk3_order3_G0 : forall k, (k <= 3)%nat -> tcoef (RK3 cs u0 0) k = tcoef (EX cs u0 0) k.
  Proof.
    apply (conclude char0 rho (rk3P csV p0 []) (XP csV p0 [])); [|byX csV p0 (@nil (mono * Q))|vmdec].
    byLS rk3_alphas rk3_betas rk3_gammas csV p0 (@nil (mono * Q)).
  Qed.
  Theorem rk3_not_order4_G0 :
    tcoef (RK3 [1; 1 + 1; 1; 1; 1] 1 0) 4 <> tcoef (EX [1; 1 + 1; 1; 1; 1] 1 0) 4.
  Proof.
    apply (conclude_ne char0 rho (rk3P cs1 pone []) (XP cs1 pone [])); [|byX cs1 pone (@nil (mono * Q))|vmdec].
    byLS rk3_alphas rk3_betas rk3_gammas cs1 pone (@nil (mono * Q)).
  Qed.

  (** ** Carpenter-Kennedy RK4 + Crank-Nicolson (13-digit decimals): the h^k coefficient
      of the step equals the exact one plus the value of the defect polynomial
      [defect (rk4P ..) (XP ..) k] in (u0, g, c0..c4), all of whose coefficients are
      <= 1e-13 in absolute value for k <= 2 (general g) resp. k <= 4 (g = 0)
      ([rk4_defects_general], [rk4_defects_G0]); the h^3 coefficients differ for g <> 0 *)
  Notation RK4 := (fun cs u0 g => run_ls (@ofQ K oK) NN cs u0 g rk4_alphas rk4_betas rk4_gammas).
  Theorem rk4_order2_near : forall k,
    tcoef (RK4 cs u0 g) k = tcoef (EX cs u0 g) k + pv (defect (rk4P csV p0 p1) (XP csV p0 p1) k).
  Proof.
    apply (conclude_near char0 rho (rk4P csV p0 p1) (XP csV p0 p1)); [|byX csV p0 p1].
    byLS rk4_alphas rk4_betas rk4_gammas csV p0 p1.
  Qed.
  Theorem rk4_not_order3_general :
    tcoef (RK4 [1; 1 + 1; 1; 1; 1] 1 1) 3 <> tcoef (EX [1; 1 + 1; 1; 1; 1] 1 1) 3.
  Proof.
    apply (conclude_ne char0 rho (rk4P cs1 pone pone) (XP cs1 pone pone)); [|byX cs1 pone pone|vmdec].
    byLS rk4_alphas rk4_betas rk4_gammas cs1 pone pone.
  Qed.
  Theorem rk4_order4_G0_near : forall k,
    tcoef (RK4 cs u0 0) k = tcoef (EX cs u0 0) k + pv (defect (rk4P csV p0 []) (XP csV p0 []) k).
  Proof.
    apply (conclude_near char0 rho (rk4P csV p0 []) (XP csV p0 [])); [|byX csV p0 (@nil (mono * Q))].
    byLS rk4_alphas rk4_betas rk4_gammas csV p0 (@nil (mono * Q)).
  Qed.

  (** ** SIL3 through the zero-skipping interpreter [imex_step]: order 2 for every g,
      not 3 in general; g = 0: still only order 2 for nonlinear F (defect c0^2 c2 / 18 at
      h^3: the bushy tree), order 3 for linear F (c2 = c3 = c4 = 0), not 4 *)
  Notation SIL3 := (fun cs u0 g => run_imex (@ofQ K oK) NN cs u0 g sil3_a_ex sil3_a_im sil3_b_ex sil3_b_im).
  Lemma sil3_transfer csP uP gP : is_some_tps (sil3P csP uP gP) = true ->
    SIL3 (PV csP) (pv uP) (pv gP) = Some (PV (some_tps (sil3P csP uP gP))).
  Proof.
    intros H. cbv beta. rewrite (T_imex char0 rho). fold (sil3P csP uP gP).
    destruct (sil3P csP uP gP); [reflexivity|discriminate].
  Qed.
  Ltac bySIL csP uP gP :=
    let H := fresh in pose proof (sil3_transfer csP uP gP ltac:(vmdec)) as H; inp H.
  Theorem sil3_order2 : exists s, SIL3 cs u0 g = Some s /\
    forall k, (k <= 2)%nat -> tcoef s k = tcoef (EX cs u0 g) k.
  Proof.
    exists (PV (some_tps (sil3P csV p0 p1))). split; [bySIL csV p0 p1|].
    apply (conclude char0 rho (some_tps (sil3P csV p0 p1)) (XP csV p0 p1)); [reflexivity|byX csV p0 p1|vmdec].
  Qed.
  Theorem sil3_not_order3_general : exists s, SIL3 [1; 1 + 1; 1; 1; 1] 1 1 = Some s /\
    tcoef s 3 <> tcoef (EX [1; 1 + 1; 1; 1; 1] 1 1) 3.
  Proof.
    exists (PV (some_tps (sil3P cs1 pone pone))). split; [bySIL cs1 pone pone|].
    apply (conclude_ne char0 rho (some_tps (sil3P cs1 pone pone)) (XP cs1 pone pone)); [reflexivity|byX cs1 pone pone|vmdec].
  Qed.
  Theorem sil3_G0_nonlinear_not_order3 : exists s, SIL3 [1; 1 + 1; 1; 1; 1] 1 0 = Some s /\
    tcoef s 3 <> tcoef (EX [1; 1 + 1; 1; 1; 1] 1 0) 3.
  Proof.
    exists (PV (some_tps (sil3P cs1 pone []))). split; [bySIL cs1 pone (@nil (mono * Q))|].
    apply (conclude_ne char0 rho (some_tps (sil3P cs1 pone [])) (XP cs1 pone []));
      [reflexivity|byX cs1 pone (@nil (mono * Q))|vmdec].
  Qed.
  Theorem sil3_G0_linear_order3 : exists s, SIL3 [c0; c1; 0; 0; 0] u0 0 = Some s /\
    forall k, (k <= 3)%nat -> tcoef s k = tcoef (EX [c0; c1; 0; 0; 0] u0 0) k.
  Proof.
    exists (PV (some_tps (sil3P csLin p0 []))). split; [bySIL csLin p0 (@nil (mono * Q))|].
    apply (conclude char0 rho (some_tps (sil3P csLin p0 [])) (XP csLin p0 []));
      [reflexivity|byX csLin p0 (@nil (mono * Q))|vmdec].
  Qed.
  Theorem sil3_G0_linear_not_order4 : exists s, SIL3 [1; 1 + 1; 0; 0; 0] 1 0 = Some s /\
    tcoef s 4 <> tcoef (EX [1; 1 + 1; 0; 0; 0] 1 0) 4.
  Proof.
    exists (PV (some_tps (sil3P csLin1 pone []))). split; [bySIL csLin1 pone (@nil (mono * Q))|].
    apply (conclude_ne char0 rho (some_tps (sil3P csLin1 pone [])) (XP csLin1 pone []));
      [reflexivity|byX csLin1 pone (@nil (mono * Q))|vmdec].
  Qed.

  (** ** semi-implicit leapfrog, nonlinear F: from the exact snapshots u(-h), u(0) = u0
      the future snapshot agrees with u(h) modulo h^3 for the default alpha = 1/2 read
      from the source (second-order consistent), not modulo h^4; for alpha = 1 only
      modulo h^2 *)
  Ltac byLF al csP uP gP :=
    let H := fresh in pose proof (T_leapfrog char0 rho csP uP gP al) as H; inp H.
  Theorem leapfrog_order2 : forall k, (k <= 2)%nat ->
    tcoef (run_leapfrog (@ofQ K oK) NN cs u0 g leapfrog_alpha_default) k = tcoef (EX cs u0 g) k.
  Proof.
    apply (conclude char0 rho (lfP leapfrog_alpha_default csV p0 p1) (XP csV p0 p1)); [|byX csV p0 p1|vmdec].
    byLF leapfrog_alpha_default csV p0 p1.
  Qed.
  Theorem leapfrog_not_order3 :
    tcoef (run_leapfrog (@ofQ K oK) NN [1; 1 + 1; 1; 1; 1] 1 1 leapfrog_alpha_default) 3 <> tcoef (EX [1; 1 + 1; 1; 1; 1] 1 1) 3.
  Proof.
    apply (conclude_ne char0 rho (lfP leapfrog_alpha_default cs1 pone pone) (XP cs1 pone pone)); [|byX cs1 pone pone|vmdec].
    byLF leapfrog_alpha_default cs1 pone pone.
  Qed.
  Theorem leapfrog_alpha1_order1_only :
    (forall k, (k <= 1)%nat -> tcoef (run_leapfrog (@ofQ K oK) NN cs u0 g 1) k = tcoef (EX cs u0 g) k) /\
    tcoef (run_leapfrog (@ofQ K oK) NN [1; 1 + 1; 1; 1; 1] 1 1 1) 2 <> tcoef (EX [1; 1 + 1; 1; 1; 1] 1 1) 2.
  Proof.
    split.
    - apply (conclude char0 rho (lfP 1 csV p0 p1) (XP csV p0 p1)); [|byX csV p0 p1|vmdec].
      byLF 1%Q csV p0 p1.
    - apply (conclude_ne char0 rho (lfP 1 cs1 pone pone) (XP cs1 pone pone)); [|byX cs1 pone pone|vmdec].
      byLF 1%Q cs1 pone pone.
  Qed.
End Main.

(** * 6. The implicit solve: the geometric series IS the inverse of 1 - eta g in the
    truncated ring.  For every x = x0 + .. + x4 h^4 and every eta = e1 h + .. + e4 h^4
    without constant term (eta = dt * coefficient in every stage), y = Ginvser g x eta
    satisfies  y - eta g y = x  (all N retained coefficients), i.e. the hypothesis
    [Ginv_solves] of C06_lowstorage_is_ark / C06_direct_schemes_are_ark holds for it. *)
Definition xP : list poly := [pvar 0; pvar 1; pvar 2; pvar 3; pvar 4].
Definition etaP : list poly := [[]; pvar 5; pvar 6; pvar 7; pvar 8].
Definition gP9 : poly := pvar 9.
Section GinvSolves.
  Context {K : Type} {oK : Ops K} {Kc : FieldC oK}.
  Hypothesis char0 : forall p : positive, @ofZ K oK (Zpos p) <> 0.
  Variables x0 x1 x2 x3 x4 e1 e2 e3 e4 g : K.
  Let rho := fun i => nth i [x0; x1; x2; x3; x4; e1; e2; e3; e4; g] 0.
  Local Existing Instance POps.
  Theorem Ginvser_solves :
    let x := [x0; x1; x2; x3; x4] in let eta := [0; e1; e2; e3; e4] in
    let y := Ginvser NN g x eta in
    forall k, (k <= 4)%nat -> tcoef (tsub y (tmul NN eta (Gser NN g y))) k = tcoef x k.
  Proof.
    cbv zeta.
    assert (H : forall k, (k <= 4)%nat ->
      tcoef (tsub (Ginvser NN (pev rho gP9) (map (pev rho) xP) (map (pev rho) etaP))
                  (tmul NN (map (pev rho) etaP)
                     (Gser NN (pev rho gP9) (Ginvser NN (pev rho gP9) (map (pev rho) xP) (map (pev rho) etaP))))) k
      = tcoef (map (pev rho) xP) k).
    { rewrite <- (HGi char0 rho), <- (HG char0 rho), <- (PV_tmul char0 rho), <- (PV_tsub char0 rho).
      apply (agree_sound char0 rho). vm_compute. reflexivity. }
    unfold xP, etaP, gP9 in H. cbn [map pev] in H.
    rewrite !(pev_pvar rho) in H by (unfold nv; lia). exact H.
  Qed.
End GinvSolves.
