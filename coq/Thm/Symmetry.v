(** Theorems for property C10: equivariance of the building blocks of the
    dynamical core under rotations about the polar axis (by an angle with
    abstract per-wavenumber tables c, s) and under the reflection about the
    equator.  Every field, every size, both modal layouts. *)
From Dino Require Import Base.Ops Base.Sums Base.Ord Gen.DerivExprs Model.SHT Model.Deriv Model.Invariants Model.Sigma Model.Implicit
     Model.PrimEq Model.Symmetry Thm.SHT Thm.Deriv Thm.PrimEq Thm.Implicit.
From Coq Require Import ZifyNat.
Local Open Scope F_scope.
Ltac Zify.zify_post_hook ::= Z.div_mod_to_equations.

(** * 1. row bookkeeping of the two layouts *)

(** the definitions of this file are the ones Thm/Deriv.v uses for d_dlon *)
Lemma sy_wav_jmul fast i : sy_wav fast i = jmul fast i. Proof. reflexivity. Qed.
Lemma sy_cos_dcond fast i : sy_cos fast i = dcond fast i. Proof. reflexivity. Qed.
Lemma sy_partner_partner fast i : sy_partner fast i = partner fast i. Proof. reflexivity. Qed.

(** shape of a row: cosine row of a pair, sine row of a pair, or the single m = 0 row of the reference layout *)
Inductive row_shape (fast : bool) (R i : nat) : Prop :=
| RowCos : sy_cos fast i = true -> sy_partner fast i = S i -> (S i < R)%nat ->
           sy_cos fast (S i) = false -> sy_wav fast (S i) = sy_wav fast i -> sy_partner fast (S i) = i ->
           row_shape fast R i
| RowSin : sy_cos fast i = false -> (1 <= i)%nat -> sy_partner fast i = (i - 1)%nat ->
           sy_cos fast (i - 1) = true -> sy_wav fast (i - 1) = sy_wav fast i -> sy_partner fast (i - 1) = i ->
           row_shape fast R i
| RowZero : fast = false -> i = 0%nat -> sy_cos fast i = false -> sy_partner fast i = 0%nat -> sy_wav fast i = 0%nat ->
            row_shape fast R i.

Lemma even_odd_cases i : (i mod 2 = 0 \/ i mod 2 = 1)%nat.
Proof. lia. Qed.

Lemma row_cases fast R i : layout_ok fast R -> (i < R)%nat -> row_shape fast R i.
Proof.
  intros HR Hi. unfold layout_ok in HR.
  destruct fast.
  - destruct (even_odd_cases i) as [E|E].
    + apply RowCos; unfold sy_partner, sy_cos, sy_wav, dfast_cond, dfast_j; cbn [negb].
      * replace ((i + 1) mod 2)%nat with 1%nat by lia. reflexivity.
      * replace ((i + 1) mod 2)%nat with 1%nat by lia. reflexivity.
      * lia.
      * replace ((S i + 1) mod 2)%nat with 0%nat by lia. reflexivity.
      * lia.
      * replace ((S i + 1) mod 2)%nat with 0%nat by lia. cbn. lia.
    + apply RowSin; unfold sy_partner, sy_cos, sy_wav, dfast_cond, dfast_j; cbn [negb].
      * replace ((i + 1) mod 2)%nat with 0%nat by lia. reflexivity.
      * lia.
      * replace ((i + 1) mod 2)%nat with 0%nat by lia. reflexivity.
      * replace ((i - 1 + 1) mod 2)%nat with 1%nat by lia. reflexivity.
      * lia.
      * replace ((i - 1 + 1) mod 2)%nat with 1%nat by lia. cbn. lia.
  - destruct (Nat.eq_dec i 0) as [->|Hn].
    + apply RowZero; reflexivity.
    + destruct (even_odd_cases i) as [E|E].
      * apply RowSin; unfold sy_partner, sy_cos, sy_wav, dref_cond, dref_j; cbn [negb].
        -- rewrite E. reflexivity.
        -- lia.
        -- rewrite E. reflexivity.
        -- replace ((i - 1) mod 2)%nat with 1%nat by lia. reflexivity.
        -- lia.
        -- replace ((i - 1) mod 2)%nat with 1%nat by lia. cbn. lia.
      * apply RowCos; unfold sy_partner, sy_cos, sy_wav, dref_cond, dref_j; cbn [negb].
        -- rewrite E. reflexivity.
        -- rewrite E. reflexivity.
        -- lia.
        -- replace (S i mod 2)%nat with 0%nat by lia. reflexivity.
        -- lia.
        -- replace (S i mod 2)%nat with 0%nat by lia. cbn. lia.
Qed.

Lemma partner_lt fast R i : layout_ok fast R -> (i < R)%nat -> (sy_partner fast i < R)%nat.
Proof. intros HR Hi. destruct (row_cases fast R i HR Hi) as [? -> ? ? ? ?|? ? -> ? ? ?|? ? ? -> ?]; lia. Qed.

Lemma partner_wav fast R i : layout_ok fast R -> (i < R)%nat -> sy_wav fast (sy_partner fast i) = sy_wav fast i.
Proof.
  intros HR Hi. destruct (row_cases fast R i HR Hi) as [? -> ? ? E ?|? ? -> ? E ?|? -> ? -> E]; try exact E. reflexivity.
Qed.

Lemma partner_invol fast R i : layout_ok fast R -> (i < R)%nat -> sy_partner fast (sy_partner fast i) = i.
Proof.
  intros HR Hi. destruct (row_cases fast R i HR Hi) as [? -> ? ? ? E|? ? -> ? ? E|? -> ? E ?]; try exact E.
  now rewrite !E.
Qed.

Section SymThm.
  Context {F : Type} {o : Ops F} {Fc : FieldC o}.
  Add Field FFsy : (field_c : FieldTh o).

  (** ** signs *)
  Lemma sgn_pow_S n : sgn_pow (S n) = - sgn_pow n.
  Proof.
    unfold sgn_pow. rewrite Nat.even_succ, <- Nat.negb_even. destruct (Nat.even n); cbn [negb]; ring.
  Qed.
  Lemma sgn_pow_sq n : sgn_pow n * sgn_pow n = 1.
  Proof. unfold sgn_pow. destruct (Nat.even n); ring. Qed.
  Lemma sgn_pow_pred n : (1 <= n)%nat -> sgn_pow (n - 1) = - sgn_pow n.
  Proof. intros H. replace n with (S (n - 1)) at 2 by lia. rewrite sgn_pow_S. ring. Qed.
  Lemma sgn_if_sq b : sgn_if b * sgn_if b = 1.
  Proof. destruct b; cbn; ring. Qed.
  Lemma sgn_if_negb b : sgn_if (negb b) = - sgn_if b.
  Proof. destruct b; cbn; ring. Qed.

  (** the signed sine entry flips between the two rows of a pair and vanishes for wavenumber 0 *)
  Lemma rot_s_partner fast R (s : nat -> F) i :
    layout_ok fast R -> (i < R)%nat -> s 0%nat = 0 ->
    rot_s fast s (sy_partner fast i) = - rot_s fast s i.
  Proof.
    intros HR Hi H0. unfold rot_s.
    destruct (row_cases fast R i HR Hi) as [E1 E2 ? E3 E4 ?|E1 ? E2 E3 E4 ?|? ? E1 E2 E3].
    - rewrite E2, E3, E4, E1. reflexivity.
    - rewrite E2, E3, E4, E1. ring.
    - rewrite E2. subst i. rewrite E1, E3, H0. ring.
  Qed.

  Lemma rot_s_wav0 fast (s : nat -> F) i : s 0%nat = 0 -> sy_wav fast i = 0%nat -> rot_s fast s i = 0.
  Proof. intros H0 E. unfold rot_s. rewrite E, H0. destruct (sy_cos fast i); ring. Qed.

  (** * 2. the actions form a group *)
  Section Group.
    Variables (fast : bool) (R : nat).
    Hypothesis HR : layout_ok fast R.

    Theorem rot_compose (c1 s1 c2 s2 : nat -> F) (x : marr) i l :
      (i < R)%nat -> s1 0%nat = 0 -> s2 0%nat = 0 ->
      rot_modal fast c1 s1 (rot_modal fast c2 s2 x) i l
      = rot_modal fast (rot_c_comp c1 s1 c2 s2) (rot_s_comp c1 s1 c2 s2) x i l.
    Proof.
      intros Hi H1 H2. unfold rot_modal.
      rewrite (partner_invol fast R i HR Hi), (partner_wav fast R i HR Hi).
      rewrite (rot_s_partner fast R s2 i HR Hi H2).
      unfold rot_c_comp, rot_s_comp, rot_s. destruct (sy_cos fast i); ring.
    Qed.

    Theorem rot_identity (c s : nat -> F) (x : marr) i l :
      (forall j, c j = 1) -> (forall j, s j = 0) -> rot_modal fast c s x i l = x i l.
    Proof.
      intros Hc Hs. unfold rot_modal, rot_s. rewrite Hc, Hs. destruct (sy_cos fast i); ring.
    Qed.

    (** with c^2 + s^2 = 1 the rotation by (c, -s) undoes the rotation by (c, s): the action is a bijection *)
    Theorem rot_inverse (c s : nat -> F) (x : marr) i l :
      (i < R)%nat -> s 0%nat = 0 -> (forall j, c j * c j + s j * s j = 1) ->
      rot_modal fast c (rot_s_inv s) (rot_modal fast c s x) i l = x i l /\
      rot_modal fast c s (rot_modal fast c (rot_s_inv s) x) i l = x i l.
    Proof.
      intros Hi H0 Hu.
      assert (H0' : rot_s_inv s 0%nat = 0) by (unfold rot_s_inv; rewrite H0; ring).
      split.
      - rewrite rot_compose by assumption. unfold rot_modal, rot_c_comp, rot_s_comp, rot_s_inv, rot_s.
        generalize (Hu (sy_wav fast i)); intros E.
        destruct (sy_cos fast i);
          match goal with |- ?a * ?X + ?b * ?Y = _ =>
            transitivity ((c (sy_wav fast i) * c (sy_wav fast i) + s (sy_wav fast i) * s (sy_wav fast i)) * X); [ring|rewrite E; ring] end.
      - rewrite rot_compose by assumption. unfold rot_modal, rot_c_comp, rot_s_comp, rot_s_inv, rot_s.
        generalize (Hu (sy_wav fast i)); intros E.
        destruct (sy_cos fast i);
          match goal with |- ?a * ?X + ?b * ?Y = _ =>
            transitivity ((c (sy_wav fast i) * c (sy_wav fast i) + s (sy_wav fast i) * s (sy_wav fast i)) * X); [ring|rewrite E; ring] end.
    Qed.

    (** unit tables stay unit under composition (angle addition) *)
    Lemma rot_comp_unit (c1 s1 c2 s2 : nat -> F) j :
      c1 j * c1 j + s1 j * s1 j = 1 -> c2 j * c2 j + s2 j * s2 j = 1 ->
      rot_c_comp c1 s1 c2 s2 j * rot_c_comp c1 s1 c2 s2 j + rot_s_comp c1 s1 c2 s2 j * rot_s_comp c1 s1 c2 s2 j = 1.
    Proof.
      intros E1 E2. unfold rot_c_comp, rot_s_comp.
      transitivity ((c1 j * c1 j + s1 j * s1 j) * (c2 j * c2 j + s2 j * s2 j)); [ring|rewrite E1, E2; ring].
    Qed.

    Lemma rot_pow_s0 k (c s : nat -> F) : s 0%nat = 0 -> rot_s_pow k c s 0%nat = 0.
    Proof.
      intros H0. induction k as [|k IH]; [reflexivity|].
      cbn [rot_s_pow]. unfold rot_s_comp. rewrite H0, IH. ring.
    Qed.

    Lemma rot_pow_unit k (c s : nat -> F) j :
      c j * c j + s j * s j = 1 ->
      rot_c_pow k c s j * rot_c_pow k c s j + rot_s_pow k c s j * rot_s_pow k c s j = 1.
    Proof.
      intros Hu. induction k as [|k IH]; [cbn; ring|].
      cbn [rot_c_pow rot_s_pow]. apply rot_comp_unit; assumption.
    Qed.

    (** the rotation by k+1 steps is one step after k steps *)
    Theorem rot_pow_succ k (c s : nat -> F) (x : marr) i l :
      (i < R)%nat -> s 0%nat = 0 ->
      rot_modal fast (rot_c_pow (S k) c s) (rot_s_pow (S k) c s) x i l
      = rot_modal fast c s (rot_modal fast (rot_c_pow k c s) (rot_s_pow k c s) x) i l.
    Proof.
      intros Hi H0. rewrite rot_compose; [reflexivity|assumption|assumption|apply rot_pow_s0; assumption].
    Qed.

    Theorem mir_involutive ps (x : marr) i l : mir_modal fast ps (mir_modal fast ps x) i l = x i l.
    Proof.
      unfold mir_modal.
      transitivity ((sgn_if ps * sgn_if ps) * (sgn_pow (l + sy_wav fast i) * sgn_pow (l + sy_wav fast i)) * x i l); [ring|].
      rewrite sgn_if_sq, sgn_pow_sq. ring.
    Qed.

    Theorem rot_mir_commute ps (c s : nat -> F) (x : marr) i l :
      (i < R)%nat ->
      mir_modal fast ps (rot_modal fast c s x) i l = rot_modal fast c s (mir_modal fast ps x) i l.
    Proof.
      intros Hi. unfold mir_modal, rot_modal. rewrite (partner_wav fast R i HR Hi). ring.
    Qed.

    Lemma mir_pseudo (x : marr) i l : mir_modal fast true x i l = - mir_modal fast false x i l.
    Proof. unfold mir_modal. cbn. ring. Qed.
  End Group.

  (** * 3. finite-sum lemmas: cyclic shifts and cos/sin pairs *)
  Lemma sumn_shift_lt n k (g : nat -> F) :
    (k <= n)%nat -> sumn n (fun i => g ((i + k) mod n)%nat) = sumn n g.
  Proof.
    intros Hk.
    destruct (Nat.eq_dec n 0) as [->|Hn]; [reflexivity|].
    assert (E1 : sumn n (fun i => g ((i + k) mod n)%nat) = sumn ((n - k) + k) (fun i => g ((i + k) mod n)%nat))
      by (f_equal; lia).
    assert (E2 : sumn n g = sumn (k + (n - k)) g) by (f_equal; lia).
    rewrite E1, E2, !sumn_split.
    rewrite (sumn_ext (n - k) (fun i => g ((i + k) mod n)%nat) (fun i => g (k + i)%nat)).
    2:{ intros i Hi. f_equal. rewrite Nat.mod_small by lia. lia. }
    rewrite (sumn_ext k (fun i => g ((n - k + i + k) mod n)%nat) g).
    2:{ intros i Hi. f_equal. replace (n - k + i + k)%nat with (i + 1 * n)%nat by lia.
        rewrite Nat.mod_add by lia. apply Nat.mod_small. lia. }
    ring.
  Qed.

  Lemma sumn_cyclic_shift n k (g : nat -> F) :
    sumn n (fun i => g ((i + k) mod n)%nat) = sumn n g.
  Proof.
    destruct (Nat.eq_dec n 0) as [->|Hn]; [reflexivity|].
    rewrite <- (sumn_shift_lt n (k mod n) g) by (pose proof (Nat.mod_upper_bound k n Hn); lia).
    apply sumn_ext; intros i Hi. f_equal.
    rewrite Nat.add_mod_idemp_r by lia. reflexivity.
  Qed.

  Lemma sumn_pairs_even n (g : nat -> F) :
    sumn (2 * n) g = sumn n (fun j => g (2 * j)%nat + g (2 * j + 1)%nat).
  Proof.
    induction n as [|n IH]; [reflexivity|].
    replace (2 * S n)%nat with (S (S (2 * n))) by lia.
    cbn [sumn]. rewrite IH. replace (2 * n + 1)%nat with (S (2 * n)) by lia. ring.
  Qed.

  Lemma sumn_pairs_odd n (g : nat -> F) :
    sumn (2 * n + 1) g = g 0%nat + sumn n (fun j => g (2 * j + 1)%nat + g (2 * j + 2)%nat).
  Proof.
    induction n as [|n IH]; [cbn; ring|].
    replace (2 * S n + 1)%nat with (S (S (2 * n + 1))) by lia.
    cbn [sumn]. rewrite IH.
    replace (2 * n + 2)%nat with (S (2 * n + 1)) by lia. ring.
  Qed.

  (** a sum over the rows vanishes if the two rows of every pair cancel (and row 0 of the reference layout is zero) *)
  Lemma sumn_rows_cancel fast R (h : nat -> F) :
    layout_ok fast R ->
    (forall i, (i < R)%nat -> h i + h (sy_partner fast i) = 0) ->
    (fast = false -> h 0%nat = 0) ->
    sumn R h = 0.
  Proof.
    intros HR Hp H0. unfold layout_ok in HR. destruct fast.
    - replace R with (2 * (R / 2))%nat by lia. rewrite sumn_pairs_even.
      apply sumn_zero; intros j Hj.
      assert (Hi : (2 * j < R)%nat) by lia.
      generalize (Hp (2 * j)%nat Hi). unfold sy_partner, sy_cos, dfast_cond.
      replace ((2 * j + 1) mod 2)%nat with 1%nat by lia. cbn [Nat.eqb negb].
      replace (S (2 * j)) with (2 * j + 1)%nat by lia. auto.
    - replace R with (2 * (R / 2) + 1)%nat by lia. rewrite sumn_pairs_odd.
      rewrite (H0 eq_refl), sumn_zero; [ring|].
      intros j Hj.
      assert (Hi : (2 * j + 1 < R)%nat) by lia.
      generalize (Hp (2 * j + 1)%nat Hi). unfold sy_partner, sy_cos, dref_cond.
      replace ((2 * j + 1) mod 2)%nat with 1%nat by lia. cbn [Nat.eqb negb].
      replace (S (2 * j + 1)) with (2 * j + 2)%nat by lia. auto.
  Qed.

  Lemma eq_of_sub_zero (x y : F) : x - y = 0 -> x = y.
  Proof. intros H. transitivity ((x - y) + y); [ring|rewrite H; ring]. Qed.
End SymThm.

(** * 4. the transforms are equivariant (Model/SHT.v synthesis / analysis over tables f, p, w) *)
Section Transforms.
  Context {F : Type} {o : Ops F} {Fc : FieldC o}.
  Add Field FFsy2 : (field_c : FieldTh o).
  Variables (fast : bool) (K L I J : nat).
  Variable f : nat -> nat -> F.
  Variable p : nat -> nat -> nat -> F.
  Variable w : nat -> F.
  Hypothesis HK : layout_ok fast K.

  (** named table hypotheses (re-checked numerically by the plugin on every explored grid) *)
  (** the real Fourier basis sampled k nodes further is the basis rotated by the angle with tables (c, s) *)
  Definition H_rot_table (k : nat) (c s : nat -> F) : Prop :=
    forall i a, (i < I)%nat -> (a < K)%nat ->
      f ((i + k) mod I)%nat a = c (sy_wav fast a) * f i a - rot_s fast s a * f i (sy_partner fast a).
  (** the cosine and the sine row of a wavenumber use the same Legendre table *)
  Definition H_p_pairs : Prop :=
    forall a j l, (a < K)%nat -> (j < J)%nat -> (l < L)%nat -> p (sy_partner fast a) j l = p a j l.
  (** parity of the associated Legendre functions on nodes symmetric about the equator *)
  Definition H_parity : Prop :=
    forall a j l, (a < K)%nat -> (j < J)%nat -> (l < L)%nat ->
      p a (J - 1 - j)%nat l = sgn_pow (l + sy_wav fast a) * p a j l.
  (** quadrature weights symmetric about the equator *)
  Definition H_nodes_sym : Prop := forall j, (j < J)%nat -> w (J - 1 - j)%nat = w j.
  (** unit rotation tables *)
  Definition H_rot_unit (c s : nat -> F) : Prop := s 0%nat = 0 /\ forall j, c j * c j + s j * s j = 1.

  Lemma H_rot_table_residual k c s :
    H_rot_table k c s <-> forall i a, (i < I)%nat -> (a < K)%nat -> rot_table_residual fast I k c s f i a = 0.
  Proof.
    unfold H_rot_table, rot_table_residual. split; intros H i a Hi Ha.
    - rewrite (H i a Hi Ha). ring.
    - apply eq_of_sub_zero. exact (H i a Hi Ha).
  Qed.

  Lemma H_parity_residual :
    H_parity <-> forall a j l, (a < K)%nat -> (j < J)%nat -> (l < L)%nat -> parity_residual fast J p a j l = 0.
  Proof.
    unfold H_parity, parity_residual. split; intros H a j l Ha Hj Hl.
    - rewrite (H a j l Ha Hj Hl). ring.
    - apply eq_of_sub_zero. exact (H a j l Ha Hj Hl).
  Qed.

  Lemma rot_s_sq (s : nat -> F) a : rot_s fast s a * rot_s fast s a = s (sy_wav fast a) * s (sy_wav fast a).
  Proof. unfold rot_s. destruct (sy_cos fast a); ring. Qed.

  (** the table rotated back: f[i, .] from f[i+k, .] *)
  Lemma rot_table_inv k c s i a :
    H_rot_table k c s -> H_rot_unit c s -> (i < I)%nat -> (a < K)%nat ->
    c (sy_wav fast a) * f ((i + k) mod I)%nat a + rot_s fast s a * f ((i + k) mod I)%nat (sy_partner fast a) = f i a.
  Proof.
    intros Ht [H0 Hu] Hi Ha.
    pose proof (partner_lt fast K a HK Ha) as Hpa.
    rewrite (Ht i a Hi Ha), (Ht i _ Hi Hpa).
    rewrite (partner_invol fast K a HK Ha), (partner_wav fast K a HK Ha), (rot_s_partner fast K s a HK Ha H0).
    transitivity ((c (sy_wav fast a) * c (sy_wav fast a) + rot_s fast s a * rot_s fast s a) * f i a); [ring|].
    rewrite rot_s_sq, Hu. ring.
  Qed.

  (** synthesis of the rotated coefficients = synthesis shifted by k longitude nodes *)
  Theorem synth_rot_equivariant k c s (x : marr) i j :
    H_rot_table k c s -> H_p_pairs -> s 0%nat = 0 -> (i < I)%nat -> (j < J)%nat ->
    synth K L J f p (rot_modal fast c s x) i j = shift_lon I k (synth K L J f p x) i j.
  Proof.
    intros Ht Hpp H0 Hi Hj. unfold shift_lon. rewrite !synth_eq by assumption. unfold sum2, ylm.
    set (P := fun a => sumn L (fun l => p a j l * x a l)).
    assert (A : forall a, (a < K)%nat ->
               sumn L (fun l => f i a * p a j l * rot_modal fast c s x a l)
               = f i a * (c (sy_wav fast a) * P a + rot_s fast s a * P (sy_partner fast a))).
    { intros a Ha. unfold P, rot_modal.
      rewrite <- (sumn_scal_l L (c (sy_wav fast a))), <- (sumn_scal_l L (rot_s fast s a)), <- sumn_add, <- sumn_scal_l.
      apply sumn_ext; intros l Hl. rewrite (Hpp a j l Ha Hj Hl). ring. }
    assert (B : forall a, (a < K)%nat ->
               sumn L (fun l => f ((i + k) mod I)%nat a * p a j l * x a l)
               = (c (sy_wav fast a) * f i a - rot_s fast s a * f i (sy_partner fast a)) * P a).
    { intros a Ha. unfold P. rewrite <- sumn_scal_l. apply sumn_ext; intros l Hl.
      rewrite (Ht i a Hi Ha). ring. }
    rewrite (sumn_ext K _ _ A), (sumn_ext K _ _ B).
    apply eq_of_sub_zero. rewrite <- sumn_sub.
    rewrite (sumn_ext K _ (fun a => rot_s fast s a * (f i a * P (sy_partner fast a) + f i (sy_partner fast a) * P a))).
    2:{ intros a _. ring. }
    apply (sumn_rows_cancel fast K _ HK).
    - intros a Ha.
      rewrite (partner_invol fast K a HK Ha), (rot_s_partner fast K s a HK Ha H0). ring.
    - intros ->. rewrite (rot_s_wav0 false s 0%nat H0 eq_refl). ring.
  Qed.

  (** analysis of the shifted field = rotation of the analysed coefficients *)
  Theorem analysis_rot_equivariant k c s (z : marr) a l :
    H_rot_table k c s -> H_p_pairs -> H_rot_unit c s -> (a < K)%nat -> (l < L)%nat ->
    analysis K I J f p w (shift_lon I k z) a l = rot_modal fast c s (analysis K I J f p w z) a l.
  Proof.
    intros Ht Hpp Hun Ha Hl. pose proof (partner_lt fast K a HK Ha) as Hpa.
    unfold rot_modal. rewrite !analysis_eq by assumption. unfold sum2, ylm, shift_lon.
    set (G := fun i => sumn J (fun j => w j * p a j l * (c (sy_wav fast a) * f i a + rot_s fast s a * f i (sy_partner fast a)) * z i j)).
    transitivity (sumn I G).
    2:{ unfold G. rewrite <- !sumn_scal_l, <- sumn_add. apply sumn_ext; intros i Hi.
        rewrite <- !sumn_scal_l, <- sumn_add. apply sumn_ext; intros j Hj.
        rewrite (Hpp a j l Ha Hj Hl). ring. }
    rewrite <- (sumn_cyclic_shift I k G).
    apply sumn_ext; intros i Hi. unfold G. apply sumn_ext; intros j Hj.
    rewrite (rot_table_inv k c s i a Ht Hun Hi Ha). ring.
  Qed.

  (** mirror: coefficients times (-1)^(l+m) <-> latitude index reversed *)
  Theorem synth_mir_equivariant ps (x : marr) i j :
    H_parity -> (j < J)%nat ->
    synth K L J f p (mir_modal fast ps x) i j = sgn_if ps * flip_lat J (synth K L J f p x) i j.
  Proof.
    intros Hp Hj. unfold flip_lat. rewrite !synth_eq by lia. unfold sum2, ylm.
    rewrite <- sumn_scal_l. apply sumn_ext; intros a Ha.
    rewrite <- sumn_scal_l. apply sumn_ext; intros l Hl.
    rewrite (Hp a j l Ha Hj Hl). unfold mir_modal. ring.
  Qed.

  Theorem analysis_mir_equivariant ps (z : marr) a l :
    H_parity -> H_nodes_sym -> (a < K)%nat -> (l < L)%nat ->
    analysis K I J f p w (fun i j => sgn_if ps * flip_lat J z i j) a l = mir_modal fast ps (analysis K I J f p w z) a l.
  Proof.
    intros Hp Hw Ha Hl. unfold mir_modal. rewrite !analysis_eq by assumption. unfold sum2, ylm, flip_lat.
    rewrite <- sumn_scal_l. apply sumn_ext; intros i Hi.
    rewrite (sumn_rev J (fun j => w j * (f i a * p a j l) * z i j)).
    rewrite <- sumn_scal_l. apply sumn_ext; intros j Hj.
    rewrite (Hw j Hj), (Hp a j l Ha Hj Hl).
    transitivity ((sgn_pow (l + sy_wav fast a) * sgn_pow (l + sy_wav fast a)) *
                  (sgn_if ps * (w j * (f i a * p a j l) * z i (J - 1 - j)%nat))); [rewrite sgn_pow_sq; ring|ring].
  Qed.
End Transforms.

(** * 5. nodal pointwise operations, column operators, spectral operators *)
Section Operators.
  Context {F : Type} {o : Ops F} {Fc : FieldC o}.
  Add Field FFsy3 : (field_c : FieldTh o).
  Variables (fast : bool) (R : nat).
  Hypothesis HR : layout_ok fast R.

  (** ** pointwise nodal operations commute with every re-indexing of the nodes *)
  Definition reindex (pi : nat -> nat -> nat * nat) (u : nat -> nat -> F) : nat -> nat -> F := fun i j => u (fst (pi i j)) (snd (pi i j)).

  Theorem nodal_pointwise_any (phi : F -> F -> F) pi (y z : marr) i j :
    reindex pi (fun i j => phi (y i j) (z i j)) i j = phi (reindex pi y i j) (reindex pi z i j).
  Proof. reflexivity. Qed.

  Theorem nodal_mul_shift_flip I J k (y z : marr) i j :
    nodal_mul (shift_lon I k y) (shift_lon I k z) i j = shift_lon I k (nodal_mul y z) i j /\
    nodal_mul (flip_lat J y) (flip_lat J z) i j = flip_lat J (nodal_mul y z) i j /\
    (* odd x odd = even, odd x even = odd *)
    nodal_mul (fun i j => - flip_lat J y i j) (fun i j => - flip_lat J z i j) i j = flip_lat J (nodal_mul y z) i j /\
    nodal_mul (fun i j => - flip_lat J y i j) (flip_lat J z) i j = - flip_lat J (nodal_mul y z) i j.
  Proof. unfold nodal_mul, shift_lon, flip_lat. repeat split; ring. Qed.

  (** ** column (vertical) operators act pointwise in the horizontal *)
  Theorem column_op_equivariant N (A : nat -> nat -> F) (x : stack3) (c s : nat -> F) ps I J k n i l :
    column_op N A (rot_stack fast c s x) n i l = rot_stack fast c s (column_op N A x) n i l /\
    column_op N A (mir_stack fast ps x) n i l = mir_stack fast ps (column_op N A x) n i l /\
    column_op N A (fun n => shift_lon I k (x n)) n i l = shift_lon I k (column_op N A x n) i l /\
    column_op N A (fun n => flip_lat J (x n)) n i l = flip_lat J (column_op N A x n) i l.
  Proof.
    unfold column_op, rot_stack, mir_stack, rot_modal, mir_modal, shift_lon, flip_lat. repeat split; try reflexivity.
    - rewrite <- !sumn_scal_l, <- sumn_add. apply sumn_ext; intros; ring.
    - rewrite <- !sumn_scal_l. apply sumn_ext; intros; ring.
  Qed.

  (** ** longitude derivative *)
  Lemma dlon_row (x : marr) i l :
    (i < R)%nat ->
    d_dlon fast R x i l = (if sy_cos fast i then lit (sy_wav fast i) else - lit (sy_wav fast i)) * x (sy_partner fast i) l.
  Proof. intros Hi. exact (proj2 (d_dlon_partner fast R x i l HR Hi)). Qed.

  Theorem dlon_rot_commute (c s : nat -> F) (x : marr) i l :
    (i < R)%nat -> s 0%nat = 0 ->
    d_dlon fast R (rot_modal fast c s x) i l = rot_modal fast c s (d_dlon fast R x) i l.
  Proof.
    intros Hi H0. pose proof (partner_lt fast R i HR Hi) as Hp.
    rewrite dlon_row by assumption. unfold rot_modal. rewrite !dlon_row by assumption.
    rewrite (partner_invol fast R i HR Hi), (partner_wav fast R i HR Hi), (rot_s_partner fast R s i HR Hi H0).
    destruct (row_cases fast R i HR Hi) as [E1 E2 ? E3 E4 ?|E1 ? E2 E3 E4 ?|? ? E1 E2 E3].
    - rewrite E2, E3, E1. unfold rot_s. rewrite E1. ring.
    - rewrite E2, E3, E1. unfold rot_s. rewrite E1. ring.
    - rewrite E2. subst i. rewrite E1, E3. cbn [lit]. ring.
  Qed.

  Theorem dlon_mir_commute ps (x : marr) i l :
    (i < R)%nat -> d_dlon fast R (mir_modal fast ps x) i l = mir_modal fast ps (d_dlon fast R x) i l.
  Proof.
    intros Hi. rewrite dlon_row by assumption. unfold mir_modal. rewrite dlon_row by assumption.
    rewrite (partner_wav fast R i HR Hi). ring.
  Qed.

  (** ** functions of the total wavenumber only: laplacian, inverse laplacian, clip, spectral filters *)
  Theorem l_scale_equivariant (e : nat -> F) (c s : nat -> F) ps (x : marr) i l :
    l_scale e (rot_modal fast c s x) i l = rot_modal fast c s (l_scale e x) i l /\
    l_scale e (mir_modal fast ps x) i l = mir_modal fast ps (l_scale e x) i l.
  Proof. unfold l_scale, rot_modal, mir_modal. split; ring. Qed.

  Lemma laplacian_is_l_scale L r (x : marr) : laplacian L r x = l_scale (lap_eig L r) x.
  Proof. reflexivity. Qed.
  Lemma inverse_laplacian_is_l_scale L r (x : marr) : inverse_laplacian L r x = l_scale (inv_eig L r) x.
  Proof. reflexivity. Qed.
  Lemma clip_is_l_scale L C n (x : marr) :
    clip L C n x = l_scale (fun l => if Nat.ltb l (C - (n + (C - L))) then 1 else 0) x.
  Proof. reflexivity. Qed.

  (** ** tridiagonal latitude operators (cos_lat_d_dlat, sec_lat_d_dlat_cos2): they shift l by +-1 *)
  Lemma tri_rot_commute C (wm wp : nat -> nat -> F) (c s : nat -> F) (x : marr) i l :
    (i < R)%nat -> s 0%nat = 0 -> sym_rows fast R wm -> sym_rows fast R wp ->
    tri C wm wp (rot_modal fast c s x) i l = rot_modal fast c s (tri C wm wp x) i l.
  Proof.
    intros Hi H0 Sm Sp. unfold tri, rot_modal.
    destruct (Nat.eq_dec (sy_wav fast i) 0) as [E|E].
    - rewrite (rot_s_wav0 fast s i H0 E). destruct (Nat.ltb (S l) C), (Nat.eqb l 0); ring.
    - pose proof (Sm i (S l) Hi E) as E1. pose proof (Sp i (l - 1)%nat Hi E) as E2.
      change (partner fast i) with (sy_partner fast i) in E1, E2. rewrite <- E1, <- E2.
      destruct (Nat.ltb (S l) C), (Nat.eqb l 0); ring.
  Qed.

  Lemma tri_mir_anticommute C (wm wp : nat -> nat -> F) ps (x : marr) i l :
    tri C wm wp (mir_modal fast ps x) i l = mir_modal fast (negb ps) (tri C wm wp x) i l.
  Proof.
    unfold tri, mir_modal. rewrite sgn_if_negb.
    change (S l + sy_wav fast i)%nat with (S (l + sy_wav fast i)). rewrite sgn_pow_S.
    destruct (Nat.eqb_spec l 0) as [->|Hl].
    - destruct (Nat.ltb 1 C); ring.
    - replace (l - 1 + sy_wav fast i)%nat with (l + sy_wav fast i - 1)%nat by lia.
      rewrite sgn_pow_pred by lia. destruct (Nat.ltb (S l) C); ring.
  Qed.

  Lemma sym_rows_scale (g : nat -> F) (a : nat -> nat -> F) :
    sym_rows fast R a -> sym_rows fast R (fun i l => g l * a i l).
  Proof. intros Sa i l Hi E. cbv beta. now rewrite (Sa i l Hi E). Qed.

  Theorem lat_derivatives_rot L C (a b : marr) (c s : nat -> F) (x : marr) i l :
    (i < R)%nat -> (l < C)%nat -> s 0%nat = 0 -> sym_rows fast R a -> sym_rows fast R b ->
    D1 L C a b (rot_modal fast c s x) i l = rot_modal fast c s (D1 L C a b x) i l /\
    D2 L C a b (rot_modal fast c s x) i l = rot_modal fast c s (D2 L C a b x) i l.
  Proof.
    intros Hi Hl H0 Sa Sb. split.
    - rewrite D1_entries by assumption. unfold rot_modal at 2. rewrite !D1_entries by assumption.
      apply tri_rot_commute; try assumption.
      + exact (sym_rows_scale (fun l => lit (laxis L l) + 1) a Sa).
      + exact (sym_rows_scale (fun l => - lit (laxis L l)) b Sb).
    - rewrite D2_entries by assumption. unfold rot_modal at 2. rewrite !D2_entries by assumption.
      apply tri_rot_commute; try assumption.
      + exact (sym_rows_scale (fun l => lit (laxis L l) - 1) a Sa).
      + exact (sym_rows_scale (fun l => - (lit (laxis L l) + (1 + 1))) b Sb).
  Qed.

  (** the latitude derivatives ANTI-commute with the parity factor: they map mirror-even fields to mirror-odd ones *)
  Theorem lat_derivatives_mirror_sign L C (a b : marr) ps (x : marr) i l :
    (l < C)%nat ->
    D1 L C a b (mir_modal fast ps x) i l = mir_modal fast (negb ps) (D1 L C a b x) i l /\
    D2 L C a b (mir_modal fast ps x) i l = mir_modal fast (negb ps) (D2 L C a b x) i l.
  Proof.
    intros Hl. split.
    - rewrite D1_entries by assumption. unfold mir_modal at 2. rewrite D1_entries by assumption. apply tri_mir_anticommute.
    - rewrite D2_entries by assumption. unfold mir_modal at 2. rewrite D2_entries by assumption. apply tri_mir_anticommute.
  Qed.

  (** ** Coriolis table: invariant under longitude shifts, odd under latitude reversal *)
  Theorem coriolis_symmetry omega (sinlat : nat -> F) I J k i j :
    (forall j, (j < J)%nat -> sinlat (J - 1 - j)%nat = - sinlat j) -> (j < J)%nat ->
    shift_lon I k (coriolis omega sinlat) i j = coriolis omega sinlat i j /\
    flip_lat J (coriolis omega sinlat) i j = - coriolis omega sinlat i j.
  Proof.
    intros Hs Hj. unfold shift_lon, flip_lat, coriolis. split; [reflexivity|]. rewrite (Hs j Hj). ring.
  Qed.
End Operators.

(** * 6. vector calculus of Model/Deriv.v: grad, div, curl, k-cross *)
Section VectorCalculus.
  Context {F : Type} {o : Ops F} {Fc : FieldC o}.
  Add Field FFsy4 : (field_c : FieldTh o).
  Variables (fast : bool) (L R C : nat) (r : F) (a b : @marr F) (cl : bool).
  Hypothesis HR : layout_ok fast R.

  Lemma fdiv_mul (x y : F) : x / y = x * finv y.
  Proof. exact (Fdiv_def field_c x y). Qed.

  Definition clipw (l : nat) : F :=
    if cl then (if Nat.ltb l (C - (1 + (C - L))) then 1 else 0) else 1.
  Lemma clip_if_entry (x : marr) i l : clip_if cl L C x i l = x i l * clipw l.
  Proof. unfold clip_if, clipw, clip. destruct cl; [reflexivity|ring]. Qed.

  (** mirror: a scalar (ps = false) has an (even, odd) gradient; the divergence of an (even, odd) vector is a
      scalar, its curl a pseudo-scalar; k-cross flips the sign.  With ps = true the same for pseudo-scalars. *)
  Theorem vector_calculus_mirror ps (x u v : marr) i l :
    (i < R)%nat -> (l < C)%nat ->
    fst (cos_lat_grad fast L R C r a b cl (mir_modal fast ps x)) i l
      = mir_modal fast ps (fst (cos_lat_grad fast L R C r a b cl x)) i l /\
    snd (cos_lat_grad fast L R C r a b cl (mir_modal fast ps x)) i l
      = mir_modal fast (negb ps) (snd (cos_lat_grad fast L R C r a b cl x)) i l /\
    div_cos_lat fast L R C r a b cl (mir_modal fast ps u, mir_modal fast (negb ps) v) i l
      = mir_modal fast ps (div_cos_lat fast L R C r a b cl (u, v)) i l /\
    curl_cos_lat fast L R C r a b cl (mir_modal fast ps u, mir_modal fast (negb ps) v) i l
      = mir_modal fast (negb ps) (curl_cos_lat fast L R C r a b cl (u, v)) i l /\
    fst (k_cross (mir_modal fast ps u, mir_modal fast (negb ps) v)) i l = - mir_modal fast ps (fst (k_cross (u, v))) i l /\
    snd (k_cross (mir_modal fast ps u, mir_modal fast (negb ps) v)) i l = - mir_modal fast (negb ps) (snd (k_cross (u, v))) i l.
  Proof.
    intros Hi Hl.
    pose proof (fun q y => dlon_mir_commute fast R HR q y i l Hi) as Dl.
    pose proof (fun q y => proj1 (lat_derivatives_mirror_sign fast L C a b q y i l Hl)) as D1m.
    pose proof (fun q y => proj2 (lat_derivatives_mirror_sign fast L C a b q y i l Hl)) as D2m.
    unfold cos_lat_grad, div_cos_lat, curl_cos_lat, k_cross. cbn [fst snd].
    repeat split.
    - rewrite clip_if_entry, Dl. unfold mir_modal. rewrite clip_if_entry, !fdiv_mul. ring.
    - rewrite clip_if_entry, D1m. unfold mir_modal. rewrite clip_if_entry, !fdiv_mul. ring.
    - rewrite clip_if_entry, Dl, D2m, Bool.negb_involutive. unfold mir_modal. rewrite clip_if_entry, !fdiv_mul. ring.
    - rewrite clip_if_entry, Dl, D2m. unfold mir_modal. rewrite clip_if_entry, !fdiv_mul. ring.
    - unfold mir_modal. rewrite sgn_if_negb. ring.
    - unfold mir_modal. rewrite sgn_if_negb. ring.
  Qed.

  (** rotations: every component is rotated *)
  Theorem vector_calculus_rot (c s : nat -> F) (x u v : marr) i l :
    (i < R)%nat -> (l < C)%nat -> s 0%nat = 0 -> sym_rows fast R a -> sym_rows fast R b ->
    fst (cos_lat_grad fast L R C r a b cl (rot_modal fast c s x)) i l
      = rot_modal fast c s (fst (cos_lat_grad fast L R C r a b cl x)) i l /\
    snd (cos_lat_grad fast L R C r a b cl (rot_modal fast c s x)) i l
      = rot_modal fast c s (snd (cos_lat_grad fast L R C r a b cl x)) i l /\
    div_cos_lat fast L R C r a b cl (rot_modal fast c s u, rot_modal fast c s v) i l
      = rot_modal fast c s (div_cos_lat fast L R C r a b cl (u, v)) i l /\
    curl_cos_lat fast L R C r a b cl (rot_modal fast c s u, rot_modal fast c s v) i l
      = rot_modal fast c s (curl_cos_lat fast L R C r a b cl (u, v)) i l /\
    fst (k_cross (rot_modal fast c s u, rot_modal fast c s v)) i l = rot_modal fast c s (fst (k_cross (u, v))) i l /\
    snd (k_cross (rot_modal fast c s u, rot_modal fast c s v)) i l = rot_modal fast c s (snd (k_cross (u, v))) i l.
  Proof.
    intros Hi Hl H0 Sa Sb.
    pose proof (fun y => dlon_rot_commute fast R HR c s y i l Hi H0) as Dl.
    pose proof (fun y => proj1 (lat_derivatives_rot fast R L C a b c s y i l Hi Hl H0 Sa Sb)) as D1r.
    pose proof (fun y => proj2 (lat_derivatives_rot fast R L C a b c s y i l Hi Hl H0 Sa Sb)) as D2r.
    unfold cos_lat_grad, div_cos_lat, curl_cos_lat, k_cross. cbn [fst snd].
    repeat split.
    - rewrite clip_if_entry, Dl. unfold rot_modal. rewrite !clip_if_entry, !fdiv_mul. ring.
    - rewrite clip_if_entry, D1r. unfold rot_modal. rewrite !clip_if_entry, !fdiv_mul. ring.
    - rewrite clip_if_entry, Dl, D2r. unfold rot_modal. rewrite !clip_if_entry, !fdiv_mul. ring.
    - rewrite clip_if_entry, Dl, D2r. unfold rot_modal. rewrite !clip_if_entry, !fdiv_mul. ring.
    - unfold rot_modal. ring.
  Qed.
End VectorCalculus.

(** * 7. every IMEX step built from equivariant F, G, G_inv is equivariant; trajectories *)
Section Trajectories.
  Context {S : Type} (ES : S -> S -> Prop) (TS : S -> S).
  Hypothesis ES_refl : forall u, ES u u.
  Hypothesis ES_trans : forall u v w, ES u v -> ES v w -> ES u w.

  (** a map respects the equality [ES] and commutes with the transformation [TS] *)
  Definition equivariant1 (step : S -> S) : Prop :=
    (forall u u', ES u u' -> ES (step u) (step u')) /\ (forall u, ES (step (TS u)) (TS (step u))).
  Definition equivariant2 (f : S -> S -> S) : Prop :=
    (forall u u' v v', ES u u' -> ES v v' -> ES (f u v) (f u' v')) /\ (forall u v, ES (f (TS u) (TS v)) (TS (f u v))).

  Lemma with_filters_equivariant (step : S -> S) (filters : list (S -> S -> S)) :
    equivariant1 step -> Forall equivariant2 filters -> equivariant1 (with_filters step filters).
  Proof.
    intros [Sc Se] Hf. unfold with_filters. split.
    - intros u u' Hu. generalize (Sc u u' Hu). generalize (step u) (step u').
      induction Hf as [|f fs [fc fe] _ IH]; intros un un' Hun; cbn; [exact Hun|].
      apply IH. apply fc; assumption.
    - intros u. generalize (Se u). generalize (step (TS u)) (step u).
      induction Hf as [|f fs [fc fe] _ IH]; intros un1 un2 Hun; cbn; [exact Hun|].
      apply IH. apply (ES_trans _ (f (TS u) (TS un2))); [apply fc; [apply ES_refl|exact Hun]|apply fe].
  Qed.

  Lemma iter_equivariant k (step : S -> S) : equivariant1 step -> equivariant1 (iter k step).
  Proof.
    intros [Sc Se]. induction k as [|k [IHc IHe]]; (split; [intros u u' Hu|intros u]); cbn.
    - exact Hu.
    - apply ES_refl.
    - apply IHc, Sc, Hu.
    - apply (ES_trans _ (iter k step (TS (step u)))); [apply IHc, Se|apply IHe].
  Qed.
End Trajectories.

Section StepEquivariance.
  Context {F V : Type} {vo : VSp F V}.
  Variables (Fx G : V -> V) (Ginv : F -> V -> V) (T : V -> V) (E : V -> V -> Prop).
  Hypothesis E_refl : forall u, E u u.
  Hypothesis E_sym : forall u v, E u v -> E v u.
  Hypothesis E_trans : forall u v w, E u v -> E v w -> E u w.
  (** the vector-space operations and the three operators respect the equality E *)
  Hypothesis va_E : forall x x' y y', E x x' -> E y y' -> E (va x y) (va x' y').
  Hypothesis vs_E : forall c x x', E x x' -> E (vs c x) (vs c x').
  Hypothesis Fx_E : forall x x', E x x' -> E (Fx x) (Fx x').
  Hypothesis G_E : forall x x', E x x' -> E (G x) (G x').
  Hypothesis Ginv_E : forall eta x x', E x x' -> E (Ginv eta x) (Ginv eta x').
  (** T is linear *)
  Hypothesis T_zero : E (T vz) vz.
  Hypothesis T_add : forall x y, E (T (va x y)) (va (T x) (T y)).
  Hypothesis T_scale : forall c x, E (T (vs c x)) (vs c (T x)).
  (** the explicit terms, the implicit terms and the implicit inverse commute with T *)
  Hypothesis T_F : forall x, E (Fx (T x)) (T (Fx x)).
  Hypothesis T_G : forall x, E (G (T x)) (T (G x)).
  Hypothesis T_Ginv : forall eta x, E (Ginv eta (T x)) (T (Ginv eta x)).

  Lemma term_cong (t : stepterm F) (env env' : nat -> V) :
    (forall i, E (env i) (env' i)) -> E (eval Fx G Ginv t env) (eval Fx G Ginv t env').
  Proof. intros He. induction t; cbn; auto. Qed.

  Theorem term_equivariant (t : stepterm F) (env : nat -> V) :
    E (eval Fx G Ginv t (fun i => T (env i))) (T (eval Fx G Ginv t env)).
  Proof.
    induction t as [i| |t1 IH1 t2 IH2|c t IH|t IH|t IH|eta t IH]; cbn.
    - apply E_refl.
    - apply E_sym, T_zero.
    - apply (E_trans _ (va (T (eval Fx G Ginv t1 env)) (T (eval Fx G Ginv t2 env)))); [apply va_E; assumption|apply E_sym, T_add].
    - apply (E_trans _ (vs c (T (eval Fx G Ginv t env)))); [apply vs_E; assumption|apply E_sym, T_scale].
    - apply (E_trans _ (Fx (T (eval Fx G Ginv t env)))); [apply Fx_E; assumption|apply T_F].
    - apply (E_trans _ (G (T (eval Fx G Ginv t env)))); [apply G_E; assumption|apply T_G].
    - apply (E_trans _ (Ginv eta (T (eval Fx G Ginv t env)))); [apply Ginv_E; assumption|apply T_Ginv].
  Qed.

  (** one-snapshot steps (all Runge-Kutta type integrators) *)
  Theorem step_equivariant (t : stepterm F) : equivariant1 E T (step_of Fx G Ginv t).
  Proof.
    split.
    - intros u u' Hu. unfold step_of. apply term_cong. intros i. exact Hu.
    - intros u. unfold step_of. exact (term_equivariant t (env1 u)).
  Qed.

  (** two-snapshot (leapfrog) steps on pairs *)
  Definition E2 (a b : V * V) : Prop := E (fst a) (fst b) /\ E (snd a) (snd b).
  Definition T2 (a : V * V) : V * V := (T (fst a), T (snd a)).

  Theorem lf_step_equivariant (t : stepterm F) : equivariant1 E2 T2 (lf_step_of Fx G Ginv t).
  Proof.
    split.
    - intros [p c] [p' c'] [Hp Hc]. unfold lf_step_of, E2; cbn [fst snd]. cbn in Hp, Hc. split; [exact Hc|].
      apply term_cong. intros [|i]; cbn; assumption.
    - intros [p c]. unfold lf_step_of, E2, T2; cbn [fst snd]. split; [apply E_refl|].
      apply (E_trans _ (eval Fx G Ginv t (fun i => T (env2 p c i)))); [|apply term_equivariant].
      apply term_cong. intros [|i]; cbn; apply E_refl.
  Qed.

  Lemma E2_refl u : E2 u u. Proof. split; apply E_refl. Qed.
  Lemma E2_trans u v w : E2 u v -> E2 v w -> E2 u w.
  Proof. intros [A B] [C D]. split; eapply E_trans; eassumption. Qed.

  (** k steps with filters (induction on the number of steps) *)
  Theorem trajectory_equivariant (t : stepterm F) (filters : list (V -> V -> V)) k :
    Forall (equivariant2 E T) filters ->
    equivariant1 E T (iter k (with_filters (step_of Fx G Ginv t) filters)).
  Proof.
    intros Hf. apply iter_equivariant; try assumption.
    apply with_filters_equivariant; try assumption. apply step_equivariant.
  Qed.

  Theorem lf_trajectory_equivariant (t : stepterm F) (filters : list (V * V -> V * V -> V * V)) k :
    Forall (equivariant2 E2 T2) filters ->
    equivariant1 E2 T2 (iter k (with_filters (lf_step_of Fx G Ginv t) filters)).
  Proof.
    intros Hf. apply iter_equivariant; [exact E2_refl|exact E2_trans|].
    apply with_filters_equivariant; [exact E2_refl|exact E2_trans| |assumption]. apply lf_step_equivariant.
  Qed.

  (** a Runge-Kutta step filter built from an equivariant state filter is an equivariant step filter *)
  Lemma rk_filter_equivariant (f : V -> V) : equivariant1 E T f -> equivariant2 E T (rk_filter f).
  Proof. intros [fc fe]. split; unfold rk_filter; auto. Qed.
End StepEquivariance.

(** the concrete integrators of time_integration.py (as encoded in Model/Invariants.v), any coefficients *)
Section Integrators.
  Context {F : Type} {o : Ops F} {V : Type} {vo : VSp F V}.
  Variables (Fx G : V -> V) (Ginv : F -> V -> V) (T : V -> V) (E : V -> V -> Prop).

  Definition sym_hyps : Prop :=
    (forall u, E u u) /\ (forall u v, E u v -> E v u) /\ (forall u v w, E u v -> E v w -> E u w) /\
    (forall x x' y y', E x x' -> E y y' -> E (va x y) (va x' y')) /\ (forall c x x', E x x' -> E (vs c x) (vs c x')) /\
    (forall x x', E x x' -> E (Fx x) (Fx x')) /\ (forall x x', E x x' -> E (G x) (G x')) /\
    (forall eta x x', E x x' -> E (Ginv eta x) (Ginv eta x')) /\
    E (T vz) vz /\ (forall x y, E (T (va x y)) (va (T x) (T y))) /\ (forall c x, E (T (vs c x)) (vs c (T x))) /\
    (forall x, E (Fx (T x)) (T (Fx x))) /\ (forall x, E (G (T x)) (T (G x))) /\
    (forall eta x, E (Ginv eta (T x)) (T (Ginv eta x))).

  Theorem integrators_equivariant (dt alpha : F) (al be ga : list F) (a_ex a_im : list (list F)) (b_ex b_im : list F) :
    sym_hyps ->
    equivariant1 E T (step_of Fx G Ginv (euler_term dt)) /\
    equivariant1 E T (step_of Fx G Ginv (cn_rk2_term dt)) /\
    equivariant1 E T (step_of Fx G Ginv (ls_step_term dt al be ga)) /\
    (forall t, imex_term dt a_ex a_im b_ex b_im = Some t -> equivariant1 E T (step_of Fx G Ginv t)) /\
    equivariant1 (E2 E) (T2 T) (lf_step_of Fx G Ginv (leapfrog_term dt alpha)).
  Proof.
    intros (H1 & H2 & H3 & H4 & H5 & H6 & H7 & H8 & H9 & H10 & H11 & H12 & H13 & H14).
    assert (SE : forall t, equivariant1 E T (step_of Fx G Ginv t)) by (intros t; apply step_equivariant; assumption).
    split; [apply SE|]. split; [apply SE|]. split; [apply SE|]. split; [intros t _; apply SE|].
    apply lf_step_equivariant; assumption.
  Qed.
End Integrators.

(** * 8. the nodal column algebra of the primitive equations (Model/PrimEq.v) *)
Section PrimEqNodal.
  Context {F : Type} {o : Ops F} {Fc : FieldC o}.
  Add Field FFsy8 : (field_c : FieldTh o).
  Variable c : @PEcfg F.

  (** ** (a) every nodal function is pointwise in the horizontal: if all per-node inputs are permuted
      (and the grid tables sec2_lat, f are invariant under the permutation - longitude shifts), the family of
      nodal columns is the permuted family, hence so is every nodal output *)
  Lemma mk_cols_permuted {P : Type} (pi : P -> P) (U V Z D T : P -> nat -> F) (gx gy sec2 cor : P -> F) p :
    (forall p, sec2 (pi p) = sec2 p) -> (forall p, cor (pi p) = cor p) ->
    mk_cols (fun p => U (pi p)) (fun p => V (pi p)) (fun p => Z (pi p)) (fun p => D (pi p)) (fun p => T (pi p))
            (fun p => gx (pi p)) (fun p => gy (pi p)) sec2 cor p
    = mk_cols U V Z D T gx gy sec2 cor (pi p).
  Proof. intros Hs Hf. unfold mk_cols. rewrite Hs, Hf. reflexivity. Qed.

  Theorem primeq_nodal_shift_equivariant {P A : Type} (pi : P -> P) (fn : NCol -> A)
          (U V Z D T : P -> nat -> F) (gx gy sec2 cor : P -> F) p :
    (forall p, sec2 (pi p) = sec2 p) -> (forall p, cor (pi p) = cor p) ->
    fn (mk_cols (fun p => U (pi p)) (fun p => V (pi p)) (fun p => Z (pi p)) (fun p => D (pi p)) (fun p => T (pi p))
                (fun p => gx (pi p)) (fun p => gy (pi p)) sec2 cor p)
    = (fun p' => fn (mk_cols U V Z D T gx gy sec2 cor p')) (pi p).
  Proof. intros Hs Hf. cbv beta. now rewrite mk_cols_permuted. Qed.

  (** the mirrored family: node permutation (latitude reversal) with tables sec2 even, f odd, and the
      field parities of [ncol_mirror] *)
  Lemma mk_cols_mirrored {P : Type} (pi : P -> P) (U V Z D T : P -> nat -> F) (gx gy sec2 cor : P -> F) p :
    (forall p, sec2 (pi p) = sec2 p) -> (forall p, cor p = - cor (pi p)) ->
    mk_cols (fun p => U (pi p)) (fun p k => - V (pi p) k) (fun p k => - Z (pi p) k) (fun p => D (pi p)) (fun p => T (pi p))
            (fun p => gx (pi p)) (fun p => - gy (pi p)) sec2 cor p
    = ncol_mirror (mk_cols U V Z D T gx gy sec2 cor (pi p)).
  Proof.
    intros Hs Hf. unfold mk_cols, ncol_mirror. cbn [n_u n_v n_vort n_div n_temp n_gx n_gy n_sec2 n_f].
    rewrite (Hs p), (Hf p). reflexivity.
  Qed.

  (** ** (b) parities of the nodal outputs under the mirror *)
  Lemma udg_mirror (x : NCol) k : u_dot_grad (ncol_mirror x) k = u_dot_grad x k.
  Proof. unfold u_dot_grad, ncol_mirror. cbn [n_u n_v n_gx n_gy n_sec2]. ring. Qed.

  Lemma gfull_mirror (x : NCol) k : g_full_diag (ncol_mirror x) k = g_full_diag x k.
  Proof. unfold g_full_diag. rewrite udg_mirror. reflexivity. Qed.

  Lemma gfull_ad_mirror (x : NCol) k : g_full_adiabatic (ncol_mirror x) k = g_full_adiabatic x k.
  Proof. unfold g_full_adiabatic. rewrite udg_mirror. reflexivity. Qed.

  Lemma sigma_dot_mirror (x : NCol) r :
    sigma_dot_full c (ncol_mirror x) r = sigma_dot_full c x r /\
    sigma_dot_explicit c (ncol_mirror x) r = sigma_dot_explicit c x r.
  Proof.
    unfold sigma_dot_full, sigma_dot_explicit, g_explicit. split; apply sigma_dot_ext; intros k _.
    - apply gfull_mirror.
    - apply udg_mirror.
  Qed.

  Lemma vt_mirror (x : NCol) (s s' : nat -> F) n :
    (n < cK c)%nat -> (forall k, s' k = s k) ->
    vertical_tendency c (sigma_dot_full c (ncol_mirror x)) s' n = vertical_tendency c (sigma_dot_full c x) s n /\
    vertical_tendency c (sigma_dot_explicit c (ncol_mirror x)) s' n = vertical_tendency c (sigma_dot_explicit c x) s n.
  Proof.
    intros Hn Hs. split; apply vertical_tendency_ext; try assumption; intros k _; try apply Hs;
      apply (sigma_dot_mirror x k).
  Qed.

  Lemma vt_opp (w s : nat -> F) n :
    (n < cK c)%nat -> vertical_tendency c w (fun k => - s k) n = - vertical_tendency c w s n.
  Proof.
    intros Hn. rewrite !vertical_tendency_closed by assumption. unfold adv_term, centered_difference.
    rewrite !fdiv_def.
    destruct (Nat.ltb (S n) (cK c)), (Nat.eqb n 0), (Nat.ltb (S (n - 1)) (cK c)); ring.
  Qed.

  Lemma tomega_mirror (x : NCol) (Tf : nat -> F) n :
    t_omega_over_sigma_sp c Tf (g_explicit (ncol_mirror x)) (u_dot_grad (ncol_mirror x)) n
      = t_omega_over_sigma_sp c Tf (g_explicit x) (u_dot_grad x) n /\
    t_omega_over_sigma_sp c Tf (g_full_adiabatic (ncol_mirror x)) (u_dot_grad (ncol_mirror x)) n
      = t_omega_over_sigma_sp c Tf (g_full_adiabatic x) (u_dot_grad x) n.
  Proof.
    unfold t_omega_over_sigma_sp, g_explicit. rewrite udg_mirror. split; f_equal; f_equal; apply g_part_ext; intros k _.
    - apply udg_mirror.
    - apply gfull_ad_mirror.
  Qed.

  (** scalar equations: the nodal totals handed to to_modal are EVEN *)
  Theorem primeq_scalar_nodal_mirror va (m : Moist) (x : NCol) (q s : nat -> F) n :
    (n < cK c)%nat ->
    temp_nodal_total c va (ncol_mirror x) n = temp_nodal_total c va x n /\
    temp_nodal_total_moist c va m (ncol_mirror x) q n = temp_nodal_total_moist c va m x q n /\
    tracer_nodal_total c va (ncol_mirror x) s n = tracer_nodal_total c va x s n /\
    log_pressure_tendency c (ncol_mirror x) = log_pressure_tendency c x /\
    (* the flux components of div_sec_lat(u s, v s): (even, odd) *)
    hsa_mu (ncol_mirror x) s n = hsa_mu x s n /\
    hsa_mv (ncol_mirror x) s n = - hsa_mv x s n.
  Proof.
    intros Hn.
    assert (TV : temp_vertical_tendency c va (ncol_mirror x) n = temp_vertical_tendency c va x n).
    { unfold temp_vertical_tendency.
      rewrite (proj1 (vt_mirror x (n_temp x) (n_temp (ncol_mirror x)) n Hn (fun k => eq_refl))).
      rewrite (proj2 (vt_mirror x (cTref c) (cTref c) n Hn (fun k => eq_refl))). reflexivity. }
    repeat split.
    - unfold temp_nodal_total. rewrite TV. unfold temp_adiabatic. cbv zeta.
      change (n_temp (ncol_mirror x)) with (n_temp x).
      rewrite (proj1 (tomega_mirror x (cTref c) n)), (proj2 (tomega_mirror x (n_temp x) n)). reflexivity.
    - unfold temp_nodal_total_moist. rewrite TV. unfold temp_adiabatic_moist. cbv zeta.
      change (n_temp (ncol_mirror x)) with (n_temp x).
      rewrite (proj1 (tomega_mirror x (cTref c) n)), (proj2 (tomega_mirror x _ n)). reflexivity.
    - unfold tracer_nodal_total. destruct va; [|reflexivity].
      rewrite (proj1 (vt_mirror x s s n Hn (fun k => eq_refl))). reflexivity.
    - unfold log_pressure_tendency, sigma_integral. f_equal. apply sumn_ext; intros k _.
      unfold xdsigma. now rewrite udg_mirror.
    - unfold hsa_mv, ncol_mirror. cbn [n_v n_sec2]. ring.
  Qed.

  (** momentum equations: (combined_u, combined_v) is an (even, odd) vector; kinetic energy is even;
      the three R T' variants are even *)
  Theorem primeq_vector_nodal_mirror va (m : Moist) (x : NCol) (rt q qc qi : nat -> F) k :
    (k < cK c)%nat ->
    combined_u c va (ncol_mirror x) rt k = combined_u c va x rt k /\
    combined_v c va (ncol_mirror x) rt k = - combined_v c va x rt k /\
    kinetic (ncol_mirror x) k = kinetic x k /\
    rt_dry c (ncol_mirror x) k = rt_dry c x k /\
    rt_moist c m (ncol_mirror x) q k = rt_moist c m x q k /\
    rt_cloud c m (ncol_mirror x) q qc qi k = rt_cloud c m x q qc qi k.
  Proof.
    intros Hk. repeat split.
    - unfold combined_u. cbv zeta.
      rewrite (proj1 (vt_mirror x (n_u x) (n_u (ncol_mirror x)) k Hk (fun _ => eq_refl))).
      unfold ncol_mirror. cbn [n_u n_v n_vort n_f n_sec2 n_gx]. destruct va; ring.
    - unfold combined_v. cbv zeta.
      assert (E : vertical_tendency c (sigma_dot_full c (ncol_mirror x)) (n_v (ncol_mirror x)) k
                  = - vertical_tendency c (sigma_dot_full c x) (n_v x) k).
      { rewrite <- vt_opp by assumption.
        exact (proj1 (vt_mirror x (fun j => - n_v x j) (n_v (ncol_mirror x)) k Hk (fun _ => eq_refl))). }
      rewrite E. unfold ncol_mirror. cbn [n_u n_v n_vort n_f n_sec2 n_gy]. destruct va; ring.
    - unfold kinetic, ncol_mirror. cbn [n_u n_v n_sec2]. rewrite !fdiv_def. ring.
  Qed.

  (** humidity corrections of the moist classes: divergence term even, curl term odd, geopotential term even.
      [gqx], [gqy] = nodal cos_lat_grad(q): (even, odd). *)
  Theorem primeq_humidity_nodal_mirror sparse (m : Moist) (x : NCol) (q gqx gqy : nat -> F) lapl k :
    humidity_div_nodal c m (ncol_mirror x) q gqx (fun j => - gqy j) lapl k = humidity_div_nodal c m x q gqx gqy lapl k /\
    humidity_curl_nodal c m (ncol_mirror x) gqx (fun j => - gqy j) k = - humidity_curl_nodal c m x gqx gqy k /\
    humidity_geo_nodal c sparse m (ncol_mirror x) q k = humidity_geo_nodal c sparse m x q k.
  Proof.
    repeat split.
    - unfold humidity_div_nodal, ncol_mirror. cbn [n_gx n_gy n_sec2]. ring.
    - unfold humidity_curl_nodal, ncol_mirror. cbn [n_gx n_gy n_sec2]. ring.
  Qed.
  (** ** congruence: the nodal outputs only depend on the column entries k < K (no functional extensionality) *)
  Definition ncol_eqv (x y : @NCol F) : Prop :=
    (forall k, (k < cK c)%nat -> n_u x k = n_u y k) /\ (forall k, (k < cK c)%nat -> n_v x k = n_v y k) /\
    (forall k, (k < cK c)%nat -> n_vort x k = n_vort y k) /\ (forall k, (k < cK c)%nat -> n_div x k = n_div y k) /\
    (forall k, (k < cK c)%nat -> n_temp x k = n_temp y k) /\
    n_gx x = n_gx y /\ n_gy x = n_gy y /\ n_sec2 x = n_sec2 y /\ n_f x = n_f y.

  Section Cong.
    Variables x y : @NCol F.
    Hypothesis E : ncol_eqv x y.

    Lemma udg_cong k : (k < cK c)%nat -> u_dot_grad x k = u_dot_grad y k.
    Proof.
      destruct E as (Eu & Ev & _ & _ & _ & Egx & Egy & Es & _). intros Hk.
      unfold u_dot_grad. now rewrite (Eu k Hk), (Ev k Hk), Egx, Egy, Es.
    Qed.
    Lemma gfull_cong k : (k < cK c)%nat -> g_full_diag x k = g_full_diag y k.
    Proof. destruct E as (_ & _ & _ & Ed & _). intros Hk. unfold g_full_diag. now rewrite (Ed k Hk), udg_cong. Qed.
    Lemma gfull_ad_cong k : (k < cK c)%nat -> g_full_adiabatic x k = g_full_adiabatic y k.
    Proof. destruct E as (_ & _ & _ & Ed & _). intros Hk. unfold g_full_adiabatic. now rewrite (Ed k Hk), udg_cong. Qed.
    Lemma sdf_cong r : sigma_dot_full c x r = sigma_dot_full c y r /\ sigma_dot_explicit c x r = sigma_dot_explicit c y r.
    Proof.
      unfold sigma_dot_full, sigma_dot_explicit, g_explicit. split; apply sigma_dot_ext; intros k Hk;
        [now apply gfull_cong|now apply udg_cong].
    Qed.
    Lemma vt_cong (s s' : nat -> F) n :
      (n < cK c)%nat -> (forall k, (k < cK c)%nat -> s k = s' k) ->
      vertical_tendency c (sigma_dot_full c x) s n = vertical_tendency c (sigma_dot_full c y) s' n /\
      vertical_tendency c (sigma_dot_explicit c x) s n = vertical_tendency c (sigma_dot_explicit c y) s' n.
    Proof.
      intros Hn Hs. split; apply vertical_tendency_ext; try assumption; intros k _; apply (sdf_cong k).
    Qed.
    Lemma tomega_cong (Tf Tf' : nat -> F) n :
      (n < cK c)%nat -> Tf n = Tf' n ->
      t_omega_over_sigma_sp c Tf (g_explicit x) (u_dot_grad x) n = t_omega_over_sigma_sp c Tf' (g_explicit y) (u_dot_grad y) n /\
      t_omega_over_sigma_sp c Tf (g_full_adiabatic x) (u_dot_grad x) n
        = t_omega_over_sigma_sp c Tf' (g_full_adiabatic y) (u_dot_grad y) n.
    Proof.
      intros Hn HT. unfold t_omega_over_sigma_sp, g_explicit. rewrite HT, (udg_cong n Hn).
      split; f_equal; f_equal; apply g_part_ext; intros k Hk; [now apply udg_cong|now apply gfull_ad_cong].
    Qed.

    Theorem primeq_nodal_cong va (m : Moist) (rt rt' q q' s s' : nat -> F) n :
      (n < cK c)%nat -> rt n = rt' n -> q n = q' n -> (forall k, (k < cK c)%nat -> s k = s' k) ->
      temp_nodal_total c va x n = temp_nodal_total c va y n /\
      temp_nodal_total_moist c va m x q n = temp_nodal_total_moist c va m y q' n /\
      tracer_nodal_total c va x s n = tracer_nodal_total c va y s' n /\
      log_pressure_tendency c x = log_pressure_tendency c y /\
      hsa_mu x s n = hsa_mu y s' n /\ hsa_mv x s n = hsa_mv y s' n /\
      hsa_mu x (n_temp x) n = hsa_mu y (n_temp y) n /\ hsa_mv x (n_temp x) n = hsa_mv y (n_temp y) n /\
      combined_u c va x rt n = combined_u c va y rt' n /\ combined_v c va x rt n = combined_v c va y rt' n /\
      kinetic x n = kinetic y n.
    Proof.
      intros Hn Hrt Hq Hs. pose proof E as (Eu & Ev & Ez & Ed & Et & Egx & Egy & Es & Ef).
      assert (TV : temp_vertical_tendency c va x n = temp_vertical_tendency c va y n).
      { unfold temp_vertical_tendency.
        rewrite (proj1 (vt_cong (n_temp x) (n_temp y) n Hn Et)), (proj2 (vt_cong (cTref c) (cTref c) n Hn (fun _ _ => eq_refl))).
        reflexivity. }
      assert (HN : hsa_nodal x (n_temp x) n = hsa_nodal y (n_temp y) n)
        by (unfold hsa_nodal; now rewrite (Et n Hn), (Ed n Hn)).
      repeat split.
      - unfold temp_nodal_total. rewrite TV, HN. unfold temp_adiabatic. cbv zeta.
        rewrite (proj1 (tomega_cong (cTref c) (cTref c) n Hn eq_refl)), (proj2 (tomega_cong (n_temp x) (n_temp y) n Hn (Et n Hn))).
        reflexivity.
      - unfold temp_nodal_total_moist. rewrite TV, HN. unfold temp_adiabatic_moist. cbv zeta.
        rewrite (proj1 (tomega_cong (cTref c) (cTref c) n Hn eq_refl)).
        do 3 f_equal. refine (proj2 (tomega_cong _ _ n Hn _)). cbv beta. now rewrite (Et n Hn), Hq.
      - unfold tracer_nodal_total, hsa_nodal. rewrite (Ed n Hn), (Hs n Hn). destruct va; [|reflexivity].
        rewrite (proj1 (vt_cong s s' n Hn Hs)). reflexivity.
      - unfold log_pressure_tendency, sigma_integral. f_equal. apply sumn_ext; intros k Hk. unfold xdsigma. now rewrite udg_cong.
      - unfold hsa_mu. now rewrite (Eu n Hn), (Hs n Hn), Es.
      - unfold hsa_mv. now rewrite (Ev n Hn), (Hs n Hn), Es.
      - unfold hsa_mu. now rewrite (Eu n Hn), (Et n Hn), Es.
      - unfold hsa_mv. now rewrite (Ev n Hn), (Et n Hn), Es.
      - unfold combined_u. cbv zeta. rewrite (proj1 (vt_cong (n_u x) (n_u y) n Hn Eu)).
        now rewrite (Ev n Hn), (Ez n Hn), Ef, Es, Egx, Hrt.
      - unfold combined_v. cbv zeta. rewrite (proj1 (vt_cong (n_v x) (n_v y) n Hn Ev)).
        now rewrite (Eu n Hn), (Ez n Hn), Ef, Es, Egy, Hrt.
      - unfold kinetic. now rewrite (Eu n Hn), (Ev n Hn), Es.
    Qed.
  End Cong.
End PrimEqNodal.

(** * 9. the explicit tendencies of the primitive equations (ModalAssembly of Model/PrimEq.v) are
    mirror-equivariant, over abstract horizontal operators that satisfy the mirror facts proved above
    for the concrete ones *)
Section PrimEqTendencyMirror.
  Context {F : Type} {o : Ops F} {Fc : FieldC o}.
  Add Field FFsy9 : (field_c : FieldTh o).
  Variables W P : Type.
  Variable inW : W -> Prop.                                  (* index range of a modal array *)
  Variable inP : P -> Prop.                                  (* index range of the nodes *)
  Variable toM : (P -> F) -> W -> F.                         (* grid.to_modal *)
  Variable divc curlc : (W -> F) -> (W -> F) -> W -> F.      (* div_cos_lat, curl_cos_lat (clip=False) *)
  Variable lap clip : (W -> F) -> W -> F.                    (* laplacian, clip_wavenumbers *)
  Variable c : @PEcfg F.
  Variable grav : F.
  Variable piN : P -> P.                                     (* latitude reversal of the nodes *)
  Variable Se So : (W -> F) -> W -> F.                       (* mirror of modal scalars / pseudo-scalars *)

  Definition ext1 (L : (W -> F) -> W -> F) : Prop :=
    forall a b, (forall w, inW w -> a w = b w) -> forall w, inW w -> L a w = L b w.
  Definition ext2 (D : (W -> F) -> (W -> F) -> W -> F) : Prop :=
    forall a a' b b', (forall w, inW w -> a w = a' w) -> (forall w, inW w -> b w = b' w) ->
                      forall w, inW w -> D a b w = D a' b' w.
  Definition lin1 (L : (W -> F) -> W -> F) : Prop :=
    (forall a b w, inW w -> L (fun w' => a w' + b w') w = L a w + L b w) /\
    (forall a w, inW w -> L (fun w' => - a w') w = - L a w) /\
    (forall t a w, inW w -> L (fun w' => t * a w') w = t * L a w).

  (** the operators only read their arguments on the index range *)
  Hypothesis toM_ext : forall z z', (forall p, inP p -> z p = z' p) -> forall w, inW w -> toM z w = toM z' w.
  Hypothesis clip_ext : ext1 clip.
  Hypothesis lap_ext : ext1 lap.
  Hypothesis divc_ext : ext2 divc.
  Hypothesis curlc_ext : ext2 curlc.
  Hypothesis Se_ext : ext1 Se.
  Hypothesis So_ext : ext1 So.
  Hypothesis Se_lin : lin1 Se.
  Hypothesis So_lin : lin1 So.
  (** mirror facts of the horizontal operators (instances: analysis_mir_equivariant,
      vector_calculus_mirror, l_scale_equivariant) *)
  Hypothesis toM_even : forall z w, inW w -> toM (fun p => z (piN p)) w = Se (toM z) w.
  Hypothesis toM_odd : forall z w, inW w -> toM (fun p => - z (piN p)) w = So (toM z) w.
  Hypothesis divc_mir : forall a b w, inW w -> divc (Se a) (So b) w = Se (divc a b) w.
  Hypothesis curlc_mir : forall a b w, inW w -> curlc (Se a) (So b) w = So (curlc a b) w.
  Hypothesis lap_mir : forall a w, inW w -> lap (Se a) w = Se (lap a) w.
  Hypothesis clip_Se : forall a w, inW w -> clip (Se a) w = Se (clip a) w.
  Hypothesis clip_So : forall a w, inW w -> clip (So a) w = So (clip a) w.

  (** the nodal columns of the mirrored state *)
  Definition mirX (X : P -> NCol) : P -> NCol := fun p => ncol_mirror (X (piN p)).

  Lemma toM_even' (z' z : P -> F) w : (forall p, inP p -> z' p = z (piN p)) -> inW w -> toM z' w = Se (toM z) w.
  Proof. intros E Hw. rewrite <- toM_even by assumption. now apply toM_ext. Qed.
  Lemma toM_odd' (z' z : P -> F) w : (forall p, inP p -> z' p = - z (piN p)) -> inW w -> toM z' w = So (toM z) w.
  Proof. intros E Hw. rewrite <- toM_odd by assumption. now apply toM_ext. Qed.

  (** the flux-divergence term -div_sec_lat(u s, v s) of a scalar s *)
  Lemma flux_div_mirror (X : P -> NCol) (s : P -> nat -> F) r w :
    inW w ->
    divc (toM (fun p => hsa_mu (mirX X p) (s (piN p)) r)) (toM (fun p => hsa_mv (mirX X p) (s (piN p)) r)) w
    = Se (divc (toM (fun p => hsa_mu (X p) (s p) r)) (toM (fun p => hsa_mv (X p) (s p) r))) w.
  Proof.
    intros Hw. rewrite <- divc_mir by assumption. apply divc_ext; try assumption; intros w' Hw'.
    - apply (toM_even' _ (fun p => hsa_mu (X p) (s p) r)); [|assumption]. intros p _. reflexivity.
    - apply (toM_odd' _ (fun p => hsa_mv (X p) (s p) r)); [|assumption]. intros p _.
      unfold mirX, hsa_mv, ncol_mirror. cbn [n_v n_sec2]. ring.
  Qed.

  (** tracers: clip(to_modal(vertical + horizontal nodal) + (-div_sec_lat(u s, v s))) *)
  Definition tracer_tendency_explicit (X : P -> NCol) (s : P -> nat -> F) (r : nat) (w : W) : F :=
    clip (fun w' => toM (fun p => tracer_nodal_total c true (X p) (s p) r) w'
                    + - divc (toM (fun p => hsa_mu (X p) (s p) r)) (toM (fun p => hsa_mv (X p) (s p) r)) w') w.

  Lemma scalar_eq_mirror (A A' : W -> F) (X : P -> NCol) (s : P -> nat -> F) r w :
    inW w -> (forall w', inW w' -> A' w' = Se A w') ->
    clip (fun w' => A' w' + - divc (toM (fun p => hsa_mu (mirX X p) (s (piN p)) r))
                                   (toM (fun p => hsa_mv (mirX X p) (s (piN p)) r)) w') w
    = Se (clip (fun w' => A w' + - divc (toM (fun p => hsa_mu (X p) (s p) r)) (toM (fun p => hsa_mv (X p) (s p) r)) w')) w.
  Proof.
    intros Hw HA. destruct Se_lin as (Sadd & Sopp & _).
    rewrite <- clip_Se by assumption. apply clip_ext; [|assumption]. intros w' Hw'.
    rewrite Sadd, Sopp by assumption. rewrite HA, flux_div_mirror by assumption. reflexivity.
  Qed.

  Theorem primeq_temperature_mirror (X : P -> NCol) r w :
    (r < cK c)%nat -> inW w ->
    temp_tendency_explicit W P toM divc clip c (mirX X) r w = Se (temp_tendency_explicit W P toM divc clip c X r) w.
  Proof.
    intros Hr Hw. unfold temp_tendency_explicit.
    apply (scalar_eq_mirror (toM (fun p => temp_nodal_total c true (X p) r)) _ X (fun p => n_temp (X p)) r w Hw).
    intros w' Hw'. apply toM_even'; [|assumption]. intros p _. unfold mirX.
    exact (proj1 (primeq_scalar_nodal_mirror c true (mkMoist 0 0) (X (piN p)) (fun _ => 0) (fun _ => 0) r Hr)).
  Qed.

  Theorem primeq_temperature_moist_mirror (m : Moist) (X : P -> NCol) (q : P -> nat -> F) r w :
    (r < cK c)%nat -> inW w ->
    temp_tendency_explicit_moist W P toM divc clip c m (mirX X) (fun p => q (piN p)) r w
    = Se (temp_tendency_explicit_moist W P toM divc clip c m X q r) w.
  Proof.
    intros Hr Hw. unfold temp_tendency_explicit_moist.
    apply (scalar_eq_mirror (toM (fun p => temp_nodal_total_moist c true m (X p) (q p) r)) _ X (fun p => n_temp (X p)) r w Hw).
    intros w' Hw'. apply toM_even'; [|assumption]. intros p _. unfold mirX.
    exact (proj1 (proj2 (primeq_scalar_nodal_mirror c true m (X (piN p)) (q (piN p)) (fun _ => 0) r Hr))).
  Qed.

  Theorem primeq_tracer_mirror (X : P -> NCol) (s : P -> nat -> F) r w :
    (r < cK c)%nat -> inW w ->
    tracer_tendency_explicit (mirX X) (fun p => s (piN p)) r w = Se (tracer_tendency_explicit X s r) w.
  Proof.
    intros Hr Hw. unfold tracer_tendency_explicit.
    apply (scalar_eq_mirror (toM (fun p => tracer_nodal_total c true (X p) (s p) r)) _ X s r w Hw).
    intros w' Hw'. apply toM_even'; [|assumption]. intros p _. unfold mirX.
    exact (proj1 (proj2 (proj2 (primeq_scalar_nodal_mirror c true (mkMoist 0 0) (X (piN p)) (fun _ => 0) (s (piN p)) r Hr)))).
  Qed.

  (** log surface pressure: to_modal(-sum_k G_k dsigma_k) *)
  Theorem primeq_lnps_mirror (X : P -> NCol) w :
    inW w ->
    toM (fun p => log_pressure_tendency c (mirX X p)) w = Se (toM (fun p => log_pressure_tendency c (X p))) w.
  Proof.
    intros Hw. apply toM_even'; [|assumption]. intros p _. unfold mirX.
    unfold log_pressure_tendency, sigma_integral. f_equal. apply sumn_ext; intros k _.
    unfold xdsigma. now rewrite udg_mirror.
  Qed.

  Lemma combined_pair_mirror (X : P -> NCol) (rt : P -> nat -> F) r :
    (r < cK c)%nat ->
    (forall w, inW w -> toM (fun p => combined_u c true (mirX X p) (rt (piN p)) r) w
                        = Se (toM (fun p => combined_u c true (X p) (rt p) r)) w) /\
    (forall w, inW w -> toM (fun p => combined_v c true (mirX X p) (rt (piN p)) r) w
                        = So (toM (fun p => combined_v c true (X p) (rt p) r)) w).
  Proof.
    intros Hr. split; intros w Hw.
    - apply toM_even'; [|assumption]. intros p _. unfold mirX.
      exact (proj1 (primeq_vector_nodal_mirror c true (mkMoist 0 0) (X (piN p)) (rt (piN p)) (fun _ => 0) (fun _ => 0) (fun _ => 0) r Hr)).
    - apply toM_odd'; [|assumption]. intros p _. unfold mirX.
      exact (proj1 (proj2 (primeq_vector_nodal_mirror c true (mkMoist 0 0) (X (piN p)) (rt (piN p)) (fun _ => 0) (fun _ => 0) (fun _ => 0) r Hr))).
  Qed.

  (** divergence: the orography and the humidity correction enter as (mirrored) modal scalars *)
  Theorem primeq_divergence_mirror (X : P -> NCol) (rt : P -> nat -> F) (orog hum : W -> F) r w :
    (r < cK c)%nat -> inW w ->
    div_tendency_explicit W P toM divc lap clip c grav (mirX X) (fun p => rt (piN p)) (Se orog) (Se hum) r w
    = Se (div_tendency_explicit W P toM divc lap clip c grav X rt orog hum r) w.
  Proof.
    intros Hr Hw. destruct Se_lin as (Sadd & Sopp & Sscal). destruct (combined_pair_mirror X rt r Hr) as [CU CV].
    unfold div_tendency_explicit. rewrite <- clip_Se by assumption. apply clip_ext; [|assumption]. intros w' Hw'.
    rewrite !Sadd by assumption. rewrite Sscal, !Sopp by assumption.
    assert (E1 : divc (toM (fun p => combined_u c true (mirX X p) (rt (piN p)) r))
                      (toM (fun p => combined_v c true (mirX X p) (rt (piN p)) r)) w'
                 = Se (divc (toM (fun p => combined_u c true (X p) (rt p) r)) (toM (fun p => combined_v c true (X p) (rt p) r))) w').
    { rewrite <- divc_mir by assumption. apply divc_ext; assumption. }
    assert (E2 : lap (toM (fun p => kinetic (mirX X p) r)) w' = Se (lap (toM (fun p => kinetic (X p) r))) w').
    { rewrite <- lap_mir by assumption. apply lap_ext; [|assumption]. intros w'' Hw''.
      apply toM_even'; [|assumption]. intros p _. unfold mirX.
      exact (proj1 (proj2 (proj2 (primeq_vector_nodal_mirror c true (mkMoist 0 0) (X (piN p)) (fun _ => 0) (fun _ => 0) (fun _ => 0) (fun _ => 0) r Hr)))). }
    rewrite E1, E2, (lap_mir orog w' Hw'). reflexivity.
  Qed.

  (** vorticity: a pseudo-scalar *)
  Theorem primeq_vorticity_mirror (X : P -> NCol) (rt : P -> nat -> F) (hum : W -> F) r w :
    (r < cK c)%nat -> inW w ->
    vort_tendency_explicit W P toM curlc clip c (mirX X) (fun p => rt (piN p)) (So hum) r w
    = So (vort_tendency_explicit W P toM curlc clip c X rt hum r) w.
  Proof.
    intros Hr Hw. destruct So_lin as (Sadd & Sopp & _). destruct (combined_pair_mirror X rt r Hr) as [CU CV].
    unfold vort_tendency_explicit. rewrite <- clip_So by assumption. apply clip_ext; [|assumption]. intros w' Hw'.
    rewrite Sadd, Sopp by assumption.
    assert (E1 : curlc (toM (fun p => combined_u c true (mirX X p) (rt (piN p)) r))
                       (toM (fun p => combined_v c true (mirX X p) (rt (piN p)) r)) w'
                 = So (curlc (toM (fun p => combined_u c true (X p) (rt p) r)) (toM (fun p => combined_v c true (X p) (rt p) r))) w').
    { rewrite <- curlc_mir by assumption. apply curlc_ext; assumption. }
    rewrite E1. reflexivity.
  Qed.

  (** humidity corrections of the moist classes (inputs: q even, grad q = (even, odd), laplacian(lnps) even) *)
  Theorem primeq_humidity_mirror (m : Moist) (X : P -> NCol) (q gqx gqy : P -> nat -> F) (lapn : P -> F) r w :
    inW w ->
    humidity_div_modal W P toM lap c m (mirX X) (fun p => q (piN p)) (fun p => gqx (piN p)) (fun p k => - gqy (piN p) k)
                       (fun p => lapn (piN p)) r w
      = Se (humidity_div_modal W P toM lap c m X q gqx gqy lapn r) w /\
    humidity_curl_modal W P toM c m (mirX X) (fun p => gqx (piN p)) (fun p k => - gqy (piN p) k) r w
      = So (humidity_curl_modal W P toM c m X gqx gqy r) w.
  Proof.
    intros Hw. destruct Se_lin as (Sadd & Sopp & _). split.
    - unfold humidity_div_modal.
      rewrite (Se_ext _ (fun w' => - lap (toM (fun p => humidity_geo_nodal c false m (X p) (q p) r)) w'
                                   + - toM (fun p => humidity_div_nodal c m (X p) (q p) (gqx p) (gqy p) (lapn p) r) w'))
        by (try assumption; intros; ring).
      rewrite Sadd, !Sopp by assumption.
      transitivity (- lap (toM (fun p => humidity_geo_nodal c false m (mirX X p) (q (piN p)) r)) w
                    + - toM (fun p => humidity_div_nodal c m (mirX X p) (q (piN p)) (gqx (piN p)) (fun k => - gqy (piN p) k) (lapn (piN p)) r) w);
        [ring|].
      f_equal; f_equal.
      + rewrite <- lap_mir by assumption. apply lap_ext; [|assumption]. intros w' Hw'.
        apply toM_even'; [|assumption]. intros p _. reflexivity.
      + apply toM_even'; [|assumption]. intros p _. unfold mirX.
        exact (proj1 (primeq_humidity_nodal_mirror c false m (X (piN p)) (q (piN p)) (gqx (piN p)) (gqy (piN p)) (lapn (piN p)) r)).
    - unfold humidity_curl_modal. apply toM_odd'; [|assumption]. intros p _. unfold mirX.
      exact (proj1 (proj2 (primeq_humidity_nodal_mirror c false m (X (piN p)) (fun _ => 0) (gqx (piN p)) (gqy (piN p)) 0 r))).
  Qed.
  (** ** congruence of the assembled tendencies in the family of nodal columns, and the mirror theorems for any
      family that agrees entrywise (k < K, nodes in range) with the mirrored family *)
  Definition cols_eqv (X Y : P -> @NCol F) : Prop := forall p, inP p -> ncol_eqv c (X p) (Y p).

  Section AssemblyCong.
    Variables X Y : P -> @NCol F.
    Hypothesis EXY : cols_eqv X Y.
    Variables (m : @Moist F) (rt rt' q q' s s' : P -> nat -> F) (r : nat).
    Hypothesis Hr : (r < cK c)%nat.
    Hypothesis Hrt : forall p, inP p -> rt p r = rt' p r.
    Hypothesis Hq : forall p, inP p -> q p r = q' p r.
    Hypothesis Hs : forall p, inP p -> forall k, (k < cK c)%nat -> s p k = s' p k.

    Definition nodal_cong_at p (Hp : inP p) :=
      primeq_nodal_cong c (X p) (Y p) (EXY p Hp) true m (rt p) (rt' p) (q p) (q' p) (s p) (s' p) r Hr
                        (Hrt p Hp) (Hq p Hp) (Hs p Hp).

    Theorem assembly_cong (orog hum humz : W -> F) w :
      inW w ->
      temp_tendency_explicit W P toM divc clip c X r w = temp_tendency_explicit W P toM divc clip c Y r w /\
      temp_tendency_explicit_moist W P toM divc clip c m X q r w = temp_tendency_explicit_moist W P toM divc clip c m Y q' r w /\
      tracer_tendency_explicit X s r w = tracer_tendency_explicit Y s' r w /\
      toM (fun p => log_pressure_tendency c (X p)) w = toM (fun p => log_pressure_tendency c (Y p)) w /\
      div_tendency_explicit W P toM divc lap clip c grav X rt orog hum r w
        = div_tendency_explicit W P toM divc lap clip c grav Y rt' orog hum r w /\
      vort_tendency_explicit W P toM curlc clip c X rt humz r w = vort_tendency_explicit W P toM curlc clip c Y rt' humz r w.
    Proof.
      intros Hw.
      assert (FT : forall w', inW w' ->
                divc (toM (fun p => hsa_mu (X p) (n_temp (X p)) r)) (toM (fun p => hsa_mv (X p) (n_temp (X p)) r)) w'
                = divc (toM (fun p => hsa_mu (Y p) (n_temp (Y p)) r)) (toM (fun p => hsa_mv (Y p) (n_temp (Y p)) r)) w').
      { intros w' Hw'. apply divc_ext; try assumption; intros w'' Hw''; apply toM_ext; try assumption; intros p Hp;
          destruct (nodal_cong_at p Hp) as (_ & _ & _ & _ & _ & _ & C7 & C8 & _); assumption. }
      assert (CUV : forall w', inW w' ->
                toM (fun p => combined_u c true (X p) (rt p) r) w' = toM (fun p => combined_u c true (Y p) (rt' p) r) w' /\
                toM (fun p => combined_v c true (X p) (rt p) r) w' = toM (fun p => combined_v c true (Y p) (rt' p) r) w').
      { intros w' Hw'. split; apply toM_ext; try assumption; intros p Hp;
          destruct (nodal_cong_at p Hp) as (_ & _ & _ & _ & _ & _ & _ & _ & C9 & C10 & _); assumption. }
      repeat split.
      - unfold temp_tendency_explicit. apply clip_ext; [|assumption]. intros w' Hw'. rewrite (FT w' Hw'). f_equal.
        apply toM_ext; [|assumption]. intros p Hp. exact (proj1 (nodal_cong_at p Hp)).
      - unfold temp_tendency_explicit_moist. apply clip_ext; [|assumption]. intros w' Hw'. rewrite (FT w' Hw'). f_equal.
        apply toM_ext; [|assumption]. intros p Hp. exact (proj1 (proj2 (nodal_cong_at p Hp))).
      - unfold tracer_tendency_explicit. apply clip_ext; [|assumption]. intros w' Hw'.
        assert (FS : divc (toM (fun p => hsa_mu (X p) (s p) r)) (toM (fun p => hsa_mv (X p) (s p) r)) w'
                     = divc (toM (fun p => hsa_mu (Y p) (s' p) r)) (toM (fun p => hsa_mv (Y p) (s' p) r)) w').
        { apply divc_ext; try assumption; intros w'' Hw''; apply toM_ext; try assumption; intros p Hp;
            destruct (nodal_cong_at p Hp) as (_ & _ & _ & _ & C5 & C6 & _); assumption. }
        rewrite FS. f_equal. apply toM_ext; [|assumption]. intros p Hp.
        exact (proj1 (proj2 (proj2 (nodal_cong_at p Hp)))).
      - apply toM_ext; [|assumption]. intros p Hp. exact (proj1 (proj2 (proj2 (proj2 (nodal_cong_at p Hp))))).
      - unfold div_tendency_explicit. apply clip_ext; [|assumption]. intros w' Hw'.
        assert (E1 : divc (toM (fun p => combined_u c true (X p) (rt p) r)) (toM (fun p => combined_v c true (X p) (rt p) r)) w'
                     = divc (toM (fun p => combined_u c true (Y p) (rt' p) r)) (toM (fun p => combined_v c true (Y p) (rt' p) r)) w').
        { apply divc_ext; try assumption; intros w'' Hw''; apply (CUV w'' Hw''). }
        assert (E2 : lap (toM (fun p => kinetic (X p) r)) w' = lap (toM (fun p => kinetic (Y p) r)) w').
        { apply lap_ext; [|assumption]. intros w'' Hw''. apply toM_ext; [|assumption]. intros p Hp.
          destruct (nodal_cong_at p Hp) as (_ & _ & _ & _ & _ & _ & _ & _ & _ & _ & C11). exact C11. }
        rewrite E1, E2. reflexivity.
      - unfold vort_tendency_explicit. apply clip_ext; [|assumption]. intros w' Hw'.
        assert (E1 : curlc (toM (fun p => combined_u c true (X p) (rt p) r)) (toM (fun p => combined_v c true (X p) (rt p) r)) w'
                     = curlc (toM (fun p => combined_u c true (Y p) (rt' p) r)) (toM (fun p => combined_v c true (Y p) (rt' p) r)) w').
        { apply curlc_ext; try assumption; intros w'' Hw''; apply (CUV w'' Hw''). }
        rewrite E1. reflexivity.
    Qed.
  End AssemblyCong.

  (** the tendencies of ANY column family X' that agrees entrywise with the mirrored family of X
      (as the columns synthesised from the mirrored modal state do) are the mirrored tendencies *)
  Theorem primeq_mirrored_columns_tendency (m : Moist) (X X' : P -> NCol) (rt rt' q q' s s' : P -> nat -> F)
          (orog hum humz : W -> F) r w :
    cols_eqv X' (mirX X) -> (r < cK c)%nat -> inW w ->
    (forall p, inP p -> rt' p r = rt (piN p) r) -> (forall p, inP p -> q' p r = q (piN p) r) ->
    (forall p, inP p -> forall k, (k < cK c)%nat -> s' p k = s (piN p) k) ->
    temp_tendency_explicit W P toM divc clip c X' r w = Se (temp_tendency_explicit W P toM divc clip c X r) w /\
    temp_tendency_explicit_moist W P toM divc clip c m X' q' r w = Se (temp_tendency_explicit_moist W P toM divc clip c m X q r) w /\
    tracer_tendency_explicit X' s' r w = Se (tracer_tendency_explicit X s r) w /\
    toM (fun p => log_pressure_tendency c (X' p)) w = Se (toM (fun p => log_pressure_tendency c (X p))) w /\
    div_tendency_explicit W P toM divc lap clip c grav X' rt' (Se orog) (Se hum) r w
      = Se (div_tendency_explicit W P toM divc lap clip c grav X rt orog hum r) w /\
    vort_tendency_explicit W P toM curlc clip c X' rt' (So humz) r w
      = So (vort_tendency_explicit W P toM curlc clip c X rt humz r) w.
  Proof.
    intros EX Hr Hw Hrt Hq Hs.
    destruct (assembly_cong X' (mirX X) EX m rt' (fun p => rt (piN p)) q' (fun p => q (piN p)) s' (fun p => s (piN p)) r Hr
                            Hrt Hq Hs (Se orog) (Se hum) (So humz) w Hw) as (A1 & A2 & A3 & A4 & A5 & A6).
    rewrite A1, A2, A3, A4, A5, A6.
    repeat split.
    - now apply primeq_temperature_mirror.
    - now apply primeq_temperature_moist_mirror.
    - now apply primeq_tracer_mirror.
    - now apply primeq_lnps_mirror.
    - now apply primeq_divergence_mirror.
    - now apply primeq_vorticity_mirror.
  Qed.
End PrimEqTendencyMirror.

(** * 10. ... instantiated with the concrete transforms and spectral operators: the explicit
    primitive-equation tendencies assembled from Model/SHT.v analysis, Model/Deriv.v div / curl /
    laplacian / clip are mirror-equivariant under the table hypotheses H_parity and H_nodes_sym *)
Section PrimEqConcrete.
  Context {F : Type} {o : Ops F} {Fc : FieldC o}.
  Add Field FFsy10 : (field_c : FieldTh o).
  Variables (fast : bool) (R L I J : nat).                 (* un-padded modal shape (R, L), nodal shape (I, J) *)
  Variable f : nat -> nat -> F.
  Variable p : nat -> nat -> nat -> F.
  Variable wq : nat -> F.
  Variables (rad : F) (wa wb : @marr F).                   (* radius, derivative recurrence weights *)
  Variable c : @PEcfg F.
  Variable grav : F.
  Hypothesis HR : layout_ok fast R.
  Hypothesis Hpar : H_parity fast R L J p.
  Hypothesis Hnod : H_nodes_sym J wq.

  Definition Wc := (nat * nat)%type.
  Definition inWc (w : Wc) : Prop := (fst w < R)%nat /\ (snd w < L)%nat.
  Definition inPc (q : Wc) : Prop := (fst q < I)%nat /\ (snd q < J)%nat.
  Definition un (a : Wc -> F) : marr := fun i l => a (i, l).
  Definition toMc (z : Wc -> F) (w : Wc) : F := analysis R I J f p wq (un z) (fst w) (snd w).
  Definition piNc (q : Wc) : Wc := (fst q, (J - 1 - snd q)%nat).
  Definition Sec (a : Wc -> F) (w : Wc) : F := mir_modal fast false (un a) (fst w) (snd w).
  Definition Soc (a : Wc -> F) (w : Wc) : F := mir_modal fast true (un a) (fst w) (snd w).
  Definition divcc (a b : Wc -> F) (w : Wc) : F := div_cos_lat fast L R L rad wa wb false (un a, un b) (fst w) (snd w).
  Definition curlcc (a b : Wc -> F) (w : Wc) : F := curl_cos_lat fast L R L rad wa wb false (un a, un b) (fst w) (snd w).
  Definition lapc (a : Wc -> F) (w : Wc) : F := laplacian L rad (un a) (fst w) (snd w).
  Definition clipc (a : Wc -> F) (w : Wc) : F := clip L L 1 (un a) (fst w) (snd w).

  Lemma tri_ext_range C (wm wp : nat -> nat -> F) (x y : arr2) i l :
    (forall l', (l' < C)%nat -> x i l' = y i l') -> (l < C)%nat -> tri C wm wp x i l = tri C wm wp y i l.
  Proof.
    intros H Hl. unfold tri.
    destruct (Nat.ltb_spec (S l) C); destruct (Nat.eqb_spec l 0); rewrite ?H by lia; reflexivity.
  Qed.

  Lemma D2_ext_range (x y : arr2) i l :
    (forall l', (l' < L)%nat -> x i l' = y i l') -> (l < L)%nat -> D2 L L wa wb x i l = D2 L L wa wb y i l.
  Proof. intros H Hl. rewrite !D2_entries by assumption. now apply tri_ext_range. Qed.

  Lemma toMc_ext : forall z z' : Wc -> F, (forall q, inPc q -> z q = z' q) -> forall w, inWc w -> toMc z w = toMc z' w.
  Proof.
    intros z z' E [a l] [Ha Hl]. unfold toMc. apply analysis_ext; [exact Ha|]. intros i j Hi Hj. apply E. split; assumption.
  Qed.

  Lemma clipc_ext : ext1 Wc inWc clipc.
  Proof. intros a b E [i l] Hw. unfold clipc, clip, un. cbn [fst snd]. now rewrite (E (i, l) Hw). Qed.
  Lemma lapc_ext : ext1 Wc inWc lapc.
  Proof. intros a b E [i l] Hw. unfold lapc, laplacian, un. cbn [fst snd]. now rewrite (E (i, l) Hw). Qed.
  Lemma Sec_ext : ext1 Wc inWc Sec.
  Proof. intros a b E [i l] Hw. unfold Sec, mir_modal, un. cbn [fst snd]. now rewrite (E (i, l) Hw). Qed.
  Lemma Soc_ext : ext1 Wc inWc Soc.
  Proof. intros a b E [i l] Hw. unfold Soc, mir_modal, un. cbn [fst snd]. now rewrite (E (i, l) Hw). Qed.

  Lemma divcc_ext : ext2 Wc inWc divcc.
  Proof.
    intros a a' b b' Ea Eb [i l] [Hi Hl]. cbn [fst snd] in Hi, Hl. unfold divcc, div_cos_lat, clip_if. cbn [fst snd].
    rewrite (d_dlon_ext fast R (un a) (un a') i l) by (try assumption; intros i' Hi'; apply Ea; split; assumption).
    rewrite (D2_ext_range (un b) (un b') i l) by (try assumption; intros l' Hl'; apply Eb; split; assumption).
    reflexivity.
  Qed.
  Lemma curlcc_ext : ext2 Wc inWc curlcc.
  Proof.
    intros a a' b b' Ea Eb [i l] [Hi Hl]. cbn [fst snd] in Hi, Hl. unfold curlcc, curl_cos_lat, clip_if. cbn [fst snd].
    rewrite (d_dlon_ext fast R (un b) (un b') i l) by (try assumption; intros i' Hi'; apply Eb; split; assumption).
    rewrite (D2_ext_range (un a) (un a') i l) by (try assumption; intros l' Hl'; apply Ea; split; assumption).
    reflexivity.
  Qed.

  Lemma Sec_lin : lin1 Wc inWc Sec.
  Proof. repeat split; intros; unfold Sec, mir_modal, un; ring. Qed.
  Lemma Soc_lin : lin1 Wc inWc Soc.
  Proof. repeat split; intros; unfold Soc, mir_modal, un; ring. Qed.

  Lemma toMc_even : forall (z : Wc -> F) w, inWc w -> toMc (fun q => z (piNc q)) w = Sec (toMc z) w.
  Proof.
    intros z [a l] [Ha Hl]. cbn [fst snd] in Ha, Hl. unfold toMc, Sec. cbn [fst snd].
    change (un (fun w : Wc => analysis R I J f p wq (un z) (fst w) (snd w))) with (analysis R I J f p wq (un z)).
    rewrite <- (analysis_mir_equivariant fast R L I J f p wq false (un z) a l Hpar Hnod Ha Hl).
    apply analysis_ext; [exact Ha|]. intros i j _ _. unfold un, piNc, flip_lat. cbn. ring.
  Qed.
  Lemma toMc_odd : forall (z : Wc -> F) w, inWc w -> toMc (fun q => - z (piNc q)) w = Soc (toMc z) w.
  Proof.
    intros z [a l] [Ha Hl]. cbn [fst snd] in Ha, Hl. unfold toMc, Soc. cbn [fst snd].
    change (un (fun w : Wc => analysis R I J f p wq (un z) (fst w) (snd w))) with (analysis R I J f p wq (un z)).
    rewrite <- (analysis_mir_equivariant fast R L I J f p wq true (un z) a l Hpar Hnod Ha Hl).
    apply analysis_ext; [exact Ha|]. intros i j _ _. unfold un, piNc, flip_lat. cbn. ring.
  Qed.

  Lemma un_Sec a : un (Sec a) = mir_modal fast false (un a). Proof. reflexivity. Qed.
  Lemma un_Soc a : un (Soc a) = mir_modal fast true (un a). Proof. reflexivity. Qed.

  Lemma divcc_mir : forall a b w, inWc w -> divcc (Sec a) (Soc b) w = Sec (divcc a b) w.
  Proof.
    intros a b [i l] [Hi Hl]. cbn [fst snd] in Hi, Hl. unfold divcc at 1. cbn [fst snd]. rewrite un_Sec, un_Soc.
    exact (proj1 (proj2 (proj2 (vector_calculus_mirror fast L R L rad wa wb false HR false (un a) (un a) (un b) i l Hi Hl)))).
  Qed.
  Lemma curlcc_mir : forall a b w, inWc w -> curlcc (Sec a) (Soc b) w = Soc (curlcc a b) w.
  Proof.
    intros a b [i l] [Hi Hl]. cbn [fst snd] in Hi, Hl. unfold curlcc at 1. cbn [fst snd]. rewrite un_Sec, un_Soc.
    exact (proj1 (proj2 (proj2 (proj2 (vector_calculus_mirror fast L R L rad wa wb false HR false (un a) (un a) (un b) i l Hi Hl))))).
  Qed.
  Lemma lapc_mir : forall a w, inWc w -> lapc (Sec a) w = Sec (lapc a) w.
  Proof. intros a [i l] _. unfold lapc, Sec, laplacian, mir_modal, un. cbn [fst snd]. ring. Qed.
  Lemma clipc_Se : forall a w, inWc w -> clipc (Sec a) w = Sec (clipc a) w.
  Proof. intros a [i l] _. unfold clipc, Sec, clip, mir_modal, un. cbn [fst snd]. ring. Qed.
  Lemma clipc_So : forall a w, inWc w -> clipc (Soc a) w = Soc (clipc a) w.
  Proof. intros a [i l] _. unfold clipc, Soc, clip, mir_modal, un. cbn [fst snd]. ring. Qed.

  (** X: the nodal columns of a state, indexed by the node (i, j); [mirX piNc X] those of the mirrored state *)
  Theorem primeq_tendency_mirror_equivariant (m : Moist) (X : Wc -> NCol) (rt q s : Wc -> nat -> F) (orog hum humz : Wc -> F) r a l :
    (r < cK c)%nat -> (a < R)%nat -> (l < L)%nat ->
    (* temperature (dry, moist), tracers, log surface pressure, divergence: scalars *)
    temp_tendency_explicit Wc Wc toMc divcc clipc c (mirX Wc piNc X) r (a, l)
      = mir_modal fast false (un (temp_tendency_explicit Wc Wc toMc divcc clipc c X r)) a l /\
    temp_tendency_explicit_moist Wc Wc toMc divcc clipc c m (mirX Wc piNc X) (fun n => q (piNc n)) r (a, l)
      = mir_modal fast false (un (temp_tendency_explicit_moist Wc Wc toMc divcc clipc c m X q r)) a l /\
    tracer_tendency_explicit Wc Wc toMc divcc clipc c (mirX Wc piNc X) (fun n => s (piNc n)) r (a, l)
      = mir_modal fast false (un (tracer_tendency_explicit Wc Wc toMc divcc clipc c X s r)) a l /\
    toMc (fun n => log_pressure_tendency c (mirX Wc piNc X n)) (a, l)
      = mir_modal fast false (un (toMc (fun n => log_pressure_tendency c (X n)))) a l /\
    div_tendency_explicit Wc Wc toMc divcc lapc clipc c grav (mirX Wc piNc X) (fun n => rt (piNc n)) (Sec orog) (Sec hum) r (a, l)
      = mir_modal fast false (un (div_tendency_explicit Wc Wc toMc divcc lapc clipc c grav X rt orog hum r)) a l /\
    (* vorticity: pseudo-scalar *)
    vort_tendency_explicit Wc Wc toMc curlcc clipc c (mirX Wc piNc X) (fun n => rt (piNc n)) (Soc humz) r (a, l)
      = mir_modal fast true (un (vort_tendency_explicit Wc Wc toMc curlcc clipc c X rt humz r)) a l.
  Proof.
    intros Hr Ha Hl. assert (Hw : inWc (a, l)) by (split; assumption).
    repeat split.
    - exact (primeq_temperature_mirror Wc Wc inWc inPc toMc divcc clipc c piNc Sec Soc toMc_ext clipc_ext divcc_ext Sec_lin
               toMc_even toMc_odd divcc_mir clipc_Se X r (a, l) Hr Hw).
    - exact (primeq_temperature_moist_mirror Wc Wc inWc inPc toMc divcc clipc c piNc Sec Soc toMc_ext clipc_ext divcc_ext Sec_lin
               toMc_even toMc_odd divcc_mir clipc_Se m X q r (a, l) Hr Hw).
    - exact (primeq_tracer_mirror Wc Wc inWc inPc toMc divcc clipc c piNc Sec Soc toMc_ext clipc_ext divcc_ext Sec_lin
               toMc_even toMc_odd divcc_mir clipc_Se X s r (a, l) Hr Hw).
    - exact (primeq_lnps_mirror Wc Wc inWc inPc toMc c piNc Sec toMc_ext toMc_even X (a, l) Hw).
    - exact (primeq_divergence_mirror Wc Wc inWc inPc toMc divcc lapc clipc c grav piNc Sec Soc toMc_ext clipc_ext lapc_ext divcc_ext
               Sec_lin toMc_even toMc_odd divcc_mir lapc_mir clipc_Se X rt orog hum r (a, l) Hr Hw).
    - exact (primeq_vorticity_mirror Wc Wc inWc inPc toMc curlcc clipc c piNc Sec Soc toMc_ext clipc_ext curlcc_ext Soc_lin
               toMc_even toMc_odd curlcc_mir clipc_So X rt humz r (a, l) Hr Hw).
  Qed.

  (** ** from the mirrored MODAL state to the mirrored family of nodal columns *)
  Lemma D1_ext_range (x y : arr2) i l :
    (forall l', (l' < L)%nat -> x i l' = y i l') -> (l < L)%nat -> D1 L L wa wb x i l = D1 L L wa wb y i l.
  Proof. intros H Hl. rewrite !D1_entries by assumption. now apply tri_ext_range. Qed.

  Lemma grad_ext cl (x y : arr2) i l :
    (forall i' l', (i' < R)%nat -> (l' < L)%nat -> x i' l' = y i' l') -> (i < R)%nat -> (l < L)%nat ->
    fst (cos_lat_grad fast L R L rad wa wb cl x) i l = fst (cos_lat_grad fast L R L rad wa wb cl y) i l /\
    snd (cos_lat_grad fast L R L rad wa wb cl x) i l = snd (cos_lat_grad fast L R L rad wa wb cl y) i l.
  Proof.
    intros E Hi Hl. unfold cos_lat_grad. cbn [fst snd]. rewrite !(clip_if_entry L L cl).
    rewrite (d_dlon_ext fast R x y i l) by (try assumption; intros i' Hi'; now apply E).
    rewrite (D1_ext_range x y i l) by (try assumption; intros l' Hl'; now apply E).
    split; reflexivity.
  Qed.

  (** get_cos_lat_vector of (pseudo-scalar vorticity, scalar divergence) is an (even, odd) vector *)
  Theorem get_cos_lat_vector_mirror cl (vort dive : marr) i l :
    (i < R)%nat -> (l < L)%nat ->
    fst (get_cos_lat_vector fast L R L rad wa wb cl (mir_modal fast true vort) (mir_modal fast false dive)) i l
      = mir_modal fast false (fst (get_cos_lat_vector fast L R L rad wa wb cl vort dive)) i l /\
    snd (get_cos_lat_vector fast L R L rad wa wb cl (mir_modal fast true vort) (mir_modal fast false dive)) i l
      = mir_modal fast true (snd (get_cos_lat_vector fast L R L rad wa wb cl vort dive)) i l.
  Proof.
    intros Hi Hl. unfold get_cos_lat_vector. cbv zeta. unfold k_cross. cbn [fst snd].
    assert (Esf : forall i' l', (i' < R)%nat -> (l' < L)%nat ->
                  inverse_laplacian L rad (mir_modal fast true vort) i' l' = mir_modal fast true (inverse_laplacian L rad vort) i' l')
      by (intros; unfold inverse_laplacian, mir_modal; ring).
    assert (Evp : forall i' l', (i' < R)%nat -> (l' < L)%nat ->
                  inverse_laplacian L rad (mir_modal fast false dive) i' l' = mir_modal fast false (inverse_laplacian L rad dive) i' l')
      by (intros; unfold inverse_laplacian, mir_modal; ring).
    destruct (grad_ext cl _ _ i l Esf Hi Hl) as [S1 S2]. destruct (grad_ext cl _ _ i l Evp Hi Hl) as [V1 V2].
    rewrite S1, S2, V1, V2.
    destruct (vector_calculus_mirror fast L R L rad wa wb cl HR true (inverse_laplacian L rad vort)
                                     (inverse_laplacian L rad vort) (inverse_laplacian L rad vort) i l Hi Hl) as (G1 & G2 & _).
    destruct (vector_calculus_mirror fast L R L rad wa wb cl HR false (inverse_laplacian L rad dive)
                                     (inverse_laplacian L rad dive) (inverse_laplacian L rad dive) i l Hi Hl) as (P1 & P2 & _).
    rewrite G1, G2, P1, P2. cbn [negb]. unfold mir_modal. cbn [sgn_if]. split; ring.
  Qed.

  (** nodal columns synthesised from the modal diagnostic fields (levels k) and the two latitude tables *)
  Definition cols_of_modal (um vm zeta delta temp : nat -> @marr F) (gxm gym : @marr F) (sec2 cor : nat -> F) : Wc -> @NCol F :=
    fun q => mkNCol (fun k => synth R L J f p (um k) (fst q) (snd q)) (fun k => synth R L J f p (vm k) (fst q) (snd q))
                    (fun k => synth R L J f p (zeta k) (fst q) (snd q)) (fun k => synth R L J f p (delta k) (fst q) (snd q))
                    (fun k => synth R L J f p (temp k) (fst q) (snd q))
                    (synth R L J f p gxm (fst q) (snd q)) (synth R L J f p gym (fst q) (snd q)) (sec2 (snd q)) (cor (snd q)).

  Theorem primeq_columns_of_mirrored_state (um vm zeta delta temp : nat -> marr) (gxm gym : marr) (sec2 cor : nat -> F) :
    (forall j, (j < J)%nat -> sec2 j = sec2 (J - 1 - j)%nat) -> (forall j, (j < J)%nat -> cor j = - cor (J - 1 - j)%nat) ->
    cols_eqv Wc inPc c
      (cols_of_modal (fun k => mir_modal fast false (um k)) (fun k => mir_modal fast true (vm k))
                     (fun k => mir_modal fast true (zeta k)) (fun k => mir_modal fast false (delta k))
                     (fun k => mir_modal fast false (temp k)) (mir_modal fast false gxm) (mir_modal fast true gym) sec2 cor)
      (mirX Wc piNc (cols_of_modal um vm zeta delta temp gxm gym sec2 cor)).
  Proof.
    intros Hs Hc [i j] [Hi Hj]. cbn [fst snd] in Hi, Hj.
    unfold ncol_eqv, mirX, ncol_mirror, cols_of_modal, piNc.
    cbn [n_u n_v n_vort n_div n_temp n_gx n_gy n_sec2 n_f fst snd].
    repeat split; try (intros k _);
      try (rewrite (synth_mir_equivariant fast R L J f p wq _ _ i j Hpar Hj); unfold flip_lat; cbn [sgn_if]; ring).
    - exact (Hs j Hj).
    - exact (Hc j Hj).
  Qed.

  (** ** the tendencies computed from the mirrored modal state are the mirrored tendencies *)
  Theorem primeq_mirrored_state_tendency (m : Moist) (um vm zeta delta temp : nat -> marr) (gxm gym : marr) (sec2 cor : nat -> F)
          (rt rt' q q' s s' : Wc -> nat -> F) (orog hum humz : Wc -> F) r a l :
    let X := cols_of_modal um vm zeta delta temp gxm gym sec2 cor in
    let X' := cols_of_modal (fun k => mir_modal fast false (um k)) (fun k => mir_modal fast true (vm k))
                            (fun k => mir_modal fast true (zeta k)) (fun k => mir_modal fast false (delta k))
                            (fun k => mir_modal fast false (temp k)) (mir_modal fast false gxm) (mir_modal fast true gym) sec2 cor in
    (forall j, (j < J)%nat -> sec2 j = sec2 (J - 1 - j)%nat) -> (forall j, (j < J)%nat -> cor j = - cor (J - 1 - j)%nat) ->
    (forall n, inPc n -> rt' n r = rt (piNc n) r) -> (forall n, inPc n -> q' n r = q (piNc n) r) ->
    (forall n, inPc n -> forall k, (k < cK c)%nat -> s' n k = s (piNc n) k) ->
    (r < cK c)%nat -> (a < R)%nat -> (l < L)%nat ->
    temp_tendency_explicit Wc Wc toMc divcc clipc c X' r (a, l)
      = mir_modal fast false (un (temp_tendency_explicit Wc Wc toMc divcc clipc c X r)) a l /\
    temp_tendency_explicit_moist Wc Wc toMc divcc clipc c m X' q' r (a, l)
      = mir_modal fast false (un (temp_tendency_explicit_moist Wc Wc toMc divcc clipc c m X q r)) a l /\
    tracer_tendency_explicit Wc Wc toMc divcc clipc c X' s' r (a, l)
      = mir_modal fast false (un (tracer_tendency_explicit Wc Wc toMc divcc clipc c X s r)) a l /\
    toMc (fun n => log_pressure_tendency c (X' n)) (a, l)
      = mir_modal fast false (un (toMc (fun n => log_pressure_tendency c (X n)))) a l /\
    div_tendency_explicit Wc Wc toMc divcc lapc clipc c grav X' rt' (Sec orog) (Sec hum) r (a, l)
      = mir_modal fast false (un (div_tendency_explicit Wc Wc toMc divcc lapc clipc c grav X rt orog hum r)) a l /\
    vort_tendency_explicit Wc Wc toMc curlcc clipc c X' rt' (Soc humz) r (a, l)
      = mir_modal fast true (un (vort_tendency_explicit Wc Wc toMc curlcc clipc c X rt humz r)) a l.
  Proof.
    intros X X' Hs Hc Hrt Hq Hss Hr Ha Hl. assert (Hw : inWc (a, l)) by (split; assumption).
    exact (primeq_mirrored_columns_tendency Wc Wc inWc inPc toMc divcc curlcc lapc clipc c grav piNc Sec Soc
             toMc_ext clipc_ext lapc_ext divcc_ext curlcc_ext Sec_lin Soc_lin toMc_even toMc_odd divcc_mir curlcc_mir
             lapc_mir clipc_Se clipc_So m X X' rt rt' q q' s s' orog hum humz r (a, l)
             (primeq_columns_of_mirrored_state um vm zeta delta temp gxm gym sec2 cor Hs Hc) Hr Hw Hrt Hq Hss).
  Qed.
  (** humidity corrections of the moist classes, concrete operators *)
  Theorem primeq_humidity_mirror_concrete (m : Moist) (X : Wc -> NCol) (q gqx gqy : Wc -> nat -> F) (lapn : Wc -> F) r a l :
    (a < R)%nat -> (l < L)%nat ->
    humidity_div_modal Wc Wc toMc lapc c m (mirX Wc piNc X) (fun n => q (piNc n)) (fun n => gqx (piNc n))
                       (fun n k => - gqy (piNc n) k) (fun n => lapn (piNc n)) r (a, l)
      = mir_modal fast false (un (humidity_div_modal Wc Wc toMc lapc c m X q gqx gqy lapn r)) a l /\
    humidity_curl_modal Wc Wc toMc c m (mirX Wc piNc X) (fun n => gqx (piNc n)) (fun n k => - gqy (piNc n) k) r (a, l)
      = mir_modal fast true (un (humidity_curl_modal Wc Wc toMc c m X gqx gqy r)) a l.
  Proof.
    intros Ha Hl. assert (Hw : inWc (a, l)) by (split; assumption).
    exact (primeq_humidity_mirror Wc Wc inWc inPc toMc lapc c piNc Sec Soc toMc_ext lapc_ext Sec_ext Sec_lin toMc_even toMc_odd
                                  lapc_mir m X q gqx gqy lapn r (a, l) Hw).
  Qed.
End PrimEqConcrete.

(** * 11. rotation by grid steps: the explicit primitive-equation tendencies of the rotated state are the
    rotated tendencies (no sign bookkeeping: every nodal expression is pointwise in the horizontal) *)
Section PrimEqTendencyRot.
  Context {F : Type} {o : Ops F} {Fc : FieldC o}.
  Add Field FFsy11 : (field_c : FieldTh o).
  Variables W P : Type.
  Variable inW : W -> Prop.
  Variable inP : P -> Prop.
  Variable toM : (P -> F) -> W -> F.
  Variable divc curlc : (W -> F) -> (W -> F) -> W -> F.
  Variable lap clip : (W -> F) -> W -> F.
  Variable c : @PEcfg F.
  Variable grav : F.
  Variable piN : P -> P.                                     (* longitude shift of the nodes *)
  Variable Rm : (W -> F) -> W -> F.                          (* rotation of a modal array *)

  Hypothesis toM_ext : forall z z', (forall p, inP p -> z p = z' p) -> forall w, inW w -> toM z w = toM z' w.
  Hypothesis clip_ext : ext1 W inW clip.
  Hypothesis lap_ext : ext1 W inW lap.
  Hypothesis divc_ext : ext2 W inW divc.
  Hypothesis curlc_ext : ext2 W inW curlc.
  Hypothesis Rm_lin : lin1 W inW Rm.
  Hypothesis Rm_ext : ext1 W inW Rm.
  (** rotation facts of the horizontal operators (instances: analysis_rot_equivariant, vector_calculus_rot,
      l_scale_equivariant) *)
  Hypothesis toM_rot : forall z w, inW w -> toM (fun p => z (piN p)) w = Rm (toM z) w.
  Hypothesis divc_rot : forall a b w, inW w -> divc (Rm a) (Rm b) w = Rm (divc a b) w.
  Hypothesis curlc_rot : forall a b w, inW w -> curlc (Rm a) (Rm b) w = Rm (curlc a b) w.
  Hypothesis lap_rot : forall a w, inW w -> lap (Rm a) w = Rm (lap a) w.
  Hypothesis clip_rot : forall a w, inW w -> clip (Rm a) w = Rm (clip a) w.

  (** the nodal columns of the rotated state: the shifted family (tables sec2_lat, f do not depend on longitude) *)
  Definition rotX (X : P -> @NCol F) : P -> @NCol F := fun p => X (piN p).

  Lemma toM_rot' (z' z : P -> F) w : (forall p, inP p -> z' p = z (piN p)) -> inW w -> toM z' w = Rm (toM z) w.
  Proof. intros E Hw. rewrite <- toM_rot by assumption. now apply toM_ext. Qed.

  Lemma flux_div_rot (X : P -> NCol) (s : P -> nat -> F) r w :
    inW w ->
    divc (toM (fun p => hsa_mu (rotX X p) (s (piN p)) r)) (toM (fun p => hsa_mv (rotX X p) (s (piN p)) r)) w
    = Rm (divc (toM (fun p => hsa_mu (X p) (s p) r)) (toM (fun p => hsa_mv (X p) (s p) r))) w.
  Proof.
    intros Hw. rewrite <- divc_rot by assumption. apply divc_ext; try assumption; intros w' Hw'.
    - apply (toM_rot' _ (fun p => hsa_mu (X p) (s p) r)); [|assumption]. intros p _. reflexivity.
    - apply (toM_rot' _ (fun p => hsa_mv (X p) (s p) r)); [|assumption]. intros p _. reflexivity.
  Qed.

  Lemma scalar_eq_rot (A A' : W -> F) (X : P -> NCol) (s : P -> nat -> F) r w :
    inW w -> (forall w', inW w' -> A' w' = Rm A w') ->
    clip (fun w' => A' w' + - divc (toM (fun p => hsa_mu (rotX X p) (s (piN p)) r))
                                   (toM (fun p => hsa_mv (rotX X p) (s (piN p)) r)) w') w
    = Rm (clip (fun w' => A w' + - divc (toM (fun p => hsa_mu (X p) (s p) r)) (toM (fun p => hsa_mv (X p) (s p) r)) w')) w.
  Proof.
    intros Hw HA. destruct Rm_lin as (Radd & Ropp & _).
    rewrite <- clip_rot by assumption. apply clip_ext; [|assumption]. intros w' Hw'.
    rewrite Radd, Ropp by assumption. rewrite HA, flux_div_rot by assumption. reflexivity.
  Qed.

  Theorem primeq_temperature_rot (X : P -> NCol) r w :
    inW w ->
    temp_tendency_explicit W P toM divc clip c (rotX X) r w = Rm (temp_tendency_explicit W P toM divc clip c X r) w.
  Proof.
    intros Hw. unfold temp_tendency_explicit.
    apply (scalar_eq_rot (toM (fun p => temp_nodal_total c true (X p) r)) _ X (fun p => n_temp (X p)) r w Hw).
    intros w' Hw'. apply toM_rot'; [|assumption]. intros p _. reflexivity.
  Qed.

  Theorem primeq_temperature_moist_rot (m : Moist) (X : P -> NCol) (q : P -> nat -> F) r w :
    inW w ->
    temp_tendency_explicit_moist W P toM divc clip c m (rotX X) (fun p => q (piN p)) r w
    = Rm (temp_tendency_explicit_moist W P toM divc clip c m X q r) w.
  Proof.
    intros Hw. unfold temp_tendency_explicit_moist.
    apply (scalar_eq_rot (toM (fun p => temp_nodal_total_moist c true m (X p) (q p) r)) _ X (fun p => n_temp (X p)) r w Hw).
    intros w' Hw'. apply toM_rot'; [|assumption]. intros p _. reflexivity.
  Qed.

  Theorem primeq_tracer_rot (X : P -> NCol) (s : P -> nat -> F) r w :
    inW w ->
    tracer_tendency_explicit W P toM divc clip c (rotX X) (fun p => s (piN p)) r w
    = Rm (tracer_tendency_explicit W P toM divc clip c X s r) w.
  Proof.
    intros Hw. unfold tracer_tendency_explicit.
    apply (scalar_eq_rot (toM (fun p => tracer_nodal_total c true (X p) (s p) r)) _ X s r w Hw).
    intros w' Hw'. apply toM_rot'; [|assumption]. intros p _. reflexivity.
  Qed.

  Theorem primeq_lnps_rot (X : P -> NCol) w :
    inW w ->
    toM (fun p => log_pressure_tendency c (rotX X p)) w = Rm (toM (fun p => log_pressure_tendency c (X p))) w.
  Proof. intros Hw. apply toM_rot'; [|assumption]. intros p _. reflexivity. Qed.

  Lemma combined_pair_rot (X : P -> NCol) (rt : P -> nat -> F) r :
    (forall w, inW w -> toM (fun p => combined_u c true (rotX X p) (rt (piN p)) r) w
                        = Rm (toM (fun p => combined_u c true (X p) (rt p) r)) w) /\
    (forall w, inW w -> toM (fun p => combined_v c true (rotX X p) (rt (piN p)) r) w
                        = Rm (toM (fun p => combined_v c true (X p) (rt p) r)) w).
  Proof. split; intros w Hw; (apply toM_rot'; [|assumption]); intros p _; reflexivity. Qed.

  (** divergence: the orography (and the humidity correction) of the rotated configuration are the rotated ones *)
  Theorem primeq_divergence_rot (X : P -> NCol) (rt : P -> nat -> F) (orog hum : W -> F) r w :
    inW w ->
    div_tendency_explicit W P toM divc lap clip c grav (rotX X) (fun p => rt (piN p)) (Rm orog) (Rm hum) r w
    = Rm (div_tendency_explicit W P toM divc lap clip c grav X rt orog hum r) w.
  Proof.
    intros Hw. destruct Rm_lin as (Radd & Ropp & Rscal). destruct (combined_pair_rot X rt r) as [CU CV].
    unfold div_tendency_explicit. rewrite <- clip_rot by assumption. apply clip_ext; [|assumption]. intros w' Hw'.
    rewrite !Radd by assumption. rewrite Rscal, !Ropp by assumption.
    assert (E1 : divc (toM (fun p => combined_u c true (rotX X p) (rt (piN p)) r))
                      (toM (fun p => combined_v c true (rotX X p) (rt (piN p)) r)) w'
                 = Rm (divc (toM (fun p => combined_u c true (X p) (rt p) r)) (toM (fun p => combined_v c true (X p) (rt p) r))) w').
    { rewrite <- divc_rot by assumption. apply divc_ext; assumption. }
    assert (E2 : lap (toM (fun p => kinetic (rotX X p) r)) w' = Rm (lap (toM (fun p => kinetic (X p) r))) w').
    { rewrite <- lap_rot by assumption. apply lap_ext; [|assumption]. intros w'' Hw''.
      apply toM_rot'; [|assumption]. intros p _. reflexivity. }
    rewrite E1, E2, (lap_rot orog w' Hw'). reflexivity.
  Qed.

  Theorem primeq_vorticity_rot (X : P -> NCol) (rt : P -> nat -> F) (hum : W -> F) r w :
    inW w ->
    vort_tendency_explicit W P toM curlc clip c (rotX X) (fun p => rt (piN p)) (Rm hum) r w
    = Rm (vort_tendency_explicit W P toM curlc clip c X rt hum r) w.
  Proof.
    intros Hw. destruct Rm_lin as (Radd & Ropp & _). destruct (combined_pair_rot X rt r) as [CU CV].
    unfold vort_tendency_explicit. rewrite <- clip_rot by assumption. apply clip_ext; [|assumption]. intros w' Hw'.
    rewrite Radd, Ropp by assumption.
    assert (E1 : curlc (toM (fun p => combined_u c true (rotX X p) (rt (piN p)) r))
                       (toM (fun p => combined_v c true (rotX X p) (rt (piN p)) r)) w'
                 = Rm (curlc (toM (fun p => combined_u c true (X p) (rt p) r)) (toM (fun p => combined_v c true (X p) (rt p) r))) w').
    { rewrite <- curlc_rot by assumption. apply curlc_ext; assumption. }
    rewrite E1. reflexivity.
  Qed.

  (** humidity corrections of the moist classes *)
  Theorem primeq_humidity_rot (m : Moist) (X : P -> NCol) (q gqx gqy : P -> nat -> F) (lapn : P -> F) r w :
    inW w ->
    humidity_div_modal W P toM lap c m (rotX X) (fun p => q (piN p)) (fun p => gqx (piN p)) (fun p => gqy (piN p))
                       (fun p => lapn (piN p)) r w
      = Rm (humidity_div_modal W P toM lap c m X q gqx gqy lapn r) w /\
    humidity_curl_modal W P toM c m (rotX X) (fun p => gqx (piN p)) (fun p => gqy (piN p)) r w
      = Rm (humidity_curl_modal W P toM c m X gqx gqy r) w.
  Proof.
    intros Hw. destruct Rm_lin as (Radd & Ropp & _). split.
    - unfold humidity_div_modal.
      assert (E1 : lap (toM (fun p => humidity_geo_nodal c false m (rotX X p) (q (piN p)) r)) w
                   = Rm (lap (toM (fun p => humidity_geo_nodal c false m (X p) (q p) r))) w).
      { rewrite <- lap_rot by assumption. apply lap_ext; [|assumption]. intros w' Hw'.
        apply toM_rot'; [|assumption]. intros p _. reflexivity. }
      assert (E2 : toM (fun p => humidity_div_nodal c m (rotX X p) (q (piN p)) (gqx (piN p)) (gqy (piN p)) (lapn (piN p)) r) w
                   = Rm (toM (fun p => humidity_div_nodal c m (X p) (q p) (gqx p) (gqy p) (lapn p) r)) w).
      { apply toM_rot'; [|assumption]. intros p _. reflexivity. }
      rewrite (Rm_ext _ (fun w' => - lap (toM (fun p => humidity_geo_nodal c false m (X p) (q p) r)) w'
                                   + - toM (fun p => humidity_div_nodal c m (X p) (q p) (gqx p) (gqy p) (lapn p) r) w'))
        by (try assumption; intros; ring).
      rewrite Radd, !Ropp by assumption. rewrite E1, E2. ring.
    - unfold humidity_curl_modal. apply toM_rot'; [|assumption]. intros p _. reflexivity.
  Qed.

  (** the tendencies of ANY column family X' that agrees entrywise with the shifted family of X *)
  Theorem primeq_rotated_columns_tendency (m : Moist) (X X' : P -> NCol) (rt rt' q q' s s' : P -> nat -> F)
          (orog hum humz : W -> F) r w :
    cols_eqv P inP c X' (rotX X) -> (r < cK c)%nat -> inW w ->
    (forall p, inP p -> rt' p r = rt (piN p) r) -> (forall p, inP p -> q' p r = q (piN p) r) ->
    (forall p, inP p -> forall k, (k < cK c)%nat -> s' p k = s (piN p) k) ->
    temp_tendency_explicit W P toM divc clip c X' r w = Rm (temp_tendency_explicit W P toM divc clip c X r) w /\
    temp_tendency_explicit_moist W P toM divc clip c m X' q' r w = Rm (temp_tendency_explicit_moist W P toM divc clip c m X q r) w /\
    tracer_tendency_explicit W P toM divc clip c X' s' r w = Rm (tracer_tendency_explicit W P toM divc clip c X s r) w /\
    toM (fun p => log_pressure_tendency c (X' p)) w = Rm (toM (fun p => log_pressure_tendency c (X p))) w /\
    div_tendency_explicit W P toM divc lap clip c grav X' rt' (Rm orog) (Rm hum) r w
      = Rm (div_tendency_explicit W P toM divc lap clip c grav X rt orog hum r) w /\
    vort_tendency_explicit W P toM curlc clip c X' rt' (Rm humz) r w
      = Rm (vort_tendency_explicit W P toM curlc clip c X rt humz r) w.
  Proof.
    intros EX Hr Hw Hrt Hq Hs.
    destruct (assembly_cong W P inW inP toM divc curlc lap clip c grav toM_ext clip_ext lap_ext divc_ext curlc_ext
                            X' (rotX X) EX m rt' (fun p => rt (piN p)) q' (fun p => q (piN p)) s' (fun p => s (piN p)) r Hr
                            Hrt Hq Hs (Rm orog) (Rm hum) (Rm humz) w Hw) as (A1 & A2 & A3 & A4 & A5 & A6).
    rewrite A1, A2, A3, A4, A5, A6.
    repeat split.
    - now apply primeq_temperature_rot.
    - now apply primeq_temperature_moist_rot.
    - now apply primeq_tracer_rot.
    - now apply primeq_lnps_rot.
    - now apply primeq_divergence_rot.
    - now apply primeq_vorticity_rot.
  Qed.
End PrimEqTendencyRot.

(** * 12. ... instantiated with the concrete transforms / spectral operators, under H_rot_table, H_p_pairs,
    H_rot_unit and the pairing of the recurrence weights (sym_rows), both layouts *)
Section PrimEqConcreteRot.
  Context {F : Type} {o : Ops F} {Fc : FieldC o}.
  Add Field FFsy12 : (field_c : FieldTh o).
  Variables (fast : bool) (R L I J : nat).
  Variable f : nat -> nat -> F.
  Variable p : nat -> nat -> nat -> F.
  Variable wq : nat -> F.
  Variables (rad : F) (wa wb : @marr F).
  Variable c : @PEcfg F.
  Variable grav : F.
  Variables (k : nat) (rc rs : nat -> F).                  (* shift by k nodes; cos / sin tables of the rotation *)
  Hypothesis HR : layout_ok fast R.
  Hypothesis Hrot : H_rot_table fast R I f k rc rs.
  Hypothesis Hpp : H_p_pairs fast R L J p.
  Hypothesis Hun : H_rot_unit rc rs.
  Hypothesis Hwa : sym_rows fast R wa.
  Hypothesis Hwb : sym_rows fast R wb.

  Definition piNr (q : Wc) : Wc := (((fst q + k) mod I)%nat, snd q).
  Definition Rmc (a : Wc -> F) (w : Wc) : F := rot_modal fast rc rs (un a) (fst w) (snd w).

  Lemma Rmc_lin : lin1 Wc (inWc R L) Rmc.
  Proof. repeat split; intros; unfold Rmc, rot_modal, un; ring. Qed.

  Lemma Rmc_ext : ext1 Wc (inWc R L) Rmc.
  Proof.
    intros a b E [i l] [Hi Hl]. cbn [fst snd] in Hi, Hl. unfold Rmc, rot_modal, un. cbn [fst snd].
    rewrite (E (i, l)) by (split; assumption).
    rewrite (E (sy_partner fast i, l)) by (split; cbn [fst snd]; [now apply (partner_lt fast R)|assumption]).
    reflexivity.
  Qed.

  Lemma un_Rmc a : un (Rmc a) = rot_modal fast rc rs (un a). Proof. reflexivity. Qed.

  Lemma toMc_rot : forall (z : Wc -> F) w, inWc R L w -> toMc R I J f p wq (fun q => z (piNr q)) w = Rmc (toMc R I J f p wq z) w.
  Proof.
    intros z [a l] [Ha Hl]. cbn [fst snd] in Ha, Hl. unfold toMc, Rmc. cbn [fst snd].
    change (un (fun w : Wc => analysis R I J f p wq (un z) (fst w) (snd w))) with (analysis R I J f p wq (un z)).
    rewrite <- (analysis_rot_equivariant fast R L I J f p wq HR k rc rs (un z) a l Hrot Hpp Hun Ha Hl).
    reflexivity.
  Qed.

  Lemma divcc_rot : forall a b w, inWc R L w ->
    divcc fast R L rad wa wb (Rmc a) (Rmc b) w = Rmc (divcc fast R L rad wa wb a b) w.
  Proof.
    intros a b [i l] [Hi Hl]. cbn [fst snd] in Hi, Hl. unfold divcc at 1. cbn [fst snd]. rewrite !un_Rmc.
    exact (proj1 (proj2 (proj2 (vector_calculus_rot fast L R L rad wa wb false HR rc rs (un a) (un a) (un b) i l Hi Hl
                                                     (proj1 Hun) Hwa Hwb)))).
  Qed.
  Lemma curlcc_rot : forall a b w, inWc R L w ->
    curlcc fast R L rad wa wb (Rmc a) (Rmc b) w = Rmc (curlcc fast R L rad wa wb a b) w.
  Proof.
    intros a b [i l] [Hi Hl]. cbn [fst snd] in Hi, Hl. unfold curlcc at 1. cbn [fst snd]. rewrite !un_Rmc.
    exact (proj1 (proj2 (proj2 (proj2 (vector_calculus_rot fast L R L rad wa wb false HR rc rs (un a) (un a) (un b) i l Hi Hl
                                                            (proj1 Hun) Hwa Hwb))))).
  Qed.
  Lemma lapc_rot : forall a w, inWc R L w -> lapc L rad (Rmc a) w = Rmc (lapc L rad a) w.
  Proof. intros a [i l] _. unfold lapc, Rmc, laplacian, rot_modal, un. cbn [fst snd]. ring. Qed.
  Lemma clipc_rot : forall a w, inWc R L w -> clipc L (Rmc a) w = Rmc (clipc L a) w.
  Proof. intros a [i l] _. unfold clipc, Rmc, clip, rot_modal, un. cbn [fst snd]. ring. Qed.

  (** X: the nodal columns of a state, indexed by the node (i, j); [rotX piNr X] those of the state shifted by k nodes *)
  Theorem primeq_tendency_rot_equivariant (m : Moist) (X : Wc -> NCol) (rt q s : Wc -> nat -> F) (orog hum humz : Wc -> F) r a l :
    (a < R)%nat -> (l < L)%nat ->
    let toM := toMc R I J f p wq in let divc := divcc fast R L rad wa wb in let curlc := curlcc fast R L rad wa wb in
    let lap := lapc L rad in let clp := clipc L in
    temp_tendency_explicit Wc Wc toM divc clp c (rotX Wc piNr X) r (a, l)
      = rot_modal fast rc rs (un (temp_tendency_explicit Wc Wc toM divc clp c X r)) a l /\
    temp_tendency_explicit_moist Wc Wc toM divc clp c m (rotX Wc piNr X) (fun n => q (piNr n)) r (a, l)
      = rot_modal fast rc rs (un (temp_tendency_explicit_moist Wc Wc toM divc clp c m X q r)) a l /\
    tracer_tendency_explicit Wc Wc toM divc clp c (rotX Wc piNr X) (fun n => s (piNr n)) r (a, l)
      = rot_modal fast rc rs (un (tracer_tendency_explicit Wc Wc toM divc clp c X s r)) a l /\
    toM (fun n => log_pressure_tendency c (rotX Wc piNr X n)) (a, l)
      = rot_modal fast rc rs (un (toM (fun n => log_pressure_tendency c (X n)))) a l /\
    div_tendency_explicit Wc Wc toM divc lap clp c grav (rotX Wc piNr X) (fun n => rt (piNr n)) (Rmc orog) (Rmc hum) r (a, l)
      = rot_modal fast rc rs (un (div_tendency_explicit Wc Wc toM divc lap clp c grav X rt orog hum r)) a l /\
    vort_tendency_explicit Wc Wc toM curlc clp c (rotX Wc piNr X) (fun n => rt (piNr n)) (Rmc humz) r (a, l)
      = rot_modal fast rc rs (un (vort_tendency_explicit Wc Wc toM curlc clp c X rt humz r)) a l.
  Proof.
    intros Ha Hl toM divc curlc lap clp. assert (Hw : inWc R L (a, l)) by (split; assumption).
    pose proof (toMc_ext R L I J f p wq) as E0. pose proof (clipc_ext R L) as E1. pose proof (lapc_ext R L rad) as E2.
    pose proof (divcc_ext fast R L f rad wa wb) as E3. pose proof (curlcc_ext fast R L f rad wa wb) as E4.
    repeat split.
    - exact (primeq_temperature_rot Wc Wc (inWc R L) (inPc I J) toM divc clp c piNr Rmc E0 E1 E3 Rmc_lin toMc_rot divcc_rot clipc_rot X r (a, l) Hw).
    - exact (primeq_temperature_moist_rot Wc Wc (inWc R L) (inPc I J) toM divc clp c piNr Rmc E0 E1 E3 Rmc_lin toMc_rot divcc_rot clipc_rot
                                          m X q r (a, l) Hw).
    - exact (primeq_tracer_rot Wc Wc (inWc R L) (inPc I J) toM divc clp c piNr Rmc E0 E1 E3 Rmc_lin toMc_rot divcc_rot clipc_rot X s r (a, l) Hw).
    - exact (primeq_lnps_rot Wc Wc (inWc R L) (inPc I J) toM c piNr Rmc E0 toMc_rot X (a, l) Hw).
    - exact (primeq_divergence_rot Wc Wc (inWc R L) (inPc I J) toM divc lap clp c grav piNr Rmc E0 E1 E2 E3 Rmc_lin toMc_rot divcc_rot
                                   lapc_rot clipc_rot X rt orog hum r (a, l) Hw).
    - exact (primeq_vorticity_rot Wc Wc (inWc R L) (inPc I J) toM curlc clp c piNr Rmc E0 E1 E4 Rmc_lin toMc_rot curlcc_rot clipc_rot
                                  X rt humz r (a, l) Hw).
  Qed.

  (** velocities of the rotated state *)
  Theorem get_cos_lat_vector_rot cl (vort dive : marr) i l :
    (i < R)%nat -> (l < L)%nat ->
    fst (get_cos_lat_vector fast L R L rad wa wb cl (rot_modal fast rc rs vort) (rot_modal fast rc rs dive)) i l
      = rot_modal fast rc rs (fst (get_cos_lat_vector fast L R L rad wa wb cl vort dive)) i l /\
    snd (get_cos_lat_vector fast L R L rad wa wb cl (rot_modal fast rc rs vort) (rot_modal fast rc rs dive)) i l
      = rot_modal fast rc rs (snd (get_cos_lat_vector fast L R L rad wa wb cl vort dive)) i l.
  Proof.
    intros Hi Hl. unfold get_cos_lat_vector. cbv zeta. unfold k_cross. cbn [fst snd].
    assert (E : forall x i' l', (i' < R)%nat -> (l' < L)%nat ->
                inverse_laplacian L rad (rot_modal fast rc rs x) i' l' = rot_modal fast rc rs (inverse_laplacian L rad x) i' l')
      by (intros; unfold inverse_laplacian, rot_modal; ring).
    destruct (grad_ext fast R L f rad wa wb cl _ _ i l (E vort) Hi Hl) as [S1 S2].
    destruct (grad_ext fast R L f rad wa wb cl _ _ i l (E dive) Hi Hl) as [V1 V2].
    rewrite S1, S2, V1, V2.
    destruct (vector_calculus_rot fast L R L rad wa wb cl HR rc rs (inverse_laplacian L rad vort)
                                  (inverse_laplacian L rad vort) (inverse_laplacian L rad vort) i l Hi Hl (proj1 Hun) Hwa Hwb) as (G1 & G2 & _).
    destruct (vector_calculus_rot fast L R L rad wa wb cl HR rc rs (inverse_laplacian L rad dive)
                                  (inverse_laplacian L rad dive) (inverse_laplacian L rad dive) i l Hi Hl (proj1 Hun) Hwa Hwb) as (P1 & P2 & _).
    rewrite G1, G2, P1, P2. unfold rot_modal. split; ring.
  Qed.

  (** the nodal columns synthesised from the rotated modal fields are (entrywise) the shifted family *)
  Theorem primeq_columns_of_rotated_state (um vm zeta delta temp : nat -> marr) (gxm gym : marr) (sec2 cor : nat -> F) :
    cols_eqv Wc (inPc I J) c
      (cols_of_modal R L J f p (fun n => rot_modal fast rc rs (um n)) (fun n => rot_modal fast rc rs (vm n))
                     (fun n => rot_modal fast rc rs (zeta n)) (fun n => rot_modal fast rc rs (delta n))
                     (fun n => rot_modal fast rc rs (temp n)) (rot_modal fast rc rs gxm) (rot_modal fast rc rs gym) sec2 cor)
      (rotX Wc piNr (cols_of_modal R L J f p um vm zeta delta temp gxm gym sec2 cor)).
  Proof.
    intros [i j] [Hi Hj]. cbn [fst snd] in Hi, Hj.
    unfold ncol_eqv, rotX, cols_of_modal, piNr. cbn [n_u n_v n_vort n_div n_temp n_gx n_gy n_sec2 n_f fst snd].
    repeat split; try (intros n _);
      try (rewrite (synth_rot_equivariant fast R L I J f p HR k rc rs _ i j Hrot Hpp (proj1 Hun) Hi Hj); reflexivity).
  Qed.

  (** the tendencies computed from the rotated MODAL state (orography rotated too) are the rotated tendencies *)
  Theorem primeq_rotated_state_tendency (m : Moist) (um vm zeta delta temp : nat -> marr) (gxm gym : marr) (sec2 cor : nat -> F)
          (rt rt' q q' s s' : Wc -> nat -> F) (orog hum humz : Wc -> F) r a l :
    let X := cols_of_modal R L J f p um vm zeta delta temp gxm gym sec2 cor in
    let X' := cols_of_modal R L J f p (fun n => rot_modal fast rc rs (um n)) (fun n => rot_modal fast rc rs (vm n))
                            (fun n => rot_modal fast rc rs (zeta n)) (fun n => rot_modal fast rc rs (delta n))
                            (fun n => rot_modal fast rc rs (temp n)) (rot_modal fast rc rs gxm) (rot_modal fast rc rs gym) sec2 cor in
    let toM := toMc R I J f p wq in let divc := divcc fast R L rad wa wb in let curlc := curlcc fast R L rad wa wb in
    let lap := lapc L rad in let clp := clipc L in
    (forall n, inPc I J n -> rt' n r = rt (piNr n) r) -> (forall n, inPc I J n -> q' n r = q (piNr n) r) ->
    (forall n, inPc I J n -> forall g, (g < cK c)%nat -> s' n g = s (piNr n) g) ->
    (r < cK c)%nat -> (a < R)%nat -> (l < L)%nat ->
    temp_tendency_explicit Wc Wc toM divc clp c X' r (a, l)
      = rot_modal fast rc rs (un (temp_tendency_explicit Wc Wc toM divc clp c X r)) a l /\
    temp_tendency_explicit_moist Wc Wc toM divc clp c m X' q' r (a, l)
      = rot_modal fast rc rs (un (temp_tendency_explicit_moist Wc Wc toM divc clp c m X q r)) a l /\
    tracer_tendency_explicit Wc Wc toM divc clp c X' s' r (a, l)
      = rot_modal fast rc rs (un (tracer_tendency_explicit Wc Wc toM divc clp c X s r)) a l /\
    toM (fun n => log_pressure_tendency c (X' n)) (a, l)
      = rot_modal fast rc rs (un (toM (fun n => log_pressure_tendency c (X n)))) a l /\
    div_tendency_explicit Wc Wc toM divc lap clp c grav X' rt' (Rmc orog) (Rmc hum) r (a, l)
      = rot_modal fast rc rs (un (div_tendency_explicit Wc Wc toM divc lap clp c grav X rt orog hum r)) a l /\
    vort_tendency_explicit Wc Wc toM curlc clp c X' rt' (Rmc humz) r (a, l)
      = rot_modal fast rc rs (un (vort_tendency_explicit Wc Wc toM curlc clp c X rt humz r)) a l.
  Proof.
    intros X X' toM divc curlc lap clp Hrt Hq Hss Hr Ha Hl. assert (Hw : inWc R L (a, l)) by (split; assumption).
    exact (primeq_rotated_columns_tendency Wc Wc (inWc R L) (inPc I J) toM divc curlc lap clp c grav piNr Rmc
             (toMc_ext R L I J f p wq) (clipc_ext R L) (lapc_ext R L rad) (divcc_ext fast R L f rad wa wb) (curlcc_ext fast R L f rad wa wb)
             Rmc_lin toMc_rot divcc_rot curlcc_rot lapc_rot clipc_rot m X X' rt rt' q q' s s' orog hum humz r (a, l)
             (primeq_columns_of_rotated_state um vm zeta delta temp gxm gym sec2 cor) Hr Hw Hrt Hq Hss).
  Qed.

  (** humidity corrections of the moist classes *)
  Theorem primeq_humidity_rot_concrete (m : Moist) (X : Wc -> NCol) (q gqx gqy : Wc -> nat -> F) (lapn : Wc -> F) r a l :
    (a < R)%nat -> (l < L)%nat ->
    humidity_div_modal Wc Wc (toMc R I J f p wq) (lapc L rad) c m (rotX Wc piNr X) (fun n => q (piNr n)) (fun n => gqx (piNr n))
                       (fun n => gqy (piNr n)) (fun n => lapn (piNr n)) r (a, l)
      = rot_modal fast rc rs (un (humidity_div_modal Wc Wc (toMc R I J f p wq) (lapc L rad) c m X q gqx gqy lapn r)) a l /\
    humidity_curl_modal Wc Wc (toMc R I J f p wq) c m (rotX Wc piNr X) (fun n => gqx (piNr n)) (fun n => gqy (piNr n)) r (a, l)
      = rot_modal fast rc rs (un (humidity_curl_modal Wc Wc (toMc R I J f p wq) c m X gqx gqy r)) a l.
  Proof.
    intros Ha Hl. assert (Hw : inWc R L (a, l)) by (split; assumption).
    exact (primeq_humidity_rot Wc Wc (inWc R L) (inPc I J) (toMc R I J f p wq) (lapc L rad) c piNr Rmc (toMc_ext R L I J f p wq)
                               (lapc_ext R L rad) Rmc_lin Rmc_ext toMc_rot lapc_rot m X q gqx gqy lapn r (a, l) Hw).
  Qed.
End PrimEqConcreteRot.

(** * 13. implicit terms and implicit inverse of the primitive equations (Model/Implicit.v): operators acting on the
    vertical column of one coefficient (m, l), depending on l only - they commute with both actions *)
Section ImplicitEquivariance.
  Context {F : Type} {o : Ops F} {Fc : FieldC o}.
  Add Field FFsy13 : (field_c : FieldTh o).
  Variable fast : bool.
  Variable K : nat.
  (** a family of column operators indexed by the total wavenumber (through the laplacian eigenvalue) *)
  Variable Lop : nat -> @Col F -> @Col F.
  Definition col_linear : Prop :=
    forall l a b x y, col_eq K (Lop l (col_lin a x b y)) (col_lin a (Lop l x) b (Lop l y)).
  Definition col_respects : Prop := forall l x y, col_eq K x y -> col_eq K (Lop l x) (Lop l y).

  (** the column (divergence, temperature, lnps) of the coefficient at row i, total wavenumber l *)
  Definition col_at (dv tp : nat -> @marr F) (ps : @marr F) (i l : nat) : @Col F :=
    mkCol (fun g => dv g i l) (fun g => tp g i l) (ps i l).
  (** the operator applied coefficient by coefficient: result stacks *)
  Definition op_div (dv tp : nat -> marr) (ps : marr) (g : nat) : marr := fun i l => c_div (Lop l (col_at dv tp ps i l)) g.
  Definition op_temp (dv tp : nat -> marr) (ps : marr) (g : nat) : marr := fun i l => c_temp (Lop l (col_at dv tp ps i l)) g.
  Definition op_lnps (dv tp : nat -> marr) (ps : marr) : marr := fun i l => c_lnps (Lop l (col_at dv tp ps i l)).

  Theorem column_family_rot_equivariant (c s : nat -> F) (dv tp : nat -> marr) (ps : marr) g i l :
    col_linear -> (g < K)%nat ->
    let dv' := fun g => rot_modal fast c s (dv g) in let tp' := fun g => rot_modal fast c s (tp g) in
    let ps' := rot_modal fast c s ps in
    op_div dv' tp' ps' g i l = rot_modal fast c s (op_div dv tp ps g) i l /\
    op_temp dv' tp' ps' g i l = rot_modal fast c s (op_temp dv tp ps g) i l /\
    op_lnps dv' tp' ps' i l = rot_modal fast c s (op_lnps dv tp ps) i l.
  Proof.
    intros Hlin Hg dv' tp' ps'. unfold op_div, op_temp, op_lnps.
    change (col_at dv' tp' ps' i l)
      with (col_lin (c (sy_wav fast i)) (col_at dv tp ps i l) (rot_s fast s i) (col_at dv tp ps (sy_partner fast i) l)).
    destruct (Hlin l (c (sy_wav fast i)) (rot_s fast s i) (col_at dv tp ps i l) (col_at dv tp ps (sy_partner fast i) l))
      as (E1 & E2 & E3).
    repeat split; [rewrite (E1 g Hg)|rewrite (E2 g Hg)|rewrite E3]; reflexivity.
  Qed.

  Theorem column_family_mir_equivariant pz (dv tp : nat -> marr) (ps : marr) g i l :
    col_linear -> col_respects -> (g < K)%nat ->
    let dv' := fun g => mir_modal fast pz (dv g) in let tp' := fun g => mir_modal fast pz (tp g) in
    let ps' := mir_modal fast pz ps in
    op_div dv' tp' ps' g i l = mir_modal fast pz (op_div dv tp ps g) i l /\
    op_temp dv' tp' ps' g i l = mir_modal fast pz (op_temp dv tp ps g) i l /\
    op_lnps dv' tp' ps' i l = mir_modal fast pz (op_lnps dv tp ps) i l.
  Proof.
    intros Hlin Hres Hg dv' tp' ps'. unfold op_div, op_temp, op_lnps.
    set (sg := sgn_if pz * sgn_pow (l + sy_wav fast i)).
    assert (E0 : col_eq K (col_at dv' tp' ps' i l) (col_lin sg (col_at dv tp ps i l) 0 (col_at dv tp ps i l))).
    { repeat split; cbn [col_at col_lin c_div c_temp c_lnps]; intros; unfold dv', tp', ps', mir_modal, sg; ring. }
    destruct (Hres l _ _ E0) as (R1 & R2 & R3).
    destruct (Hlin l sg 0 (col_at dv tp ps i l) (col_at dv tp ps i l)) as (E1 & E2 & E3).
    repeat split; [rewrite (R1 g Hg), (E1 g Hg)|rewrite (R2 g Hg), (E2 g Hg)|rewrite R3, E3];
      cbn [col_lin c_div c_temp c_lnps]; unfold mir_modal, sg; ring.
  Qed.
End ImplicitEquivariance.

Section ImplicitInstances.
  Context {F : Type} {o : Ops F} {Fc : FieldC o}.
  Add Field FFsy14 : (field_c : FieldTh o).
  Variable c : @PEcfg F.

  Lemma revcumsum_dot_ext K (x y : nat -> F) j :
    (forall k, (k < K)%nat -> x k = y k) -> revcumsum_dot K x j = revcumsum_dot K y j.
  Proof. intros H. unfold revcumsum_dot. apply sumn_ext. intros i Hi. now rewrite H. Qed.

  Lemma implicit_terms_respects sp lam (x y : @Col F) :
    col_eq (cK c) x y -> col_eq (cK c) (implicit_terms sp c lam x) (implicit_terms sp c lam y).
  Proof.
    intros (Ed & Et & El). repeat split; cbn [implicit_terms c_div c_temp c_lnps].
    - intros g Hg. rewrite El.
      assert (E : geo_diff sp c (c_temp x) g = geo_diff sp c (c_temp y) g).
      { unfold geo_diff. destruct sp.
        - unfold geo_diff_sparse. cbv zeta. rewrite (Et g Hg). f_equal.
          apply revcumsum_dot_ext. intros k Hk. now rewrite (Et k Hk).
        - unfold geo_diff_dense. apply sumn_ext. intros k Hk. now rewrite (Et k Hk). }
      now rewrite E.
    - intros g Hg. unfold temp_implicit. destruct sp.
      + unfold temp_implicit_sparse. cbv zeta. rewrite (Ed g Hg).
        rewrite (cumsum_dot_ext (cK c) (fun k => thickness (cb c) k * c_div x k) (fun k => thickness (cb c) k * c_div y k) g)
          by (intros k Hk; now rewrite (Ed k Hk)).
        rewrite (revcumsum_dot_ext (cK c) (fun k => thickness (cb c) k * c_div x k) (fun k => thickness (cb c) k * c_div y k) g)
          by (intros k Hk; now rewrite (Ed k Hk)).
        reflexivity.
      + unfold temp_implicit_dense. now apply matvec_ext.
    - f_equal. now apply matvec_ext.
  Qed.

  Lemma inverse_split_linear inv eta lam a b (x y : @Col F) :
    col_eq (cK c) (inverse_split inv c eta lam (col_lin a x b y))
                  (col_lin a (inverse_split inv c eta lam x) b (inverse_split inv c eta lam y)).
  Proof.
    unfold inverse_split. cbv zeta.
    change (lnps_vec (col_lin a x b y)) with (fun h : nat => a * lnps_vec x h + b * lnps_vec y h).
    repeat split; cbn [col_lin c_div c_temp c_lnps]; intros; rewrite !matvec_lin; ring.
  Qed.

  Lemma inverse_split_respects inv eta lam (x y : @Col F) :
    col_eq (cK c) x y -> col_eq (cK c) (inverse_split inv c eta lam x) (inverse_split inv c eta lam y).
  Proof.
    intros (Ed & Et & El). unfold inverse_split. cbv zeta.
    assert (EL : forall A i, matvec 1 A (lnps_vec x) i = matvec 1 A (lnps_vec y) i)
      by (intros; apply matvec_ext; intros; unfold lnps_vec; now rewrite El).
    repeat split; cbn [c_div c_temp c_lnps]; intros; rewrite !EL;
      rewrite !(matvec_ext (cK c) _ (c_div x) (c_div y)) by assumption;
      rewrite !(matvec_ext (cK c) _ (c_temp x) (c_temp y)) by assumption; reflexivity.
  Qed.

  (** implicit_terms and implicit_inverse (default method 'split'; [lam l] = laplacian eigenvalue of l, any matrix
      inverse routine [inv]) of the rotated / mirrored (divergence, temperature, lnps) stacks *)
  Theorem implicit_terms_equivariant fast sp (lam : nat -> F) (rc rs : nat -> F) pz (dv tp : nat -> marr) (ps : marr) g i l :
    (g < cK c)%nat ->
    let Lop := fun l => implicit_terms sp c (lam l) in
    (let dv' := fun g => rot_modal fast rc rs (dv g) in let tp' := fun g => rot_modal fast rc rs (tp g) in
     let ps' := rot_modal fast rc rs ps in
     op_div Lop dv' tp' ps' g i l = rot_modal fast rc rs (op_div Lop dv tp ps g) i l /\
     op_temp Lop dv' tp' ps' g i l = rot_modal fast rc rs (op_temp Lop dv tp ps g) i l /\
     op_lnps Lop dv' tp' ps' i l = rot_modal fast rc rs (op_lnps Lop dv tp ps) i l) /\
    (let dv' := fun g => mir_modal fast pz (dv g) in let tp' := fun g => mir_modal fast pz (tp g) in
     let ps' := mir_modal fast pz ps in
     op_div Lop dv' tp' ps' g i l = mir_modal fast pz (op_div Lop dv tp ps g) i l /\
     op_temp Lop dv' tp' ps' g i l = mir_modal fast pz (op_temp Lop dv tp ps g) i l /\
     op_lnps Lop dv' tp' ps' i l = mir_modal fast pz (op_lnps Lop dv tp ps) i l).
  Proof.
    intros Hg Lop.
    assert (Hlin : col_linear (cK c) Lop) by (intros l' a b x y; apply L_linear).
    assert (Hres : col_respects (cK c) Lop) by (intros l' x y; apply implicit_terms_respects).
    split.
    - exact (column_family_rot_equivariant fast (cK c) Lop rc rs dv tp ps g i l Hlin Hg).
    - exact (column_family_mir_equivariant fast (cK c) Lop pz dv tp ps g i l Hlin Hres Hg).
  Qed.

  Theorem implicit_inverse_equivariant fast inv eta (lam : nat -> F) (rc rs : nat -> F) pz (dv tp : nat -> marr) (ps : marr) g i l :
    (g < cK c)%nat ->
    let Lop := fun l => inverse_split inv c eta (lam l) in
    (let dv' := fun g => rot_modal fast rc rs (dv g) in let tp' := fun g => rot_modal fast rc rs (tp g) in
     let ps' := rot_modal fast rc rs ps in
     op_div Lop dv' tp' ps' g i l = rot_modal fast rc rs (op_div Lop dv tp ps g) i l /\
     op_temp Lop dv' tp' ps' g i l = rot_modal fast rc rs (op_temp Lop dv tp ps g) i l /\
     op_lnps Lop dv' tp' ps' i l = rot_modal fast rc rs (op_lnps Lop dv tp ps) i l) /\
    (let dv' := fun g => mir_modal fast pz (dv g) in let tp' := fun g => mir_modal fast pz (tp g) in
     let ps' := mir_modal fast pz ps in
     op_div Lop dv' tp' ps' g i l = mir_modal fast pz (op_div Lop dv tp ps g) i l /\
     op_temp Lop dv' tp' ps' g i l = mir_modal fast pz (op_temp Lop dv tp ps g) i l /\
     op_lnps Lop dv' tp' ps' i l = mir_modal fast pz (op_lnps Lop dv tp ps) i l).
  Proof.
    intros Hg Lop.
    assert (Hlin : col_linear (cK c) Lop) by (intros l' a b x y; apply inverse_split_linear).
    assert (Hres : col_respects (cK c) Lop) by (intros l' x y; apply inverse_split_respects).
    split.
    - exact (column_family_rot_equivariant fast (cK c) Lop rc rs dv tp ps g i l Hlin Hg).
    - exact (column_family_mir_equivariant fast (cK c) Lop pz dv tp ps g i l Hlin Hres Hg).
  Qed.
End ImplicitInstances.
