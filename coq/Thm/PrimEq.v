(** Theorems about the primitive-equation column model (property C04):
    the total tendency does not depend on the reference-temperature split.
    Every statement is for an arbitrary field, arbitrary K, arbitrary levels. *)
From Dino Require Import Base.Ops Base.Sums Base.Ord Model.Sigma Thm.Sigma Model.Implicit Model.PrimEq.
Local Open Scope F_scope.

Section Algebra.
  Context {F : Type} {o : Ops F} {Fc : FieldC o}.
  Add Field FFp : (field_c : FieldTh o).
  Hypothesis two_nz : two <> 0.

  Lemma fdiv_def (x y : F) : x / y = x * finv y.
  Proof. apply (Fdiv_def field_c). Qed.

  (** *** linearity of the vertical building blocks *)
  Lemma cumsum_dot_add K (x y : nat -> F) j :
    cumsum_dot K (fun k => x k + y k) j = cumsum_dot K x j + cumsum_dot K y j.
  Proof.
    unfold cumsum_dot. rewrite <- sumn_add. apply sumn_ext. intros; ring.
  Qed.
  Lemma cumsum_dot_scal K a (x : nat -> F) j :
    cumsum_dot K (fun k => a * x k) j = a * cumsum_dot K x j.
  Proof.
    unfold cumsum_dot. rewrite <- sumn_scal_l. apply sumn_ext. intros; ring.
  Qed.
  Lemma cumsum_dot_ext K (x y : nat -> F) j :
    (forall k, (k < K)%nat -> x k = y k) -> cumsum_dot K x j = cumsum_dot K y j.
  Proof. intros H. unfold cumsum_dot. apply sumn_ext. intros i Hi. now rewrite H. Qed.

  Variable c : @PEcfg F.

  Lemma cumint_add (g h : nat -> F) j :
    cumint c (fun k => g k + h k) j = cumint c g j + cumint c h j.
  Proof.
    unfold cumint, cum_sigma_integral, cumsum_m. rewrite <- cumsum_dot_add.
    apply cumsum_dot_ext. intros k _. unfold xdsigma. ring.
  Qed.
  Lemma cumint_ext (g h : nat -> F) j :
    (forall k, (k < cK c)%nat -> g k = h k) -> cumint c g j = cumint c h j.
  Proof.
    intros H. unfold cumint, cum_sigma_integral, cumsum_m. apply cumsum_dot_ext.
    intros k Hk. unfold xdsigma. now rewrite H.
  Qed.

  Lemma sigma_dot_add (g h : nat -> F) r :
    sigma_dot c (fun k => g k + h k) r = sigma_dot c g r + sigma_dot c h r.
  Proof. unfold sigma_dot. cbv zeta. rewrite !cumint_add. ring. Qed.
  Lemma sigma_dot_ext (g h : nat -> F) r :
    (forall k, (k < cK c)%nat -> g k = h k) -> sigma_dot c g r = sigma_dot c h r.
  Proof. intros H. unfold sigma_dot. cbv zeta. now rewrite !(cumint_ext g h) by exact H. Qed.

  Lemma g_part_add (g h : nat -> F) n :
    g_part c (fun k => g k + h k) n = g_part c g n + g_part c h n.
  Proof.
    unfold g_part. cbv zeta. rewrite !fdiv_def, !cumint_add.
    destruct (Nat.eqb n 0); ring.
  Qed.
  Lemma g_part_ext (g h : nat -> F) n :
    (forall k, (k < cK c)%nat -> g k = h k) -> g_part c g n = g_part c h n.
  Proof. intros H. unfold g_part. cbv zeta. now rewrite !(cumint_ext g h) by exact H. Qed.

  (** centred vertical advection with zero boundary values, in closed form *)
  Definition adv_term (w xx : nat -> F) (n : nat) : F :=
    if Nat.ltb (S n) (cK c) then w n * centered_difference (cb c) xx n else 0.
  Lemma vertical_tendency_closed (w xx : nat -> F) n :
    (n < cK c)%nat ->
    vertical_tendency c w xx n
    = (- half) * (adv_term w xx n + (if Nat.eqb n 0 then 0 else adv_term w xx (n - 1))).
  Proof.
    intros Hn. unfold vertical_tendency, centered_vertical_advection, adv_term. cbv zeta.
    f_equal. f_equal.
    - destruct (Nat.ltb_spec (S n) (cK c)).
      + now rewrite !pad_tb_mid by lia.
      + assert (S n = cK c) as -> by lia. rewrite !pad_tb_K by lia. ring.
    - destruct n as [|n].
      + cbn [Nat.eqb]. rewrite !pad_tb_0. ring.
      + cbn [Nat.eqb]. rewrite !pad_tb_mid by lia.
        replace (S n - 1)%nat with n by lia.
        destruct (Nat.ltb_spec (S n) (cK c)); [reflexivity|lia].
  Qed.

  Lemma centered_difference_add (x y : nat -> F) k :
    centered_difference (cb c) (fun j => x j + y j) k
    = centered_difference (cb c) x k + centered_difference (cb c) y k.
  Proof. unfold centered_difference. ring. Qed.

  Lemma vertical_tendency_add_x (w x y : nat -> F) n :
    (n < cK c)%nat ->
    vertical_tendency c w (fun j => x j + y j) n = vertical_tendency c w x n + vertical_tendency c w y n.
  Proof.
    intros Hn. rewrite !vertical_tendency_closed by exact Hn. unfold adv_term.
    rewrite !centered_difference_add.
    destruct (Nat.ltb (S n) (cK c)), (Nat.eqb n 0), (Nat.ltb (S (n - 1)) (cK c)); ring.
  Qed.
  Lemma vertical_tendency_add_w (w1 w2 x : nat -> F) n :
    (n < cK c)%nat ->
    vertical_tendency c (fun j => w1 j + w2 j) x n = vertical_tendency c w1 x n + vertical_tendency c w2 x n.
  Proof.
    intros Hn. rewrite !vertical_tendency_closed by exact Hn. unfold adv_term.
    destruct (Nat.ltb (S n) (cK c)), (Nat.eqb n 0), (Nat.ltb (S (n - 1)) (cK c)); ring.
  Qed.
  Lemma vertical_tendency_ext (w1 w2 x1 x2 : nat -> F) n :
    (n < cK c)%nat ->
    (forall k, (S k < cK c)%nat -> w1 k = w2 k) -> (forall k, (k < cK c)%nat -> x1 k = x2 k) ->
    vertical_tendency c w1 x1 n = vertical_tendency c w2 x2 n.
  Proof.
    intros Hn Hw Hx. rewrite !vertical_tendency_closed by exact Hn. unfold adv_term, centered_difference.
    f_equal. f_equal.
    - destruct (Nat.ltb_spec (S n) (cK c)); [|reflexivity]. rewrite Hw, !Hx by lia. reflexivity.
    - destruct n as [|n]; [reflexivity|]. cbn [Nat.eqb]. replace (S n - 1)%nat with n by lia.
      destruct (Nat.ltb_spec (S n) (cK c)); [|reflexivity]. rewrite Hw, !Hx by lia. reflexivity.
  Qed.
  (** a level-independent profile is not advected *)
  Lemma vertical_tendency_const (w x : nat -> F) n :
    (n < cK c)%nat -> (forall k, (k < cK c)%nat -> x k = x 0%nat) -> vertical_tendency c w x n = 0.
  Proof.
    intros Hn Hx. rewrite vertical_tendency_closed by exact Hn. unfold adv_term, centered_difference.
    assert (E : forall k, (S k < cK c)%nat -> x (S k) - x k = 0).
    { intros k Hk. rewrite (Hx (S k)), (Hx k) by lia. ring. }
    destruct (Nat.ltb_spec (S n) (cK c)) as [H1|H1].
    - rewrite (E n H1). destruct n as [|n]; cbn [Nat.eqb]; [ring|].
      replace (S n - 1)%nat with n by lia.
      destruct (Nat.ltb_spec (S n) (cK c)); [rewrite (E n) by lia|]; ring.
    - destruct n as [|n]; cbn [Nat.eqb]; [ring|].
      replace (S n - 1)%nat with n by lia.
      destruct (Nat.ltb_spec (S n) (cK c)); [rewrite (E n) by lia|]; ring.
  Qed.

  (** *** the np.unique branch *)
  Hypothesis feqb_sound : forall x y : F, feqb x y = true -> x = y.
  Lemma tref_uniform_spec :
    tref_nonuniform c = false -> forall k, (k < cK c)%nat -> cTref c k = cTref c 0%nat.
  Proof.
    unfold tref_nonuniform. intros H k Hk.
    destruct (feqb (cTref c k) (cTref c 0%nat)) eqn:E; [now apply feqb_sound|].
    exfalso. assert (X : existsb (fun k => negb (feqb (cTref c k) (cTref c 0%nat))) (seq 0 (cK c)) = true).
    { apply existsb_exists. exists k. split; [apply in_seq; lia|]. now rewrite E. }
    rewrite X in H. discriminate.
  Qed.
  Lemma temp_vertical_tendency_closed (x : NCol) n :
    (n < cK c)%nat ->
    temp_vertical_tendency c true x n
    = vertical_tendency c (sigma_dot_full c x) (n_temp x) n
      + vertical_tendency c (sigma_dot_explicit c x) (cTref c) n.
  Proof.
    intros Hn. unfold temp_vertical_tendency. cbv zeta.
    destruct (tref_nonuniform c) eqn:E; [reflexivity|].
    rewrite (vertical_tendency_const _ (cTref c)) by (auto using tref_uniform_spec). ring.
  Qed.

  (** *** the implicit temperature operator H, entry by entry, against its explicit counterparts *)
  Let K := cK c.
  Let th := thickness (cb c).
  Hypothesis th2_nz : forall k, (S k < K)%nat -> th k + th (S k) <> 0.

  Lemma cumint_as_sum (d : nat -> F) r :
    cumint c d r = sumn K (fun s => tril r s * (th s * d s)).
  Proof.
    unfold cumint, cum_sigma_integral, cumsum_m, cumsum_dot, tril, xdsigma.
    apply sumn_ext. intros i Hi. fold th. ring.
  Qed.
  Lemma cumint_last (d : nat -> F) : (0 < K)%nat -> cumint c d (K - 1) = sumn K (fun s => th s * d s).
  Proof.
    intros HK. rewrite cumint_as_sum. apply sumn_ext. intros i Hi. unfold tril.
    destruct (Nat.leb_spec i (K - 1)); [|lia]. cbn. ring.
  Qed.

  Lemma roll_pos (a : Mat) r s : (0 < r)%nat -> (r < K)%nat -> roll1_zero K a r s = a (r - 1)%nat s.
  Proof.
    intros H0 H1. unfold roll1_zero. destruct (Nat.eqb_spec r 0); [lia|].
    f_equal. replace (r + K - 1)%nat with ((r - 1) + 1 * K)%nat by lia.
    rewrite Nat.mod_add by lia. apply Nat.mod_small. lia.
  Qed.

  Definition k0 (r : nat) : F :=
    if Nat.ltb (S r) K then (cTref c (S r) - cTref c r) / (th r + th (S r)) else 0.

  Lemma adv_term_tref (w : nat -> F) n : (- half) * adv_term w (cTref c) n = - (k0 n * w n).
  Proof.
    unfold adv_term, k0. fold K. destruct (Nat.ltb_spec (S n) K) as [H|H]; [|ring].
    unfold centered_difference, c2c, centers, half. pose proof (th2_nz n H) as Hx. unfold th, thickness in Hx |- *.
    field. repeat split; try exact two_nz; try exact Hx;
      intro E; apply Hx; rewrite <- E; field; exact two_nz.
  Qed.

  (** sum_s K[r,s] dsigma[s] div[s] = - k0[r] * sigma_dot(div)[r] *)
  Lemma k_row_sum (d : nat -> F) r :
    (0 < K)%nat ->
    sumn K (fun s => k0 r * (tril r s - cumsum_seq th r) * (th s * d s)) = - (k0 r * sigma_dot c d r).
  Proof.
    intros HK. unfold sigma_dot. cbv zeta. fold K. rewrite (cumint_last d HK). rewrite cumint_as_sum.
    unfold sum_sigma. fold th.
    rewrite (sumn_ext K _ (fun s => k0 r * (tril r s * (th s * d s)) - k0 r * cumsum_seq th r * (th s * d s)))
      by (intros; ring).
    rewrite sumn_sub, !sumn_scal_l. ring.
  Qed.

  Theorem implicit_temperature_is_explicit_counterpart (d : nat -> F) r :
    (r < K)%nat ->
    temp_implicit_col c d r
    = vertical_tendency c (sigma_dot c d) (cTref c) r - ckappa c * (cTref c r * g_part c d r).
  Proof.
    intros Hr. assert (HK : (0 < K)%nat) by lia.
    unfold temp_implicit_col, temp_implicit_dense, matvec, neg_temp_weights, temp_weights. cbv zeta.
    fold K. fold th.
    rewrite vertical_tendency_closed by exact Hr.
    replace ((- half) * (adv_term (sigma_dot c d) (cTref c) r
                         + (if Nat.eqb r 0 then 0 else adv_term (sigma_dot c d) (cTref c) (r - 1))))
      with ((- half) * adv_term (sigma_dot c d) (cTref c) r
            + (if Nat.eqb r 0 then 0 else (- half) * adv_term (sigma_dot c d) (cTref c) (r - 1)))
      by (destruct (Nat.eqb r 0); ring).
    rewrite !adv_term_tref.
    unfold g_part. cbv zeta. fold K. fold th. rewrite !cumint_as_sum.
    destruct r as [|r].
    - (* top layer: no shifted terms *)
      cbn [Nat.eqb].
      rewrite (sumn_ext K _ (fun s =>
           - (ckappa c * cTref c 0%nat * alpha K (cls c) 0%nat * finv (th 0%nat)) * (tril 0%nat s * (th s * d s))
           + k0 0%nat * (tril 0%nat s - cumsum_seq th 0%nat) * (th s * d s))).
      2:{ intros s Hs. unfold roll1_zero. cbn [Nat.eqb]. fold (k0 0%nat). rewrite !fdiv_def.
          unfold k0. fold K. rewrite !fdiv_def. ring. }
      rewrite sumn_add, sumn_scal_l, k_row_sum by exact HK. rewrite !fdiv_def. ring.
    - cbn [Nat.eqb]. replace (S r - 1)%nat with r by lia.
      rewrite (sumn_ext K _ (fun s =>
           - (ckappa c * cTref c (S r) * alpha K (cls c) (S r) * finv (th (S r))) * (tril (S r) s * (th s * d s))
           + - (ckappa c * cTref c (S r) * alpha K (cls c) r * finv (th (S r))) * (tril r s * (th s * d s))
           + k0 (S r) * (tril (S r) s - cumsum_seq th (S r)) * (th s * d s)
           + k0 r * (tril r s - cumsum_seq th r) * (th s * d s))).
      2:{ intros s Hs. rewrite !roll_pos by lia. replace (S r - 1)%nat with r by lia.
          unfold k0. fold K.
          destruct (Nat.ltb_spec (S (S r)) K), (Nat.ltb_spec (S r) K); try lia; rewrite !fdiv_def; ring. }
      rewrite !sumn_add, !sumn_scal_l, !k_row_sum by exact HK. rewrite !fdiv_def. ring.
  Qed.
End Algebra.

(** ** Invariance of the nodal temperature tendency and of the surface-pressure
    tendency under a change of the reference profile *)
Section Invariance.
  Context {F : Type} {o : Ops F} {Fc : FieldC o}.
  Add Field FFq : (field_c : FieldTh o).
  Hypothesis two_nz : two <> 0.
  Hypothesis feqb_sound : forall x y : F, feqb x y = true -> x = y.

  (** [c] carries K, the levels, log(centers), R and kappa; its own profile is irrelevant *)
  Variable c : @PEcfg F.
  Hypothesis th2_nz : forall k, (S k < cK c)%nat -> thickness (cb c) k + thickness (cb c) (S k) <> 0.

  (** the tendency written with the absolute temperature [T] only *)
  Definition temp_closed (x : NCol) (T : nat -> F) (n : nat) : F :=
    vertical_tendency c (sigma_dot_full c x) T n
    + ckappa c * (T n * (u_dot_grad x n - g_part c (g_full_adiabatic x) n)).
  Definition temp_closed_moist (m : Moist) (x : NCol) (q T : nat -> F) (n : nat) : F :=
    vertical_tendency c (sigma_dot_full c x) T n
    + ckappa c * (T n * ((1 + (mRv m / cR c - 1) * q n) / (1 + (mCpv m / (cR c / ckappa c) - 1) * q n))
                  * (u_dot_grad x n - g_part c (g_full_adiabatic x) n)).

  Lemma sdf_split (x : NCol) r :
    sigma_dot_full c x r = sigma_dot c (n_div x) r + sigma_dot_explicit c x r.
  Proof. unfold sigma_dot_full, sigma_dot_explicit, g_explicit. now rewrite <- sigma_dot_add. Qed.
  Lemma gp_split (x : NCol) n :
    g_part c (g_full_adiabatic x) n = g_part c (g_explicit x) n + g_part c (n_div x) n.
  Proof. unfold g_full_adiabatic, g_explicit. now rewrite <- g_part_add. Qed.

  (** vertical advection + implicit advection of the reference profile *)
  Lemma vertical_plus_implicit (Tref T : nat -> F) (x : NCol) n :
    (n < cK c)%nat ->
    vertical_tendency c (sigma_dot_full c x) (fun k => T k - Tref k) n
    + vertical_tendency c (sigma_dot_explicit c x) Tref n
    + vertical_tendency c (sigma_dot c (n_div x)) Tref n
    = vertical_tendency c (sigma_dot_full c x) T n.
  Proof.
    intros Hn.
    rewrite (vertical_tendency_ext c (sigma_dot_full c x) (sigma_dot_full c x) T
               (fun k => (T k - Tref k) + Tref k) n Hn) by (intros; try reflexivity; ring).
    rewrite vertical_tendency_add_x by exact Hn.
    rewrite (vertical_tendency_ext c (sigma_dot_full c x)
               (fun r => sigma_dot c (n_div x) r + sigma_dot_explicit c x r) Tref Tref n Hn)
      by (intros; try reflexivity; apply sdf_split).
    rewrite vertical_tendency_add_w by exact Hn. ring.
  Qed.

  Theorem tref_split_closed (Tref T : nat -> F) (x : NCol) n :
    (n < cK c)%nat ->
    let ci := with_tref c Tref in
    let xi := with_temp x (fun k => T k - Tref k) in
    temp_vertical_tendency ci true xi n + temp_adiabatic ci xi n + temp_implicit_col ci (n_div x) n
    = temp_closed x T n.
  Proof.
    intros Hn ci xi.
    rewrite (temp_vertical_tendency_closed ci feqb_sound xi n Hn).
    rewrite (implicit_temperature_is_explicit_counterpart two_nz ci th2_nz (n_div x) n Hn).
    unfold temp_adiabatic, t_omega_over_sigma_sp, temp_closed. cbv zeta.
    change (sigma_dot_full ci xi) with (sigma_dot_full c x).
    change (sigma_dot_explicit ci xi) with (sigma_dot_explicit c x).
    change (vertical_tendency ci) with (vertical_tendency c).
    change (sigma_dot ci) with (sigma_dot c).
    change (g_part ci) with (g_part c).
    change (g_full_adiabatic xi) with (g_full_adiabatic x).
    change (g_explicit xi) with (g_explicit x).
    change (u_dot_grad xi) with (u_dot_grad x).
    change (cTref ci) with Tref. change (ckappa ci) with (ckappa c).
    change (n_temp xi) with (fun k => T k - Tref k).
    rewrite <- (vertical_plus_implicit Tref T x n Hn).
    rewrite gp_split. cbv beta. ring.
  Qed.

  (** The property, temperature equation (nodal layer): for any two reference
      profiles and the same absolute temperature, vertical + adiabatic explicit
      tendency plus the implicit H.divergence term is the same. *)
  Theorem tref_split_invariance (T1 T2 T : nat -> F) (x : NCol) n :
    (n < cK c)%nat ->
    let c1 := with_tref c T1 in let c2 := with_tref c T2 in
    let x1 := with_temp x (fun k => T k - T1 k) in let x2 := with_temp x (fun k => T k - T2 k) in
    temp_vertical_tendency c1 true x1 n + temp_adiabatic c1 x1 n + temp_implicit_col c1 (n_div x) n
    = temp_vertical_tendency c2 true x2 n + temp_adiabatic c2 x2 n + temp_implicit_col c2 (n_div x) n.
  Proof.
    intros Hn c1 c2 x1 x2.
    unfold c1, c2, x1, x2. now rewrite !tref_split_closed by exact Hn.
  Qed.

  (** moist classes: the virtual-temperature factors *)
  Theorem tref_split_closed_moist (m : Moist) (Tref T q : nat -> F) (x : NCol) n :
    (n < cK c)%nat ->
    1 + (mCpv m / (cR c / ckappa c) - 1) * q n <> 0 ->
    let ci := with_tref c Tref in
    let xi := with_temp x (fun k => T k - Tref k) in
    temp_vertical_tendency ci true xi n + temp_adiabatic_moist ci m xi q n + temp_implicit_col ci (n_div x) n
    = temp_closed_moist m x q T n.
  Proof.
    intros Hn Hq ci xi.
    rewrite (temp_vertical_tendency_closed ci feqb_sound xi n Hn).
    rewrite (implicit_temperature_is_explicit_counterpart two_nz ci th2_nz (n_div x) n Hn).
    unfold temp_adiabatic_moist, t_omega_over_sigma_sp, temp_closed_moist. cbv zeta.
    change (sigma_dot_full ci xi) with (sigma_dot_full c x).
    change (sigma_dot_explicit ci xi) with (sigma_dot_explicit c x).
    change (vertical_tendency ci) with (vertical_tendency c).
    change (sigma_dot ci) with (sigma_dot c).
    change (g_part ci) with (g_part c).
    change (g_full_adiabatic xi) with (g_full_adiabatic x).
    change (g_explicit xi) with (g_explicit x).
    change (u_dot_grad xi) with (u_dot_grad x).
    change (cTref ci) with Tref. change (ckappa ci) with (ckappa c). change (cR ci) with (cR c).
    change (n_temp xi) with (fun k => T k - Tref k).
    rewrite <- (vertical_plus_implicit Tref T x n Hn).
    rewrite gp_split. cbv beta.
    set (cc := mCpv m / (cR c / ckappa c)) in *. set (ee := mRv m / cR c).
    field. exact Hq.
  Qed.

  Theorem tref_split_invariance_moist (m : Moist) (T1 T2 T q : nat -> F) (x : NCol) n :
    (n < cK c)%nat ->
    1 + (mCpv m / (cR c / ckappa c) - 1) * q n <> 0 ->
    let c1 := with_tref c T1 in let c2 := with_tref c T2 in
    let x1 := with_temp x (fun k => T k - T1 k) in let x2 := with_temp x (fun k => T k - T2 k) in
    temp_vertical_tendency c1 true x1 n + temp_adiabatic_moist c1 m x1 q n + temp_implicit_col c1 (n_div x) n
    = temp_vertical_tendency c2 true x2 n + temp_adiabatic_moist c2 m x2 q n + temp_implicit_col c2 (n_div x) n.
  Proof.
    intros Hn Hq c1 c2 x1 x2.
    unfold c1, c2, x1, x2. now rewrite !tref_split_closed_moist by assumption.
  Qed.

  (** log-surface-pressure equation: neither half depends on the profile at all *)
  Theorem lnps_invariance (T1 T2 T : nat -> F) (x : NCol) :
    let c1 := with_tref c T1 in let c2 := with_tref c T2 in
    let x1 := with_temp x (fun k => T k - T1 k) in let x2 := with_temp x (fun k => T k - T2 k) in
    log_pressure_tendency c1 x1 + lnps_implicit_col c1 (n_div x)
    = log_pressure_tendency c2 x2 + lnps_implicit_col c2 (n_div x).
  Proof. reflexivity. Qed.
End Invariance.

(** ** The pressure-gradient vector of the divergence/vorticity equations *)
Section PressureGradient.
  Context {F : Type} {o : Ops F} {Fc : FieldC o}.
  Add Field FFr : (field_c : FieldTh o).
  Variable c : @PEcfg F.
  Hypothesis R_nz : cR c <> 0.

  (** dry (q = 0) and moist classes: combined_u/v + (R T_ref + (Rv-R) T_ref q) sec2 grad(lnps)
      depends on the absolute temperature only *)
  Theorem effective_pgf_invariant (va : bool) (m : Moist) (T1 T2 T q : nat -> F) (x : NCol) k :
    let c1 := with_tref c T1 in let c2 := with_tref c T2 in
    let x1 := with_temp x (fun j => T j - T1 j) in let x2 := with_temp x (fun j => T j - T2 j) in
    effective_pgf_u c1 va m x1 (rt_moist c1 m x1 q) q k = effective_pgf_u c2 va m x2 (rt_moist c2 m x2 q) q k /\
    effective_pgf_v c1 va m x1 (rt_moist c1 m x1 q) q k = effective_pgf_v c2 va m x2 (rt_moist c2 m x2 q) q k.
  Proof.
    intros c1 c2 x1 x2. subst c1 c2 x1 x2.
    unfold effective_pgf_u, effective_pgf_v, combined_u, combined_v, tref_pgf_u, tref_pgf_v, rt_moist,
      moisture_contribution. cbv zeta.
    change (sigma_dot_full (with_tref c T1) (with_temp x (fun j => T j - T1 j))) with (sigma_dot_full c x).
    change (sigma_dot_full (with_tref c T2) (with_temp x (fun j => T j - T2 j))) with (sigma_dot_full c x).
    change (vertical_tendency (with_tref c T1)) with (vertical_tendency c). change (vertical_tendency (with_tref c T2)) with (vertical_tendency c).
    cbn [with_tref with_temp cR cTref n_temp n_u n_v n_vort n_f n_sec2 n_gx n_gy].
    split; field; exact R_nz.
  Qed.

  Theorem effective_pgf_invariant_dry (va : bool) (m : Moist) (T1 T2 T : nat -> F) (x : NCol) k :
    let c1 := with_tref c T1 in let c2 := with_tref c T2 in
    let x1 := with_temp x (fun j => T j - T1 j) in let x2 := with_temp x (fun j => T j - T2 j) in
    let z := fun _ : nat => 0 in
    effective_pgf_u c1 va m x1 (rt_dry c1 x1) z k = effective_pgf_u c2 va m x2 (rt_dry c2 x2) z k /\
    effective_pgf_v c1 va m x1 (rt_dry c1 x1) z k = effective_pgf_v c2 va m x2 (rt_dry c2 x2) z k.
  Proof.
    intros c1 c2 x1 x2 z. subst c1 c2 x1 x2.
    unfold effective_pgf_u, effective_pgf_v, combined_u, combined_v, tref_pgf_u, tref_pgf_v, rt_dry, z. cbv zeta.
    change (sigma_dot_full (with_tref c T1) (with_temp x (fun j => T j - T1 j))) with (sigma_dot_full c x).
    change (sigma_dot_full (with_tref c T2) (with_temp x (fun j => T j - T2 j))) with (sigma_dot_full c x).
    change (vertical_tendency (with_tref c T1)) with (vertical_tendency c). change (vertical_tendency (with_tref c T2)) with (vertical_tendency c).
    cbn [with_tref with_temp cR cTref n_temp n_u n_v n_vort n_f n_sec2 n_gx n_gy].
    split; ring.
  Qed.

  (** cloud class: the condensate loading multiplies T' only; the difference is
      exactly R (T1 - T2) (qc + qi) sec2 grad(lnps) *)
  Theorem effective_pgf_cloud_defect (va : bool) (m : Moist) (T1 T2 T q qc qi : nat -> F) (x : NCol) k :
    let c1 := with_tref c T1 in let c2 := with_tref c T2 in
    let x1 := with_temp x (fun j => T j - T1 j) in let x2 := with_temp x (fun j => T j - T2 j) in
    effective_pgf_u c1 va m x1 (rt_cloud c1 m x1 q qc qi) q k - effective_pgf_u c2 va m x2 (rt_cloud c2 m x2 q qc qi) q k
    = cR c * (T1 k - T2 k) * (qc k + qi k) * n_gx x * n_sec2 x.
  Proof.
    intros c1 c2 x1 x2. subst c1 c2 x1 x2.
    unfold effective_pgf_u, combined_u, tref_pgf_u, rt_cloud, moisture_contribution. cbv zeta.
    change (sigma_dot_full (with_tref c T1) (with_temp x (fun j => T j - T1 j))) with (sigma_dot_full c x).
    change (sigma_dot_full (with_tref c T2) (with_temp x (fun j => T j - T2 j))) with (sigma_dot_full c x).
    change (vertical_tendency (with_tref c T1)) with (vertical_tendency c). change (vertical_tendency (with_tref c T2)) with (vertical_tendency c).
    cbn [with_tref with_temp cR cTref n_temp n_u n_v n_vort n_f n_sec2 n_gx n_gy].
    field; exact R_nz.
  Qed.
End PressureGradient.

(** ** Abstract linear horizontal operators *)
Section Linear.
  Context {F : Type} {o : Ops F} {Fc : FieldC o}.
  Add Field FFl : (field_c : FieldTh o).

  (** extensional and linear (no functional extensionality needed) *)
  Definition linear {A B : Type} (L : (A -> F) -> B -> F) : Prop :=
    (forall x y, (forall a, x a = y a) -> forall b, L x b = L y b) /\
    (forall (t : F) x y b, L (fun a => x a + t * y a) b = L x b + t * L y b).
  Definition linear2 {A B : Type} (D : (A -> F) -> (A -> F) -> B -> F) : Prop :=
    (forall x1 y1 x2 y2, (forall a, x1 a = y1 a) -> (forall a, x2 a = y2 a) -> forall b, D x1 x2 b = D y1 y2 b) /\
    (forall (t : F) x1 y1 x2 y2 b,
        D (fun a => x1 a + t * y1 a) (fun a => x2 a + t * y2 a) b = D x1 x2 b + t * D y1 y2 b).

  Lemma lin_comb {A B} (L : (A -> F) -> B -> F) (HL : linear L) (x y z : A -> F) (t : F) :
    (forall a, x a = y a + t * z a) -> forall b, L x b = L y b + t * L z b.
  Proof. intros E b. destruct HL as [He Hl]. rewrite (He x _ E). apply Hl. Qed.
  Lemma lin_ext {A B} (L : (A -> F) -> B -> F) (HL : linear L) (x y : A -> F) :
    (forall a, x a = y a) -> forall b, L x b = L y b.
  Proof. destruct HL as [He _]. apply He. Qed.
  Lemma lin_zero {A B} (L : (A -> F) -> B -> F) (HL : linear L) b : L (fun _ => 0) b = 0.
  Proof.
    destruct HL as [He Hl].
    pose proof (Hl 1 (fun _ => 0) (fun _ => 0) b) as E. cbv beta in E.
    rewrite (He (fun _ : A => 0 + 1 * 0) (fun _ => 0)) in E by (intros; ring).
    set (z := L (fun _ : A => 0) b) in *.
    assert (X : z + 1 * z - z = z - z) by (rewrite <- E; reflexivity).
    transitivity (z + 1 * z - z); [ring|]. rewrite X. ring.
  Qed.
  Lemma lin_scal {A B} (L : (A -> F) -> B -> F) (HL : linear L) (x z : A -> F) (t : F) :
    (forall a, x a = t * z a) -> forall b, L x b = t * L z b.
  Proof.
    intros E b. rewrite (lin_comb L HL x (fun _ => 0) z t) by (intros; cbv beta; rewrite E; ring).
    rewrite lin_zero by exact HL. ring.
  Qed.
  Lemma lin2_comb {A B} (D : (A -> F) -> (A -> F) -> B -> F) (HD : linear2 D) (x1 y1 z1 x2 y2 z2 : A -> F) (t : F) :
    (forall a, x1 a = y1 a + t * z1 a) -> (forall a, x2 a = y2 a + t * z2 a) ->
    forall b, D x1 x2 b = D y1 y2 b + t * D z1 z2 b.
  Proof. intros E1 E2 b. destruct HD as [He Hl]. rewrite (He x1 _ x2 _ E1 E2). apply Hl. Qed.

  (** A column operator (matrix over the levels) commutes with any linear horizontal
      operator acting level by level: H.(to_nodal div) = to_nodal(H.div) etc. *)
  Theorem column_commutes {A B} (L : (A -> F) -> B -> F) (HL : linear L)
          (K : nat) (M : Mat) (xs : nat -> A -> F) (r : nat) (b : B) :
    L (fun a => matvec K M (fun s => xs s a) r) b = matvec K M (fun s => L (xs s) b) r.
  Proof.
    unfold matvec. induction K as [|K IH]; cbn [sumn].
    - apply lin_zero, HL.
    - rewrite <- IH.
      rewrite (lin_comb L HL _ (fun a => sumn K (fun h => M r h * xs h a)) (xs K) (M r K)) by (intros; cbv beta; ring).
      reflexivity.
  Qed.
End Linear.

Section ModalInvariance.
  Context {F : Type} {o : Ops F} {Fc : FieldC o}.
  Add Field FFm : (field_c : FieldTh o).
  Hypothesis two_nz : two <> 0.
  Hypothesis feqb_sound : forall x y : F, feqb x y = true -> x = y.
  Variables W P : Type.
  Variable toN : (W -> F) -> P -> F.
  Variable toM : (P -> F) -> W -> F.
  Variable divc curlc : (W -> F) -> (W -> F) -> W -> F.
  Variable lap clip : (W -> F) -> W -> F.
  Hypothesis toM_lin : linear toM.
  Hypothesis divc_lin : linear2 divc.
  Hypothesis curlc_lin : linear2 curlc.
  Hypothesis lap_lin : linear lap.
  Hypothesis clip_lin : linear clip.

  Variable c : @PEcfg F.
  Hypothesis th2_nz : forall k, (S k < cK c)%nat -> thickness (cb c) k + thickness (cb c) (S k) <> 0.
  Variable grav : F.

  (** the state: nodal columns [X] (their temperature entry is ignored), absolute
      nodal temperature [T], modal divergence [dv], modal absolute temperature [Tm],
      modal lnps, the modal coefficients [onem] of the constant field one *)
  Variable X : P -> @NCol F.
  Variable T : nat -> P -> F.
  Variable dv : nat -> W -> F.
  Variable Tm : nat -> W -> F.
  Variable lnps onem : W -> F.
  Hypothesis div_nodal : forall p k, n_div (X p) k = toN (dv k) p.

  Definition Xs (Tref : nat -> F) (p : P) : @NCol F := with_temp (X p) (fun k => T k p - Tref k).
  Definition Tms (Tref : nat -> F) (k : nat) (w : W) : F := Tm k w - Tref k * onem w.

  (** *** temperature equation *)
  (** admissible state: the divergence survives to_nodal -> to_modal -> clip *)
  Hypothesis H_roundtrip : forall s w, clip (toM (toN (dv s))) w = dv s w.
  (** the velocity handed to div_sec_lat has the state's divergence *)
  Hypothesis H_div_vel : forall r w,
      clip (divc (toM (fun p => n_u (X p) r * n_sec2 (X p))) (toM (fun p => n_v (X p) r * n_sec2 (X p)))) w
      = clip (toM (fun p => n_div (X p) r)) w.

  Definition temp_base (r : nat) (w' : W) : F :=
    toM (fun p => T r p * n_div (X p) r + temp_closed c (X p) (fun k => T k p) r) w'
    + - divc (toM (fun p => n_u (X p) r * T r p * n_sec2 (X p))) (toM (fun p => n_v (X p) r * T r p * n_sec2 (X p))) w'.

  Theorem temperature_modal_closed (Tref : nat -> F) r w :
    (r < cK c)%nat ->
    temp_tendency_explicit W P toM divc clip (with_tref c Tref) (Xs Tref) r w
    + temp_tendency_implicit W (with_tref c Tref) dv r w
    = clip (temp_base r) w.
  Proof.
    intros Hr. unfold temp_tendency_explicit, temp_tendency_implicit.
    set (ci := with_tref c Tref).
    set (M := neg_temp_weights ci).
    (* nodal total *)
    assert (EN : forall p, temp_nodal_total ci true (Xs Tref p) r
                   = (T r p * n_div (X p) r + temp_closed c (X p) (fun k => T k p) r)
                     + (- (1)) * (Tref r * n_div (X p) r + matvec (cK c) M (fun s => toN (dv s) p) r)).
    { intros p. unfold temp_nodal_total.
      pose proof (tref_split_closed two_nz feqb_sound c th2_nz Tref (fun k => T k p) (X p) r Hr) as E.
      cbv zeta in E. fold ci in E. change (with_temp (X p) (fun k => T k p - Tref k)) with (Xs Tref p) in E.
      rewrite <- E. unfold temp_implicit_col, temp_implicit_dense. fold M.
      unfold hsa_nodal. change (n_temp (Xs Tref p) r) with (T r p - Tref r). change (n_div (Xs Tref p) r) with (n_div (X p) r).
      change (cK ci) with (cK c). unfold matvec.
      rewrite (sumn_ext (cK c) (fun h => M r h * toN (dv h) p) (fun h => M r h * n_div (X p) h))
        by (intros; now rewrite div_nodal).
      unfold Xs. ring. }
    assert (EU : forall p, hsa_mu (Xs Tref p) (n_temp (Xs Tref p)) r
                   = n_u (X p) r * T r p * n_sec2 (X p) + (- Tref r) * (n_u (X p) r * n_sec2 (X p))).
    { intros p. unfold hsa_mu. cbn. ring. }
    assert (EV : forall p, hsa_mv (Xs Tref p) (n_temp (Xs Tref p)) r
                   = n_v (X p) r * T r p * n_sec2 (X p) + (- Tref r) * (n_v (X p) r * n_sec2 (X p))).
    { intros p. unfold hsa_mv. cbn. ring. }
    (* push through to_modal and div *)
    set (Z := fun w' => toM (fun p => Tref r * n_div (X p) r + matvec (cK c) M (fun s => toN (dv s) p) r) w').
    set (DV := fun w' => divc (toM (fun p => n_u (X p) r * n_sec2 (X p))) (toM (fun p => n_v (X p) r * n_sec2 (X p))) w').
    rewrite (lin_comb clip clip_lin _ (temp_base r)
               (fun w' => - Z w' + Tref r * DV w') (1)).
    2:{ intros w'. unfold temp_base, Z, DV.
        rewrite (lin_comb toM toM_lin _ _ _ _ EN w').
        rewrite (lin2_comb divc divc_lin _ _ _ _ _ _ (- Tref r)
                   (fun p => lin_comb toM toM_lin _ _ _ _ EU p) (fun p => lin_comb toM toM_lin _ _ _ _ EV p) w').
        ring. }
    rewrite (lin_comb clip clip_lin (fun w' => - Z w' + Tref r * DV w') (fun w' => (- (1)) * Z w') DV (Tref r))
      by (intros; cbv beta; ring).
    rewrite (lin_scal clip clip_lin (fun w' => - (1) * Z w') Z (- (1))) by (intros; cbv beta; ring).
    unfold DV. rewrite H_div_vel.
    (* clip Z *)
    rewrite (lin_comb clip clip_lin Z (fun w' => matvec (cK c) M (fun s => toM (toN (dv s)) w') r)
               (toM (fun p => n_div (X p) r)) (Tref r)).
    2:{ intros w'. unfold Z.
        rewrite (lin_comb toM toM_lin (fun p => Tref r * n_div (X p) r + matvec (cK c) M (fun s => toN (dv s) p) r)
                   (fun p => matvec (cK c) M (fun s => toN (dv s) p) r)
                   (fun p => n_div (X p) r) (Tref r)) by (intros; cbv beta; ring).
        now rewrite (column_commutes toM toM_lin). }
    rewrite (column_commutes clip clip_lin (cK c) M (fun s w' => toM (toN (dv s)) w') r w).
    unfold temp_implicit_col, temp_implicit_dense. fold M. change (cK ci) with (cK c).
    unfold matvec.
    rewrite (sumn_ext (cK c) (fun h => M r h * clip (fun w' => toM (toN (dv h)) w') w) (fun h => M r h * dv h w)).
    2:{ intros h _. f_equal. rewrite <- (H_roundtrip h w). apply (lin_ext clip clip_lin). reflexivity. }
    ring.
  Qed.

  (** *** divergence and vorticity equations (dry / with-time classes) *)
  Variable orog : W -> F.
  (** exactness of the horizontal operators on the (clipped) lnps of the state *)
  Hypothesis H_div_grad : forall w,
      clip (divc (toM (fun p => n_gx (X p) * n_sec2 (X p))) (toM (fun p => n_gy (X p) * n_sec2 (X p)))) w = lap lnps w.
  Hypothesis H_curl_grad : forall w,
      clip (curlc (toM (fun p => n_gx (X p) * n_sec2 (X p))) (toM (fun p => n_gy (X p) * n_sec2 (X p)))) w = 0.
  (** laplacian kills the (0,0)-only field produced by _add_constant *)
  Hypothesis lap_const : forall w, lap onem w = 0.

  Definition cu_abs (p : P) (r : nat) : F := combined_u c true (X p) (fun k => cR c * T k p) r.
  Definition cv_abs (p : P) (r : nat) : F := combined_v c true (X p) (fun k => cR c * T k p) r.
  Definition div_base (r : nat) (w' : W) : F :=
    - divc (toM (fun p => cu_abs p r)) (toM (fun p => cv_abs p r)) w'
    + - lap (toM (fun p => kinetic (X p) r)) w' + - grav * lap orog w' + 0.
  Definition vort_base (r : nat) (w' : W) : F :=
    - curlc (toM (fun p => cu_abs p r)) (toM (fun p => cv_abs p r)) w' + 0.

  Lemma cu_split (Tref : nat -> F) p r :
    combined_u (with_tref c Tref) true (Xs Tref p) (rt_dry (with_tref c Tref) (Xs Tref p)) r
    = cu_abs p r + (- (cR c * Tref r)) * (n_gx (X p) * n_sec2 (X p)).
  Proof.
    unfold cu_abs, combined_u, rt_dry. cbv zeta.
    change (sigma_dot_full (with_tref c Tref) (Xs Tref p)) with (sigma_dot_full c (X p)).
    change (vertical_tendency (with_tref c Tref)) with (vertical_tendency c).
    unfold Xs. cbn [with_tref with_temp cR cTref n_temp n_u n_v n_vort n_f n_sec2 n_gx n_gy]. ring.
  Qed.
  Lemma cv_split (Tref : nat -> F) p r :
    combined_v (with_tref c Tref) true (Xs Tref p) (rt_dry (with_tref c Tref) (Xs Tref p)) r
    = cv_abs p r + (- (cR c * Tref r)) * (n_gy (X p) * n_sec2 (X p)).
  Proof.
    unfold cv_abs, combined_v, rt_dry. cbv zeta.
    change (sigma_dot_full (with_tref c Tref) (Xs Tref p)) with (sigma_dot_full c (X p)).
    change (vertical_tendency (with_tref c Tref)) with (vertical_tendency c).
    unfold Xs. cbn [with_tref with_temp cR cTref n_temp n_u n_v n_vort n_f n_sec2 n_gx n_gy]. ring.
  Qed.

  Theorem divergence_modal_closed (Tref : nat -> F) r w :
    div_tendency_explicit W P toM divc lap clip (with_tref c Tref) grav (Xs Tref)
                          (fun p => rt_dry (with_tref c Tref) (Xs Tref p)) orog (fun _ => 0) r w
    + div_tendency_implicit W lap (with_tref c Tref) (Tms Tref) lnps r w
    = clip (div_base r) w - lap (fun w' => geo_diff false c (fun k => Tm k w') r) w.
  Proof.
    unfold div_tendency_explicit, div_tendency_implicit.
    set (DG := divc (toM (fun p => n_gx (X p) * n_sec2 (X p))) (toM (fun p => n_gy (X p) * n_sec2 (X p)))).
    rewrite (lin_comb clip clip_lin _ (div_base r) DG (cR c * Tref r)).
    2:{ intros w'. unfold div_base, DG.
        rewrite (lin2_comb divc divc_lin _ _ _ _ _ _ (- (cR c * Tref r))
                   (fun p => lin_comb toM toM_lin _ _ _ _ (fun q => cu_split Tref q r) p)
                   (fun p => lin_comb toM toM_lin _ _ _ _ (fun q => cv_split Tref q r) p) w').
        change (fun p => kinetic (Xs Tref p) r) with (fun p => kinetic (X p) r).
        ring. }
    unfold DG. rewrite H_div_grad.
    (* implicit part *)
    set (gs := sumn (cK c) (fun k => geo_weights (cK c) (cR c) (cls c) r k * Tref k)).
    rewrite (lin_comb lap lap_lin
               (fun w' => div_implicit_potential (with_tref c Tref) false (fun k => Tms Tref k w') (lnps w') r)
               (fun w' => geo_diff false c (fun k => Tm k w') r + (- gs) * onem w')
               lnps (cR c * Tref r)).
    2:{ intros w'. unfold div_implicit_potential, geo_diff, geo_diff_dense, Tms, gs.
        cbn [with_tref cK cR cls cTref].
        rewrite (sumn_ext (cK c) (fun k => geo_weights (cK c) (cR c) (cls c) r k * (Tm k w' - Tref k * onem w'))
                   (fun k => geo_weights (cK c) (cR c) (cls c) r k * Tm k w'
                             - geo_weights (cK c) (cR c) (cls c) r k * Tref k * onem w')) by (intros; ring).
        rewrite sumn_sub, sumn_scal_r. ring. }
    rewrite (lin_comb lap lap_lin (fun w' => geo_diff false c (fun k => Tm k w') r + (- gs) * onem w')
               (fun w' => geo_diff false c (fun k => Tm k w') r) onem (- gs)) by reflexivity.
    rewrite lap_const. ring.
  Qed.

  Theorem vorticity_modal_closed (Tref : nat -> F) r w :
    vort_tendency_explicit W P toM curlc clip (with_tref c Tref) (Xs Tref)
                           (fun p => rt_dry (with_tref c Tref) (Xs Tref p)) (fun _ => 0) r w
    = clip (vort_base r) w.
  Proof.
    unfold vort_tendency_explicit.
    set (CG := curlc (toM (fun p => n_gx (X p) * n_sec2 (X p))) (toM (fun p => n_gy (X p) * n_sec2 (X p)))).
    rewrite (lin_comb clip clip_lin _ (vort_base r) CG (cR c * Tref r)).
    2:{ intros w'. unfold vort_base, CG.
        rewrite (lin2_comb curlc curlc_lin _ _ _ _ _ _ (- (cR c * Tref r))
                   (fun p => lin_comb toM toM_lin _ _ _ _ (fun q => cu_split Tref q r) p)
                   (fun p => lin_comb toM toM_lin _ _ _ _ (fun q => cv_split Tref q r) p) w').
        ring. }
    unfold CG. rewrite H_curl_grad. ring.
  Qed.
End ModalInvariance.

(** ** two-term linear combinations *)
Section Linear2.
  Context {F : Type} {o : Ops F} {Fc : FieldC o}.
  Add Field FFl2 : (field_c : FieldTh o).

  Lemma lin_comb2 {A B} (L : (A -> F) -> B -> F) (HL : linear L) (x z1 z2 : A -> F) (t1 t2 : F) :
    (forall a, x a = t1 * z1 a + t2 * z2 a) -> forall b, L x b = t1 * L z1 b + t2 * L z2 b.
  Proof.
    intros E b.
    rewrite (lin_comb L HL x (fun a => t1 * z1 a) z2 t2) by exact E.
    rewrite (lin_scal L HL (fun a => t1 * z1 a) z1 t1) by reflexivity. reflexivity.
  Qed.
  Lemma lin2_zero {A B} (D : (A -> F) -> (A -> F) -> B -> F) (HD : linear2 D) b :
    D (fun _ => 0) (fun _ => 0) b = 0.
  Proof.
    destruct HD as [He Hl].
    pose proof (Hl 1 (fun _ => 0) (fun _ => 0) (fun _ => 0) (fun _ => 0) b) as E. cbv beta in E.
    rewrite (He (fun _ : A => 0 + 1 * 0) (fun _ => 0) (fun _ : A => 0 + 1 * 0) (fun _ => 0)) in E
      by (intros; ring).
    set (z := D (fun _ : A => 0) (fun _ : A => 0) b) in *.
    assert (X : z + 1 * z - z = z - z) by (rewrite <- E; reflexivity).
    transitivity (z + 1 * z - z); [ring|]. rewrite X. ring.
  Qed.
  Lemma lin2_comb2 {A B} (D : (A -> F) -> (A -> F) -> B -> F) (HD : linear2 D)
        (x1 x2 y1 y2 z1 z2 : A -> F) (t1 t2 : F) :
    (forall a, x1 a = t1 * y1 a + t2 * z1 a) -> (forall a, x2 a = t1 * y2 a + t2 * z2 a) ->
    forall b, D x1 x2 b = t1 * D y1 y2 b + t2 * D z1 z2 b.
  Proof.
    intros E1 E2 b.
    rewrite (lin2_comb D HD x1 (fun a => t1 * y1 a) z1 x2 (fun a => t1 * y2 a) z2 t2 E1 E2 b).
    rewrite (lin2_comb D HD (fun a => t1 * y1 a) (fun _ => 0) y1 (fun a => t1 * y2 a) (fun _ => 0) y2 t1)
      by (intros; cbv beta; ring).
    rewrite lin2_zero by exact HD. ring.
  Qed.
End Linear2.

(** ** divergence / vorticity equations of the moist classes at the modal layer *)
Section ModalMoist.
  Context {F : Type} {o : Ops F} {Fc : FieldC o}.
  Add Field FFmm : (field_c : FieldTh o).
  Variables W P : Type.
  Variable toM : (P -> F) -> W -> F.
  Variable divc curlc : (W -> F) -> (W -> F) -> W -> F.
  Variable lap clip : (W -> F) -> W -> F.
  Hypothesis toM_lin : linear toM.
  Hypothesis divc_lin : linear2 divc.
  Hypothesis curlc_lin : linear2 curlc.
  Hypothesis lap_lin : linear lap.
  Hypothesis clip_lin : linear clip.
  Variable c : @PEcfg F.
  Hypothesis R_nz : cR c <> 0.
  Variable grav : F.
  Variable m : @Moist F.
  Variable X : P -> @NCol F.
  Variable T : nat -> P -> F.
  Variable Tm : nat -> W -> F.
  Variable lnps onem orog : W -> F.
  (** nodal specific humidity, its nodal cos_lat_grad, nodal laplacian(lnps) *)
  Variable q gqx gqy : P -> nat -> F.
  Variable lapn : P -> F.

  Hypothesis H_div_grad : forall w,
      clip (divc (toM (fun p => n_gx (X p) * n_sec2 (X p))) (toM (fun p => n_gy (X p) * n_sec2 (X p)))) w = lap lnps w.
  Hypothesis H_curl_grad : forall w,
      clip (curlc (toM (fun p => n_gx (X p) * n_sec2 (X p))) (toM (fun p => n_gy (X p) * n_sec2 (X p)))) w = 0.
  Hypothesis lap_const : forall w, lap onem w = 0.
  (** Leibniz rule on the nodal side for q * grad(lnps) (alias-free product) *)
  Definition qgx (r : nat) (p : P) : F := q p r * (n_gx (X p) * n_sec2 (X p)).
  Definition qgy (r : nat) (p : P) : F := q p r * (n_gy (X p) * n_sec2 (X p)).
  Definition leib_div (r : nat) (p : P) : F :=
    q p r * lapn p + n_sec2 (X p) * (gqx p r * n_gx (X p) + gqy p r * n_gy (X p)).
  Definition leib_curl (r : nat) (p : P) : F :=
    n_sec2 (X p) * (n_gx (X p) * gqy p r - n_gy (X p) * gqx p r).
  Hypothesis H_leibniz : forall r w,
      clip (fun w' => divc (toM (qgx r)) (toM (qgy r)) w' - toM (leib_div r) w') w = 0.
  Hypothesis H_leibniz_curl : forall r w,
      clip (fun w' => curlc (toM (qgx r)) (toM (qgy r)) w' + toM (leib_curl r) w') w = 0.

  Let Xs := Xs P X T.
  Let Tms := Tms W Tm onem.

  Definition rt_abs_m (p : P) (k : nat) : F := cR c * T k p * (1 + moisture_contribution c m (q p) k).
  Definition cu_abs_m (p : P) (r : nat) : F := combined_u c true (X p) (rt_abs_m p) r.
  Definition cv_abs_m (p : P) (r : nat) : F := combined_v c true (X p) (rt_abs_m p) r.
  Definition geo_abs_m (p : P) (r : nat) : F :=
    geo_diff false c (fun k => q p k * T k p * (mRv m / cR c - 1)) r.
  Definition div_base_m (r : nat) (w' : W) : F :=
    - divc (toM (fun p => cu_abs_m p r)) (toM (fun p => cv_abs_m p r)) w'
    + - lap (toM (fun p => kinetic (X p) r)) w' + - grav * lap orog w'
    + - lap (toM (fun p => geo_abs_m p r)) w'.
  Definition vort_base_m (r : nat) (w' : W) : F :=
    - curlc (toM (fun p => cu_abs_m p r)) (toM (fun p => cv_abs_m p r)) w'.

  Lemma cu_split_m (Tref : nat -> F) p r :
    combined_u (with_tref c Tref) true (Xs Tref p) (rt_moist (with_tref c Tref) m (Xs Tref p) (q p)) r
    = cu_abs_m p r + (- Tref r) * (cR c * (n_gx (X p) * n_sec2 (X p)) + (mRv m - cR c) * qgx r p).
  Proof.
    unfold cu_abs_m, rt_abs_m, combined_u, rt_moist, moisture_contribution, qgx. cbv zeta.
    change (sigma_dot_full (with_tref c Tref) (Xs Tref p)) with (sigma_dot_full c (X p)).
    change (vertical_tendency (with_tref c Tref)) with (vertical_tendency c).
    unfold Xs, Thm.PrimEq.Xs. cbn [with_tref with_temp cR cTref n_temp n_u n_v n_vort n_f n_sec2 n_gx n_gy].
    field. exact R_nz.
  Qed.
  Lemma cv_split_m (Tref : nat -> F) p r :
    combined_v (with_tref c Tref) true (Xs Tref p) (rt_moist (with_tref c Tref) m (Xs Tref p) (q p)) r
    = cv_abs_m p r + (- Tref r) * (cR c * (n_gy (X p) * n_sec2 (X p)) + (mRv m - cR c) * qgy r p).
  Proof.
    unfold cv_abs_m, rt_abs_m, combined_v, rt_moist, moisture_contribution, qgy. cbv zeta.
    change (sigma_dot_full (with_tref c Tref) (Xs Tref p)) with (sigma_dot_full c (X p)).
    change (vertical_tendency (with_tref c Tref)) with (vertical_tendency c).
    unfold Xs, Thm.PrimEq.Xs. cbn [with_tref with_temp cR cTref n_temp n_u n_v n_vort n_f n_sec2 n_gx n_gy].
    field. exact R_nz.
  Qed.
  Lemma hum_div_split (Tref : nat -> F) p r :
    humidity_div_nodal (with_tref c Tref) m (Xs Tref p) (q p) (gqx p) (gqy p) (lapn p) r
    = (Tref r * (mRv m - cR c)) * leib_div r p.
  Proof.
    unfold humidity_div_nodal, leib_div. cbv zeta.
    unfold Xs, Thm.PrimEq.Xs. cbn [with_tref with_temp cR cTref n_sec2 n_gx n_gy]. ring.
  Qed.
  Lemma hum_curl_split (Tref : nat -> F) p r :
    humidity_curl_nodal (with_tref c Tref) m (Xs Tref p) (gqx p) (gqy p) r
    = (Tref r * (mRv m - cR c)) * leib_curl r p.
  Proof.
    unfold humidity_curl_nodal, leib_curl. cbv zeta.
    unfold Xs, Thm.PrimEq.Xs. cbn [with_tref with_temp cR cTref n_sec2 n_gx n_gy]. ring.
  Qed.
  Lemma hum_geo_abs (Tref : nat -> F) p r :
    humidity_geo_nodal (with_tref c Tref) false m (Xs Tref p) (q p) r = geo_abs_m p r.
  Proof.
    unfold humidity_geo_nodal, geo_abs_m, geo_diff, geo_diff_dense, humidity_temperature_diff.
    cbn [with_tref cK cR cls cTref]. apply sumn_ext. intros k _.
    unfold Xs, Thm.PrimEq.Xs. cbn [with_temp n_temp]. ring.
  Qed.

  (** the implicit divergence term, for any class *)
  Lemma div_implicit_closed (Tref : nat -> F) r w :
    div_tendency_implicit W lap (with_tref c Tref) (Tms Tref) lnps r w
    = - lap (fun w' => geo_diff false c (fun k => Tm k w') r) w - cR c * Tref r * lap lnps w.
  Proof.
    unfold div_tendency_implicit.
    set (gs := sumn (cK c) (fun k => geo_weights (cK c) (cR c) (cls c) r k * Tref k)).
    rewrite (lin_comb lap lap_lin
               (fun w' => div_implicit_potential (with_tref c Tref) false (fun k => Tms Tref k w') (lnps w') r)
               (fun w' => geo_diff false c (fun k => Tm k w') r + (- gs) * onem w')
               lnps (cR c * Tref r)).
    2:{ intros w'. unfold div_implicit_potential, geo_diff, geo_diff_dense, Tms, Thm.PrimEq.Tms, gs.
        cbn [with_tref cK cR cls cTref].
        rewrite (sumn_ext (cK c) (fun k => geo_weights (cK c) (cR c) (cls c) r k * (Tm k w' - Tref k * onem w'))
                   (fun k => geo_weights (cK c) (cR c) (cls c) r k * Tm k w'
                             - geo_weights (cK c) (cR c) (cls c) r k * Tref k * onem w')) by (intros; ring).
        rewrite sumn_sub, sumn_scal_r. ring. }
    rewrite (lin_comb lap lap_lin (fun w' => geo_diff false c (fun k => Tm k w') r + (- gs) * onem w')
               (fun w' => geo_diff false c (fun k => Tm k w') r) onem (- gs)) by reflexivity.
    rewrite lap_const. ring.
  Qed.

  Theorem divergence_modal_closed_moist (Tref : nat -> F) r w :
    div_tendency_explicit W P toM divc lap clip (with_tref c Tref) grav (Xs Tref)
        (fun p => rt_moist (with_tref c Tref) m (Xs Tref p) (q p)) orog
        (fun w' => humidity_div_modal W P toM lap (with_tref c Tref) m (Xs Tref) q gqx gqy lapn r w') r w
    + div_tendency_implicit W lap (with_tref c Tref) (Tms Tref) lnps r w
    = clip (div_base_m r) w - lap (fun w' => geo_diff false c (fun k => Tm k w') r) w.
  Proof.
    rewrite div_implicit_closed. unfold div_tendency_explicit.
    set (DG := divc (toM (fun p => n_gx (X p) * n_sec2 (X p))) (toM (fun p => n_gy (X p) * n_sec2 (X p)))).
    set (LB := fun w' => divc (toM (qgx r)) (toM (qgy r)) w' - toM (leib_div r) w').
    set (Z := fun w' => cR c * DG w' + (mRv m - cR c) * LB w').
    rewrite (lin_comb clip clip_lin _ (div_base_m r) Z (Tref r)).
    2:{ intros w'. unfold div_base_m, Z, LB, DG, humidity_div_modal.
        rewrite (lin2_comb divc divc_lin _ _ _ _ _ _ (- Tref r)
                   (fun p => lin_comb toM toM_lin _ _ _ _ (fun a => cu_split_m Tref a r) p)
                   (fun p => lin_comb toM toM_lin _ _ _ _ (fun a => cv_split_m Tref a r) p) w').
        rewrite (lin2_comb2 divc divc_lin _ _ (toM (fun a => n_gx (X a) * n_sec2 (X a))) (toM (fun a => n_gy (X a) * n_sec2 (X a)))
                   (toM (qgx r)) (toM (qgy r)) (cR c) (mRv m - cR c)
                   (fun p => lin_comb2 toM toM_lin _ (fun a => n_gx (X a) * n_sec2 (X a)) (qgx r) _ _ (fun a => eq_refl) p)
                   (fun p => lin_comb2 toM toM_lin _ (fun a => n_gy (X a) * n_sec2 (X a)) (qgy r) _ _ (fun a => eq_refl) p) w').
        rewrite (lin_scal toM toM_lin _ (leib_div r) (Tref r * (mRv m - cR c)) (fun a => hum_div_split Tref a r) w').
        rewrite (lin_ext lap lap_lin _ (toM (fun p => geo_abs_m p r))
                   (lin_ext toM toM_lin _ (fun p => geo_abs_m p r) (fun a => hum_geo_abs Tref a r)) w').
        change (fun p => kinetic (Xs Tref p) r) with (fun p => kinetic (X p) r).
        ring. }
    unfold Z. rewrite (lin_comb2 clip clip_lin _ DG LB (cR c) (mRv m - cR c) (fun a => eq_refl) w).
    unfold DG, LB. rewrite H_div_grad, H_leibniz. ring.
  Qed.

  Theorem vorticity_modal_closed_moist (Tref : nat -> F) r w :
    vort_tendency_explicit W P toM curlc clip (with_tref c Tref) (Xs Tref)
        (fun p => rt_moist (with_tref c Tref) m (Xs Tref p) (q p))
        (fun w' => humidity_curl_modal W P toM (with_tref c Tref) m (Xs Tref) gqx gqy r w') r w
    = clip (vort_base_m r) w.
  Proof.
    unfold vort_tendency_explicit.
    set (CG := curlc (toM (fun p => n_gx (X p) * n_sec2 (X p))) (toM (fun p => n_gy (X p) * n_sec2 (X p)))).
    set (LC := fun w' => curlc (toM (qgx r)) (toM (qgy r)) w' + toM (leib_curl r) w').
    set (Z := fun w' => cR c * CG w' + (mRv m - cR c) * LC w').
    rewrite (lin_comb clip clip_lin _ (vort_base_m r) Z (Tref r)).
    2:{ intros w'. unfold vort_base_m, Z, LC, CG, humidity_curl_modal.
        rewrite (lin2_comb curlc curlc_lin _ _ _ _ _ _ (- Tref r)
                   (fun p => lin_comb toM toM_lin _ _ _ _ (fun a => cu_split_m Tref a r) p)
                   (fun p => lin_comb toM toM_lin _ _ _ _ (fun a => cv_split_m Tref a r) p) w').
        rewrite (lin2_comb2 curlc curlc_lin _ _ (toM (fun a => n_gx (X a) * n_sec2 (X a))) (toM (fun a => n_gy (X a) * n_sec2 (X a)))
                   (toM (qgx r)) (toM (qgy r)) (cR c) (mRv m - cR c)
                   (fun p => lin_comb2 toM toM_lin _ (fun a => n_gx (X a) * n_sec2 (X a)) (qgx r) _ _ (fun a => eq_refl) p)
                   (fun p => lin_comb2 toM toM_lin _ (fun a => n_gy (X a) * n_sec2 (X a)) (qgy r) _ _ (fun a => eq_refl) p) w').
        rewrite (lin_scal toM toM_lin _ (leib_curl r) (Tref r * (mRv m - cR c)) (fun a => hum_curl_split Tref a r) w').
        ring. }
    unfold Z. rewrite (lin_comb2 clip clip_lin _ CG LC (cR c) (mRv m - cR c) (fun a => eq_refl) w).
    unfold CG, LC. rewrite H_curl_grad, H_leibniz_curl. ring.
  Qed.
End ModalMoist.

(** ** the np.unique branch, and include_vertical_advection = False *)
Section UniqueBranch.
  Context {F : Type} {o : Ops F} {Fc : FieldC o}.
  Add Field FFu : (field_c : FieldTh o).
  Hypothesis two_nz : two <> 0.
  Hypothesis feqb_sound : forall x y : F, feqb x y = true -> x = y.
  Variable c : @PEcfg F.

  (** when the code skips the branch, the skipped term is exactly zero *)
  Theorem unique_branch_zero (w : nat -> F) n :
    (n < cK c)%nat -> tref_nonuniform c = false -> vertical_tendency c w (cTref c) n = 0.
  Proof.
    intros Hn H. apply vertical_tendency_const; [exact Hn|]. now apply tref_uniform_spec.
  Qed.

  (** hence the tendency does not depend on the branch at all *)
  Theorem temp_vertical_tendency_branch_free (va : bool) (x : NCol) n :
    (n < cK c)%nat ->
    temp_vertical_tendency c va x n
    = (if va then vertical_tendency c (sigma_dot_full c x) (n_temp x) n else 0)
      + vertical_tendency c (sigma_dot_explicit c x) (cTref c) n.
  Proof.
    intros Hn. unfold temp_vertical_tendency. cbv zeta.
    destruct (tref_nonuniform c) eqn:E; [reflexivity|].
    rewrite (unique_branch_zero _ n Hn E). ring.
  Qed.

  (** the test is "some entry differs from the first", i.e. np.unique(...).size > 1 *)
  Hypothesis feqb_refl : forall x : F, feqb x x = true.
  Theorem tref_nonuniform_iff :
    tref_nonuniform c = true <-> exists k, (k < cK c)%nat /\ cTref c k <> cTref c 0%nat.
  Proof.
    unfold tref_nonuniform. rewrite existsb_exists. split.
    - intros (k & Hin & Hk). apply in_seq in Hin. exists k. split; [lia|].
      intro E. rewrite E, feqb_refl in Hk. discriminate.
    - intros (k & Hk & Hne). exists k. split; [apply in_seq; lia|].
      destruct (feqb (cTref c k) (cTref c 0%nat)) eqn:E; [|reflexivity].
      exfalso. apply Hne. now apply feqb_sound.
  Qed.

  (** include_vertical_advection = False: the sum still contains the advection of
      the reference profile by the full sigma_dot, so it is split dependent
      unless both profiles are level-uniform *)
  Hypothesis th2_nz : forall k, (S k < cK c)%nat -> thickness (cb c) k + thickness (cb c) (S k) <> 0.
  Theorem tref_split_closed_no_va (Tref T : nat -> F) (x : NCol) n :
    (n < cK c)%nat ->
    let ci := with_tref c Tref in
    let xi := with_temp x (fun k => T k - Tref k) in
    temp_vertical_tendency ci false xi n + temp_adiabatic ci xi n + temp_implicit_col ci (n_div x) n
    = vertical_tendency c (sigma_dot_full c x) Tref n
      + ckappa c * (T n * (u_dot_grad x n - g_part c (g_full_adiabatic x) n)).
  Proof.
    intros Hn ci xi.
    pose proof (tref_split_closed two_nz feqb_sound c th2_nz Tref T x n Hn) as E. cbv zeta in E.
    fold ci in E. fold xi in E. unfold temp_closed in E.
    pose proof (temp_vertical_tendency_closed ci feqb_sound xi n Hn) as E1.
    assert (E0 : temp_vertical_tendency ci false xi n = vertical_tendency ci (sigma_dot_explicit ci xi) (cTref ci) n).
    { unfold temp_vertical_tendency. cbv zeta. destruct (tref_nonuniform ci) eqn:B; [ring|].
      symmetry. apply vertical_tendency_const; [exact Hn|]. now apply tref_uniform_spec. }
    rewrite E0.
    assert (E2 : vertical_tendency c (sigma_dot_full c x) T n
                 = vertical_tendency c (sigma_dot_full c x) (fun k => T k - Tref k) n
                   + vertical_tendency c (sigma_dot_full c x) Tref n).
    { rewrite <- vertical_tendency_add_x by exact Hn.
      apply vertical_tendency_ext; [exact Hn|reflexivity|intros; ring]. }
    rewrite E1 in E.
    change (vertical_tendency ci (sigma_dot_full ci xi) (n_temp xi) n)
      with (vertical_tendency c (sigma_dot_full c x) (fun k => T k - Tref k) n) in E.
    rewrite E2 in E.
    set (a := vertical_tendency c (sigma_dot_full c x) (fun k => T k - Tref k) n) in *.
    set (b1 := vertical_tendency ci (sigma_dot_explicit ci xi) (cTref ci) n) in *.
    set (b2 := temp_adiabatic ci xi n) in *. set (b3 := temp_implicit_col ci (n_div x) n) in *.
    set (d := vertical_tendency c (sigma_dot_full c x) Tref n) in *.
    set (e := ckappa c * (T n * (u_dot_grad x n - g_part c (g_full_adiabatic x) n))) in *.
    transitivity (a + b1 + b2 + b3 - a); [ring|]. rewrite E. ring.
  Qed.

  Theorem tref_split_invariance_no_va_uniform (T1 T2 T : nat -> F) (x : NCol) n :
    (n < cK c)%nat ->
    (forall k, (k < cK c)%nat -> T1 k = T1 0%nat) -> (forall k, (k < cK c)%nat -> T2 k = T2 0%nat) ->
    let c1 := with_tref c T1 in let c2 := with_tref c T2 in
    let x1 := with_temp x (fun k => T k - T1 k) in let x2 := with_temp x (fun k => T k - T2 k) in
    temp_vertical_tendency c1 false x1 n + temp_adiabatic c1 x1 n + temp_implicit_col c1 (n_div x) n
    = temp_vertical_tendency c2 false x2 n + temp_adiabatic c2 x2 n + temp_implicit_col c2 (n_div x) n.
  Proof.
    intros Hn U1 U2 c1 c2 x1 x2. unfold c1, c2, x1, x2.
    rewrite !tref_split_closed_no_va by exact Hn.
    rewrite !(vertical_tendency_const c _ _ n Hn) by assumption. reflexivity.
  Qed.
End UniqueBranch.

(** ** temperature equation of the moist classes at the modal layer *)
Section ModalTemperatureMoist.
  Context {F : Type} {o : Ops F} {Fc : FieldC o}.
  Add Field FFtm : (field_c : FieldTh o).
  Hypothesis two_nz : two <> 0.
  Hypothesis feqb_sound : forall x y : F, feqb x y = true -> x = y.
  Variables W P : Type.
  Variable toN : (W -> F) -> P -> F.
  Variable toM : (P -> F) -> W -> F.
  Variable divc curlc : (W -> F) -> (W -> F) -> W -> F.
  Variable lap clip : (W -> F) -> W -> F.
  Hypothesis toM_lin : linear toM.
  Hypothesis divc_lin : linear2 divc.
  Hypothesis curlc_lin : linear2 curlc.
  Hypothesis lap_lin : linear lap.
  Hypothesis clip_lin : linear clip.

  Variable c : @PEcfg F.
  Hypothesis th2_nz : forall k, (S k < cK c)%nat -> thickness (cb c) k + thickness (cb c) (S k) <> 0.
  Variable grav : F.

  (** the state: nodal columns [X] (their temperature entry is ignored), absolute
      nodal temperature [T], modal divergence [dv], modal absolute temperature [Tm],
      modal lnps, the modal coefficients [onem] of the constant field one *)
  Variable X : P -> @NCol F.
  Variable T : nat -> P -> F.
  Variable dv : nat -> W -> F.
  Variable Tm : nat -> W -> F.
  Variable lnps onem : W -> F.
  Hypothesis div_nodal : forall p k, n_div (X p) k = toN (dv k) p.

  Let Xs := Xs P X T.
  Variable m : @Moist F.
  Variable q : P -> nat -> F.

  (** *** temperature equation *)
  (** admissible state: the divergence survives to_nodal -> to_modal -> clip *)
  Hypothesis H_roundtrip : forall s w, clip (toM (toN (dv s))) w = dv s w.
  (** the velocity handed to div_sec_lat has the state's divergence *)
  Hypothesis H_div_vel : forall r w,
      clip (divc (toM (fun p => n_u (X p) r * n_sec2 (X p))) (toM (fun p => n_v (X p) r * n_sec2 (X p)))) w
      = clip (toM (fun p => n_div (X p) r)) w.

  Definition temp_base_m (r : nat) (w' : W) : F :=
    toM (fun p => T r p * n_div (X p) r + temp_closed_moist c m (X p) (q p) (fun k => T k p) r) w'
    + - divc (toM (fun p => n_u (X p) r * T r p * n_sec2 (X p))) (toM (fun p => n_v (X p) r * T r p * n_sec2 (X p))) w'.

  Theorem temperature_modal_closed_moist (Tref : nat -> F) r w :
    (r < cK c)%nat ->
    (forall p, 1 + (mCpv m / (cR c / ckappa c) - 1) * q p r <> 0) ->
    temp_tendency_explicit_moist W P toM divc clip (with_tref c Tref) m (Xs Tref) q r w
    + temp_tendency_implicit W (with_tref c Tref) dv r w
    = clip (temp_base_m r) w.
  Proof.
    intros Hr Hq. unfold temp_tendency_explicit_moist, temp_tendency_implicit.
    set (ci := with_tref c Tref).
    set (M := neg_temp_weights ci).
    (* nodal total *)
    assert (EN : forall p, temp_nodal_total_moist ci true m (Xs Tref p) (q p) r
                   = (T r p * n_div (X p) r + temp_closed_moist c m (X p) (q p) (fun k => T k p) r)
                     + (- (1)) * (Tref r * n_div (X p) r + matvec (cK c) M (fun s => toN (dv s) p) r)).
    { intros p. unfold temp_nodal_total_moist.
      pose proof (tref_split_closed_moist two_nz feqb_sound c th2_nz m Tref (fun k => T k p) (q p) (X p) r Hr (Hq p)) as E.
      cbv zeta in E. fold ci in E. change (with_temp (X p) (fun k => T k p - Tref k)) with (Xs Tref p) in E.
      rewrite <- E. unfold temp_implicit_col, temp_implicit_dense. fold M.
      unfold hsa_nodal. change (n_temp (Xs Tref p) r) with (T r p - Tref r). change (n_div (Xs Tref p) r) with (n_div (X p) r).
      change (cK ci) with (cK c). unfold matvec.
      rewrite (sumn_ext (cK c) (fun h => M r h * toN (dv h) p) (fun h => M r h * n_div (X p) h))
        by (intros; now rewrite div_nodal).
      unfold Xs, Thm.PrimEq.Xs. ring. }
    assert (EU : forall p, hsa_mu (Xs Tref p) (n_temp (Xs Tref p)) r
                   = n_u (X p) r * T r p * n_sec2 (X p) + (- Tref r) * (n_u (X p) r * n_sec2 (X p))).
    { intros p. unfold hsa_mu, Xs, Thm.PrimEq.Xs. cbn. ring. }
    assert (EV : forall p, hsa_mv (Xs Tref p) (n_temp (Xs Tref p)) r
                   = n_v (X p) r * T r p * n_sec2 (X p) + (- Tref r) * (n_v (X p) r * n_sec2 (X p))).
    { intros p. unfold hsa_mv, Xs, Thm.PrimEq.Xs. cbn. ring. }
    (* push through to_modal and div *)
    set (Z := fun w' => toM (fun p => Tref r * n_div (X p) r + matvec (cK c) M (fun s => toN (dv s) p) r) w').
    set (DV := fun w' => divc (toM (fun p => n_u (X p) r * n_sec2 (X p))) (toM (fun p => n_v (X p) r * n_sec2 (X p))) w').
    rewrite (lin_comb clip clip_lin _ (temp_base_m r)
               (fun w' => - Z w' + Tref r * DV w') (1)).
    2:{ intros w'. unfold temp_base_m, Z, DV.
        rewrite (lin_comb toM toM_lin _ _ _ _ EN w').
        rewrite (lin2_comb divc divc_lin _ _ _ _ _ _ (- Tref r)
                   (fun p => lin_comb toM toM_lin _ _ _ _ EU p) (fun p => lin_comb toM toM_lin _ _ _ _ EV p) w').
        ring. }
    rewrite (lin_comb clip clip_lin (fun w' => - Z w' + Tref r * DV w') (fun w' => (- (1)) * Z w') DV (Tref r))
      by (intros; cbv beta; ring).
    rewrite (lin_scal clip clip_lin (fun w' => - (1) * Z w') Z (- (1))) by (intros; cbv beta; ring).
    unfold DV. rewrite H_div_vel.
    (* clip Z *)
    rewrite (lin_comb clip clip_lin Z (fun w' => matvec (cK c) M (fun s => toM (toN (dv s)) w') r)
               (toM (fun p => n_div (X p) r)) (Tref r)).
    2:{ intros w'. unfold Z.
        rewrite (lin_comb toM toM_lin (fun p => Tref r * n_div (X p) r + matvec (cK c) M (fun s => toN (dv s) p) r)
                   (fun p => matvec (cK c) M (fun s => toN (dv s) p) r)
                   (fun p => n_div (X p) r) (Tref r)) by (intros; cbv beta; ring).
        now rewrite (column_commutes toM toM_lin). }
    rewrite (column_commutes clip clip_lin (cK c) M (fun s w' => toM (toN (dv s)) w') r w).
    unfold temp_implicit_col, temp_implicit_dense. fold M. change (cK ci) with (cK c).
    unfold matvec.
    rewrite (sumn_ext (cK c) (fun h => M r h * clip (fun w' => toM (toN (dv h)) w') w) (fun h => M r h * dv h w)).
    2:{ intros h _. f_equal. rewrite <- (H_roundtrip h w). apply (lin_ext clip clip_lin). reflexivity. }
    ring.
  Qed.
End ModalTemperatureMoist.
