(** Link between the hand-written model (Model/Sharding.v) and the terms that
    tools/translate/gen_sharding.py regenerates from dinosaur/jax_numpy_utils.py
    on every run (Gen/ShardingSrc.v): chunk indices, operand offsets,
    permutations, loop bounds, guards, comparison operators and index ranges of
    the source are the ones the theorems of Thm/Sharding.v are about - for EVERY
    axis size, not only the <= 8 devices the correspondence can exercise. *)
From Dino Require Import Base.Ops Base.Sums Model.Sigma Model.Sharding Gen.ShardingSrc.

Section SourceLink.
  Lemma eqb1_Z n b : b = (Z.of_nat n =? 1)%Z -> Nat.eqb n 1 = b.
  Proof.
    intros ->. destruct (Nat.eqb_spec n 1), (Z.eqb_spec (Z.of_nat n) 1); try reflexivity; lia.
  Qed.

  Lemma odd_Z n b : b = negb (Z.of_nat n mod 2 =? 0)%Z -> Nat.eqb (n mod 2) 1 = b.
  Proof.
    intros ->. change 2%Z with (Z.of_nat 2). rewrite <- Nat2Z.inj_mod.
    pose proof (Nat.mod_upper_bound n 2 ltac:(lia)).
    destruct (Nat.eqb_spec (n mod 2) 1), (Z.eqb_spec (Z.of_nat (n mod 2)) 0); cbn; try reflexivity; lia.
  Qed.

  Ltac zeq := first [reflexivity | lia | (f_equal; lia) | (f_equal; f_equal; lia)].

  Theorem allgather_matches_source :
    src_complete = true /\
    (forall n, Nat.eqb n 1 = src_ag_trivial (Z.of_nat n) /\ Nat.eqb (n mod 2) 1 = src_ag_reject (Z.of_nat n)) /\
    (forall n d i, ag_chunk_index n d i = Z.to_nat (src_ag_chunk_index (Z.of_nat n) (Z.of_nat d) i)) /\
    (forall q c j : nat, Z.of_nat (q * c + j) = (src_ag_slice_start (Z.of_nat q) (Z.of_nat c) + Z.of_nat j)%Z) /\
    (forall i : Z, src_ag_fwd_arg i = (- i)%Z /\ src_ag_bwd_arg i = (i + 1)%Z) /\
    (forall n j, perm_fwd n j = Z.to_nat (src_ag_perm_fwd (Z.of_nat n) (Z.of_nat j)) /\
                 perm_bwd n j = Z.to_nat (src_ag_perm_bwd (Z.of_nat n) (Z.of_nat j))) /\
    src_ag_init_arg = 0%Z /\
    (forall n, Z.of_nat 1 = src_ag_loop_lo (Z.of_nat n) /\ Z.of_nat (n / 2) = src_ag_loop_hi (Z.of_nat n)).
  Proof.
    split; [reflexivity|]. split; [|split; [|split; [|split; [|split; [|split]]]]].
    - intros n. split; [apply eqb1_Z|apply odd_Z]; reflexivity.
    - intros n d i. unfold ag_chunk_index, pymod, src_ag_chunk_index. zeq.
    - intros q c j. unfold src_ag_slice_start. lia.
    - intros i. unfold src_ag_fwd_arg, src_ag_bwd_arg. split; lia.
    - intros n j. unfold perm_fwd, perm_bwd, pymod, src_ag_perm_fwd, src_ag_perm_bwd. split; zeq.
    - reflexivity.
    - intros n. unfold src_ag_loop_lo, src_ag_loop_hi. split; [reflexivity|].
      change 2%Z with (Z.of_nat 2). apply Nat2Z.inj_div.
  Qed.

  Theorem reducescatter_matches_source :
    src_complete = true /\
    (forall n, Nat.eqb n 1 = src_rs_trivial (Z.of_nat n) /\ Nat.eqb (n mod 2) 1 = src_rs_reject (Z.of_nat n)) /\
    (forall n d i, rs_chunk_index n d i = Z.to_nat (src_rs_chunk_index (Z.of_nat n) (Z.of_nat d) i)) /\
    (forall q c j : nat, Z.of_nat (q * c + j) = (src_rs_slice_start (Z.of_nat q) (Z.of_nat c) + Z.of_nat j)%Z) /\
    (forall i : Z, src_rs_fwd_arg i = (- i)%Z /\ src_rs_bwd_arg i = (i + 1)%Z) /\
    (forall n j, perm_fwd n j = Z.to_nat (src_rs_perm_fwd (Z.of_nat n) (Z.of_nat j)) /\
                 perm_bwd n j = Z.to_nat (src_rs_perm_bwd (Z.of_nat n) (Z.of_nat j))) /\
    (src_rs_init_fwd_arg = 0%Z /\ src_rs_init_bwd_arg = 1%Z) /\
    (forall n, Z.of_nat 1 = src_rs_loop_lo (Z.of_nat n) /\ Z.of_nat (n / 2) = src_rs_loop_hi (Z.of_nat n)).
  Proof.
    split; [reflexivity|]. split; [|split; [|split; [|split; [|split; [|split]]]]].
    - intros n. split; [apply eqb1_Z|apply odd_Z]; reflexivity.
    - intros n d i. unfold rs_chunk_index, pymod, src_rs_chunk_index.
      change 2%Z with (Z.of_nat 2). rewrite <- Nat2Z.inj_div. zeq.
    - intros q c j. unfold src_rs_slice_start. lia.
    - intros i. unfold src_rs_fwd_arg, src_rs_bwd_arg. split; lia.
    - intros n j. unfold perm_fwd, perm_bwd, pymod, src_rs_perm_fwd, src_rs_perm_bwd. split; zeq.
    - split; reflexivity.
    - intros n. unfold src_rs_loop_lo, src_rs_loop_hi. split; [reflexivity|].
      change 2%Z with (Z.of_nat 2). apply Nat2Z.inj_div.
  Qed.

  Theorem cumsum_matches_source :
    src_complete = true /\
    (forall rv i d, pc_op rv i d = src_pc_op rv (Z.of_nat i) (Z.of_nat d)) /\
    (forall rv n k, (0 < n)%nat ->
       Z.of_nat (pc_index rv k) = (src_pc_range_lo rv (Z.of_nat n) + Z.of_nat k)%Z /\
       Z.of_nat (n - 1) = (src_pc_range_hi rv (Z.of_nat n) - src_pc_range_lo rv (Z.of_nat n))%Z) /\
    (forall rv, src_pc_last_index rv = if rv then 0%Z else (-1)%Z).
  Proof.
    split; [reflexivity|]. split; [|split].
    - intros rv i d. unfold pc_op, src_pc_op. destruct rv.
      + destruct (Nat.ltb_spec d i), (Z.gtb_spec (Z.of_nat i) (Z.of_nat d)); try reflexivity; lia.
      + destruct (Nat.ltb_spec i d), (Z.ltb_spec (Z.of_nat i) (Z.of_nat d)); try reflexivity; lia.
    - intros rv n k Hn. unfold pc_index, src_pc_range_lo, src_pc_range_hi. destruct rv; split; lia.
    - intros rv. unfold src_pc_last_index. destruct rv; reflexivity.
  Qed.
End SourceLink.
