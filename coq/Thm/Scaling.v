(** Scale covariance (property C12): dimension algebra, the general theorem
    "every dimensionally well-typed field computation is scale-covariant",
    homogeneity of the column operators, commutation of the IMEX steps with a
    change of scale, and the two facts about log-surface-pressure.
    Every statement is for an arbitrary field, arbitrary non-zero scales and
    arbitrary sizes. *)
From Dino Require Import Base.Ops Base.Sums Model.Sigma Model.Dual Thm.Dual Model.Scaling.
Local Open Scope F_scope.

(** ** exponent vectors form an abelian group *)
Lemma dim_eqb_eq a b : dim_eqb a b = true <-> a = b.
Proof.
  destruct a as [a1 a2 a3 a4], b as [b1 b2 b3 b4]; unfold dim_eqb; cbn.
  rewrite !andb_true_iff, !Z.eqb_eq. split.
  - intros [[[-> ->] ->] ->]. reflexivity.
  - intros H; injection H; auto.
Qed.
Lemma dadd_comm a b : dadd a b = dadd b a.
Proof. destruct a, b; unfold dadd; cbn; f_equal; lia. Qed.
Lemma dadd_assoc a b c : dadd a (dadd b c) = dadd (dadd a b) c.
Proof. destruct a, b, c; unfold dadd; cbn; f_equal; lia. Qed.
Lemma dadd_zero a : dadd a dzero = a.
Proof. destruct a; unfold dadd, dzero; cbn; f_equal; lia. Qed.
Lemma dadd_opp a : dadd a (dopp a) = dzero.
Proof. destruct a; unfold dadd, dopp, dzero; cbn; f_equal; lia. Qed.
Lemma dsub_add_opp a b : dsub a b = dadd a (dopp b).
Proof. destruct a, b; unfold dsub, dadd, dopp; cbn; f_equal; lia. Qed.

Section Pow.
  Context {F : Type} {o : Ops F} {Fc : FieldC o}.
  Add Field FFsc : (field_c : FieldTh o).

  Lemma one_nz : (1 : F) <> 0.
  Proof. exact (F_1_neq_0 field_c). Qed.

  Lemma mul_nz (x y : F) : x <> 0 -> y <> 0 -> x * y <> 0.
  Proof.
    intros Hx Hy H. apply Hx.
    replace x with (x * y * (1 / y)) by (field; exact Hy). rewrite H. ring.
  Qed.

  Lemma div1_nz (x : F) : x <> 0 -> 1 / x <> 0.
  Proof.
    intros Hx H. apply one_nz. replace 1 with (1 / x * x) by (field; exact Hx). rewrite H. ring.
  Qed.

  Lemma npow_nz x k : x <> 0 -> npow x k <> 0.
  Proof. intros Hx. induction k as [|k IH]; cbn; [exact one_nz | now apply mul_nz]. Qed.

  Lemma npow_add x a b : npow x (a + b) = npow x a * npow x b.
  Proof. induction a as [|a IH]; cbn; [ring | rewrite IH; ring]. Qed.

  Lemma npow_inv x k : x <> 0 -> npow (1 / x) k = 1 / npow x k.
  Proof.
    intros Hx. induction k as [|k IH]; cbn.
    - field. exact one_nz.
    - rewrite IH. field. split; [now apply npow_nz | exact Hx].
  Qed.

  Lemma npow_mul_base x y k : npow (x * y) k = npow x k * npow y k.
  Proof. induction k as [|k IH]; cbn; [ring | rewrite IH; ring]. Qed.

  Lemma npow_one k : npow 1 k = 1.
  Proof. induction k as [|k IH]; cbn; [reflexivity | rewrite IH; ring]. Qed.

  Lemma zpow_of_nat x k : zpow x (Z.of_nat k) = npow x k.
  Proof.
    destruct k as [|k]; [reflexivity|].
    cbn [Z.of_nat zpow]. now rewrite SuccNat2Pos.id_succ.
  Qed.

  Lemma zpow_opp_nat x k : zpow x (- Z.of_nat k) = 1 / npow x k.
  Proof.
    destruct k as [|k]; cbn [Z.of_nat Z.opp zpow].
    - cbn. field. exact one_nz.
    - now rewrite SuccNat2Pos.id_succ.
  Qed.

  Lemma zpow_sub_nat x a b : x <> 0 -> zpow x (Z.of_nat a - Z.of_nat b) = npow x a / npow x b.
  Proof.
    intros Hx. destruct (Nat.le_ge_cases b a) as [H|H].
    - replace (Z.of_nat a - Z.of_nat b)%Z with (Z.of_nat (a - b)) by lia.
      rewrite zpow_of_nat. replace a with (b + (a - b))%nat at 2 by lia.
      rewrite npow_add. field. now apply npow_nz.
    - replace (Z.of_nat a - Z.of_nat b)%Z with (- Z.of_nat (b - a))%Z by lia.
      rewrite zpow_opp_nat. replace b with (a + (b - a))%nat at 2 by lia.
      rewrite npow_add. field. split; now apply npow_nz.
  Qed.

  (** every integer is a difference of naturals *)
  Lemma zpow_split x z : x <> 0 -> zpow x z = npow x (Z.to_nat z) / npow x (Z.to_nat (- z)).
  Proof.
    intros Hx. rewrite <- zpow_sub_nat by exact Hx. f_equal. lia.
  Qed.

  Lemma zpow_nonzero x z : x <> 0 -> zpow x z <> 0.
  Proof.
    intros Hx. destruct z; cbn.
    - exact one_nz.
    - now apply npow_nz.
    - apply div1_nz. now apply npow_nz.
  Qed.

  Theorem zpow_add x a b : x <> 0 -> zpow x (a + b) = zpow x a * zpow x b.
  Proof.
    intros Hx.
    rewrite (zpow_split x a), (zpow_split x b) by exact Hx.
    replace (a + b)%Z with (Z.of_nat (Z.to_nat a + Z.to_nat b) - Z.of_nat (Z.to_nat (- a) + Z.to_nat (- b)))%Z by lia.
    rewrite zpow_sub_nat by exact Hx.
    rewrite !npow_add. field. split; now apply npow_nz.
  Qed.

  Lemma zpow_0 x : zpow x 0 = 1.
  Proof. reflexivity. Qed.

  Lemma zpow_1 x : zpow x 1 = x.
  Proof. unfold zpow. replace (Pos.to_nat 1) with 1%nat by reflexivity. cbn [npow]. ring. Qed.

  Theorem zpow_opp x a : x <> 0 -> zpow x (- a) = 1 / zpow x a.
  Proof.
    intros Hx.
    assert (H : zpow x (- a) * zpow x a = 1).
    { rewrite <- zpow_add by exact Hx. now replace (- a + a)%Z with 0%Z by lia. }
    pose proof (zpow_nonzero x a Hx) as Hn.
    replace (zpow x (- a)) with (zpow x (- a) * zpow x a * (1 / zpow x a)) by (field; exact Hn).
    rewrite H. ring.
  Qed.

  Theorem zpow_sub x a b : x <> 0 -> zpow x (a - b) = zpow x a / zpow x b.
  Proof.
    intros Hx. replace (a - b)%Z with (a + - b)%Z by lia.
    rewrite zpow_add, zpow_opp by exact Hx. field. now apply zpow_nonzero.
  Qed.

  Lemma zpow_inv_base x z : x <> 0 -> zpow (1 / x) z = 1 / zpow x z.
  Proof.
    intros Hx. destruct z; cbn.
    - field. exact one_nz.
    - now apply npow_inv.
    - rewrite npow_inv by exact Hx. reflexivity.
  Qed.

  Lemma zpow_mul_base x y z : x <> 0 -> y <> 0 -> zpow (x * y) z = zpow x z * zpow y z.
  Proof.
    intros Hx Hy. destruct z; cbn.
    - ring.
    - apply npow_mul_base.
    - rewrite npow_mul_base. field. split; now apply npow_nz.
  Qed.

  Lemma zpow_one z : zpow 1 z = 1.
  Proof.
    destruct z; cbn; rewrite ?npow_one; try reflexivity. field. exact one_nz.
  Qed.

  (** ** scales *)
  Definition scale_nz (s : @scale F) : Prop := sL s <> 0 /\ sT s <> 0 /\ sM s <> 0 /\ sK s <> 0.

  Theorem factor_nonzero s d : scale_nz s -> factor s d <> 0.
  Proof.
    intros (H1 & H2 & H3 & H4). unfold factor.
    repeat apply mul_nz; now apply zpow_nonzero.
  Qed.

  Theorem factor_zero s : factor s dzero = 1.
  Proof. unfold factor, dzero; cbn. ring. Qed.

  Theorem factor_add s d1 d2 : scale_nz s -> factor s (dadd d1 d2) = factor s d1 * factor s d2.
  Proof.
    intros (H1 & H2 & H3 & H4). unfold factor, dadd; cbn [dL dT dM dK].
    rewrite !zpow_add by assumption. ring.
  Qed.

  Theorem factor_opp s d : scale_nz s -> factor s (dopp d) = 1 / factor s d.
  Proof.
    intros Hs. pose proof (factor_nonzero s d Hs) as Hn.
    assert (H : factor s (dopp d) * factor s d = 1).
    { rewrite <- factor_add by exact Hs. rewrite dadd_comm, dadd_opp. apply factor_zero. }
    replace (factor s (dopp d)) with (factor s (dopp d) * factor s d * (1 / factor s d)) by (field; exact Hn).
    rewrite H. ring.
  Qed.

  Theorem factor_sub s d1 d2 : scale_nz s -> factor s (dsub d1 d2) = factor s d1 / factor s d2.
  Proof.
    intros Hs. rewrite dsub_add_opp, factor_add, factor_opp by exact Hs.
    field. now apply factor_nonzero.
  Qed.

  Lemma sinv_nz s : scale_nz s -> scale_nz (sinv s).
  Proof. intros (H1 & H2 & H3 & H4). unfold scale_nz, sinv; cbn. repeat split; now apply div1_nz. Qed.

  Theorem factor_sinv s d : scale_nz s -> factor (sinv s) d = 1 / factor s d.
  Proof.
    intros Hs. pose proof Hs as (H1 & H2 & H3 & H4). unfold factor, sinv; cbn [sL sT sM sK].
    rewrite !zpow_inv_base by assumption.
    field. repeat split; now apply zpow_nonzero.
  Qed.

  Theorem factor_sunit d : factor sunit d = 1.
  Proof. unfold factor, sunit; cbn. rewrite !zpow_one. ring. Qed.

  (** dimensionalize after nondimensionalize is the identity (and conversely) *)
  Theorem redim_nondim s d x : scale_nz s -> redim s d (nondim s d x) = x.
  Proof. intros Hs. unfold redim, nondim. field. now apply factor_nonzero. Qed.
  Theorem nondim_redim s d v : scale_nz s -> nondim s d (redim s d v) = v.
  Proof. intros Hs. unfold redim, nondim. field. now apply factor_nonzero. Qed.

  Lemma nondim_env_rescale s dv x :
    scale_nz s -> forall i, nondim_env s dv x i = rescale (sinv s) dv x i.
  Proof.
    intros Hs i. unfold nondim_env, rescale, nondim. rewrite factor_sinv by exact Hs.
    field. now apply factor_nonzero.
  Qed.

  (** ** the general theorem: well-dimensioned programs are scale-covariant *)
  Lemma eval_ext (x y : nat -> F) (e : expr F) : (forall i, x i = y i) -> eval x e = eval y e.
  Proof.
    intros H. induction e as [c|i|a IHa b IHb|a IHa b IHb|a IHa b IHb|a IHa|a IHa b IHb]; cbn [eval];
      rewrite ?IHa, ?IHb; auto.
  Qed.

  Theorem welldim_homogeneous (dv : nat -> dim) (s : scale) (x : nat -> F) (e : expr F) (d : dim) :
    scale_nz s -> denoms_nz x e -> dim_of dv e = Some d ->
    eval (rescale s dv x) e = factor s d * eval x e.
  Proof.
    intros Hs. revert d.
    induction e as [c|i|a IHa b IHb|a IHa b IHb|a IHa b IHb|a IHa|a IHa b IHb];
      intros d Hnz Hd; cbn [eval dim_of denoms_nz] in *.
    - injection Hd as <-. rewrite factor_zero. ring.
    - injection Hd as <-. reflexivity.
    - destruct Hnz as [Hna Hnb].
      destruct (dim_of dv a) as [da|]; [|discriminate]. destruct (dim_of dv b) as [db|]; [|discriminate].
      destruct (dim_eqb da db) eqn:E; [|discriminate]. apply dim_eqb_eq in E. subst db.
      injection Hd as <-. rewrite (IHa da Hna eq_refl), (IHb da Hnb eq_refl). ring.
    - destruct Hnz as [Hna Hnb].
      destruct (dim_of dv a) as [da|]; [|discriminate]. destruct (dim_of dv b) as [db|]; [|discriminate].
      destruct (dim_eqb da db) eqn:E; [|discriminate]. apply dim_eqb_eq in E. subst db.
      injection Hd as <-. rewrite (IHa da Hna eq_refl), (IHb da Hnb eq_refl). ring.
    - destruct Hnz as [Hna Hnb].
      destruct (dim_of dv a) as [da|]; [|discriminate]. destruct (dim_of dv b) as [db|]; [|discriminate].
      injection Hd as <-. rewrite (IHa da Hna eq_refl), (IHb db Hnb eq_refl).
      rewrite factor_add by exact Hs. ring.
    - rewrite (IHa d Hnz Hd). ring.
    - destruct Hnz as (Hna & Hnb & Hb).
      destruct (dim_of dv a) as [da|]; [|discriminate]. destruct (dim_of dv b) as [db|]; [|discriminate].
      injection Hd as <-. rewrite (IHa da Hna eq_refl), (IHb db Hnb eq_refl).
      rewrite factor_sub by exact Hs. field. split; [exact Hb | now apply factor_nonzero].
  Qed.

  (** denominators stay non-zero under rescaling *)
  Lemma denoms_nz_rescale dv s x e d :
    scale_nz s -> denoms_nz x e -> dim_of dv e = Some d -> denoms_nz (rescale s dv x) e.
  Proof.
    intros Hs. revert d.
    induction e as [c|i|a IHa b IHb|a IHa b IHb|a IHa b IHb|a IHa|a IHa b IHb];
      intros d Hnz Hd; cbn [dim_of denoms_nz] in *; auto.
    1-3: destruct Hnz as [Hna Hnb];
      destruct (dim_of dv a) as [da|]; [|discriminate]; destruct (dim_of dv b) as [db|]; [|discriminate];
      split; [apply (IHa da) | apply (IHb db)]; auto.
    - apply (IHa d); auto.
    - destruct Hnz as (Hna & Hnb & Hb).
      destruct (dim_of dv a) as [da|] eqn:Ea; [|discriminate]. destruct (dim_of dv b) as [db|] eqn:Eb; [|discriminate].
      split; [apply (IHa da); auto|]. split; [apply (IHb db); auto|].
      rewrite (welldim_homogeneous dv s x b db Hs Hnb Eb).
      apply mul_nz; [now apply factor_nonzero | exact Hb].
  Qed.

  (** The property in its own words: compute with the non-dimensional values of
      the same physical inputs [X] under two scales, convert the results back:
      they agree (and equal the computation carried out in base units). *)
  Theorem scale_independence (dv : nat -> dim) (s1 s2 : scale) (X : nat -> F) (e : expr F) (d : dim) :
    scale_nz s1 -> scale_nz s2 -> denoms_nz X e -> dim_of dv e = Some d ->
    redim s1 d (eval (nondim_env s1 dv X) e) = redim s2 d (eval (nondim_env s2 dv X) e)
    /\ redim s1 d (eval (nondim_env s1 dv X) e) = eval X e.
  Proof.
    intros H1 H2 Hnz Hd.
    assert (A : forall s, scale_nz s -> redim s d (eval (nondim_env s dv X) e) = eval X e).
    { intros s Hs.
      rewrite (eval_ext _ _ e (nondim_env_rescale s dv X Hs)).
      rewrite (welldim_homogeneous dv (sinv s) X e d (sinv_nz s Hs) Hnz Hd).
      unfold redim. rewrite factor_sinv by exact Hs. field. now apply factor_nonzero. }
    split; [now rewrite !A | now apply A].
  Qed.

  Lemma denoms_nzb_sound (Hfeqb : forall a b : F, feqb a b = true <-> a = b) x e :
    denoms_nzb x e = true -> denoms_nz x e.
  Proof.
    induction e as [c|i|a IHa b IHb|a IHa b IHb|a IHa b IHb|a IHa|a IHa b IHb]; cbn [denoms_nzb denoms_nz]; auto.
    1-3: rewrite andb_true_iff; intros [? ?]; split; auto.
    rewrite !andb_true_iff, negb_true_iff. intros [[Ha Hb] Hz]. repeat split; auto.
    intros E. apply Hfeqb in E. congruence.
  Qed.
End Pow.
