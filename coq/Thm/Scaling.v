(** Scale covariance (property C12): dimension algebra, the general theorem
    "every dimensionally well-typed field computation is scale-covariant",
    homogeneity of the column operators, commutation of the IMEX steps with a
    change of scale, and the two facts about log-surface-pressure.
    Every statement is for an arbitrary field, arbitrary non-zero scales and
    arbitrary sizes. *)
From Dino Require Import Base.Ops Base.Sums Model.Sigma Model.Dual Thm.Dual Model.Scaling.
Local Open Scope F_scope.

(** ** exponent vectors form an abelian group *)
Lemma dim_eqb_eq a b : dim_eqb a b = true <-> a = b.
Proof.
  destruct a as [a1 a2 a3 a4], b as [b1 b2 b3 b4]; unfold dim_eqb; cbn.
  rewrite !andb_true_iff, !Z.eqb_eq. split.
  - intros [[[-> ->] ->] ->]. reflexivity.
  - intros H; injection H; auto.
Qed.
Lemma dadd_comm a b : dadd a b = dadd b a.
Proof. destruct a, b; unfold dadd; cbn; f_equal; lia. Qed.
Lemma dadd_assoc a b c : dadd a (dadd b c) = dadd (dadd a b) c.
Proof. destruct a, b, c; unfold dadd; cbn; f_equal; lia. Qed.
Lemma dadd_zero a : dadd a dzero = a.
Proof. destruct a; unfold dadd, dzero; cbn; f_equal; lia. Qed.
Lemma dadd_opp a : dadd a (dopp a) = dzero.
Proof. destruct a; unfold dadd, dopp, dzero; cbn; f_equal; lia. Qed.
Lemma dsub_add_opp a b : dsub a b = dadd a (dopp b).
Proof. destruct a, b; unfold dsub, dadd, dopp; cbn; f_equal; lia. Qed.

Section Pow.
  Context {F : Type} {o : Ops F} {Fc : FieldC o}.
  Add Field FFsc : (field_c : FieldTh o).

  Lemma one_nz : (1 : F) <> 0.
  Proof. exact (F_1_neq_0 field_c). Qed.

  Lemma mul_nz (x y : F) : x <> 0 -> y <> 0 -> x * y <> 0.
  Proof.
    intros Hx Hy H. apply Hx.
    replace x with (x * y * (1 / y)) by (field; exact Hy). rewrite H. ring.
  Qed.

  Lemma div1_nz (x : F) : x <> 0 -> 1 / x <> 0.
  Proof.
    intros Hx H. apply one_nz. replace 1 with (1 / x * x) by (field; exact Hx). rewrite H. ring.
  Qed.

  Lemma npow_nz x k : x <> 0 -> npow x k <> 0.
  Proof. intros Hx. induction k as [|k IH]; cbn; [exact one_nz | now apply mul_nz]. Qed.

  Lemma npow_add x a b : npow x (a + b) = npow x a * npow x b.
  Proof. induction a as [|a IH]; cbn; [ring | rewrite IH; ring]. Qed.

  Lemma npow_inv x k : x <> 0 -> npow (1 / x) k = 1 / npow x k.
  Proof.
    intros Hx. induction k as [|k IH]; cbn.
    - field. exact one_nz.
    - rewrite IH. field. split; [now apply npow_nz | exact Hx].
  Qed.

  Lemma npow_mul_base x y k : npow (x * y) k = npow x k * npow y k.
  Proof. induction k as [|k IH]; cbn; [ring | rewrite IH; ring]. Qed.

  Lemma npow_one k : npow 1 k = 1.
  Proof. induction k as [|k IH]; cbn; [reflexivity | rewrite IH; ring]. Qed.

  Lemma zpow_of_nat x k : zpow x (Z.of_nat k) = npow x k.
  Proof.
    destruct k as [|k]; [reflexivity|].
    cbn [Z.of_nat zpow]. now rewrite SuccNat2Pos.id_succ.
  Qed.

  Lemma zpow_opp_nat x k : zpow x (- Z.of_nat k) = 1 / npow x k.
  Proof.
    destruct k as [|k]; cbn [Z.of_nat Z.opp zpow].
    - cbn. field. exact one_nz.
    - now rewrite SuccNat2Pos.id_succ.
  Qed.

  Lemma zpow_sub_nat x a b : x <> 0 -> zpow x (Z.of_nat a - Z.of_nat b) = npow x a / npow x b.
  Proof.
    intros Hx. destruct (Nat.le_ge_cases b a) as [H|H].
    - replace (Z.of_nat a - Z.of_nat b)%Z with (Z.of_nat (a - b)) by lia.
      rewrite zpow_of_nat. replace a with (b + (a - b))%nat at 2 by lia.
      rewrite npow_add. field. now apply npow_nz.
    - replace (Z.of_nat a - Z.of_nat b)%Z with (- Z.of_nat (b - a))%Z by lia.
      rewrite zpow_opp_nat. replace b with (a + (b - a))%nat at 2 by lia.
      rewrite npow_add. field. split; now apply npow_nz.
  Qed.

  (** every integer is a difference of naturals *)
  Lemma zpow_split x z : x <> 0 -> zpow x z = npow x (Z.to_nat z) / npow x (Z.to_nat (- z)).
  Proof.
    intros Hx. rewrite <- zpow_sub_nat by exact Hx. f_equal. lia.
  Qed.

  Lemma zpow_nonzero x z : x <> 0 -> zpow x z <> 0.
  Proof.
    intros Hx. destruct z; cbn.
    - exact one_nz.
    - now apply npow_nz.
    - apply div1_nz. now apply npow_nz.
  Qed.

  Theorem zpow_add x a b : x <> 0 -> zpow x (a + b) = zpow x a * zpow x b.
  Proof.
    intros Hx.
    rewrite (zpow_split x a), (zpow_split x b) by exact Hx.
    replace (a + b)%Z with (Z.of_nat (Z.to_nat a + Z.to_nat b) - Z.of_nat (Z.to_nat (- a) + Z.to_nat (- b)))%Z by lia.
    rewrite zpow_sub_nat by exact Hx.
    rewrite !npow_add. field. split; now apply npow_nz.
  Qed.

  Lemma zpow_0 x : zpow x 0 = 1.
  Proof. reflexivity. Qed.

  Lemma zpow_1 x : zpow x 1 = x.
  Proof. unfold zpow. replace (Pos.to_nat 1) with 1%nat by reflexivity. cbn [npow]. ring. Qed.

  Theorem zpow_opp x a : x <> 0 -> zpow x (- a) = 1 / zpow x a.
  Proof.
    intros Hx.
    assert (H : zpow x (- a) * zpow x a = 1).
    { rewrite <- zpow_add by exact Hx. now replace (- a + a)%Z with 0%Z by lia. }
    pose proof (zpow_nonzero x a Hx) as Hn.
    replace (zpow x (- a)) with (zpow x (- a) * zpow x a * (1 / zpow x a)) by (field; exact Hn).
    rewrite H. ring.
  Qed.

  Theorem zpow_sub x a b : x <> 0 -> zpow x (a - b) = zpow x a / zpow x b.
  Proof.
    intros Hx. replace (a - b)%Z with (a + - b)%Z by lia.
    rewrite zpow_add, zpow_opp by exact Hx. field. now apply zpow_nonzero.
  Qed.

  Lemma zpow_inv_base x z : x <> 0 -> zpow (1 / x) z = 1 / zpow x z.
  Proof.
    intros Hx. destruct z; cbn.
    - field. exact one_nz.
    - now apply npow_inv.
    - rewrite npow_inv by exact Hx. reflexivity.
  Qed.

  Lemma zpow_mul_base x y z : x <> 0 -> y <> 0 -> zpow (x * y) z = zpow x z * zpow y z.
  Proof.
    intros Hx Hy. destruct z; cbn.
    - ring.
    - apply npow_mul_base.
    - rewrite npow_mul_base. field. split; now apply npow_nz.
  Qed.

  Lemma zpow_one z : zpow 1 z = 1.
  Proof.
    destruct z; cbn; rewrite ?npow_one; try reflexivity. field. exact one_nz.
  Qed.

  (** ** scales *)
  Definition scale_nz (s : @scale F) : Prop := sL s <> 0 /\ sT s <> 0 /\ sM s <> 0 /\ sK s <> 0.

  Theorem factor_nonzero s d : scale_nz s -> factor s d <> 0.
  Proof.
    intros (H1 & H2 & H3 & H4). unfold factor.
    repeat apply mul_nz; now apply zpow_nonzero.
  Qed.

  Theorem factor_zero s : factor s dzero = 1.
  Proof. unfold factor, dzero; cbn. ring. Qed.

  Theorem factor_add s d1 d2 : scale_nz s -> factor s (dadd d1 d2) = factor s d1 * factor s d2.
  Proof.
    intros (H1 & H2 & H3 & H4). unfold factor, dadd; cbn [dL dT dM dK].
    rewrite !zpow_add by assumption. ring.
  Qed.

  Theorem factor_opp s d : scale_nz s -> factor s (dopp d) = 1 / factor s d.
  Proof.
    intros Hs. pose proof (factor_nonzero s d Hs) as Hn.
    assert (H : factor s (dopp d) * factor s d = 1).
    { rewrite <- factor_add by exact Hs. rewrite dadd_comm, dadd_opp. apply factor_zero. }
    replace (factor s (dopp d)) with (factor s (dopp d) * factor s d * (1 / factor s d)) by (field; exact Hn).
    rewrite H. ring.
  Qed.

  Theorem factor_sub s d1 d2 : scale_nz s -> factor s (dsub d1 d2) = factor s d1 / factor s d2.
  Proof.
    intros Hs. rewrite dsub_add_opp, factor_add, factor_opp by exact Hs.
    field. now apply factor_nonzero.
  Qed.

  Lemma sinv_nz s : scale_nz s -> scale_nz (sinv s).
  Proof. intros (H1 & H2 & H3 & H4). unfold scale_nz, sinv; cbn. repeat split; now apply div1_nz. Qed.

  Theorem factor_sinv s d : scale_nz s -> factor (sinv s) d = 1 / factor s d.
  Proof.
    intros Hs. pose proof Hs as (H1 & H2 & H3 & H4). unfold factor, sinv; cbn [sL sT sM sK].
    rewrite !zpow_inv_base by assumption.
    field. repeat split; now apply zpow_nonzero.
  Qed.

  Theorem factor_sunit d : factor sunit d = 1.
  Proof. unfold factor, sunit; cbn. rewrite !zpow_one. ring. Qed.

  (** dimensionalize after nondimensionalize is the identity (and conversely) *)
  Theorem redim_nondim s d x : scale_nz s -> redim s d (nondim s d x) = x.
  Proof. intros Hs. unfold redim, nondim. field. now apply factor_nonzero. Qed.
  Theorem nondim_redim s d v : scale_nz s -> nondim s d (redim s d v) = v.
  Proof. intros Hs. unfold redim, nondim. field. now apply factor_nonzero. Qed.

  Lemma nondim_env_rescale s dv x :
    scale_nz s -> forall i, nondim_env s dv x i = rescale (sinv s) dv x i.
  Proof.
    intros Hs i. unfold nondim_env, rescale, nondim. rewrite factor_sinv by exact Hs.
    field. now apply factor_nonzero.
  Qed.

  (** ** the general theorem: well-dimensioned programs are scale-covariant *)
  Lemma eval_ext (x y : nat -> F) (e : expr F) : (forall i, x i = y i) -> eval x e = eval y e.
  Proof.
    intros H. induction e as [c|i|a IHa b IHb|a IHa b IHb|a IHa b IHb|a IHa|a IHa b IHb]; cbn [eval];
      rewrite ?IHa, ?IHb; auto.
  Qed.

  Theorem welldim_homogeneous (dv : nat -> dim) (s : scale) (x : nat -> F) (e : expr F) (d : dim) :
    scale_nz s -> denoms_nz x e -> dim_of dv e = Some d ->
    eval (rescale s dv x) e = factor s d * eval x e.
  Proof.
    intros Hs. revert d.
    induction e as [c|i|a IHa b IHb|a IHa b IHb|a IHa b IHb|a IHa|a IHa b IHb];
      intros d Hnz Hd; cbn [eval dim_of denoms_nz] in *.
    - injection Hd as <-. rewrite factor_zero. ring.
    - injection Hd as <-. reflexivity.
    - destruct Hnz as [Hna Hnb].
      destruct (dim_of dv a) as [da|]; [|discriminate]. destruct (dim_of dv b) as [db|]; [|discriminate].
      destruct (dim_eqb da db) eqn:E; [|discriminate]. apply dim_eqb_eq in E. subst db.
      injection Hd as <-. rewrite (IHa da Hna eq_refl), (IHb da Hnb eq_refl). ring.
    - destruct Hnz as [Hna Hnb].
      destruct (dim_of dv a) as [da|]; [|discriminate]. destruct (dim_of dv b) as [db|]; [|discriminate].
      destruct (dim_eqb da db) eqn:E; [|discriminate]. apply dim_eqb_eq in E. subst db.
      injection Hd as <-. rewrite (IHa da Hna eq_refl), (IHb da Hnb eq_refl). ring.
    - destruct Hnz as [Hna Hnb].
      destruct (dim_of dv a) as [da|]; [|discriminate]. destruct (dim_of dv b) as [db|]; [|discriminate].
      injection Hd as <-. rewrite (IHa da Hna eq_refl), (IHb db Hnb eq_refl).
      rewrite factor_add by exact Hs. ring.
    - rewrite (IHa d Hnz Hd). ring.
    - destruct Hnz as (Hna & Hnb & Hb).
      destruct (dim_of dv a) as [da|]; [|discriminate]. destruct (dim_of dv b) as [db|]; [|discriminate].
      injection Hd as <-. rewrite (IHa da Hna eq_refl), (IHb db Hnb eq_refl).
      rewrite factor_sub by exact Hs. field. split; [exact Hb | now apply factor_nonzero].
  Qed.

  (** denominators stay non-zero under rescaling *)
  Lemma denoms_nz_rescale dv s x e d :
    scale_nz s -> denoms_nz x e -> dim_of dv e = Some d -> denoms_nz (rescale s dv x) e.
  Proof.
    intros Hs. revert d.
    induction e as [c|i|a IHa b IHb|a IHa b IHb|a IHa b IHb|a IHa|a IHa b IHb];
      intros d Hnz Hd; cbn [dim_of denoms_nz] in *; auto.
    1-3: destruct Hnz as [Hna Hnb];
      destruct (dim_of dv a) as [da|]; [|discriminate]; destruct (dim_of dv b) as [db|]; [|discriminate];
      split; [apply (IHa da) | apply (IHb db)]; auto.
    - apply (IHa d); auto.
    - destruct Hnz as (Hna & Hnb & Hb).
      destruct (dim_of dv a) as [da|] eqn:Ea; [|discriminate]. destruct (dim_of dv b) as [db|] eqn:Eb; [|discriminate].
      split; [apply (IHa da); auto|]. split; [apply (IHb db); auto|].
      rewrite (welldim_homogeneous dv s x b db Hs Hnb Eb).
      apply mul_nz; [now apply factor_nonzero | exact Hb].
  Qed.

  (** The property in its own words: compute with the non-dimensional values of
      the same physical inputs [X] under two scales, convert the results back:
      they agree (and equal the computation carried out in base units). *)
  Theorem scale_independence (dv : nat -> dim) (s1 s2 : scale) (X : nat -> F) (e : expr F) (d : dim) :
    scale_nz s1 -> scale_nz s2 -> denoms_nz X e -> dim_of dv e = Some d ->
    redim s1 d (eval (nondim_env s1 dv X) e) = redim s2 d (eval (nondim_env s2 dv X) e)
    /\ redim s1 d (eval (nondim_env s1 dv X) e) = eval X e.
  Proof.
    intros H1 H2 Hnz Hd.
    assert (A : forall s, scale_nz s -> redim s d (eval (nondim_env s dv X) e) = eval X e).
    { intros s Hs.
      rewrite (eval_ext _ _ e (nondim_env_rescale s dv X Hs)).
      rewrite (welldim_homogeneous dv (sinv s) X e d (sinv_nz s Hs) Hnz Hd).
      unfold redim. rewrite factor_sinv by exact Hs. field. now apply factor_nonzero. }
    split; [now rewrite !A | now apply A].
  Qed.

  Lemma denoms_nzb_sound (Hfeqb : forall a b : F, feqb a b = true <-> a = b) x e :
    denoms_nzb x e = true -> denoms_nz x e.
  Proof.
    induction e as [c|i|a IHa b IHb|a IHa b IHb|a IHa b IHb|a IHa|a IHa b IHb]; cbn [denoms_nzb denoms_nz]; auto.
    1-3: rewrite andb_true_iff; intros [? ?]; split; auto.
    rewrite !andb_true_iff, negb_true_iff. intros [[Ha Hb] Hz]. repeat split; auto.
    intros E. apply Hfeqb in E. congruence.
  Qed.
End Pow.

(** ** homogeneity of the column operators of Model/Sigma.v.
    Stated for an arbitrary multiplier [c] (the instances with
    [c = factor s d] and the dimension bookkeeping are in Prop/C12.v). *)
From Dino Require Import Thm.Sigma.

Section Columns.
  Context {F : Type} {o : Ops F} {Fc : FieldC o}.
  Add Field FFsc2 : (field_c : FieldTh o).

  Lemma cumsum_m_ext dot K (f g : nat -> F) j :
    (forall i, f i = g i) -> cumsum_m dot K f j = cumsum_m dot K g j.
  Proof.
    intros H. destruct dot; cbn [cumsum_m]; unfold cumsum_dot, cumsum_seq;
      apply sumn_ext; intros i _; now rewrite H.
  Qed.
  Lemma revcumsum_m_ext dot K (f g : nat -> F) j :
    (forall i, f i = g i) -> revcumsum_m dot K f j = revcumsum_m dot K g j.
  Proof.
    intros H. destruct dot; cbn [revcumsum_m]; unfold revcumsum_dot, revcumsum_seq;
      apply sumn_ext; intros i _; now rewrite H.
  Qed.
  Lemma cumsum_m_scal dot K c (f : nat -> F) j :
    cumsum_m dot K (fun k => c * f k) j = c * cumsum_m dot K f j.
  Proof.
    destruct dot; cbn [cumsum_m]; unfold cumsum_dot, cumsum_seq.
    - rewrite <- sumn_scal_l. apply sumn_ext; intros i _; ring.
    - now rewrite sumn_scal_l.
  Qed.
  Lemma revcumsum_m_scal dot K c (f : nat -> F) j :
    revcumsum_m dot K (fun k => c * f k) j = c * revcumsum_m dot K f j.
  Proof.
    destruct dot; cbn [revcumsum_m]; unfold revcumsum_dot, revcumsum_seq.
    - rewrite <- sumn_scal_l. apply sumn_ext; intros i _; ring.
    - now rewrite sumn_scal_l.
  Qed.

  (** degree 1 in [x]; sigma is dimensionless *)
  Theorem cum_sigma_integral_homogeneous dot down K (b x : nat -> F) c j :
    cum_sigma_integral dot down K b (scol c x) j = c * cum_sigma_integral dot down K b x j.
  Proof.
    unfold cum_sigma_integral. destruct down.
    - rewrite <- cumsum_m_scal. apply cumsum_m_ext. intros i. unfold xdsigma, scol. ring.
    - rewrite <- revcumsum_m_scal. apply revcumsum_m_ext. intros i. unfold xdsigma, scol. ring.
  Qed.

  Theorem sigma_integral_homogeneous K (b x : nat -> F) c :
    sigma_integral K b (scol c x) = c * sigma_integral K b x.
  Proof.
    unfold sigma_integral. rewrite <- sumn_scal_l. apply sumn_ext. intros i _. unfold xdsigma, scol. ring.
  Qed.

  Theorem centered_difference_homogeneous (b x : nat -> F) c k :
    centered_difference b (scol c x) k = c * centered_difference b x k.
  Proof. unfold centered_difference, scol. ring. Qed.

  Lemma pad_tb_scal K c top bot (v : nat -> F) k :
    pad_tb K (c * top) (c * bot) (fun i => c * v i) k = c * pad_tb K top bot v k.
  Proof. unfold pad_tb. destruct (Nat.eqb k 0); [reflexivity|]. destruct (Nat.ltb k K); reflexivity. Qed.
  Lemma pad_tb_ext K top bot (v v' : nat -> F) k :
    (forall i, v i = v' i) -> pad_tb K top bot v k = pad_tb K top bot v' k.
  Proof. intros H. unfold pad_tb. destruct (Nat.eqb k 0); [reflexivity|]. destruct (Nat.ltb k K); auto. Qed.

  (** bilinear: velocity of dimension dw, advected quantity of dimension dx *)
  Theorem centered_vertical_advection_bilinear K (b w x : nat -> F) wt wb dt db cw cx n :
    centered_vertical_advection K b (scol cw w) (scol cx x) (cw * wt) (cw * wb) (cx * dt) (cx * db) n
    = cw * cx * centered_vertical_advection K b w x wt wb dt db n.
  Proof.
    unfold centered_vertical_advection. cbv zeta.
    assert (A : forall k, pad_tb K (cw * wt) (cw * wb) (scol cw w) k = cw * pad_tb K wt wb w k).
    { intros k. apply pad_tb_scal. }
    assert (B : forall k, pad_tb K (cx * dt) (cx * db) (centered_difference b (scol cx x)) k
                          = cx * pad_tb K dt db (centered_difference b x) k).
    { intros k. rewrite <- pad_tb_scal. apply pad_tb_ext. intros i. apply centered_difference_homogeneous. }
    rewrite !A, !B. ring.
  Qed.

  (** geopotential: R (L^2 T^-2 Theta^-1) times T (Theta) *)
  Theorem geo_diff_dense_homogeneous K R (ls T : nat -> F) cR cT j :
    geo_diff_dense K (cR * R) ls (scol cT T) j = cR * cT * geo_diff_dense K R ls T j.
  Proof.
    unfold geo_diff_dense. rewrite <- sumn_scal_l. apply sumn_ext. intros k _.
    unfold geo_weights, scol. ring.
  Qed.

  Theorem geo_diff_sparse_homogeneous K R (ls T : nat -> F) cR cT j :
    (j < K)%nat ->
    geo_diff_sparse K (cR * R) ls (scol cT T) j = cR * cT * geo_diff_sparse K R ls T j.
  Proof.
    intros Hj. rewrite !(geo_sparse_eq_dense K _ ls _ j Hj). apply geo_diff_dense_homogeneous.
  Qed.
End Columns.

(** ** log surface pressure: the one variable that is not homogeneous *)
Section LogPressure.
  Context {F : Type} {o : Ops F} {Fc : FieldC o}.
  Add Field FFsc3 : (field_c : FieldTh o).

  (** A linear operator (matrix [A], any size) that annihilates the constant
      field - a nodal gradient or Laplacian - does not see the shift. *)
  Theorem shift_killed_nodal n (A : nat -> nat -> F) (x : nat -> F) c i :
    (forall r, sumn n (fun j => A r j) = 0) ->
    lin n A (shift_field c x) i = lin n A x i.
  Proof.
    intros H. unfold lin, shift_field.
    rewrite (sumn_ext n _ (fun j => A i j * x j + c * A i j)) by (intros; ring).
    rewrite sumn_add, sumn_scal_l, H. ring.
  Qed.

  (** Spectral form: an operator whose column of the constant mode (index 0)
      vanishes - grad, div, curl, Laplacian, laplacian eigenvalue 0 - does not
      see a shift of the (0,0) coefficient. *)
  Theorem shift_killed_modal n (A : nat -> nat -> F) (x : nat -> F) c i :
    (0 < n)%nat -> (forall r, A r 0%nat = 0) ->
    lin n A (shift_mode0 c x) i = lin n A x i.
  Proof.
    intros Hn H. unfold lin. destruct n as [|n]; [lia|].
    rewrite !sumn_S_first. f_equal.
    - unfold shift_mode0. cbn [Nat.eqb]. rewrite H. ring.
  Qed.

  (** an operator that maps the constant mode to itself (the resolvent at
      l = 0, time filters, the identity) passes the shift through *)
  Theorem shift_passed_modal n (A : nat -> nat -> F) (x : nat -> F) c i :
    (0 < n)%nat -> (forall r, A r 0%nat = delta r 0%nat) ->
    lin n A (shift_mode0 c x) i = shift_mode0 c (lin n A x) i.
  Proof.
    intros Hn H. unfold lin. destruct n as [|n]; [lia|].
    rewrite !sumn_S_first. unfold shift_mode0 at 1. cbn [Nat.eqb].
    rewrite (sumn_ext n (fun j => A i (S j) * shift_mode0 c x (S j)) (fun j => A i (S j) * x (S j))).
    2:{ intros j _. unfold shift_mode0. reflexivity. }
    unfold shift_mode0 at 1. rewrite sumn_S_first. rewrite H. unfold delta.
    destruct (Nat.eqb i 0); ring.
  Qed.

  (** Held-Suarez: sigma*exp(lnps)/p0 is invariant when p0 is
      non-dimensionalised with the same scale; [E] is any homomorphism from
      F under addition to F under multiplication (the exponential), [fp] = factor s d_pressure = E lp. *)
  Theorem p_over_p0_invariant (E : F -> F) (sigma lnps_si p0_si lp fp : F) :
    (forall a b, E (a + b) = E a * E b) -> E lp = fp -> fp <> 0 -> p0_si <> 0 ->
    p_over_p0 E sigma (lnps_si - lp) (p0_si / fp) = p_over_p0 E sigma lnps_si p0_si.
  Proof.
    intros HE Hlp Hfp Hp0. unfold p_over_p0.
    assert (A : E lnps_si = E (lnps_si - lp) * fp).
    { rewrite <- Hlp, <- HE. f_equal. ring. }
    rewrite A. field. split; assumption.
  Qed.
End LogPressure.

(** ** time stepping commutes with a change of scale.
    State space [V] (any vector space over the scalars), two copies of the
    equations: [(Fx, G, Ginv)] under the first scale and [(Fx', G', Ginv')]
    under the second.  The change of scale on states is affine,
    [S u = L u + c0] ([L] linear: multiplication of every component by its
    factor; [c0]: the shift of the mean log surface pressure); [tau] is the
    ratio of the time scales, so [dt' = tau * dt], and tendencies transform
    with [(1/tau) L]. *)
From Dino Require Import Model.Integrators.

Section StepCovariance.
  Context {F : Type} {o : Ops F} {Fc : FieldC o} {V : Type} {vo : VOps F V}.
  Add Field FFsc4 : (field_c : FieldTh o).
  Infix "+v" := vadd (at level 50, left associativity).
  Infix "*v" := vscal (at level 40, left associativity).

  (** vector-space laws actually used *)
  Hypothesis vadd_assoc : forall u v w : V, u +v (v +v w) = (u +v v) +v w.
  Hypothesis vadd_comm : forall u v : V, u +v v = v +v u.
  Hypothesis vscal_add : forall (a : F) (u v : V), a *v (u +v v) = a *v u +v a *v v.
  Hypothesis vscal_mul : forall (a b : F) (u : V), a *v (b *v u) = (a * b) *v u.
  Hypothesis vscal_zero : forall a : F, a *v vzero = (vzero : V).

  Variables (L : V -> V) (c0 : V) (tau : F).
  Hypothesis L_add : forall u v, L (u +v v) = L u +v L v.
  Hypothesis L_scal : forall a u, L (a *v u) = a *v L u.
  Hypothesis L_zero : L vzero = vzero.
  Hypothesis tau_nz : tau <> 0.

  Definition Sc (u : V) : V := L u +v c0.
  (** how tendencies transform *)
  Definition Tn (t : V) : V := (1 / tau) *v L t.

  Variables (Fx G : V -> V) (Ginv : V -> F -> V) (Fx' G' : V -> V) (Ginv' : V -> F -> V).
  Hypothesis HF : forall u, Fx' (Sc u) = Tn (Fx u).
  Hypothesis HG : forall u, G' (Sc u) = Tn (G u).
  (** [ok eta]: the implicit solves with step size [eta] are well defined (the
      matrices are invertible); only the step sizes an integrator actually uses
      are required to be [ok]. *)
  Variable ok : F -> Prop.
  Hypothesis HGinv : forall u eta, ok eta -> Ginv' (Sc u) (tau * eta) = Sc (Ginv u eta).

  Fixpoint ls_ok (dt : F) (al : list F) : Prop :=
    match al with
    | a0 :: ((a1 :: _) as al') => ok (half * dt * (a1 - a0)) /\ ls_ok dt al'
    | _ => True
    end.
  Fixpoint imex_ok (dt : F) (i : nat) (rim : list (list F)) : Prop :=
    match rim with
    | ri :: rim' => ok (dt * nth i ri 0) /\ imex_ok dt (Datatypes.S i) rim'
    | [] => True
    end.

  Lemma S_plus u w : Sc u +v L w = Sc (u +v w).
  Proof.
    unfold Sc. rewrite L_add. rewrite <- !vadd_assoc. f_equal. apply vadd_comm.
  Qed.

  Lemma Tn_add t1 t2 : Tn t1 +v Tn t2 = Tn (t1 +v t2).
  Proof. unfold Tn. now rewrite L_add, vscal_add. Qed.
  Lemma Tn_scal a t : a *v Tn t = Tn (a *v t).
  Proof.
    unfold Tn. rewrite L_scal, !vscal_mul. f_equal. ring.
  Qed.
  Lemma Tn_zero : Tn vzero = vzero.
  Proof. unfold Tn. now rewrite L_zero, vscal_zero. Qed.

  (** state + (rescaled time) * (rescaled tendency) = rescaled (state + time * tendency) *)
  Lemma S_axpy u a t : Sc u +v (tau * a) *v Tn t = Sc (u +v a *v t).
  Proof.
    rewrite <- S_plus. f_equal. unfold Tn. rewrite vscal_mul, L_scal. f_equal.
    field. exact tau_nz.
  Qed.
  Lemma S_axpy' u a a' t : a' = tau * a -> Sc u +v a' *v Tn t = Sc (u +v a *v t).
  Proof. intros ->. apply S_axpy. Qed.
  Lemma Ginv_cov u eta eta' : ok eta -> eta' = tau * eta -> Ginv' (Sc u) eta' = Sc (Ginv u eta).
  Proof. intros Hok ->. now apply HGinv. Qed.

  (** The resolvent hypothesis follows from the one on the implicit terms:
      if [Ginv . eta] is a right inverse of [1 - eta G] (modulo the entries [L]
      looks at) and [Ginv' . (tau eta)] a left inverse of [1 - tau eta G'] on
      rescaled states, then the resolvents are related by the change of scale. *)
  Lemma resolvent_covariant_from_terms eta :
    (forall y, L (Ginv y eta +v (- eta) *v G (Ginv y eta)) = L y) ->
    (forall u, Ginv' (Sc u +v (- (tau * eta)) *v G' (Sc u)) (tau * eta) = Sc u) ->
    forall y, Ginv' (Sc y) (tau * eta) = Sc (Ginv y eta).
  Proof.
    intros HR HL y.
    assert (E : Sc y = Sc (Ginv y eta) +v (- (tau * eta)) *v G' (Sc (Ginv y eta))).
    { rewrite HG. rewrite (S_axpy' (Ginv y eta) (- eta) (- (tau * eta))) by ring.
      unfold Sc. now rewrite HR. }
    rewrite E at 1. apply HL.
  Qed.

  Theorem euler_step_covariant dt u0 :
    ok dt ->
    euler_step Fx' Ginv' (tau * dt) (Sc u0) = Sc (euler_step Fx Ginv dt u0).
  Proof.
    intros Hok. unfold euler_step. cbv zeta. rewrite HF, S_axpy. now apply HGinv.
  Qed.

  Theorem backward_euler_step_covariant dt u0 :
    ok dt ->
    backward_euler_step Ginv' (tau * dt) (Sc u0) = Sc (backward_euler_step Ginv dt u0).
  Proof. intros Hok. unfold backward_euler_step. now apply HGinv. Qed.

  Theorem cn_rk2_step_covariant dt u0 :
    ok (half * dt) ->
    cn_rk2_step Fx' G' Ginv' (tau * dt) (Sc u0) = Sc (cn_rk2_step Fx G Ginv dt u0).
  Proof.
    intros Hok. unfold cn_rk2_step. cbv zeta.
    rewrite HF, HG.
    rewrite (S_axpy' u0 (half * dt) (half * (tau * dt)) (G u0)) by ring.
    rewrite S_axpy.
    rewrite (Ginv_cov _ (half * dt)) by (assumption || ring).
    rewrite HF, Tn_add, Tn_scal, S_axpy.
    apply Ginv_cov; [assumption | ring].
  Qed.

  Theorem leapfrog_covariant dt alpha p q :
    ok (two * dt * alpha) ->
    leapfrog_step Fx' G' Ginv' (tau * dt) alpha (Sc p, Sc q)
    = (Sc (fst (leapfrog_step Fx G Ginv dt alpha (p, q))), Sc (snd (leapfrog_step Fx G Ginv dt alpha (p, q)))).
  Proof.
    intros Hok. unfold leapfrog_step. cbn [fst snd]. f_equal.
    rewrite HF, HG, Tn_scal, Tn_add.
    rewrite (S_axpy' p (two * dt) (two * (tau * dt))) by ring.
    apply Ginv_cov; [assumption | ring].
  Qed.

  (** low-storage Runge-Kutta + Crank-Nicolson (crank_nicolson_rk3 / rk4): all lists, all lengths *)
  Theorem ls_loop_covariant dt al be ga h u :
    ls_ok dt al ->
    ls_loop Fx' G' Ginv' (tau * dt) al be ga (Tn h) (Sc u) = Sc (ls_loop Fx G Ginv dt al be ga h u).
  Proof.
    revert be ga h u. induction al as [|a0 al IH]; intros be ga h u Hok.
    - destruct be, ga; reflexivity.
    - destruct be as [|b be]; [destruct ga; reflexivity|].
      destruct ga as [|g ga]; [reflexivity|].
      destruct al as [|a1 al]; [reflexivity|].
      destruct Hok as [Hok1 Hok2].
      cbn [ls_loop].
      rewrite HF, HG, Tn_scal, Tn_add.
      rewrite (S_axpy' u (g * dt) (g * (tau * dt))) by ring.
      rewrite (S_axpy' _ (half * dt * (a1 - a0)) (half * (tau * dt) * (a1 - a0))) by ring.
      rewrite (Ginv_cov _ (half * dt * (a1 - a0))) by (assumption || ring).
      apply IH. exact Hok2.
  Qed.

  Theorem ls_step_covariant dt al be ga u :
    ls_ok dt al ->
    ls_step Fx' G' Ginv' (tau * dt) al be ga (Sc u) = Sc (ls_step Fx G Ginv dt al be ga u).
  Proof. intros Hok. unfold ls_step. rewrite <- ls_loop_covariant by exact Hok. now rewrite Tn_zero. Qed.

  (** general IMEX Runge-Kutta (imex_rk_sil3 and any other tableau) *)
  Definition oT (x : option V) : option V := option_map Tn x.

  Lemma wsum_skip_covariant cs xs acc :
    wsum_skip cs (map oT xs) (Tn acc) = option_map Tn (wsum_skip cs xs acc).
  Proof.
    revert xs acc. induction cs as [|c cs IH]; intros xs acc; cbn [wsum_skip]; [reflexivity|].
    destruct xs as [|x xs]; cbn [map wsum_skip]; [reflexivity|].
    destruct (nz c).
    - destruct x as [v|]; cbn [oT option_map]; [|reflexivity].
      rewrite Tn_scal, Tn_add. apply IH.
    - apply IH.
  Qed.

  Lemma wsum_skip_covariant0 cs xs :
    wsum_skip cs (map oT xs) vzero = option_map Tn (wsum_skip cs xs vzero).
  Proof. rewrite <- wsum_skip_covariant. now rewrite Tn_zero. Qed.

  Lemma imex_stages_covariant dt y0 b_ex b_im i rex rim fs gs :
    imex_ok dt i rim ->
    imex_stages Fx' G' Ginv' (tau * dt) (Sc y0) b_ex b_im i rex rim (map oT fs) (map oT gs)
    = option_map (fun p => (map oT (fst p), map oT (snd p)))
                 (imex_stages Fx G Ginv dt y0 b_ex b_im i rex rim fs gs).
  Proof.
    revert i rim fs gs. induction rex as [|re rex IH]; intros i rim fs gs Hok; cbn [imex_stages]; [reflexivity|].
    destruct rim as [|ri rim]; [reflexivity|]. destruct Hok as [Hok1 Hok2].
    rewrite !wsum_skip_covariant0.
    destruct (wsum_skip re fs vzero) as [ex|]; cbn [option_map]; [|reflexivity].
    destruct (wsum_skip ri gs vzero) as [im|]; cbn [option_map]; [|reflexivity].
    rewrite !S_axpy.
    rewrite (Ginv_cov _ (dt * nth i ri 0)) by (assumption || ring).
    rewrite HF, HG.
    replace (map oT fs ++ [if needed i rex b_ex then Some (Tn (Fx (Ginv (y0 +v dt *v ex +v dt *v im) (dt * nth i ri 0)))) else None])
      with (map oT (fs ++ [if needed i rex b_ex then Some (Fx (Ginv (y0 +v dt *v ex +v dt *v im) (dt * nth i ri 0))) else None])).
    2:{ rewrite map_app. cbn [map]. destruct (needed i rex b_ex); reflexivity. }
    replace (map oT gs ++ [if needed i rim b_im then Some (Tn (G (Ginv (y0 +v dt *v ex +v dt *v im) (dt * nth i ri 0)))) else None])
      with (map oT (gs ++ [if needed i rim b_im then Some (G (Ginv (y0 +v dt *v ex +v dt *v im) (dt * nth i ri 0))) else None])).
    2:{ rewrite map_app. cbn [map]. destruct (needed i rim b_im); reflexivity. }
    apply IH. exact Hok2.
  Qed.

  Theorem imex_step_covariant dt a_ex a_im b_ex b_im y0 :
    imex_ok dt 1 a_im ->
    imex_step Fx' G' Ginv' (tau * dt) a_ex a_im b_ex b_im (Sc y0)
    = option_map Sc (imex_step Fx G Ginv dt a_ex a_im b_ex b_im y0).
  Proof.
    intros Hok. unfold imex_step.
    pose proof (imex_stages_covariant dt y0 b_ex b_im 1 a_ex a_im [Some (Fx y0)] [Some (G y0)] Hok) as H.
    cbn [map oT option_map] in H. rewrite HF, HG. rewrite H. clear H.
    destruct (imex_stages Fx G Ginv dt y0 b_ex b_im 1 a_ex a_im [Some (Fx y0)] [Some (G y0)]) as [[fs gs]|];
      cbn [option_map fst snd]; [|reflexivity].
    rewrite !wsum_skip_covariant0.
    destruct (wsum_skip b_ex fs vzero) as [ex|]; cbn [option_map]; [|reflexivity].
    destruct (wsum_skip b_im gs vzero) as [im|]; cbn [option_map]; [|reflexivity].
    now rewrite !S_axpy.
  Qed.

  (** filters (a function of the state before and after the step) and trajectories *)
  Fixpoint apply_filters (fl : list (V -> V -> V)) (u un : V) : V :=
    match fl with [] => un | f :: fl' => apply_filters fl' u (f u un) end.
  Definition step_with_filters (step : V -> V) (fl : list (V -> V -> V)) (u : V) : V :=
    apply_filters fl u (step u).

  Theorem trajectory_covariant (step step' : V -> V) (fl fl' : list (V -> V -> V)) :
    (forall u, step' (Sc u) = Sc (step u)) ->
    Forall2 (fun f' f => forall u w, f' (Sc u) (Sc w) = Sc (f u w)) fl' fl ->
    forall k u, Nat.iter k (step_with_filters step' fl') (Sc u) = Sc (Nat.iter k (step_with_filters step fl) u).
  Proof.
    intros Hs Hf.
    assert (A : forall u, step_with_filters step' fl' (Sc u) = Sc (step_with_filters step fl u)).
    { intros u. unfold step_with_filters. rewrite Hs. generalize (step u) as w.
      induction Hf as [|f' f fl' fl Hff Hf IH]; intros w; cbn [apply_filters]; [reflexivity|].
      rewrite Hff. apply IH. }
    induction k as [|k IH]; intros u; [reflexivity|].
    change (Nat.iter (S k) (step_with_filters step' fl') (Sc u)) with (step_with_filters step' fl' (Nat.iter k (step_with_filters step' fl') (Sc u))).
    change (Nat.iter (S k) (step_with_filters step fl) u) with (step_with_filters step fl (Nat.iter k (step_with_filters step fl) u)).
    rewrite IH. apply A.
  Qed.
End StepCovariance.

(** ** homogeneity of the nodal primitive-equation terms of Model/PrimEq.v.
    Multipliers: [ku] velocity (cos_lat_u), [kr] rates (vorticity, divergence,
    Coriolis), [kT] temperature, [kg] inverse length (cos_lat_grad_log_sp),
    [kR] gas constant; kappa, sigma, sec2_lat and q are dimensionless.  The
    relations between the multipliers that dimensional consistency of the
    equations requires are explicit hypotheses ([ku*kg = kr],
    [kR*kT*kg = ku*kr]); Prop/C12.v discharges them for [factor s d]. *)
From Dino Require Import Model.Implicit Model.PrimEq.

Section NodalTerms.
  Context {F : Type} {o : Ops F} {Fc : FieldC o}.
  Add Field FFsc5 : (field_c : FieldTh o).

  Lemma fdiv_mul (x y : F) : x / y = x * finv y.
  Proof. exact (Fdiv_def field_c x y). Qed.

  Variables (ku kr kT kg kR : F).
  Hypothesis H_rate : ku * kg = kr.
  Hypothesis H_accel : kR * kT * kg = ku * kr.

  Notation scale_ncol := (scale_ncol ku kr kT kg).
  Notation scale_cfg := (scale_cfg kT kR).

  Variable c : @PEcfg F.
  Notation scale_cfg_c := (Scaling.scale_cfg kT kR c).

  Lemma u_dot_grad_homogeneous x k : u_dot_grad (scale_ncol x) k = kr * u_dot_grad x k.
  Proof. unfold u_dot_grad, scale_ncol, scol; cbn. rewrite <- H_rate. ring. Qed.

  Lemma cumint_scal a (g g' : nat -> F) j :
    (forall k, g' k = a * g k) -> cumint (scale_cfg c) g' j = a * cumint c g j.
  Proof.
    intros H. unfold cumint, scale_cfg; cbn [cK cb]. unfold cum_sigma_integral.
    rewrite <- cumsum_m_scal. apply cumsum_m_ext. intros i. unfold xdsigma. rewrite H. ring.
  Qed.

  Lemma sigma_dot_scal a (g g' : nat -> F) r :
    (forall k, g' k = a * g k) -> sigma_dot (scale_cfg c) g' r = a * sigma_dot c g r.
  Proof.
    intros H. unfold sigma_dot. cbv zeta. rewrite !(cumint_scal a g g') by exact H.
    unfold sum_sigma, scale_cfg; cbn [cK cb]. ring.
  Qed.

  Lemma g_part_scal a (g g' : nat -> F) n :
    (forall k, g' k = a * g k) -> g_part (scale_cfg c) g' n = a * g_part c g n.
  Proof.
    intros H. unfold g_part. cbv zeta. rewrite !(cumint_scal a g g') by exact H.
    cbn [scale_cfg cK cls cb]. rewrite !fdiv_mul.
    destruct (Nat.eqb n 0); ring.
  Qed.

  Lemma t_omega_scal a (Tf Tf' g g' vg vg' : nat -> F) n :
    (forall k, Tf' k = kT * Tf k) -> (forall k, g' k = a * g k) -> (forall k, vg' k = a * vg k) ->
    t_omega_over_sigma_sp (scale_cfg c) Tf' g' vg' n = kT * a * t_omega_over_sigma_sp c Tf g vg n.
  Proof.
    intros HT Hg Hv. unfold t_omega_over_sigma_sp. rewrite (g_part_scal a g g') by exact Hg.
    rewrite HT, Hv. ring.
  Qed.

  (** temperature tendency, adiabatic term: kappa * T * omega/p  (Theta / T) *)
  Theorem temp_adiabatic_homogeneous x n :
    temp_adiabatic (scale_cfg c) (scale_ncol x) n = kT * kr * temp_adiabatic c x n.
  Proof.
    unfold temp_adiabatic. cbv zeta.
    rewrite (t_omega_scal kr (cTref c) _ (g_explicit x) _ (u_dot_grad x)).
    2:{ intros k. reflexivity. }
    2,3: intros k; unfold g_explicit; apply u_dot_grad_homogeneous.
    rewrite (t_omega_scal kr (n_temp x) _ (g_full_adiabatic x) _ (u_dot_grad x)).
    2:{ intros k. reflexivity. }
    2:{ intros k. unfold g_full_adiabatic. rewrite u_dot_grad_homogeneous. unfold scale_ncol, scol; cbn. ring. }
    2:{ intros k. apply u_dot_grad_homogeneous. }
    cbn [scale_cfg ckappa]. ring.
  Qed.

  (** d(log ps)/dt = - sum dsigma * u.grad(log ps)   (1 / T) *)
  Theorem log_pressure_tendency_homogeneous x :
    log_pressure_tendency (scale_cfg c) (scale_ncol x) = kr * log_pressure_tendency c x.
  Proof.
    unfold log_pressure_tendency; cbn [scale_cfg cK cb].
    unfold sigma_integral. rewrite (sumn_ext (cK c) _ (fun k => kr * xdsigma (cb c) (u_dot_grad x) k)).
    - rewrite sumn_scal_l. ring.
    - intros k _. unfold xdsigma. rewrite u_dot_grad_homogeneous. ring.
  Qed.

  Lemma cva_ext K b (w w' x x' : nat -> F) wt wb dt db n :
    (forall k, w' k = w k) -> (forall k, x' k = x k) ->
    centered_vertical_advection K b w' x' wt wb dt db n = centered_vertical_advection K b w x wt wb dt db n.
  Proof.
    intros Hw Hx. unfold centered_vertical_advection. cbv zeta.
    rewrite !(pad_tb_ext K wt wb w' w) by exact Hw.
    rewrite !(pad_tb_ext K dt db (centered_difference b x') (centered_difference b x)).
    2,3: intros k; unfold centered_difference; now rewrite !Hx.
    reflexivity.
  Qed.

  Lemma vertical_tendency_scal aw ax (w w' xx xx' : nat -> F) n :
    (forall k, w' k = aw * w k) -> (forall k, xx' k = ax * xx k) ->
    vertical_tendency (scale_cfg c) w' xx' n = aw * ax * vertical_tendency c w xx n.
  Proof.
    intros Hw Hx. unfold vertical_tendency, scale_cfg; cbn [cK cb].
    rewrite (cva_ext _ _ (scol aw w) w' (scol ax xx) xx') by (intros k; unfold scol; auto).
    pose proof (centered_vertical_advection_bilinear (cK c) (cb c) w xx 0 0 0 0 aw ax n) as H.
    replace (aw * 0) with (0 : F) in H by ring. replace (ax * 0) with (0 : F) in H by ring. exact H.
  Qed.

  Lemma sigma_dot_full_homogeneous x r :
    sigma_dot_full (scale_cfg c) (scale_ncol x) r = kr * sigma_dot_full c x r.
  Proof.
    unfold sigma_dot_full. apply sigma_dot_scal. intros k. unfold g_full_diag.
    rewrite u_dot_grad_homogeneous. unfold scale_ncol, scol; cbn. ring.
  Qed.

  (** momentum equation, dry: (zeta + f) k x v + sigma_dot dv/dsigma + R T' grad(ln ps)  (L / T^2) *)
  Theorem combined_uv_homogeneous va x k :
    combined_u (scale_cfg c) va (scale_ncol x) (rt_dry (scale_cfg c) (scale_ncol x)) k
      = ku * kr * combined_u c va x (rt_dry c x) k /\
    combined_v (scale_cfg c) va (scale_ncol x) (rt_dry (scale_cfg c) (scale_ncol x)) k
      = ku * kr * combined_v c va x (rt_dry c x) k.
  Proof.
    assert (VT : forall (y : nat -> F), vertical_tendency (scale_cfg c) (sigma_dot_full (scale_cfg c) (scale_ncol x)) (scol ku y) k
                 = kr * ku * vertical_tendency c (sigma_dot_full c x) y k).
    { intros y. apply vertical_tendency_scal; [intros r; apply sigma_dot_full_homogeneous | intros r; reflexivity]. }
    assert (PG : forall gr : F, kR * cR c * (kT * n_temp x k) * (kg * gr) = ku * kr * (cR c * n_temp x k * gr)).
    { intros gr. rewrite <- H_accel. ring. }
    split; unfold combined_u, combined_v; cbv zeta.
    - destruct va.
      + change (n_u (scale_ncol x)) with (scol ku (n_u x)). rewrite VT.
        unfold rt_dry, scale_ncol, scale_cfg, scol; cbn [n_u n_v n_vort n_div n_temp n_gx n_gy n_sec2 n_f cR].
        rewrite PG. ring.
      + unfold rt_dry, scale_ncol, scale_cfg, scol; cbn [n_u n_v n_vort n_div n_temp n_gx n_gy n_sec2 n_f cR].
        rewrite PG. ring.
    - destruct va.
      + change (n_v (scale_ncol x)) with (scol ku (n_v x)). rewrite VT.
        unfold rt_dry, scale_ncol, scale_cfg, scol; cbn [n_u n_v n_vort n_div n_temp n_gx n_gy n_sec2 n_f cR].
        rewrite PG. ring.
      + unfold rt_dry, scale_ncol, scale_cfg, scol; cbn [n_u n_v n_vort n_div n_temp n_gx n_gy n_sec2 n_f cR].
        rewrite PG. ring.
  Qed.

  (** *** general form of the momentum term: any [rt] of dimension L^2 T^-2 *)
  Lemma combined_uv_scal va x (rt rt' : nat -> F) k :
    (forall j, rt' j = kR * kT * rt j) ->
    combined_u scale_cfg_c va (scale_ncol x) rt' k = ku * kr * combined_u c va x rt k /\
    combined_v scale_cfg_c va (scale_ncol x) rt' k = ku * kr * combined_v c va x rt k.
  Proof.
    intros Hrt.
    assert (VT : forall (y : nat -> F), vertical_tendency (scale_cfg c) (sigma_dot_full (scale_cfg c) (scale_ncol x)) (scol ku y) k
                 = kr * ku * vertical_tendency c (sigma_dot_full c x) y k).
    { intros y. apply vertical_tendency_scal; [intros r; apply sigma_dot_full_homogeneous | intros r; reflexivity]. }
    assert (PG : forall gr : F, kR * kT * rt k * (kg * gr) = ku * kr * (rt k * gr)).
    { intros gr. rewrite <- H_accel. ring. }
    split; unfold combined_u, combined_v; cbv zeta; rewrite Hrt.
    - destruct va.
      + change (n_u (scale_ncol x)) with (scol ku (n_u x)). rewrite VT.
        unfold Scaling.scale_ncol, scol; cbn [n_u n_v n_vort n_div n_temp n_gx n_gy n_sec2 n_f].
        rewrite PG. ring.
      + unfold Scaling.scale_ncol, scol; cbn [n_u n_v n_vort n_div n_temp n_gx n_gy n_sec2 n_f].
        rewrite PG. ring.
    - destruct va.
      + change (n_v (scale_ncol x)) with (scol ku (n_v x)). rewrite VT.
        unfold Scaling.scale_ncol, scol; cbn [n_u n_v n_vort n_div n_temp n_gx n_gy n_sec2 n_f].
        rewrite PG. ring.
      + unfold Scaling.scale_ncol, scol; cbn [n_u n_v n_vort n_div n_temp n_gx n_gy n_sec2 n_f].
        rewrite PG. ring.
  Qed.

  (** *** horizontal advection pieces and the total nodal right-hand sides *)
  Lemma hsa_homogeneous a x (s : nat -> F) k :
    hsa_nodal (scale_ncol x) (scol a s) k = a * kr * hsa_nodal x s k /\
    hsa_mu (scale_ncol x) (scol a s) k = ku * a * hsa_mu x s k /\
    hsa_mv (scale_ncol x) (scol a s) k = ku * a * hsa_mv x s k.
  Proof. unfold hsa_nodal, hsa_mu, hsa_mv, Scaling.scale_ncol, scol; cbn. repeat split; ring. Qed.

  Lemma kinetic_homogeneous x k : kinetic (scale_ncol x) k = ku * ku * kinetic x k.
  Proof. unfold kinetic, Scaling.scale_ncol, scol; cbn. rewrite !fdiv_mul. ring. Qed.

  Lemma sigma_dot_explicit_homogeneous x r :
    sigma_dot_explicit scale_cfg_c (scale_ncol x) r = kr * sigma_dot_explicit c x r.
  Proof. unfold sigma_dot_explicit. apply sigma_dot_scal. intros k. unfold g_explicit. apply u_dot_grad_homogeneous. Qed.

  (** the branch [np.unique(T_ref).size > 1] does not depend on the temperature scale *)
  Hypothesis feqb_iff : forall a b : F, feqb a b = true <-> a = b.
  Hypothesis kT_nz : kT <> 0.

  Lemma feqb_scal a b : feqb (kT * a) (kT * b) = feqb a b.
  Proof.
    destruct (feqb a b) eqn:E.
    - apply feqb_iff in E. subst. now apply feqb_iff.
    - destruct (feqb (kT * a) (kT * b)) eqn:E'; [|reflexivity].
      apply feqb_iff in E'. assert (a = b).
      { replace a with (kT * a / kT) by (field; exact kT_nz). rewrite E'. field. exact kT_nz. }
      subst. assert (X : feqb b b = true) by now apply feqb_iff. congruence.
  Qed.

  Theorem tref_nonuniform_scale_invariant : tref_nonuniform scale_cfg_c = tref_nonuniform c.
  Proof.
    unfold tref_nonuniform. cbn [Scaling.scale_cfg cK cTref]. unfold scol.
    induction (seq 0 (cK c)) as [|k l IH]; cbn [existsb]; [reflexivity|].
    now rewrite feqb_scal, IH.
  Qed.

  Theorem temp_vertical_tendency_homogeneous va x n :
    temp_vertical_tendency scale_cfg_c va (scale_ncol x) n = kT * kr * temp_vertical_tendency c va x n.
  Proof.
    unfold temp_vertical_tendency. cbv zeta. rewrite tref_nonuniform_scale_invariant.
    assert (A : vertical_tendency scale_cfg_c (sigma_dot_full scale_cfg_c (scale_ncol x)) (n_temp (scale_ncol x)) n
                = kr * kT * vertical_tendency c (sigma_dot_full c x) (n_temp x) n).
    { apply vertical_tendency_scal; [intros r; apply sigma_dot_full_homogeneous | intros r; reflexivity]. }
    assert (B : vertical_tendency scale_cfg_c (sigma_dot_explicit scale_cfg_c (scale_ncol x)) (cTref scale_cfg_c) n
                = kr * kT * vertical_tendency c (sigma_dot_explicit c x) (cTref c) n).
    { apply vertical_tendency_scal; [intros r; apply sigma_dot_explicit_homogeneous | intros r; reflexivity]. }
    destruct va, (tref_nonuniform c); rewrite ?A, ?B; ring.
  Qed.

  (** full nodal right-hand side of the temperature equation (dry), Theta / T *)
  Theorem temp_nodal_total_homogeneous va x n :
    temp_nodal_total scale_cfg_c va (scale_ncol x) n = kT * kr * temp_nodal_total c va x n.
  Proof.
    unfold temp_nodal_total.
    change (n_temp (scale_ncol x)) with (scol kT (n_temp x)).
    rewrite (proj1 (hsa_homogeneous kT x (n_temp x) n)).
    change (scol kT (n_temp x)) with (n_temp (scale_ncol x)).
    rewrite temp_vertical_tendency_homogeneous, temp_adiabatic_homogeneous. ring.
  Qed.

  (** tracers (dimension [a], e.g. dimensionless specific humidity): a / T *)
  Theorem tracer_nodal_total_homogeneous a va x (s : nat -> F) n :
    tracer_nodal_total scale_cfg_c va (scale_ncol x) (scol a s) n = a * kr * tracer_nodal_total c va x s n.
  Proof.
    unfold tracer_nodal_total. rewrite (proj1 (hsa_homogeneous a x s n)).
    destruct va.
    - rewrite (vertical_tendency_scal kr a (sigma_dot_full c x) _ s _ n)
        by (intros r; first [apply sigma_dot_full_homogeneous | reflexivity]). ring.
    - ring.
  Qed.

  (** dimensionless tracers (specific humidity, cloud water, cloud ice): 1 / T *)
  Theorem tracer_nodal_total_dimensionless va x (s : nat -> F) n :
    tracer_nodal_total scale_cfg_c va (scale_ncol x) s n = kr * tracer_nodal_total c va x s n.
  Proof.
    unfold tracer_nodal_total.
    assert (A : hsa_nodal (scale_ncol x) s n = kr * hsa_nodal x s n).
    { unfold hsa_nodal, Scaling.scale_ncol, scol; cbn. ring. }
    rewrite A. destruct va.
    - rewrite (vertical_tendency_scal kr 1 (sigma_dot_full c x) _ s s n)
        by (intros r; first [apply sigma_dot_full_homogeneous | ring]). ring.
    - ring.
  Qed.

  (** *** moist classes: R_vapor and Cp_vapor scale like R; q, cloud water and ice are dimensionless *)
  Hypothesis kR_nz : kR <> 0.
  Hypothesis R_nz : cR c <> 0.
  Variable m : @Moist F.
  Notation scale_moist_m := (scale_moist kR m).

  Lemma gas_ratio_invariant : mRv scale_moist_m / cR scale_cfg_c = mRv m / cR c.
  Proof. cbn [scale_moist Scaling.scale_cfg mRv cR]. field. split; assumption. Qed.

  Lemma heat_ratio_invariant :
    ckappa c <> 0 ->
    mCpv scale_moist_m / (cR scale_cfg_c / ckappa scale_cfg_c) = mCpv m / (cR c / ckappa c).
  Proof. intros Hk. cbn [scale_moist Scaling.scale_cfg mCpv cR ckappa]. field. repeat split; assumption. Qed.

  Lemma moisture_contribution_invariant q k :
    moisture_contribution scale_cfg_c scale_moist_m q k = moisture_contribution c m q k.
  Proof. unfold moisture_contribution. now rewrite gas_ratio_invariant. Qed.

  Theorem rt_homogeneous x q qc qi k :
    rt_dry scale_cfg_c (scale_ncol x) k = kR * kT * rt_dry c x k /\
    rt_moist scale_cfg_c scale_moist_m (scale_ncol x) q k = kR * kT * rt_moist c m x q k /\
    rt_cloud scale_cfg_c scale_moist_m (scale_ncol x) q qc qi k = kR * kT * rt_cloud c m x q qc qi k.
  Proof.
    unfold rt_dry, rt_moist, rt_cloud. rewrite !moisture_contribution_invariant.
    unfold Scaling.scale_ncol, Scaling.scale_cfg, scol; cbn [n_temp cR]. repeat split; ring.
  Qed.

  (** momentum term of the moist and cloud classes, L / T^2 *)
  Theorem combined_uv_moist_homogeneous va x q qc qi k :
    (combined_u scale_cfg_c va (scale_ncol x) (rt_moist scale_cfg_c scale_moist_m (scale_ncol x) q) k
       = ku * kr * combined_u c va x (rt_moist c m x q) k /\
     combined_v scale_cfg_c va (scale_ncol x) (rt_moist scale_cfg_c scale_moist_m (scale_ncol x) q) k
       = ku * kr * combined_v c va x (rt_moist c m x q) k) /\
    (combined_u scale_cfg_c va (scale_ncol x) (rt_cloud scale_cfg_c scale_moist_m (scale_ncol x) q qc qi) k
       = ku * kr * combined_u c va x (rt_cloud c m x q qc qi) k /\
     combined_v scale_cfg_c va (scale_ncol x) (rt_cloud scale_cfg_c scale_moist_m (scale_ncol x) q qc qi) k
       = ku * kr * combined_v c va x (rt_cloud c m x q qc qi) k).
  Proof.
    split; apply combined_uv_scal; intros j.
    - apply (proj1 (proj2 (rt_homogeneous x q qc qi j))).
    - apply (proj2 (proj2 (rt_homogeneous x q qc qi j))).
  Qed.

  (** adiabatic temperature term of the moist classes, Theta / T *)
  Theorem temp_adiabatic_moist_homogeneous x q n :
    ckappa c <> 0 ->
    temp_adiabatic_moist scale_cfg_c scale_moist_m (scale_ncol x) q n
      = kT * kr * temp_adiabatic_moist c m x q n.
  Proof.
    intros Hk. unfold temp_adiabatic_moist. cbv zeta.
    rewrite gas_ratio_invariant, (heat_ratio_invariant Hk).
    rewrite (t_omega_scal kr (cTref c) _ (g_explicit x) _ (u_dot_grad x)).
    2:{ intros k. reflexivity. }
    2,3: intros k; unfold g_explicit; apply u_dot_grad_homogeneous.
    match goal with |- context [t_omega_over_sigma_sp scale_cfg_c ?Tf' _ _ n] =>
      rewrite (t_omega_scal kr
                 (fun k => n_temp x k * ((1 + (mRv m / cR c - 1) * q k) / (1 + (mCpv m / (cR c / ckappa c) - 1) * q k))
                           + cTref c k * (((mRv m / cR c - mCpv m / (cR c / ckappa c)) * q k) / (1 + (mCpv m / (cR c / ckappa c) - 1) * q k)))
                 Tf' (g_full_adiabatic x) _ (u_dot_grad x)) end.
    2:{ intros k. unfold Scaling.scale_ncol, Scaling.scale_cfg, scol; cbn [n_temp cTref]. ring. }
    2:{ intros k. unfold g_full_adiabatic. rewrite u_dot_grad_homogeneous. unfold Scaling.scale_ncol, scol; cbn. ring. }
    2:{ intros k. apply u_dot_grad_homogeneous. }
    cbn [Scaling.scale_cfg ckappa]. ring.
  Qed.

  Theorem temp_nodal_total_moist_homogeneous va x q n :
    ckappa c <> 0 ->
    temp_nodal_total_moist scale_cfg_c va scale_moist_m (scale_ncol x) q n
      = kT * kr * temp_nodal_total_moist c va m x q n.
  Proof.
    intros Hk. unfold temp_nodal_total_moist.
    change (n_temp (scale_ncol x)) with (scol kT (n_temp x)).
    rewrite (proj1 (hsa_homogeneous kT x (n_temp x) n)).
    change (scol kT (n_temp x)) with (n_temp (scale_ncol x)).
    rewrite temp_vertical_tendency_homogeneous, (temp_adiabatic_moist_homogeneous x q n Hk). ring.
  Qed.

  (** explicit humidity corrections of the divergence and vorticity equations:
      grad q and grad ln ps in 1/L, laplacian(ln ps) in 1/L^2; results in 1/T^2
      (nodal terms) and L^2/T^2 (geopotential of the virtual-temperature excess) *)
  Theorem humidity_terms_homogeneous sparse x (q gqx gqy : nat -> F) lap k :
    (k < cK c)%nat ->
    humidity_div_nodal scale_cfg_c scale_moist_m (scale_ncol x) q (scol kg gqx) (scol kg gqy) (kg * kg * lap) k
      = kT * kR * (kg * kg) * humidity_div_nodal c m x q gqx gqy lap k /\
    humidity_curl_nodal scale_cfg_c scale_moist_m (scale_ncol x) (scol kg gqx) (scol kg gqy) k
      = kT * kR * (kg * kg) * humidity_curl_nodal c m x gqx gqy k /\
    humidity_geo_nodal scale_cfg_c sparse scale_moist_m (scale_ncol x) q k
      = kR * kT * humidity_geo_nodal c sparse m x q k.
  Proof.
    intros Hk. split; [|split].
    - unfold humidity_div_nodal, Scaling.scale_ncol, Scaling.scale_cfg, scale_moist, scol;
        cbn [n_gx n_gy n_sec2 cTref cR mRv]. ring.
    - unfold humidity_curl_nodal, Scaling.scale_ncol, Scaling.scale_cfg, scale_moist, scol;
        cbn [n_gx n_gy n_sec2 cTref cR mRv]. ring.
    - unfold humidity_geo_nodal, geo_diff. cbn [Scaling.scale_cfg cK cR cls].
      assert (E : forall j, humidity_temperature_diff scale_cfg_c scale_moist_m (scale_ncol x) q j
                            = scol kT (humidity_temperature_diff c m x q) j).
      { intros j. unfold humidity_temperature_diff. rewrite gas_ratio_invariant.
        unfold Scaling.scale_ncol, Scaling.scale_cfg, scol; cbn [n_temp cTref]. ring. }
      destruct sparse.
      + rewrite !(geo_sparse_eq_dense _ _ _ _ k Hk).
        rewrite <- geo_diff_dense_homogeneous. unfold geo_diff_dense. apply sumn_ext. intros j _. now rewrite E.
      + rewrite <- geo_diff_dense_homogeneous. unfold geo_diff_dense. apply sumn_ext. intros j _. now rewrite E.
  Qed.
End NodalTerms.

(** ** Held-Suarez forcing (Model/Forcings.v): rates in 1/T, temperatures in
    Theta, sigma_b / sigma / cos / sin / (p/p0)^kappa / log(p/p0) dimensionless.
    The maximum with minT needs an ordered field and a POSITIVE temperature
    scale; p/p0 itself is scale-invariant (the transcendental functions are
    applied to an invariant argument, see also [p_over_p0_invariant]). *)
From Dino Require Import Base.Ord Model.Forcings.

Section HeldSuarezCov.
  Context {F : Type} {o : Ops F} {Oc : OrdFieldC o}.
  Add Field FFsc6 : (field_c : FieldTh o).
  Variables (kp kr kT ku : F).
  Variable P : HSParams F.
  Notation P' := (scale_hs kp kr kT P).

  Lemma fleb_scal_pos k a b : flt 0 k -> fleb (k * a) (k * b) = fleb a b.
  Proof.
    intros Hk. destruct (fleb a b) eqn:E.
    - change (fle (k * a) (k * b)). apply fle_mul_l; [apply flt_le; exact Hk | exact E].
    - change (flt (k * b) (k * a)). apply (proj2 (flt_sub (k * b) (k * a))).
      replace (k * a - k * b) with (k * (a - b)) by ring.
      apply fmul_pos_pos; [exact Hk|]. apply (proj1 (flt_sub b a)). exact E.
  Qed.

  Lemma fmax_scal_pos k a b : flt 0 k -> fmax (k * a) (k * b) = k * fmax a b.
  Proof. intros Hk. unfold fmax. rewrite (fleb_scal_pos k a b Hk). destruct (fleb a b); reflexivity. Qed.

  Theorem hs_rates_homogeneous sigma cl :
    hs_kv P' sigma = kr * hs_kv P sigma /\ hs_kt P' sigma cl = kr * hs_kt P sigma cl.
  Proof. unfold hs_kv, hs_kt, scale_hs; cbn. split; ring. Qed.

  (** p / p0 is invariant: surface pressure and p0 carry the same factor *)
  Theorem hs_p_over_p0_invariant sigma ps :
    kp <> 0 -> hp_p0 P <> 0 -> hs_p_over_p0 P' sigma (kp * ps) = hs_p_over_p0 P sigma ps.
  Proof. intros H1 H2. unfold hs_p_over_p0, scale_hs; cbn. field. split; assumption. Qed.

  Theorem hs_teq_homogeneous pk logp cl sl :
    flt 0 kT ->
    hs_teq_unbounded P' pk logp cl sl = kT * hs_teq_unbounded P pk logp cl sl /\
    hs_teq P' pk logp cl sl = kT * hs_teq P pk logp cl sl.
  Proof.
    intros HT.
    assert (A : hs_teq_unbounded P' pk logp cl sl = kT * hs_teq_unbounded P pk logp cl sl).
    { unfold hs_teq_unbounded, scale_hs; cbn. ring. }
    split; [exact A|]. unfold hs_teq. rewrite A. cbn [scale_hs hp_minT]. now apply fmax_scal_pos.
  Qed.

  (** nodal tendencies: Rayleigh friction on cos_lat_u (L/T^2) and Newtonian relaxation (Theta/T) *)
  Theorem hs_nodal_tendencies_homogeneous kv cu cl kt tref tvar teq :
    hs_nodal_velocity_tendency (kr * kv) (ku * cu) cl = kr * ku * hs_nodal_velocity_tendency kv cu cl /\
    hs_nodal_temperature_tendency (kr * kt) (kT * tref) (kT * tvar) (kT * teq)
      = kr * kT * hs_nodal_temperature_tendency kt tref tvar teq.
  Proof.
    unfold hs_nodal_velocity_tendency, hs_nodal_temperature_tendency. split.
    - rewrite !(Fdiv_def field_c). ring.
    - ring.
  Qed.

  (** whole nodal temperature forcing at one point, from invariant pk/logp *)
  Theorem hs_temperature_forcing_homogeneous sigma cl sl pk logp tref tvar :
    flt 0 kT ->
    hs_nodal_temperature_tendency (hs_kt P' sigma cl) (kT * tref) (kT * tvar) (hs_teq P' pk logp cl sl)
      = kr * kT * hs_nodal_temperature_tendency (hs_kt P sigma cl) tref tvar (hs_teq P pk logp cl sl).
  Proof.
    intros HT. rewrite (proj2 (hs_rates_homogeneous sigma cl)), (proj2 (hs_teq_homogeneous pk logp cl sl HT)).
    exact (proj2 (hs_nodal_tendencies_homogeneous 0 0 cl _ _ _ _)).
  Qed.

  (** the power law and the logarithm are applied to the scale-invariant p/p0:
      covariance of the complete equilibrium temperature for EVERY pair of
      functions [pw], [lg] (nothing at all is assumed about them) *)
  Theorem hs_teq_of_ps_covariant (pw lg : F -> F) sigma ps cl sl :
    flt 0 kT -> kp <> 0 -> hp_p0 P <> 0 ->
    hs_teq_of_ps pw lg P' sigma (kp * ps) cl sl = kT * hs_teq_of_ps pw lg P sigma ps cl sl.
  Proof.
    intros HT Hk Hp. unfold hs_teq_of_ps. rewrite (hs_p_over_p0_invariant sigma ps Hk Hp).
    apply hs_teq_homogeneous. exact HT.
  Qed.
End HeldSuarezCov.

(** positive scales have positive factors (ordered fields) *)
Section PositiveScales.
  Context {F : Type} {o : Ops F} {Oc : OrdFieldC o}.
  Add Field FFsc7 : (field_c : FieldTh o).

  Lemma npow_pos x k : flt 0 x -> flt 0 (npow x k).
  Proof.
    intros Hx. induction k as [|k IH]; cbn [npow]; [exact flt_0_1 | now apply fmul_pos_pos].
  Qed.
  Lemma zpow_pos x z : flt 0 x -> flt 0 (zpow x z).
  Proof.
    intros Hx. destruct z; cbn [zpow].
    - exact flt_0_1.
    - now apply npow_pos.
    - apply finv_pos. now apply npow_pos.
  Qed.
  Definition scale_positive (s : @scale F) : Prop := flt 0 (sL s) /\ flt 0 (sT s) /\ flt 0 (sM s) /\ flt 0 (sK s).
  Lemma scale_positive_nz s : scale_positive s -> scale_nz s.
  Proof. intros (A & B & C & D). repeat split; now apply fpos_neq0. Qed.
  Theorem factor_pos s d : scale_positive s -> flt 0 (factor s d).
  Proof.
    intros (A & B & C & D). unfold factor. repeat apply fmul_pos_pos; now apply zpow_pos.
  Qed.
  Lemma sinv_positive s : scale_positive s -> scale_positive (Scaling.sinv s).
  Proof. intros (A & B & C & D). unfold scale_positive, Scaling.sinv; cbn. repeat split; now apply finv_pos. Qed.

  Lemma nondim_as_factor s d x : scale_nz s -> nondim s d x = factor (Scaling.sinv s) d * x.
  Proof.
    intros Hs. unfold nondim. rewrite factor_sinv by exact Hs. field. now apply factor_nonzero.
  Qed.

  Lemma nondim_hs_as_scale_hs s P :
    scale_nz s ->
    nondim_hs s P = scale_hs (factor (Scaling.sinv s) d_pressure) (factor (Scaling.sinv s) d_rate) (factor (Scaling.sinv s) d_temp) P.
  Proof.
    intros Hs. unfold nondim_hs, scale_hs. now rewrite !(nondim_as_factor s _ _ Hs).
  Qed.

  (** Held-Suarez with non-dimensionalised inputs = non-dimensionalisation of
      the SI values, for every positive scale and every [pw], [lg] *)
  Theorem hs_nondim_commutes (pw lg : F -> F) s P sigma ps cl sl :
    scale_positive s -> hp_p0 P <> 0 ->
    hs_kv (nondim_hs s P) sigma = nondim s d_rate (hs_kv P sigma) /\
    hs_kt (nondim_hs s P) sigma cl = nondim s d_rate (hs_kt P sigma cl) /\
    hs_p_over_p0 (nondim_hs s P) sigma (nondim s d_pressure ps) = hs_p_over_p0 P sigma ps /\
    hs_teq_of_ps pw lg (nondim_hs s P) sigma (nondim s d_pressure ps) cl sl
      = nondim s d_temp (hs_teq_of_ps pw lg P sigma ps cl sl).
  Proof.
    intros Hpos Hp0. pose proof (scale_positive_nz s Hpos) as Hs.
    pose proof (sinv_nz s Hs) as Hsi.
    rewrite (nondim_hs_as_scale_hs s P Hs), !(nondim_as_factor s _ _ Hs).
    destruct (hs_rates_homogeneous (factor (Scaling.sinv s) d_pressure) (factor (Scaling.sinv s) d_rate) (factor (Scaling.sinv s) d_temp) P sigma cl) as [R1 R2].
    split; [exact R1|]. split; [exact R2|]. split.
    - apply hs_p_over_p0_invariant; [now apply factor_nonzero | exact Hp0].
    - apply hs_teq_of_ps_covariant; [apply factor_pos; now apply sinv_positive | now apply factor_nonzero | exact Hp0].
  Qed.
End PositiveScales.

