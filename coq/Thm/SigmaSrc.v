(** The hand-written sigma model (Model/Sigma.v) equals the transcription of
    dinosaur/sigma_coordinates.py regenerated on every run (Gen/SigmaSrc.v,
    tools/translate/gen_sigma.py) in the array DSL of Model/ArrDSL.v.  A changed
    slice bound / coefficient / padding / branch in the source changes the
    right-hand sides and these proofs fail. *)
From Dino Require Import Base.Ops Base.Sums Base.Ord Model.Sigma Thm.Sigma Model.ArrDSL Gen.SigmaSrc.
Local Open Scope F_scope.

(** merge all index terms of the function [f] that are equal by linear arithmetic *)
Ltac idx_eq f := repeat match goal with
  | |- context [f ?i] => match goal with
      | |- context [f ?j] => lazymatch i with j => fail | _ => idtac end;
           let E := fresh "E" in assert (E : i = j) by lia; rewrite E; clear E end end.

(** case analysis on every remaining index test, pruning impossible cases at once *)
Ltac brk := repeat (match goal with
  | |- context [Nat.ltb ?a ?b] => destruct (Nat.ltb_spec a b)
  | |- context [Nat.eqb ?a ?b] => destruct (Nat.eqb_spec a b) end; try lia).

Ltac dsl := cbv [internal_boundaries_src centers_src layer_thickness_src center_to_center_src layers_src
                 centered_difference_src cumulative_sigma_integral_src sigma_integral_src
                 cumulative_log_sigma_integral_src centered_vertical_advection_src upwind_vertical_advection_src
                 a_slice a_get norm_bound a_const a_concat a_concatl a_pad_front a_diff a_map a_map2 a_scale
                 a_cumsum a_revcumsum a_sum a_mapb a_all bv_or fold_right];
           cbn [fst snd].

Section DSLLemmas.
  Context {F : Type} {o : Ops F} {Fc : FieldC o}.
  Add Field FFdsl : (field_c : FieldTh o).
  Local Notation arr := (arr F).

  (** index / length of the DSL combinators *)
  Lemma a_slice_len lo hi (a : arr) :
    fst (a_slice lo hi a) = (norm_bound (fst a) (fst a) hi - norm_bound (fst a) 0 lo)%nat.
  Proof. reflexivity. Qed.
  Lemma a_slice_idx lo hi (a : arr) k : snd (a_slice lo hi a) k = snd a (norm_bound (fst a) 0 lo + k)%nat.
  Proof. reflexivity. Qed.
  Lemma a_concat_len (a c : arr) : fst (a_concat a c) = (fst a + fst c)%nat.
  Proof. reflexivity. Qed.
  Lemma a_concat_idx_l (a c : arr) k : (k < fst a)%nat -> snd (a_concat a c) k = snd a k.
  Proof. intros H. unfold a_concat; cbn [fst snd]. destruct (Nat.ltb_spec k (fst a)); [reflexivity|lia]. Qed.
  Lemma a_concat_idx_r (a c : arr) k : (fst a <= k)%nat -> snd (a_concat a c) k = snd c (k - fst a)%nat.
  Proof. intros H. unfold a_concat; cbn [fst snd]. destruct (Nat.ltb_spec k (fst a)); [lia|reflexivity]. Qed.
  Lemma a_diff_len (a : arr) : fst (a_diff a) = (fst a - 1)%nat.
  Proof. reflexivity. Qed.
  Lemma a_diff_idx (a : arr) k : snd (a_diff a) k = snd a (S k) - snd a k.
  Proof. reflexivity. Qed.
  Lemma a_diff_append_last (a : arr) v : (0 < fst a)%nat ->
    snd (a_diff (a_concatl [a; a_const 1 v])) (fst a - 1)%nat = v - snd a (fst a - 1)%nat.
  Proof.
    intros H. dsl. brk. replace (S (fst a - 1) - fst a)%nat with 0%nat by lia. reflexivity.
  Qed.

  Lemma a_nat_1 : @a_nat F o 1 = 1. Proof. cbn. ring. Qed.
  Lemma a_nat_2 : @a_nat F o 2 = two. Proof. cbn. unfold two. ring. Qed.

  (** the cumulative sums only look at the first K entries *)
  Lemma cumsum_m_ext dot K (f g : nat -> F) j :
    (forall i, (i < K)%nat -> f i = g i) -> (j < K)%nat -> cumsum_m dot K f j = cumsum_m dot K g j.
  Proof.
    intros H Hj. destruct dot; cbn [cumsum_m]; [unfold cumsum_dot|unfold cumsum_seq]; apply sumn_ext; intros i Hi.
    - rewrite H by lia. reflexivity.
    - apply H. lia.
  Qed.
  Lemma revcumsum_m_ext dot K (f g : nat -> F) j :
    (forall i, (i < K)%nat -> f i = g i) -> (j < K)%nat -> revcumsum_m dot K f j = revcumsum_m dot K g j.
  Proof.
    intros H Hj. destruct dot; cbn [revcumsum_m]; [unfold revcumsum_dot|unfold revcumsum_seq]; apply sumn_ext; intros i Hi.
    - rewrite H by lia. reflexivity.
    - apply H. lia.
  Qed.
  Lemma cumsum_m_ext2 dot N K (f g : nat -> F) j :
    N = K -> (j < K)%nat -> (forall i, (i < K)%nat -> f i = g i) -> cumsum_m dot N f j = cumsum_m dot K g j.
  Proof. intros -> Hj H. now apply cumsum_m_ext. Qed.
  Lemma revcumsum_m_ext2 dot N K (f g : nat -> F) j :
    N = K -> (j < K)%nat -> (forall i, (i < K)%nat -> f i = g i) -> revcumsum_m dot N f j = revcumsum_m dot K g j.
  Proof. intros -> Hj H. now apply revcumsum_m_ext. Qed.
  Lemma sumn_ext2 N K (f g : nat -> F) :
    N = K -> (forall i, (i < K)%nat -> f i = g i) -> sumn N f = sumn K g.
  Proof. intros -> H. now apply sumn_ext. Qed.
End DSLLemmas.

Section SigmaSrcThm.
  Context {F : Type} {o : Ops F} {Fc : FieldC o}.
  Add Field FFsig : (field_c : FieldTh o).
  Local Notation arr := (arr F).
  Variables (K : nat) (bf xf wf : nat -> F).
  Let b : arr := (S K, bf).
  Let x : arr := (K, xf).
  Let w : arr := ((K - 1)%nat, wf).

  Ltac fin := rewrite ?a_nat_2, ?a_nat_1; first [reflexivity | ring].

  (** SigmaCoordinates properties *)
  Lemma internal_boundaries_matches :
    fst (internal_boundaries_src b) = (K - 1)%nat /\
    forall k, (k < K - 1)%nat -> snd (internal_boundaries_src b) k = bf (S k).
  Proof. subst b. split; [dsl; lia|]. intros k Hk. dsl. idx_eq bf. f_equal; lia. Qed.

  Ltac mdl := unfold cum_sigma_integral, sigma_integral, cum_log_sigma_integral, xdsigma, log_integrand, dlog,
                centered_vertical_advection, upwind_vertical_advection, pad_tb, centered_difference, c2c, centers,
                thickness, half; cbv zeta.
  Ltac pw := dsl; mdl; brk; idx_eq bf; idx_eq xf; idx_eq wf; fin.

  Lemma centers_matches :
    fst (centers_src b) = K /\ forall k, (k < K)%nat -> snd (centers_src b) k = centers bf k.
  Proof. subst b. split; [dsl; lia|]. intros k Hk. pw. Qed.

  Lemma layer_thickness_matches :
    fst (layer_thickness_src b) = K /\ forall k, (k < K)%nat -> snd (layer_thickness_src b) k = thickness bf k.
  Proof. subst b. split; [dsl; lia|]. intros k Hk. pw. Qed.

  Lemma center_to_center_matches :
    fst (center_to_center_src b) = (K - 1)%nat /\
    forall k, (k < K - 1)%nat -> snd (center_to_center_src b) k = c2c bf k.
  Proof. subst b. split; [dsl; lia|]. intros k Hk. pw. Qed.

  Lemma layers_matches : layers_src b = K.
  Proof. subst b. dsl. lia. Qed.

  (** shape guards: accepted iff the column has as many entries as there are layers *)
  Lemma guards_match (y : arr) :
    centered_difference_accepts_src y b = Nat.eqb K (fst y) /\
    cumulative_sigma_integral_accepts_src y b = Nat.eqb K (fst y) /\
    sigma_integral_accepts_src y b = Nat.eqb K (fst y) /\
    cumulative_log_sigma_integral_accepts_src y b = Nat.eqb K (fst y).
  Proof.
    unfold centered_difference_accepts_src, cumulative_sigma_integral_accepts_src, sigma_integral_accepts_src,
      cumulative_log_sigma_integral_accepts_src. rewrite layers_matches, !Bool.negb_involutive. auto.
  Qed.

  Lemma centered_difference_matches :
    fst (centered_difference_src x b) = (K - 1)%nat /\
    forall k, (k < K - 1)%nat -> snd (centered_difference_src x b) k = centered_difference bf xf k.
  Proof. subst b x. split; [dsl; lia|]. intros k Hk. pw. Qed.

  Lemma cumulative_sigma_integral_matches dot downward :
    fst (cumulative_sigma_integral_src dot downward x b) = K /\
    forall j, (j < K)%nat ->
      snd (cumulative_sigma_integral_src dot downward x b) j = cum_sigma_integral dot downward K bf xf j.
  Proof.
    subst b x. split; [destruct downward; dsl; lia|]. intros j Hj.
    destruct downward; dsl; unfold cum_sigma_integral;
      [apply cumsum_m_ext2|apply revcumsum_m_ext2]; try lia; intros i Hi; pw.
  Qed.

  Lemma sigma_integral_matches : sigma_integral_src x b = sigma_integral K bf xf.
  Proof. subst b x. dsl. unfold sigma_integral. apply sumn_ext2; [lia|]. intros i Hi. pw. Qed.

  (** centered_vertical_advection: default (None) and explicit boundary values *)
  Lemma centered_vertical_advection_matches (wbv dbv : option (F * F)) :
    (0 < K)%nat ->
    fst (centered_vertical_advection_src w x b wbv dbv) = K /\
    forall n, (n < K)%nat ->
      snd (centered_vertical_advection_src w x b wbv dbv) n
      = centered_vertical_advection K bf wf xf (fst (bv_or wbv (0, 0))) (snd (bv_or wbv (0, 0)))
                                    (fst (bv_or dbv (0, 0))) (snd (bv_or dbv (0, 0))) n.
  Proof.
    intros HK. subst b x w.
    destruct wbv as [[wt wb]|], dbv as [[dt db]|]; (split; [dsl; lia|]); intros n Hn; pw.
  Qed.

  Lemma upwind_vertical_advection_matches :
    (0 < K)%nat ->
    fst (upwind_vertical_advection_src w x b) = K /\
    forall n, (n < K)%nat ->
      snd (upwind_vertical_advection_src w x b) n = upwind_vertical_advection K bf wf xf n.
  Proof. intros HK. subst b x w. split; [dsl; lia|]. intros n Hn. pw. Qed.

  (** cumulative_log_sigma_integral: [ls] is the table log(centers) *)
  Lemma cumulative_log_sigma_integral_matches (flog : F -> F) (ls : nat -> F) dot downward :
    (forall k, (k < K)%nat -> flog (centers bf k) = ls k) ->
    fst (cumulative_log_sigma_integral_src flog dot downward x b) = K /\
    forall j, (j < K)%nat ->
      snd (cumulative_log_sigma_integral_src flog dot downward x b) j
      = cum_log_sigma_integral dot downward K ls xf j.
  Proof.
    intros Hls. subst b x. split; [destruct downward; dsl; lia|]. intros j Hj.
    destruct downward; dsl; unfold cum_log_sigma_integral; cbv zeta;
      [apply cumsum_m_ext2|apply revcumsum_m_ext2]; try lia; intros i Hi;
      dsl; mdl; brk; rewrite <- ?Hls by lia; unfold centers; idx_eq bf; idx_eq xf; fin.
  Qed.
End SigmaSrcThm.

(** the two validity tests of SigmaCoordinates.__init__ over an abstract [isclose] whose two uses
    (targets 0 and 1) are the tolerance tests of the model *)
Section InitSrc.
  Context {F : Type} {o : Ops F} {Oc : OrdFieldC o}.
  Add Field FFinit : (field_c : FieldTh o).

  Lemma fltb_sub (u v : F) : fltb 0 (v - u) = fltb u v.
  Proof. apply eq_true_iff_eq. rewrite !fltb_true. symmetry. apply flt_sub. Qed.

  Lemma all_upto_increasing n (bf : nat -> F) :
    all_upto n (fun k => fltb 0 (bf (S k) - bf k)) = all_increasing n bf.
  Proof. induction n as [|n IH]; cbn; [reflexivity|]. now rewrite IH, fltb_sub. Qed.

  Lemma init_accepts_matches (isclose : F -> F -> bool) (tol0 tol1 : F) K (bf : nat -> F) :
    (forall a, isclose a 0 = fleb (fabs a) tol0) ->
    (forall a, isclose a 1 = fleb (fabs (a - 1)) tol1) ->
    init_accepts_src isclose (S K, bf) = sigma_accepts tol0 tol1 K bf.
  Proof.
    intros H0 H1. unfold init_accepts_src, sigma_accepts. dsl. rewrite !Bool.negb_involutive, H0, H1.
    replace (S K - 1)%nat with K by lia. rewrite all_upto_increasing.
    replace (Nat.min (S K) 0) with 0%nat by lia. reflexivity.
  Qed.
End InitSrc.
