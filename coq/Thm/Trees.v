(** Proofs about Model/Trees.v: nested-dictionary flatten/unflatten round trips,
    pytree packing utilities, spectral prefix slicing / zero padding. *)
From Coq Require Import ZArith List Bool Lia Permutation.
Import ListNotations.
From Dino Require Import Model.Trees.

(** * strings and dictionaries *)
Lemma str_eqb_eq a b : str_eqb a b = true <-> a = b.
Proof.
  revert b; induction a as [|x a IH]; intros [|y b]; cbn; split; intro H; try easy.
  - apply andb_true_iff in H as [H1 H2]. apply Z.eqb_eq in H1. apply IH in H2. now subst.
  - injection H as -> ->. rewrite Z.eqb_refl. cbn. now apply IH.
Qed.
Lemma str_eqb_refl a : str_eqb a a = true.
Proof. now apply str_eqb_eq. Qed.
Lemma str_eqb_neq a b : str_eqb a b = false <-> a <> b.
Proof.
  split; intro H.
  - intro E. apply str_eqb_eq in E. congruence.
  - destruct (str_eqb a b) eqn:E; [apply str_eqb_eq in E; contradiction|reflexivity].
Qed.
Lemma str_eqb_sym a b : str_eqb a b = str_eqb b a.
Proof.
  destruct (str_eqb a b) eqn:E.
  - apply str_eqb_eq in E; subst. now rewrite str_eqb_refl.
  - symmetry. apply str_eqb_neq. apply str_eqb_neq in E. congruence.
Qed.
Lemma str_eq_dec (a b : str) : {a = b} + {a <> b}.
Proof. destruct (str_eqb a b) eqn:E; [left; now apply str_eqb_eq|right; now apply str_eqb_neq]. Qed.

Section DictLemmas.
  Context {V : Type}.
  Implicit Types d : list (str * V).

  Lemma dget_dset_same k v d : dget k (dset k v d) = Some v.
  Proof.
    induction d as [|[k' v'] d IH]; cbn.
    - now rewrite str_eqb_refl.
    - destruct (str_eqb k k') eqn:E; cbn; rewrite E; auto.
  Qed.
  Lemma dget_dset_other k k' v d : k' <> k -> dget k' (dset k v d) = dget k' d.
  Proof.
    intro N. induction d as [|[k2 v2] d IH]; cbn.
    - apply str_eqb_neq in N. now rewrite N.
    - destruct (str_eqb k k2) eqn:E; cbn.
      + apply str_eqb_eq in E; subst k2. apply str_eqb_neq in N. now rewrite N.
      + destruct (str_eqb k' k2); auto.
  Qed.
  Lemma dget_In k v d : dget k d = Some v -> In (k, v) d.
  Proof.
    induction d as [|[k' v'] d IH]; cbn; [easy|].
    destruct (str_eqb k k') eqn:E.
    - apply str_eqb_eq in E. intros [= ->]. subst. now left.
    - intro H. right. auto.
  Qed.
  Lemma dget_None k d : dget k d = None -> ~ In k (map fst d).
  Proof.
    induction d as [|[k' v'] d IH]; cbn; [easy|].
    destruct (str_eqb k k') eqn:E; [easy|]. apply str_eqb_neq in E.
    intros H [A|A]; [congruence|]. now apply IH.
  Qed.
  Lemma In_dget k v d : NoDup (map fst d) -> In (k, v) d -> dget k d = Some v.
  Proof.
    induction d as [|[k' v'] d IH]; cbn; [easy|].
    intros ND [A|A].
    - injection A as -> ->. now rewrite str_eqb_refl.
    - inversion ND as [|? ? N1 N2]; subst.
      destruct (str_eqb k k') eqn:E.
      + apply str_eqb_eq in E; subst. exfalso. apply N1. apply in_map_iff. now exists (k', v).
      + auto.
  Qed.
  Lemma dset_notin k v d : ~ In k (map fst d) -> dset k v d = d ++ [(k, v)].
  Proof.
    induction d as [|[k' v'] d IH]; cbn; [easy|].
    intro N. destruct (str_eqb k k') eqn:E.
    - apply str_eqb_eq in E. subst. exfalso. apply N. now left.
    - f_equal. apply IH. tauto.
  Qed.
  (** merging fresh, pairwise distinct keys appends them *)
  Lemma dmerge_fresh (b a : list (str * V)) :
    NoDup (map fst b) -> (forall k, In k (map fst b) -> ~ In k (map fst a)) ->
    dmerge a b = a ++ b.
  Proof.
    unfold dmerge. revert a. induction b as [|[k v] b IH]; intros a ND Hd; cbn.
    - now rewrite app_nil_r.
    - inversion ND as [|? ? N1 N2]; subst.
      rewrite dset_notin by (apply Hd; now left).
      rewrite IH; auto.
      + now rewrite <- app_assoc.
      + intros k' Hk'. rewrite map_app, in_app_iff. cbn. intros [A|[A|[]]].
        * eapply Hd; [right; exact Hk'|exact A].
        * subst. contradiction.
  Qed.
  Lemma dict_of_nodup (b : list (str * V)) : NoDup (map fst b) -> dict_of b = b.
  Proof. intro ND. unfold dict_of. rewrite dmerge_fresh; auto. Qed.
End DictLemmas.

Lemma has_dup_false l : has_dup l = false <-> NoDup l.
Proof.
  induction l as [|x l IH]; cbn.
  - split; [constructor|reflexivity].
  - rewrite orb_false_iff, IH. split.
    + intros [H1 H2]. constructor; auto. intro HI.
      assert (existsb (str_eqb x) l = true); [|congruence].
      apply existsb_exists. exists x. split; auto. apply str_eqb_refl.
    + intro ND. inversion ND as [|? ? N1 N2]; subst. split; auto.
      destruct (existsb (str_eqb x) l) eqn:E; auto.
      apply existsb_exists in E as (y & Hy & Ey). apply str_eqb_eq in Ey. subst. contradiction.
Qed.

(** * split / join *)
Fixpoint join (sep : Z) (p : list str) : str :=
  match p with
  | [] => []
  | [k] => k
  | k :: r => k ++ sep :: join sep r
  end.

Lemma split_nosep sep k : contains sep k = false -> split sep k = [k].
Proof.
  induction k as [|c k IH]; cbn; [easy|].
  rewrite orb_false_iff. intros [H1 H2]. rewrite Z.eqb_sym, H1, IH; auto.
Qed.
Lemma split_app_sep sep k s : contains sep k = false -> split sep (k ++ sep :: s) = k :: split sep s.
Proof.
  induction k as [|c k IH]; cbn.
  - now rewrite Z.eqb_refl.
  - rewrite orb_false_iff. intros [H1 H2]. rewrite Z.eqb_sym, H1, IH; auto.
Qed.
Lemma split_join sep p :
  p <> [] -> Forall (fun k => contains sep k = false) p -> split sep (join sep p) = p.
Proof.
  induction p as [|k p IH]; [easy|]. intros _ Hp. inversion Hp as [|? ? H1 H2]; subst.
  destruct p as [|k2 p].
  - cbn. now apply split_nosep.
  - change (join sep (k :: k2 :: p)) with (k ++ sep :: join sep (k2 :: p)).
    rewrite split_app_sep by auto. f_equal. apply IH; [easy|auto].
Qed.
Lemma join_cons sep k p : p <> [] -> join sep (k :: p) = k ++ sep :: join sep p.
Proof. destruct p; [easy|reflexivity]. Qed.
Lemma split_nonnil sep s : split sep s <> [].
Proof. destruct s as [|c s]; cbn; [easy|]. destruct (Z.eqb c sep); [easy|]. now destruct (split sep s). Qed.
Lemma split_parts_nosep sep s : Forall (fun k => contains sep k = false) (split sep s).
Proof.
  induction s as [|c s IH]; cbn; [repeat constructor|].
  destruct (Z.eqb c sep) eqn:E.
  - constructor; auto.
  - destruct (split sep s) as [|h t]; [repeat constructor; cbn; now rewrite Z.eqb_sym, E|].
    inversion IH; subst. constructor; auto. cbn. rewrite Z.eqb_sym, E. auto.
Qed.
Lemma join_split sep s : join sep (split sep s) = s.
Proof.
  induction s as [|c s IH]; cbn; [reflexivity|].
  destruct (Z.eqb c sep) eqn:E.
  - apply Z.eqb_eq in E. subst c.
    rewrite join_cons by apply split_nonnil. now rewrite IH.
  - pose proof (split_nonnil sep s) as NN.
    destruct (split sep s) as [|h t]; [easy|].
    destruct t as [|h2 t]; cbn in *; now rewrite <- IH.
Qed.

(** * paths, views and [ins] *)
Inductive pcmp_t := PEq | PQ | PP | PInc.
(** [PQ]: q is a strict prefix of p; [PP]: p is a strict prefix of q *)
Fixpoint pcmp (q p : list str) : pcmp_t :=
  match q, p with
  | [], [] => PEq
  | [], _ :: _ => PQ
  | _ :: _, [] => PP
  | a :: q', b :: p' => if str_eqb a b then pcmp q' p' else PInc
  end.

Lemma pcmp_eq q p : pcmp q p = PEq <-> q = p.
Proof.
  revert p; induction q as [|a q IH]; intros [|b p]; cbn; try easy.
  destruct (str_eqb a b) eqn:E.
  - apply str_eqb_eq in E. subst. rewrite IH. split; [now intros ->|now intros [= ->]].
  - apply str_eqb_neq in E. split; [easy|]. intros [= -> ->]. contradiction.
Qed.
Lemma pcmp_refl q : pcmp q q = PEq.
Proof. now apply pcmp_eq. Qed.
Lemma pcmp_inc_sym q p : pcmp q p = PInc -> pcmp p q = PInc.
Proof.
  revert p; induction q as [|a q IH]; intros [|b p]; cbn; try easy.
  rewrite (str_eqb_sym b a). destruct (str_eqb a b); auto.
Qed.
Lemma pcmp_pp_pq q p : pcmp q p = PP <-> pcmp p q = PQ.
Proof.
  revert p; induction q as [|a q IH]; intros [|b p]; cbn; try easy.
  rewrite (str_eqb_sym b a). destruct (str_eqb a b); [apply IH|easy].
Qed.
(** p strict prefix of q, p incomparable with a: q incomparable with a *)
Lemma pcmp_trans_inc q p a : pcmp q p = PP -> pcmp p a = PInc -> pcmp q a = PInc.
Proof.
  revert p a; induction q as [|x q IH]; intros [|y p] [|z a]; cbn; try easy.
  destruct (str_eqb x y) eqn:E1; [|easy]. apply str_eqb_eq in E1; subst y.
  destruct (str_eqb x z); [apply IH|easy].
Qed.

Definition tv (val : tree) : option (option Z) :=
  match val with Leaf v => Some (Some v) | Node _ => Some None end.
Definition terminal (val : tree) : Prop := match val with Leaf _ => True | Node l => l = [] end.

Lemma view_nil t : view [] t = tv t.
Proof. now destruct t. Qed.
Lemma view_cons k q l : view (k :: q) (Node l) = match dget k l with Some c => view q c | None => None end.
Proof. unfold view. cbn. now destruct (dget k l). Qed.
Lemma view_cons_leaf k q v : view (k :: q) (Leaf v) = None.
Proof. reflexivity. Qed.
Lemma view_terminal k q val : terminal val -> view (k :: q) val = None.
Proof. destruct val as [v|l]; cbn; [reflexivity|]. intros ->. reflexivity. Qed.
Lemma pcmp_inc_nonnil q p : pcmp q p = PInc -> q <> [].
Proof. destruct q; [destruct p; easy|easy]. Qed.

Lemma ins_unfold k k2 rest val d :
  ins (k :: k2 :: rest) val d =
  match dget k d with
  | Some (Node sub) =>
      match ins (k2 :: rest) val sub with Some sub' => Some (dset k (Node sub') d) | None => None end
  | Some (Leaf _) => None
  | None =>
      match ins (k2 :: rest) val [] with Some sub' => Some (dset k (Node sub') d) | None => None end
  end.
Proof. reflexivity. Qed.

(** what is found at any path after one insertion *)
Lemma view_ins p : forall val d d' q,
  terminal val -> ins p val d = Some d' ->
  view q (Node d') = match pcmp q p with
                     | PEq => tv val
                     | PQ => Some None
                     | PP => None
                     | PInc => view q (Node d)
                     end.
Proof.
  induction p as [|k rest IH]; intros val d d' q Ht Hi; [discriminate|].
  destruct rest as [|k2 rest].
  - cbn in Hi. injection Hi as <-.
    destruct q as [|a q]; [reflexivity|].
    rewrite view_cons. cbn [pcmp].
    destruct (str_eqb a k) eqn:E.
    + apply str_eqb_eq in E; subst a. rewrite dget_dset_same.
      destruct q as [|b q]; [apply view_nil|]. cbn. now apply view_terminal.
    + apply str_eqb_neq in E. rewrite dget_dset_other by auto. now rewrite view_cons.
  - rewrite ins_unfold in Hi.
    assert (G : forall sub sub', ins (k2 :: rest) val sub = Some sub' ->
              d' = dset k (Node sub') d ->
              (forall q', pcmp q' (k2 :: rest) = PInc -> view q' (Node sub) = view (k :: q') (Node d)) ->
              view q (Node d') = match pcmp q (k :: k2 :: rest) with
                     | PEq => tv val | PQ => Some None | PP => None | PInc => view q (Node d) end).
    { intros sub sub' Hs -> Hv.
      destruct q as [|a q]; [reflexivity|].
      rewrite view_cons. cbn [pcmp].
      destruct (str_eqb a k) eqn:E.
      - apply str_eqb_eq in E; subst a. rewrite dget_dset_same.
        rewrite (IH val sub sub' q Ht Hs).
        destruct (pcmp q (k2 :: rest)) eqn:Ec; auto.
      - apply str_eqb_neq in E. rewrite dget_dset_other by auto. now rewrite view_cons. }
    destruct (dget k d) as [[v|sub]|] eqn:Eg; [discriminate| |].
    + destruct (ins (k2 :: rest) val sub) as [sub'|] eqn:Es; [|discriminate].
      injection Hi as <-. apply (G sub sub' Es eq_refl).
      intros q' _. now rewrite view_cons, Eg.
    + destruct (ins (k2 :: rest) val []) as [sub'|] eqn:Es; [|discriminate].
      injection Hi as <-. apply (G [] sub' Es eq_refl).
      intros q' Hq'. rewrite view_cons, Eg.
      destruct q' as [|b q']; [now apply pcmp_inc_nonnil in Hq'|reflexivity].
Qed.

(** insertion succeeds unless a strict prefix of the path holds a leaf *)
Lemma ins_succeeds p : forall val d,
  p <> [] ->
  (forall q v, pcmp q p = PQ -> view q (Node d) <> Some (Some v)) ->
  exists d', ins p val d = Some d'.
Proof.
  induction p as [|k rest IH]; intros val d NN Hv; [easy|].
  destruct rest as [|k2 rest]; [eexists; reflexivity|].
  rewrite ins_unfold.
  destruct (dget k d) as [[v|sub]|] eqn:Eg.
  - exfalso. apply (Hv [k] v); [cbn; now rewrite str_eqb_refl|].
    now rewrite view_cons, Eg.
  - destruct (IH val sub) as [sub' Hs]; [easy| |rewrite Hs; eauto].
    intros q v Hq. specialize (Hv (k :: q) v). cbn [pcmp] in Hv. rewrite str_eqb_refl in Hv.
    rewrite view_cons, Eg in Hv. auto.
  - destruct (IH val []) as [sub' Hs]; [easy| |rewrite Hs; eauto].
    intros q v Hq. destruct q; cbn; easy.
Qed.

(** * a tree is characterised by its terminal entries *)
Definition entry := (list str * tree)%type.

(** [Spec ES t]: the tree [t] contains exactly the terminal entries [ES] *)
Definition Spec (ES : list entry) (t : tree) : Prop :=
  forall q,
    match view q t with
    | Some (Some v) => In (q, Leaf v) ES
    | Some None => q = [] \/ exists e, In e ES /\ (pcmp q (fst e) = PQ \/ (fst e = q /\ snd e = Node []))
    | None => forall e, In e ES -> pcmp q (fst e) = PInc \/ pcmp q (fst e) = PP
    end.
(** pairwise incomparable paths (prefix-consistent keys) *)
Definition PF (ES : list entry) : Prop :=
  forall e1 e2, In e1 ES -> In e2 ES -> e1 = e2 \/ pcmp (fst e1) (fst e2) = PInc.
Definition paths_nonempty (ES : list entry) : Prop := forall e, In e ES -> fst e <> [].
Definition all_terminal (ES : list entry) : Prop := forall e, In e ES -> terminal (snd e).

Lemma Spec_ext ES ES' t : (forall e, In e ES <-> In e ES') -> Spec ES t -> Spec ES' t.
Proof.
  intros H S q. specialize (S q). destruct (view q t) as [[v|]|].
  - now apply H.
  - destruct S as [S|(e & He & S)]; [now left|right]. exists e. split; [now apply H|auto].
  - intros e He. apply S. now apply H.
Qed.
Lemma PF_ext ES ES' : (forall e, In e ES <-> In e ES') -> PF ES -> PF ES'.
Proof. intros H P e1 e2 H1 H2. apply P; now apply H. Qed.

(** two trees with the same prefix-free entries look the same at every path *)
Lemma Spec_view_eq ES t1 t2 :
  PF ES -> paths_nonempty ES -> Spec ES t1 -> Spec ES t2 -> forall q, view q t1 = view q t2.
Proof.
  intros P NE S1 S2 q. specialize (S1 q). specialize (S2 q).
  assert (Q0 : view [] t1 <> None /\ view [] t2 <> None) by (rewrite !view_nil; split; [now destruct t1|now destruct t2]).
  assert (K : forall v e, In (q, Leaf v) ES -> In e ES ->
              (pcmp q (fst e) = PQ \/ (fst e = q /\ snd e = Node [])) -> False).
  { intros v e H1 H2 H3. destruct (P _ _ H1 H2) as [<-|Hc]; cbn in *.
    - destruct H3 as [H3|[_ H3]]; [now rewrite pcmp_refl in H3|easy].
    - destruct H3 as [H3|[H3 _]]; [congruence|]. rewrite H3, pcmp_refl in Hc. easy. }
  assert (K2 : forall v, In (q, Leaf v) ES ->
               (forall e, In e ES -> pcmp q (fst e) = PInc \/ pcmp q (fst e) = PP) -> False).
  { intros v H1 H2. specialize (H2 _ H1). cbn in H2. rewrite pcmp_refl in H2. now destruct H2. }
  assert (K3 : forall e, In e ES -> (pcmp q (fst e) = PQ \/ (fst e = q /\ snd e = Node [])) ->
               (forall e, In e ES -> pcmp q (fst e) = PInc \/ pcmp q (fst e) = PP) -> False).
  { intros e H1 H2 H3. specialize (H3 _ H1). destruct H2 as [H2|[H2 _]].
    - rewrite H2 in H3. now destruct H3.
    - rewrite H2, pcmp_refl in H3. now destruct H3. }
  destruct (view q t1) as [[v1|]|] eqn:E1, (view q t2) as [[v2|]|] eqn:E2; auto.
  - destruct (P _ _ S1 S2) as [A|A]; [now injection A as ->|cbn in A; now rewrite pcmp_refl in A].
  - exfalso. destruct S2 as [->|(e & He & S2)]; [now apply (NE _ S1)|exact (K _ _ S1 He S2)].
  - exfalso. exact (K2 _ S1 S2).
  - exfalso. destruct S1 as [->|(e & He & S1)]; [now apply (NE _ S2)|exact (K _ _ S2 He S1)].
  - exfalso. destruct S1 as [->|(e & He & S1)]; [now destruct Q0 as [_ Q0]|exact (K3 _ He S1 S2)].
  - exfalso. exact (K2 _ S2 S1).
  - exfalso. destruct S2 as [->|(e & He & S2)]; [now destruct Q0 as [Q0 _]|exact (K3 _ He S2 S1)].
Qed.

(** * the unflatten loop over path entries *)
Definition ins_paths (ES : list entry) (acc : option dict) : option dict :=
  fold_left (fun acc e => match acc with Some d => ins (fst e) (snd e) d | None => None end) ES acc.

Lemma ins_paths_snoc ES e acc :
  ins_paths (ES ++ [e]) acc =
  match ins_paths ES acc with Some d => ins (fst e) (snd e) d | None => None end.
Proof. unfold ins_paths. now rewrite fold_left_app. Qed.

Lemma Spec_nil : Spec [] (Node []).
Proof. intro q. destruct q as [|k q]; [now left|]. rewrite view_cons. cbn. easy. Qed.

Lemma ins_paths_spec ES :
  PF ES -> paths_nonempty ES -> all_terminal ES ->
  exists r, ins_paths ES (Some []) = Some r /\ Spec ES (Node r).
Proof.
  induction ES as [|e ES IH] using rev_ind; intros P NE AT.
  - exists []. split; [reflexivity|apply Spec_nil].
  - destruct IH as (r & Hr & S).
    { intros e1 e2 H1 H2. apply P; apply in_app_iff; now left. }
    { intros e1 H1. apply NE. apply in_app_iff; now left. }
    { intros e1 H1. apply AT. apply in_app_iff; now left. }
    assert (Ie : In e (ES ++ [e])) by (apply in_app_iff; right; now left).
    destruct e as [p val]. 
    destruct (ins_succeeds p val r) as [r' Hr'].
    { exact (NE _ Ie). }
    { intros q v Hq Hv. specialize (S q). rewrite Hv in S.
      destruct (P (q, Leaf v) (p, val)) as [A|A]; [apply in_app_iff; now left|exact Ie| |].
      - injection A as -> _. now rewrite pcmp_refl in Hq.
      - cbn in A. congruence. }
    exists r'. split.
    { now rewrite ins_paths_snoc, Hr. }
    intro q. rewrite (view_ins p val r r' q (AT _ Ie) Hr').
    destruct (pcmp q p) eqn:Ec.
    + apply pcmp_eq in Ec. subst q. destruct val as [v|l]; cbn.
      * exact Ie.
      * right. exists (p, Node l). split; [exact Ie|]. right. split; [reflexivity|].
        specialize (AT _ Ie). cbn in AT. now subst l.
    + right. exists (p, val). split; [exact Ie|now left].
    + intros e He. apply in_app_iff in He as [He|[<-|[]]]; [|now right].
      destruct (P (p, val) e Ie) as [A|A]; [apply in_app_iff; now left| |].
      * subst e. now right.
      * left. cbn in A. eapply pcmp_trans_inc; eauto.
    + specialize (S q). destruct (view q (Node r)) as [[v|]|].
      * apply in_app_iff; now left.
      * destruct S as [S|(e & He & S)]; [now left|right]. exists e. split; [apply in_app_iff; now left|auto].
      * intros e He. apply in_app_iff in He as [He|[<-|[]]]; [now apply S|now left].
Qed.

(** * the terminal entries of a tree *)
Lemma tree_ind2 (P : tree -> Prop) :
  (forall v, P (Leaf v)) ->
  (forall l, Forall (fun kc => P (snd kc)) l -> P (Node l)) ->
  forall t, P t.
Proof.
  intros HL HN. fix IH 1. intros [v|l]; [apply HL|apply HN].
  induction l as [|[k c] l IHl]; constructor; [apply IH|apply IHl].
Qed.

Definition pcons (k : str) (e : entry) : entry := (k :: fst e, snd e).
Fixpoint entries_t (t : tree) : list entry :=
  match t with
  | Leaf v => [([], Leaf v)]
  | Node [] => [([], Node [])]
  | Node l => flat_map (fun kc => map (pcons (fst kc)) (entries_t (snd kc))) l
  end.
Definition entries (l : dict) : list entry :=
  flat_map (fun kc => map (pcons (fst kc)) (entries_t (snd kc))) l.

Lemma entries_cons k c l : entries ((k, c) :: l) = map (pcons k) (entries_t c) ++ entries l.
Proof. reflexivity. Qed.
Lemma entries_t_node l : l <> [] -> entries_t (Node l) = entries l.
Proof. destruct l; [easy|reflexivity]. Qed.
Lemma in_entries e l :
  In e (entries l) <-> exists k c e', In (k, c) l /\ In e' (entries_t c) /\ e = pcons k e'.
Proof.
  unfold entries. rewrite in_flat_map. split.
  - intros ([k c] & H1 & H2). apply in_map_iff in H2 as (e' & <- & H2). now exists k, c, e'.
  - intros (k & c & e' & H1 & H2 & ->). exists (k, c). split; auto. apply in_map_iff. now exists e'.
Qed.
Lemma entries_t_nonempty t : entries_t t <> [].
Proof.
  induction t as [v|l IH] using tree_ind2; [easy|].
  destruct l as [|[k c] l]; [easy|]. rewrite entries_t_node by easy.
  inversion IH as [|? ? H1 H2]; subst. cbn in *. destruct (entries_t c); [easy|]. easy.
Qed.
Lemma entries_t_terminal t : all_terminal (entries_t t).
Proof.
  induction t as [v|l IH] using tree_ind2.
  - intros e [<-|[]]. exact I.
  - destruct l as [|x l]; [intros e [<-|[]]; reflexivity|].
    rewrite entries_t_node by easy. intros e He.
    apply in_entries in He as (k & c & e' & H1 & H2 & ->).
    rewrite Forall_forall in IH. exact (IH _ H1 _ H2).
Qed.
Lemma entries_nonempty_paths l : paths_nonempty (entries l).
Proof. intros e He. apply in_entries in He as (k & c & e' & _ & _ & ->). easy. Qed.

Lemma wf_tree_node sep l :
  wf_tree sep (Node l) = true ->
  NoDup (map fst l) /\ forall k c, In (k, c) l -> contains sep k = false /\ wf_tree sep c = true.
Proof.
  cbn [wf_tree]. intro H. apply andb_true_iff in H as [H1 H2].
  apply negb_true_iff, has_dup_false in H1. split; auto.
  intros k c Hi. rewrite forallb_forall in H2. specialize (H2 _ Hi). cbn in H2.
  apply andb_true_iff in H2 as [H2 H3]. now apply negb_true_iff in H2.
Qed.

Lemma nodup_keys_inj {V} (l : list (str * V)) k c1 c2 :
  NoDup (map fst l) -> In (k, c1) l -> In (k, c2) l -> c1 = c2.
Proof. intros ND H1 H2. apply In_dget in H1, H2; auto. congruence. Qed.

Lemma entries_t_spec sep t : wf_tree sep t = true -> Spec (entries_t t) t /\ PF (entries_t t).
Proof.
  induction t as [v|l IH] using tree_ind2; intro W.
  - split.
    + intros [|k q]; cbn; [now left|]. intros e [<-|[]]. now right.
    + intros e1 e2 [<-|[]] [<-|[]]. now left.
  - destruct l as [|x0 l0].
    { split.
      - intros [|k q]; [now left|]. rewrite view_cons. cbn. intros e [<-|[]]. now right.
      - intros e1 e2 [<-|[]] [<-|[]]. now left. }
    rewrite entries_t_node by easy. remember (x0 :: l0) as l eqn:El.
    destruct (wf_tree_node _ _ W) as [ND Wc].
    rewrite Forall_forall in IH.
    split.
    + intros [|k q]; [now left|]. rewrite view_cons.
      destruct (dget k l) as [c|] eqn:Eg.
      * pose proof (dget_In _ _ _ Eg) as Hc.
        destruct (IH _ Hc (proj2 (Wc _ _ Hc))) as [Sc _]. specialize (Sc q). cbn in Sc.
        destruct (view q c) as [[v|]|] eqn:Ev.
        -- apply in_entries. exists k, c, (q, Leaf v). auto.
        -- right. destruct Sc as [->|(e & He & Sc)].
           ++ rewrite view_nil in Ev. destruct c as [v|[|y sub]]; [discriminate| |].
              ** exists ([k], Node []). split; [|right; auto].
                 apply in_entries. exists k, (Node []), ([], Node []). cbn. auto.
              ** pose proof (entries_t_nonempty (Node (y :: sub))) as NEc.
                 destruct (entries_t (Node (y :: sub))) as [|e' r'] eqn:Ee; [easy|].
                 exists (pcons k e'). split.
                 { apply in_entries. exists k, (Node (y :: sub)), e'. rewrite Ee. cbn. auto. }
                 left. cbn. rewrite str_eqb_refl.
                 assert (He' : In e' (entries (y :: sub))) by (rewrite <- entries_t_node, Ee by easy; now left).
                 apply entries_nonempty_paths in He'. now destruct (fst e').
           ++ exists (pcons k e). split; [apply in_entries; now exists k, c, e|].
              cbn. rewrite str_eqb_refl. destruct Sc as [Sc|[Sc1 Sc2]]; [now left|right].
              split; [now rewrite Sc1|auto].
        -- intros e He. apply in_entries in He as (k2 & c2 & e' & H1 & H2 & ->). cbn.
           destruct (str_eqb k k2) eqn:E; [|now left].
           apply str_eqb_eq in E. subst k2. rewrite (nodup_keys_inj _ _ _ _ ND H1 Hc) in H2. auto.
      * intros e He. apply in_entries in He as (k2 & c2 & e' & H1 & H2 & ->). cbn.
        destruct (str_eqb k k2) eqn:E; [|now left].
        apply str_eqb_eq in E. subst k2. exfalso. apply (dget_None _ _ Eg).
        apply in_map_iff. now exists (k, c2).
    + intros e1 e2 H1 H2.
      apply in_entries in H1 as (k1 & c1 & e1' & A1 & B1 & ->).
      apply in_entries in H2 as (k2 & c2 & e2' & A2 & B2 & ->).
      cbn. destruct (str_eqb k1 k2) eqn:E; [|now right].
      apply str_eqb_eq in E. subst k2. rewrite (nodup_keys_inj _ _ _ _ ND A2 A1) in B2.
      destruct (IH _ A1 (proj2 (Wc _ _ A1))) as [_ Pc].
      destruct (Pc _ _ B1 B2) as [->|Pc']; [now left|now right].
Qed.

(** paths of the entries are pairwise distinct and free of [sep] *)
Lemma nodup_app_intro {A} (l1 l2 : list A) :
  NoDup l1 -> NoDup l2 -> (forall x, In x l1 -> ~ In x l2) -> NoDup (l1 ++ l2).
Proof.
  induction l1 as [|a l1 IH]; cbn; intros N1 N2 D; [auto|].
  inversion N1 as [|? ? A1 A2]; subst. constructor.
  - rewrite in_app_iff. intros [H|H]; [contradiction|]. apply (D a); auto.
  - apply IH; auto.
Qed.
Lemma nodup_map_inj_in {A B} (f : A -> B) (l : list A) :
  NoDup l -> (forall x y, In x l -> In y l -> f x = f y -> x = y) -> NoDup (map f l).
Proof.
  induction l as [|a l IH]; cbn; intros N Inj; [constructor|].
  inversion N as [|? ? A1 A2]; subst. constructor.
  - rewrite in_map_iff. intros (y & Hy & Iy). apply A1.
    rewrite (Inj a y); auto.
  - apply IH; auto.
Qed.

Lemma map_fst_pcons k (ES : list entry) : map fst (map (pcons k) ES) = map (cons k) (map fst ES).
Proof. rewrite !map_map. reflexivity. Qed.

Lemma entries_t_nodup sep t : wf_tree sep t = true -> NoDup (map fst (entries_t t)).
Proof.
  induction t as [v|l IH] using tree_ind2; intro W; [repeat constructor; easy|].
  destruct l as [|x0 l0]; [repeat constructor; easy|].
  rewrite entries_t_node by easy. remember (x0 :: l0) as l eqn:El. clear El x0 l0.
  destruct (wf_tree_node _ _ W) as [ND Wc]. clear W.
  induction l as [|[k c] l IHl]; [constructor|].
  unfold entries. cbn [flat_map]. rewrite map_app. fold (entries l).
  inversion IH as [|? ? I1 I2]; subst. inversion ND as [|? ? N1 N2]; subst. cbn [fst snd] in *.
  apply nodup_app_intro.
  - rewrite map_fst_pcons.
    apply nodup_map_inj_in; [|now intros ? ? _ _ [= ->]].
    apply I1. apply (Wc k c). now left.
  - apply IHl; auto. intros k2 c2 H. apply Wc. now right.
  - intros p Hp Hp2. apply in_map_iff in Hp as (e1 & <- & H1). apply in_map_iff in H1 as (e1' & <- & H1).
    apply in_map_iff in Hp2 as (e2 & Eq & H2).
    apply in_entries in H2 as (k2 & c2 & e2' & A2 & B2 & ->). cbn in Eq. injection Eq as -> _.
    apply N1. apply in_map_iff. now exists (k, c2).
Qed.

Definition nosep sep (p : list str) : Prop := Forall (fun k => contains sep k = false) p.
Lemma entries_t_nosep sep t : wf_tree sep t = true -> forall e, In e (entries_t t) -> nosep sep (fst e).
Proof.
  induction t as [v|l IH] using tree_ind2; intros W e He.
  - destruct He as [<-|[]]. constructor.
  - destruct l as [|x0 l0]; [destruct He as [<-|[]]; constructor|].
    rewrite entries_t_node in He by easy.
    destruct (wf_tree_node _ _ W) as [ND Wc].
    apply in_entries in He as (k & c & e' & H1 & H2 & ->). cbn.
    rewrite Forall_forall in IH. constructor; [apply (Wc _ _ H1)|].
    apply (IH _ H1 (proj2 (Wc _ _ H1)) _ H2).
Qed.

(** leaf / empty-dictionary parts of an entry list, in order *)
Definition leaf_part (ES : list entry) : list (list str * Z) :=
  flat_map (fun e => match snd e with Leaf v => [(fst e, v)] | Node _ => [] end) ES.
Definition empty_part (ES : list entry) : list (list str) :=
  flat_map (fun e => match snd e with Leaf _ => [] | Node _ => [fst e] end) ES.

Lemma leaf_part_app a b : leaf_part (a ++ b) = leaf_part a ++ leaf_part b.
Proof. unfold leaf_part. now rewrite flat_map_app. Qed.
Lemma empty_part_app a b : empty_part (a ++ b) = empty_part a ++ empty_part b.
Proof. unfold empty_part. now rewrite flat_map_app. Qed.
Lemma leaf_part_pcons k ES :
  leaf_part (map (pcons k) ES) = map (fun pv => (k :: fst pv, snd pv)) (leaf_part ES).
Proof.
  induction ES as [|[p [v|l]] ES IH]; cbn; [reflexivity| |]; unfold leaf_part in *; cbn; now rewrite IH.
Qed.
Lemma empty_part_pcons k ES : empty_part (map (pcons k) ES) = map (cons k) (empty_part ES).
Proof.
  induction ES as [|[p [v|l]] ES IH]; cbn; [reflexivity| |]; unfold empty_part in *; cbn; now rewrite IH.
Qed.
Lemma in_leaf_part ES p v : In (p, v) (leaf_part ES) <-> In (p, Leaf v) ES.
Proof.
  unfold leaf_part. rewrite in_flat_map. split.
  - intros ([p' [v'|l]] & H1 & H2); cbn in H2; [|easy]. destruct H2 as [[= -> ->]|[]]. auto.
  - intro H. exists (p, Leaf v). split; auto. now left.
Qed.
Lemma in_empty_part ES p : In p (empty_part ES) <-> exists l, In (p, Node l) ES.
Proof.
  unfold empty_part. rewrite in_flat_map. split.
  - intros ([p' [v'|l]] & H1 & H2); cbn in H2; [easy|]. destruct H2 as [<-|[]]. eauto.
  - intros [l H]. exists (p, Node l). split; auto. now left.
Qed.
Lemma parts_nodup ES :
  NoDup (map fst ES) ->
  NoDup (map fst (leaf_part ES)) /\ NoDup (empty_part ES) /\
  (forall p, In p (empty_part ES) -> ~ In p (map fst (leaf_part ES))).
Proof.
  induction ES as [|[p val] ES IH]; cbn; intro ND; [repeat split; try constructor; easy|].
  inversion ND as [|? ? N1 N2]; subst. destruct (IH N2) as (I1 & I2 & I3).
  assert (A : forall q, In q (map fst (leaf_part ES)) -> In q (map fst ES)).
  { intros q Hq. apply in_map_iff in Hq as ([q' v] & <- & Hq). apply in_leaf_part in Hq.
    apply in_map_iff. now exists (q', Leaf v). }
  assert (B : forall q, In q (empty_part ES) -> In q (map fst ES)).
  { intros q Hq. apply in_empty_part in Hq as [l Hq]. apply in_map_iff. now exists (q, Node l). }
  destruct val as [v|l]; unfold leaf_part, empty_part in *; cbn.
  - split; [constructor; auto|]. split; auto.
    intros q Hq [<-|Hq2]; [apply N1; auto|]. now apply (I3 q).
  - split; auto. split; [constructor; auto|].
    intros q [<-|Hq] Hq2; [apply N1; auto|]. now apply (I3 q).
Qed.

(** * flatten_dict computes the joined entries *)
Definition mk (sep : Z) (prefix : str) (nested : bool) (p : list str) : str :=
  new_key_of sep prefix nested (join sep p).
Definition mk_items sep prefix nested (LP : list (list str * Z)) : list (str * Z) :=
  map (fun pv => (mk sep prefix nested (fst pv), snd pv)) LP.

Lemma mk_cons sep prefix nested k p :
  p <> [] -> mk sep prefix nested (k :: p) = mk sep (new_key_of sep prefix nested k) true p.
Proof.
  intro NN. unfold mk. rewrite join_cons by auto. unfold new_key_of.
  rewrite orb_true_r. destruct (nonempty prefix || nested); [|reflexivity].
  now rewrite <- app_assoc.
Qed.
Lemma mk_inj sep prefix nested p1 p2 :
  p1 <> [] -> p2 <> [] -> nosep sep p1 -> nosep sep p2 ->
  mk sep prefix nested p1 = mk sep prefix nested p2 -> p1 = p2.
Proof.
  intros N1 N2 S1 S2 E. unfold mk, new_key_of in E.
  assert (J : join sep p1 = join sep p2).
  { destruct (nonempty prefix || nested); [|exact E]. apply app_inv_head in E. now injection E. }
  rewrite <- (split_join sep p1), <- (split_join sep p2) by auto. now rewrite J.
Qed.

Lemma flatten_t_unfold sep prefix nested l :
  flatten_t sep prefix nested (Node l) =
  flatten_post (flatten_loop (fun nk v => flatten_t sep nk true v) sep prefix nested l).
Proof. reflexivity. Qed.

Lemma flatten_spec sep t :
  wf_tree sep t = true -> forall l, t = Node l -> forall prefix nested,
  flatten_t sep prefix nested t =
  Some (mk_items sep prefix nested (leaf_part (entries l)),
        map (mk sep prefix nested) (empty_part (entries l))).
Proof.
  induction t as [v|l0 IH] using tree_ind2; intros W l [= <-] prefix nested.
  rewrite flatten_t_unfold.
  destruct (wf_tree_node _ _ W) as [ND Wc].
  assert (L : flatten_loop (fun nk v => flatten_t sep nk true v) sep prefix nested l0 =
              Some (mk_items sep prefix nested (leaf_part (entries l0)),
                    map (mk sep prefix nested) (empty_part (entries l0)))).
  { clear W ND. induction l0 as [|[k c] l IHl]; [reflexivity|].
    inversion IH as [|? ? I1 I2]; subst. cbn in I1.
    destruct (Wc k c (or_introl eq_refl)) as [Sk Wk].
    cbn [flatten_loop]. rewrite Sk.
    fold (flatten_loop (fun nk v => flatten_t sep nk true v) sep prefix nested l).
    rewrite (IHl I2) by (intros k2 c2 H; apply Wc; now right).
    rewrite entries_cons, leaf_part_app, empty_part_app, leaf_part_pcons, empty_part_pcons.
    unfold mk_items. rewrite !map_app. fold (mk_items sep prefix nested (leaf_part (entries l))).
    assert (M1 : mk sep prefix nested [k] = new_key_of sep prefix nested k) by reflexivity.
    destruct c as [x|[|y sub]].
    - cbn. now rewrite M1.
    - cbn. now rewrite M1.
    - rewrite (I1 Wk (y :: sub) eq_refl). rewrite entries_t_node by easy.
      f_equal. f_equal.
      + f_equal. rewrite map_map. unfold mk_items. apply map_ext_in.
        intros [p v] Hp. cbn. rewrite mk_cons; [reflexivity|].
        apply in_leaf_part in Hp. now apply entries_nonempty_paths in Hp.
      + f_equal. rewrite map_map. apply map_ext_in.
        intros p Hp. rewrite mk_cons; [reflexivity|].
        apply in_empty_part in Hp as [l' Hp]. now apply entries_nonempty_paths in Hp. }
  rewrite L. unfold flatten_post.
  (* no duplicates *)
  assert (NDp : NoDup (map fst (entries l0))).
  { destruct l0 as [|x0 l1]; [constructor|]. rewrite <- entries_t_node by easy. now apply (entries_t_nodup sep). }
  assert (NS : forall e, In e (entries l0) -> nosep sep (fst e)).
  { destruct l0 as [|x0 l1]; [easy|]. rewrite <- entries_t_node by easy. now apply entries_t_nosep. }
  destruct (parts_nodup _ NDp) as (P1 & P2 & P3).
  assert (K1 : NoDup (map fst (mk_items sep prefix nested (leaf_part (entries l0))))).
  { unfold mk_items. rewrite map_map. cbn. rewrite <- (map_map fst (mk sep prefix nested)).
    apply nodup_map_inj_in; auto.
    intros p1 p2 H1 H2. apply in_map_iff in H1 as ([q1 v1] & <- & H1), H2 as ([q2 v2] & <- & H2).
    apply in_leaf_part in H1, H2. cbn.
    apply mk_inj; [exact (entries_nonempty_paths _ _ H1)|exact (entries_nonempty_paths _ _ H2)
                   |exact (NS _ H1)|exact (NS _ H2)]. }
  assert (K2 : NoDup (map (mk sep prefix nested) (empty_part (entries l0)))).
  { apply nodup_map_inj_in; auto.
    intros p1 p2 H1 H2. apply in_empty_part in H1 as [l1 H1], H2 as [l2 H2].
    apply mk_inj; [exact (entries_nonempty_paths _ _ H1)|exact (entries_nonempty_paths _ _ H2)
                   |exact (NS _ H1)|exact (NS _ H2)]. }
  apply has_dup_false in K1 as K1'. apply has_dup_false in K2 as K2'. rewrite K1', K2'.
  now rewrite dict_of_nodup.
Qed.

(** the flattened keys are pairwise distinct (so the duplicate checks pass) *)
Lemma mk_keys_nodup sep l prefix nested :
  wf_tree sep (Node l) = true ->
  NoDup (map fst (mk_items sep prefix nested (leaf_part (entries l)))) /\
  NoDup (map (mk sep prefix nested) (empty_part (entries l))) /\
  (forall k, In k (map (mk sep prefix nested) (empty_part (entries l))) ->
             ~ In k (map fst (mk_items sep prefix nested (leaf_part (entries l))))).
Proof.
  intro W.
  assert (NDp : NoDup (map fst (entries l))).
  { destruct l as [|x0 l1]; [constructor|]. rewrite <- entries_t_node by easy. now apply (entries_t_nodup sep). }
  assert (NS : forall e, In e (entries l) -> nosep sep (fst e)).
  { destruct l as [|x0 l1]; [easy|]. rewrite <- entries_t_node by easy. now apply entries_t_nosep. }
  destruct (parts_nodup _ NDp) as (P1 & P2 & P3).
  assert (E : map fst (mk_items sep prefix nested (leaf_part (entries l))) =
              map (mk sep prefix nested) (map fst (leaf_part (entries l)))).
  { unfold mk_items. now rewrite !map_map. }
  rewrite E.
  assert (INJ : forall p1 p2, (In p1 (map fst (leaf_part (entries l))) \/ In p1 (empty_part (entries l))) ->
                (In p2 (map fst (leaf_part (entries l))) \/ In p2 (empty_part (entries l))) ->
                mk sep prefix nested p1 = mk sep prefix nested p2 -> p1 = p2).
  { assert (X : forall p, (In p (map fst (leaf_part (entries l))) \/ In p (empty_part (entries l))) ->
                exists val, In (p, val) (entries l)).
    { intros p [H|H].
      - apply in_map_iff in H as ([q v] & <- & H). apply in_leaf_part in H. eauto.
      - apply in_empty_part in H as [l' H]. eauto. }
    intros p1 p2 H1 H2. apply X in H1 as [v1 H1]. apply X in H2 as [v2 H2].
    apply mk_inj; [exact (entries_nonempty_paths _ _ H1)|exact (entries_nonempty_paths _ _ H2)
                   |exact (NS _ H1)|exact (NS _ H2)]. }
  split; [|split].
  - apply nodup_map_inj_in; auto.
  - apply nodup_map_inj_in; auto.
  - intros k H1 H2. apply in_map_iff in H1 as (p1 & <- & H1). apply in_map_iff in H2 as (p2 & Eq & H2).
    apply INJ in Eq; auto. subst p2. exact (P3 _ H1 H2).
Qed.

Lemma ins_all_join sep (ES : list entry) : forall acc,
  (forall e, In e ES -> fst e <> [] /\ nosep sep (fst e)) ->
  ins_all sep (map (fun e => (join sep (fst e), snd e)) ES) acc = ins_paths ES acc.
Proof.
  unfold ins_all, ins_paths. induction ES as [|e ES IH]; intros acc H; [reflexivity|].
  cbn [map fold_left fst snd]. rewrite split_join by (apply H; now left).
  apply IH. intros e' He'. apply H. now right.
Qed.

(** rebuilt entry list = leaf entries followed by empty-dictionary entries *)
Definition rebuild (ES : list entry) : list entry :=
  map (fun pv => (fst pv, Leaf (snd pv))) (leaf_part ES) ++ map (fun p => (p, Node [])) (empty_part ES).
Lemma in_rebuild ES e : all_terminal ES -> (In e (rebuild ES) <-> In e ES).
Proof.
  intro AT. unfold rebuild. rewrite in_app_iff, !in_map_iff. split.
  - intros [([p v] & <- & H)|(p & <- & H)].
    + now apply in_leaf_part in H.
    + apply in_empty_part in H as [l H]. pose proof (AT _ H) as T. cbn in T. now subst l.
  - destruct e as [p [v|l]]; intro H.
    + left. exists (p, v). split; auto. now apply in_leaf_part.
    + right. exists p. pose proof (AT _ H) as T. cbn in T. subst l. split; auto.
      apply in_empty_part. eauto.
Qed.

Lemma entries_facts sep d :
  wf_tree sep (Node d) = true ->
  Spec (entries d) (Node d) /\ PF (entries d) /\ all_terminal (entries d) /\
  (forall e, In e (entries d) -> fst e <> [] /\ nosep sep (fst e)).
Proof.
  intro W. destruct d as [|x0 d0].
  - repeat split; try easy. apply Spec_nil.
  - rewrite <- entries_t_node by easy. destruct (entries_t_spec _ _ W) as [S P].
    repeat split; auto.
    + apply entries_t_terminal.
    + rewrite entries_t_node in H by easy. now apply entries_nonempty_paths in H.
    + now apply (entries_t_nosep sep _ W).
Qed.

(** [unflatten_dict] rebuilds, from the output of [flatten_dict], a dictionary
    that has the same content at every path *)
Theorem unflatten_flatten_views sep d :
  wf_dict sep d = true ->
  exists flat empties r,
    flatten_dict sep [] d = Some (flat, empties) /\
    unflatten_dict sep flat empties = Some r /\
    forall q, view q (Node r) = view q (Node d).
Proof.
  unfold wf_dict. intro W.
  destruct (entries_facts _ _ W) as (S & P & AT & NE).
  destruct (mk_keys_nodup sep d [] false W) as (K1 & K2 & K3).
  exists (mk_items sep [] false (leaf_part (entries d))), (map (mk sep [] false) (empty_part (entries d))).
  assert (RB : forall e, In e (rebuild (entries d)) <-> In e (entries d)) by (intro; now apply in_rebuild).
  destruct (ins_paths_spec (rebuild (entries d))) as (r & Hr & Sr).
  { eapply PF_ext; [|exact P]. intro e. symmetry. apply RB. }
  { intros e He. apply RB in He. now apply NE. }
  { intros e He. apply RB in He. now apply AT. }
  exists r. split; [|split].
  - unfold flatten_dict. now apply (flatten_spec sep (Node d) W d eq_refl).
  - unfold unflatten_dict, empty_entries.
    set (EE := map (fun k => (k, Node [])) (map (mk sep [] false) (empty_part (entries d)))).
    assert (FE : map fst EE = map (mk sep [] false) (empty_part (entries d))).
    { unfold EE. rewrite map_map. cbn. now rewrite map_id. }
    rewrite dict_of_nodup by now rewrite FE.
    rewrite dmerge_fresh.
    + replace (leaf_entries (mk_items sep [] false (leaf_part (entries d))) ++ EE)
        with (map (fun e : entry => (join sep (fst e), snd e)) (rebuild (entries d))).
      * rewrite ins_all_join; [exact Hr|]. intros e He. apply RB in He. now apply NE.
      * unfold rebuild, leaf_entries, mk_items, EE. rewrite map_app, !map_map. reflexivity.
    + now rewrite FE.
    + rewrite FE. intros k Hk. unfold leaf_entries. rewrite map_map. cbn [fst].
      now apply K3.
  - apply (Spec_view_eq (entries d)); auto.
    + intros e He. now apply NE.
    + eapply Spec_ext; [exact RB|exact Sr].
Qed.

(** * Python's [==] agrees with "same content at every path" *)
Inductive ndt : tree -> Prop :=
| ndt_leaf v : ndt (Leaf v)
| ndt_node l : NoDup (map fst l) -> Forall (fun kc => ndt (snd kc)) l -> ndt (Node l).

Lemma wf_tree_ndt sep t : wf_tree sep t = true -> ndt t.
Proof.
  induction t as [v|l IH] using tree_ind2; intro W; constructor.
  - now destruct (wf_tree_node _ _ W).
  - destruct (wf_tree_node _ _ W) as [_ Wc]. rewrite Forall_forall in *.
    intros [k c] H. apply (IH _ H). now apply (Wc k c).
Qed.

Lemma views_eq_tree_eqb t1 : forall t2,
  ndt t1 -> ndt t2 -> (forall q, view q t1 = view q t2) -> tree_eqb t1 t2 = true.
Proof.
  induction t1 as [v|l1 IH] using tree_ind2; intros t2 N1 N2 Hv.
  - specialize (Hv []). rewrite !view_nil in Hv. destruct t2; cbn in Hv; [|discriminate].
    injection Hv as ->. apply Z.eqb_refl.
  - pose proof (Hv []) as H0. rewrite !view_nil in H0. destruct t2 as [v|l2]; [discriminate|].
    inversion N1 as [|? ND1 F1]; subst. inversion N2 as [|? ND2 F2]; subst.
    assert (SUB : forall la lb : dict, (forall q, view q (Node la) = view q (Node lb)) ->
                  incl (map fst la) (map fst lb)).
    { intros la lb H k Hk. apply in_map_iff in Hk as ([k' c] & <- & Hk). cbn.
      destruct (dget k' lb) as [c2|] eqn:E; [apply dget_In in E; apply in_map_iff; now exists (k', c2)|].
      exfalso. specialize (H [k']). rewrite !view_cons, E in H.
      destruct (dget k' la) as [c1|] eqn:E1.
      - rewrite view_nil in H. now destruct c1.
      - apply dget_None in E1. apply E1. apply in_map_iff. now exists (k', c). }
    cbn [tree_eqb]. apply andb_true_iff. split.
    + apply Nat.eqb_eq. rewrite <- (map_length fst l1), <- (map_length fst l2).
      apply Nat.le_antisymm; apply NoDup_incl_length; auto.
    + apply forallb_forall. intros [k c] Hc.
      rewrite Forall_forall in IH, F1, F2.
      pose proof (In_dget _ _ _ ND1 Hc) as G1.
      destruct (dget k l2) as [c2|] eqn:G2.
      * apply (IH _ Hc); [exact (F1 _ Hc)|exact (F2 _ (dget_In _ _ _ G2))|].
        intro q. specialize (Hv (k :: q)). now rewrite !view_cons, G1, G2 in Hv.
      * exfalso. apply (dget_None _ _ G2). apply (SUB l1 l2 Hv). apply in_map_iff. now exists (k, c).
Qed.

Lemma tree_eqb_views t1 : forall t2,
  ndt t1 -> tree_eqb t1 t2 = true -> forall q, view q t1 = view q t2.
Proof.
  induction t1 as [v|l1 IH] using tree_ind2; intros t2 N1 E q.
  - destruct t2; [|discriminate]. cbn in E. apply Z.eqb_eq in E. now subst.
  - destruct t2 as [v|l2]; [discriminate|]. cbn [tree_eqb] in E.
    apply andb_true_iff in E as [E1 E2]. apply Nat.eqb_eq in E1.
    inversion N1 as [|? ND1 F1]; subst.
    rewrite forallb_forall in E2. rewrite Forall_forall in IH, F1.
    destruct q as [|k q]; [reflexivity|]. rewrite !view_cons.
    destruct (dget k l1) as [c|] eqn:G1.
    + pose proof (dget_In _ _ _ G1) as Hc. specialize (E2 _ Hc). cbn in E2.
      destruct (dget k l2) as [c2|]; [|discriminate]. exact (IH _ Hc c2 (F1 _ Hc) E2 q).
    + destruct (dget k l2) as [c2|] eqn:G2; [exfalso|reflexivity].
      (* every key of l1 is a key of l2 (first occurrences), |l1| = |l2|, keys of l1 distinct:
         the keys of l2 are covered *)
      assert (I12 : incl (map fst l1) (map fst l2)).
      { intros k' Hk'. apply in_map_iff in Hk' as ([k'' c'] & <- & Hk'). specialize (E2 _ Hk'). cbn in E2.
        cbn. destruct (dget k'' l2) as [c''|] eqn:G; [|discriminate].
        apply dget_In in G. apply in_map_iff. now exists (k'', c''). }
      assert (I21 : incl (map fst l2) (map fst l1)).
      { apply NoDup_length_incl; auto. rewrite !map_length. lia. }
      apply (dget_None _ _ G1). apply I21. apply dget_In in G2. apply in_map_iff. now exists (k, c2).
Qed.

(** insertion keeps keys unique at every level *)
Lemma dset_keys {V} k (v : V) d :
  map fst (dset k v d) = if dmem k d then map fst d else map fst d ++ [k].
Proof.
  unfold dmem. induction d as [|[k' v'] d IH]; cbn; [reflexivity|].
  destruct (str_eqb k k') eqn:E; cbn; [reflexivity|]. rewrite IH. now destruct (dget k d).
Qed.
Lemma dset_nodup {V} k (v : V) d : NoDup (map fst d) -> NoDup (map fst (dset k v d)).
Proof.
  intro ND. rewrite dset_keys. unfold dmem. destruct (dget k d) eqn:E; auto.
  apply nodup_app_intro; auto; [repeat constructor; easy|].
  intros x Hx [<-|[]]. now apply (dget_None _ _ E).
Qed.
Lemma in_dset {V} k (v : V) d a b : In (a, b) (dset k v d) -> In (a, b) d \/ b = v.
Proof.
  induction d as [|[k' v'] d IH]; cbn.
  - intros [[= _ <-]|[]]. now right.
  - destruct (str_eqb k k'); cbn.
    + intros [[= _ <-]|H]; [now right|left; now right].
    + intros [H|H]; [left; now left|]. destruct (IH H); auto.
Qed.
Lemma dset_ndt k v d : ndt (Node d) -> ndt v -> ndt (Node (dset k v d)).
Proof.
  intros N Nv. inversion N as [|? ND F]; subst. constructor; [now apply dset_nodup|].
  rewrite Forall_forall in *. intros [a b] H. apply in_dset in H. destruct H as [H|E]; [exact (F _ H)|cbn; now rewrite E].
Qed.
Lemma ins_ndt p : forall val d d', ndt (Node d) -> ndt val -> ins p val d = Some d' -> ndt (Node d').
Proof.
  induction p as [|k rest IH]; intros val d d' N Nv H; [discriminate|].
  destruct rest as [|k2 rest].
  - cbn in H. injection H as <-. now apply dset_ndt.
  - rewrite ins_unfold in H. destruct (dget k d) as [[v|sub]|] eqn:G; [discriminate| |].
    + destruct (ins (k2 :: rest) val sub) as [sub'|] eqn:Es; [|discriminate]. injection H as <-.
      apply dset_ndt; auto. apply (IH val sub); auto.
      inversion N as [|? ND F]; subst. rewrite Forall_forall in F. exact (F _ (dget_In _ _ _ G)).
    + destruct (ins (k2 :: rest) val []) as [sub'|] eqn:Es; [|discriminate]. injection H as <-.
      apply dset_ndt; auto. apply (IH val []); auto. constructor; constructor.
Qed.
Lemma ins_all_ndt sep (ES : dict) : forall acc r,
  (forall e, In e ES -> ndt (snd e)) -> ndt (Node acc) ->
  ins_all sep ES (Some acc) = Some r -> ndt (Node r).
Proof.
  unfold ins_all. induction ES as [|e ES IH]; intros acc r HE N H.
  - cbn in H. now injection H as <-.
  - cbn [fold_left] in H. destruct (ins (split sep (fst e)) (snd e) acc) as [acc'|] eqn:Ei.
    + apply (IH acc' r); auto.
      * intros e' He'. apply HE. now right.
      * apply (ins_ndt _ _ _ _ N (HE e (or_introl eq_refl)) Ei).
    + exfalso. clear -H. induction ES as [|e' ES IH']; [discriminate|]. cbn in H. auto.
Qed.
Lemma unflatten_ndt sep flat empties r : unflatten_dict sep flat empties = Some r -> ndt (Node r).
Proof.
  unfold unflatten_dict. intro H.
  assert (N0 : ndt (Node [])) by (constructor; constructor).
  eapply ins_all_ndt; [|exact N0|exact H].
  intros [k v] He. cbn.
  assert (G : forall (b a : dict), (forall e, In e a -> ndt (snd e)) -> (forall e, In e b -> ndt (snd e)) ->
              forall e, In e (dmerge a b) -> ndt (snd e)).
  { unfold dmerge. induction b as [|[k' v'] b IHb]; intros a Ha Hb e; cbn; [apply Ha|].
    apply IHb.
    - intros [a1 b1] H1. apply in_dset in H1. destruct H1 as [H1|E]; [exact (Ha _ H1)|]. cbn in *. subst b1. apply (Hb (k', v')). now left.
    - intros e' He'. apply Hb. now right. }
  apply (G _ _) in He; [exact He| |].
  - intros e' He'. unfold leaf_entries in He'. apply in_map_iff in He' as (x & <- & _). constructor.
  - intros e' He'. unfold empty_entries, dict_of in He'.
    apply (G _ []) in He'; [exact He'|easy|].
    intros e'' H''. apply in_map_iff in H'' as (x & <- & _). constructor; constructor.
Qed.

(** the property as stated: flatten succeeds and unflatten gives back a
    dictionary that is [==] to the input *)
Theorem unflatten_flatten sep d :
  wf_dict sep d = true ->
  exists flat empties r,
    flatten_dict sep [] d = Some (flat, empties) /\
    unflatten_dict sep flat empties = Some r /\
    tree_eqb (Node r) (Node d) = true /\ tree_eqb (Node d) (Node r) = true.
Proof.
  intro W. destruct (unflatten_flatten_views sep d W) as (flat & empties & r & H1 & H2 & H3).
  exists flat, empties, r. repeat split; auto.
  - apply views_eq_tree_eqb; auto; [eapply unflatten_ndt; eauto|eapply wf_tree_ndt; exact W].
  - apply views_eq_tree_eqb; auto; [eapply wf_tree_ndt; exact W|eapply unflatten_ndt; eauto].
Qed.

(** * pytree packing utilities *)
Section ArrayLemmas.
  Context {A : Type}.
  Implicit Types a : list A.

  Lemma slice_app_mid (pre l rest : list A) :
    slice (length pre) (length pre + length l) (pre ++ l ++ rest) = l.
  Proof.
    unfold slice. rewrite firstn_app, firstn_all2 by lia.
    replace (length pre + length l - length pre) with (length l) by lia.
    rewrite firstn_app, firstn_all, Nat.sub_diag. cbn. rewrite app_nil_r.
    rewrite skipn_app, skipn_all, Nat.sub_diag. reflexivity.
  Qed.

  Lemma pieces_concat (ls : list (list A)) : forall (pre : list A),
    ls <> [] ->
    pieces (length pre) (removelast (cumsum_from (length pre) (map (@length A) ls))) (pre ++ concat ls) = ls.
  Proof.
    induction ls as [|l ls IH]; intros pre NN; [easy|].
    destruct ls as [|l2 ls].
    - cbn. unfold slice. rewrite app_nil_r. rewrite firstn_all.
      rewrite skipn_app, skipn_all, Nat.sub_diag. reflexivity.
    - change (map (@length A) (l :: l2 :: ls)) with (length l :: map (@length A) (l2 :: ls)).
      cbn [cumsum_from].
      assert (R : forall x y (r : list nat), removelast (x :: y :: r) = x :: removelast (y :: r)) by reflexivity.
      cbn [map cumsum_from] in *. rewrite R. cbn [pieces]. cbn [concat].
      rewrite slice_app_mid. f_equal.
      specialize (IH (pre ++ l)). rewrite app_length in IH. cbn [concat] in IH.
      rewrite <- app_assoc in IH. apply IH. easy.
  Qed.

  Theorem unpack_pack (leaves : list (list A)) packed :
    pack_pytree leaves = Some packed ->
    unpack_to_pytree packed (map (@length A) leaves) = Some leaves.
  Proof.
    unfold pack_pytree, unpack_to_pytree. destruct leaves as [|l ls]; [discriminate|].
    intros [= <-]. unfold split_at, cumsum.
    pose proof (pieces_concat (l :: ls) [] ltac:(easy)) as PC. cbn [length app concat] in PC. rewrite PC.
    unfold tree_unflatten. now rewrite map_length, Nat.eqb_refl.
  Qed.
  Lemma pack_empty : @pack_pytree A [] = None /\ @stack_pytree A [] = None.
  Proof. split; reflexivity. Qed.

  Lemma chunks_one a : chunks 1 (length a) a = map (fun x => [x]) a.
  Proof. induction a as [|x a IH]; cbn; [reflexivity|]. now rewrite IH. Qed.
  Lemma all_some_squeeze a : all_some (map squeeze1 (map (fun x : A => [x]) a)) = Some a.
  Proof. induction a as [|x a IH]; cbn; [reflexivity|]. cbn in IH. now rewrite IH. Qed.
  Lemma split_sections_self a : a <> [] -> split_sections (length a) a = Some (map (fun x => [x]) a).
  Proof.
    intro NN. unfold split_sections. destruct (length a) as [|n] eqn:E; [now destruct a|].
    rewrite Nat.mod_same, Nat.div_same by lia. cbn [Nat.eqb]. now rewrite <- E, chunks_one.
  Qed.

  Theorem unstack_stack (leaves : list A) stacked :
    stack_pytree leaves = Some stacked -> unstack_to_pytree stacked (length leaves) = Some leaves.
  Proof.
    unfold stack_pytree, unstack_to_pytree. destruct leaves as [|x l]; [discriminate|]. intros [= <-].
    rewrite split_sections_self by easy. rewrite all_some_squeeze.
    unfold tree_unflatten. now rewrite Nat.eqb_refl.
  Qed.

  Lemma concat_pair (a b : list (list A)) :
    length a = length b ->
    map (@concat A) (zip_star [a; b]) = map (fun ab => fst ab ++ snd ab) (combine a b).
  Proof.
    cbn [zip_star]. revert b. induction a as [|x a IH]; intros [|y b] L; cbn in *; try easy.
    rewrite app_nil_r. f_equal. apply IH. lia.
  Qed.
  Lemma combine_map2 {B} (f g : B -> list A) (l : list B) :
    combine (map f l) (map g l) = map (fun b => (f b, g b)) l.
  Proof. induction l as [|b l IH]; cbn; [reflexivity|]. now rewrite IH. Qed.
  Theorem concat_split (i : Z) (inputs : list (list A)) :
    concat_along_axis [fst (split_along_axis i inputs); snd (split_along_axis i inputs)] = Some inputs.
  Proof.
    unfold concat_along_axis, split_along_axis. cbn [fst snd forallb].
    rewrite !map_length, Nat.eqb_refl. cbn [andb]. f_equal.
    rewrite concat_pair by now rewrite !map_length.
    rewrite combine_map2, map_map.
    etransitivity; [|apply map_id]. apply map_ext. intro a. cbn [fst snd].
    unfold slice. cbn [skipn]. rewrite firstn_all. apply firstn_skipn.
  Qed.
End ArrayLemmas.

(** * spectral prefix slice / zero padding *)
Section SpectralLemmas.
  Context {F : Type} (zero : F).

  Theorem down_up_identity (M L M' L' : nat) (x : list (list F)) :
    length x = M -> Forall (fun row => length row = L) x ->
    slice2 M L (pad2 zero (M' - M) (L' - L) L x) = x.
  Proof.
    intros HM HL. unfold slice2, pad2. rewrite map_app, firstn_app, map_length, map_length.
    rewrite HM, Nat.sub_diag. cbn [firstn]. rewrite app_nil_r.
    rewrite firstn_all2 by (rewrite !map_length; lia).
    rewrite map_map. clear HM. induction x as [|row x IH]; cbn; [reflexivity|].
    inversion HL as [|? ? H1 H2]; subst. rewrite IH by auto. f_equal.
    rewrite firstn_app, firstn_all, Nat.sub_diag. cbn. apply app_nil_r.
  Qed.

  (** the option-level statement: whenever upsampling is accepted, downsampling
      back (same wavenumber counts as modal sizes or any consistent pair) is the identity *)
  Theorem downsample_upsample (Mw Lw Mw' Lw' M L M' L' : nat) (x y : list (list F)) :
    length x = M -> Forall (fun row => length row = L) x ->
    (Mw <= Mw')%nat -> (Lw <= Lw')%nat ->
    upsample zero M L M' L' x = Some y ->
    downsample Mw' Lw' Mw Lw M L y = Some x.
  Proof.
    intros HM HL H1 H2. unfold upsample, downsample.
    destruct (Nat.ltb M' M || Nat.ltb L' L); [discriminate|]. intros [= <-].
    assert (E : Nat.ltb Lw' Lw || Nat.ltb Mw' Mw = false).
    { apply orb_false_iff. split; apply Nat.ltb_ge; lia. }
    rewrite E. f_equal. now apply down_up_identity.
  Qed.

  (** upsampling keeps every coefficient at its (m, l) index and fills zeros elsewhere *)
  Theorem upsample_coef (M L dM dL : nat) (x : list (list F)) m l :
    length x = M -> Forall (fun row => length row = L) x ->
    coef zero (pad2 zero dM dL L x) m l =
    if Nat.ltb m M && Nat.ltb l L then coef zero x m l else zero.
  Proof.
    intros HM HL. unfold coef, pad2.
    destruct (Nat.ltb_spec m M) as [Hm|Hm]; cbn [andb].
    - rewrite app_nth1 by (rewrite map_length; lia).
      rewrite (nth_indep _ [] ([] ++ repeat zero dL)) by (rewrite map_length; lia).
      rewrite (map_nth (fun row => row ++ repeat zero dL)).
      assert (Hr : length (nth m x []) = L).
      { rewrite Forall_forall in HL. apply HL. apply nth_In. lia. }
      destruct (Nat.ltb_spec l L) as [Hl|Hl].
      + now rewrite app_nth1 by lia.
      + rewrite app_nth2 by lia. 
        destruct (Nat.ltb_spec (l - length (nth m x [])) dL) as [Hd|Hd].
        * apply nth_repeat.
        * apply nth_overflow. rewrite repeat_length. lia.
    - rewrite app_nth2 by (rewrite map_length; lia). rewrite map_length.
      destruct (Nat.ltb_spec (m - length x) dM) as [Hd|Hd].
      + rewrite (nth_indep _ [] (repeat zero (L + dL))) by (rewrite repeat_length; lia).
        rewrite nth_repeat.
        destruct (Nat.ltb_spec l (L + dL)) as [Hd2|Hd2]; [apply nth_repeat|].
        apply nth_overflow. rewrite repeat_length. lia.
      + rewrite (nth_overflow (repeat (repeat zero (L + dL)) dM)) by (rewrite repeat_length; lia). now destruct l.
  Qed.

  Lemma pad2_shape (M L dM dL : nat) (x : list (list F)) :
    length x = M -> Forall (fun row => length row = L) x ->
    length (pad2 zero dM dL L x) = M + dM /\
    Forall (fun row => length row = L + dL) (pad2 zero dM dL L x).
  Proof.
    intros HM HL. unfold pad2. split.
    - now rewrite app_length, map_length, repeat_length, HM.
    - apply Forall_app. split.
      + rewrite Forall_forall in *. intros r Hr. apply in_map_iff in Hr as (r0 & <- & Hr).
        rewrite app_length, repeat_length. now rewrite (HL _ Hr).
      + apply Forall_forall. intros r Hr. apply repeat_spec in Hr. subst. apply repeat_length.
  Qed.
End SpectralLemmas.

(** * unflatten of an arbitrary prefix-consistent entry list *)
Definition good_entries (sep : Z) (ES : list entry) : Prop :=
  PF ES /\ all_terminal ES /\ NoDup (map fst ES) /\
  (forall e, In e ES -> fst e <> [] /\ nosep sep (fst e)).

Lemma entries_good sep d : wf_tree sep (Node d) = true -> good_entries sep (entries d).
Proof.
  intro W. destruct (entries_facts _ _ W) as (S & P & AT & NE). repeat split; auto; try apply NE; auto.
  destruct d as [|x0 l1]; [constructor|]. rewrite <- entries_t_node by easy. now apply (entries_t_nodup sep).
Qed.

Lemma unflatten_entries sep ES :
  good_entries sep ES ->
  exists r, unflatten_dict sep (mk_items sep [] false (leaf_part ES)) (map (mk sep [] false) (empty_part ES)) = Some r /\
            Spec ES (Node r).
Proof.
  intros (P & AT & NDp & NE).
  destruct (parts_nodup _ NDp) as (P1 & P2 & P3).
  assert (X : forall p, (In p (map fst (leaf_part ES)) \/ In p (empty_part ES)) -> exists val, In (p, val) ES).
  { intros p [H|H].
    - apply in_map_iff in H as ([q v] & <- & H). apply in_leaf_part in H. eauto.
    - apply in_empty_part in H as [l' H]. eauto. }
  assert (INJ : forall p1 p2, (In p1 (map fst (leaf_part ES)) \/ In p1 (empty_part ES)) ->
                (In p2 (map fst (leaf_part ES)) \/ In p2 (empty_part ES)) ->
                mk sep [] false p1 = mk sep [] false p2 -> p1 = p2).
  { intros p1 p2 H1 H2. apply X in H1 as [v1 H1]. apply X in H2 as [v2 H2].
    apply mk_inj; [apply (NE _ H1)|apply (NE _ H2)|apply (NE _ H1)|apply (NE _ H2)]. }
  assert (E : map fst (mk_items sep [] false (leaf_part ES)) = map (mk sep [] false) (map fst (leaf_part ES))).
  { unfold mk_items. now rewrite !map_map. }
  assert (K2 : NoDup (map (mk sep [] false) (empty_part ES))) by (apply nodup_map_inj_in; auto).
  assert (RB : forall e, In e (rebuild ES) <-> In e ES) by (intro; now apply in_rebuild).
  destruct (ins_paths_spec (rebuild ES)) as (r & Hr & Sr).
  { eapply PF_ext; [|exact P]. intro e. symmetry. apply RB. }
  { intros e He. apply RB in He. now apply NE. }
  { intros e He. apply RB in He. now apply AT. }
  exists r. split; [|eapply Spec_ext; [exact RB|exact Sr]].
  unfold unflatten_dict, empty_entries.
  set (EE := map (fun k => (k, Node [])) (map (mk sep [] false) (empty_part ES))).
  assert (FE : map fst EE = map (mk sep [] false) (empty_part ES)).
  { unfold EE. rewrite map_map. cbn. now rewrite map_id. }
  rewrite dict_of_nodup by now rewrite FE.
  rewrite dmerge_fresh.
  - replace (leaf_entries (mk_items sep [] false (leaf_part ES)) ++ EE)
      with (map (fun e : entry => (join sep (fst e), snd e)) (rebuild ES)).
    + rewrite ins_all_join; [exact Hr|]. intros e He. apply RB in He. now apply NE.
    + unfold rebuild, leaf_entries, mk_items, EE. rewrite map_app, !map_map. reflexivity.
  - now rewrite FE.
  - rewrite FE. intros k Hk.
    replace (map fst (leaf_entries (mk_items sep [] false (leaf_part ES))))
      with (map (mk sep [] false) (map fst (leaf_part ES))) by (unfold leaf_entries, mk_items; now rewrite !map_map).
    intro Hk2. apply in_map_iff in Hk as (p1 & <- & H1). apply in_map_iff in Hk2 as (p2 & Eq & H2).
    apply INJ in Eq; auto. subst p2. exact (P3 _ H1 H2).
Qed.

(** converse reading of [Spec]: the entries determine what is found at a path *)
Lemma Spec_conv ES t :
  PF ES -> paths_nonempty ES -> Spec ES t ->
  (forall q w, In (q, Leaf w) ES -> view q t = Some (Some w)) /\
  (forall q e, In e ES -> (pcmp q (fst e) = PQ \/ (fst e = q /\ snd e = Node [])) -> view q t = Some None) /\
  (forall q, q <> [] -> (forall e, In e ES -> pcmp q (fst e) = PInc \/ pcmp q (fst e) = PP) -> view q t = None).
Proof.
  intros P NE S.
  assert (Q0 : view [] t <> None) by (rewrite view_nil; now destruct t).
  split; [|split].
  - intros q w Hi. specialize (S q). destruct (view q t) as [[v|]|].
    + destruct (P _ _ S Hi) as [A|A]; [now injection A as ->|cbn in A; now rewrite pcmp_refl in A].
    + exfalso. destruct S as [->|(e & He & S)]; [now apply (NE _ Hi)|].
      destruct (P _ _ Hi He) as [<-|A]; cbn in *.
      * destruct S as [S|[_ S]]; [now rewrite pcmp_refl in S|easy].
      * destruct S as [S|[S _]]; [congruence|]. rewrite S, pcmp_refl in A. easy.
    + exfalso. specialize (S _ Hi). cbn in S. rewrite pcmp_refl in S. now destruct S.
  - intros q e He Hc. specialize (S q). destruct (view q t) as [[v|]|]; [exfalso| reflexivity |exfalso].
    + destruct (P _ _ S He) as [<-|A]; cbn in *.
      * destruct Hc as [Hc|[_ Hc]]; [now rewrite pcmp_refl in Hc|easy].
      * destruct Hc as [Hc|[Hc _]]; [congruence|]. rewrite Hc, pcmp_refl in A. easy.
    + specialize (S _ He). destruct Hc as [Hc|[Hc _]].
      * rewrite Hc in S. now destruct S.
      * rewrite Hc, pcmp_refl in S. now destruct S.
  - intros q NN H. specialize (S q). destruct (view q t) as [[v|]|]; [exfalso|exfalso|reflexivity].
    + specialize (H _ S). cbn in H. rewrite pcmp_refl in H. now destruct H.
    + destruct S as [->|(e & He & S)]; [easy|]. specialize (H _ He). destruct S as [S|[S _]].
      * rewrite S in H. now destruct H.
      * rewrite S, pcmp_refl in H. now destruct H.
Qed.

(** * replace_with_matching_or_default keeps the structure of [x] *)
Definition relabel (g : list str -> Z) (e : entry) : entry :=
  (fst e, match snd e with Leaf _ => Leaf (g (fst e)) | Node l => Node l end).

Lemma relabel_good sep g ES : good_entries sep ES -> good_entries sep (map (relabel g) ES).
Proof.
  intros (P & AT & ND & NE).
  assert (F : map fst (map (relabel g) ES) = map fst ES) by (rewrite map_map; reflexivity).
  repeat split.
  - intros e1 e2 H1 H2. apply in_map_iff in H1 as (a1 & <- & H1), H2 as (a2 & <- & H2).
    destruct (P _ _ H1 H2) as [->|A]; [now left|now right].
  - intros e He. apply in_map_iff in He as (a & <- & Ha). specialize (AT _ Ha).
    destruct a as [p [v|l]]; cbn in *; auto.
  - now rewrite F.
  - apply in_map_iff in H as (a & <- & Ha). apply (NE _ Ha).
  - apply in_map_iff in H as (a & <- & Ha). apply (NE _ Ha).
Qed.
Lemma relabel_parts g ES :
  leaf_part (map (relabel g) ES) = map (fun pv => (fst pv, g (fst pv))) (leaf_part ES) /\
  empty_part (map (relabel g) ES) = empty_part ES.
Proof.
  unfold leaf_part, empty_part.
  induction ES as [|[p [v|l]] ES [IH1 IH2]]; cbn; [split; reflexivity| |]; rewrite IH1, IH2; split; reflexivity.
Qed.

Theorem replace_structure x repl default chk r :
  wf_dict amp x = true ->
  replace_with_matching_or_default x repl default chk = Some r ->
  forall q, match view q (Node x) with
            | Some (Some _) => exists v, view q (Node r) = Some (Some v)
            | o => view q (Node r) = o
            end.
Proof.
  unfold wf_dict, replace_with_matching_or_default. intros W.
  unfold flatten_dict at 1.
  rewrite (flatten_spec amp (Node x) W x eq_refl [] false).
  destruct (flatten_dict amp [] repl) as [[flat_r er]|]; [|discriminate].
  destruct (chk && _); [discriminate|].
  set (g := fun p => match dget (join amp p) flat_r with Some v => v | None => default end).
  pose proof (entries_good _ _ W) as G.
  pose proof (relabel_good amp g _ G) as G'.
  destruct (relabel_parts g (entries x)) as [L1 L2].
  destruct (unflatten_entries amp _ G') as (r' & Hr' & S').
  rewrite L1, L2 in Hr'.
  assert (Eq : dict_of (map (fun kv : str * Z => (fst kv, match dget (fst kv) flat_r with Some v => v | None => default end))
                            (mk_items amp [] false (leaf_part (entries x))))
               = mk_items amp [] false (map (fun pv => (fst pv, g (fst pv))) (leaf_part (entries x)))).
  { rewrite dict_of_nodup.
    - unfold mk_items. rewrite !map_map. reflexivity.
    - destruct (mk_keys_nodup amp x [] false W) as (K1 & _). unfold mk_items in *. rewrite !map_map in *. exact K1. }
  rewrite Eq, Hr'. intros [= <-] q.
  destruct (entries_facts _ _ W) as (S & P & AT & NE).
  destruct G' as (P' & AT' & ND' & NE').
  destruct (Spec_conv _ _ P' (fun e He => proj1 (NE' e He)) S') as (C1 & C2 & C3).
  assert (IN : forall e, In e (entries x) -> In (relabel g e) (map (relabel g) (entries x))) by (intros; now apply in_map).
  specialize (S q). destruct (view q (Node x)) as [[v|]|] eqn:Ev.
  - eexists. apply C1. apply (IN _ S).
  - destruct S as [->|(e & He & S)]; [reflexivity|].
    apply (C2 q (relabel g e) (IN _ He)). cbn. destruct S as [S|[S1 S2]]; [now left|right]. now rewrite S2.
  - apply C3.
    + intros ->. now rewrite view_nil in Ev.
    + intros e' He'. apply in_map_iff in He' as (e & <- & He). cbn. now apply S.
Qed.

(** * flatten after unflatten, for prefix-consistent flat dictionaries *)
Lemma pcmp_pq_trans q p a : pcmp q p = PQ -> pcmp p a = PQ -> pcmp q a = PQ.
Proof.
  revert p a; induction q as [|x q IH]; intros [|y p] [|z a]; cbn; try easy.
  destruct (str_eqb x y) eqn:E1; [|easy]. apply str_eqb_eq in E1; subst y.
  destruct (str_eqb x z); [apply IH|easy].
Qed.

Lemma Spec_same_entries ES1 ES2 t :
  PF ES1 -> paths_nonempty ES1 -> all_terminal ES1 -> Spec ES1 t ->
  PF ES2 -> paths_nonempty ES2 -> all_terminal ES2 -> Spec ES2 t ->
  forall e, In e ES1 -> In e ES2.
Proof.
  intros P1 N1 T1 S1 P2 N2 T2 S2 [q val] He.
  destruct (Spec_conv _ _ P1 N1 S1) as (C1 & C2 & C3).
  destruct (Spec_conv _ _ P2 N2 S2) as (D1 & D2 & D3).
  destruct val as [v|l].
  - pose proof (C1 _ _ He) as V. specialize (S2 q). now rewrite V in S2.
  - pose proof (T1 _ He) as T. cbn in T. subst l.
    assert (V : view q t = Some None) by (apply (C2 q _ He); right; auto).
    pose proof (S2 q) as S2q. rewrite V in S2q.
    destruct S2q as [->|(e' & He' & [Hc|[Hc1 Hc2]])]; [now apply N1 in He| |].
    + exfalso. (* q is a strict prefix of an entry of ES2: something would lie below an empty dictionary *)
      assert (NV : view (fst e') t <> None).
      { pose proof (T2 _ He') as T. destruct e' as [p [w|l']]; cbn in *.
        - now rewrite (D1 _ _ He').
        - subst l'. rewrite (D2 p _ He'); [easy|]. right. auto. }
      assert (X : forall e'', In e'' ES1 -> pcmp q (fst e'') = PQ -> False).
      { intros e'' H'' Hq. destruct (P1 _ _ He H'') as [<-|A]; cbn in *; [now rewrite pcmp_refl in Hq|congruence]. }
      pose proof (S1 (fst e')) as S1p. destruct (view (fst e') t) as [[w|]|]; [| |easy].
      * apply (X _ S1p). exact Hc.
      * destruct S1p as [E|(e'' & H'' & [Hd|[Hd1 Hd2]])].
        -- rewrite E in Hc. now destruct q.
        -- apply (X _ H''). eapply pcmp_pq_trans; eauto.
        -- apply (X _ H''). now rewrite Hd1.
    + destruct e' as [p l']; cbn in *. now subst.
Qed.

(** keys of an unflattened dictionary never contain the separator *)
Inductive ksf (sep : Z) : tree -> Prop :=
| ksf_leaf v : ksf sep (Leaf v)
| ksf_node l : Forall (fun kc => contains sep (fst kc) = false /\ ksf sep (snd kc)) l -> ksf sep (Node l).

Lemma in_dset_key {V} k (v : V) d a b : In (a, b) (dset k v d) -> In (a, b) d \/ (a = k /\ b = v).
Proof.
  induction d as [|[k' v'] d IH]; cbn.
  - intros [[= <- <-]|[]]. now right.
  - destruct (str_eqb k k') eqn:E; cbn.
    + apply str_eqb_eq in E. subst k'. intros [[= <- <-]|H]; [now right|left; now right].
    + intros [H|H]; [left; now left|]. destruct (IH H); auto.
Qed.
Lemma dset_ksf sep k v d :
  contains sep k = false -> ksf sep (Node d) -> ksf sep v -> ksf sep (Node (dset k v d)).
Proof.
  intros Hk N Nv. inversion N as [|? F]; subst. constructor.
  rewrite Forall_forall in *. intros [a b] H. apply in_dset_key in H. destruct H as [H|[-> ->]]; [exact (F _ H)|].
  cbn. auto.
Qed.
Lemma ins_ksf sep p : forall val d d',
  nosep sep p -> ksf sep (Node d) -> ksf sep val -> ins p val d = Some d' -> ksf sep (Node d').
Proof.
  induction p as [|k rest IH]; intros val d d' NS N Nv H; [discriminate|].
  inversion NS as [|? ? Hk Hr]; subst.
  destruct rest as [|k2 rest].
  - cbn in H. injection H as <-. now apply dset_ksf.
  - rewrite ins_unfold in H. destruct (dget k d) as [[v|sub]|] eqn:G; [discriminate| |].
    + destruct (ins (k2 :: rest) val sub) as [sub'|] eqn:Es; [|discriminate]. injection H as <-.
      apply dset_ksf; auto. apply (IH val sub); auto.
      inversion N as [|? F]; subst. rewrite Forall_forall in F. exact (proj2 (F _ (dget_In _ _ _ G))).
    + destruct (ins (k2 :: rest) val []) as [sub'|] eqn:Es; [|discriminate]. injection H as <-.
      apply dset_ksf; auto. apply (IH val []); auto. constructor. constructor.
Qed.
Lemma ins_all_ksf sep (ES : dict) : forall acc r,
  (forall e, In e ES -> ksf sep (snd e)) -> ksf sep (Node acc) ->
  ins_all sep ES (Some acc) = Some r -> ksf sep (Node r).
Proof.
  unfold ins_all. induction ES as [|e ES IH]; intros acc r HE N H.
  - cbn in H. now injection H as <-.
  - cbn [fold_left] in H. destruct (ins (split sep (fst e)) (snd e) acc) as [acc'|] eqn:Ei.
    + apply (IH acc' r); auto.
      * intros e' He'. apply HE. now right.
      * exact (ins_ksf _ _ _ _ _ (split_parts_nosep sep (fst e)) N (HE e (or_introl eq_refl)) Ei).
    + exfalso. clear -H. induction ES as [|e' ES IH']; [discriminate|]. cbn in H. auto.
Qed.
Lemma unflatten_ksf sep flat empties r : unflatten_dict sep flat empties = Some r -> ksf sep (Node r).
Proof.
  unfold unflatten_dict. intro H.
  assert (N0 : ksf sep (Node [])) by (constructor; constructor).
  eapply ins_all_ksf; [|exact N0|exact H].
  intros [k v] He. cbn.
  assert (G : forall (b a : dict), (forall e, In e a -> ksf sep (snd e)) -> (forall e, In e b -> ksf sep (snd e)) ->
              forall e, In e (dmerge a b) -> ksf sep (snd e)).
  { unfold dmerge. induction b as [|[k' v'] b IHb]; intros a Ha Hb e; cbn; [apply Ha|].
    apply IHb.
    - intros [a1 b1] H1. apply in_dset in H1. destruct H1 as [H1|E]; [exact (Ha _ H1)|]. cbn in *. subst b1. apply (Hb (k', v')). now left.
    - intros e' He'. apply Hb. now right. }
  apply (G _ _) in He; [exact He| |].
  - intros e' He'. unfold leaf_entries in He'. apply in_map_iff in He' as (x & <- & _). constructor.
  - intros e' He'. unfold empty_entries, dict_of in He'.
    apply (G _ []) in He'; [exact He'|easy|].
    intros e'' H''. apply in_map_iff in H'' as (x & <- & _). constructor; constructor.
Qed.
Lemma ndt_ksf_wf sep t : ndt t -> ksf sep t -> wf_tree sep t = true.
Proof.
  induction t as [v|l IH] using tree_ind2; intros N K; [reflexivity|].
  inversion N as [|? ND F]; subst. inversion K as [|? FK]; subst.
  cbn [wf_tree]. apply andb_true_iff. split.
  - apply negb_true_iff. now apply has_dup_false.
  - apply forallb_forall. intros [k c] H. rewrite Forall_forall in *.
    destruct (FK _ H) as [A B]. cbn [fst snd] in A, B. rewrite A. cbn [negb andb]. exact (IH _ H (F _ H) B).
Qed.

Definition flat_entries (sep : Z) (flat : list (str * Z)) (empties : list str) : list entry :=
  map (fun kv => (split sep (fst kv), Leaf (snd kv))) flat ++ map (fun k => (split sep k, Node [])) empties.

Lemma flat_entries_parts sep flat empties :
  leaf_part (flat_entries sep flat empties) = map (fun kv => (split sep (fst kv), snd kv)) flat /\
  empty_part (flat_entries sep flat empties) = map (split sep) empties.
Proof.
  unfold flat_entries. rewrite leaf_part_app, empty_part_app. 
  assert (A : forall fl : list (str * Z), leaf_part (map (fun kv => (split sep (fst kv), Leaf (snd kv))) fl)
                       = map (fun kv => (split sep (fst kv), snd kv)) fl /\
                     empty_part (map (fun kv => (split sep (fst kv), Leaf (snd kv))) fl) = []).
  { induction fl as [|kv fl [I1 I2]]; [split; reflexivity|]. unfold leaf_part, empty_part in *. cbn. rewrite I1, I2. now split. }
  assert (B : forall em : list str, leaf_part (map (fun k => (split sep k, Node [])) em) = [] /\
                     empty_part (map (fun k => (split sep k, Node [])) em) = map (split sep) em).
  { induction em as [|k em [I1 I2]]; [split; reflexivity|]. unfold leaf_part, empty_part in *. cbn. rewrite I1, I2. now split. }
  destruct (A flat) as [A1 A2], (B empties) as [B1 B2]. rewrite A1, A2, B1, B2. now rewrite app_nil_r.
Qed.

(** keys pairwise distinct (a dict and a duplicate-free tuple, disjoint) and
    prefix-consistent (no key path is a prefix of another): unflatten then
    flatten gives the same flat dictionary and empty keys, up to order *)
Theorem flatten_unflatten sep flat empties :
  NoDup (map fst flat ++ empties) ->
  PF (flat_entries sep flat empties) ->
  exists r flat' empties',
    unflatten_dict sep flat empties = Some r /\
    flatten_dict sep [] r = Some (flat', empties') /\
    Permutation flat' flat /\ Permutation empties' empties.
Proof.
  intros ND P. set (ES := flat_entries sep flat empties) in *.
  destruct (flat_entries_parts sep flat empties) as [L1 L2]. fold ES in L1, L2.
  assert (NEs : forall e, In e ES -> fst e <> [] /\ nosep sep (fst e)).
  { intros e He. unfold ES, flat_entries in He. apply in_app_iff in He.
    destruct He as [He|He]; apply in_map_iff in He as (x & <- & _); cbn; split;
      try apply split_nonnil; apply split_parts_nosep. }
  assert (ATs : all_terminal ES).
  { intros e He. unfold ES, flat_entries in He. apply in_app_iff in He.
    destruct He as [He|He]; apply in_map_iff in He as (x & <- & _); cbn; auto. }
  assert (NDs : NoDup (map fst ES)).
  { unfold ES, flat_entries. rewrite map_app, !map_map. cbn.
    replace (map (fun x : str * Z => split sep (fst x)) flat) with (map (split sep) (map fst flat)) by now rewrite map_map.
    rewrite <- map_app. apply nodup_map_inj_in; auto.
    intros a b _ _ E. rewrite <- (join_split sep a), <- (join_split sep b). now rewrite E. }
  assert (G : good_entries sep ES) by (repeat split; auto; apply NEs; auto).
  destruct (unflatten_entries sep ES G) as (r & Hr & Sr).
  rewrite L1, L2 in Hr.
  assert (F1 : mk_items sep [] false (map (fun kv : str * Z => (split sep (fst kv), snd kv)) flat) = flat).
  { unfold mk_items. rewrite map_map. cbn. etransitivity; [|apply map_id]. apply map_ext.
    intros [k v]. cbn. unfold mk, new_key_of. cbn. now rewrite join_split. }
  assert (F2 : map (mk sep [] false) (map (split sep) empties) = empties).
  { rewrite map_map. etransitivity; [|apply map_id]. apply map_ext. intro k. unfold mk, new_key_of. cbn. apply join_split. }
  rewrite F1, F2 in Hr.
  (* the result is a well-formed dictionary *)
  assert (Wr : wf_tree sep (Node r) = true).
  { apply ndt_ksf_wf; [eapply unflatten_ndt; eauto|eapply unflatten_ksf; eauto]. }
  exists r, (mk_items sep [] false (leaf_part (entries r))), (map (mk sep [] false) (empty_part (entries r))).
  split; [exact Hr|]. split; [exact (flatten_spec sep (Node r) Wr r eq_refl [] false)|].
  (* same entries, hence permutations *)
  destruct (entries_facts _ _ Wr) as (S & Pr & ATr & NEr).
  destruct (entries_good _ _ Wr) as (_ & _ & NDr & _).
  assert (PE : Permutation (entries r) ES).
  { apply NoDup_Permutation.
    - eapply NoDup_map_inv; exact NDr.
    - eapply NoDup_map_inv; exact NDs.
    - intro e. split.
      + apply (Spec_same_entries (entries r) ES (Node r)); auto; intros e' He'; [apply NEr|apply NEs]; auto.
      + apply (Spec_same_entries ES (entries r) (Node r)); auto; intros e' He'; [apply NEs|apply NEr]; auto. }
  split.
  - assert (X : Permutation (mk_items sep [] false (leaf_part (entries r))) (mk_items sep [] false (leaf_part ES))).
    { unfold mk_items. apply Permutation_map. unfold leaf_part. now apply Permutation_flat_map. }
    now rewrite L1, F1 in X.
  - assert (X : Permutation (map (mk sep [] false) (empty_part (entries r))) (map (mk sep [] false) (empty_part ES))).
    { apply Permutation_map. unfold empty_part. now apply Permutation_flat_map. }
    now rewrite L2, F2 in X.
Qed.

(** * split_axis (keep_dims) followed by concat_along_axis *)
Section SplitAxis.
  Context {B : Type}.
  Implicit Types X Y : list (list B).

  Lemma zip_star_cons2 (l l2 : list B) r : zip_star (l :: l2 :: r) = zip_cons l (zip_star (l2 :: r)).
  Proof. reflexivity. Qed.

  Lemma zip_star_singletons (l : list B) : l <> [] -> zip_star (map (fun x => [x]) l) = [l].
  Proof.
    induction l as [|x l IH]; [easy|]. intros _. destruct l as [|x2 l]; [reflexivity|].
    cbn [map]. rewrite zip_star_cons2. cbn [map] in IH. rewrite IH by easy. reflexivity.
  Qed.

  Lemma zip_star_zip_cons (l : list B) : forall Y,
    l <> [] -> length l = length Y -> zip_star (zip_cons l Y) = l :: zip_star Y.
  Proof.
    induction l as [|x l IH]; intros [|y Y] NN HL; try easy.
    destruct l as [|x2 l], Y as [|y2 Y]; try (cbn in HL; lia).
    - reflexivity.
    - change (zip_cons (x :: x2 :: l) (y :: y2 :: Y)) with ((x :: y) :: zip_cons (x2 :: l) (y2 :: Y)).
      assert (E : zip_cons (x2 :: l) (y2 :: Y) = (x2 :: y2) :: zip_cons l Y) by reflexivity.
      rewrite E, zip_star_cons2, <- E. rewrite IH by (cbn in *; try easy; lia).
      rewrite zip_star_cons2. reflexivity.
  Qed.

  Lemma zip_cons_length (l : list B) : forall Y, length l = length Y -> length (zip_cons l Y) = length l.
  Proof. induction l as [|x l IH]; intros [|y Y] H; cbn in *; try easy. now rewrite IH by lia. Qed.
  Lemma zip_cons_rows (l : list B) : forall Y m,
    Forall (fun r => length r = m) Y -> Forall (fun r => length r = S m) (zip_cons l Y).
  Proof.
    induction l as [|x l IH]; intros [|y Y] m H; cbn; try constructor.
    - inversion H; subst. cbn. lia.
    - inversion H; subst. now apply IH.
  Qed.

  Lemma zip_star_shape X n :
    X <> [] -> Forall (fun r => length r = n) X ->
    length (zip_star X) = n /\ Forall (fun r => length r = length X) (zip_star X).
  Proof.
    induction X as [|l X IH]; [easy|]. intros _ H. inversion H as [|? ? H1 H2]; subst.
    destruct X as [|l2 X].
    - cbn. rewrite map_length. split; [reflexivity|]. apply Forall_forall. intros r Hr.
      apply in_map_iff in Hr as (x & <- & _). reflexivity.
    - rewrite zip_star_cons2. destruct (IH ltac:(easy) H2) as [I1 I2]. split.
      + rewrite zip_cons_length; auto. 
      + cbn [length]. now apply zip_cons_rows.
  Qed.

  Lemma zip_star_involutive X n :
    X <> [] -> (1 <= n)%nat -> Forall (fun r => length r = n) X -> zip_star (zip_star X) = X.
  Proof.
    induction X as [|l X IH]; [easy|]. intros _ Hn H. inversion H as [|? ? H1 H2]; subst.
    destruct X as [|l2 X].
    - cbn [zip_star]. apply zip_star_singletons. destruct l; [cbn in Hn; lia|easy].
    - rewrite zip_star_cons2. destruct (zip_star_shape (l2 :: X) (length l) ltac:(easy) H2) as [I1 I2].
      rewrite zip_star_zip_cons.
      + f_equal. now apply IH.
      + destruct l; [cbn in Hn; lia|easy].
      + now rewrite I1.
  Qed.
End SplitAxis.

Theorem split_axis_concat {A} (inputs : list (list A)) n :
  inputs <> [] -> (1 <= n)%nat -> Forall (fun a => length a = n) inputs ->
  exists trees, split_axis_keep inputs = Some trees /\ length trees = n /\
                concat_along_axis trees = Some inputs.
Proof.
  intros NN Hn HL.
  set (X := map (map (fun x : A => [x])) inputs).
  assert (HX : Forall (fun r => length r = n) X).
  { unfold X. rewrite Forall_forall in *. intros r Hr. apply in_map_iff in Hr as (a & <- & Ha).
    rewrite map_length. auto. }
  assert (XN : X <> []) by (unfold X; destruct inputs; easy).
  assert (AS : all_some (map (split_sections n) inputs) = Some X).
  { unfold X. clear NN XN HX. induction inputs as [|a inputs IH]; [reflexivity|].
    inversion HL as [|? ? H1 H2]; subst. cbn [map all_some].
    rewrite split_sections_self by (destruct a; [cbn in Hn; lia|easy]). now rewrite (IH H2). }
  exists (zip_star X).
  destruct (zip_star_shape X n XN HX) as [S1 S2].
  split; [|split; [exact S1|]].
  - unfold split_axis_keep. destruct inputs as [|a0 rest]; [easy|].
    pose proof (Forall_inv HL) as H1. pose proof (Forall_inv_tail HL) as H2. cbn beta in H1.
    assert (FB : forallb (fun a => Nat.eqb (length a) (length a0)) rest = true).
    { apply forallb_forall. intros a Ha. rewrite Forall_forall in H2. apply Nat.eqb_eq.
      rewrite H1. exact (H2 _ Ha). }
    now rewrite FB, H1, AS.
  - unfold concat_along_axis. destruct (zip_star X) as [|t0 trest] eqn:EZ; [cbn in S1; lia|].
    assert (FB : forallb (fun t => Nat.eqb (length t) (length t0)) trest = true).
    { apply forallb_forall. intros t Ht. rewrite Forall_forall in S2. apply Nat.eqb_eq.
      rewrite (S2 t0 (or_introl eq_refl)), (S2 t (or_intror Ht)). reflexivity. }
    rewrite FB, <- EZ. rewrite (zip_star_involutive X n XN Hn HX). f_equal.
    unfold X. rewrite map_map. etransitivity; [|apply map_id]. apply map_ext.
    intro a. induction a as [|x a IHa]; cbn; [reflexivity|]. now rewrite IHa.
Qed.
