(** C12 for the END-TO-END executable whole-state model (Model/PrimEqFull.v).

    Thm/ScalingColumn.v proves [modal_tendencies_covariant] over ABSTRACT horizontal
    operators that are ASSUMED homogeneous in the radius.  Here:
    (1) the CONCRETE operators of Model/SHT.v / Model/Deriv.v satisfy those hypotheses:
        to_nodal / to_modal / clip do not see the radius, laplacian scales with radius^-2,
        cos_lat_grad / div_cos_lat / curl_cos_lat with radius^-1, inverse_laplacian with
        radius^2, get_cos_lat_vector with radius (every field, every size, every index);
        gradient and laplacian annihilate the (0,0) coefficient (the log-pressure shift);
    (2) compute_diagnostic_state maps the rescaled state to the rescaled nodal columns
        ([diag_covariant]);
    (3) hence explicit_terms_full / implicit_terms_full of the rescaled problem
        (grid with rescaled radius and rotation rate, rescaled constants, rescaled state)
        are the rescaled tendencies on every in-range coefficient
        ([whole_state_tendencies_covariant]);
    (4) [whole_state_HF_HG]: these are, coefficient by coefficient, the hypotheses HF and HG of
        [step_covariant] (Thm/Scaling.v) with tau * kr = 1;
    (5) [whole_state_step_covariant_partial]: the explicit update u + dt (F u + G u) (round 1);
    (6) [whole_state_inverse_covariant]: implicit_inverse_full (method 'split') of the rescaled state
        with step tau * eta is the rescaled result, given that the inverse tables are a right inverse
        (first scale) and a left inverse (second scale) of the assembled implicit matrices;
    (7) [explicit_terms_full_ext] / [implicit_terms_full_ext] / [implicit_inverse_full_ext]: the model
        functions read the state on the index range only; [StOps]: the in-range part of State as a
        vector space whose laws are Leibniz equalities (normal forms + functional extensionality);
    (8) [whole_state_step_covariant]: backward-forward Euler, Crank-Nicolson RK2, the low-storage
        schemes, every IMEX tableau and leapfrog applied to explicit_terms_full / implicit_terms_full /
        implicit_inverse_full commute with the change of scale; [whole_state_trajectory_covariant]:
        any number of filtered steps.  Tracers are not covered (dropped by the state space).

    Change of scale, in the convention of [scale_ncol] / [scale_cfg] (Model/Scaling.v):
    multipliers ku (velocity), kr (rates), kT (temperature), kg (inverse length),
    kR (gas constant), kL (length) with ku*kg = kr, kR*kT*kg = ku*kr, kL*kg = 1 - all true
    for [factor s d] of any non-zero scale (see Prop/C12.v). *)
From Dino Require Import Base.Ops Base.Sums Base.Ord Model.Sigma Model.Implicit Model.PrimEq Model.SHT Model.Deriv
     Model.PrimEqFull Model.Integrators Model.Scaling Gen.DerivExprs
     Thm.SHT Thm.Deriv Thm.Implicit Thm.PrimEq Thm.PrimEqFull Thm.Scaling Thm.ScalingColumn.
From Coq Require Import FunctionalExtensionality.
Local Open Scope F_scope.

(** the same grid seen through another scale: only the (non-dimensional) radius and the
    rotation rate change; every table is dimensionless *)
Definition rescale_grid {F : Type} {o : Ops F} (kL kr : F) (g : @HGrid F) : @HGrid F :=
  mkHG (hM g) (hL g) (hI g) (hJ g) (kL * hr g) (hf g) (hp g) (hw g) (ha g) (hb g) (hsec2 g) (hsin g) (kr * homega g).

(** the (0,0) coefficient: where the log-surface-pressure shift lives *)
Definition e00 {F : Type} {o : Ops F} : nat -> nat -> F :=
  fun a l => if (Nat.eqb a 0 && Nat.eqb l 0)%bool then 1 else 0.

(** the state of the same physical problem under the second scale *)
Definition scale_state {F : Type} {o : Ops F} (kr kT shift : F) (s : @State F) : @State F :=
  mkState (fun k a l => kr * s_vort s k a l) (fun k a l => kr * s_div s k a l) (fun k a l => kT * s_temp s k a l)
          (fun a l => s_lnps s a l + shift * e00 a l) (s_tr s).

Section MemoSpec.
  Context {F : Type} {o : Ops F} {Fc : FieldC o}.
  Add Field FFsf0 : (field_c : FieldTh o).

  Lemma sh_memo2_spec n m (x : nat -> nat -> F) a j :
    sh_memo2 n m x a j = if (Nat.ltb a n && Nat.ltb j m)%bool then x a j else 0.
  Proof.
    destruct (Nat.ltb_spec a n) as [Ha|Ha]; cbn [andb].
    - destruct (Nat.ltb_spec j m) as [Hj|Hj].
      + now apply sh_memo2_ok.
      + unfold sh_memo2. rewrite (nth_map_seq (fun a0 => map (x a0) (seq 0 m)) n a []) by assumption.
        apply nth_overflow. now rewrite map_length, seq_length.
    - now apply sh_memo2_out_row.
  Qed.

  Lemma memo3_spec n m q (x : nat -> nat -> nat -> F) k a j :
    memo3 n m q x k a j = if (Nat.ltb k n && Nat.ltb a m && Nat.ltb j q)%bool then x k a j else 0.
  Proof.
    destruct (Nat.ltb_spec k n) as [Hk|Hk]; cbn [andb].
    - destruct (Nat.ltb_spec a m) as [Ha|Ha]; cbn [andb].
      + destruct (Nat.ltb_spec j q) as [Hj|Hj].
        * now apply memo3_ok.
        * unfold memo3.
          rewrite (nth_map_seq (fun k0 => map (fun a0 => map (x k0 a0) (seq 0 q)) (seq 0 m)) n k []) by assumption.
          rewrite (nth_map_seq (fun a0 => map (x k a0) (seq 0 q)) m a []) by assumption.
          apply nth_overflow. now rewrite map_length, seq_length.
      + unfold memo3.
        rewrite (nth_map_seq (fun k0 => map (fun a0 => map (x k0 a0) (seq 0 q)) (seq 0 m)) n k []) by assumption.
        rewrite (nth_overflow (map (fun a0 => map (x k a0) (seq 0 q)) (seq 0 m)) []) by (rewrite map_length, seq_length; exact Ha).
        destruct j; reflexivity.
    - unfold memo3.
      rewrite (nth_overflow (map (fun k0 => map (fun a0 => map (x k0 a0) (seq 0 q)) (seq 0 m)) (seq 0 n)) [])
        by (rewrite map_length, seq_length; exact Hk).
      destruct a; destruct j; reflexivity.
  Qed.
End MemoSpec.

(** ** homogeneity (degree one) of the shift / spectral derivative operators, every index *)
Section OpScal.
  Context {F : Type} {o : Ops F} {Fc : FieldC o}.
  Add Field FFsf1 : (field_c : FieldTh o).

  Lemma shift1_scal_ext n off c (x y : nat -> F) k :
    (forall j, y j = c * x j) -> shift1 n off y k = c * shift1 n off x k.
  Proof.
    intros H. unfold shift1.
    destruct (Z.leb (Z.of_nat n) (Z.abs off)); [ring|].
    destruct (Z.ltb 0 off).
    - destruct (Nat.ltb k (Z.to_nat off)); [ring|apply H].
    - destruct (Nat.ltb (k + Z.to_nat (- off)) n); [apply H|ring].
  Qed.

  Lemma dlon_ref_scal_ext R c (x y : nat -> nat -> F) i l :
    (forall i l, y i l = c * x i l) -> dlon_ref R y i l = c * dlon_ref R x i l.
  Proof.
    intros H. unfold dlon_ref, shift_rows.
    rewrite (shift1_scal_ext R dref_down_off c (fun i' => x i' l) (fun i' => y i' l)) by (intros; apply H).
    rewrite (shift1_scal_ext R dref_up_off c (fun i' => x i' l) (fun i' => y i' l)) by (intros; apply H).
    unfold dref_sel. destruct (dref_cond i); ring.
  Qed.

  Lemma D1_scal_ext L C (a b : nat -> nat -> F) c (x y : nat -> nat -> F) i l :
    (forall i l, y i l = c * x i l) -> D1 L C a b y i l = c * D1 L C a b x i l.
  Proof.
    intros H. unfold D1, shift_cols.
    rewrite (shift1_scal_ext C d1_om c (fun l0 => d1_wm (lit (laxis L l0)) (a i l0) * x i l0)
               (fun l0 => d1_wm (lit (laxis L l0)) (a i l0) * y i l0)) by (intros; rewrite H; ring).
    rewrite (shift1_scal_ext C d1_op c (fun l0 => d1_wp (lit (laxis L l0)) (b i l0) * x i l0)
               (fun l0 => d1_wp (lit (laxis L l0)) (b i l0) * y i l0)) by (intros; rewrite H; ring).
    ring.
  Qed.

  Lemma D1_lin L C (a b x y : nat -> nat -> F) (t : F) i l :
    D1 L C a b (fun i l => x i l + t * y i l) i l = D1 L C a b x i l + t * D1 L C a b y i l.
  Proof.
    unfold D1, shift_cols.
    rewrite (shift1_ext_all C d1_om (fun l0 => d1_wm (lit (laxis L l0)) (a i l0) * (x i l0 + t * y i l0))
               (fun l0 => d1_wm (lit (laxis L l0)) (a i l0) * x i l0 + t * (d1_wm (lit (laxis L l0)) (a i l0) * y i l0)))
      by (intros; ring).
    rewrite (shift1_ext_all C d1_op (fun l0 => d1_wp (lit (laxis L l0)) (b i l0) * (x i l0 + t * y i l0))
               (fun l0 => d1_wp (lit (laxis L l0)) (b i l0) * x i l0 + t * (d1_wp (lit (laxis L l0)) (b i l0) * y i l0)))
      by (intros; ring).
    rewrite !shift1_lin. ring.
  Qed.

  (** the horizontal derivatives annihilate the (0,0) coefficient *)
  Lemma dlon_e00 R a l : (a < R)%nat -> dlon_ref R (e00 (F := F)) a l = 0.
  Proof.
    intros Ha. rewrite dlon_ref_unfold by assumption. unfold e00.
    destruct (Nat.eqb (a mod 2) 0) eqn:E; cbn [negb].
    - destruct (Nat.eqb_spec a 0) as [Z|NZ]; [ring|].
      destruct (Nat.eqb_spec (a - 1) 0) as [Z1|NZ1]; cbn [andb]; [|ring].
      exfalso. assert (a = 1)%nat by lia. subst a. cbn in E. discriminate E.
    - destruct (Nat.ltb (S a) R); [|ring]. cbn [Nat.eqb andb]. ring.
  Qed.

  Lemma D1_e00 L C (a b : nat -> nat -> F) i l : (l < C)%nat -> D1 L C a b (e00 (F := F)) i l = 0.
  Proof.
    intros Hl. rewrite D1_entries by assumption. unfold tri, e00.
    cbn [Nat.eqb]. rewrite Bool.andb_false_r.
    destruct (Nat.eqb_spec l 0) as [Z|NZ].
    - destruct (Nat.ltb (S l) C); ring.
    - destruct (Nat.eqb_spec (l - 1) 0) as [Z1|NZ1].
      + rewrite Z1. unfold laxis. destruct (Nat.ltb 0 L); cbn [lit]; destruct (Nat.ltb (S l) C); ring.
      + rewrite Bool.andb_false_r. destruct (Nat.ltb (S l) C); ring.
  Qed.

  (** scalar multiples through linear operators *)
  Lemma lin2_scal {A B} (D : (A -> F) -> (A -> F) -> B -> F) (HD : linear2 D) (k : F) (x y : A -> F) b :
    D (fun v => k * x v) (fun v => k * y v) b = k * D x y b.
  Proof.
    rewrite (lin2_comb D HD (fun v => k * x v) (fun _ => 0) x (fun v => k * y v) (fun _ => 0) y k)
      by (intros; ring).
    rewrite lin2_zero by exact HD. ring.
  Qed.
  Lemma lin2_scal_ext {A B} (D : (A -> F) -> (A -> F) -> B -> F) (HD : linear2 D) (k : F) (x y x' y' : A -> F) b :
    (forall v, x' v = k * x v) -> (forall v, y' v = k * y v) -> D x' y' b = k * D x y b.
  Proof.
    intros Hx Hy. rewrite (proj1 HD x' (fun v => k * x v) y' (fun v => k * y v) Hx Hy). now apply lin2_scal.
  Qed.
  Lemma lin_add {A B} (T : (A -> F) -> B -> F) (HT : linear T) (x y : A -> F) b :
    T (fun v => x v + y v) b = T x b + T y b.
  Proof. rewrite (lin_comb T HT (fun v => x v + y v) x y 1) by (intros; ring). ring. Qed.
End OpScal.

(** ** the executable whole-state functions read their argument on the index range only *)
Section StateExt.
  Context {F : Type} {o : Ops F} {Fc : FieldC o}.
  Add Field FFsf3 : (field_c : FieldTh o).

  Definition agree (K R L : nat) (s1 s2 : @State F) : Prop :=
    (forall k a l, (k < K)%nat -> (a < R)%nat -> (l < L)%nat ->
       s_vort s1 k a l = s_vort s2 k a l /\ s_div s1 k a l = s_div s2 k a l /\ s_temp s1 k a l = s_temp s2 k a l) /\
    (forall a l, (a < R)%nat -> (l < L)%nat -> s_lnps s1 a l = s_lnps s2 a l).

  Lemma D1_ext_range L C (a b x y : nat -> nat -> F) i l :
    (l < C)%nat -> (forall l', (l' < C)%nat -> x i l' = y i l') -> D1 L C a b x i l = D1 L C a b y i l.
  Proof.
    intros Hl H. unfold D1, shift_cols.
    rewrite (shift1_ext C d1_om (fun l0 => d1_wm (lit (laxis L l0)) (a i l0) * x i l0)
               (fun l0 => d1_wm (lit (laxis L l0)) (a i l0) * y i l0)) by (try assumption; intros; now rewrite H).
    rewrite (shift1_ext C d1_op (fun l0 => d1_wp (lit (laxis L l0)) (b i l0) * x i l0)
               (fun l0 => d1_wp (lit (laxis L l0)) (b i l0) * y i l0)) by (try assumption; intros; now rewrite H).
    reflexivity.
  Qed.

  Variable g : @HGrid F.
  Notation R := (hR g).
  Notation L := (hL g).

  Lemma uvm_ext (vo dv vo' dv' : nat -> nat -> F) a l :
    (a < R)%nat -> (l < L)%nat ->
    (forall a l, (a < R)%nat -> (l < L)%nat -> vo a l = vo' a l) ->
    (forall a l, (a < R)%nat -> (l < L)%nat -> dv a l = dv' a l) ->
    fst (uvm g vo dv) a l = fst (uvm g vo' dv') a l /\ snd (uvm g vo dv) a l = snd (uvm g vo' dv') a l.
  Proof.
    intros Ha Hl Hv Hd.
    assert (E : forall x x' : nat -> nat -> F, (forall a l, (a < R)%nat -> (l < L)%nat -> x a l = x' a l) ->
                dlon_ref R (inverse_laplacian L (hr g) x) a l = dlon_ref R (inverse_laplacian L (hr g) x') a l /\
                D1 L L (ha g) (hb g) (inverse_laplacian L (hr g) x) a l = D1 L L (ha g) (hb g) (inverse_laplacian L (hr g) x') a l).
    { intros x x' H. split.
      - apply (d_dlon_ext false R); [|exact Ha]. intros i' Hi. unfold inverse_laplacian. now rewrite H.
      - apply D1_ext_range; [exact Hl|]. intros l' Hl'. unfold inverse_laplacian. now rewrite H. }
    destruct (E vo vo' Hv) as [E1 E2]. destruct (E dv dv' Hd) as [E3 E4].
    split.
    - change (fst (uvm g vo dv) a l) with
        (dlon_ref R (inverse_laplacian L (hr g) dv) a l / hr g + - (D1 L L (ha g) (hb g) (inverse_laplacian L (hr g) vo) a l / hr g)).
      rewrite E3, E2. reflexivity.
    - change (snd (uvm g vo dv) a l) with
        (D1 L L (ha g) (hb g) (inverse_laplacian L (hr g) dv) a l / hr g + dlon_ref R (inverse_laplacian L (hr g) vo) a l / hr g).
      rewrite E4, E1. reflexivity.
  Qed.

  Lemma gradm_ext (x x' : nat -> nat -> F) a l :
    (a < R)%nat -> (l < L)%nat -> (forall a l, (a < R)%nat -> (l < L)%nat -> x a l = x' a l) ->
    fst (gradm g x) a l = fst (gradm g x') a l /\ snd (gradm g x) a l = snd (gradm g x') a l.
  Proof.
    intros Ha Hl H. unfold gradm, cos_lat_grad, clip_if. cbn [fst snd]. split.
    - rewrite (d_dlon_ext false R x x' a l) by (try assumption; intros; now apply H). reflexivity.
    - rewrite (D1_ext_range L L (ha g) (hb g) x x' a l) by (try assumption; intros; now apply H). reflexivity.
  Qed.

  Lemma to_nodal3_ext K (x y : nat -> nat -> nat -> F) k i j :
    (forall k a l, (k < K)%nat -> (a < R)%nat -> (l < L)%nat -> x k a l = y k a l) ->
    to_nodal3 g K x k i j = to_nodal3 g K y k i j.
  Proof.
    intros H. unfold to_nodal3. rewrite !memo3_spec.
    destruct (Nat.ltb_spec k K) as [Hk|Hk]; cbn [andb]; [|reflexivity].
    destruct (Nat.ltb i (hI g)); cbn [andb]; [|reflexivity].
    destruct (Nat.ltb_spec j (hJ g)) as [Hj|Hj]; [|reflexivity].
    unfold to_nodal. apply synth_ext; [exact Hj|]. intros; now apply H.
  Qed.

  Lemma nodal2_ext (x y : nat -> nat -> F) i j :
    (forall a l, (a < R)%nat -> (l < L)%nat -> x a l = y a l) ->
    sh_memo2 (hI g) (hJ g) (to_nodal g x) i j = sh_memo2 (hI g) (hJ g) (to_nodal g y) i j.
  Proof.
    intros H. rewrite !sh_memo2_spec.
    destruct (Nat.ltb i (hI g)); cbn [andb]; [|reflexivity].
    destruct (Nat.ltb_spec j (hJ g)) as [Hj|Hj]; [|reflexivity].
    unfold to_nodal. apply synth_ext; [exact Hj|]. intros; now apply H.
  Qed.

  Lemma diag_ext K (s1 s2 : @State F) :
    agree K R L s1 s2 -> X_of g (diagnostic_state g K s1) = X_of g (diagnostic_state g K s2).
  Proof.
    intros [A3 A2]. apply functional_extensionality. intros [i j].
    unfold X_of, diagnostic_state.
    cbn [fst snd d_u d_v d_vort d_div d_temp d_gx d_gy].
    f_equal.
    - apply functional_extensionality; intro k. apply to_nodal3_ext. intros k0 a l Hk Ha Hl.
      apply uvm_ext; try assumption; intros a0 l0 Ha0 Hl0; now apply A3.
    - apply functional_extensionality; intro k. apply to_nodal3_ext. intros k0 a l Hk Ha Hl.
      apply uvm_ext; try assumption; intros a0 l0 Ha0 Hl0; now apply A3.
    - apply functional_extensionality; intro k. apply to_nodal3_ext. intros; now apply A3.
    - apply functional_extensionality; intro k. apply to_nodal3_ext. intros; now apply A3.
    - apply functional_extensionality; intro k. apply to_nodal3_ext. intros; now apply A3.
    - apply nodal2_ext. intros a l Ha Hl. now apply gradm_ext.
    - apply nodal2_ext. intros a l Ha Hl. now apply gradm_ext.
  Qed.

  Variable c : @PEcfg F.

  Theorem explicit_terms_full_ext grav orog (s1 s2 : @State F) k a l :
    agree (cK c) R L s1 s2 -> (k < cK c)%nat -> (a < R)%nat -> (l < L)%nat ->
    let E1 := explicit_terms_full g c grav orog s1 in let E2 := explicit_terms_full g c grav orog s2 in
    s_vort E1 k a l = s_vort E2 k a l /\ s_div E1 k a l = s_div E2 k a l /\
    s_temp E1 k a l = s_temp E2 k a l /\ s_lnps E1 a l = s_lnps E2 a l.
  Proof.
    intros Hag Hk Ha Hl.
    destruct (explicit_terms_full_is_assembly g c grav orog s1 k a l Hk Ha Hl) as (V & D & T & P).
    destruct (explicit_terms_full_is_assembly g c grav orog s2 k a l Hk Ha Hl) as (V' & D' & T' & P').
    cbv zeta in *. rewrite V, D, T, P, V', D', T', P', (diag_ext (cK c) s1 s2 Hag). repeat split.
  Qed.

  Lemma col_of_agree (s1 s2 : @State F) a l :
    agree (cK c) R L s1 s2 -> (a < R)%nat -> (l < L)%nat -> col_eq (cK c) (col_of s1 a l) (col_of s2 a l).
  Proof.
    intros [A3 A2] Ha Hl. repeat split; cbn [col_of c_div c_temp c_lnps]; intros; try (now apply A3). now apply A2.
  Qed.

  Theorem implicit_terms_full_ext (s1 s2 : @State F) a l :
    agree (cK c) R L s1 s2 -> (a < R)%nat -> (l < L)%nat ->
    col_eq (cK c) (col_of (implicit_terms_full g c s1) a l) (col_of (implicit_terms_full g c s2) a l).
  Proof.
    intros Hag Ha Hl.
    eapply col_eq_trans; [apply implicit_terms_full_column|].
    eapply col_eq_trans; [apply implicit_terms_col_ext; apply (col_of_agree s1 s2 a l Hag Ha Hl)|].
    apply col_eq_sym. apply implicit_terms_full_column.
  Qed.

  Lemma inverse_split_ext (X : @Mat F) eta lm (y1 y2 : @Col F) :
    col_eq (cK c) y1 y2 ->
    col_eq (cK c) (inverse_split (fun _ _ => X) c eta lm y1) (inverse_split (fun _ _ => X) c eta lm y2).
  Proof.
    intros H.
    eapply col_eq_trans; [apply split_eq_stacked|].
    eapply col_eq_trans; [|apply col_eq_sym; apply split_eq_stacked].
    unfold inverse_stacked, unstack. cbv zeta.
    repeat split; cbn [c_div c_temp c_lnps]; intros; apply matvec_ext; intros; now apply stack_ext.
  Qed.

  Theorem implicit_inverse_full_ext eta invt (s1 s2 : @State F) a l :
    agree (cK c) R L s1 s2 -> (a < R)%nat -> (l < L)%nat ->
    col_eq (cK c) (col_of (implicit_inverse_full g c eta invt s1) a l) (col_of (implicit_inverse_full g c eta invt s2) a l).
  Proof.
    intros Hag Ha Hl.
    pose proof (inverse_split_ext (invt l) eta (Deriv.lap_eig L (hr g) l) _ _ (col_of_agree s1 s2 a l Hag Ha Hl)) as (A & B & C).
    repeat split; cbn [col_of implicit_inverse_full s_div s_temp s_lnps c_div c_temp c_lnps]; intros.
    - now apply A.
    - now apply B.
    - exact C.
  Qed.
End StateExt.

Section WholeState.
  Context {F : Type} {o : Ops F} {Fc : FieldC o}.
  Add Field FFsf2 : (field_c : FieldTh o).
  Variables (ku kr kT kg kR kL : F).
  Hypothesis H_rate : ku * kg = kr.
  Hypothesis H_accel : kR * kT * kg = ku * kr.
  Hypothesis H_len : kL * kg = 1.
  Variable g : @HGrid F.
  Hypothesis r_nz : hr g <> 0.
  (** the characteristic of the field does not divide l (l + 1) for the wavenumbers in use
      (the inverse Laplacian divides by it); true in Qc and R *)
  Hypothesis lit_nz : forall l, (1 <= l < hL g)%nat -> lit l <> (0 : F) /\ lit l + 1 <> (0 : F).
  Notation g' := (rescale_grid kL kr g).

  Lemma kL_nz : kL <> 0.
  Proof. intro E. apply (@one_nz F o Fc). rewrite <- H_len, E. ring. Qed.
  Lemma kg_eq : kg = 1 / kL.
  Proof. transitivity (kL * kg / kL); [field; exact kL_nz | rewrite H_len; reflexivity]. Qed.
  Lemma ku_eq : ku = kL * kr.
  Proof. rewrite <- H_rate. transitivity (ku * (kL * kg)); [rewrite H_len; ring | ring]. Qed.

  (** *** (1) operator laws of the concrete transforms *)
  Theorem lapm_radius x a l : lapm g' x a l = kg * kg * lapm g x a l.
  Proof.
    change (lapm g' x a l) with (Deriv.laplacian (hL g) (kL * hr g) x a l). unfold lapm.
    destruct (radius_scaling false (hL g) 0 0 (hr g) kL (fun _ _ => 0) (fun _ _ => 0) x (x, x) false a l r_nz kL_nz) as (E & _).
    rewrite E, kg_eq. field. exact kL_nz.
  Qed.
  Theorem divm_radius x y a l : divm g' x y a l = kg * divm g x y a l.
  Proof.
    change (divm g' x y a l) with (div_cos_lat false (hL g) (hR g) (hL g) (kL * hr g) (ha g) (hb g) false (x, y) a l).
    unfold divm.
    destruct (radius_scaling false (hL g) (hR g) (hL g) (hr g) kL (ha g) (hb g) x (x, y) false a l r_nz kL_nz) as (_ & _ & _ & _ & E & _).
    rewrite E, kg_eq. field. exact kL_nz.
  Qed.
  Theorem curlm_radius x y a l : curlm g' x y a l = kg * curlm g x y a l.
  Proof.
    change (curlm g' x y a l) with (curl_cos_lat false (hL g) (hR g) (hL g) (kL * hr g) (ha g) (hb g) false (x, y) a l).
    unfold curlm.
    destruct (radius_scaling false (hL g) (hR g) (hL g) (hr g) kL (ha g) (hb g) x (x, y) false a l r_nz kL_nz) as (_ & _ & _ & _ & _ & E).
    rewrite E, kg_eq. field. exact kL_nz.
  Qed.
  Theorem gradm_radius x a l :
    fst (gradm g' x) a l = kg * fst (gradm g x) a l /\ snd (gradm g' x) a l = kg * snd (gradm g x) a l.
  Proof.
    change (gradm g' x) with (cos_lat_grad false (hL g) (hR g) (hL g) (kL * hr g) (ha g) (hb g) false x).
    unfold gradm.
    destruct (radius_scaling false (hL g) (hR g) (hL g) (hr g) kL (ha g) (hb g) x (x, x) false a l r_nz kL_nz) as (_ & _ & E1 & E2 & _).
    rewrite E1, E2, kg_eq. split; field; exact kL_nz.
  Qed.
  Theorem invlap_radius x a l :
    inverse_laplacian (hL g) (kL * hr g) x a l = kL * kL * inverse_laplacian (hL g) (hr g) x a l.
  Proof.
    destruct (Nat.eq_dec l 0) as [Z|NZ]; [rewrite !inverse_laplacian_zero by (left; exact Z); ring|].
    destruct (le_lt_dec (hL g) l) as [Hge|Hlt]; [rewrite !inverse_laplacian_zero by (right; exact Hge); ring|].
    assert (Hl : (1 <= l < hL g)%nat) by lia.
    destruct (lit_nz l Hl) as [N0 N1].
    destruct (radius_scaling false (hL g) 0 0 (hr g) kL (fun _ _ => 0) (fun _ _ => 0) x (x, x) false a l r_nz kL_nz) as (_ & E & _).
    rewrite (E Hl N0 N1). ring.
  Qed.

  (** the hypotheses of [modal_tendencies_covariant], for the concrete operators *)
  Theorem concrete_operators_homogeneous :
    (forall x w, toN_c g' x w = toN_c g x w) /\
    (forall z w, toM_c g' z w = toM_c g z w) /\
    (forall x w, clip_c g' x w = clip_c g x w) /\
    (forall x y w, divc_c g' x y w = kg * divc_c g x y w) /\
    (forall x y w, curlc_c g' x y w = kg * curlc_c g x y w) /\
    (forall x w, lap_c g' x w = kg * kg * lap_c g x w) /\
    (forall k f w, toM_c g (fun p => k * f p) w = k * toM_c g f w) /\
    (forall k x y w, divc_c g (fun v => k * x v) (fun v => k * y v) w = k * divc_c g x y w) /\
    (forall k x y w, curlc_c g (fun v => k * x v) (fun v => k * y v) w = k * curlc_c g x y w) /\
    (forall k x w, lap_c g (fun v => k * x v) w = k * lap_c g x w) /\
    (forall x y w, lap_c g (fun v => x v + y v) w = lap_c g x w + lap_c g y w) /\
    (forall k x w, clip_c g (fun v => k * x v) w = k * clip_c g x w) /\
    (forall v w, lap_c g (onem00 v) w = 0).
  Proof.
    split; [reflexivity|]. split; [reflexivity|]. split; [reflexivity|].
    split; [intros x y [a l]; apply divm_radius|].
    split; [intros x y [a l]; apply curlm_radius|].
    split; [intros x [a l]; apply lapm_radius|].
    split; [intros k f w; apply (lin_scal (toM_c g) (toM_c_lin g)); reflexivity|].
    split; [intros k x y w; apply (lin2_scal (divc_c g) (divc_c_lin g))|].
    split; [intros k x y w; apply (lin2_scal (curlc_c g) (curlc_c_lin g))|].
    split; [intros k x w; apply (lin_scal (lap_c g) (lap_c_lin g)); reflexivity|].
    split; [intros x y w; apply (lin_add (lap_c g) (lap_c_lin g))|].
    split; [intros k x w; apply (lin_scal (clip_c g) (clip_c_lin g)); reflexivity|].
    intros v w. apply lap_c_const.
  Qed.

  (** get_cos_lat_vector: velocities from rates, one power of the radius *)
  Lemma uvm_unfold (g0 : @HGrid F) (vo dv : nat -> nat -> F) a l :
    fst (uvm g0 vo dv) a l
    = dlon_ref (hR g0) (inverse_laplacian (hL g0) (hr g0) dv) a l / hr g0
      + - (D1 (hL g0) (hL g0) (ha g0) (hb g0) (inverse_laplacian (hL g0) (hr g0) vo) a l / hr g0) /\
    snd (uvm g0 vo dv) a l
    = D1 (hL g0) (hL g0) (ha g0) (hb g0) (inverse_laplacian (hL g0) (hr g0) dv) a l / hr g0
      + dlon_ref (hR g0) (inverse_laplacian (hL g0) (hr g0) vo) a l / hr g0.
  Proof. split; reflexivity. Qed.

  Lemma invlap_cov c (x : nat -> nat -> F) a l :
    inverse_laplacian (hL g) (kL * hr g) (fun a l => c * x a l) a l
    = c * (kL * kL) * inverse_laplacian (hL g) (hr g) x a l.
  Proof. rewrite invlap_radius. unfold inverse_laplacian. ring. Qed.

  Theorem uvm_covariant (vo dv : nat -> nat -> F) a l :
    fst (uvm g' (fun a l => kr * vo a l) (fun a l => kr * dv a l)) a l = ku * fst (uvm g vo dv) a l /\
    snd (uvm g' (fun a l => kr * vo a l) (fun a l => kr * dv a l)) a l = ku * snd (uvm g vo dv) a l.
  Proof.
    destruct (uvm_unfold g' (fun a l => kr * vo a l) (fun a l => kr * dv a l) a l) as [E1 E2].
    destruct (uvm_unfold g vo dv a l) as [E3 E4].
    rewrite E1, E2, E3, E4.
    change (hR g') with (hR g). change (hL g') with (hL g). change (hr g') with (kL * hr g).
    change (ha g') with (ha g). change (hb g') with (hb g).
    rewrite (dlon_ref_scal_ext (hR g) (kr * (kL * kL)) (inverse_laplacian (hL g) (hr g) dv)
               (inverse_laplacian (hL g) (kL * hr g) (fun a l => kr * dv a l))) by (intros; apply invlap_cov).
    rewrite (dlon_ref_scal_ext (hR g) (kr * (kL * kL)) (inverse_laplacian (hL g) (hr g) vo)
               (inverse_laplacian (hL g) (kL * hr g) (fun a l => kr * vo a l))) by (intros; apply invlap_cov).
    rewrite (D1_scal_ext (hL g) (hL g) (ha g) (hb g) (kr * (kL * kL)) (inverse_laplacian (hL g) (hr g) dv)
               (inverse_laplacian (hL g) (kL * hr g) (fun a l => kr * dv a l))) by (intros; apply invlap_cov).
    rewrite (D1_scal_ext (hL g) (hL g) (ha g) (hb g) (kr * (kL * kL)) (inverse_laplacian (hL g) (hr g) vo)
               (inverse_laplacian (hL g) (kL * hr g) (fun a l => kr * vo a l))) by (intros; apply invlap_cov).
    rewrite ku_eq. split; field; split; first [exact kL_nz | exact r_nz].
  Qed.

  (** gradient of the shifted log surface pressure *)
  Theorem gradm_shift_covariant (x : nat -> nat -> F) shift a l :
    (a < hR g)%nat -> (l < hL g)%nat ->
    fst (gradm g' (fun a l => x a l + shift * e00 a l)) a l = kg * fst (gradm g x) a l /\
    snd (gradm g' (fun a l => x a l + shift * e00 a l)) a l = kg * snd (gradm g x) a l.
  Proof.
    intros Ha Hl.
    destruct (gradm_radius (fun a l => x a l + shift * e00 a l) a l) as [E1 E2]. rewrite E1, E2.
    unfold gradm, cos_lat_grad, clip_if, d_dlon. cbn [fst snd].
    rewrite dlon_ref_lin, D1_lin, dlon_e00, D1_e00 by assumption.
    split; field; exact r_nz.
  Qed.

  (** *** (2) compute_diagnostic_state *)
  Lemma to_nodal_scal_ext c (x y : nat -> nat -> F) i j :
    (j < hJ g)%nat -> (forall a l, (a < hR g)%nat -> (l < hL g)%nat -> y a l = c * x a l) ->
    to_nodal g y i j = c * to_nodal g x i j.
  Proof.
    intros Hj H. unfold to_nodal. rewrite !synth_eq by assumption. rewrite <- sum2_scal_l.
    apply sum2_ext; intros a l Ha Hl. rewrite H by assumption. ring.
  Qed.

  Lemma to_nodal3_cov K c (x y : nat -> nat -> nat -> F) k i j :
    (forall k a l, (a < hR g)%nat -> (l < hL g)%nat -> y k a l = c * x k a l) ->
    to_nodal3 g' K y k i j = c * to_nodal3 g K x k i j.
  Proof.
    intros H. unfold to_nodal3. rewrite !memo3_spec.
    change (hI g') with (hI g). change (hJ g') with (hJ g).
    destruct (Nat.ltb k K && Nat.ltb i (hI g) && Nat.ltb j (hJ g))%bool eqn:E; [|ring].
    apply andb_prop in E. destruct E as [_ Ej]. apply Nat.ltb_lt in Ej.
    change (to_nodal g' (y k) i j) with (to_nodal g (y k) i j).
    apply to_nodal_scal_ext; [exact Ej|]. intros; now apply H.
  Qed.

  Lemma nodal2_cov c (x y : nat -> nat -> F) i j :
    (forall a l, (a < hR g)%nat -> (l < hL g)%nat -> y a l = c * x a l) ->
    sh_memo2 (hI g) (hJ g) (to_nodal g' y) i j = c * sh_memo2 (hI g) (hJ g) (to_nodal g x) i j.
  Proof.
    intros H. rewrite !sh_memo2_spec.
    destruct (Nat.ltb i (hI g) && Nat.ltb j (hJ g))%bool eqn:E; [|ring].
    apply andb_prop in E. destruct E as [_ Ej]. apply Nat.ltb_lt in Ej.
    change (to_nodal g' y i j) with (to_nodal g y i j).
    now apply to_nodal_scal_ext.
  Qed.

  Variable shift : F.
  Notation Sst := (scale_state kr kT shift).

  Theorem diag_covariant K (s : @State F) p :
    X_of g' (diagnostic_state g' K (Sst s)) p = scale_ncol ku kr kT kg (X_of g (diagnostic_state g K s) p).
  Proof.
    destruct p as [i j]. unfold X_of, scale_ncol, scol, diagnostic_state.
    cbn [fst snd n_u n_v n_vort n_div n_temp n_gx n_gy n_sec2 n_f d_u d_v d_vort d_div d_temp d_gx d_gy
         scale_state s_vort s_div s_temp s_lnps].
    change (hI g') with (hI g). change (hJ g') with (hJ g).
    f_equal.
    - apply functional_extensionality; intro k.
      apply (to_nodal3_cov K ku (fun k => fst (uvm g (s_vort s k) (s_div s k)))). intros k0 a l _ _.
      exact (proj1 (uvm_covariant (s_vort s k0) (s_div s k0) a l)).
    - apply functional_extensionality; intro k.
      apply (to_nodal3_cov K ku (fun k => snd (uvm g (s_vort s k) (s_div s k)))). intros k0 a l _ _.
      exact (proj2 (uvm_covariant (s_vort s k0) (s_div s k0) a l)).
    - apply functional_extensionality; intro k. apply (to_nodal3_cov K kr (s_vort s)). reflexivity.
    - apply functional_extensionality; intro k. apply (to_nodal3_cov K kr (s_div s)). reflexivity.
    - apply functional_extensionality; intro k. apply (to_nodal3_cov K kT (s_temp s)). reflexivity.
    - apply (nodal2_cov kg (fst (gradm g (s_lnps s)))). intros a l Ha Hl.
      exact (proj1 (gradm_shift_covariant (s_lnps s) shift a l Ha Hl)).
    - apply (nodal2_cov kg (snd (gradm g (s_lnps s)))). intros a l Ha Hl.
      exact (proj2 (gradm_shift_covariant (s_lnps s) shift a l Ha Hl)).
    - unfold coriolis. cbn [rescale_grid homega hsin]. ring.
  Qed.

  (** *** (3) the whole-state tendencies *)
  Hypothesis feqb_iff : forall a b : F, feqb a b = true <-> a = b.
  Hypothesis kT_nz : kT <> 0.
  Hypothesis kR_nz : kR <> 0.
  Variable c : @PEcfg F.
  Hypothesis R_nz : cR c <> 0.
  Variable grav : F.
  Variable orog : nat -> nat -> F.
  Notation c' := (scale_cfg kT kR c).
  Notation grav' := (ku * kr * grav).
  Notation orog' := (fun a l => kL * orog a l).

  Theorem whole_state_explicit_covariant (s : @State F) k a l :
    (k < cK c)%nat -> (a < hR g)%nat -> (l < hL g)%nat ->
    let E := explicit_terms_full g c grav orog s in
    let E' := explicit_terms_full g' c' grav' orog' (Sst s) in
    s_vort E' k a l = kr * kr * s_vort E k a l /\
    s_div E' k a l = kr * kr * s_div E k a l /\
    s_temp E' k a l = kT * kr * s_temp E k a l /\
    s_lnps E' a l = kr * s_lnps E a l.
  Proof.
    intros Hk Ha Hl E E'. unfold E, E'.
    destruct (explicit_terms_full_is_assembly g c grav orog s k a l Hk Ha Hl) as (V & D & T & P).
    destruct (explicit_terms_full_is_assembly g' c' grav' orog' (Sst s) k a l Hk Ha Hl) as (V' & D' & T' & P').
    cbv zeta in V, D, T, P, V', D', T', P'.
    rewrite V, D, T, P, V', D', T', P'. clear V D T P V' D' T' P'.
    cbn [scale_cfg cK].
    assert (EX : X_of g' (diagnostic_state g' (cK c) (Sst s))
                 = fun p => scale_ncol ku kr kT kg (X_of g (diagnostic_state g (cK c) s) p))
      by (apply functional_extensionality; intro p; apply diag_covariant).
    rewrite EX. clear EX.
    set (X := X_of g (diagnostic_state g (cK c) s)).
    change (toM_c g') with (toM_c g). change (clip_c g') with (clip_c g).
    destruct concrete_operators_homogeneous as (_ & _ & _ & Hd' & Hc' & Hl' & Hts & Hds & Hcs & Hls & Hla & Hcls & _).
    pose proof (lin_ext (toM_c g) (toM_c_lin g)) as Hte.
    pose proof (proj1 (divc_c_lin g)) as Hde.
    pose proof (proj1 (curlc_c_lin g)) as Hce.
    pose proof (lin_ext (lap_c g) (lap_c_lin g)) as Hle.
    pose proof (lin_ext (clip_c g) (clip_c_lin g)) as Hcle.
    assert (Hrt : forall p j, rt_dry c' (scale_ncol ku kr kT kg (X p)) j = kR * kT * rt_dry c (X p) j).
    { intros p j. exact (proj1 (rt_homogeneous ku kr kT kg kR c kR_nz R_nz (mkMoist 0 0) (X p) (fun _ => 0) (fun _ => 0) (fun _ => 0) j)). }
    split; [|split; [|split]].
    - apply (vort_tendency_explicit_covariant ku kr kT kg kR H_rate H_accel Wi Wi (toM_c g) (curlc_c g) (curlc_c g') (clip_c g)
               Hts Hte Hcs Hce Hcls Hcle Hc' c X (fun p => rt_dry c (X p)) _ (fun _ => 0) (fun _ => 0) k (a, l) Hrt).
      intros v. ring.
    - apply (div_tendency_explicit_covariant ku kr kT kg kR H_rate H_accel Wi Wi (toM_c g) (divc_c g) (divc_c g')
               (lap_c g) (lap_c g') (clip_c g) Hts Hte Hds Hde Hls Hle Hcls Hcle Hd' Hl' c X
               (fun p => rt_dry c (X p)) _ (unc orog) _ (fun _ => 0) (fun _ => 0) grav kL k (a, l) H_len Hrt).
      + intros v. reflexivity.
      + intros v. ring.
    - apply (temp_tendency_explicit_covariant ku kr kT kg kR H_rate H_accel feqb_iff kT_nz Wi Wi (toM_c g) (divc_c g) (divc_c g')
               (clip_c g) Hts Hte Hds Hde Hcls Hcle Hd' c X k (a, l)).
    - unfold lnps_tendency_explicit_c.
      change (toM_c g') with (toM_c g). change (clip_c g') with (clip_c g).
      apply (lin_scal (clip_c g) (clip_c_lin g)). intros w.
      apply (lin_scal (toM_c g) (toM_c_lin g)). intros p.
      exact (log_pressure_tendency_homogeneous ku kr kT kg kR H_rate c (X p)).
  Qed.

  Theorem whole_state_implicit_covariant (s : @State F) k a l :
    let G := implicit_terms_full g c s in
    let G' := implicit_terms_full g' c' (Sst s) in
    s_vort G' k a l = kr * kr * s_vort G k a l /\
    s_div G' k a l = kr * kr * s_div G k a l /\
    s_temp G' k a l = kT * kr * s_temp G k a l /\
    s_lnps G' a l = kr * s_lnps G a l.
  Proof.
    intros G G'. unfold G, G', implicit_terms_full.
    cbn [s_vort s_div s_temp s_lnps scale_state].
    destruct concrete_operators_homogeneous as (_ & _ & _ & _ & _ & Hl' & _ & _ & _ & Hls & Hla & _ & Hl0).
    pose proof (lin_ext (lap_c g) (lap_c_lin g)) as Hle.
    destruct (implicit_tendencies_covariant ku kr kT kg kR H_rate H_accel Wi (lap_c g) (lap_c g') Hls Hle Hl' c Hla
                (fun k' => unc (fun a l => s_div s k' a l)) (fun k' => unc (fun a l => kr * s_div s k' a l))
                (fun k' => unc (s_temp s k')) (fun k' => unc (fun a l => kT * s_temp s k' a l))
                (unc (s_lnps s)) (unc (fun a l => s_lnps s a l + shift * e00 a l)) (onem00 1) shift k (a, l))
      as [ET ED]; try (intros; reflexivity).
    { intros v. apply Hl0. }
    split; [unfold zero3; ring|]. split; [exact ED|]. split; [exact ET|].
    unfold lnps_implicit_col, matvec. cbn [scale_cfg cK cb].
    rewrite (sumn_ext (cK c) _ (fun h => kr * (thickness (cb c) h * s_div s h a l))) by (intros; ring).
    rewrite sumn_scal_l. ring.
  Qed.

  (** the property-level statement: explicit and implicit tendencies of the rescaled problem are the
      rescaled tendencies, every in-range coefficient of every field (tracers: see below) *)
  Theorem whole_state_tendencies_covariant (s : @State F) k a l :
    (k < cK c)%nat -> (a < hR g)%nat -> (l < hL g)%nat ->
    let E := explicit_terms_full g c grav orog s in
    let E' := explicit_terms_full g' c' grav' orog' (Sst s) in
    let G := implicit_terms_full g c s in
    let G' := implicit_terms_full g' c' (Sst s) in
    (s_vort E' k a l = kr * kr * s_vort E k a l /\ s_div E' k a l = kr * kr * s_div E k a l /\
     s_temp E' k a l = kT * kr * s_temp E k a l /\ s_lnps E' a l = kr * s_lnps E a l) /\
    (s_vort G' k a l = kr * kr * s_vort G k a l /\ s_div G' k a l = kr * kr * s_div G k a l /\
     s_temp G' k a l = kT * kr * s_temp G k a l /\ s_lnps G' a l = kr * s_lnps G a l).
  Proof.
    intros Hk Ha Hl. split.
    - exact (whole_state_explicit_covariant s k a l Hk Ha Hl).
    - exact (whole_state_implicit_covariant s k a l).
  Qed.
  (** *** tracers (dimensionless: specific humidity etc.; passive in the dry equations): the n-th tracer
      tendency of explicit_terms_full is the assembly [tracer_tendency_explicit_c] and scales with kr;
      implicit_terms_full returns zero tracers *)
  Lemma nth_map_dflt {A B} (f : A -> B) (ls : list A) n dA dB :
    (n < length ls)%nat -> nth n (map f ls) dB = f (nth n ls dA).
  Proof. intros Hn. rewrite (nth_indep (map f ls) dB (f dA)) by (now rewrite map_length). apply map_nth. Qed.

  Theorem tracer_entry_is_assembly (g0 : @HGrid F) (c0 : @PEcfg F) grav0 orog0 (s : @State F) n k a l :
    (n < length (s_tr s))%nat -> (k < cK c0)%nat -> (a < hR g0)%nat -> (l < hL g0)%nat ->
    nth n (s_tr (explicit_terms_full g0 c0 grav0 orog0 s)) zero3 k a l
    = tracer_tendency_explicit_c g0 c0 (X_of g0 (diagnostic_state g0 (cK c0) s))
        (tr_of (to_nodal3 g0 (cK c0) (nth n (s_tr s) zero3))) k (a, l).
  Proof.
    intros Hn Hk Ha Hl. unfold explicit_terms_full, explicit_terms_of_diag. cbv zeta. cbn [s_tr].
    set (d := diagnostic_state g0 (cK c0) s).
    assert (Ld : length (d_tr d) = length (s_tr s)) by (unfold d, diagnostic_state; cbn [d_tr]; now rewrite map_length).
    rewrite (nth_map_seq _ (length (d_tr d)) n zero3) by (rewrite Ld; exact Hn).
    rewrite level_nth by exact Hk.
    unfold explicit_level. cbv zeta. cbn [l_tr].
    rewrite (nth_map_dflt _ (d_tr d) n zero3) by (rewrite Ld; exact Hn).
    rewrite sh_memo2_ok by assumption.
    assert (Et : nth n (d_tr d) zero3 = to_nodal3 g0 (cK c0) (nth n (s_tr s) zero3)).
    { unfold d, diagnostic_state. cbn [d_tr]. now apply nth_map_dflt. }
    rewrite Et.
    exact (tracer_of_is_assembly g0 c0 (X_of g0 d) (tr_of (to_nodal3 g0 (cK c0) (nth n (s_tr s) zero3))) k a l Ha Hl).
  Qed.

  Theorem whole_state_tracers_covariant (s : @State F) n k a l :
    (n < length (s_tr s))%nat -> (k < cK c)%nat -> (a < hR g)%nat -> (l < hL g)%nat ->
    nth n (s_tr (explicit_terms_full g' c' grav' orog' (Sst s))) zero3 k a l
    = kr * nth n (s_tr (explicit_terms_full g c grav orog s)) zero3 k a l /\
    s_tr (implicit_terms_full g' c' (Sst s)) = s_tr (implicit_terms_full g c s) /\
    (forall t, In t (s_tr (implicit_terms_full g c s)) -> t = zero3).
  Proof.
    intros Hn Hk Ha Hl. split; [|split].
    - rewrite (tracer_entry_is_assembly g c grav orog s n k a l Hn Hk Ha Hl).
      rewrite (tracer_entry_is_assembly g' c' grav' orog' (Sst s) n k a l Hn Hk Ha Hl).
      cbn [scale_cfg cK scale_state s_tr].
      assert (EX : X_of g' (diagnostic_state g' (cK c) (Sst s))
                   = fun p => scale_ncol ku kr kT kg (X_of g (diagnostic_state g (cK c) s) p))
        by (apply functional_extensionality; intro p; apply diag_covariant).
      rewrite EX. clear EX.
      set (X := X_of g (diagnostic_state g (cK c) s)).
      change (to_nodal3 g' (cK c) (nth n (s_tr s) zero3)) with (to_nodal3 g (cK c) (nth n (s_tr s) zero3)).
      set (q := tr_of (to_nodal3 g (cK c) (nth n (s_tr s) zero3))).
      unfold tracer_tendency_explicit_c.
      change (toM_c g') with (toM_c g). change (clip_c g') with (clip_c g).
      destruct concrete_operators_homogeneous as (_ & _ & _ & Hd' & _).
      apply (lin_scal (clip_c g) (clip_c_lin g)). intros w.
      rewrite Hd'.
      rewrite (lin_scal (toM_c g) (toM_c_lin g) _ (fun p => tracer_nodal_total c true (X p) (q p) k) kr)
        by (intros p; exact (tracer_nodal_total_dimensionless ku kr kT kg kR H_rate c true (X p) (q p) k)).
      rewrite (lin2_scal_ext (divc_c g) (divc_c_lin g) ku
                 (toM_c g (fun p => hsa_mu (X p) (q p) k)) (toM_c g (fun p => hsa_mv (X p) (q p) k))).
      + rewrite <- H_rate. ring.
      + intros v. apply (lin_scal (toM_c g) (toM_c_lin g)). intros p.
        unfold hsa_mu, scale_ncol, scol. cbn [n_u n_sec2]. ring.
      + intros v. apply (lin_scal (toM_c g) (toM_c_lin g)). intros p.
        unfold hsa_mv, scale_ncol, scol. cbn [n_v n_sec2]. ring.
    - reflexivity.
    - intros t Ht. cbn [implicit_terms_full s_tr] in Ht. apply in_map_iff in Ht. destruct Ht as (x & E & _). now symmetry.
  Qed.

  (** *** (4)/(5) time stepping.  [step_covariant] / [trajectory_covariant] (Thm/Scaling.v) need, for a
      vector space V with change of scale S u = L u + c0 and time factor tau:
        HF : F' (S u) = (1/tau) L (F u),   HG : G' (S u) = (1/tau) L (G u),
        HGinv : Ginv' (S u) (tau * eta) = S (Ginv u eta).
      With tau * kr = 1 and L = (kr, kr, kT, 1) field by field, c0 = shift at (0,0) of lnps,
      [whole_state_tendencies_covariant] IS HF and HG coefficient by coefficient
      ([whole_state_HF_HG]), and the explicit (forward) update u + dt (F u + G u) commutes with the
      change of scale ([whole_state_step_covariant_partial]).
      Round 2: HGinv is proved below ([whole_state_inverse_covariant], section (6)), the in-range part
      of [State] is made a vector space with Leibniz laws (section (7)), and
      [whole_state_step_covariant] / [whole_state_trajectory_covariant] (section (8)) instantiate the
      step theorems of Thm/Scaling.v for every integrator.  Still missing: the tracer fields
      (dimensionless, tendency * kr; passive in the dry equations - the state space drops them). *)
  Variable tau : F.
  Hypothesis H_time : tau * kr = 1.

  Lemma inv_tau_kr : 1 / tau = kr.
  Proof.
    assert (Tz : tau <> 0) by (intro E; apply (@one_nz F o Fc); rewrite <- H_time, E; ring).
    transitivity (tau * kr / tau); [rewrite H_time; reflexivity | field; exact Tz].
  Qed.

  Theorem whole_state_HF_HG (s : @State F) k a l :
    (k < cK c)%nat -> (a < hR g)%nat -> (l < hL g)%nat ->
    let E := explicit_terms_full g c grav orog s in
    let E' := explicit_terms_full g' c' grav' orog' (Sst s) in
    let G := implicit_terms_full g c s in
    let G' := implicit_terms_full g' c' (Sst s) in
    (s_vort E' k a l = 1 / tau * (kr * s_vort E k a l) /\ s_div E' k a l = 1 / tau * (kr * s_div E k a l) /\
     s_temp E' k a l = 1 / tau * (kT * s_temp E k a l) /\ s_lnps E' a l = 1 / tau * s_lnps E a l) /\
    (s_vort G' k a l = 1 / tau * (kr * s_vort G k a l) /\ s_div G' k a l = 1 / tau * (kr * s_div G k a l) /\
     s_temp G' k a l = 1 / tau * (kT * s_temp G k a l) /\ s_lnps G' a l = 1 / tau * s_lnps G a l).
  Proof.
    intros Hk Ha Hl. cbv zeta. rewrite inv_tau_kr.
    destruct (whole_state_tendencies_covariant s k a l Hk Ha Hl) as ((A1 & A2 & A3 & A4) & (B1 & B2 & B3 & B4)).
    cbv zeta in *. rewrite A1, A2, A3, A4, B1, B2, B3, B4. repeat split; ring.
  Qed.

  (** the explicit update of the four dynamical fields *)
  Definition forward_update (E G u : @State F) (dt : F) : @State F :=
    mkState (fun k a l => s_vort u k a l + dt * (s_vort E k a l + s_vort G k a l))
            (fun k a l => s_div u k a l + dt * (s_div E k a l + s_div G k a l))
            (fun k a l => s_temp u k a l + dt * (s_temp E k a l + s_temp G k a l))
            (fun a l => s_lnps u a l + dt * (s_lnps E a l + s_lnps G a l))
            (s_tr u).

  Theorem whole_state_step_covariant_partial (s : @State F) dt k a l :
    (k < cK c)%nat -> (a < hR g)%nat -> (l < hL g)%nat ->
    let u1 := forward_update (explicit_terms_full g c grav orog s) (implicit_terms_full g c s) s dt in
    let u1' := forward_update (explicit_terms_full g' c' grav' orog' (Sst s)) (implicit_terms_full g' c' (Sst s))
                              (Sst s) (tau * dt) in
    s_vort u1' k a l = s_vort (Sst u1) k a l /\ s_div u1' k a l = s_div (Sst u1) k a l /\
    s_temp u1' k a l = s_temp (Sst u1) k a l /\ s_lnps u1' a l = s_lnps (Sst u1) a l.
  Proof.
    intros Hk Ha Hl. cbv zeta.
    destruct (whole_state_tendencies_covariant s k a l Hk Ha Hl) as ((A1 & A2 & A3 & A4) & (B1 & B2 & B3 & B4)).
    cbv zeta in *. unfold forward_update. cbn [scale_state s_vort s_div s_temp s_lnps].
    rewrite A1, A2, A3, A4, B1, B2, B3, B4.
    set (ev := s_vort (explicit_terms_full g c grav orog s) k a l).
    set (ed := s_div (explicit_terms_full g c grav orog s) k a l).
    set (et := s_temp (explicit_terms_full g c grav orog s) k a l).
    set (ep := s_lnps (explicit_terms_full g c grav orog s) a l).
    set (gv := s_vort (implicit_terms_full g c s) k a l).
    set (gd := s_div (implicit_terms_full g c s) k a l).
    set (gt := s_temp (implicit_terms_full g c s) k a l).
    set (gp := s_lnps (implicit_terms_full g c s) a l).
    split; [|split; [|split]].
    - transitivity (kr * s_vort s k a l + (tau * kr) * dt * (kr * (ev + gv))); [ring | rewrite H_time; ring].
    - transitivity (kr * s_div s k a l + (tau * kr) * dt * (kr * (ed + gd))); [ring | rewrite H_time; ring].
    - transitivity (kT * s_temp s k a l + (tau * kr) * dt * (kT * (et + gt))); [ring | rewrite H_time; ring].
    - transitivity (s_lnps s a l + shift * e00 a l + (tau * kr) * dt * (ep + gp)); [ring | rewrite H_time; ring].
  Qed.
  (** *** (6) the implicit solve.  [invt l] / [invt' l] are the tables np.linalg.inv(implicit_matrix)[l]
      under the two scales; the first has to be a RIGHT inverse (M X = I), the second a LEFT inverse
      (X' M' = I) - for square matrices both say "np.linalg.inv worked" (table obligation, checked
      two-sided by the plugin). *)
  Lemma feqb_sound_of_iff : forall x y : F, feqb x y = true -> x = y.
  Proof. intros x y H. now apply feqb_iff. Qed.
  Hypothesis th0_nz : thickness (cb c) 0%nat <> 0.
  Hypothesis thK_nz : thickness (cb c) (cK c - 1)%nat <> 0.
  Notation nn := (2 * cK c + 1)%nat.

  Lemma column_right_resolvent_split (eta : F) (X : @Mat F) (lm : F) (yc : @Col F) :
    is_left_inverse nn (implicit_matrix c eta lm) X ->
    col_eq (cK c) (col_minus_scaled (inverse_split (fun _ _ => X) c eta lm yc) eta
                     (implicit_terms false c lm (inverse_split (fun _ _ => X) c eta lm yc))) yc.
  Proof.
    intros Hr. set (zc := inverse_split (fun _ _ => X) c eta lm yc).
    apply stack_inj. intros h Hh.
    rewrite <- matrix_is_I_minus_eta_L by exact Hh.
    rewrite (matvec_ext nn _ (stack (cK c) zc) (matvec nn X (stack (cK c) yc))).
    2:{ intros j Hj.
        rewrite (stack_ext (cK c) zc (inverse_stacked (fun _ _ => X) c eta lm yc) j
                   (split_eq_stacked (fun _ _ => X) c eta lm yc) Hj).
        unfold inverse_stacked. cbv zeta. now apply stack_unstack. }
    rewrite <- matvec_matmul.
    rewrite (matvec_ext_mat nn _ eye) by (intros j Hj; now apply Hr).
    now apply matvec_eye.
  Qed.

  Theorem whole_state_inverse_covariant (eta : F) (invt invt' : nat -> @Mat F) (y : @State F) k a l :
    is_left_inverse nn (implicit_matrix c eta (Deriv.lap_eig (hL g) (hr g) l)) (invt l) ->
    is_left_inverse nn (invt' l) (implicit_matrix c' (tau * eta) (Deriv.lap_eig (hL g') (hr g') l)) ->
    let Z := implicit_inverse_full g c eta invt y in
    let Z' := implicit_inverse_full g' c' (tau * eta) invt' (Sst y) in
    col_eq (cK c) (col_of Z' a l) (col_of (Sst Z) a l) /\ s_vort Z' k a l = s_vort (Sst Z) k a l.
  Proof.
    intros Hr Hl Z Z'. split; [|reflexivity].
    set (lm := Deriv.lap_eig (hL g) (hr g) l) in *.
    set (lm' := Deriv.lap_eig (hL g') (hr g') l) in *.
    set (yc := col_of y a l).
    set (zc := inverse_split (fun _ _ => invt l) c eta lm yc).
    destruct (column_right_resolvent_split eta (invt l) lm yc Hr) as (Rd & Rt & Rp).
    fold zc in Rd, Rt, Rp. cbn [col_minus_scaled c_div c_temp c_lnps] in Rd, Rt, Rp.
    pose proof (fun k0 => whole_state_implicit_covariant Z k0 a l) as IC. cbv zeta in IC.
    assert (Ed : forall k0, s_div (implicit_terms_full g c Z) k0 a l = c_div (implicit_terms false c lm zc) k0)
      by (intros; reflexivity).
    assert (Et : forall k0, s_temp (implicit_terms_full g c Z) k0 a l = c_temp (implicit_terms false c lm zc) k0)
      by (intros; reflexivity).
    assert (Ep : s_lnps (implicit_terms_full g c Z) a l = c_lnps (implicit_terms false c lm zc))
      by reflexivity.
    eapply col_eq_trans.
    { instantiate (1 := inverse_split (fun _ _ => invt' l) c' (tau * eta) lm' (col_of (Sst y) a l)). repeat split. }
    apply (split_resolvent_gen feqb_sound_of_iff (fun _ _ => invt' l) c' (tau * eta) lm' (col_of (Sst Z) a l)
             (col_of (Sst y) a l) false Hl th0_nz thK_nz).
    destruct (implicit_terms_full_column g' c' (Sst Z) a l) as (Id & It & Ip).
    fold lm' in Id, It, Ip. cbn [scale_cfg cK] in Id, It.
    repeat split; cbn [col_minus_scaled c_div c_temp c_lnps scale_cfg cK].
    - intros k0 Hk0. rewrite <- (Id k0 Hk0). cbn [col_of c_div].
      rewrite (proj1 (proj2 (IC k0))), Ed. cbn [scale_state s_div].
      change (s_div y k0 a l) with (c_div yc k0). change (s_div Z k0 a l) with (c_div zc k0).
      rewrite <- (Rd k0 Hk0).
      set (p := c_div zc k0). set (q := c_div (implicit_terms false c lm zc) k0).
      transitivity (kr * p - (tau * kr) * eta * (kr * q)); [rewrite H_time; ring | ring].
    - intros k0 Hk0. rewrite <- (It k0 Hk0). cbn [col_of c_temp].
      rewrite (proj1 (proj2 (proj2 (IC k0)))), Et. cbn [scale_state s_temp].
      change (s_temp y k0 a l) with (c_temp yc k0). change (s_temp Z k0 a l) with (c_temp zc k0).
      rewrite <- (Rt k0 Hk0).
      set (p := c_temp zc k0). set (q := c_temp (implicit_terms false c lm zc) k0).
      transitivity (kT * p - (tau * kr) * eta * (kT * q)); [rewrite H_time; ring | ring].
    - rewrite <- Ip. cbn [col_of c_lnps].
      rewrite (proj2 (proj2 (proj2 (IC 0%nat)))), Ep. cbn [scale_state s_lnps].
      change (s_lnps y a l) with (c_lnps yc). change (s_lnps Z a l) with (c_lnps zc).
      rewrite <- Rp.
      set (p := c_lnps zc). set (q := c_lnps (implicit_terms false c lm zc)).
      transitivity (p + shift * e00 a l - (tau * kr) * eta * q); [rewrite H_time; ring | ring].
  Qed.
  (** *** (7) the in-range part of [State] as a vector space with Leibniz laws: every operation
      returns the normal form [mk4] (entries outside the index range forced to 0, tracer list dropped -
      tracers are passive in the dry equations), so that in-range pointwise equality IS equality
      (functional extensionality).  The executable model functions are composed with [norm] on the
      output side only; on the input side they are applied to the states as they are, and
      [explicit_terms_full_ext] etc. show that they only read the index range. *)
  Definition inr3 (k a l : nat) : bool := (Nat.ltb k (cK c) && Nat.ltb a (hR g) && Nat.ltb l (hL g))%bool.
  Definition inr2 (a l : nat) : bool := (Nat.ltb a (hR g) && Nat.ltb l (hL g))%bool.
  Definition cl3 (x : nat -> nat -> nat -> F) : nat -> nat -> nat -> F := fun k a l => if inr3 k a l then x k a l else 0.
  Definition cl2 (x : nat -> nat -> F) : nat -> nat -> F := fun a l => if inr2 a l then x a l else 0.
  Definition mk4 (v d t : nat -> nat -> nat -> F) (p : nat -> nat -> F) : @State F := mkState (cl3 v) (cl3 d) (cl3 t) (cl2 p) [].
  Definition norm (s : @State F) : @State F := mk4 (s_vort s) (s_div s) (s_temp s) (s_lnps s).
  Definition StOps : VOps F (@State F) :=
    mkVOps F (@State F) (mk4 zero3 zero3 zero3 (fun _ _ => 0))
      (fun x y => mk4 (fun k a l => s_vort x k a l + s_vort y k a l) (fun k a l => s_div x k a l + s_div y k a l)
                      (fun k a l => s_temp x k a l + s_temp y k a l) (fun a l => s_lnps x a l + s_lnps y a l))
      (fun t x => mk4 (fun k a l => t * s_vort x k a l) (fun k a l => t * s_div x k a l)
                      (fun k a l => t * s_temp x k a l) (fun a l => t * s_lnps x a l)).
  Definition Lst (u : @State F) : @State F :=
    mk4 (fun k a l => kr * s_vort u k a l) (fun k a l => kr * s_div u k a l) (fun k a l => kT * s_temp u k a l) (s_lnps u).
  Definition c0st : @State F := mk4 zero3 zero3 zero3 (fun a l => shift * e00 a l).

  Lemma inr3_true k a l : (k < cK c)%nat -> (a < hR g)%nat -> (l < hL g)%nat -> inr3 k a l = true.
  Proof. intros Hk Ha Hl. unfold inr3. apply Nat.ltb_lt in Hk, Ha, Hl. now rewrite Hk, Ha, Hl. Qed.
  Lemma inr3_elim k a l : inr3 k a l = true -> (k < cK c)%nat /\ (a < hR g)%nat /\ (l < hL g)%nat.
  Proof.
    unfold inr3. intros H. apply andb_prop in H. destruct H as [H Hl]. apply andb_prop in H. destruct H as [Hk Ha].
    apply Nat.ltb_lt in Hk, Ha, Hl. auto.
  Qed.
  Lemma inr2_true a l : (a < hR g)%nat -> (l < hL g)%nat -> inr2 a l = true.
  Proof. intros Ha Hl. unfold inr2. apply Nat.ltb_lt in Ha, Hl. now rewrite Ha, Hl. Qed.
  Lemma inr2_elim a l : inr2 a l = true -> (a < hR g)%nat /\ (l < hL g)%nat.
  Proof. unfold inr2. intros H. apply andb_prop in H. destruct H as [Ha Hl]. apply Nat.ltb_lt in Ha, Hl. auto. Qed.

  Lemma mk4_ext v d t p v' d' t' p' :
    (forall k a l, inr3 k a l = true -> v k a l = v' k a l) ->
    (forall k a l, inr3 k a l = true -> d k a l = d' k a l) ->
    (forall k a l, inr3 k a l = true -> t k a l = t' k a l) ->
    (forall a l, inr2 a l = true -> p a l = p' a l) ->
    mk4 v d t p = mk4 v' d' t' p'.
  Proof.
    intros Hv Hd Ht Hp. unfold mk4. f_equal.
    - do 3 (apply functional_extensionality; intro). unfold cl3. destruct (inr3 x x0 x1) eqn:E; auto.
    - do 3 (apply functional_extensionality; intro). unfold cl3. destruct (inr3 x x0 x1) eqn:E; auto.
    - do 3 (apply functional_extensionality; intro). unfold cl3. destruct (inr3 x x0 x1) eqn:E; auto.
    - do 2 (apply functional_extensionality; intro). unfold cl2. destruct (inr2 x x0) eqn:E; auto.
  Qed.

  Ltac st_tac :=
    apply mk4_ext; intros;
    cbn [vadd vscal vzero StOps Lst c0st mk4 norm s_vort s_div s_temp s_lnps]; unfold cl3, cl2, zero3;
    repeat match goal with HH : _ = true |- _ => rewrite ?HH; clear HH end; try ring.

  Notation vaddS := (@vadd F (@State F) StOps).
  Notation vscalS := (@vscal F (@State F) StOps).
  Notation vzeroS := (@vzero F (@State F) StOps).

  Lemma st_vadd_assoc (u v w : @State F) : vaddS u (vaddS v w) = vaddS (vaddS u v) w.
  Proof. cbn [vadd StOps]. st_tac. Qed.
  Lemma st_vadd_comm (u v : @State F) : vaddS u v = vaddS v u.
  Proof. cbn [vadd StOps]. st_tac. Qed.
  Lemma st_vscal_add (t : F) (u v : @State F) : vscalS t (vaddS u v) = vaddS (vscalS t u) (vscalS t v).
  Proof. cbn [vadd vscal StOps]. st_tac. Qed.
  Lemma st_vscal_mul (s t : F) (u : @State F) : vscalS s (vscalS t u) = vscalS (s * t) u.
  Proof. cbn [vadd vscal StOps]. st_tac. Qed.
  Lemma st_vscal_zero (t : F) : vscalS t vzeroS = vzeroS.
  Proof. cbn [vzero vscal StOps]. st_tac. Qed.
  Lemma Lst_add u v : Lst (vaddS u v) = vaddS (Lst u) (Lst v).
  Proof. cbn [vadd StOps]. unfold Lst at 1. st_tac. Qed.
  Lemma Lst_scal t u : Lst (vscalS t u) = vscalS t (Lst u).
  Proof. cbn [vscal StOps]. unfold Lst at 1. st_tac. Qed.
  Lemma Lst_zero : Lst vzeroS = vzeroS.
  Proof. cbn [vzero StOps]. unfold Lst at 1. st_tac. Qed.
  Lemma tau_nz_st : tau <> 0.
  Proof. intro E. apply (@one_nz F o Fc). rewrite <- H_time, E. ring. Qed.

  Notation ScS := (Sc (vo := StOps) Lst c0st).
  Notation TnS := (Tn (vo := StOps) Lst tau).

  (** the change of scale of the state space agrees on the index range with [scale_state] *)
  Lemma ScS_agrees (u : @State F) : agree (cK c) (hR g) (hL g) (ScS u) (Sst u).
  Proof.
    split.
    - intros k a l Hk Ha Hl. unfold Sc. cbn [vadd StOps Lst c0st mk4 s_vort s_div s_temp scale_state].
      unfold cl3, zero3. rewrite (inr3_true k a l Hk Ha Hl). repeat split; ring.
    - intros a l Ha Hl. unfold Sc. cbn [vadd StOps Lst c0st mk4 s_lnps scale_state].
      unfold cl2. rewrite (inr2_true a l Ha Hl). ring.
  Qed.

  (** the executable model as operators on the state space *)
  Variables invt invt' : F -> nat -> @Mat F.
  Definition FxS (u : @State F) : @State F := norm (explicit_terms_full g c grav orog u).
  Definition FxS' (u : @State F) : @State F := norm (explicit_terms_full g' c' grav' orog' u).
  Definition GS (u : @State F) : @State F := norm (implicit_terms_full g c u).
  Definition GS' (u : @State F) : @State F := norm (implicit_terms_full g' c' u).
  Definition GinvS (u : @State F) (eta : F) : @State F := norm (implicit_inverse_full g c eta (invt eta) u).
  Definition GinvS' (u : @State F) (eta : F) : @State F := norm (implicit_inverse_full g' c' eta (invt' eta) u).
  (** np.linalg.inv worked for step size [eta] under the first and [tau * eta] under the second scale *)
  Definition okS (eta : F) : Prop :=
    forall l, (l < hL g)%nat ->
      is_left_inverse nn (implicit_matrix c eta (Deriv.lap_eig (hL g) (hr g) l)) (invt eta l) /\
      is_left_inverse nn (invt' (tau * eta) l) (implicit_matrix c' (tau * eta) (Deriv.lap_eig (hL g') (hr g') l)).

  Lemma st_HF u : FxS' (ScS u) = TnS (FxS u).
  Proof.
    unfold FxS', FxS, Tn, norm. cbn [vscal StOps].
    apply mk4_ext; [intros k a l H | intros k a l H | intros k a l H | intros a l H].
    1-3: destruct (inr3_elim k a l H) as (Hk & Ha & Hl);
      destruct (explicit_terms_full_ext g' c' grav' orog' (ScS u) (Sst u) k a l (ScS_agrees u) Hk Ha Hl) as (X1 & X2 & X3 & X4);
      destruct (whole_state_HF_HG u k a l Hk Ha Hl) as ((A1 & A2 & A3 & A4) & _);
      cbv zeta in *; cbn [Lst mk4 s_vort s_div s_temp]; unfold cl3; rewrite H.
    - rewrite X1. exact A1.
    - rewrite X2. exact A2.
    - rewrite X3. exact A3.
    - destruct (inr2_elim a l H) as (Ha & Hl).
      assert (Hk : (0 < cK c)%nat \/ cK c = 0%nat) by lia.
      cbn [Lst mk4 s_lnps]. unfold cl2. rewrite H.
      unfold explicit_terms_full, explicit_terms_of_diag. cbv zeta. cbn [s_lnps].
      rewrite !sh_memo2_ok by assumption.
      rewrite !lnps_explicit_is_assembly by assumption.
      rewrite (diag_ext g' (cK c) (ScS u) (Sst u) (ScS_agrees u)).
      assert (EX : X_of g' (diagnostic_state g' (cK c) (Sst u))
                   = fun p => scale_ncol ku kr kT kg (X_of g (diagnostic_state g (cK c) u) p))
        by (apply functional_extensionality; intro p; apply diag_covariant).
      cbn [scale_cfg cK]. rewrite EX. unfold lnps_tendency_explicit_c.
      change (toM_c g') with (toM_c g). change (clip_c g') with (clip_c g).
      rewrite inv_tau_kr.
      apply (lin_scal (clip_c g) (clip_c_lin g)). intros w.
      apply (lin_scal (toM_c g) (toM_c_lin g)). intros p.
      exact (log_pressure_tendency_homogeneous ku kr kT kg kR H_rate c _).
  Qed.

  Lemma st_HG u : GS' (ScS u) = TnS (GS u).
  Proof.
    unfold GS', GS, Tn, norm. cbn [vscal StOps]. rewrite inv_tau_kr.
    apply mk4_ext; [intros k a l H | intros k a l H | intros k a l H | intros a l H].
    1-3: destruct (inr3_elim k a l H) as (Hk & Ha & Hl);
      destruct (implicit_terms_full_ext g' c' (ScS u) (Sst u) a l (ScS_agrees u) Ha Hl) as (X2 & X3 & X4);
      destruct (whole_state_implicit_covariant u k a l) as (A1 & A2 & A3 & A4);
      cbv zeta in *; cbn [Lst mk4 s_vort s_div s_temp]; unfold cl3; rewrite H.
    - cbn [implicit_terms_full s_vort]. unfold zero3. ring.
    - cbn [col_of c_div] in X2. rewrite (X2 k Hk), A2. ring.
    - cbn [col_of c_temp] in X3. rewrite (X3 k Hk), A3. ring.
    - destruct (inr2_elim a l H) as (Ha & Hl).
      destruct (implicit_terms_full_ext g' c' (ScS u) (Sst u) a l (ScS_agrees u) Ha Hl) as (_ & _ & X4).
      destruct (whole_state_implicit_covariant u 0 a l) as (_ & _ & _ & A4).
      cbv zeta in *. cbn [Lst mk4 s_lnps]. unfold cl2. rewrite H.
      cbn [col_of c_lnps] in X4. rewrite X4, A4. ring.
  Qed.

  Lemma st_HGinv u eta : okS eta -> GinvS' (ScS u) (tau * eta) = ScS (GinvS u eta).
  Proof.
    intros Hok. unfold GinvS', GinvS, norm. set (Su := ScS u). unfold Sc. cbn [vadd StOps].
    apply mk4_ext; [intros k a l H | intros k a l H | intros k a l H | intros a l H].
    1-3: destruct (inr3_elim k a l H) as (Hk & Ha & Hl); destruct (Hok l Hl) as [Hr Hli];
      destruct (implicit_inverse_full_ext g' c' (tau * eta) (invt' (tau * eta)) Su (Sst u) a l (ScS_agrees u) Ha Hl) as (X2 & X3 & X4);
      destruct (whole_state_inverse_covariant eta (invt eta) (invt' (tau * eta)) u k a l Hr Hli) as ((B2 & B3 & B4) & B1);
      cbv zeta in *; cbn [Lst c0st mk4 s_vort s_div s_temp]; unfold cl3, zero3; rewrite ?H.
    - cbn [implicit_inverse_full s_vort]. subst Su. destruct (ScS_agrees u) as [A _]. rewrite (proj1 (A k a l Hk Ha Hl)).
      cbn [scale_state s_vort]. ring.
    - cbn [col_of c_div] in X2, B2. rewrite (X2 k Hk), (B2 k Hk). cbn [scale_state s_div]. ring.
    - cbn [col_of c_temp] in X3, B3. rewrite (X3 k Hk), (B3 k Hk). cbn [scale_state s_temp]. ring.
    - destruct (inr2_elim a l H) as (Ha & Hl). destruct (Hok l Hl) as [Hr Hli].
      destruct (implicit_inverse_full_ext g' c' (tau * eta) (invt' (tau * eta)) Su (Sst u) a l (ScS_agrees u) Ha Hl) as (_ & _ & X4).
      destruct (whole_state_inverse_covariant eta (invt eta) (invt' (tau * eta)) u 0 a l Hr Hli) as ((_ & _ & B4) & _).
      cbv zeta in *. cbn [Lst c0st mk4 s_lnps]. unfold cl2. rewrite ?H.
      cbn [col_of c_lnps] in X4, B4. rewrite X4, B4. cbn [scale_state s_lnps]. ring.
  Qed.

  (** *** (8) every integrator of Model/Integrators.v on the whole-state model commutes with the change of scale *)
  Theorem whole_state_step_covariant dt alpha al be ga a_ex a_im b_ex b_im u p q :
    (okS dt -> euler_step (vo := StOps) FxS' GinvS' (tau * dt) (ScS u) = ScS (euler_step (vo := StOps) FxS GinvS dt u)) /\
    (okS (half * dt) ->
       cn_rk2_step (vo := StOps) FxS' GS' GinvS' (tau * dt) (ScS u) = ScS (cn_rk2_step (vo := StOps) FxS GS GinvS dt u)) /\
    (ls_ok okS dt al ->
       ls_step (vo := StOps) FxS' GS' GinvS' (tau * dt) al be ga (ScS u) = ScS (ls_step (vo := StOps) FxS GS GinvS dt al be ga u)) /\
    (imex_ok okS dt 1 a_im ->
       imex_step (vo := StOps) FxS' GS' GinvS' (tau * dt) a_ex a_im b_ex b_im (ScS u)
       = option_map ScS (imex_step (vo := StOps) FxS GS GinvS dt a_ex a_im b_ex b_im u)) /\
    (okS (two * dt * alpha) ->
       leapfrog_step (vo := StOps) FxS' GS' GinvS' (tau * dt) alpha (ScS p, ScS q)
       = (ScS (fst (leapfrog_step (vo := StOps) FxS GS GinvS dt alpha (p, q))),
          ScS (snd (leapfrog_step (vo := StOps) FxS GS GinvS dt alpha (p, q))))).
  Proof.
    split; [|split; [|split; [|split]]]; intros Hok.
    - exact (euler_step_covariant st_vadd_assoc st_vadd_comm st_vscal_mul Lst c0st tau Lst_add Lst_scal tau_nz_st
               FxS GinvS FxS' GinvS' st_HF okS st_HGinv dt u Hok).
    - exact (cn_rk2_step_covariant st_vadd_assoc st_vadd_comm st_vscal_add st_vscal_mul Lst c0st tau Lst_add Lst_scal tau_nz_st
               FxS GS GinvS FxS' GS' GinvS' st_HF st_HG okS st_HGinv dt u Hok).
    - exact (ls_step_covariant st_vadd_assoc st_vadd_comm st_vscal_add st_vscal_mul st_vscal_zero Lst c0st tau Lst_add Lst_scal Lst_zero
               tau_nz_st FxS GS GinvS FxS' GS' GinvS' st_HF st_HG okS st_HGinv dt al be ga u Hok).
    - exact (imex_step_covariant st_vadd_assoc st_vadd_comm st_vscal_add st_vscal_mul st_vscal_zero Lst c0st tau Lst_add Lst_scal Lst_zero
               tau_nz_st FxS GS GinvS FxS' GS' GinvS' st_HF st_HG okS st_HGinv dt a_ex a_im b_ex b_im u Hok).
    - exact (leapfrog_covariant st_vadd_assoc st_vadd_comm st_vscal_add st_vscal_mul Lst c0st tau Lst_add Lst_scal tau_nz_st
               FxS GS GinvS FxS' GS' GinvS' st_HF st_HG okS st_HGinv dt alpha p q Hok).
  Qed.

  (** any number of (filtered) steps *)
  Theorem whole_state_trajectory_covariant (step step' : @State F -> @State F) (fl fl' : list (@State F -> @State F -> @State F)) :
    (forall u, step' (ScS u) = ScS (step u)) ->
    Forall2 (fun f' f => forall u w, f' (ScS u) (ScS w) = ScS (f u w)) fl' fl ->
    forall n u, Nat.iter n (step_with_filters step' fl') (ScS u) = ScS (Nat.iter n (step_with_filters step fl) u).
  Proof. exact (trajectory_covariant (vo := StOps) Lst c0st step step' fl fl'). Qed.
End WholeState.
