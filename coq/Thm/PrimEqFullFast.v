(** C09, "hence the same model tendencies": the whole-state primitive-equation model on the
    FAST layout (Model/PrimEqFullFast.v) computes, on every in-range coefficient, the
    re-indexed result of the whole-state model on the reference layout (Model/PrimEqFull.v).
    (0) the operator-parametric composition at [real_ops g] IS Model/PrimEqFull.v;
    (1) per-operator equivalences under the re-indexing phi that were missing so far:
        d_dlon, D1, D2, cos_lat_grad, div_cos_lat, curl_cos_lat, laplacian,
        inverse_laplacian, clip, get_cos_lat_vector  (fast = true, padded  vs  fast = false);
    (2) transfer: any two operator records related by (1) + the transform equivalences give
        related diagnostic states, explicit / implicit tendencies and implicit inverses;
    (3) the instance: reference grid [g] vs fast grid under [tables_related] (Thm/SHTFast.v)
        and [dtables_related] (the derivative recurrence weights re-indexed; the fast [a] is zero
        in the padded columns).
    The nodal column algebra is layout independent: the nodal columns of the two diagnostic
    states are EQUAL at every resolved node (functional extensionality over the level index). *)
From Dino Require Import Model.Integrators.
From Dino Require Import Base.Ops Base.Sums Base.Ord Model.Sigma Model.Implicit Model.PrimEq Model.SHT Model.SHTFast
     Model.Deriv Model.PrimEqFull Model.PrimEqFullFast Gen.DerivExprs Thm.SHT Thm.SHTFast Thm.Deriv Thm.PrimEqFull.
From Coq Require Import FunctionalExtensionality Zify.
Local Open Scope F_scope.

Ltac Zify.zify_post_hook ::= Z.div_mod_to_equations.

(** ** (0) the parametric composition at the reference operators is Model/PrimEqFull.v *)
Section RealInstance.
  Context {F : Type} {o : Ops F}.
  Variable g : @HGrid F.
  Lemma diagnostic_state_o_real K s : diagnostic_state_o (real_ops g) K s = diagnostic_state g K s.
  Proof. reflexivity. Qed.
  Lemma explicit_terms_of_diag_o_real c grav orog d :
    explicit_terms_of_diag_o (real_ops g) c grav orog d = explicit_terms_of_diag g c grav orog d.
  Proof. reflexivity. Qed.
  Lemma explicit_terms_full_o_real c grav orog s :
    explicit_terms_full_o (real_ops g) c grav orog s = explicit_terms_full g c grav orog s.
  Proof. reflexivity. Qed.
  Lemma implicit_terms_full_o_real c s : implicit_terms_full_o (real_ops g) c s = implicit_terms_full g c s.
  Proof. reflexivity. Qed.
  Lemma implicit_inverse_full_o_real c eta invt s :
    implicit_inverse_full_o (real_ops g) c eta invt s = implicit_inverse_full g c eta invt s.
  Proof. reflexivity. Qed.
End RealInstance.

(** ** (1) per-operator equivalences under the re-indexing *)
Section OpsRel.
  Context {F : Type} {o : Ops F} {Fc : FieldC o}.
  Add Field FFpff : (field_c : FieldTh o).
  Variables (M L Mh Lf : nat).
  Hypothesis HM : (1 <= M)%nat.
  Hypothesis HMh : (M <= Mh)%nat.
  Hypothesis HLf : (L <= Lf)%nat.

  (** a fast modal array represents a reference modal array: equal on every in-range
      coefficient (whatever sits in the extra row / in the padding) *)
  Definition mrel (y x : nat -> nat -> F) : Prop :=
    forall a l, (a < 2 * M - 1)%nat -> (l < L)%nat -> y (phi a) l = x a l.

  Lemma mrel_embed x : mrel (embed M L x) x.
  Proof. intros a l Ha Hl. now apply embed_phi. Qed.

  (** the longitude derivative *)
  Lemma dlon_rel y x : mrel y x -> mrel (d_dlon true (2 * Mh) y) (d_dlon false (2 * M - 1) x).
  Proof.
    intros H a l Ha Hl. pose proof (phi_lt a M Ha) as Hp.
    rewrite !d_dlon_unfold by lia.
    unfold jmul, dcond, dfast_j, dref_j, dfast_cond, dref_cond.
    destruct a as [|a'].
    - cbn [phi]. change (0 + 0 / 2)%nat with 0%nat. change ((0 + 1) / 2)%nat with 0%nat. cbn [lit]. ring.
    - cbn [phi]. replace (0 + S (S a') / 2)%nat with ((S a' + 1) / 2)%nat by lia. f_equal.
      destruct (Nat.eqb_spec (S a' mod 2) 0) as [E|E].
      + replace ((S (S a') + 1) mod 2 =? 0) with true by (symmetry; apply Nat.eqb_eq; lia).
        cbn [negb]. f_equal.
        replace (S (S a') =? 0) with false by (symmetry; apply Nat.eqb_neq; lia).
        replace (S a' =? 0) with false by (symmetry; apply Nat.eqb_neq; lia).
        replace (S (S a') - 1)%nat with (phi a') by (destruct a'; cbn [phi]; lia).
        replace (S a' - 1)%nat with a' by lia. apply H; lia.
      + replace ((S (S a') + 1) mod 2 =? 0) with false by (symmetry; apply Nat.eqb_neq; lia).
        cbn [negb].
        replace (S (S (S a')) <? 2 * Mh) with true by (symmetry; apply Nat.ltb_lt; lia).
        replace (S (S a') <? 2 * M - 1) with true by (symmetry; apply Nat.ltb_lt; lia).
        change (S (S (S a'))) with (phi (S (S a'))). apply H; lia.
  Qed.

  (** tridiagonal latitude operators: the fast weights are the re-indexed reference weights,
      and the fast "minus" weight vanishes in the padded columns *)
  Lemma tri_rel (wmf wpf wmr wpr : nat -> nat -> F) y x a l :
    mrel y x -> (a < 2 * M - 1)%nat -> (l < L)%nat ->
    (forall l', (l' < L)%nat -> wmf (phi a) l' = wmr a l') ->
    (forall l', (L <= l')%nat -> (l' < Lf)%nat -> wmf (phi a) l' = 0) ->
    (forall l', (S l' < L)%nat -> wpf (phi a) l' = wpr a l') ->
    tri Lf wmf wpf y (phi a) l = tri L wmr wpr x a l.
  Proof.
    intros H Ha Hl Hm Hm0 Hp. unfold tri. f_equal.
    - destruct (Nat.ltb_spec (S l) L) as [H1|H1].
      + replace (S l <? Lf) with true by (symmetry; apply Nat.ltb_lt; lia).
        rewrite Hm, H by assumption. reflexivity.
      + destruct (Nat.ltb_spec (S l) Lf) as [H2|H2]; [|reflexivity].
        rewrite Hm0 by lia. ring.
    - destruct (Nat.eqb_spec l 0) as [E|E]; [reflexivity|].
      rewrite Hp, H by lia. reflexivity.
  Qed.

  Variables (af bf ar br : nat -> nat -> F).
  (** the derivative recurrence weights of the two layouts (exact table obligation) *)
  Record dtables_related : Prop := {
    dt_a_in : forall a l, (a < 2 * M - 1)%nat -> (l < L)%nat -> af (phi a) l = ar a l;
    dt_a_out : forall a l, (a < 2 * M - 1)%nat -> (L <= l)%nat -> (l < Lf)%nat -> af (phi a) l = 0;
    dt_b_in : forall a l, (a < 2 * M - 1)%nat -> (S l < L)%nat -> bf (phi a) l = br a l }.
  Hypothesis DT : dtables_related.

  Lemma D1_rel y x : mrel y x -> mrel (D1 L Lf af bf y) (D1 L L ar br x).
  Proof.
    intros H a l Ha Hl. rewrite !D1_entries by lia.
    apply tri_rel; try assumption.
    - intros l' Hl'. now rewrite (dt_a_in DT a l' Ha Hl').
    - intros l' H1 H2. rewrite (dt_a_out DT a l' Ha H1 H2). ring.
    - intros l' Hl'. now rewrite (dt_b_in DT a l' Ha Hl').
  Qed.
  Lemma D2_rel y x : mrel y x -> mrel (D2 L Lf af bf y) (D2 L L ar br x).
  Proof.
    intros H a l Ha Hl. rewrite !D2_entries by lia.
    apply tri_rel; try assumption.
    - intros l' Hl'. now rewrite (dt_a_in DT a l' Ha Hl').
    - intros l' H1 H2. rewrite (dt_a_out DT a l' Ha H1 H2). ring.
    - intros l' Hl'. now rewrite (dt_b_in DT a l' Ha Hl').
  Qed.

  (** pointwise operators (functions of the total wavenumber only) *)
  Lemma laplacian_rel r y x : mrel y x -> mrel (Deriv.laplacian L r y) (Deriv.laplacian L r x).
  Proof. intros H a l Ha Hl. unfold Deriv.laplacian. now rewrite H. Qed.
  Lemma inverse_laplacian_rel r y x : mrel y x -> mrel (Deriv.inverse_laplacian L r y) (Deriv.inverse_laplacian L r x).
  Proof. intros H a l Ha Hl. unfold Deriv.inverse_laplacian. now rewrite H. Qed.
  Lemma clip_rel y x : mrel y x -> mrel (Deriv.clip L Lf 1 y) (Deriv.clip L L 1 x).
  Proof.
    intros H a l Ha Hl. unfold Deriv.clip. rewrite H by assumption.
    replace (Lf - (1 + (Lf - L)))%nat with (L - (1 + (L - L)))%nat by lia. reflexivity.
  Qed.

  Variable r : F.
  Local Notation R := (2 * Mh)%nat.
  Local Notation K := (2 * M - 1)%nat.

  Lemma grad_rel y x : mrel y x ->
    mrel (fst (cos_lat_grad true L R Lf r af bf false y)) (fst (cos_lat_grad false L K L r ar br false x)) /\
    mrel (snd (cos_lat_grad true L R Lf r af bf false y)) (snd (cos_lat_grad false L K L r ar br false x)).
  Proof.
    intros H. unfold cos_lat_grad, clip_if. cbn [fst snd]. split; intros a l Ha Hl.
    - now rewrite (dlon_rel y x H a l Ha Hl).
    - now rewrite (D1_rel y x H a l Ha Hl).
  Qed.

  Lemma div_rel y1 y2 x1 x2 : mrel y1 x1 -> mrel y2 x2 ->
    mrel (div_cos_lat true L R Lf r af bf false (y1, y2)) (div_cos_lat false L K L r ar br false (x1, x2)).
  Proof.
    intros H1 H2 a l Ha Hl. unfold div_cos_lat, clip_if. cbn [fst snd].
    now rewrite (dlon_rel y1 x1 H1 a l Ha Hl), (D2_rel y2 x2 H2 a l Ha Hl).
  Qed.
  Lemma curl_rel y1 y2 x1 x2 : mrel y1 x1 -> mrel y2 x2 ->
    mrel (curl_cos_lat true L R Lf r af bf false (y1, y2)) (curl_cos_lat false L K L r ar br false (x1, x2)).
  Proof.
    intros H1 H2 a l Ha Hl. unfold curl_cos_lat, clip_if. cbn [fst snd].
    now rewrite (dlon_rel y2 x2 H2 a l Ha Hl), (D2_rel y1 x1 H1 a l Ha Hl).
  Qed.

  Lemma uv_rel vf df v d : mrel vf v -> mrel df d ->
    mrel (fst (get_cos_lat_vector true L R Lf r af bf false vf df)) (fst (get_cos_lat_vector false L K L r ar br false v d)) /\
    mrel (snd (get_cos_lat_vector true L R Lf r af bf false vf df)) (snd (get_cos_lat_vector false L K L r ar br false v d)).
  Proof.
    intros Hv Hd. unfold get_cos_lat_vector. cbv zeta.
    destruct (grad_rel _ _ (inverse_laplacian_rel r _ _ Hd)) as [G1 G2].
    destruct (grad_rel _ _ (inverse_laplacian_rel r _ _ Hv)) as [S1 S2].
    unfold k_cross. cbn [fst snd] in *. split; intros a l Ha Hl.
    - now rewrite (G1 a l Ha Hl), (S2 a l Ha Hl).
    - now rewrite (G2 a l Ha Hl), (S1 a l Ha Hl).
  Qed.
End OpsRel.

(** ** (2) transfer: two operator records related under the re-indexing *)
Section Transfer.
  Context {F : Type} {o : Ops F} {Fc : FieldC o}.
  Add Field FFpft : (field_c : FieldTh o).
  Variables (A B : @HOps F) (M L I J : nat).
  Local Notation K := (2 * M - 1)%nat.
  Local Notation mrel := (mrel M L).
  Definition nrel (zf z : nat -> nat -> F) : Prop := forall i j, (i < I)%nat -> (j < J)%nat -> zf i j = z i j.

  Hypothesis HM : (1 <= M)%nat.
  Hypothesis HA_R : oR A = K.
  Hypothesis HA_C : oC A = L.
  Hypothesis HA_I : oI A = I.
  Hypothesis HA_J : oJ A = J.
  Hypothesis HB_R : (2 * M <= oR B)%nat.
  Hypothesis HB_C : (L <= oC B)%nat.
  Hypothesis HB_I : (I <= oI B)%nat.
  Hypothesis HB_J : (J <= oJ B)%nat.
  Hypothesis H_tn : forall y x, mrel y x -> nrel (o_tn B y) (o_tn A x).
  Hypothesis H_tm : forall zf z, nrel zf z -> mrel (o_tm B zf) (o_tm A z).
  Hypothesis H_grad : forall y x, mrel y x ->
    mrel (fst (o_grad B y)) (fst (o_grad A x)) /\ mrel (snd (o_grad B y)) (snd (o_grad A x)).
  Hypothesis H_uv : forall vf df v d, mrel vf v -> mrel df d ->
    mrel (fst (o_uv B vf df)) (fst (o_uv A v d)) /\ mrel (snd (o_uv B vf df)) (snd (o_uv A v d)).
  Hypothesis H_div : forall y1 y2 x1 x2, mrel y1 x1 -> mrel y2 x2 -> mrel (o_div B y1 y2) (o_div A x1 x2).
  Hypothesis H_curl : forall y1 y2 x1 x2, mrel y1 x1 -> mrel y2 x2 -> mrel (o_curl B y1 y2) (o_curl A x1 x2).
  Hypothesis H_lap : forall y x, mrel y x -> mrel (o_lap B y) (o_lap A x).
  Hypothesis H_clip : forall y x, mrel y x -> mrel (o_clip B y) (o_clip A x).
  Hypothesis H_sec2 : forall j, (j < J)%nat -> o_sec2 B j = o_sec2 A j.
  Hypothesis H_cor : forall j, (j < J)%nat -> o_cor B j = o_cor A j.
  Hypothesis H_eig : forall l, (l < L)%nat -> o_eig B l = o_eig A l.

  (** a fast state represents a reference state (all levels; tracers position by position) *)
  Definition trel (tf t : list (nat -> nat -> nat -> F)) : Prop :=
    length tf = length t /\
    forall n k, (n < length t)%nat -> mrel (nth n tf zero3 k) (nth n t zero3 k).
  Definition srel (sf s : @State F) : Prop :=
    (forall k, mrel (s_vort sf k) (s_vort s k)) /\ (forall k, mrel (s_div sf k) (s_div s k)) /\
    (forall k, mrel (s_temp sf k) (s_temp s k)) /\ mrel (s_lnps sf) (s_lnps s) /\ trel (s_tr sf) (s_tr s).
  Definition ntrel (tf t : list (nat -> nat -> nat -> F)) : Prop :=
    length tf = length t /\
    forall n k, (n < length t)%nat -> nrel (nth n tf zero3 k) (nth n t zero3 k).
  Definition drel (df d : @Diag F) : Prop :=
    (forall k, nrel (d_vort df k) (d_vort d k)) /\ (forall k, nrel (d_div df k) (d_div d k)) /\
    (forall k, nrel (d_temp df k) (d_temp d k)) /\ (forall k, nrel (d_u df k) (d_u d k)) /\
    (forall k, nrel (d_v df k) (d_v d k)) /\ nrel (d_gx df) (d_gx d) /\ nrel (d_gy df) (d_gy d) /\
    ntrel (d_tr df) (d_tr d).

  Lemma memo3_out n m q (x : nat -> nat -> nat -> F) k a j : (n <= k)%nat -> memo3 n m q x k a j = 0.
  Proof.
    intros Hk. unfold memo3.
    rewrite (nth_overflow (map _ (seq 0 n)) []) by (rewrite map_length, seq_length; exact Hk).
    destruct a; destruct j; reflexivity.
  Qed.

  Lemma to_nodal3_rel Kc yf y : (forall k, mrel (yf k) (y k)) ->
    forall k, nrel (to_nodal3_o B Kc yf k) (to_nodal3_o A Kc y k).
  Proof.
    intros H k i j Hi Hj. unfold to_nodal3_o.
    destruct (Nat.lt_ge_cases k Kc) as [Hk|Hk].
    - rewrite !memo3_ok by lia. now apply H_tn.
    - now rewrite !memo3_out by assumption.
  Qed.

  Lemma nth_map_zero3 (h : (nat -> nat -> nat -> F) -> nat -> nat -> nat -> F) t n :
    (n < length t)%nat -> nth n (map h t) zero3 = h (nth n t zero3).
  Proof. intros Hn. rewrite (nth_indep _ zero3 (h zero3)) by (now rewrite map_length). apply map_nth. Qed.

  Theorem diagnostic_state_rel Kc sf s : srel sf s ->
    drel (diagnostic_state_o B Kc sf) (diagnostic_state_o A Kc s).
  Proof.
    intros (Hv & Hd & Ht & Hp & Hl & Htr). unfold diagnostic_state_o. cbv zeta.
    destruct (H_grad _ _ Hp) as [G1 G2].
    repeat split; cbn [d_vort d_div d_temp d_u d_v d_gx d_gy d_tr].
    - now apply to_nodal3_rel.
    - now apply to_nodal3_rel.
    - now apply to_nodal3_rel.
    - apply to_nodal3_rel. intros k. exact (proj1 (H_uv _ _ _ _ (Hv k) (Hd k))).
    - apply to_nodal3_rel. intros k. exact (proj2 (H_uv _ _ _ _ (Hv k) (Hd k))).
    - intros i j Hi Hj. rewrite !sh_memo2_ok by lia. now apply H_tn.
    - intros i j Hi Hj. rewrite !sh_memo2_ok by lia. now apply H_tn.
    - now rewrite !map_length.
    - intros n k Hn. rewrite map_length in Hn.
      rewrite !nth_map_zero3 by lia. apply to_nodal3_rel. intros k'. now apply Htr.
  Qed.

  (** the nodal column algebra is layout independent: equal columns at every resolved node *)
  Lemma X_rel df d i j : drel df d -> (i < I)%nat -> (j < J)%nat -> X_of_o B df (i, j) = X_of_o A d (i, j).
  Proof.
    intros (Hv & Hd & Ht & Hu & Hw & Hx & Hy & _) Hi Hj. unfold X_of_o. cbn [fst snd].
    f_equal; try (apply functional_extensionality; intro k); auto.
    - now apply Hu.
    - now apply Hw.
    - now apply Hv.
    - now apply Hd.
    - now apply Ht.
  Qed.

  Lemma tm_rel zf z : nrel zf z -> mrel (tm_o B zf) (tm_o A z).
  Proof.
    intros H a l Ha Hl. pose proof (phi_lt a M Ha). unfold tm_o.
    rewrite !sh_memo2_ok by lia. now apply H_tm.
  Qed.
  Lemma tm_rel_X df d (Phi : @NCol F -> F) : drel df d ->
    mrel (tm_o B (fun i j => Phi (X_of_o B df (i, j)))) (tm_o A (fun i j => Phi (X_of_o A d (i, j)))).
  Proof. intros H. apply tm_rel. intros i j Hi Hj. now rewrite (X_rel df d i j H Hi Hj). Qed.
  Lemma memo_rel y x : mrel y x -> mrel (sh_memo2 (oR B) (oC B) y) (sh_memo2 (oR A) (oC A) x).
  Proof.
    intros H a l Ha Hl. pose proof (phi_lt a M Ha). rewrite !sh_memo2_ok by lia. now apply H.
  Qed.

  Variable c : @PEcfg F.
  Variable grav : F.
  Variables orogf orog : nat -> nat -> F.
  Hypothesis H_orog : mrel orogf orog.

  Lemma scalar_of_rel t1 m1 v1 t2 m2 v2 : mrel t1 t2 -> mrel m1 m2 -> mrel v1 v2 ->
    mrel (scalar_of_o B t1 m1 v1) (scalar_of_o A t2 m2 v2).
  Proof.
    intros Ht Hm Hv. unfold scalar_of_o. apply H_clip. intros a l Ha Hl.
    now rewrite (Ht a l Ha Hl), (H_div _ _ _ _ Hm Hv a l Ha Hl).
  Qed.

  Lemma level_rel df d r : drel df d ->
    mrel (l_vort (explicit_level_o B c grav orogf df r)) (l_vort (explicit_level_o A c grav orog d r)) /\
    mrel (l_div (explicit_level_o B c grav orogf df r)) (l_div (explicit_level_o A c grav orog d r)) /\
    mrel (l_temp (explicit_level_o B c grav orogf df r)) (l_temp (explicit_level_o A c grav orog d r)).
  Proof.
    intros H. unfold explicit_level_o. cbv zeta. cbn [l_vort l_div l_temp].
    pose proof (tm_rel_X df d (fun X => combined_u c true X (rt_dry c X) r) H) as Hcu.
    pose proof (tm_rel_X df d (fun X => combined_v c true X (rt_dry c X) r) H) as Hcv.
    pose proof (tm_rel_X df d (fun X => kinetic X r) H) as Hke.
    pose proof (tm_rel_X df d (fun X => hsa_mu X (n_temp X) r) H) as Hmu.
    pose proof (tm_rel_X df d (fun X => hsa_mv X (n_temp X) r) H) as Hmv.
    pose proof (tm_rel_X df d (fun X => temp_nodal_total c true X r) H) as Htt.
    cbv beta in Hcu, Hcv, Hke, Hmu, Hmv, Htt.
    split; [|split]; apply memo_rel.
    - unfold vort_of_o. apply H_clip. intros a l Ha Hl.
      now rewrite (H_curl _ _ _ _ Hcu Hcv a l Ha Hl).
    - unfold div_of_o. apply H_clip. intros a l Ha Hl.
      now rewrite (H_div _ _ _ _ Hcu Hcv a l Ha Hl), (H_lap _ _ Hke a l Ha Hl), (H_lap _ _ H_orog a l Ha Hl).
    - now apply scalar_of_rel.
  Qed.

  Lemma level_tr_rel df d r n : drel df d -> (n < length (d_tr d))%nat ->
    mrel (nth n (l_tr (explicit_level_o B c grav orogf df r)) (fun _ _ => 0))
         (nth n (l_tr (explicit_level_o A c grav orog d r)) (fun _ _ => 0)).
  Proof.
    intros H Hn. pose proof H as (_ & _ & _ & _ & _ & _ & _ & Hlen & Htr).
    unfold explicit_level_o. cbv zeta. cbn [l_tr].
    set (hB := fun t : nat -> nat -> nat -> F => _). set (hA := fun t : nat -> nat -> nat -> F => _).
    rewrite (nth_indep (map hB (d_tr df)) (fun _ _ => 0) (hB zero3)) by (rewrite map_length; lia).
    rewrite (nth_indep (map hA (d_tr d)) (fun _ _ => 0) (hA zero3)) by (rewrite map_length; lia).
    rewrite !map_nth. subst hB hA. cbv beta. apply memo_rel.
    assert (Ts : forall i j, (i < I)%nat -> (j < J)%nat ->
              tr_of (nth n (d_tr df) zero3) (i, j) = tr_of (nth n (d_tr d) zero3) (i, j)).
    { intros i j Hi Hj. unfold tr_of. cbn [fst snd]. apply functional_extensionality. intro k. now apply Htr. }
    apply scalar_of_rel; apply tm_rel; intros i j Hi Hj;
      now rewrite (X_rel df d i j H Hi Hj), (Ts i j Hi Hj).
  Qed.

  (** *** explicit_terms: every in-range coefficient of every field *)
  Theorem explicit_terms_of_diag_rel df d : drel df d ->
    forall k, (k < cK c)%nat ->
    mrel (s_vort (explicit_terms_of_diag_o B c grav orogf df) k) (s_vort (explicit_terms_of_diag_o A c grav orog d) k) /\
    mrel (s_div (explicit_terms_of_diag_o B c grav orogf df) k) (s_div (explicit_terms_of_diag_o A c grav orog d) k) /\
    mrel (s_temp (explicit_terms_of_diag_o B c grav orogf df) k) (s_temp (explicit_terms_of_diag_o A c grav orog d) k) /\
    mrel (s_lnps (explicit_terms_of_diag_o B c grav orogf df)) (s_lnps (explicit_terms_of_diag_o A c grav orog d)) /\
    (length (s_tr (explicit_terms_of_diag_o B c grav orogf df)) = length (s_tr (explicit_terms_of_diag_o A c grav orog d)) /\
     forall n, (n < length (d_tr d))%nat ->
       mrel (nth n (s_tr (explicit_terms_of_diag_o B c grav orogf df)) zero3 k)
            (nth n (s_tr (explicit_terms_of_diag_o A c grav orog d)) zero3 k)).
  Proof.
    intros H k Hk. pose proof H as (_ & _ & _ & _ & _ & _ & _ & Hlen & _).
    unfold explicit_terms_of_diag_o. cbv zeta. cbn [s_vort s_div s_temp s_lnps s_tr].
    rewrite !(nth_map_seq _ (cK c) k lev0 Hk).
    destruct (level_rel df d k H) as (E1 & E2 & E3).
    split; [exact E1|]. split; [exact E2|]. split; [exact E3|]. split.
    - apply memo_rel. unfold lnps_explicit_o. apply H_clip.
      exact (tm_rel_X df d (fun X => log_pressure_tendency c X) H).
    - split; [now rewrite !map_length, !seq_length|].
      intros n Hn.
      rewrite (nth_map_seq _ (length (d_tr df)) n zero3) by lia.
      rewrite (nth_map_seq _ (length (d_tr d)) n zero3) by lia.
      rewrite !(nth_map_seq _ (cK c) k lev0 Hk).
      now apply level_tr_rel.
  Qed.

  Theorem explicit_terms_full_rel sf s : srel sf s ->
    forall k, (k < cK c)%nat ->
    mrel (s_vort (explicit_terms_full_o B c grav orogf sf) k) (s_vort (explicit_terms_full_o A c grav orog s) k) /\
    mrel (s_div (explicit_terms_full_o B c grav orogf sf) k) (s_div (explicit_terms_full_o A c grav orog s) k) /\
    mrel (s_temp (explicit_terms_full_o B c grav orogf sf) k) (s_temp (explicit_terms_full_o A c grav orog s) k) /\
    mrel (s_lnps (explicit_terms_full_o B c grav orogf sf)) (s_lnps (explicit_terms_full_o A c grav orog s)) /\
    (length (s_tr (explicit_terms_full_o B c grav orogf sf)) = length (s_tr (explicit_terms_full_o A c grav orog s)) /\
     forall n, (n < length (s_tr s))%nat ->
       mrel (nth n (s_tr (explicit_terms_full_o B c grav orogf sf)) zero3 k)
            (nth n (s_tr (explicit_terms_full_o A c grav orog s)) zero3 k)).
  Proof.
    intros H k Hk. unfold explicit_terms_full_o. cbv zeta.
    pose proof (diagnostic_state_rel (cK c) sf s H) as D.
    destruct (explicit_terms_of_diag_rel _ _ D k Hk) as (E1 & E2 & E3 & E4 & E5 & E6).
    repeat split; try assumption.
    intros n Hn. apply E6. unfold diagnostic_state_o. cbn [d_tr]. now rewrite map_length.
  Qed.

  (** *** implicit_terms and implicit_inverse: coefficient by coefficient *)
  Lemma col_rel sf s a l : srel sf s -> (a < K)%nat -> (l < L)%nat -> col_of sf (phi a) l = col_of s a l.
  Proof.
    intros (Hv & Hd & Ht & Hp & _) Ha Hl. unfold col_of.
    f_equal; try (apply functional_extensionality; intro k).
    - now apply Hd.
    - now apply Ht.
    - now apply Hp.
  Qed.

  Theorem implicit_terms_full_rel sf s : srel sf s ->
    forall k,
    mrel (s_vort (implicit_terms_full_o B c sf) k) (s_vort (implicit_terms_full_o A c s) k) /\
    mrel (s_div (implicit_terms_full_o B c sf) k) (s_div (implicit_terms_full_o A c s) k) /\
    mrel (s_temp (implicit_terms_full_o B c sf) k) (s_temp (implicit_terms_full_o A c s) k) /\
    mrel (s_lnps (implicit_terms_full_o B c sf)) (s_lnps (implicit_terms_full_o A c s)).
  Proof.
    intros H k. pose proof H as (Hv & Hd & Ht & Hp & _).
    unfold implicit_terms_full_o. cbn [s_vort s_div s_temp s_lnps].
    split; [intros a l _ _; reflexivity|]. split; [|split].
    - intros a l Ha Hl. unfold div_tendency_implicit, unc. cbn [fst snd]. f_equal.
      apply H_lap; try assumption. intros a' l' Ha' Hl'. unfold cur. cbn [fst snd].
      pose proof (col_rel sf s a' l' H Ha' Hl') as E. unfold col_of in E.
      injection E as _ E2 E3. now rewrite E2, E3.
    - intros a l Ha Hl. unfold temp_tendency_implicit, unc. cbn [fst snd].
      pose proof (col_rel sf s a l H Ha Hl) as E. unfold col_of in E.
      injection E as E1 _ _. now rewrite E1.
    - intros a l Ha Hl.
      pose proof (col_rel sf s a l H Ha Hl) as E. unfold col_of in E.
      injection E as E1 _ _. now rewrite E1.
  Qed.

  Theorem implicit_inverse_full_rel eta invt sf s : srel sf s ->
    forall k,
    mrel (s_vort (implicit_inverse_full_o B c eta invt sf) k) (s_vort (implicit_inverse_full_o A c eta invt s) k) /\
    mrel (s_div (implicit_inverse_full_o B c eta invt sf) k) (s_div (implicit_inverse_full_o A c eta invt s) k) /\
    mrel (s_temp (implicit_inverse_full_o B c eta invt sf) k) (s_temp (implicit_inverse_full_o A c eta invt s) k) /\
    mrel (s_lnps (implicit_inverse_full_o B c eta invt sf)) (s_lnps (implicit_inverse_full_o A c eta invt s)) /\
    trel (s_tr (implicit_inverse_full_o B c eta invt sf)) (s_tr (implicit_inverse_full_o A c eta invt s)).
  Proof.
    intros H k. pose proof H as (Hv & _ & _ & _ & Htr).
    unfold implicit_inverse_full_o. cbv zeta. cbn [s_vort s_div s_temp s_lnps s_tr].
    split; [apply Hv|].
    repeat split; try (intros a l Ha Hl; now rewrite (col_rel sf s a l H Ha Hl), (H_eig l Hl)); apply Htr.
  Qed.
End Transfer.

(** ** (3) the instance: reference grid vs fast grid *)
Section Final.
  Context {F : Type} {o : Ops F} {Fc : FieldC o}.
  Add Field FFpfz : (field_c : FieldTh o).
  Variable g : @HGrid F.
  Variables (Mh Lf If Jf : nat) (stacked rev : bool).
  Variable ff : nat -> nat -> F.
  Variable pf : nat -> nat -> nat -> F.
  Variable wf : nat -> F.
  Variables af bf : nat -> nat -> F.
  Variables sec2f sinf : nat -> F.
  Local Notation M := (hM g).
  Local Notation L := (hL g).
  Local Notation I := (hI g).
  Local Notation J := (hJ g).
  (** the fast grid of the same truncation, nodes, radius and rotation rate *)
  Definition fast_grid_of : @FGrid F :=
    mkFG M L I J Mh Lf If Jf stacked rev (hr g) ff pf wf af bf sec2f sinf (homega g).
  Local Notation q := fast_grid_of.

  Hypothesis HM : (1 <= M)%nat.
  Hypothesis HMh : (M <= Mh)%nat.
  Hypothesis HLf : (L <= Lf)%nat.
  Hypothesis HIf : (I <= If)%nat.
  Hypothesis HJf : (J <= Jf)%nat.
  Hypothesis T : tables_related M L I J Mh Lf If Jf (hf g) (hp g) (hw g) ff pf wf.
  Hypothesis DT : dtables_related M L Lf af bf (ha g) (hb g).
  Hypothesis H_sec2 : forall j, (j < J)%nat -> sec2f j = hsec2 g j.
  Hypothesis H_sin : forall j, (j < J)%nat -> sinf j = hsin g j.

  Lemma to_nodal_rel y x : mrel M L y x -> nrel I J (to_nodal_f q y) (to_nodal g x).
  Proof.
    intros H i j Hi Hj. unfold to_nodal_f, to_nodal. cbn [gstacked grev gMh gLf gJf gf gp fast_grid_of].
    assert (E : synth_fast_u rev Mh Lf Jf ff pf y i j = synth (hR g) L J (hf g) (hp g) x i j).
    { rewrite synth_fast_general with (M:=M) (L:=L) (I:=I) (J:=J) (If:=If) (fr:=hf g) (pr:=hp g) (wr:=hw g) (wf:=wf);
        try assumption; try lia.
      unfold pad2.
      replace (i <? I) with true by (symmetry; now apply Nat.ltb_lt).
      replace (j <? J) with true by (symmetry; now apply Nat.ltb_lt). cbn [andb].
      apply synth_ext; [assumption|]. intros a l Ha Hl. unfold proj. now apply H. }
    destruct stacked; [|exact E].
    rewrite (stacked_irrelevant_synth rev rev) by lia. exact E.
  Qed.

  Lemma to_modal_rel zf z : nrel I J zf z -> mrel M L (to_modal_f q zf) (to_modal g z).
  Proof.
    intros H a l Ha Hl. pose proof (phi_lt a M Ha) as Hp.
    unfold to_modal_f, to_modal. cbn [gstacked grev gMh gIf gJf gf gp gw fast_grid_of].
    assert (E : analysis_fast_u rev Mh If Jf ff pf wf zf (phi a) l = analysis (hR g) I J (hf g) (hp g) (hw g) z a l).
    { rewrite analysis_fast_general with (M:=M) (L:=L) (I:=I) (J:=J) (Lf:=Lf) (fr:=hf g) (pr:=hp g) (wr:=hw g);
        try assumption; try lia.
      rewrite embed_phi by assumption.
      apply analysis_ext; [assumption|]. exact H. }
    destruct stacked; [|exact E].
    rewrite (stacked_irrelevant_analysis rev rev) by lia. exact E.
  Qed.

  Local Notation A := (real_ops g).
  Local Notation B := (fast_ops q).

  Section Apply.
    Variable c : @PEcfg F.
    Variable grav : F.
    Variables orogf orog : nat -> nat -> F.
    Hypothesis H_orog : mrel M L orogf orog.
    Variables (sf s : @State F).
    Hypothesis H_state : srel M L sf s.

    (** explicit_terms on the fast layout = the re-indexed explicit_terms on the reference layout *)
    Theorem explicit_terms_full_fast_equiv k : (k < cK c)%nat ->
      mrel M L (s_vort (explicit_terms_full_fast q c grav orogf sf) k) (s_vort (explicit_terms_full g c grav orog s) k) /\
      mrel M L (s_div (explicit_terms_full_fast q c grav orogf sf) k) (s_div (explicit_terms_full g c grav orog s) k) /\
      mrel M L (s_temp (explicit_terms_full_fast q c grav orogf sf) k) (s_temp (explicit_terms_full g c grav orog s) k) /\
      mrel M L (s_lnps (explicit_terms_full_fast q c grav orogf sf)) (s_lnps (explicit_terms_full g c grav orog s)) /\
      (length (s_tr (explicit_terms_full_fast q c grav orogf sf)) = length (s_tr (explicit_terms_full g c grav orog s)) /\
       forall n, (n < length (s_tr s))%nat ->
         mrel M L (nth n (s_tr (explicit_terms_full_fast q c grav orogf sf)) zero3 k)
                  (nth n (s_tr (explicit_terms_full g c grav orog s)) zero3 k)).
    Proof.
      intros Hk. unfold explicit_terms_full_fast. rewrite <- !explicit_terms_full_o_real.
      apply (explicit_terms_full_rel A B M L I J HM); try reflexivity; try assumption;
        cbn [oR oC oI oJ o_tn o_tm o_grad o_uv o_div o_curl o_lap o_clip o_sec2 o_cor o_eig fast_ops real_ops
             gM gL gI gJ gMh gLf gIf gJf gr ga gb gsec2 gsin gomega fast_grid_of]; try lia.
      - exact to_nodal_rel.
      - exact to_modal_rel.
      - intros y x H. eapply grad_rel; eauto.
      - intros vf df v d Hv Hd. eapply uv_rel; eauto.
      - intros y1 y2 x1 x2 H1 H2. eapply div_rel; eauto.
      - intros y1 y2 x1 x2 H1 H2. eapply curl_rel; eauto.
      - intros y x H. now apply laplacian_rel.
      - intros y x H. eapply clip_rel; eauto.
      - intros j Hj. unfold coriolis. now rewrite H_sin.
    Qed.

    Theorem implicit_terms_full_fast_equiv k :
      mrel M L (s_vort (implicit_terms_full_fast q c sf) k) (s_vort (implicit_terms_full g c s) k) /\
      mrel M L (s_div (implicit_terms_full_fast q c sf) k) (s_div (implicit_terms_full g c s) k) /\
      mrel M L (s_temp (implicit_terms_full_fast q c sf) k) (s_temp (implicit_terms_full g c s) k) /\
      mrel M L (s_lnps (implicit_terms_full_fast q c sf)) (s_lnps (implicit_terms_full g c s)).
    Proof.
      unfold implicit_terms_full_fast. rewrite <- !implicit_terms_full_o_real.
      apply (implicit_terms_full_rel A B M L); try assumption.
      intros y x H. now apply laplacian_rel.
    Qed.

    Theorem implicit_inverse_full_fast_equiv eta invt k :
      mrel M L (s_vort (implicit_inverse_full_fast q c eta invt sf) k) (s_vort (implicit_inverse_full g c eta invt s) k) /\
      mrel M L (s_div (implicit_inverse_full_fast q c eta invt sf) k) (s_div (implicit_inverse_full g c eta invt s) k) /\
      mrel M L (s_temp (implicit_inverse_full_fast q c eta invt sf) k) (s_temp (implicit_inverse_full g c eta invt s) k) /\
      mrel M L (s_lnps (implicit_inverse_full_fast q c eta invt sf)) (s_lnps (implicit_inverse_full g c eta invt s)) /\
      trel M L (s_tr (implicit_inverse_full_fast q c eta invt sf)) (s_tr (implicit_inverse_full g c eta invt s)).
    Proof.
      unfold implicit_inverse_full_fast. rewrite <- !implicit_inverse_full_o_real.
      apply (implicit_inverse_full_rel A B M L); try assumption.
      intros l Hl. reflexivity.
    Qed.
  End Apply.

  (** the embedded state E s represents s, so the three theorems apply to (E s, s) *)
  Lemma srel_embed_state (s : @State F) : srel M L (embed_state M L s) s.
  Proof.
    unfold srel, embed_state. cbn [s_vort s_div s_temp s_lnps s_tr].
    repeat split; try (intros; apply mrel_embed).
    - now rewrite map_length.
    - intros n k Hn.
      rewrite (nth_indep _ zero3 ((fun t k0 => embed M L (t k0)) zero3)) by (now rewrite map_length).
      rewrite (map_nth (fun t k0 => embed M L (t k0))). apply mrel_embed.
  Qed.
End Final.

(** ** (4) "and trajectories": every integrator of Model/Integrators.v is a term over
    (vzero, vadd, vscal, Fx, G, Ginv), so it commutes with ANY map S between two state spaces that
    is a homomorphism of the vector operations and intertwines the three operators.  No
    vector-space law is needed.  (Thm/Scaling.v has the analogous theorems for an affine change of
    scale within ONE space; here there are two operator triples and S = the embedding E.) *)
Section StepHom.
  Context {F : Type} {o : Ops F} {V V' : Type} {vo : VOps F V} {vo' : VOps F V'}.
  Variable S : V -> V'.
  Hypothesis S_add : forall u v, S (vadd u v) = vadd (S u) (S v).
  Hypothesis S_scal : forall a u, S (vscal a u) = vscal a (S u).
  Hypothesis S_zero : S vzero = vzero.
  Variables (Fx G : V -> V) (Ginv : V -> F -> V) (Fx' G' : V' -> V') (Ginv' : V' -> F -> V').
  Hypothesis HF : forall u, Fx' (S u) = S (Fx u).
  Hypothesis HG : forall u, G' (S u) = S (G u).
  Hypothesis HGinv : forall u eta, Ginv' (S u) eta = S (Ginv u eta).

  Ltac hom := repeat (first [rewrite HF | rewrite HG | rewrite HGinv | rewrite <- S_scal | rewrite <- S_add]).

  Theorem euler_step_hom dt u : euler_step Fx' Ginv' dt (S u) = S (euler_step Fx Ginv dt u).
  Proof. unfold euler_step. cbv zeta. hom. reflexivity. Qed.

  Theorem cn_rk2_step_hom dt u : cn_rk2_step Fx' G' Ginv' dt (S u) = S (cn_rk2_step Fx G Ginv dt u).
  Proof. unfold cn_rk2_step. cbv zeta. hom. reflexivity. Qed.

  Theorem leapfrog_step_hom dt alpha p q :
    leapfrog_step Fx' G' Ginv' dt alpha (S p, S q)
    = (S (fst (leapfrog_step Fx G Ginv dt alpha (p, q))), S (snd (leapfrog_step Fx G Ginv dt alpha (p, q)))).
  Proof. unfold leapfrog_step. cbn [fst snd]. hom. reflexivity. Qed.

  Theorem ls_loop_hom dt al be ga h u :
    ls_loop Fx' G' Ginv' dt al be ga (S h) (S u) = S (ls_loop Fx G Ginv dt al be ga h u).
  Proof.
    revert be ga h u. induction al as [|a0 al IH]; intros be ga h u.
    - destruct be, ga; reflexivity.
    - destruct be as [|b be]; [destruct ga; reflexivity|].
      destruct ga as [|g0 ga]; [reflexivity|].
      destruct al as [|a1 al]; [reflexivity|].
      cbn [ls_loop]. hom. apply IH.
  Qed.
  Theorem ls_step_hom dt al be ga u :
    ls_step Fx' G' Ginv' dt al be ga (S u) = S (ls_step Fx G Ginv dt al be ga u).
  Proof. unfold ls_step. rewrite <- ls_loop_hom. now rewrite S_zero. Qed.

  Definition oS (x : option V) : option V' := option_map S x.
  Lemma wsum_skip_hom cs xs acc : wsum_skip cs (map oS xs) (S acc) = option_map S (wsum_skip cs xs acc).
  Proof.
    revert xs acc. induction cs as [|c0 cs IH]; intros xs acc; cbn [wsum_skip]; [reflexivity|].
    destruct xs as [|x xs]; cbn [map wsum_skip]; [reflexivity|].
    destruct (nz c0).
    - destruct x as [v|]; cbn [oS option_map]; [|reflexivity]. hom. apply IH.
    - apply IH.
  Qed.
  Lemma wsum_skip_hom0 cs xs : wsum_skip cs (map oS xs) vzero = option_map S (wsum_skip cs xs vzero).
  Proof. rewrite <- wsum_skip_hom. now rewrite S_zero. Qed.

  Lemma imex_stages_hom dt y0 b_ex b_im i rex rim fs gs :
    imex_stages Fx' G' Ginv' dt (S y0) b_ex b_im i rex rim (map oS fs) (map oS gs)
    = option_map (fun p => (map oS (fst p), map oS (snd p))) (imex_stages Fx G Ginv dt y0 b_ex b_im i rex rim fs gs).
  Proof.
    revert i rim fs gs. induction rex as [|re rex IH]; intros i rim fs gs; cbn [imex_stages]; [reflexivity|].
    destruct rim as [|ri rim]; [reflexivity|].
    rewrite !wsum_skip_hom0.
    destruct (wsum_skip re fs vzero) as [ex|]; cbn [option_map]; [|reflexivity].
    destruct (wsum_skip ri gs vzero) as [im|]; cbn [option_map]; [|reflexivity].
    hom.
    set (Y := Ginv (vadd (vadd y0 (vscal dt ex)) (vscal dt im)) (dt * nth i ri 0)).
    replace (map oS fs ++ [if needed i rex b_ex then Some (S (Fx Y)) else None])
      with (map oS (fs ++ [if needed i rex b_ex then Some (Fx Y) else None]))
      by (rewrite map_app; cbn [map]; destruct (needed i rex b_ex); reflexivity).
    replace (map oS gs ++ [if needed i rim b_im then Some (S (G Y)) else None])
      with (map oS (gs ++ [if needed i rim b_im then Some (G Y) else None]))
      by (rewrite map_app; cbn [map]; destruct (needed i rim b_im); reflexivity).
    apply IH.
  Qed.

  Theorem imex_step_hom dt a_ex a_im b_ex b_im y0 :
    imex_step Fx' G' Ginv' dt a_ex a_im b_ex b_im (S y0) = option_map S (imex_step Fx G Ginv dt a_ex a_im b_ex b_im y0).
  Proof.
    unfold imex_step.
    pose proof (imex_stages_hom dt y0 b_ex b_im 1 a_ex a_im [Some (Fx y0)] [Some (G y0)]) as H.
    cbn [map oS option_map] in H. rewrite HF, HG, H. clear H.
    destruct (imex_stages Fx G Ginv dt y0 b_ex b_im 1 a_ex a_im [Some (Fx y0)] [Some (G y0)]) as [[fs gs]|];
      cbn [option_map fst snd]; [|reflexivity].
    rewrite !wsum_skip_hom0.
    destruct (wsum_skip b_ex fs vzero) as [ex|]; cbn [option_map]; [|reflexivity].
    destruct (wsum_skip b_im gs vzero) as [im|]; cbn [option_map]; [|reflexivity].
    hom. reflexivity.
  Qed.
End StepHom.

(** ** (5) the instance: whole-state primitive equations, S = E.
    The three model operators are composed with the normal forms [norm_real] / [norm_fast] on the
    OUTPUT side only (so that the in-range equalities of (3) become equalities of states); on the
    input side they are applied to the states as they are. *)
Section WholeStateSteps.
  Context {F : Type} {o : Ops F} {Fc : FieldC o}.
  Add Field FFpfs : (field_c : FieldTh o).
  Variable g : @HGrid F.
  Variables (Mh Lf If Jf : nat) (stacked rev : bool).
  Variable ff : nat -> nat -> F.
  Variable pf : nat -> nat -> nat -> F.
  Variable wf : nat -> F.
  Variables af bf : nat -> nat -> F.
  Variables sec2f sinf : nat -> F.
  Local Notation M := (hM g).
  Local Notation L := (hL g).
  Local Notation q := (fast_grid_of g Mh Lf If Jf stacked rev ff pf wf af bf sec2f sinf).
  Hypothesis HM : (1 <= M)%nat.
  Hypothesis HMh : (M <= Mh)%nat.
  Hypothesis HLf : (L <= Lf)%nat.
  Hypothesis HIf : (hI g <= If)%nat.
  Hypothesis HJf : (hJ g <= Jf)%nat.
  Hypothesis T : tables_related M L (hI g) (hJ g) Mh Lf If Jf (hf g) (hp g) (hw g) ff pf wf.
  Hypothesis DT : dtables_related M L Lf af bf (ha g) (hb g).
  Hypothesis H_sec2 : forall j, (j < hJ g)%nat -> sec2f j = hsec2 g j.
  Hypothesis H_sin : forall j, (j < hJ g)%nat -> sinf j = hsin g j.
  Variable c : @PEcfg F.
  Variable grav : F.
  Variable orog : nat -> nat -> F.
  Variable invt : F -> nat -> @Mat F.        (* np.linalg.inv(implicit_matrix) per step size *)
  Hypothesis HK : (0 < cK c)%nat.            (* at least one level *)
  Local Notation Kc := (cK c).
  Local Notation ES := (embed_state M L).

  Definition FxR (u : @State F) : @State F := norm_real Kc M L (explicit_terms_full g c grav orog u).
  Definition GR (u : @State F) : @State F := norm_real Kc M L (implicit_terms_full g c u).
  Definition GinvR (u : @State F) (eta : F) : @State F := norm_real Kc M L (implicit_inverse_full g c eta (invt eta) u).
  Definition FxF (y : @State F) : @State F := norm_fast Kc M L (explicit_terms_full_fast q c grav (embed M L orog) y).
  Definition GF (y : @State F) : @State F := norm_fast Kc M L (implicit_terms_full_fast q c y).
  Definition GinvF (y : @State F) (eta : F) : @State F := norm_fast Kc M L (implicit_inverse_full_fast q c eta (invt eta) y).

  (** E is linear *)
  Lemma embed_add (x y : nat -> nat -> F) k l :
    embed M L (fun a l => x a l + y a l) k l = embed M L x k l + embed M L y k l.
  Proof. unfold embed. destruct ((k <? 2 * M) && (l <? L)); [destruct k as [|[|k]]|]; ring. Qed.
  Lemma embed_scal t (x : nat -> nat -> F) k l :
    embed M L (fun a l => t * x a l) k l = t * embed M L x k l.
  Proof. unfold embed. destruct ((k <? 2 * M) && (l <? L)); [destruct k as [|[|k]]|]; ring. Qed.
  Lemma embed_zero k l : embed M L (fun _ _ => 0) k l = 0.
  Proof. unfold embed. destruct ((k <? 2 * M) && (l <? L)); [destruct k as [|[|k]]|]; reflexivity. Qed.

  Lemma ES_add u v : ES (vadd (VOps := PwOps) u v) = vadd (VOps := PwOps) (ES u) (ES v).
  Proof.
    unfold embed_state. cbn [vadd PwOps s_vort s_div s_temp s_lnps s_tr map]. f_equal;
      repeat (apply functional_extensionality; intro); apply embed_add.
  Qed.
  Lemma ES_scal t u : ES (vscal (VOps := PwOps) t u) = vscal (VOps := PwOps) t (ES u).
  Proof.
    unfold embed_state. cbn [vscal PwOps s_vort s_div s_temp s_lnps s_tr map]. f_equal;
      repeat (apply functional_extensionality; intro); apply embed_scal.
  Qed.
  Lemma ES_zero : ES (vzero (VOps := PwOps)) = vzero (VOps := PwOps).
  Proof.
    unfold embed_state. cbn [vzero PwOps s_vort s_div s_temp s_lnps s_tr map]. unfold zero3. f_equal;
      repeat (apply functional_extensionality; intro); apply embed_zero.
  Qed.

  Lemma inr3_elim K0 R0 L0 k a l : inr3 K0 R0 L0 k a l = true -> (k < K0)%nat /\ (a < R0)%nat /\ (l < L0)%nat.
  Proof.
    unfold inr3. intros H. apply andb_prop in H. destruct H as [H Hl]. apply andb_prop in H. destruct H as [Hk Ha].
    apply Nat.ltb_lt in Hk, Ha, Hl. auto.
  Qed.
  Lemma inr2_elim R0 L0 a l : inr2 R0 L0 a l = true -> (a < R0)%nat /\ (l < L0)%nat.
  Proof. unfold inr2. intros H. apply andb_prop in H. destruct H as [Ha Hl]. apply Nat.ltb_lt in Ha, Hl. auto. Qed.

  Lemma norm_real_ext (s1 s2 : @State F) :
    (forall k a l, (k < Kc)%nat -> (a < 2 * M - 1)%nat -> (l < L)%nat ->
       s_vort s1 k a l = s_vort s2 k a l /\ s_div s1 k a l = s_div s2 k a l /\ s_temp s1 k a l = s_temp s2 k a l) ->
    (forall a l, (a < 2 * M - 1)%nat -> (l < L)%nat -> s_lnps s1 a l = s_lnps s2 a l) ->
    norm_real Kc M L s1 = norm_real Kc M L s2.
  Proof.
    intros H3 H2. unfold norm_real. cbv zeta. f_equal.
    1-3: do 3 (apply functional_extensionality; intro); unfold cl3;
      destruct (inr3 Kc (2 * M - 1) L x x0 x1) eqn:E; [|reflexivity];
      destruct (inr3_elim _ _ _ _ _ _ E) as (Hk & Ha & Hl); apply (H3 x x0 x1 Hk Ha Hl).
    do 2 (apply functional_extensionality; intro). unfold cl2.
    destruct (inr2 (2 * M - 1) L x x0) eqn:E; [|reflexivity].
    destruct (inr2_elim _ _ _ _ E) as (Ha & Hl). now apply H2.
  Qed.

  (** the three intertwining relations = the equivalence theorems of (3) *)
  Lemma ws_HF u : FxF (ES u) = ES (FxR u).
  Proof.
    unfold FxF, FxR, norm_fast. f_equal. apply norm_real_ext.
    - intros k a l Hk Ha Hl.
      destruct (explicit_terms_full_fast_equiv g Mh Lf If Jf stacked rev ff pf wf af bf sec2f sinf
                  HM HMh HLf HIf HJf T DT H_sec2 H_sin c grav (embed M L orog) orog (mrel_embed M L orog)
                  (ES u) u (srel_embed_state g u) k Hk) as (E1 & E2 & E3 & _).
      cbn [proj_state s_vort s_div s_temp]. unfold proj. split; [|split]; [apply E1 | apply E2 | apply E3]; assumption.
    - intros a l Ha Hl.
      destruct (explicit_terms_full_fast_equiv g Mh Lf If Jf stacked rev ff pf wf af bf sec2f sinf
                  HM HMh HLf HIf HJf T DT H_sec2 H_sin c grav (embed M L orog) orog (mrel_embed M L orog)
                  (ES u) u (srel_embed_state g u) 0%nat HK) as (_ & _ & _ & E4 & _).
      cbn [proj_state s_lnps]. unfold proj. now apply E4.
  Qed.

  Lemma ws_HG u : GF (ES u) = ES (GR u).
  Proof.
    unfold GF, GR, norm_fast. f_equal. apply norm_real_ext.
    - intros k a l Hk Ha Hl.
      destruct (implicit_terms_full_fast_equiv g Mh Lf If Jf stacked rev ff pf wf af bf sec2f sinf c
                  (ES u) u (srel_embed_state g u) k) as (E1 & E2 & E3 & _).
      cbn [proj_state s_vort s_div s_temp]. unfold proj. split; [|split]; [apply E1 | apply E2 | apply E3]; assumption.
    - intros a l Ha Hl.
      destruct (implicit_terms_full_fast_equiv g Mh Lf If Jf stacked rev ff pf wf af bf sec2f sinf c
                  (ES u) u (srel_embed_state g u) 0%nat) as (_ & _ & _ & E4).
      cbn [proj_state s_lnps]. unfold proj. now apply E4.
  Qed.

  Lemma ws_HGinv u eta : GinvF (ES u) eta = ES (GinvR u eta).
  Proof.
    unfold GinvF, GinvR, norm_fast. f_equal. apply norm_real_ext.
    - intros k a l Hk Ha Hl.
      destruct (implicit_inverse_full_fast_equiv g Mh Lf If Jf stacked rev ff pf wf af bf sec2f sinf c
                  (ES u) u (srel_embed_state g u) eta (invt eta) k) as (E1 & E2 & E3 & _).
      cbn [proj_state s_vort s_div s_temp]. unfold proj. split; [|split]; [apply E1 | apply E2 | apply E3]; assumption.
    - intros a l Ha Hl.
      destruct (implicit_inverse_full_fast_equiv g Mh Lf If Jf stacked rev ff pf wf af bf sec2f sinf c
                  (ES u) u (srel_embed_state g u) eta (invt eta) 0%nat) as (_ & _ & _ & E4 & _).
      cbn [proj_state s_lnps]. unfold proj. now apply E4.
  Qed.

  (** *** one step of every integrator on the fast whole-state model, started from E u, is E of the reference step *)
  Theorem whole_state_step_equiv dt alpha al be ga a_ex a_im b_ex b_im u p0 q0 :
    euler_step (vo := PwOps) FxF GinvF dt (ES u) = ES (euler_step (vo := PwOps) FxR GinvR dt u) /\
    cn_rk2_step (vo := PwOps) FxF GF GinvF dt (ES u) = ES (cn_rk2_step (vo := PwOps) FxR GR GinvR dt u) /\
    ls_step (vo := PwOps) FxF GF GinvF dt al be ga (ES u) = ES (ls_step (vo := PwOps) FxR GR GinvR dt al be ga u) /\
    imex_step (vo := PwOps) FxF GF GinvF dt a_ex a_im b_ex b_im (ES u)
    = option_map ES (imex_step (vo := PwOps) FxR GR GinvR dt a_ex a_im b_ex b_im u) /\
    leapfrog_step (vo := PwOps) FxF GF GinvF dt alpha (ES p0, ES q0)
    = (ES (fst (leapfrog_step (vo := PwOps) FxR GR GinvR dt alpha (p0, q0))),
       ES (snd (leapfrog_step (vo := PwOps) FxR GR GinvR dt alpha (p0, q0)))).
  Proof.
    split; [|split; [|split; [|split]]].
    - exact (euler_step_hom (vo := PwOps) (vo' := PwOps) ES ES_add ES_scal FxR GinvR FxF GinvF ws_HF ws_HGinv dt u).
    - exact (cn_rk2_step_hom (vo := PwOps) (vo' := PwOps) ES ES_add ES_scal FxR GR GinvR FxF GF GinvF ws_HF ws_HG ws_HGinv dt u).
    - exact (ls_step_hom (vo := PwOps) (vo' := PwOps) ES ES_add ES_scal ES_zero FxR GR GinvR FxF GF GinvF ws_HF ws_HG ws_HGinv dt al be ga u).
    - exact (imex_step_hom (vo := PwOps) (vo' := PwOps) ES ES_add ES_scal ES_zero FxR GR GinvR FxF GF GinvF ws_HF ws_HG ws_HGinv
               dt a_ex a_im b_ex b_im u).
    - exact (leapfrog_step_hom (vo := PwOps) (vo' := PwOps) ES ES_add ES_scal FxR GR GinvR FxF GF GinvF ws_HF ws_HG ws_HGinv dt alpha p0 q0).
  Qed.

  (** spectral filters (a factor per total wavenumber) commute with E *)
  Lemma lfilter_equiv (sigmaf sigma : nat -> F) u w :
    (forall l, (l < L)%nat -> sigmaf l = sigma l) ->
    lfilter sigmaf (ES u) (ES w) = ES (lfilter sigma u w).
  Proof.
    intros Hs. unfold lfilter, embed_state. cbn [s_vort s_div s_temp s_lnps s_tr map]. f_equal;
      repeat (apply functional_extensionality; intro); unfold embed;
      match goal with |- context [(?k <? 2 * M) && (?l <? L)] =>
        destruct (Nat.ltb_spec l L) as [Hl|Hl]; [rewrite (Hs l Hl)|]; destruct (k <? 2 * M); cbn [andb];
        try (destruct k as [|[|?]]); ring end.
  Qed.

  (** any number of filtered steps *)
  Theorem whole_state_trajectory_equiv (step step' : @State F -> @State F) (fl fl' : list (@State F -> @State F -> @State F)) :
    (forall u, step' (ES u) = ES (step u)) ->
    Forall2 (fun f' f => forall u w, f' (ES u) (ES w) = ES (f u w)) fl' fl ->
    forall n u, Nat.iter n (filtered_step step' fl') (ES u) = ES (Nat.iter n (filtered_step step fl) u).
  Proof.
    intros Hs Hf.
    assert (A : forall u, filtered_step step' fl' (ES u) = ES (filtered_step step fl u)).
    { intros u. unfold filtered_step. rewrite Hs. generalize (step u) as w.
      induction Hf as [|f' f fl' fl Hff Hf IH]; intros w; cbn [apply_filters_s]; [reflexivity|].
      rewrite Hff. apply IH. }
    induction n as [|n IH]; intros u; [reflexivity|].
    change (Nat.iter (S n) (filtered_step step' fl') (ES u)) with (filtered_step step' fl' (Nat.iter n (filtered_step step' fl') (ES u))).
    change (Nat.iter (S n) (filtered_step step fl) u) with (filtered_step step fl (Nat.iter n (filtered_step step fl) u)).
    rewrite IH. apply A.
  Qed.

  (** E is injective on normal forms: the fast trajectory determines the reference one *)
  Lemma proj_embed_state (s : @State F) : norm_real Kc M L (proj_state (ES s)) = norm_real Kc M L s.
  Proof.
    apply norm_real_ext.
    - intros k a l Hk Ha Hl. cbn [proj_state embed_state s_vort s_div s_temp]. now rewrite !proj_embed.
    - intros a l Ha Hl. cbn [proj_state embed_state s_lnps]. now apply proj_embed.
  Qed.
End WholeStateSteps.
