(** Property C10, table hypotheses DISCHARGED from the recurrence of the code.

    The equatorial-mirror theorems of Thm/Symmetry.v / Thm/ShallowWater.v assume [H_parity]
    (p[a, J-1-j, l] = (-1)^(l+|m(a)|) p[a, j, l]) about the Legendre table, and the rotation
    theorems assume [H_p_pairs] (the cosine and the sine row of a wavenumber share a table).
    Here both are THEOREMS about the table the code builds,
        basis.p[a] = associated_legendre.evaluate(n_m = M, n_l = L, x)[|m(a)|]
    (RealSphericalHarmonics: np.repeat(p, 2, axis=0)[1:];  FastSphericalHarmonics: one table per
    wavenumber, used for the real and the imaginary row, zero rows behind - [legendre_evaluate]
    is zero for orders >= n_m), with [evaluate] the faithful model of Model/Legendre.v
    (arithmetic regenerated from the source, Gen/Legendre.v).  What remains as a hypothesis is
    the symmetry of the INPUTS of the recurrence: the latitude nodes x = sin(lat) are
    antisymmetric and the table y = np.sqrt(1 - x*x) is symmetric about the equator.

    The only definition of this file, [leg_basis_p], is executable (it is extracted by
    Extract/ExC10.v and compared with the implementation's basis.p). *)
From Dino Require Import Base.Ops Base.Sums Gen.DerivExprs Gen.Legendre Model.SHT Model.Legendre Model.Symmetry
     Thm.Deriv Thm.Legendre Thm.Symmetry.
Local Open Scope F_scope.

Section LegBasis.
  Context {F : Type} {o : Ops F}.
  (** basis.p of both layouts, rows expanded: row a carries the table of the wavenumber of row a *)
  Definition leg_basis_p (fast : bool) (sq : F -> F) (J : nat) (x y : nat -> F) (M L : nat) : nat -> nat -> nat -> F :=
    let ev := legendre_evaluate sq J x y M L in      (* evaluated once: np.repeat copies rows of ONE evaluate result *)
    fun a j l => ev (sy_wav fast a) j l.
End LegBasis.

Section SymLeg.
  Context {F : Type} {o : Ops F} {Fc : FieldC o}.
  Add Field FFsl : (field_c : FieldTh o).
  Variable sq : F -> F.

  (** the recurrence at node i reads the node tables at index i only *)
  Lemma leg_diag_reindex (y1 y2 : nat -> F) m i1 i2 :
    y1 i1 = y2 i2 -> leg_diag sq y1 m i1 = leg_diag sq y2 m i2.
  Proof. intros Hy. induction m as [|m IH]; cbn [leg_diag]; [reflexivity|]. now rewrite IH, Hy. Qed.

  Lemma rs_reindex (x1 y1 x2 y2 : nat -> F) m i1 i2 k :
    x1 i1 = x2 i2 -> y1 i1 = y2 i2 -> rs sq x1 y1 m i1 k = rs sq x2 y2 m i2 k.
  Proof.
    intros Hx Hy. induction k as [|k IH]; cbn [rs].
    - now rewrite (leg_diag_reindex y1 y2 m i1 i2 Hy).
    - now rewrite IH, Hx.
  Qed.

  Lemma legendre_evaluate_reindex nx (x1 y1 x2 y2 : nat -> F) n_m n_l m i1 i2 l :
    (n_m <= n_l)%nat -> (i1 < nx)%nat -> (i2 < nx)%nat -> x1 i1 = x2 i2 -> y1 i1 = y2 i2 ->
    legendre_evaluate sq nx x1 y1 n_m n_l m i1 l = legendre_evaluate sq nx x2 y2 n_m n_l m i2 l.
  Proof.
    intros Hml H1 H2 Hx Hy. rewrite !legendre_evaluate_spec by assumption.
    destruct (Nat.ltb m n_m && Nat.leb m l && Nat.ltb l n_l); [|reflexivity].
    unfold rk. now rewrite (rs_reindex x1 y1 x2 y2 m i1 i2 (l - m) Hx Hy).
  Qed.

  (** (-1)^(l-m) = (-1)^(l+m) on the support m <= l *)
  Lemma sgn_sub_add m l : (m <= l)%nat -> sgn (l - m) = sgn_pow (l + m) :> F.
  Proof.
    intros H. unfold sgn, sgn_pow.
    replace (l + m)%nat with ((l - m) + 2 * m)%nat by lia. now rewrite Nat.even_add_mul_2.
  Qed.

  Section Nodes.
    Variable J : nat.
    Variables x y : nat -> F.        (* sin(lat) nodes, np.sqrt(1 - x*x) *)
    (** symmetry of the inputs of the recurrence about the equator *)
    Definition H_x_antisym : Prop := forall j, (j < J)%nat -> x (J - 1 - j)%nat = - x j.
    Definition H_y_sym : Prop := forall j, (j < J)%nat -> y (J - 1 - j)%nat = y j.

    (** evaluate at the mirrored node *)
    Theorem legendre_evaluate_flip M L m j l :
      (M <= L)%nat -> H_x_antisym -> H_y_sym -> (j < J)%nat ->
      legendre_evaluate sq J x y M L m (J - 1 - j)%nat l = sgn (l - m) * legendre_evaluate sq J x y M L m j l.
    Proof.
      intros Hml Hx Hy Hj.
      rewrite <- (legendre_parity sq J x y (fun j => x (J - 1 - j)%nat) (fun j => y (J - 1 - j)%nat) Hx Hy M L m j l Hml Hj).
      apply legendre_evaluate_reindex; try assumption; try reflexivity. lia.
    Qed.

    (** [H_parity] for the table the code builds, both layouts, any number of rows *)
    Theorem H_parity_from_recurrence fast R M L :
      (M <= L)%nat -> H_x_antisym -> H_y_sym -> H_parity fast R L J (leg_basis_p fast sq J x y M L).
    Proof.
      intros Hml Hx Hy a j l Ha Hj Hl. unfold leg_basis_p; cbv zeta.
      rewrite (legendre_evaluate_flip M L (sy_wav fast a) j l Hml Hx Hy Hj).
      destruct (Nat.le_gt_cases (sy_wav fast a) l) as [Hle|Hgt].
      - now rewrite (sgn_sub_add _ _ Hle).
      - rewrite (legendre_support sq J x y M L (sy_wav fast a) j l) by (left; exact Hgt). ring.
    Qed.

    (** [H_p_pairs] needs no hypothesis on the nodes at all: partner rows have the same wavenumber *)
    Theorem H_p_pairs_from_recurrence fast R M L :
      layout_ok fast R -> H_p_pairs fast R L J (leg_basis_p fast sq J x y M L).
    Proof.
      intros HR a j l Ha Hj Hl. unfold leg_basis_p; cbv zeta. now rewrite (partner_wav fast R a HR Ha).
    Qed.

    (** support of the table (rows of wavenumber m carry nothing below l = m, nothing for m >= M:
        the zero padding rows of the fast layout) *)
    Theorem leg_basis_p_support fast M L a j l :
      (l < sy_wav fast a)%nat \/ (L <= l)%nat \/ (M <= sy_wav fast a)%nat -> leg_basis_p fast sq J x y M L a j l = 0.
    Proof. intros H. unfold leg_basis_p; cbv zeta. now apply legendre_support. Qed.
  End Nodes.
End SymLeg.
