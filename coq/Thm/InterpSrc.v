(** The hand-written interpolation model (Model/Interp.v) equals the transcription of
    dinosaur/vertical_interpolation.py regenerated on every run (Gen/InterpSrc.v,
    tools/translate/gen_interp.py) in the array DSL of Model/ArrDSL.v.  Elementwise operations
    of the transcription are length-checked (empty on a mismatch), so a slice / pad width that
    changes a length breaks these proofs as well as a changed formula. *)
From Dino Require Import Base.Ops Base.Sums Base.Ord Model.Sigma Model.Interp Model.ArrDSL Gen.InterpSrc Thm.SigmaSrc.
Local Open Scope F_scope.

Ltac dsl2 := cbv [dot_interp_src linear_interp_with_linear_extrap_src extrapolate_left_src extrapolate_right_src
                  extrapolate_both_src surface_pressure_src hyb_sigma_boundaries_src hyb_sigma_centers_src
                  a_slice a_get norm_bound a_const a_concat a_concatl a_pad a_diff a_map a_map2_chk a_map2b_chk
                  a_ofb a_if_chk a_dot_chk a_sum a_mapn a_arange chk_len fold_right];
            cbn [fst snd].
(** evaluate lengths of the form S (S m) - 1, min (S (S m)) 1, (S m =? S m), ... *)
Ltac lens := repeat (progress (cbn [fst snd Nat.min Nat.max Nat.sub Nat.add Nat.eqb];
                               rewrite ?Nat.add_0_r, ?Nat.add_1_r, ?Nat.eqb_refl)).
Ltac tests := repeat match goal with |- context [fltb ?a ?b] => destruct (fltb a b) end.

Section InterpSrcThm.
  Context {F : Type} {o : Ops F} {Fc : FieldC o}.
  Add Field FFint : (field_c : FieldTh o).
  Local Notation arr := (arr F).

  Ltac fin2 := rewrite ?a_nat_2, ?a_nat_1; unfold two;
               first [reflexivity | ring | solve [repeat (f_equal; try ring)]].

  (** searchsorted(side='right') is the count of Model/Interp.v *)
  Lemma a_count_ssr n (xpf : nat -> F) x : a_count (fun v => fleb v x) (n, xpf) = ssr n xpf x.
  Proof. unfold a_count; cbn [fst snd]. induction n as [|n IH]; cbn; [reflexivity|]. now rewrite IH. Qed.

  Lemma lin_extrap_matches m (xpf fpf : nat -> F) x :
    linear_interp_with_linear_extrap_src x (S (S m), xpf) (S (S m), fpf) = lin_extrap (S (S m)) xpf fpf x.
  Proof.
    unfold linear_interp_with_linear_extrap_src, lin_extrap, base_weights, bracket, clipn, a_clipn.
    rewrite !a_count_ssr. cbn [fst snd]. cbv zeta.
    generalize (Nat.min (Nat.max (ssr (S (S m)) xpf x) 1) (S (S m) - 1)). intros u.
    dsl2. lens. apply sumn_ext2; [reflexivity|]. intros i Hi.
    unfold w_left, w_right, w_of, indb, ind. destruct i as [|i]; brk; idx_eq xpf; fin2.
  Qed.
End InterpSrcThm.
