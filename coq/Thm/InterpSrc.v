(** The hand-written interpolation model (Model/Interp.v) equals the transcription of
    dinosaur/vertical_interpolation.py regenerated on every run (Gen/InterpSrc.v,
    tools/translate/gen_interp.py) in the array DSL of Model/ArrDSL.v.  Elementwise operations
    of the transcription are length-checked (empty on a mismatch), so a slice / pad width that
    changes a length breaks these proofs as well as a changed formula. *)
From Dino Require Import Base.Ops Base.Sums Base.Ord Model.Sigma Model.Interp Model.ArrDSL Gen.InterpSrc Thm.SigmaSrc.
Local Open Scope F_scope.

Ltac dsl2 := cbv [dot_interp_src linear_interp_with_linear_extrap_src extrapolate_left_src extrapolate_right_src
                  extrapolate_both_src surface_pressure_src hyb_sigma_boundaries_src hyb_sigma_centers_src
                  a_slice a_get norm_bound a_const a_concat a_concatl a_pad a_diff a_map a_map2_chk a_map2b_chk
                  a_ofb a_if_chk a_dot_chk a_sum a_mapn a_arange chk_len fold_right];
            cbn [fst snd].
(** evaluate lengths of the form S (S m) - 1, min (S (S m)) 1, (S m =? S m), ... *)
Ltac lens := repeat (progress (cbn [fst snd Nat.min Nat.max Nat.sub Nat.add Nat.eqb];
                               rewrite ?Nat.add_0_r, ?Nat.add_1_r, ?Nat.min_0_r, ?Nat.sub_0_r, ?Nat.eqb_refl)).
Ltac tests := repeat match goal with |- context [fltb ?a ?b] => destruct (fltb a b) end;
              repeat match goal with |- context [fleb ?a ?b] => destruct (fleb a b) end.

Lemma iter_succ_r {A : Type} n (f : A -> A) x : Nat.iter (S n) f x = Nat.iter n f (f x).
Proof.
  induction n as [|n IH]; [reflexivity|].
  change (f (Nat.iter (S n) f x) = f (Nat.iter n f (f x))). now rewrite IH.
Qed.

Section InterpSrcThm.
  Context {F : Type} {o : Ops F} {Fc : FieldC o}.
  Add Field FFint : (field_c : FieldTh o).
  Local Notation arr := (arr F).

  Ltac fin2 := rewrite ?a_nat_2, ?a_nat_1; unfold two;
               first [reflexivity | ring | solve [timeout 20 (repeat (f_equal; try ring))]].

  (** searchsorted(side='right') is the count of Model/Interp.v *)
  Lemma a_count_ssr n (xpf : nat -> F) x : a_count (fun v => fleb v x) (n, xpf) = ssr n xpf x.
  Proof. unfold a_count; cbn [fst snd]. induction n as [|n IH]; cbn; [reflexivity|]. now rewrite IH. Qed.

  Lemma lin_extrap_matches m (xpf fpf : nat -> F) x :
    linear_interp_with_linear_extrap_src x (S (S m), xpf) (S (S m), fpf) = lin_extrap (S (S m)) xpf fpf x.
  Proof.
    unfold linear_interp_with_linear_extrap_src, lin_extrap, base_weights, bracket, clipn, a_clipn.
    rewrite !a_count_ssr. cbn [fst snd]. cbv zeta.
    generalize (Nat.min (Nat.max (ssr (S (S m)) xpf x) 1) (S (S m) - 1)). intros u.
    dsl2. lens. apply sumn_ext2; [reflexivity|]. intros i Hi.
    unfold w_left, w_right, w_of, indb, ind. destruct i as [|i]; brk; idx_eq xpf; fin2.
  Qed.

  Lemma dot_interp_matches m (xpf fpf : nat -> F) x :
    dot_interp_src x (S (S m), xpf) (S (S m), fpf) = dot_interp (S (S m)) xpf fpf x.
  Proof.
    unfold dot_interp_src, dot_interp, dot_weights, base_weights, bracket, clipn, a_clipn.
    rewrite !a_count_ssr. cbn [fst snd]. cbv zeta.
    generalize (Nat.min (Nat.max (ssr (S (S m)) xpf x) 1) (S (S m) - 1)). intros u.
    dsl2. lens. apply sumn_ext2; [reflexivity|]. intros i Hi.
    unfold w_left, w_right, w_of, indb, ind. destruct i as [|i]; brk; tests; idx_eq xpf; fin2.
  Qed.

  (** _extrapolate_left / _right / _both on data without missing values *)
  Lemma extrapolate_left_matches m (y : nat -> F) :
    fst (extrapolate_left_src (S (S m), y)) = S (S (S m)) /\
    forall i, (i < S (S (S m)))%nat -> snd (extrapolate_left_src (S (S m), y)) i = extr_left eLF y i.
  Proof.
    split; [dsl2; lens; reflexivity|]. intros i Hi. dsl2. lens. unfold extr_left, eLF.
    destruct i as [|i]; brk; idx_eq y; fin2.
  Qed.

  Lemma extrapolate_right_matches m (y : nat -> F) :
    fst (extrapolate_right_src (S (S m), y)) = S (S (S m)) /\
    forall i, (i < S (S (S m)))%nat -> snd (extrapolate_right_src (S (S m), y)) i = extr_right eRF (S (S m)) y i.
  Proof.
    split; [dsl2; lens; reflexivity|]. intros i Hi. dsl2. lens. unfold extr_right, eRF. lens.
    brk; idx_eq y; fin2.
  Qed.

  Lemma extrapolate_both_matches m (y : nat -> F) :
    fst (extrapolate_both_src (S (S m), y)) = S (S (S (S m))) /\
    forall i, (i < S (S (S (S m))))%nat ->
      snd (extrapolate_both_src (S (S m), y)) i = extr_both eLF eRF (S (S m)) y i.
  Proof.
    split; [dsl2; lens; reflexivity|]. intros i Hi. dsl2. lens.
    unfold extr_both, extr_left, extr_right, eLF, eRF. lens.
    destruct i as [|i]; brk; idx_eq y; fin2.
  Qed.

  (** the padding loop only looks at the first n entries *)
  Lemma pad_x_ext k : forall n (y y' : nat -> F), (2 <= n)%nat -> (forall i, (i < n)%nat -> y i = y' i) ->
    forall i, (i < n + 2 * k)%nat -> pad_x k n y i = pad_x k n y' i.
  Proof.
    unfold pad_x. induction k as [|k IH]; intros n y y' Hn H i Hi; cbn [pad]; [apply H; lia|].
    apply IH; [lia| |lia]. intros j Hj. unfold extr_both, extr_left, extr_right.
    destruct j as [|j]; brk; repeat rewrite H by lia; reflexivity.
  Qed.

  (** the loop `for _ in range(k): y = _extrapolate_both(y)` *)
  Lemma safe_extrap_loop_matches k : forall m (y : nat -> F),
    fst (Nat.iter k extrapolate_both_src (S (S m), y)) = (S (S m) + 2 * k)%nat /\
    forall i, (i < S (S m) + 2 * k)%nat ->
      snd (Nat.iter k extrapolate_both_src (S (S m), y)) i = pad_x k (S (S m)) y i.
  Proof.
    induction k as [|k IH]; intros m y.
    - change (Nat.iter 0 extrapolate_both_src (S (S m), y)) with (S (S m), y). cbn [fst snd]. split; [lia|]. intros i Hi. reflexivity.
    - rewrite iter_succ_r. destruct (extrapolate_both_matches m y) as [L P].
      destruct (extrapolate_both_src (S (S m), y)) as [n2 y2]. cbn [fst snd] in L, P. subst n2.
      destruct (IH (S (S m)) y2) as [L2 P2]. split; [rewrite L2; lia|].
      intros i Hi. rewrite P2 by lia. unfold pad_x. cbn [pad]. fold (@pad_x F o).
      replace (S (S m) + 2)%nat with (S (S (S (S m)))) by lia.
      apply pad_x_ext; [lia| |lia]. exact P.
  Qed.

  Lemma safe_extrap_matches k m (y : nat -> F) :
    (fst (safe_extrap_xp_src k (S (S m), y)) = (S (S m) + 2 * k)%nat /\
     forall i, (i < S (S m) + 2 * k)%nat -> snd (safe_extrap_xp_src k (S (S m), y)) i = pad_x k (S (S m)) y i) /\
    (fst (safe_extrap_fp_src k (S (S m), y)) = (S (S m) + 2 * k)%nat /\
     forall i, (i < S (S m) + 2 * k)%nat -> snd (safe_extrap_fp_src k (S (S m), y)) i = pad_x k (S (S m)) y i).
  Proof. split; exact (safe_extrap_loop_matches k m y). Qed.

  (** get_surface_pressure, one column *)
  Lemma surface_pressure_matches m (lev phi : nat -> F) oro g :
    surface_pressure_src (S (S m), lev) (S (S m), phi) oro g = surface_pressure (S (S m)) lev phi oro g.
  Proof.
    unfold surface_pressure_src, a_map. cbn [fst snd]. rewrite lin_extrap_matches.
    unfold surface_pressure, rel_height. reflexivity.
  Qed.

  (** HybridCoordinates.get_sigma_boundaries / get_sigma_centers *)
  Lemma hyb_sigma_boundaries_matches N (a b : nat -> F) sp :
    fst (hyb_sigma_boundaries_src (N, a) (N, b) sp) = N /\
    forall i, snd (hyb_sigma_boundaries_src (N, a) (N, b) sp) i = hyb_sigma_boundaries a b sp i.
  Proof. split; [dsl2; lens; reflexivity|]. intros i. dsl2. unfold hyb_sigma_boundaries. fin2. Qed.

  Lemma hyb_sigma_centers_matches n (a b : nat -> F) sp :
    fst (hyb_sigma_centers_src (S n, a) (S n, b) sp) = n /\
    forall i, (i < n)%nat -> snd (hyb_sigma_centers_src (S n, a) (S n, b) sp) i = hyb_sigma_centers a b sp i.
  Proof.
    split; [dsl2; lens; lia|]. intros i Hi. dsl2. lens. unfold hyb_sigma_centers, hyb_sigma_boundaries.
    idx_eq a; idx_eq b; fin2.
  Qed.
End InterpSrcThm.
