(** Property C05 on the EXECUTED whole-state models.
    (1) Model/PrimEqFull.v (explicit_terms_full + implicit_terms_full, the concrete operators of
        Model/SHT.v / Model/Deriv.v): a resting isothermal atmosphere in hydrostatic balance over any
        orography has zero total tendency of vorticity, temperature and ln ps on every in-range
        coefficient, and the divergence tendency is exactly g (lap orog - clip (lap orog)).
        Linearity of the five operators and lap(constant) = 0 are DISCHARGED (Thm/PrimEqFull.v);
        no exactness hypothesis on the transforms remains.
    (2) Model/ShallowWater.v: see the second half of the file. *)
From Dino Require Import Base.Ops Base.Sums Base.Ord Model.Sigma Model.Implicit Model.PrimEq Model.SHT Model.Deriv
     Model.PrimEqFull Gen.DerivExprs Thm.SHT Thm.Deriv Thm.Implicit Thm.PrimEq Thm.PrimEqFull
     Model.PrimEqSpec Thm.PrimEqSpec.
Local Open Scope F_scope.

(** ** the divergence residual of the abstract rest-state theorem with the reference temperature
    constrained at the level in question only (the code's T_ref is a K-vector) *)
Section RestLevel.
  Context {F : Type} {o : Ops F} {Fc : FieldC o}.
  Add Field FFsl : (field_c : FieldTh o).
  Variables W P : Type.
  Variable toM : (P -> F) -> W -> F.
  Variable divc : (W -> F) -> (W -> F) -> W -> F.
  Variable lap clip : (W -> F) -> W -> F.
  Hypothesis toM_lin : linear toM.
  Hypothesis divc_lin : linear2 divc.
  Hypothesis lap_lin : linear lap.
  Hypothesis clip_lin : linear clip.
  Variable c : @PEcfg F.
  Variables grav T0 cst : F.
  Hypothesis RT0_nz : cR c * T0 <> 0.
  Variable X : P -> @NCol F.
  Hypothesis u0 : forall p k, n_u (X p) k = 0.
  Hypothesis v0 : forall p k, n_v (X p) k = 0.
  Hypothesis d0 : forall p k, n_div (X p) k = 0.
  Hypothesis t0 : forall p k, n_temp (X p) k = 0.
  Variable Tm : nat -> W -> F.
  Variables lnps onem orog : W -> F.
  Hypothesis H_hydrostatic : forall w, lnps w = cst * onem w - grav / (cR c * T0) * orog w.
  Hypothesis lap_const : forall w, lap onem w = 0.

  Theorem rest_divergence_residual_level r w :
    cTref c r = T0 -> (forall k, (k < cK c)%nat -> forall w', Tm k w' = 0) ->
    div_tendency_explicit W P toM divc lap clip c grav X (fun p => rt_dry c (X p)) orog (fun _ => 0) r w
    + div_tendency_implicit W lap c Tm lnps r w
    = grav * (lap orog w - clip (lap orog) w).
  Proof.
    intros Tref_r Tm0.
    unfold div_tendency_explicit, div_tendency_implicit.
    rewrite (lin_scal clip clip_lin _ (lap orog) (- grav)).
    2:{ intros w'. rewrite (divc_zero W divc divc_lin).
        2:{ intros w2; apply (toM_zero W P toM toM_lin); intros p; apply (combined_u0 P c X u0 v0 d0 t0). }
        2:{ intros w2; apply (toM_zero W P toM toM_lin); intros p; apply (combined_v0 P c X u0 v0 d0 t0). }
        rewrite (lin_ext lap lap_lin (toM (fun p => kinetic (X p) r)) (fun _ => 0))
          by (intros w2; apply (toM_zero W P toM toM_lin); intros p; apply (kinetic0 P X u0 v0)).
        rewrite (lin_zero lap lap_lin). ring. }
    rewrite (lin_comb lap lap_lin
               (fun w' => div_implicit_potential c false (fun k => Tm k w') (lnps w') r)
               (fun w' => (cR c * T0 * cst) * onem w') orog (- grav)).
    2:{ intros w'. unfold div_implicit_potential, geo_diff, geo_diff_dense.
        rewrite sumn_zero by (intros k Hk; rewrite (Tm0 k Hk); ring).
        rewrite Tref_r, H_hydrostatic. field.
        split; intro E; apply RT0_nz; rewrite E; ring. }
    rewrite (lin_scal lap lap_lin (fun w' => (cR c * T0 * cst) * onem w') onem (cR c * T0 * cst)) by reflexivity.
    rewrite lap_const. ring.
  Qed.
End RestLevel.

(** ** (1) the executed whole-state primitive-equation model at rest *)
Section RestFull.
  Context {F : Type} {o : Ops F} {Fc : FieldC o}.
  Add Field FFsf : (field_c : FieldTh o).

  Lemma memo3_zero n m q (x : nat -> nat -> nat -> F) :
    (forall k a j, (k < n)%nat -> (a < m)%nat -> (j < q)%nat -> x k a j = 0) ->
    forall k a j, memo3 n m q x k a j = 0.
  Proof.
    intros H k a j.
    destruct (Nat.lt_ge_cases k n) as [Hk|Hk]; [|now apply memo3_out_k].
    destruct (Nat.lt_ge_cases a m) as [Ha|Ha]; [destruct (Nat.lt_ge_cases j q) as [Hj|Hj]|].
    - rewrite memo3_ok by assumption. now apply H.
    - unfold memo3.
      rewrite (nth_map_seq (fun k0 => map (fun a0 => map (x k0 a0) (seq 0 q)) (seq 0 m)) n k []) by assumption.
      rewrite (nth_map_seq (fun a0 => map (x k a0) (seq 0 q)) m a []) by assumption.
      apply nth_overflow. rewrite map_length, seq_length. exact Hj.
    - unfold memo3.
      rewrite (nth_map_seq (fun k0 => map (fun a0 => map (x k0 a0) (seq 0 q)) (seq 0 m)) n k []) by assumption.
      rewrite (nth_overflow (map (fun a0 => map (x k a0) (seq 0 q)) (seq 0 m)) [])
        by (rewrite map_length, seq_length; exact Ha).
      destruct j; reflexivity.
  Qed.

  Lemma D1_ext_range L C (a b x y : nat -> nat -> F) i l :
    (l < C)%nat -> (forall l', (l' < C)%nat -> x i l' = y i l') -> D1 L C a b x i l = D1 L C a b y i l.
  Proof.
    intros Hl H. unfold D1, shift_cols.
    rewrite (shift1_ext C d1_om (fun l0 => d1_wm (lit (laxis L l0)) (a i l0) * x i l0)
               (fun l0 => d1_wm (lit (laxis L l0)) (a i l0) * y i l0)) by (try assumption; intros; now rewrite H).
    rewrite (shift1_ext C d1_op (fun l0 => d1_wp (lit (laxis L l0)) (b i l0) * x i l0)
               (fun l0 => d1_wp (lit (laxis L l0)) (b i l0) * y i l0)) by (try assumption; intros; now rewrite H).
    reflexivity.
  Qed.
  Lemma D1_zero L C (a b : nat -> nat -> F) i l : D1 L C a b (fun _ _ => 0) i l = 0.
  Proof.
    unfold D1, shift_cols.
    rewrite (shift1_ext_all C d1_om (fun l0 => d1_wm (lit (laxis L l0)) (a i l0) * 0) (fun _ => 0)) by (intros; ring).
    rewrite (shift1_ext_all C d1_op (fun l0 => d1_wp (lit (laxis L l0)) (b i l0) * 0) (fun _ => 0)) by (intros; ring).
    rewrite !shift1_zero. ring.
  Qed.
  Lemma dlon_ref_zero R i l : dlon_ref R (fun _ _ => (0 : F)) i l = 0.
  Proof. unfold dlon_ref, shift_rows. rewrite !shift1_zero. unfold dref_sel. destruct (dref_cond i); ring. Qed.
  Lemma dlon_ref_ext_range R (x y : nat -> nat -> F) i l :
    (i < R)%nat -> (forall i', (i' < R)%nat -> x i' l = y i' l) -> dlon_ref R x i l = dlon_ref R y i l.
  Proof. intros Hi H. exact (d_dlon_ext false R x y i l H Hi). Qed.

  Variable g : @HGrid F.

  (** get_cos_lat_vector of a state without vorticity and divergence is the zero vector *)
  Lemma uvm_rest (vo dv : nat -> nat -> F) a l :
    (forall a l, (a < hR g)%nat -> (l < hL g)%nat -> vo a l = 0) ->
    (forall a l, (a < hR g)%nat -> (l < hL g)%nat -> dv a l = 0) ->
    (a < hR g)%nat -> (l < hL g)%nat ->
    fst (uvm g vo dv) a l = 0 /\ snd (uvm g vo dv) a l = 0.
  Proof.
    intros Hvo Hdv Ha Hl.
    assert (E1 : fst (uvm g vo dv) a l
                 = dlon_ref (hR g) (inverse_laplacian (hL g) (hr g) dv) a l / hr g
                   + - (D1 (hL g) (hL g) (ha g) (hb g) (inverse_laplacian (hL g) (hr g) vo) a l / hr g)) by reflexivity.
    assert (E2 : snd (uvm g vo dv) a l
                 = D1 (hL g) (hL g) (ha g) (hb g) (inverse_laplacian (hL g) (hr g) dv) a l / hr g
                   + dlon_ref (hR g) (inverse_laplacian (hL g) (hr g) vo) a l / hr g) by reflexivity.
    rewrite E1, E2.
    rewrite (dlon_ref_ext_range (hR g) (inverse_laplacian (hL g) (hr g) dv) (fun _ _ => 0) a l Ha)
      by (intros a' Ha'; unfold inverse_laplacian; rewrite (Hdv a' l Ha' Hl); ring).
    rewrite (dlon_ref_ext_range (hR g) (inverse_laplacian (hL g) (hr g) vo) (fun _ _ => 0) a l Ha)
      by (intros a' Ha'; unfold inverse_laplacian; rewrite (Hvo a' l Ha' Hl); ring).
    rewrite (D1_ext_range (hL g) (hL g) (ha g) (hb g) (inverse_laplacian (hL g) (hr g) dv) (fun _ _ => 0) a l Hl)
      by (intros l' Hl'; unfold inverse_laplacian; rewrite (Hdv a l' Ha Hl'); ring).
    rewrite (D1_ext_range (hL g) (hL g) (ha g) (hb g) (inverse_laplacian (hL g) (hr g) vo) (fun _ _ => 0) a l Hl)
      by (intros l' Hl'; unfold inverse_laplacian; rewrite (Hvo a l' Ha Hl'); ring).
    rewrite !dlon_ref_zero, !D1_zero, !fdiv_mul. split; ring.
  Qed.

  Lemma to_nodal_zero (x : nat -> nat -> F) i j :
    (j < hJ g)%nat -> (forall a l, (a < hR g)%nat -> (l < hL g)%nat -> x a l = 0) -> to_nodal g x i j = 0.
  Proof.
    intros Hj H. unfold to_nodal.
    rewrite (synth_ext (hR g) (hL g) (hJ g) (hf g) (hp g) x (fun _ _ => 0) i j Hj H). apply synth_zero.
  Qed.

  Variable c : @PEcfg F.
  Variables grav T0 cst v00 : F.
  Variable orog : nat -> nat -> F.
  Variable s : @State F.
  Hypothesis RT0_nz : cR c * T0 <> 0.
  (** isothermal: T_ref = T0 on the K levels, no temperature variation *)
  Hypothesis Tref_iso : forall k, (k < cK c)%nat -> cTref c k = T0.
  Hypothesis vort0 : forall k a l, (k < cK c)%nat -> (a < hR g)%nat -> (l < hL g)%nat -> s_vort s k a l = 0.
  Hypothesis div0 : forall k a l, (k < cK c)%nat -> (a < hR g)%nat -> (l < hL g)%nat -> s_div s k a l = 0.
  Hypothesis temp0 : forall k a l, (k < cK c)%nat -> (a < hR g)%nat -> (l < hL g)%nat -> s_temp s k a l = 0.
  (** hydrostatic balance as a relation between MODAL arrays: constant (only the (0,0) coefficient) minus g orog / (R T0) *)
  Hypothesis H_hydrostatic : forall a l, (a < hR g)%nat -> (l < hL g)%nat ->
      s_lnps s a l = cst * onem00 v00 (a, l) - grav / (cR c * T0) * orog a l.

  Let X := X_of g (diagnostic_state g (cK c) s).

  Lemma rest_u0 p k : n_u (X p) k = 0.
  Proof.
    unfold X, X_of, diagnostic_state. cbv zeta. cbn [n_u d_u]. unfold to_nodal3.
    apply memo3_zero. intros k0 i j Hk0 Hi Hj. apply to_nodal_zero; [assumption|].
    intros a l Ha Hl. apply uvm_rest; try assumption; intros; first [now apply vort0 | now apply div0].
  Qed.
  Lemma rest_v0 p k : n_v (X p) k = 0.
  Proof.
    unfold X, X_of, diagnostic_state. cbv zeta. cbn [n_v d_v]. unfold to_nodal3.
    apply memo3_zero. intros k0 i j Hk0 Hi Hj. apply to_nodal_zero; [assumption|].
    intros a l Ha Hl. apply uvm_rest; try assumption; intros; first [now apply vort0 | now apply div0].
  Qed.
  Lemma rest_d0 p k : n_div (X p) k = 0.
  Proof.
    unfold X, X_of, diagnostic_state. cbv zeta. cbn [n_div d_div]. unfold to_nodal3.
    apply memo3_zero. intros k0 i j Hk0 Hi Hj. apply to_nodal_zero; [assumption|].
    intros a l Ha Hl. now apply div0.
  Qed.
  Lemma rest_t0 p k : n_temp (X p) k = 0.
  Proof.
    unfold X, X_of, diagnostic_state. cbv zeta. cbn [n_temp d_temp]. unfold to_nodal3.
    apply memo3_zero. intros k0 i j Hk0 Hi Hj. apply to_nodal_zero; [assumption|].
    intros a l Ha Hl. now apply temp0.
  Qed.

  Definition lnps_rest (w : Wi) : F := cst * onem00 v00 w - grav / (cR c * T0) * unc orog w.

  Theorem whole_state_rest_isothermal_steady k a l :
    (k < cK c)%nat -> (a < hR g)%nat -> (l < hL g)%nat ->
    let E := explicit_terms_full g c grav orog s in
    let I := implicit_terms_full g c s in
    s_vort E k a l + s_vort I k a l = 0 /\
    s_temp E k a l + s_temp I k a l = 0 /\
    s_lnps E a l + s_lnps I a l = 0 /\
    s_div E k a l + s_div I k a l = grav * (lapm g orog a l - clipm g (lapm g orog) a l) /\
    ((l < hL g - 1)%nat -> s_div E k a l + s_div I k a l = 0).
  Proof.
    intros Hk Ha Hl. cbv zeta.
    destruct (explicit_terms_full_is_assembly g c grav orog s k a l Hk Ha Hl) as (Ev & Ed & Et & El).
    cbv zeta in Ev, Ed, Et, El. fold X in Ev, Ed, Et, El.
    assert (Rd : s_div (explicit_terms_full g c grav orog s) k a l + s_div (implicit_terms_full g c s) k a l
                 = grav * (lapm g orog a l - clipm g (lapm g orog) a l)).
    { rewrite Ed.
      assert (Ei : s_div (implicit_terms_full g c s) k a l
                   = div_tendency_implicit Wi (lap_c g) c (fun _ _ => 0) lnps_rest k (a, l)).
      { cbn [implicit_terms_full s_div].
        unfold div_tendency_implicit, lap_c, unc, cur, lapm, Deriv.laplacian, div_implicit_potential. cbn [fst snd].
        rewrite (H_hydrostatic a l Ha Hl).
        assert (Eg : geo_diff false c (fun k0 => s_temp s k0 a l) k = geo_diff false c (fun _ => 0) k).
        { unfold geo_diff, geo_diff_dense. apply sumn_ext. intros k0 Hk0. now rewrite (temp0 k0 a l Hk0 Ha Hl). }
        rewrite Eg. reflexivity. }
      rewrite Ei.
      rewrite (rest_divergence_residual_level Wi Wi (toM_c g) (divc_c g) (lap_c g) (clip_c g)
                 (toM_c_lin g) (divc_c_lin g) (lap_c_lin g) (clip_c_lin g) c grav T0 cst RT0_nz X
                 rest_u0 rest_v0 rest_d0 rest_t0 (fun _ _ => 0) lnps_rest (onem00 v00) (unc orog)
                 (fun w => eq_refl) (lap_c_const g v00) k (a, l) (Tref_iso k Hk) (fun _ _ _ => eq_refl)).
      reflexivity. }
    split; [|split; [|split; [|split]]].
    - rewrite Ev. cbn [implicit_terms_full s_vort]. unfold zero3.
      rewrite (rest_vorticity_steady Wi Wi (toM_c g) (curlc_c g) (clip_c g) (toM_c_lin g) (curlc_c_lin g) (clip_c_lin g)
                 c X rest_u0 rest_v0 rest_d0 rest_t0 k (a, l)). ring.
    - rewrite Et.
      assert (Ei : s_temp (implicit_terms_full g c s) k a l = temp_tendency_implicit Wi c (fun _ _ => 0) k (a, l)).
      { cbn [implicit_terms_full s_temp]. unfold temp_tendency_implicit, temp_implicit_col, temp_implicit_dense.
        apply matvec_ext. intros h Hh. unfold unc. cbn [fst snd]. now apply div0. }
      rewrite Ei.
      exact (rest_temperature_steady Wi Wi (toM_c g) (divc_c g) (clip_c g) (toM_c_lin g) (divc_c_lin g) (clip_c_lin g)
               c X rest_u0 rest_v0 rest_d0 rest_t0 (fun _ _ => 0) (fun _ _ => eq_refl) k (a, l)).
    - rewrite El.
      assert (Ei : s_lnps (implicit_terms_full g c s) a l = lnps_implicit_col c (fun s0 => (fun _ _ => 0) s0 (a, l))).
      { cbn [implicit_terms_full s_lnps]. unfold lnps_implicit_col. f_equal.
        apply matvec_ext. intros h Hh. now apply div0. }
      rewrite Ei. unfold lnps_tendency_explicit_c.
      exact (rest_lnps_steady Wi Wi (toM_c g) (clip_c g) (toM_c_lin g) (clip_c_lin g)
               c X rest_u0 rest_v0 (fun _ _ => 0) (fun _ _ => eq_refl) (a, l)).
    - exact Rd.
    - intros Hl1. rewrite Rd. unfold clipm, Deriv.clip.
      destruct (Nat.ltb_spec l (hL g - (1 + (hL g - hL g)))); [ring|lia].
  Qed.
End RestFull.

(** ** (1') the executed MOIST whole-state model (MoistPrimitiveEquations: explicit_terms_full_moist with cloud = false) at rest:
    isothermal, uniform specific humidity q0 (tracer 0), lnps = cst * (0,0)-spectrum - g orog / (R T0 (1 + eps q0)).
    Remaining named table hypotheses (in-range only): H_q_uniform, H_gradq_zero (the nodal humidity is q0 and its nodal
    gradient 0 on the node range), H_lap_one (the analysed constant has no laplacian), H_lapn (laplacian(lnps) survives
    to_nodal -> to_modal under the clip). *)
Section RestFullMoist.
  Context {F : Type} {o : Ops F} {Fc : FieldC o}.
  Add Field FFsm : (field_c : FieldTh o).
  Ltac fsc := repeat split; first [assumption | (let Z := fresh in intro Z; match goal with H : _ * _ <> 0 |- _ => apply H; rewrite Z; ring end)].
  Variable g : @HGrid F.
  Variable c : @PEcfg F.
  Variable m : @Moist F.
  Variables grav T0 cst v00 q0 : F.
  Variable orog : nat -> nat -> F.
  Variable s : @State F.
  Hypothesis RT0_nz : cR c * T0 <> 0.
  Hypothesis R_nz : cR c <> 0.
  Let eps := mRv m / cR c - 1.
  Hypothesis mf_nz : 1 + eps * q0 <> 0.
  Hypothesis Tref_iso : forall k, (k < cK c)%nat -> cTref c k = T0.
  Hypothesis vort0 : forall k a l, (k < cK c)%nat -> (a < hR g)%nat -> (l < hL g)%nat -> s_vort s k a l = 0.
  Hypothesis div0 : forall k a l, (k < cK c)%nat -> (a < hR g)%nat -> (l < hL g)%nat -> s_div s k a l = 0.
  Hypothesis temp0 : forall k a l, (k < cK c)%nat -> (a < hR g)%nat -> (l < hL g)%nat -> s_temp s k a l = 0.
  Hypothesis H_hydrostatic : forall a l, (a < hR g)%nat -> (l < hL g)%nat ->
      s_lnps s a l = cst * onem00 v00 (a, l) - grav / (cR c * T0 * (1 + eps * q0)) * orog a l.
  Hypothesis has_humidity : s_tr s <> [].
  Hypothesis H_q_uniform : forall k i j, (k < cK c)%nat -> (i < hI g)%nat -> (j < hJ g)%nat ->
      to_nodal g (q_modal s k) i j = q0.
  Hypothesis H_gradq_zero : forall k i j, (k < cK c)%nat -> (i < hI g)%nat -> (j < hJ g)%nat ->
      to_nodal g (fst (gradm g (q_modal s k))) i j = 0 /\ to_nodal g (snd (gradm g (q_modal s k))) i j = 0.
  Definition lapn0 (p : Wi) : F := to_nodal g (lapm g (s_lnps s)) (fst p) (snd p).
  Hypothesis H_lap_one : forall a l, (a < hR g)%nat -> (l < hL g)%nat -> lap_c g (toM_c g (fun _ => 1)) (a, l) = 0.
  Hypothesis H_lapn : forall a l, (a < hR g)%nat -> (l < hL g)%nat ->
      clip_c g (toM_c g lapn0) (a, l) = clip_c g (lap_c g (unc (s_lnps s))) (a, l).

  Let d := diagnostic_state g (cK c) s.
  Let md := moist_diag g (cK c) s.
  Let X := X_of g d.
  Let q := trn d 0.
  Let gqx := gq_of (m_gqx md).
  Let gqy := gq_of (m_gqy md).

  Let u0 : forall p k, n_u (X p) k = 0 := rest_u0 g c s vort0 div0.
  Let v0 : forall p k, n_v (X p) k = 0 := rest_v0 g c s vort0 div0.
  Let d0 : forall p k, n_div (X p) k = 0 := rest_d0 g c s div0.
  Let t0 : forall p k, n_temp (X p) k = 0 := rest_t0 g c s temp0.

  Lemma moist_gqx0 p k : gqx p k = 0.
  Proof.
    unfold gqx, gq_of, md, moist_diag. cbn [m_gqx]. unfold to_nodal3. apply memo3_zero.
    intros k0 i j Hk Hi Hj. exact (proj1 (H_gradq_zero k0 i j Hk Hi Hj)).
  Qed.
  Lemma moist_gqy0 p k : gqy p k = 0.
  Proof.
    unfold gqy, gq_of, md, moist_diag. cbn [m_gqy]. unfold to_nodal3. apply memo3_zero.
    intros k0 i j Hk Hi Hj. exact (proj2 (H_gradq_zero k0 i j Hk Hi Hj)).
  Qed.
  Lemma moist_q_nodes i j k : (k < cK c)%nat -> (i < hI g)%nat -> (j < hJ g)%nat -> q (i, j) k = q0.
  Proof.
    intros Hk Hi Hj. unfold q, trn, tr_of, d, diagnostic_state. cbn [d_tr fst snd].
    pose proof (H_q_uniform k i j Hk Hi Hj) as E. unfold q_modal in E.
    destruct (s_tr s) as [|qm rest]; [contradiction has_humidity; reflexivity|].
    cbn [map nth] in *. unfold to_nodal3. rewrite memo3_ok by assumption. exact E.
  Qed.

  Lemma lap_c_ext_pt (x y : Wi -> F) w : x w = y w -> lap_c g x w = lap_c g y w.
  Proof. destruct w. intros H. unfold lap_c, unc, lapm, Deriv.laplacian, cur. cbn [fst snd]. now rewrite H. Qed.

  Theorem whole_state_rest_isothermal_steady_moist k a l :
    (k < cK c)%nat -> (a < hR g)%nat -> (l < hL g)%nat ->
    let E := explicit_terms_full_moist g false c m grav orog s in
    let I := implicit_terms_full g c s in
    s_vort E k a l + s_vort I k a l = 0 /\
    s_temp E k a l + s_temp I k a l = 0 /\
    s_lnps E a l + s_lnps I a l = 0 /\
    s_div E k a l + s_div I k a l = grav / (1 + eps * q0) * (lapm g orog a l - clipm g (lapm g orog) a l) /\
    ((l < hL g - 1)%nat -> s_div E k a l + s_div I k a l = 0).
  Proof.
    intros Hk Ha Hl. cbv zeta.
    destruct (explicit_terms_full_moist_is_assembly g c m grav orog false s k a l Hk Ha Hl) as (Ev & Ed & Et & El).
    cbv zeta in Ev, Ed, Et, El.
    fold d in Ev, Ed, Et, El. fold md in Ev, Ed. fold X in Ev, Ed, Et, El. fold q in Ed, Et. fold gqx in Ev, Ed. fold gqy in Ev, Ed.
    change (rt_full g false c m d) with (fun p => rt_moist c m (X p) (q p)) in Ev, Ed.
    assert (Rd : s_div (explicit_terms_full_moist g false c m grav orog s) k a l + s_div (implicit_terms_full g c s) k a l
                 = grav / (1 + eps * q0) * (lapm g orog a l - clipm g (lapm g orog) a l)).
    { rewrite Ed. unfold div_tendency_explicit, humidity_div_modal.
      set (k0 := q0 * T0 * (mRv m - cR c)).
      set (Gc := geo_diff false c (fun k1 => q0 * (0 + T0) * (mRv m / cR c - 1)) k).
      assert (A1 : toM_c g (fun p => humidity_geo_nodal c false m (X p) (q p) k) (a, l) = Gc * toM_c g (fun _ => 1) (a, l)).
      { rewrite <- (lin_scal (toM_c g) (toM_c_lin g) (fun _ => Gc * 1) (fun _ => 1) Gc (fun _ => eq_refl) (a, l)).
        apply toM_c_ext_range; [assumption|]. intros i j Hi Hj.
        unfold humidity_geo_nodal, humidity_temperature_diff, Gc, geo_diff, geo_diff_dense.
        rewrite <- sumn_scal_r. apply sumn_ext. intros k1 Hk1.
        rewrite (moist_q_nodes i j k1 Hk1 Hi Hj), t0, (Tref_iso k1 Hk1). ring. }
      assert (A2 : toM_c g (fun p => humidity_div_nodal c m (X p) (q p) (gqx p) (gqy p) (m_lap md (fst p) (snd p)) k) (a, l)
                   = k0 * toM_c g lapn0 (a, l)).
      { rewrite <- (lin_scal (toM_c g) (toM_c_lin g) (fun p => k0 * lapn0 p) lapn0 k0 (fun _ => eq_refl) (a, l)).
        apply toM_c_ext_range; [assumption|]. intros i j Hi Hj.
        unfold humidity_div_nodal, k0, lapn0, md, moist_diag. cbv zeta. cbn [m_lap fst snd].
        rewrite sh_memo2_ok by assumption.
        rewrite moist_gqx0, moist_gqy0, (moist_q_nodes i j k Hk Hi Hj), (Tref_iso k Hk). ring. }
      assert (A3 : divc_c g (toM_c g (fun p => combined_u c true (X p) (rt_moist c m (X p) (q p)) k))
                          (toM_c g (fun p => combined_v c true (X p) (rt_moist c m (X p) (q p)) k)) (a, l) = 0).
      { apply (divc_zero Wi (divc_c g) (divc_c_lin g)); intros w2; apply (toM_zero Wi Wi (toM_c g) (toM_c_lin g)); intros p.
        - apply (combined_um0 Wi c X u0 v0 d0 t0).
        - apply (combined_vm0 Wi c X u0 v0 d0 t0). }
      assert (A4 : toM_c g (fun p => kinetic (X p) k) (a, l) = 0).
      { apply (toM_zero Wi Wi (toM_c g) (toM_c_lin g)). intros p. apply (kinetic0 Wi X u0 v0). }
      pose proof (H_lap_one a l Ha Hl) as E1. pose proof (H_lapn a l Ha Hl) as E2.
      pose proof (lap_c_const g v00 (a, l)) as E3. pose proof (lap_c_const g 1 (a, l)) as E4.
      cbn [implicit_terms_full s_div].
      unfold div_tendency_implicit, div_implicit_potential.
      assert (Eg : geo_diff false c (fun k1 => unc (s_temp s k1) (a, l)) k = 0).
      { unfold geo_diff, geo_diff_dense. apply sumn_zero. intros k1 Hk1. unfold unc. cbn [fst snd].
        rewrite (temp0 k1 a l Hk1 Ha Hl). ring. }
      unfold clip_c, lap_c, unc, cur, clipm, lapm, Deriv.clip, Deriv.laplacian in *. cbn [fst snd] in *.
      rewrite Eg, A1, A2, A3, A4, (H_hydrostatic a l Ha Hl), (Tref_iso k Hk).
      rewrite (H_hydrostatic a l Ha Hl) in E2.
      set (eig := Deriv.lap_eig (hL g) (hr g) l) in *.
      set (TL := toM_c g lapn0 (a, l)) in *. set (T1 := toM_c g (fun _ => 1) (a, l)) in *.
      set (O := orog a l) in *.
      assert (Hmf : mRv m - cR c = eps * cR c) by (unfold eps; field; exact R_nz).
      unfold k0. rewrite Hmf.
      unfold onem00 in *. cbn [fst snd] in *.
      destruct (Nat.ltb l (hL g - (1 + (hL g - hL g)))).
      - assert (E2' : TL = (cst * (if (Nat.eqb a 0 && Nat.eqb l 0)%bool then v00 else 0)
                            - grav / (cR c * T0 * (1 + eps * q0)) * O) * eig)
          by (transitivity (TL * 1); [ring|rewrite E2; ring]).
        rewrite E2'.
        destruct (Nat.eqb a 0 && Nat.eqb l 0)%bool.
        + assert (Ez : eig = 0) by (transitivity (1 * eig); [ring|exact E4]). rewrite Ez. field. fsc.
        + transitivity ((- (Gc * (T1 * eig))) + grav / (1 + eps * q0) * (O * eig - O * eig * 1)); [field; fsc|].
          rewrite E1. ring.
      - destruct (Nat.eqb a 0 && Nat.eqb l 0)%bool.
        + assert (Ez : eig = 0) by (transitivity (1 * eig); [ring|exact E4]). rewrite Ez. field. fsc.
        + field. fsc. }
    split; [|split; [|split; [|split]]].
    - rewrite Ev. cbn [implicit_terms_full s_vort]. unfold zero3.
      rewrite (rest_vorticity_steady_moist Wi Wi (toM_c g) (curlc_c g) (clip_c g) (toM_c_lin g) (curlc_c_lin g) (clip_c_lin g)
                 c X u0 v0 d0 t0 m q gqx gqy moist_gqx0 moist_gqy0 k (a, l)). ring.
    - rewrite Et.
      assert (Ei : s_temp (implicit_terms_full g c s) k a l = temp_tendency_implicit Wi c (fun _ _ => 0) k (a, l)).
      { cbn [implicit_terms_full s_temp]. unfold temp_tendency_implicit, temp_implicit_col, temp_implicit_dense.
        apply matvec_ext. intros h Hh. unfold unc. cbn [fst snd]. now apply div0. }
      rewrite Ei.
      exact (rest_temperature_steady_moist Wi Wi (toM_c g) (divc_c g) (clip_c g) (toM_c_lin g) (divc_c_lin g) (clip_c_lin g)
               c X u0 v0 d0 t0 (fun _ _ => 0) (fun _ _ => eq_refl) m q k (a, l)).
    - rewrite El.
      assert (Ei : s_lnps (implicit_terms_full g c s) a l = lnps_implicit_col c (fun s0 => (fun _ _ => 0) s0 (a, l))).
      { cbn [implicit_terms_full s_lnps]. unfold lnps_implicit_col. f_equal.
        apply matvec_ext. intros h Hh. now apply div0. }
      rewrite Ei. unfold lnps_tendency_explicit_c.
      exact (rest_lnps_steady Wi Wi (toM_c g) (clip_c g) (toM_c_lin g) (clip_c_lin g)
               c X u0 v0 (fun _ _ => 0) (fun _ _ => eq_refl) (a, l)).
    - exact Rd.
    - intros Hl1. rewrite Rd. unfold clipm, Deriv.clip.
      destruct (Nat.ltb_spec l (hL g - (1 + (hL g - hL g)))); [ring|lia].
  Qed.
End RestFullMoist.

(** ** (1'') uniform humidity as a MODAL hypothesis: if tracer 0 is q0 times the (0,0)-only spectrum v00 on the coefficient
    range and that spectrum synthesises to the constant one (H_one, the table hypothesis of C04), then the nodal humidity is q0
    and its nodal cos-lat gradient vanishes: H_q_uniform and H_gradq_zero are DERIVED. *)
Section UniformHumidity.
  Context {F : Type} {o : Ops F} {Fc : FieldC o}.
  Add Field FFuh : (field_c : FieldTh o).
  Variable g : @HGrid F.
  Variables v00 q0 : F.
  Hypothesis H_one : forall i j, (i < hI g)%nat -> (j < hJ g)%nat -> to_nodal g (cur (onem00 v00)) i j = 1.
  Variable x : nat -> nat -> F.
  Hypothesis Hx : forall a l, (a < hR g)%nat -> (l < hL g)%nat -> x a l = q0 * onem00 v00 (a, l).
  Let xo : nat -> nat -> F := fun a l => q0 * onem00 v00 (a, l).

  Lemma xo_row a l : xo (S a) l = 0.
  Proof. unfold xo, onem00. cbn [fst snd Nat.eqb andb]. ring. Qed.
  Lemma xo_col a l : xo a (S l) = 0.
  Proof. unfold xo, onem00. cbn [fst snd Nat.eqb]. rewrite Bool.andb_false_r. ring. Qed.

  Lemma uniform_nodal i j : (i < hI g)%nat -> (j < hJ g)%nat -> to_nodal g x i j = q0.
  Proof.
    intros Hi Hj. unfold to_nodal.
    rewrite (synth_ext (hR g) (hL g) (hJ g) (hf g) (hp g) x (fun a l => q0 * cur (onem00 v00) a l + (fun _ _ => 0) a l) i j Hj)
      by (intros a l Ha Hl; rewrite (Hx a l Ha Hl); unfold cur; ring).
    rewrite (synth_linear (hR g) (hL g) (hJ g) (hf g) (hp g) q0 (cur (onem00 v00)) (fun _ _ => 0) i j Hj).
    rewrite synth_zero. pose proof (H_one i j Hi Hj) as E. unfold to_nodal in E. rewrite E. ring.
  Qed.

  Lemma dlon_uniform a l : (a < hR g)%nat -> dlon_ref (hR g) xo a l = 0.
  Proof.
    intros Ha. unfold dlon_ref, shift_rows. unfold dref_down_off, dref_up_off.
    rewrite shift1_m1, (shift1_p1 (hR g) (fun i' => xo i' l) a Ha). unfold dref_sel.
    rewrite xo_row.
    destruct a as [|[|a]].
    - cbn [Nat.eqb]. destruct (dref_cond 0); destruct (Nat.ltb 1 (hR g)); ring.
    - change (dref_cond 1) with true. cbv iota. destruct (Nat.ltb 2 (hR g)); ring.
    - cbn [Nat.eqb]. replace (S (S a) - 1)%nat with (S a) by lia. rewrite xo_row.
      destruct (dref_cond (S (S a))); destruct (Nat.ltb (S (S (S a))) (hR g)); ring.
  Qed.

  Lemma D1_uniform a l : (l < hL g)%nat -> D1 (hL g) (hL g) (ha g) (hb g) xo a l = 0.
  Proof.
    intros Hl. unfold D1, shift_cols. unfold d1_om, d1_op.
    rewrite shift1_m1, (shift1_p1 (hL g) _ l Hl). rewrite xo_col.
    destruct l as [|[|l]].
    - cbn [Nat.eqb]. destruct (Nat.ltb 1 (hL g)); ring.
    - cbn [Nat.eqb]. change (1 - 1)%nat with 0%nat. unfold d1_wp, laxis.
      destruct (Nat.ltb 0 (hL g)); cbn [lit]; destruct (Nat.ltb 2 (hL g)); ring.
    - cbn [Nat.eqb]. replace (S (S l) - 1)%nat with (S l) by lia. rewrite xo_col.
      destruct (Nat.ltb (S (S (S l))) (hL g)); ring.
  Qed.

  Lemma uniform_grad_nodal i j : (j < hJ g)%nat ->
    to_nodal g (fst (gradm g x)) i j = 0 /\ to_nodal g (snd (gradm g x)) i j = 0.
  Proof.
    intros Hj. split; apply to_nodal_zero; try assumption; intros a l Ha Hl;
      unfold gradm, cos_lat_grad, clip_if; cbn [fst snd].
    - change (d_dlon false (hR g) x a l) with (dlon_ref (hR g) x a l).
      rewrite (dlon_ref_ext_range (hR g) x xo a l Ha) by (intros a' Ha'; now apply Hx).
      rewrite (dlon_uniform a l Ha), fdiv_mul. ring.
    - rewrite (D1_ext_range (hL g) (hL g) (ha g) (hb g) x xo a l Hl) by (intros l' Hl'; now apply Hx).
      rewrite (D1_uniform a l Hl), fdiv_mul. ring.
  Qed.
End UniformHumidity.

(** the moist rest-state theorem with the uniform humidity given as a MODAL array: H_q_uniform, H_gradq_zero replaced by H_one *)
Section RestFullMoistModal.
  Context {F : Type} {o : Ops F} {Fc : FieldC o}.
  Variable g : @HGrid F.
  Variable c : @PEcfg F.
  Variable m : @Moist F.
  Variables grav T0 cst v00 q0 : F.
  Variable orog : nat -> nat -> F.
  Variable s : @State F.
  Hypothesis RT0_nz : cR c * T0 <> 0.
  Hypothesis R_nz : cR c <> 0.
  Hypothesis mf_nz : 1 + (mRv m / cR c - 1) * q0 <> 0.
  Hypothesis Tref_iso : forall k, (k < cK c)%nat -> cTref c k = T0.
  Hypothesis vort0 : forall k a l, (k < cK c)%nat -> (a < hR g)%nat -> (l < hL g)%nat -> s_vort s k a l = 0.
  Hypothesis div0 : forall k a l, (k < cK c)%nat -> (a < hR g)%nat -> (l < hL g)%nat -> s_div s k a l = 0.
  Hypothesis temp0 : forall k a l, (k < cK c)%nat -> (a < hR g)%nat -> (l < hL g)%nat -> s_temp s k a l = 0.
  Hypothesis H_hydrostatic : forall a l, (a < hR g)%nat -> (l < hL g)%nat ->
      s_lnps s a l = cst * onem00 v00 (a, l) - grav / (cR c * T0 * (1 + (mRv m / cR c - 1) * q0)) * orog a l.
  Hypothesis has_humidity : s_tr s <> [].
  Hypothesis Hq_modal : forall k a l, (k < cK c)%nat -> (a < hR g)%nat -> (l < hL g)%nat ->
      q_modal s k a l = q0 * onem00 v00 (a, l).
  Hypothesis H_one : forall i j, (i < hI g)%nat -> (j < hJ g)%nat -> to_nodal g (cur (onem00 v00)) i j = 1.
  Hypothesis H_lap_one : forall a l, (a < hR g)%nat -> (l < hL g)%nat -> lap_c g (toM_c g (fun _ => 1)) (a, l) = 0.
  Hypothesis H_lapn : forall a l, (a < hR g)%nat -> (l < hL g)%nat ->
      clip_c g (toM_c g (lapn0 g s)) (a, l) = clip_c g (lap_c g (unc (s_lnps s))) (a, l).

  Theorem whole_state_rest_isothermal_steady_moist_modal k a l :
    (k < cK c)%nat -> (a < hR g)%nat -> (l < hL g)%nat ->
    let E := explicit_terms_full_moist g false c m grav orog s in
    let I := implicit_terms_full g c s in
    s_vort E k a l + s_vort I k a l = 0 /\
    s_temp E k a l + s_temp I k a l = 0 /\
    s_lnps E a l + s_lnps I a l = 0 /\
    s_div E k a l + s_div I k a l = grav / (1 + (mRv m / cR c - 1) * q0) * (lapm g orog a l - clipm g (lapm g orog) a l) /\
    ((l < hL g - 1)%nat -> s_div E k a l + s_div I k a l = 0).
  Proof.
    intros Hk Ha Hl.
    exact (whole_state_rest_isothermal_steady_moist g c m grav T0 cst v00 q0 orog s RT0_nz R_nz mf_nz Tref_iso vort0 div0 temp0
             H_hydrostatic has_humidity
             (fun k0 i j Hk0 Hi Hj => uniform_nodal g v00 q0 H_one (q_modal s k0) (fun a0 l0 => Hq_modal k0 a0 l0 Hk0) i j Hi Hj)
             (fun k0 i j Hk0 Hi Hj => uniform_grad_nodal g v00 q0 H_one (q_modal s k0) (fun a0 l0 => Hq_modal k0 a0 l0 Hk0) i j Hj)
             H_lap_one H_lapn k a l Hk Ha Hl).
  Qed.
End RestFullMoistModal.

(** ** (3) the executed dry whole-state model refines the specification at the modal layer ([primeq_refines_spec] of
    Thm/PrimEqSpec.v instantiated at the concrete operators, for the EXECUTED explicit_terms_full + implicit_terms_full):
    the total vorticity / divergence tendency of every in-range coefficient is the clipped modal curl / div / laplacian of the
    analysed specification momentum vector (zeta+f) k x v + sigma_dot dv/dsigma + R T grad lnps and of KE + g orog (+ G.T).
    Remaining named exactness hypotheses (those of C04_whole_state_split_invariance): H_one, H_div_grad, H_curl_grad; b_0 = 0. *)
Section WholeRefine.
  Context {F : Type} {o : Ops F} {Fc : FieldC o}.
  Add Field FFwr : (field_c : FieldTh o).
  Variable g : @HGrid F.
  Variable c : @PEcfg F.
  Hypothesis b_top : cb c 0%nat = 0.
  Variable grav : F.
  Variable orog : nat -> nat -> F.
  Variable s0 : @State F.                       (* vorticity, divergence, lnps, tracers *)
  Variable temp1 : nat -> nat -> nat -> F.      (* temperature variation of the executed state *)
  Variable T1 : nat -> F.                       (* its reference profile *)
  Variable v00 : F.
  Hypothesis H_one : forall i j, (i < hI g)%nat -> (j < hJ g)%nat -> to_nodal g (cur (onem00 v00)) i j = 1.
  Let X := X_ideal g (cK c) s0.
  Let lnps := unc (s_lnps s0).
  Let T := T_abs g c temp1 T1 v00.              (* absolute nodal temperature *)
  Let Tm := Tm_abs temp1 T1 v00.                (* its modal coefficients *)
  Hypothesis H_div_grad : forall w,
      clip_c g (divc_c g (toM_c g (fun p => n_gx (X p) * n_sec2 (X p))) (toM_c g (fun p => n_gy (X p) * n_sec2 (X p)))) w
      = lap_c g lnps w.
  Hypothesis H_curl_grad : forall w,
      clip_c g (curlc_c g (toM_c g (fun p => n_gx (X p) * n_sec2 (X p))) (toM_c g (fun p => n_gy (X p) * n_sec2 (X p)))) w = 0.

  Let s1 := with_stemp s0 temp1.
  Let c1 := with_tref c T1.

  Lemma wr_rel k a l : (k < cK c)%nat -> (a < hR g)%nat -> (l < hL g)%nat ->
    temp1 k a l = Tm_abs temp1 T1 v00 k (a, l) - T1 k * onem00 v00 (a, l).
  Proof. intros. unfold Tm_abs. cbn [fst snd]. ring. Qed.

  Lemma wr_add0 (x y : F) : x = y -> x + 0 = y.
  Proof. intros ->. ring. Qed.

  Theorem whole_state_refines_spec k a l :
    (k < cK c)%nat -> (a < hR g)%nat -> (l < hL g)%nat ->
    let E := explicit_terms_full g c1 grav orog s1 in
    let I := implicit_terms_full g c1 s1 in
    s_vort E k a l + s_vort I k a l
    = clip_c g (fun w' => - curlc_c g (toM_c g (fun p => spec_P Wi c X (rt_abs Wi c T) p k))
                                      (toM_c g (fun p => spec_Q Wi c X (rt_abs Wi c T) p k)) w') (a, l) /\
    s_div E k a l + s_div I k a l
    = clip_c g (fun w' => - divc_c g (toM_c g (fun p => spec_P Wi c X (rt_abs Wi c T) p k))
                                     (toM_c g (fun p => spec_Q Wi c X (rt_abs Wi c T) p k)) w'
                          - lap_c g (fun w2 => toM_c g (fun p => kinetic (X p) k) w2 + grav * unc orog w2) w') (a, l)
      - lap_c g (fun w' => geo_diff false c (fun k' => Tm k' w') k) (a, l).
  Proof.
    intros Hk Ha Hl. cbv zeta.
    destruct (explicit_terms_full_is_assembly g (with_tref c T1) grav orog s1 k a l Hk Ha Hl) as (Ev & Ed & _ & _).
    cbv zeta in Ev, Ed. change (cK (with_tref c T1)) with (cK c) in *.
    pose proof (node_eq g c s0 temp1 T1 v00 H_one temp1 T1 wr_rel (fun k0 _ => eq_refl)) as N1. fold s1 in N1.
    unfold c1. split.
    - rewrite Ev, (vort_assembly_ext g (with_tref c T1) _ _ N1 k a l Ha Hl).
      cbn [implicit_terms_full s_vort]. unfold zero3.
      apply wr_add0.
      exact (refines_vorticity_modal Wi Wi (toM_c g) (curlc_c g) (clip_c g) (toM_c_lin g) (curlc_c_lin g) (clip_c_lin g)
               c b_top X T H_curl_grad T1 k (a, l) Hk).
    - rewrite Ed, (div_assembly_ext g (with_tref c T1) grav _ _ N1 (unc orog) k a l Ha Hl).
      unfold s1. rewrite (div_implicit_shape g c s0 temp1 T1 v00 (with_tref c T1) temp1 T1 k a l eq_refl Ha Hl wr_rel).
      exact (refines_divergence_modal Wi Wi (toM_c g) (divc_c g) (lap_c g) (clip_c g) (toM_c_lin g) (divc_c_lin g) (lap_c_lin g)
               (clip_c_lin g) c b_top grav X T Tm lnps (onem00 v00) (unc orog) H_div_grad (lap_c_const g v00) T1 k (a, l) Hk).
  Qed.

  (** PARTIAL (solid-body rotation / any state in gradient-wind balance): if the clipped modal operators on the analysed
      specification quantities vanish at the coefficient - which [solid_body_steady] says of the continuous operators on the
      continuous fields - the executed model's total vorticity and divergence tendencies vanish there.  Missing for the full
      statement: alias-freeness of the transforms on the products of the balanced state and the evaluation homomorphism from
      the differential ring to nodal values (H_sb_vort, H_sb_div are checked by the plugin's solid-body oracle); temperature and
      surface-pressure tendencies of the balanced state are not covered by a whole-state theorem (column refinement + oracle). *)
  Theorem whole_state_solid_body_steady_partial k a l :
    (k < cK c)%nat -> (a < hR g)%nat -> (l < hL g)%nat ->
    clip_c g (fun w' => - curlc_c g (toM_c g (fun p => spec_P Wi c X (rt_abs Wi c T) p k))
                                    (toM_c g (fun p => spec_Q Wi c X (rt_abs Wi c T) p k)) w') (a, l) = 0 ->
    clip_c g (fun w' => - divc_c g (toM_c g (fun p => spec_P Wi c X (rt_abs Wi c T) p k))
                                   (toM_c g (fun p => spec_Q Wi c X (rt_abs Wi c T) p k)) w'
                        - lap_c g (fun w2 => toM_c g (fun p => kinetic (X p) k) w2 + grav * unc orog w2) w') (a, l)
    - lap_c g (fun w' => geo_diff false c (fun k' => Tm k' w') k) (a, l) = 0 ->
    let E := explicit_terms_full g c1 grav orog s1 in
    let I := implicit_terms_full g c1 s1 in
    s_vort E k a l + s_vort I k a l = 0 /\ s_div E k a l + s_div I k a l = 0.
  Proof.
    intros Hk Ha Hl Hv Hd. cbv zeta.
    destruct (whole_state_refines_spec k a l Hk Ha Hl) as (E1 & E2). cbv zeta in E1, E2.
    rewrite E1, E2. split; assumption.
  Qed.
End WholeRefine.

From Dino Require Import Model.ShallowWater.

(** ** (2) shallow water: explicit_terms of Model/ShallowWater.v ([Section SWAssembly], the assembly that
    [sw_explicit_terms] instantiates at the concrete operators) + implicit_terms of Model/Implicit.v ([sw_implicit_terms])
    refine the layered shallow-water specification of Model/PrimEqSpec.v in the sense of [primeq_refines_spec]:
    the modal tendencies are the clipped modal div / curl / laplacian of the analysed specification quantities
      flux = (zeta + f) (u, v),   pressure_i = sum_j Rm i j pot_j + orography  (Rm i i = 1: the diagonal comes from the
      implicit term),   kinetic energy,   (u, v) (ref_i + pot_i)  (the ref_i part comes from the implicit term). *)
Section SWRefine.
  Context {F : Type} {o : Ops F} {Fc : FieldC o}.
  Add Field FFsw : (field_c : FieldTh o).
  Variables W P : Type.
  Variable toM : (P -> F) -> W -> F.
  Variable divc curlc : (W -> F) -> (W -> F) -> W -> F.
  Variable lap clip : (W -> F) -> W -> F.
  Hypothesis toM_lin : linear toM.
  Hypothesis divc_lin : linear2 divc.
  Hypothesis lap_lin : linear lap.
  Hypothesis clip_lin : linear clip.
  Variable N : nat.
  Variable dens : nat -> F.
  Variable X : P -> @SWCol F.
  Variable pot dive : nat -> W -> F.            (* modal potential and divergence of the state *)
  Variable orog : option (W -> F).
  Variable ref : nat -> F.                      (* ref_potential *)
  Variable lam : W -> F.                        (* laplacian eigenvalue of the coefficient *)
  Hypothesis lap_diag : forall x w, lap x w = x w * lam w.

  (** the specification's pressure weights: the code's density ratios (zero diagonal) plus the identity *)
  Definition sw_Rm (i j : nat) : F := density_ratio dens i j + Sums.delta i j.
  Definition sw_orog0 (w : W) : F := match orog with Some h => h w | None => 0 end.
  (** nodal specification quantities at layer r: absolute-vorticity flux, mass flux of the FULL thickness, kinetic energy
      (all times sec^2: the operators as coded are div / curl of sec^2-scaled components, C05_operators) *)
  Definition sw_flux_u r (p : P) : F := s_u (X p) r * (s_vort (X p) r + s_f (X p)) * s_sec2 (X p).
  Definition sw_flux_v r (p : P) : F := s_v (X p) r * (s_vort (X p) r + s_f (X p)) * s_sec2 (X p).
  Definition sw_mass_u r (p : P) : F := s_u (X p) r * (ref r + s_pot (X p) r) * s_sec2 (X p).
  Definition sw_mass_v r (p : P) : F := s_v (X p) r * (ref r + s_pot (X p) r) * s_sec2 (X p).
  Definition sw_kin r (p : P) : F := (s_u (X p) r * s_u (X p) r + s_v (X p) r * s_v (X p) r) * s_sec2 (X p) / (1 + 1).

  Lemma sw_pressure_full r w : (r < N)%nat ->
    sumn N (fun j => sw_Rm r j * pot j w) + sw_orog0 w
    = sw_pressure W N dens pot orog r w + 1 * pot r w.
  Proof.
    intros Hr. unfold sw_pressure, sw_orog0, sw_Rm. cbv zeta.
    rewrite (sumn_ext N (fun j => (density_ratio dens r j + Sums.delta r j) * pot j w)
               (fun j => density_ratio dens r j * pot j w + Sums.delta r j * pot j w)) by (intros; ring).
    rewrite sumn_add, (sumn_delta_l N r (fun j => pot j w) Hr). destruct orog; ring.
  Qed.

  Theorem sw_model_refines_spec r w :
    (r < N)%nat ->
    (* H_sw_pot_clip: the potential has no content in the clipped total wavenumber *)
    clip (lap (pot r)) w = lap (pot r) w ->
    (* H_sw_div_vel: the divergence of the velocity obtained from (vorticity, divergence) is the divergence *)
    clip (divc (toM (fun p => s_u (X p) r * s_sec2 (X p))) (toM (fun p => s_v (X p) r * s_sec2 (X p)))) w = dive r w ->
    let imp := sw_implicit_terms (ref r) (lam w) (dive r w, pot r w) in
    sw_vort_explicit W P toM divc clip X r w + 0
    = clip (fun w' => - divc (toM (sw_flux_u r)) (toM (sw_flux_v r)) w') w /\
    sw_div_explicit W P toM curlc lap clip N dens X pot orog r w + fst imp
    = clip (fun w' => curlc (toM (sw_flux_u r)) (toM (sw_flux_v r)) w'
                      - lap (fun w2 => sumn N (fun j => sw_Rm r j * pot j w2) + sw_orog0 w2 + toM (sw_kin r) w2) w') w /\
    sw_pot_explicit W P toM divc clip X r w + snd imp
    = clip (fun w' => - divc (toM (sw_mass_u r)) (toM (sw_mass_v r)) w') w.
  Proof.
    intros Hr Hpc Hdv. cbv zeta. split; [|split].
    - unfold sw_vort_explicit, sw_flux_u, sw_flux_v, sw_b_u, sw_b_v, sw_total_vorticity. cbv zeta. ring.
    - unfold sw_div_explicit, sw_implicit_terms. cbv zeta. cbn [fst snd].
      change (fun p => sw_b_u (X p) r) with (sw_flux_u r). change (fun p => sw_b_v (X p) r) with (sw_flux_v r).
      change (fun p => sw_e (X p) r) with (sw_kin r).
      rewrite (lin_comb clip clip_lin
                 (fun w' => curlc (toM (sw_flux_u r)) (toM (sw_flux_v r)) w'
                            - lap (fun w2 => sumn N (fun j => sw_Rm r j * pot j w2) + sw_orog0 w2 + toM (sw_kin r) w2) w')
                 (fun w' => - lap (fun w2 => sw_pressure W N dens pot orog r w2 + toM (sw_kin r) w2) w'
                            + curlc (toM (sw_flux_u r)) (toM (sw_flux_v r)) w')
                 (lap (pot r)) (- (1))).
      2:{ intros w'.
          rewrite (lin_comb lap lap_lin
                     (fun w2 => sumn N (fun j => sw_Rm r j * pot j w2) + sw_orog0 w2 + toM (sw_kin r) w2)
                     (fun w2 => sw_pressure W N dens pot orog r w2 + toM (sw_kin r) w2) (pot r) 1)
            by (intros w2; rewrite (sw_pressure_full r w2 Hr); ring).
          ring. }
      rewrite Hpc, (lap_diag (pot r) w). ring.
    - unfold sw_pot_explicit, sw_implicit_terms. cbv zeta. cbn [fst snd].
      change (fun p => sw_g_u (X p) r) with (fun p => s_u (X p) r * s_pot (X p) r * s_sec2 (X p)).
      change (fun p => sw_g_v (X p) r) with (fun p => s_v (X p) r * s_pot (X p) r * s_sec2 (X p)).
      rewrite (lin_comb clip clip_lin
                 (fun w' => - divc (toM (sw_mass_u r)) (toM (sw_mass_v r)) w')
                 (fun w' => - divc (toM (fun p => s_u (X p) r * s_pot (X p) r * s_sec2 (X p)))
                                   (toM (fun p => s_v (X p) r * s_pot (X p) r * s_sec2 (X p))) w')
                 (divc (toM (fun p => s_u (X p) r * s_sec2 (X p))) (toM (fun p => s_v (X p) r * s_sec2 (X p))))
                 (- ref r)).
      2:{ intros w'.
          rewrite (lin2_comb divc divc_lin (toM (sw_mass_u r)) (toM (fun p => s_u (X p) r * s_pot (X p) r * s_sec2 (X p)))
                     (toM (fun p => s_u (X p) r * s_sec2 (X p)))
                     (toM (sw_mass_v r)) (toM (fun p => s_v (X p) r * s_pot (X p) r * s_sec2 (X p)))
                     (toM (fun p => s_v (X p) r * s_sec2 (X p))) (ref r)).
          - ring.
          - intros a. apply (lin_comb toM toM_lin). intros p. unfold sw_mass_u. ring.
          - intros a. apply (lin_comb toM toM_lin). intros p. unfold sw_mass_v. ring. }
      rewrite Hdv. ring.
  Qed.

  (** PARTIAL (the balanced jet): if, in addition, the clipped modal operators applied to the ANALYSED nodal specification
      quantities of the state vanish - which is what the zonal-jet balance theorem [sw_polynomial_jet_steady] says of the
      CONTINUOUS operators on the continuous fields - then the model's total tendency vanishes on that coefficient.
      Missing for the full statement: the evaluation homomorphism from the differential ring of the specification to nodal
      values, and alias-freeness of the transforms on the jet's products (table obligations H_sw_jet_* of the plugin). *)
  Theorem sw_model_jet_steady_partial r w :
    (r < N)%nat ->
    clip (lap (pot r)) w = lap (pot r) w ->
    clip (divc (toM (fun p => s_u (X p) r * s_sec2 (X p))) (toM (fun p => s_v (X p) r * s_sec2 (X p)))) w = dive r w ->
    (* H_sw_jet_vort, H_sw_jet_div, H_sw_jet_pot: exactness of the modal operators on the balanced jet *)
    clip (fun w' => - divc (toM (sw_flux_u r)) (toM (sw_flux_v r)) w') w = 0 ->
    clip (fun w' => curlc (toM (sw_flux_u r)) (toM (sw_flux_v r)) w'
                    - lap (fun w2 => sumn N (fun j => sw_Rm r j * pot j w2) + sw_orog0 w2 + toM (sw_kin r) w2) w') w = 0 ->
    clip (fun w' => - divc (toM (sw_mass_u r)) (toM (sw_mass_v r)) w') w = 0 ->
    let imp := sw_implicit_terms (ref r) (lam w) (dive r w, pot r w) in
    sw_vort_explicit W P toM divc clip X r w + 0 = 0 /\
    sw_div_explicit W P toM curlc lap clip N dens X pot orog r w + fst imp = 0 /\
    sw_pot_explicit W P toM divc clip X r w + snd imp = 0.
  Proof.
    intros Hr Hpc Hdv Hv Hd Hp. cbv zeta.
    destruct (sw_model_refines_spec r w Hr Hpc Hdv) as (E1 & E2 & E3). cbv zeta in E1, E2, E3.
    rewrite E1, E2, E3. auto.
  Qed.
End SWRefine.

(** ** (2') the concrete shallow-water operators of Model/ShallowWater.v are linear in the all-index sense of
    Thm/PrimEq.v ([linear], [linear2]): staged arrays read 0 outside the index range, inside they are the
    SHT / Deriv operators.  Both layouts ([fast] arbitrary).  Hence [sw_model_refines_spec] holds for the
    EXECUTED [sw_explicit_terms]. *)
Section SWConcreteLinear.
  Context {F : Type} {o : Ops F} {Fc : FieldC o}.
  Add Field FFswl : (field_c : FieldTh o).

  Lemma sh_memo2_out_col n m (x : nat -> nat -> F) a j : (m <= j)%nat -> sh_memo2 n m x a j = 0.
  Proof.
    intros Hj. destruct (Nat.lt_ge_cases a n) as [Ha|Ha]; [|now apply sh_memo2_out_row].
    unfold sh_memo2. rewrite (nth_map_seq (fun a0 => map (x a0) (seq 0 m)) n a []) by assumption.
    apply nth_overflow. rewrite map_length, seq_length. exact Hj.
  Qed.
  Lemma sw_stage_cases n m (g : @arr2 F) (w : Wn) :
    sw_stage n m g w = if (Nat.ltb (fst w) n && Nat.ltb (snd w) m)%bool then g (fst w) (snd w) else 0.
  Proof.
    unfold sw_stage.
    destruct (Nat.ltb_spec (fst w) n) as [H1|H1]; cbn [andb]; [|now apply sh_memo2_out_row].
    destruct (Nat.ltb_spec (snd w) m) as [H2|H2]; [now apply sh_memo2_ok|now apply sh_memo2_out_col].
  Qed.

  Lemma dlon_fast_lin R off (x y : nat -> nat -> F) (t : F) i l :
    dlon_fast R off (fun i l => x i l + t * y i l) i l = dlon_fast R off x i l + t * dlon_fast R off y i l.
  Proof.
    unfold dlon_fast, shift_rows. rewrite !shift1_lin. unfold dfast_sel. destruct (dfast_cond i); ring.
  Qed.
  Lemma dlon_fast_ext_all R off (x y : nat -> nat -> F) i l :
    (forall i l, x i l = y i l) -> dlon_fast R off x i l = dlon_fast R off y i l.
  Proof.
    intros H. unfold dlon_fast, shift_rows.
    rewrite (shift1_ext_all R dfast_down_off (fun i' => x i' l) (fun i' => y i' l)) by (intros; apply H).
    rewrite (shift1_ext_all R dfast_up_off (fun i' => x i' l) (fun i' => y i' l)) by (intros; apply H).
    reflexivity.
  Qed.
  Lemma d_dlon_lin fast R (x y : nat -> nat -> F) (t : F) i l :
    d_dlon fast R (fun i l => x i l + t * y i l) i l = d_dlon fast R x i l + t * d_dlon fast R y i l.
  Proof. unfold d_dlon. destruct fast; [apply dlon_fast_lin|apply dlon_ref_lin]. Qed.
  Lemma d_dlon_ext_all fast R (x y : nat -> nat -> F) i l :
    (forall i l, x i l = y i l) -> d_dlon fast R x i l = d_dlon fast R y i l.
  Proof. intros H. unfold d_dlon. destruct fast; [now apply dlon_fast_ext_all|now apply dlon_ref_ext_all]. Qed.

  Variables (fast : bool) (R L I J : nat).
  Variable f : nat -> nat -> F.
  Variable p : nat -> nat -> nat -> F.
  Variable wq : nat -> F.
  Variables (rad : F) (wa wb : @arr2 F).

  Theorem sw_toM_lin : linear (sw_toM R L I J f p wq).
  Proof.
    split.
    - intros x y H w. unfold sw_toM. rewrite !sw_stage_cases.
      destruct (Nat.ltb_spec (fst w) R) as [H1|H1]; cbn [andb]; [|reflexivity].
      destruct (Nat.ltb (snd w) L); [|reflexivity].
      apply analysis_ext; [assumption|]. intros i j _ _. unfold sw_un. apply H.
    - intros t x y w. unfold sw_toM. rewrite !sw_stage_cases.
      destruct (Nat.ltb_spec (fst w) R) as [H1|H1]; cbn [andb]; [|ring].
      destruct (Nat.ltb (snd w) L); [|ring].
      rewrite (analysis_ext R I J f p wq (sw_un (fun a => x a + t * y a))
                 (fun i j => t * sw_un y i j + sw_un x i j) (fst w) (snd w) H1) by (intros; unfold sw_un; ring).
      rewrite analysis_linear by assumption. ring.
  Qed.

  Theorem sw_divc_lin : linear2 (sw_divc fast R L rad wa wb).
  Proof.
    split.
    - intros x1 y1 x2 y2 E1 E2 w. unfold sw_divc. rewrite !sw_stage_cases.
      destruct (Nat.ltb (fst w) R && Nat.ltb (snd w) L)%bool; [|reflexivity].
      unfold div_cos_lat, clip_if, clip. cbn [fst snd].
      rewrite (d_dlon_ext_all fast R (sw_un x1) (sw_un y1)) by (intros; apply E1).
      rewrite (D2_ext_all L L wa wb (sw_un x2) (sw_un y2)) by (intros; apply E2).
      reflexivity.
    - intros t x1 y1 x2 y2 w. unfold sw_divc. rewrite !sw_stage_cases.
      destruct (Nat.ltb (fst w) R && Nat.ltb (snd w) L)%bool; [|ring].
      unfold div_cos_lat, clip_if, clip. cbn [fst snd].
      change (sw_un (fun a => x1 a + t * y1 a)) with (fun i l => sw_un x1 i l + t * sw_un y1 i l).
      change (sw_un (fun a => x2 a + t * y2 a)) with (fun i l => sw_un x2 i l + t * sw_un y2 i l).
      rewrite d_dlon_lin, D2_lin, !fdiv_mul. ring.
  Qed.

  Theorem sw_curlc_lin : linear2 (sw_curlc fast R L rad wa wb).
  Proof.
    split.
    - intros x1 y1 x2 y2 E1 E2 w. unfold sw_curlc. rewrite !sw_stage_cases.
      destruct (Nat.ltb (fst w) R && Nat.ltb (snd w) L)%bool; [|reflexivity].
      unfold curl_cos_lat, clip_if, clip. cbn [fst snd].
      rewrite (d_dlon_ext_all fast R (sw_un x2) (sw_un y2)) by (intros; apply E2).
      rewrite (D2_ext_all L L wa wb (sw_un x1) (sw_un y1)) by (intros; apply E1).
      reflexivity.
    - intros t x1 y1 x2 y2 w. unfold sw_curlc. rewrite !sw_stage_cases.
      destruct (Nat.ltb (fst w) R && Nat.ltb (snd w) L)%bool; [|ring].
      unfold curl_cos_lat, clip_if, clip. cbn [fst snd].
      change (sw_un (fun a => x1 a + t * y1 a)) with (fun i l => sw_un x1 i l + t * sw_un y1 i l).
      change (sw_un (fun a => x2 a + t * y2 a)) with (fun i l => sw_un x2 i l + t * sw_un y2 i l).
      rewrite d_dlon_lin, D2_lin, !fdiv_mul. ring.
  Qed.

  Theorem sw_lap_lin : linear (sw_lap L rad).
  Proof.
    split.
    - intros x y H w. unfold sw_lap, laplacian, sw_un. now rewrite H.
    - intros t x y w. unfold sw_lap, laplacian, sw_un. ring.
  Qed.
  Theorem sw_clip_lin : linear (sw_clip L).
  Proof.
    split.
    - intros x y H w. unfold sw_clip, clip, sw_un. now rewrite H.
    - intros t x y w. unfold sw_clip, clip, sw_un. ring.
  Qed.
  Lemma sw_lap_diag (x : Wn -> F) (w : Wn) : sw_lap L rad x w = x w * lap_eig L rad (snd w).
  Proof. destruct w as [a l]. reflexivity. Qed.

  (** *** the refinement for the EXECUTED shallow-water model: (V, D, Pt) = sw_explicit_terms ... state, implicit part per
      coefficient = Model/Implicit.v sw_implicit_terms with the coefficient's laplacian eigenvalue *)
  Variable N : nat.
  Variable dens : nat -> F.
  Variable omega : F.
  Variable sinlat : nat -> F.
  Variable orog : option (@arr2 F).
  Variables vort dive pot : nat -> @arr2 F.
  Variable ref : nat -> F.

  Let X := sw_cols_of_state fast R L I J N f p rad wa wb vort dive pot (sw_sec2 sinlat) (sw_coriolis omega sinlat).
  Let potw := fun k => sw_pk (pot k).
  Let divw := fun k => sw_pk (dive k).
  Let orogw := option_map sw_pk orog.
  Let toMs := sw_toM R L I J f p wq.
  Let divs := sw_divc fast R L rad wa wb.
  Let curls := sw_curlc fast R L rad wa wb.
  Let laps := sw_lap L rad.
  Let clips := sw_clip L.

  Theorem sw_concrete_refines_spec r (w : Wn) :
    (r < N)%nat ->
    (* H_sw_pot_clip *)
    clips (laps (potw r)) w = laps (potw r) w ->
    (* H_sw_div_vel *)
    clips (divs (toMs (fun q => s_u (X q) r * s_sec2 (X q))) (toMs (fun q => s_v (X q) r * s_sec2 (X q)))) w = divw r w ->
    let E := sw_explicit_terms fast R L I J N f p wq rad wa wb dens omega sinlat orog vort dive pot in
    let imp := sw_implicit_terms (ref r) (lap_eig L rad (snd w)) (dive r (fst w) (snd w), pot r (fst w) (snd w)) in
    fst (fst E) r w + 0
    = clips (fun w' => - divs (toMs (sw_flux_u Wn X r)) (toMs (sw_flux_v Wn X r)) w') w /\
    snd (fst E) r w + fst imp
    = clips (fun w' => curls (toMs (sw_flux_u Wn X r)) (toMs (sw_flux_v Wn X r)) w'
                       - laps (fun w2 => sumn N (fun j => sw_Rm dens r j * potw j w2) + sw_orog0 Wn orogw w2
                                         + toMs (sw_kin Wn X r) w2) w') w /\
    snd E r w + snd imp
    = clips (fun w' => - divs (toMs (sw_mass_u Wn X ref r)) (toMs (sw_mass_v Wn X ref r)) w') w.
  Proof.
    intros Hr Hpc Hdv.
    exact (sw_model_refines_spec Wn Wn toMs divs curls laps clips sw_toM_lin sw_divc_lin sw_lap_lin sw_clip_lin
             N dens X potw divw orogw ref (fun w0 => lap_eig L rad (snd w0)) sw_lap_diag r w Hr Hpc Hdv).
  Qed.
End SWConcreteLinear.
