(** Property C11 on the CONCRETE whole-state primitive-equation model (Model/PrimEqFull.v):
    the structural invariants of explicit_terms_full / implicit_terms_full / implicit_inverse_full
    (dry class, reference layout), for every state and all tables, lifted to trajectories of every
    step term (every integrator) by the abstract theorems of Thm/Invariants.v.

    (a) [pe_explicit_top_zero] (no hypothesis), [pe_explicit_into_Supp] (named hypotheses
        [pe_H_p_support], [pe_H_deriv_mask], orography in the mask);
    (b) [pe_explicit_means_vanish], [pe_implicit_means_vanish] (no table hypothesis);
    (c) [pe_implicit_preserves_Supp], [pe_inverse_preserves_Supp] (per-coefficient columns);
    (d) [primeq_trajectory_in_subspace], [primeq_means_conserved].
    Does not depend on Thm/PrimEqFull.v. *)
From Dino Require Import Base.Ops Base.Sums Base.Ord Gen.DerivExprs Model.Sigma Model.Implicit Model.PrimEq Model.SHT Model.Deriv
     Model.Invariants Model.PrimEqFull Thm.SHT Thm.Deriv Thm.Implicit Thm.Invariants.
Local Open Scope F_scope.

Section PEInvBasics.
  Context {F : Type} {o : Ops F} {Fc : FieldC o}.
  Add Field FFif0 : (field_c : FieldTh o).

  Lemma pe_memo2_cases n m (x : nat -> nat -> F) a j :
    sh_memo2 n m x a j = x a j \/ sh_memo2 n m x a j = 0.
  Proof.
    destruct (Nat.ltb_spec a n) as [Ha|Ha].
    - destruct (Nat.ltb_spec j m) as [Hj|Hj].
      + left. now apply sh_memo2_ok.
      + right. unfold sh_memo2. cbv zeta.
        rewrite (nth_map_seq (fun a0 => map (x a0) (seq 0 m)) n a []) by assumption.
        apply nth_overflow. rewrite map_length, seq_length. exact Hj.
    - right. unfold sh_memo2. cbv zeta.
      rewrite (nth_overflow (map (fun a0 => map (x a0) (seq 0 m)) (seq 0 n)) []) by (rewrite map_length, seq_length; exact Ha).
      destruct j; reflexivity.
  Qed.

  Lemma pe_memo2_zero n m (x : nat -> nat -> F) a j : x a j = 0 -> sh_memo2 n m x a j = 0.
  Proof. intros H. destruct (pe_memo2_cases n m x a j) as [E|E]; rewrite E; [exact H|reflexivity]. Qed.

  Lemma pe_nth_map_prop {A B} (P : B -> Prop) (f : A -> B) (l : list A) (d : B) n :
    P d -> (forall t, P (f t)) -> P (nth n (map f l) d).
  Proof.
    intros Hd Hf. destruct (nth_in_or_default n (map f l) d) as [Hin|E].
    - apply in_map_iff in Hin. destruct Hin as (t & <- & _). apply Hf.
    - rewrite E. exact Hd.
  Qed.

  (** padded addition of tracer lists: a missing tracer is a zero tracer (tree_math's scalar 0) *)
  Fixpoint ladd (x y : list (nat -> nat -> nat -> F)) : list (nat -> nat -> nat -> F) :=
    match x, y with
    | [], _ => y
    | _, [] => x
    | a :: x', b :: y' => (fun k i l => a k i l + b k i l) :: ladd x' y'
    end.

  Lemma ladd_Forall (P : (nat -> nat -> nat -> F) -> Prop) x y :
    (forall a b, P a -> P b -> P (fun k i l => a k i l + b k i l)) ->
    Forall P x -> Forall P y -> Forall P (ladd x y).
  Proof.
    intros Hadd Hx. revert y. induction Hx as [|a x' Ha Hx' IH]; intros y Hy; [exact Hy|].
    destruct Hy as [|b y' Hb Hy']; cbn [ladd]; [now constructor|].
    constructor; [now apply Hadd|now apply IH].
  Qed.
End PEInvBasics.

Section PEInvariants.
  Context {F : Type} {o : Ops F} {Fc : FieldC o}.
  Add Field FFif : (field_c : FieldTh o).
  Variable g : @HGrid F.
  Local Notation M := (hM g).
  Local Notation R := (hR g).
  Local Notation L := (hL g).
  Local Notation I := (hI g).
  Local Notation J := (hJ g).

  (** ** the named hypotheses *)
  (** a modal array vanishes outside the triangular mask (index range of the layout) *)
  Definition pe_masked (x : nat -> nat -> F) : Prop :=
    forall a l, (a < R)%nat -> (l < L)%nat -> Deriv.mask false M L a l = false -> x a l = 0.
  (** the basis functions f[i,a] * p[a,j,l] vanish outside the mask (exact zeros of the Legendre table) *)
  Definition pe_H_p_support : Prop :=
    forall i a j l, (i < I)%nat -> (a < R)%nat -> (j < J)%nat -> (l < L)%nat ->
                    Deriv.mask false M L a l = false -> hf g i a * hp g a j l = 0.
  (** div_cos_lat / curl_cos_lat (clip=False) keep arrays in the mask pattern (rows of a cos/sin pair share |m|; the
      recurrence weight a vanishes at l = |m|) *)
  Definition pe_H_deriv_mask : Prop :=
    forall x y, pe_masked x -> pe_masked y -> pe_masked (divm g x y) /\ pe_masked (curlm g x y).

  (** the pattern on a state: every leaf of every level is in Supp (Thm/Invariants.v) *)
  Definition pe_Supp3 (x : nat -> nat -> nat -> F) : Prop := Supp false M L R L x.
  Definition StSupp (s : @State F) : Prop :=
    pe_Supp3 (s_vort s) /\ pe_Supp3 (s_div s) /\ pe_Supp3 (s_temp s) /\ pe_Supp3 (fun _ => s_lnps s) /\
    Forall pe_Supp3 (s_tr s).

  Lemma pe_tm_masked (z : nat -> nat -> F) : pe_H_p_support -> pe_masked (tm g z).
  Proof.
    intros Hp a l Ha Hl Hm. unfold tm. rewrite sh_memo2_ok by assumption. unfold to_modal.
    rewrite analysis_eq by assumption. unfold sum2, ylm. apply sumn_zero; intros i Hi. apply sumn_zero; intros j Hj.
    rewrite (Hp i a j l Hi Ha Hj Hl Hm). ring.
  Qed.

  Lemma pe_clipm_top (x : nat -> nat -> F) a l : (L - 1 <= l)%nat -> clipm g x a l = 0.
  Proof. intros Hl. unfold clipm. now apply (clip_top L L (le_n L)). Qed.

  Lemma pe_clipm_mv (x : nat -> nat -> F) a l :
    must_vanish false M L a l = true -> (Deriv.mask false M L a l = false -> x a l = 0) -> clipm g x a l = 0.
  Proof.
    intros Hmv Hx. unfold must_vanish in Hmv. apply Bool.orb_true_iff in Hmv. destruct Hmv as [Hm|Hm].
    - apply Bool.negb_true_iff in Hm. unfold clipm. apply clip_zero. now apply Hx.
    - apply Nat.leb_le in Hm. now apply pe_clipm_top.
  Qed.

  Variable c : @PEcfg F.
  Variable grav : F.
  Variable orog : nat -> nat -> F.

  Local Notation E := (explicit_terms_full g c grav orog).

  (** the levels of explicit_terms_of_diag *)
  Lemma pe_level_cases (d : @Diag F) k :
    nth k (map (explicit_level g c grav orog d) (seq 0 (cK c))) (lev0 (F := F)) = explicit_level g c grav orog d k \/
    nth k (map (explicit_level g c grav orog d) (seq 0 (cK c))) (lev0 (F := F)) = lev0.
  Proof.
    destruct (Nat.ltb_spec k (cK c)) as [Hk|Hk].
    - left. now apply nth_map_seq.
    - right. apply nth_overflow. rewrite map_length, seq_length. exact Hk.
  Qed.

  (** a property of single coefficients that holds for 0 and for every clipped+materialised array lifts to every
      field of explicit_terms_full *)
  Section Lift.
    Variables (a l : nat).
    Variable Q : (nat -> nat -> F) -> Prop.   (* a class of pre-clip arrays *)
    Hypothesis HQ : forall x, Q x -> sh_memo2 R L (clipm g x) a l = 0.

    Hypothesis Qvort : forall cu cv, Q (fun a l => - curlm g (tm g cu) (tm g cv) a l + 0).
    Hypothesis Qdiv : forall cu cv ke,
        Q (fun a l => - divm g (tm g cu) (tm g cv) a l + - lapm g (tm g ke) a l + - grav * lapm g orog a l + 0).
    Hypothesis Qscal : forall tot mu mv, Q (fun a l => tm g tot a l + - divm g (tm g mu) (tm g mv) a l).
    Hypothesis Qlnps : forall z, Q (tm g z).

    Lemma pe_lift (s : @State F) :
      (forall k, s_vort (E s) k a l = 0) /\ (forall k, s_div (E s) k a l = 0) /\ (forall k, s_temp (E s) k a l = 0) /\
      s_lnps (E s) a l = 0 /\ Forall (fun t => forall k, t k a l = 0) (s_tr (E s)).
    Proof.
      unfold explicit_terms_full, explicit_terms_of_diag. cbv zeta. cbn [s_vort s_div s_temp s_lnps s_tr].
      set (d := diagnostic_state g (cK c) s).
      split; [|split; [|split; [|split]]].
      - intros k. destruct (pe_level_cases d k) as [Ek|Ek]; rewrite Ek; [|reflexivity].
        unfold explicit_level. cbv zeta. cbn [l_vort]. unfold vort_of. apply HQ. apply Qvort.
      - intros k. destruct (pe_level_cases d k) as [Ek|Ek]; rewrite Ek; [|reflexivity].
        unfold explicit_level. cbv zeta. cbn [l_div]. unfold div_of. apply HQ. apply Qdiv.
      - intros k. destruct (pe_level_cases d k) as [Ek|Ek]; rewrite Ek; [|reflexivity].
        unfold explicit_level. cbv zeta. cbn [l_temp]. unfold scalar_of. apply HQ. apply Qscal.
      - unfold lnps_explicit. apply HQ. apply Qlnps.
      - apply Forall_forall. intros t Ht. apply in_map_iff in Ht. destruct Ht as (n & <- & _). intros k.
        destruct (pe_level_cases d k) as [Ek|Ek]; rewrite Ek.
        + unfold explicit_level. cbv zeta. cbn [l_tr].
          apply (pe_nth_map_prop (fun y : nat -> nat -> F => y a l = 0)); [reflexivity|].
          intros t. unfold scalar_of. apply HQ. apply Qscal.
        + cbn [lev0 l_tr]. destruct n; reflexivity.
    Qed.
  End Lift.

  (** ** (a) the clipped top total wavenumber: for EVERY state and ALL tables, every index (a, l >= L-1) *)
  Theorem pe_explicit_top_zero (s : @State F) a l :
    (L - 1 <= l)%nat ->
    (forall k, s_vort (E s) k a l = 0) /\ (forall k, s_div (E s) k a l = 0) /\ (forall k, s_temp (E s) k a l = 0) /\
    s_lnps (E s) a l = 0 /\ Forall (fun t => forall k, t k a l = 0) (s_tr (E s)).
  Proof.
    intros Hl. apply (pe_lift a l (fun _ => True)); try (intros; exact Logic.I).
    intros x _. apply pe_memo2_zero. now apply pe_clipm_top.
  Qed.

  (** ** (a) the whole pattern: triangular mask and top wavenumber *)
  Theorem pe_explicit_into_Supp (s : @State F) :
    pe_H_p_support -> pe_H_deriv_mask -> pe_masked orog -> StSupp (E s).
  Proof.
    intros Hp Hd Ho.
    assert (TM := fun z => pe_tm_masked z Hp).
    assert (Hall : forall a l, (a < R)%nat -> (l < L)%nat -> must_vanish false M L a l = true ->
              (forall k, s_vort (E s) k a l = 0) /\ (forall k, s_div (E s) k a l = 0) /\ (forall k, s_temp (E s) k a l = 0) /\
              s_lnps (E s) a l = 0 /\ Forall (fun t => forall k, t k a l = 0) (s_tr (E s))).
    { intros a l Ha Hl Hmv.
      apply (pe_lift a l (fun x => Deriv.mask false M L a l = false -> x a l = 0)).
      - intros x Hx. apply pe_memo2_zero. now apply pe_clipm_mv.
      - intros cu cv Hm. rewrite (proj2 (Hd _ _ (TM cu) (TM cv)) a l Ha Hl Hm). ring.
      - intros cu cv ke Hm. rewrite (proj1 (Hd _ _ (TM cu) (TM cv)) a l Ha Hl Hm).
        unfold lapm, Deriv.laplacian. rewrite (TM ke a l Ha Hl Hm), (Ho a l Ha Hl Hm). ring.
      - intros tot mu mv Hm. rewrite (proj1 (Hd _ _ (TM mu) (TM mv)) a l Ha Hl Hm), (TM tot a l Ha Hl Hm). ring.
      - intros z Hm. exact (TM z a l Ha Hl Hm). }
    unfold StSupp, pe_Supp3, Supp. split; [|split; [|split; [|split]]].
    - intros k a l Ha Hl Hmv. exact (proj1 (Hall a l Ha Hl Hmv) k).
    - intros k a l Ha Hl Hmv. exact (proj1 (proj2 (Hall a l Ha Hl Hmv)) k).
    - intros k a l Ha Hl Hmv. exact (proj1 (proj2 (proj2 (Hall a l Ha Hl Hmv))) k).
    - intros _ a l Ha Hl Hmv. exact (proj1 (proj2 (proj2 (proj2 (Hall a l Ha Hl Hmv))))).
    - apply Forall_forall. intros t Ht k a l Ha Hl Hmv.
      pose proof (proj2 (proj2 (proj2 (proj2 (Hall a l Ha Hl Hmv))))) as Hf.
      rewrite Forall_forall in Hf. exact (Hf t Ht k).
  Qed.

  (** ** (b) Stokes / Gauss: the (0,0) coefficients of the explicit vorticity and divergence tendencies vanish
      for EVERY state, orography, level and ALL tables *)
  Theorem pe_explicit_means_vanish (s : @State F) k :
    hr g <> 0 -> (2 <= L)%nat -> (0 < R)%nat ->
    s_vort (E s) k 0%nat 0%nat = 0 /\ s_div (E s) k 0%nat 0%nat = 0.
  Proof.
    intros Hr HL HR0.
    unfold explicit_terms_full, explicit_terms_of_diag. cbv zeta. cbn [s_vort s_div].
    set (d := diagnostic_state g (cK c) s).
    destruct (pe_level_cases d k) as [Ek|Ek]; rewrite Ek; [|split; reflexivity].
    unfold explicit_level. cbv zeta. cbn [l_vort l_div]. split; apply pe_memo2_zero.
    - unfold vort_of, clipm. apply clip_zero. unfold curlm.
      rewrite (curl_cos_lat_00 false L R L (hr g) (ha g) (hb g) Hr HL (le_n L) HR0). ring.
    - unfold div_of, clipm. apply clip_zero. unfold divm, lapm.
      rewrite (div_cos_lat_00 false L R L (hr g) (ha g) (hb g) Hr HL (le_n L) HR0), !(laplacian_00 L (hr g) Hr). ring.
  Qed.

  (** ... and of the implicit ones: vorticity has no implicit tendency, the divergence one is a laplacian *)
  Theorem pe_implicit_means_vanish (s : @State F) k :
    hr g <> 0 ->
    s_vort (implicit_terms_full g c s) k 0%nat 0%nat = 0 /\ s_div (implicit_terms_full g c s) k 0%nat 0%nat = 0.
  Proof.
    intros Hr. cbn [implicit_terms_full s_vort s_div]. split; [reflexivity|].
    unfold div_tendency_implicit, lap_c, unc, cur, lapm. cbn [fst snd].
    rewrite (laplacian_00 L (hr g) Hr). ring.
  Qed.

  (** ** (c) implicit_terms_full and implicit_inverse_full act per coefficient column: zero columns stay zero *)
  Theorem pe_implicit_preserves_Supp (s : @State F) : StSupp s -> StSupp (implicit_terms_full g c s).
  Proof.
    intros (Hv & Hd & Ht & Hp & Htr). unfold StSupp, pe_Supp3, Supp in *. cbn [implicit_terms_full s_vort s_div s_temp s_lnps s_tr].
    split; [|split; [|split; [|split]]].
    - intros k a l _ _ _. reflexivity.
    - intros k a l Ha Hl Hmv.
      unfold div_tendency_implicit, lap_c, unc, cur, lapm, Deriv.laplacian, div_implicit_potential. cbn [fst snd].
      assert (E0 : geo_diff false c (fun k0 => s_temp s k0 a l) k = 0).
      { unfold geo_diff, geo_diff_dense. apply sumn_zero. intros k0 _. rewrite (Ht k0 a l Ha Hl Hmv). ring. }
      rewrite E0, (Hp 0%nat a l Ha Hl Hmv). ring.
    - intros k a l Ha Hl Hmv.
      unfold temp_tendency_implicit, temp_implicit_col, temp_implicit_dense, unc, matvec. cbn [fst snd].
      apply sumn_zero. intros h _. rewrite (Hd h a l Ha Hl Hmv). ring.
    - intros _ a l Ha Hl Hmv. unfold lnps_implicit_col, matvec.
      assert (E0 : sumn (cK c) (fun h => thickness (cb c) h * s_div s h a l) = 0).
      { apply sumn_zero. intros h _. rewrite (Hd h a l Ha Hl Hmv). ring. }
      rewrite E0. ring.
    - apply Forall_forall. intros t Hin. apply in_map_iff in Hin. destruct Hin as (t0 & <- & _).
      intros k a l _ _ _. reflexivity.
  Qed.

  Theorem pe_inverse_preserves_Supp (eta : F) (invt : nat -> @Mat F) (s : @State F) :
    StSupp s -> StSupp (implicit_inverse_full g c eta invt s).
  Proof.
    intros (Hv & Hd & Ht & Hp & Htr). unfold StSupp, pe_Supp3, Supp in *.
    cbn [implicit_inverse_full s_vort s_div s_temp s_lnps s_tr].
    assert (Z : forall a l, (a < R)%nat -> (l < L)%nat -> must_vanish false M L a l = true ->
              forall (A : @Mat F) n (x : nat -> F) i, (x = (fun k => s_div s k a l) \/ x = (fun k => s_temp s k a l) \/
                                                       x = lnps_vec (col_of s a l)) -> matvec n A x i = 0).
    { intros a l Ha Hl Hmv A n x i Hx. unfold matvec. apply sumn_zero. intros h _.
      destruct Hx as [-> | [-> | ->]].
      - rewrite (Hd h a l Ha Hl Hmv). ring.
      - rewrite (Ht h a l Ha Hl Hmv). ring.
      - unfold lnps_vec, col_of. cbn [c_lnps]. rewrite (Hp 0%nat a l Ha Hl Hmv). ring. }
    split; [exact Hv|]. split; [|split; [|split; [|exact Htr]]].
    - intros k a l Ha Hl Hmv. unfold inverse_split. cbv zeta. cbn [c_div c_temp col_of].
      rewrite !(Z a l Ha Hl Hmv) by auto. ring.
    - intros k a l Ha Hl Hmv. unfold inverse_split. cbv zeta. cbn [c_div c_temp col_of].
      rewrite !(Z a l Ha Hl Hmv) by auto. ring.
    - intros _ a l Ha Hl Hmv. unfold inverse_split. cbv zeta. cbn [c_div c_temp c_lnps col_of].
      rewrite !(Z a l Ha Hl Hmv) by auto. ring.
  Qed.

  (** ** (d) states as a vector space (tree_math arithmetic; a missing tracer is a zero tracer) *)
  Definition st_zero : @State F := mkState zero3 zero3 zero3 (fun _ _ => 0) [].
  Definition st_add (x y : @State F) : @State F :=
    mkState (fun k a l => s_vort x k a l + s_vort y k a l) (fun k a l => s_div x k a l + s_div y k a l)
            (fun k a l => s_temp x k a l + s_temp y k a l) (fun a l => s_lnps x a l + s_lnps y a l)
            (ladd (s_tr x) (s_tr y)).
  Definition st_scale (t : F) (x : @State F) : @State F :=
    mkState (fun k a l => t * s_vort x k a l) (fun k a l => t * s_div x k a l)
            (fun k a l => t * s_temp x k a l) (fun a l => t * s_lnps x a l)
            (map (fun q => fun k a l => t * q k a l) (s_tr x)).
  Definition StateSp : VSp F (@State F) := {| vz := st_zero; va := st_add; vs := st_scale |}.

  Lemma StSupp_zero : StSupp st_zero.
  Proof. unfold StSupp, pe_Supp3, Supp, st_zero, zero3. cbn [s_vort s_div s_temp s_lnps s_tr]. repeat split; auto. Qed.
  Lemma StSupp_add x y : StSupp x -> StSupp y -> StSupp (st_add x y).
  Proof.
    intros (Hv & Hd & Ht & Hp & Htr) (Hv' & Hd' & Ht' & Hp' & Htr'). unfold StSupp, pe_Supp3, Supp in *.
    cbn [st_add s_vort s_div s_temp s_lnps s_tr].
    split; [|split; [|split; [|split]]]; try (intros k a l Ha Hl Hmv).
    - rewrite (Hv k a l Ha Hl Hmv), (Hv' k a l Ha Hl Hmv). ring.
    - rewrite (Hd k a l Ha Hl Hmv), (Hd' k a l Ha Hl Hmv). ring.
    - rewrite (Ht k a l Ha Hl Hmv), (Ht' k a l Ha Hl Hmv). ring.
    - rewrite (Hp k a l Ha Hl Hmv), (Hp' k a l Ha Hl Hmv). ring.
    - apply ladd_Forall; [|exact Htr|exact Htr'].
      intros p q Hp0 Hq0 k a l Ha Hl Hmv. rewrite (Hp0 k a l Ha Hl Hmv), (Hq0 k a l Ha Hl Hmv). ring.
  Qed.
  Lemma StSupp_scale t x : StSupp x -> StSupp (st_scale t x).
  Proof.
    intros (Hv & Hd & Ht & Hp & Htr). unfold StSupp, pe_Supp3, Supp in *.
    cbn [st_scale s_vort s_div s_temp s_lnps s_tr].
    split; [|split; [|split; [|split]]]; try (intros k a l Ha Hl Hmv).
    - rewrite (Hv k a l Ha Hl Hmv). ring.
    - rewrite (Hd k a l Ha Hl Hmv). ring.
    - rewrite (Ht k a l Ha Hl Hmv). ring.
    - rewrite (Hp k a l Ha Hl Hmv). ring.
    - apply Forall_forall. intros q Hin. apply in_map_iff in Hin. destruct Hin as (q0 & <- & Hq0).
      rewrite Forall_forall in Htr. intros k a l Ha Hl Hmv. rewrite (Htr q0 Hq0 k a l Ha Hl Hmv). ring.
  Qed.

  Variable invt : F -> nat -> @Mat F.     (* np.linalg.inv of the implicit matrices, per eta and total wavenumber *)
  Local Notation Gi := (fun eta => implicit_inverse_full g c eta (invt eta)).

  (** every step term (hence every integrator: Thm/Invariants.v [integrators_consistent], [bridge_*]), every filter
      stack that keeps the pattern, every number of steps *)
  Theorem primeq_term_preserves_subspace (t : stepterm F) (env : nat -> @State F) :
    pe_H_p_support -> pe_H_deriv_mask -> pe_masked orog ->
    (forall i, StSupp (env i)) -> StSupp (eval (vo := StateSp) E (implicit_terms_full g c) Gi t env).
  Proof.
    intros Hp Hd Ho. apply (term_preserves_subspace (vo := StateSp)).
    - exact StSupp_zero.
    - exact StSupp_add.
    - exact StSupp_scale.
    - intros x _. now apply pe_explicit_into_Supp.
    - exact pe_implicit_preserves_Supp.
    - intros eta x. apply pe_inverse_preserves_Supp.
  Qed.

  Theorem primeq_trajectory_in_subspace (t : stepterm F) (filters : list (@State F -> @State F -> @State F)) :
    pe_H_p_support -> pe_H_deriv_mask -> pe_masked orog ->
    (forall f, In f filters -> forall u un, StSupp u -> StSupp un -> StSupp (f u un)) ->
    forall k u, StSupp u ->
      StSupp (iter k (with_filters (step_of (vo := StateSp) E (implicit_terms_full g c) Gi t) filters) u).
  Proof.
    intros Hp Hd Ho. apply (trajectory_in_subspace (vo := StateSp)).
    - exact StSupp_zero.
    - exact StSupp_add.
    - exact StSupp_scale.
    - intros x _. now apply pe_explicit_into_Supp.
    - exact pe_implicit_preserves_Supp.
    - intros eta x. apply pe_inverse_preserves_Supp.
  Qed.

  Theorem primeq_leapfrog_trajectory_in_subspace (t : stepterm F)
          (filters : list (@State F * @State F -> @State F * @State F -> @State F * @State F)) :
    pe_H_p_support -> pe_H_deriv_mask -> pe_masked orog ->
    (forall f, In f filters -> forall u un, S2 StSupp u -> S2 StSupp un -> S2 StSupp (f u un)) ->
    forall k u, S2 StSupp u ->
      S2 StSupp (iter k (with_filters (lf_step_of (vo := StateSp) E (implicit_terms_full g c) Gi t) filters) u).
  Proof.
    intros Hp Hd Ho. apply (lf_trajectory_in_subspace (vo := StateSp)).
    - exact StSupp_zero.
    - exact StSupp_add.
    - exact StSupp_scale.
    - intros x _. now apply pe_explicit_into_Supp.
    - exact pe_implicit_preserves_Supp.
    - intros eta x. apply pe_inverse_preserves_Supp.
  Qed.

  (** *** global means.  The implicit inverse passes the (0,0) vorticity coefficient untouched (definitionally); for the
      divergence it does so when the divergence rows of the inverse table of total wavenumber 0 are unit rows
      [pe_H_inv0_div_rows] - which holds for every right inverse of the assembled matrix [pe_right_inverse_div_rows] *)
  Definition pe_H_inv0_div_rows : Prop :=
    forall eta i j, (i < cK c)%nat -> (j < 2 * cK c + 1)%nat -> invt eta 0%nat i j = eye i j.

  Lemma pe_inverse_div_mean (eta : F) (s : @State F) k :
    pe_H_inv0_div_rows -> (k < cK c)%nat ->
    s_div (Gi eta s) k 0%nat 0%nat = s_div s k 0%nat 0%nat.
  Proof.
    intros Hrows Hk. cbn [implicit_inverse_full s_div]. unfold inverse_split. cbv zeta. cbn [c_div c_temp col_of].
    unfold matvec, blk.
    assert (E1 : sumn (cK c) (fun h => invt eta 0%nat (0 + k)%nat (0 + h)%nat * s_div s h 0%nat 0%nat) = s_div s k 0%nat 0%nat).
    { rewrite <- (sumn_delta_l (cK c) k (fun h => s_div s h 0%nat 0%nat) Hk). apply sumn_ext. intros h Hh.
      cbn [Nat.add]. rewrite (Hrows eta k h Hk) by lia. reflexivity. }
    assert (E2 : sumn (cK c) (fun h => invt eta 0%nat (0 + k)%nat (cK c + h)%nat * s_temp s h 0%nat 0%nat) = 0).
    { apply sumn_zero. intros h Hh. cbn [Nat.add]. rewrite (Hrows eta k (cK c + h)%nat Hk) by lia.
      unfold eye, delta. destruct (Nat.eqb_spec k (cK c + h)); [lia|ring]. }
    assert (E3 : sumn 1 (fun h => invt eta 0%nat (0 + k)%nat (2 * cK c + h)%nat * lnps_vec (col_of s 0%nat 0%nat) h) = 0).
    { apply sumn_zero. intros h Hh. cbn [Nat.add]. rewrite (Hrows eta k (2 * cK c + h)%nat Hk) by lia.
      unfold eye, delta. destruct (Nat.eqb_spec k (2 * cK c + h)); [lia|ring]. }
    rewrite E1, E2, E3. ring.
  Qed.

  (** the component "(0,0) coefficient of level k" of vorticity / divergence *)
  Definition P_vort (k : nat) (s : @State F) : F := s_vort s k 0%nat 0%nat.
  Definition P_div (k : nat) (s : @State F) : F := s_div s k 0%nat 0%nat.

  (** along every trajectory of a consistent step term (every Runge-Kutta-type integrator: [integrators_consistent]),
      with filters that keep the means, after every number of steps, from ANY initial state *)
  Theorem primeq_means_conserved (t : stepterm F) (cs : F) (filters : list (@State F -> @State F -> @State F)) lev :
    hr g <> 0 -> (2 <= L)%nat -> (0 < R)%nat ->
    consistent t cs ->
    (forall f, In f filters -> forall u un, P_vort lev (f u un) = P_vort lev un /\ P_div lev (f u un) = P_div lev un) ->
    forall k u,
      P_vort lev (iter k (with_filters (step_of (vo := StateSp) E (implicit_terms_full g c) Gi t) filters) u) = P_vort lev u /\
      (pe_H_inv0_div_rows -> (lev < cK c)%nat ->
       P_div lev (iter k (with_filters (step_of (vo := StateSp) E (implicit_terms_full g c) Gi t) filters) u) = P_div lev u).
  Proof.
    intros Hr HL HR0 Hc Hf k u.
    pose proof (fun P P0 Pa Ps PF PG PI Hf' =>
                  component_after_k_steps (vo := StateSp) E (implicit_terms_full g c) Gi (fun _ => True)
                    Logic.I (fun _ _ _ _ => Logic.I) (fun _ _ _ => Logic.I) (fun _ _ => Logic.I) (fun _ _ => Logic.I)
                    (fun _ _ _ => Logic.I) P 0 P0 Pa Ps PF PG PI t cs filters Hc Hf' k u Logic.I) as CK.
    split.
    - rewrite (CK (P_vort lev)).
      + ring.
      + reflexivity.
      + intros x y. reflexivity.
      + intros a x. reflexivity.
      + intros x _. exact (proj1 (pe_explicit_means_vanish x lev Hr HL HR0)).
      + intros x _. reflexivity.
      + intros eta x _. reflexivity.
      + intros f Hin v vn _ _. split; [exact Logic.I|exact (proj1 (Hf f Hin v vn))].
    - intros Hrows Hlev. rewrite (CK (P_div lev)).
      + ring.
      + reflexivity.
      + intros x y. reflexivity.
      + intros a x. reflexivity.
      + intros x _. exact (proj2 (pe_explicit_means_vanish x lev Hr HL HR0)).
      + intros x _. exact (proj2 (pe_implicit_means_vanish x lev Hr)).
      + intros eta x _. exact (pe_inverse_div_mean eta x lev Hrows Hlev).
      + intros f Hin v vn _ _. split; [exact Logic.I|exact (proj2 (Hf f Hin v vn))].
  Qed.
End PEInvariants.

(** * Round 2: the named hypotheses derived from more primitive facts
    (1) [pe_H_inv0_div_rows] from "the table at total wavenumber 0 is a right inverse of the assembled matrix";
    (2) [pe_H_p_support] from "basis.p is the table built by the Legendre recurrence" (Thm/Legendre.v, Thm/SymmetryLegendre.v);
    (3) [pe_H_deriv_mask] from "the recurrence weight a vanishes at l = |m|" (reference layout);
    (4) leapfrog: global means along two-snapshot trajectories. *)
From Dino Require Import Gen.Legendre Model.Legendre Model.Symmetry Thm.Legendre Thm.Symmetry Thm.SymmetryLegendre.

Section PEDerived.
  Context {F : Type} {o : Ops F} {Fc : FieldC o}.
  Add Field FFif2 : (field_c : FieldTh o).
  Variable g : @HGrid F.
  Local Notation M := (hM g).
  Local Notation R := (hR g).
  Local Notation L := (hL g).
  Local Notation J := (hJ g).

  (** ** (1) the inverse table *)
  Definition pe_H_inv0_right_inverse (c : @PEcfg F) (invt : F -> nat -> @Mat F) : Prop :=
    forall eta i j, (i < 2 * cK c + 1)%nat -> (j < 2 * cK c + 1)%nat ->
      matmul (2 * cK c + 1) (implicit_matrix c eta (Deriv.lap_eig L (hr g) 0%nat)) (invt eta 0%nat) i j = eye i j.

  (** at eigenvalue 0 the divergence rows of the assembled matrix are unit rows: first block row [I 0 0] *)
  Lemma pe_matrix_div_row_l0 (c : @PEcfg F) (eta lam : F) i k :
    lam = 0 -> (i < cK c)%nat -> implicit_matrix c eta lam i k = delta i k.
  Proof.
    intros -> Hi. unfold implicit_matrix. cbv zeta.
    destruct (Nat.ltb_spec i (cK c)) as [_|H]; [|lia].
    destruct (Nat.ltb_spec k (cK c)) as [Hk|Hk]; [reflexivity|].
    unfold delta. destruct (Nat.eqb_spec i k) as [E|_]; [lia|].
    destruct (Nat.ltb_spec k (2 * cK c)); ring.
  Qed.

  Theorem pe_right_inverse_div_rows (c : @PEcfg F) (invt : F -> nat -> @Mat F) :
    hr g <> 0 -> (2 <= L)%nat -> pe_H_inv0_right_inverse c invt -> pe_H_inv0_div_rows c invt.
  Proof.
    intros Hr HL Hri eta i j Hi Hj.
    pose proof (Hri eta i j ltac:(lia) Hj) as E. unfold matmul in E.
    rewrite (sumn_ext (2 * cK c + 1) _ (fun k => delta i k * invt eta 0%nat k j)) in E.
    - rewrite sumn_delta_l in E by lia. exact E.
    - intros k _. rewrite (pe_matrix_div_row_l0 c eta _ i k); [reflexivity| |exact Hi].
      exact (lap_eig_0 L 1 L (hr g) Hr HL (le_n L) Nat.lt_0_1).
  Qed.

  (** an explicit right inverse for one level (used for the non-vacuity example): [[1 0 0] [-eta H 1 0] [-eta th 0 1]] *)
  Definition pe_inv0_one_level (c : @PEcfg F) (eta : F) : @Mat F :=
    fun i j => match i, j with
               | 0%nat, 0%nat => 1 | 1%nat, 1%nat => 1 | 2%nat, 2%nat => 1
               | 1%nat, 0%nat => - (eta * temp_weights c 0%nat 0%nat)
               | 2%nat, 0%nat => - (eta * thickness (cb c) 0%nat)
               | _, _ => 0
               end.
  Lemma pe_inv0_one_level_right_inverse (c : @PEcfg F) (eta lam : F) i j :
    cK c = 1%nat -> lam = 0 -> (i < 3)%nat -> (j < 3)%nat ->
    matmul 3 (implicit_matrix c eta lam) (pe_inv0_one_level c eta) i j = eye i j.
  Proof.
    intros HK -> Hi Hj. unfold matmul, implicit_matrix. cbv zeta. rewrite HK.
    destruct i as [|[|[|i]]]; [| | |lia]; (destruct j as [|[|[|j]]]; [| | |lia]);
      cbn [sumn pe_inv0_one_level Nat.ltb Nat.leb Nat.mul Nat.add Nat.sub eye delta Nat.eqb]; ring.
  Qed.

  (** ** (2) the support of basis.p from the recurrence.  [pe_p_is_evaluate]: basis.p[a] is the row |m(a)| of
      legendre.evaluate (the table the code builds: C01 / C10 compare it with the implementation's basis.p) *)
  Definition pe_p_is_evaluate (sq : F -> F) (x y : nat -> F) : Prop :=
    forall a j l, (a < R)%nat -> (j < J)%nat -> (l < L)%nat ->
                  hp g a j l = leg_basis_p false sq J x y M L a j l.

  Lemma pe_mask_false a l : (l < L)%nat -> (Deriv.mask false M L a l = false <-> (l < dref_j a)%nat).
  Proof.
    intros Hl. unfold Deriv.mask. rewrite (proj1 (dlon_index_is_wavenumber M a)), (laxis_lt L l Hl).
    apply Nat.leb_gt.
  Qed.

  Theorem pe_H_p_support_from_recurrence (sq : F -> F) (x y : nat -> F) :
    pe_p_is_evaluate sq x y -> pe_H_p_support g.
  Proof.
    intros Hp i a j l _ Ha Hj Hl Hm. rewrite (Hp a j l Ha Hj Hl).
    rewrite (leg_basis_p_support sq J x y false M L a j l); [ring|].
    left. unfold sy_wav. now apply pe_mask_false.
  Qed.

  (** ** (3) div_cos_lat / curl_cos_lat keep the mask, from the recurrence weight a = 0 at l = |m| *)
  Definition pe_H_a_diag : Prop :=
    forall a l, (a < R)%nat -> (l < L)%nat -> l = dref_j a -> ha g a l = 0.

  Lemma pe_zero_div (r : F) : 0 / r = 0.
  Proof. rewrite (Fdiv_def field_c). ring. Qed.

  Lemma pe_dlon_masked (x : nat -> nat -> F) a l :
    pe_masked g x -> (a < R)%nat -> (l < L)%nat -> (l < dref_j a)%nat -> dlon_ref R x a l = 0.
  Proof.
    intros Hx Ha Hl Hm. rewrite dlon_ref_unfold by assumption. unfold dref_j in Hm.
    destruct (Nat.eqb_spec (a mod 2) 0) as [He|Ho]; cbn [negb].
    - destruct (Nat.eqb_spec a 0) as [E0|N0]; [ring|].
      rewrite (Hx (a - 1)%nat l); [ring|lia|exact Hl|]. apply pe_mask_false; [exact Hl|]. unfold dref_j. lia.
    - destruct (Nat.ltb_spec (S a) R) as [H1|H1]; [|ring].
      rewrite (Hx (S a) l); [ring|exact H1|exact Hl|]. apply pe_mask_false; [exact Hl|]. unfold dref_j. lia.
  Qed.

  Lemma pe_D2_masked (y : nat -> nat -> F) a l :
    pe_H_a_diag -> pe_masked g y -> (a < R)%nat -> (l < L)%nat -> (l < dref_j a)%nat ->
    D2 L L (ha g) (hb g) y a l = 0.
  Proof.
    intros Hd Hy Ha Hl Hm. rewrite D2_entries by assumption. unfold tri. cbv beta.
    assert (B : l <> 0%nat -> y a (l - 1)%nat = 0).
    { intros N0. apply Hy; [exact Ha|lia|]. apply pe_mask_false; lia. }
    assert (A : (S l < L)%nat -> ha g a (S l) = 0 \/ y a (S l) = 0).
    { intros H1. destruct (Nat.eq_dec (S l) (dref_j a)) as [E|E].
      - left. exact (Hd a (S l) Ha H1 E).
      - right. apply Hy; [exact Ha|exact H1|]. apply pe_mask_false; lia. }
    destruct (Nat.ltb_spec (S l) L) as [H1|H1]; destruct (Nat.eqb_spec l 0) as [E0|N0].
    - destruct (A H1) as [Z|Z]; rewrite Z; ring.
    - rewrite (B N0). destruct (A H1) as [Z|Z]; rewrite Z; ring.
    - ring.
    - rewrite (B N0). ring.
  Qed.

  Theorem pe_H_deriv_mask_from_weights : pe_H_a_diag -> pe_H_deriv_mask g.
  Proof.
    intros Hd x y Hx Hy. split; intros a l Ha Hl Hm; apply (pe_mask_false a l Hl) in Hm.
    - unfold divm, div_cos_lat, clip_if, d_dlon. cbn [fst snd].
      rewrite (pe_dlon_masked x a l Hx Ha Hl Hm), (pe_D2_masked y a l Hd Hy Ha Hl Hm).
      replace (0 + 0) with (0 : F) by ring. apply pe_zero_div.
    - unfold curlm, curl_cos_lat, clip_if, d_dlon. cbn [fst snd].
      rewrite (pe_dlon_masked y a l Hy Ha Hl Hm), (pe_D2_masked x a l Hd Hx Ha Hl Hm).
      replace (0 - 0) with (0 : F) by ring. apply pe_zero_div.
  Qed.

  (** ** corollaries: the pattern theorems resting on the recurrence table, the weight property and the orography only *)
  Variable c : @PEcfg F.
  Variable grav : F.
  Variable orog : nat -> nat -> F.
  Variable invt : F -> nat -> @Mat F.
  Local Notation E := (explicit_terms_full g c grav orog).
  Local Notation Gi := (fun eta => implicit_inverse_full g c eta (invt eta)).

  Theorem pe_explicit_into_Supp_from_recurrence (sq : F -> F) (x y : nat -> F) (s : @State F) :
    pe_p_is_evaluate sq x y -> pe_H_a_diag -> pe_masked g orog -> StSupp g (E s).
  Proof.
    intros Hp Hd Ho. apply pe_explicit_into_Supp; [now apply (pe_H_p_support_from_recurrence sq x y)| |exact Ho].
    now apply pe_H_deriv_mask_from_weights.
  Qed.

  Theorem primeq_trajectory_in_subspace_from_recurrence (sq : F -> F) (x y : nat -> F)
          (t : stepterm F) (filters : list (@State F -> @State F -> @State F)) :
    pe_p_is_evaluate sq x y -> pe_H_a_diag -> pe_masked g orog ->
    (forall f, In f filters -> forall u un, StSupp g u -> StSupp g un -> StSupp g (f u un)) ->
    forall k u, StSupp g u ->
      StSupp g (iter k (with_filters (step_of (vo := StateSp) E (implicit_terms_full g c) Gi t) filters) u).
  Proof.
    intros Hp Hd Ho. apply primeq_trajectory_in_subspace; [now apply (pe_H_p_support_from_recurrence sq x y)| |exact Ho].
    now apply pe_H_deriv_mask_from_weights.
  Qed.

  Theorem primeq_leapfrog_trajectory_in_subspace_from_recurrence (sq : F -> F) (x y : nat -> F) (t : stepterm F)
          (filters : list (@State F * @State F -> @State F * @State F -> @State F * @State F)) :
    pe_p_is_evaluate sq x y -> pe_H_a_diag -> pe_masked g orog ->
    (forall f, In f filters -> forall u un, S2 (StSupp g) u -> S2 (StSupp g) un -> S2 (StSupp g) (f u un)) ->
    forall k u, S2 (StSupp g) u ->
      S2 (StSupp g) (iter k (with_filters (lf_step_of (vo := StateSp) E (implicit_terms_full g c) Gi t) filters) u).
  Proof.
    intros Hp Hd Ho. apply primeq_leapfrog_trajectory_in_subspace; [now apply (pe_H_p_support_from_recurrence sq x y)| |exact Ho].
    now apply pe_H_deriv_mask_from_weights.
  Qed.

  (** the divergence half of primeq_means_conserved resting on the inverse property only *)
  Theorem primeq_means_conserved_from_inverse (t : stepterm F) (cs : F) (filters : list (@State F -> @State F -> @State F)) lev :
    hr g <> 0 -> (2 <= L)%nat -> (0 < R)%nat ->
    consistent t cs ->
    (forall f, In f filters -> forall u un, P_vort lev (f u un) = P_vort lev un /\ P_div lev (f u un) = P_div lev un) ->
    pe_H_inv0_right_inverse c invt -> (lev < cK c)%nat ->
    forall k u,
      P_vort lev (iter k (with_filters (step_of (vo := StateSp) E (implicit_terms_full g c) Gi t) filters) u) = P_vort lev u /\
      P_div lev (iter k (with_filters (step_of (vo := StateSp) E (implicit_terms_full g c) Gi t) filters) u) = P_div lev u.
  Proof.
    intros Hr HL HR0 Hc Hf Hri Hlev k u.
    destruct (primeq_means_conserved g c grav orog invt t cs filters lev Hr HL HR0 Hc Hf k u) as [A B].
    split; [exact A|]. apply B; [|exact Hlev]. now apply pe_right_inverse_div_rows.
  Qed.
End PEDerived.

(** ** (4) leapfrog: a component that sees F = 0, G = 0, G_inv = id and has the same value m on both snapshots keeps the
    value m on both snapshots along every trajectory of semi_implicit_leapfrog (any dt, alpha) with filters that keep it *)
Section LFMean.
  Context {F : Type} {o : Ops F} {Fc : FieldC o}.
  Add Field FFif3 : (field_c : FieldTh o).
  Context {V : Type} {vo : VSp F V} (Fx G : V -> V) (Ginv : F -> V -> V) (P : V -> F).
  Hypothesis P_zero : P vz = 0.
  Hypothesis P_add : forall x y, P (va x y) = P x + P y.
  Hypothesis P_scale : forall a x, P (vs a x) = a * P x.
  Hypothesis P_F : forall x, P (Fx x) = 0.
  Hypothesis P_G : forall x, P (G x) = 0.
  Hypothesis P_Ginv : forall eta x, P (Ginv eta x) = P x.

  Definition Pm (m : F) (pc : V * V) : Prop := P (fst pc) = m /\ P (snd pc) = m.

  Theorem lf_mean_trajectory (dt alpha m : F) (filters : list (V * V -> V * V -> V * V)) :
    (forall f, In f filters -> forall u un, Pm m u -> Pm m un -> Pm m (f u un)) ->
    forall k u, Pm m u -> Pm m (iter k (with_filters (lf_step_of Fx G Ginv (leapfrog_term dt alpha)) filters) u).
  Proof.
    intros Hf. apply iter_preserves. apply with_filters_preserves; [|exact Hf].
    intros pc [Hp Hc]. split; [exact Hc|].
    rewrite (lf_step_component Fx G Ginv (fun _ => True) Logic.I (fun _ _ _ _ => Logic.I) (fun _ _ _ => Logic.I)
               (fun _ _ => Logic.I) (fun _ _ => Logic.I) (fun _ _ _ => Logic.I) P 0 P_zero P_add P_scale
               (fun x _ => P_F x) (fun x _ => P_G x) (fun eta x _ => P_Ginv eta x) (leapfrog_term dt alpha) pc
               (conj Logic.I Logic.I)).
    rewrite leapfrog_scalar. cbn [env2]. rewrite Hp. ring.
  Qed.
End LFMean.

Section PELeapfrogMeans.
  Context {F : Type} {o : Ops F} {Fc : FieldC o}.
  Add Field FFif4 : (field_c : FieldTh o).
  Variables (g : @HGrid F) (c : @PEcfg F) (grav : F) (orog : nat -> nat -> F) (invt : F -> nat -> @Mat F).
  Local Notation E := (explicit_terms_full g c grav orog).
  Local Notation Gi := (fun eta => implicit_inverse_full g c eta (invt eta)).
  Local Notation lfstep dt alpha := (lf_step_of (vo := StateSp) E (implicit_terms_full g c) Gi (leapfrog_term dt alpha)).

  Theorem primeq_leapfrog_means_conserved (dt alpha : F) lev (mv md : F)
          (filters : list (@State F * @State F -> @State F * @State F -> @State F * @State F)) :
    hr g <> 0 -> (2 <= hL g)%nat -> (0 < hR g)%nat ->
    (forall k u, (forall f, In f filters -> forall v vn, Pm (P_vort lev) mv v -> Pm (P_vort lev) mv vn -> Pm (P_vort lev) mv (f v vn)) ->
                 Pm (P_vort lev) mv u -> Pm (P_vort lev) mv (iter k (with_filters (lfstep dt alpha) filters) u)) /\
    (pe_H_inv0_right_inverse g c invt -> (lev < cK c)%nat ->
     forall k u, (forall f, In f filters -> forall v vn, Pm (P_div lev) md v -> Pm (P_div lev) md vn -> Pm (P_div lev) md (f v vn)) ->
                 Pm (P_div lev) md u -> Pm (P_div lev) md (iter k (with_filters (lfstep dt alpha) filters) u)).
  Proof.
    intros Hr HL HR0. split.
    - intros k u Hf Hu.
      apply (lf_mean_trajectory (vo := StateSp) E (implicit_terms_full g c) Gi (P_vort lev)); try assumption.
      + reflexivity.
      + intros x y. reflexivity.
      + intros a x. reflexivity.
      + intros x. exact (proj1 (pe_explicit_means_vanish g c grav orog x lev Hr HL HR0)).
      + intros x. reflexivity.
      + intros eta x. reflexivity.
    - intros Hri Hlev k u Hf Hu.
      pose proof (pe_right_inverse_div_rows g c invt Hr HL Hri) as Hrows.
      apply (lf_mean_trajectory (vo := StateSp) E (implicit_terms_full g c) Gi (P_div lev)); try assumption.
      + reflexivity.
      + intros x y. reflexivity.
      + intros a x. reflexivity.
      + intros x. exact (proj2 (pe_explicit_means_vanish g c grav orog x lev Hr HL HR0)).
      + intros x. exact (proj2 (pe_implicit_means_vanish g c x lev Hr)).
      + intros eta x. apply pe_inverse_div_mean; assumption.
  Qed.
End PELeapfrogMeans.
