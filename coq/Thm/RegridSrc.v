(** The scalar kernels of conservative regridding in Model/Regrid.v are the
    code of dinosaur/horizontal_interpolation.py / vertical_interpolation.py:
    each equals its transcription regenerated from the AST on every run
    (Gen/RegridSrc.v, tools/translate/gen_regrid.py). *)
From Dino Require Import Base.Ops Base.Sums Base.Ord Model.Filters Model.Regrid Gen.RegridSrc.
Local Open Scope F_scope.

Section RegridSrcThm.
  Context {F : Type} {o : Ops F} {Fc : FieldC o}.
  Add Field FFrsrc : (field_c : FieldTh o).

  Lemma two_fnat_r : (fnat 2 : F) = Regrid.two.
  Proof. unfold Regrid.two. cbn [fnat]. ring. Qed.

  Lemma align_phase_matches_source (x target period : F) :
    align_phase x target period = align_phase_src x target period.
  Proof.
    unfold align_phase, align_phase_src, Regrid.ind, indb. rewrite two_fnat_r. cbv zeta. reflexivity.
  Qed.

  Lemma per_bounds_match_source n (period : F) (x : nat -> F) i :
    per_upper n period x i = per_upper_src (x i) (roll_m1 n x i) period /\
    per_lower n period x i = per_lower_src (x i) (roll_p1 n x i) period.
  Proof.
    unfold per_upper, per_lower, per_upper_src, per_lower_src.
    rewrite <- !align_phase_matches_source, two_fnat_r. split; reflexivity.
  Qed.

  Lemma per_overlap_matches_source (period x0 x1 y0 y1 : F) :
    per_overlap period x0 x1 y0 y1 = per_overlap_src period x0 x1 y0 y1.
  Proof.
    unfold per_overlap, per_overlap_src. rewrite <- !align_phase_matches_source. cbv zeta beta. reflexivity.
  Qed.

  Lemma interval_overlap_matches_source (sb tb : nat -> F) i j :
    interval_overlap sb tb i j = interval_overlap_src (tb i) (tb (S i)) (sb j) (sb (S j)).
  Proof. reflexivity. Qed.

  (** _latitude_overlap: the model selects bound and sine table entry together; with
      [upper]/[lower] the selected bounds and [s_upper]/[s_lower] the selected sines
      the returned expression is the transcribed one *)
  Lemma lat_overlap_matches_source (tb sb st ss : nat -> F) i j :
    lat_overlap tb sb st ss i j =
    lat_overlap_src (if fleb (tb i) (sb j) then sb j else tb i)
                    (if fleb (tb (S i)) (sb (S j)) then tb (S i) else sb (S j))
                    (if fleb (tb i) (sb j) then ss j else st i)
                    (if fleb (tb (S i)) (sb (S j)) then st (S i) else ss (S j)).
  Proof. unfold lat_overlap, lat_overlap_src, Regrid.ind, indb. cbv zeta. reflexivity. Qed.

  (** the selected bounds are numpy's minimum / maximum *)
  Lemma lat_selected_bounds (a b : F) :
    (if fleb a b then a else b) = fmin a b /\ (if fleb a b then b else a) = fmax a b.
  Proof. unfold fmin, fmax. split; reflexivity. Qed.
End RegridSrcThm.

Lemma gen_regrid_complete : gen_regrid_ok = true.
Proof. reflexivity. Qed.
