(** Proofs about Model/Units.v: integer powers on a field, the scale/unit
    algebra (every field, every number of dimensions and units, all non-zero
    scales) and phase reduction over the reals. *)
From Dino Require Import Base.Ops Base.Sums Model.Units.
Local Open Scope F_scope.

Section Pow.
  Context {F : Type} {o : Ops F} {Fc : FieldC o}.
  Add Field FFu : (field_c : FieldTh o).

  Lemma f1_nz : (1 : F) <> 0.
  Proof. exact (F_1_neq_0 field_c). Qed.

  Lemma fmul_nz (x y : F) : x <> 0 -> y <> 0 -> x * y <> 0.
  Proof.
    intros Hx Hy H. apply Hx.
    replace x with (x * y * (1 / y)) by (field; exact Hy). rewrite H. ring.
  Qed.

  Lemma fdiv1_nz (x : F) : x <> 0 -> 1 / x <> 0.
  Proof.
    intros Hx H. apply f1_nz. replace 1 with (1 / x * x) by (field; exact Hx). rewrite H. ring.
  Qed.

  Lemma npow_nz x k : x <> 0 -> npow x k <> 0.
  Proof. intros Hx. induction k as [|k IH]; cbn; [exact f1_nz | now apply fmul_nz]. Qed.

  Lemma npow_add x a b : npow x (a + b) = npow x a * npow x b.
  Proof. induction a as [|a IH]; cbn; [ring | rewrite IH; ring]. Qed.

  Lemma npow_mul_base x y k : npow (x * y) k = npow x k * npow y k.
  Proof. induction k as [|k IH]; cbn; [ring | rewrite IH; ring]. Qed.

  Lemma npow_one k : npow 1 k = 1.
  Proof. induction k as [|k IH]; cbn; [reflexivity | rewrite IH; ring]. Qed.

  Lemma npow_mul_exp x a b : npow x (a * b) = npow (npow x a) b.
  Proof.
    induction b as [|b IH]; cbn.
    - now rewrite Nat.mul_0_r.
    - rewrite Nat.mul_succ_r, Nat.add_comm, npow_add, IH. reflexivity.
  Qed.

  Lemma npow_inv x k : x <> 0 -> npow (1 / x) k = 1 / npow x k.
  Proof.
    intros Hx. induction k as [|k IH]; cbn.
    - field. exact f1_nz.
    - rewrite IH. field. split; [now apply npow_nz | exact Hx].
  Qed.

  Lemma zpow_of_nat x k : zpow x (Z.of_nat k) = npow x k.
  Proof.
    destruct k as [|k]; [reflexivity|].
    cbn [Z.of_nat zpow]. now rewrite SuccNat2Pos.id_succ.
  Qed.

  Lemma zpow_opp_nat x k : zpow x (- Z.of_nat k) = 1 / npow x k.
  Proof.
    destruct k as [|k]; cbn [Z.of_nat Z.opp zpow].
    - cbn. field. exact f1_nz.
    - now rewrite SuccNat2Pos.id_succ.
  Qed.

  Lemma zpow_sub_nat x a b : x <> 0 -> zpow x (Z.of_nat a - Z.of_nat b) = npow x a / npow x b.
  Proof.
    intros Hx. destruct (Nat.le_ge_cases b a) as [H|H].
    - replace (Z.of_nat a - Z.of_nat b)%Z with (Z.of_nat (a - b)) by lia.
      rewrite zpow_of_nat. replace a with (b + (a - b))%nat at 2 by lia.
      rewrite npow_add. field. now apply npow_nz.
    - replace (Z.of_nat a - Z.of_nat b)%Z with (- Z.of_nat (b - a))%Z by lia.
      rewrite zpow_opp_nat. replace b with (a + (b - a))%nat at 2 by lia.
      rewrite npow_add. field. split; now apply npow_nz.
  Qed.

  (** every integer is a difference of naturals *)
  Lemma zpow_diff x z a b : x <> 0 -> z = (Z.of_nat a - Z.of_nat b)%Z -> zpow x z = npow x a / npow x b.
  Proof. intros Hx ->. now apply zpow_sub_nat. Qed.

  Lemma zpow_nz x z : x <> 0 -> zpow x z <> 0.
  Proof.
    intros Hx. destruct z; cbn.
    - exact f1_nz.
    - now apply npow_nz.
    - apply fdiv1_nz. now apply npow_nz.
  Qed.

  Lemma zpow_add x a b : x <> 0 -> zpow x (a + b) = zpow x a * zpow x b.
  Proof.
    intros Hx.
    rewrite (zpow_diff x a (Z.to_nat a) (Z.to_nat (- a))) by (auto; lia).
    rewrite (zpow_diff x b (Z.to_nat b) (Z.to_nat (- b))) by (auto; lia).
    rewrite (zpow_diff x (a + b) (Z.to_nat a + Z.to_nat b) (Z.to_nat (- a) + Z.to_nat (- b))) by (auto; lia).
    rewrite !npow_add. field. split; now apply npow_nz.
  Qed.

  Lemma zpow_opp x a : x <> 0 -> zpow x (- a) = 1 / zpow x a.
  Proof.
    intros Hx.
    rewrite (zpow_diff x a (Z.to_nat a) (Z.to_nat (- a))) by (auto; lia).
    rewrite (zpow_diff x (- a) (Z.to_nat (- a)) (Z.to_nat a)) by (auto; lia).
    field. split; now apply npow_nz.
  Qed.

  Lemma zpow_sub x a b : x <> 0 -> zpow x (a - b) = zpow x a / zpow x b.
  Proof.
    intros Hx. replace (a - b)%Z with (a + - b)%Z by lia.
    rewrite zpow_add, zpow_opp by exact Hx. field. now apply zpow_nz.
  Qed.

  Lemma zpow_mul_base x y z : x <> 0 -> y <> 0 -> zpow (x * y) z = zpow x z * zpow y z.
  Proof.
    intros Hx Hy. destruct z; cbn.
    - ring.
    - apply npow_mul_base.
    - rewrite npow_mul_base. field. split; now apply npow_nz.
  Qed.

  Lemma zpow_one z : zpow 1 z = 1.
  Proof. destruct z; cbn; rewrite ?npow_one; try reflexivity. field. exact f1_nz. Qed.

  Lemma zpow_1 x : zpow x 1 = x.
  Proof. unfold zpow. rewrite Pos2Nat.inj_1. cbn [npow]. ring. Qed.

  Lemma zpow_div1_base x z : x <> 0 -> zpow (1 / x) z = 1 / zpow x z.
  Proof.
    intros Hx. destruct z; cbn.
    - field. exact f1_nz.
    - now apply npow_inv.
    - rewrite npow_inv by exact Hx. field. split; [now apply npow_nz | exact f1_nz].
  Qed.

  Lemma zpow_mul_exp_nat x a k : x <> 0 -> zpow x (a * Z.of_nat k) = npow (zpow x a) k.
  Proof.
    intros Hx. induction k as [|k IH].
    - cbn. now rewrite Z.mul_0_r.
    - replace (a * Z.of_nat (S k))%Z with (a + a * Z.of_nat k)%Z by lia.
      rewrite zpow_add, IH by exact Hx. reflexivity.
  Qed.

  Lemma zpow_mul_exp x a b : x <> 0 -> zpow x (a * b) = zpow (zpow x a) b.
  Proof.
    intros Hx. destruct b as [|p|p].
    - now rewrite Z.mul_0_r.
    - rewrite <- (positive_nat_Z p), zpow_mul_exp_nat, zpow_of_nat by exact Hx. reflexivity.
    - replace (a * Z.neg p)%Z with (- (a * Z.of_nat (Pos.to_nat p)))%Z by lia.
      rewrite zpow_opp, zpow_mul_exp_nat by exact Hx. reflexivity.
  Qed.

  (** finite products *)
  Lemma prodn_ext n (f g : nat -> F) :
    (forall i, (i < n)%nat -> f i = g i) -> prodn n f = prodn n g.
  Proof.
    induction n as [|n IH]; intros H; cbn; [reflexivity|].
    rewrite IH, (H n) by auto with arith. reflexivity.
  Qed.

  Lemma prodn_nz n (f : nat -> F) : (forall i, (i < n)%nat -> f i <> 0) -> prodn n f <> 0.
  Proof.
    induction n as [|n IH]; intros H; cbn; [exact f1_nz|].
    apply fmul_nz; auto with arith.
  Qed.

  Lemma prodn_mul n (f g : nat -> F) : prodn n (fun i => f i * g i) = prodn n f * prodn n g.
  Proof. induction n as [|n IH]; cbn; [ring | rewrite IH; ring]. Qed.

  Lemma prodn_one n : prodn n (fun _ => (1 : F)) = 1.
  Proof. induction n as [|n IH]; cbn; [reflexivity | rewrite IH; ring]. Qed.

  Lemma prodn_div1 n (f : nat -> F) :
    (forall i, (i < n)%nat -> f i <> 0) -> prodn n (fun i => 1 / f i) = 1 / prodn n f.
  Proof.
    induction n as [|n IH]; intros H; cbn.
    - field. exact f1_nz.
    - rewrite IH by auto with arith. field. split; [apply H; auto with arith | apply prodn_nz; auto with arith].
  Qed.

  Lemma prodn_zpow n (f : nat -> F) k :
    (forall i, (i < n)%nat -> f i <> 0) -> prodn n (fun i => zpow (f i) k) = zpow (prodn n f) k.
  Proof.
    induction n as [|n IH]; intros H; cbn [prodn].
    - now rewrite zpow_one.
    - rewrite IH by auto with arith. rewrite zpow_mul_base; [reflexivity | apply prodn_nz; auto with arith | apply H; auto with arith].
  Qed.

  Lemma sumZ_ext n (f g : nat -> Z) : (forall i, (i < n)%nat -> f i = g i) -> sumZ n f = sumZ n g.
  Proof. induction n as [|n IH]; intros H; cbn; [reflexivity|]. rewrite IH, (H n) by auto with arith. reflexivity. Qed.
  Lemma sumZ_add n (f g : nat -> Z) : sumZ n (fun i => (f i + g i)%Z) = (sumZ n f + sumZ n g)%Z.
  Proof. induction n as [|n IH]; cbn; [reflexivity | rewrite IH; lia]. Qed.
  Lemma sumZ_sub n (f g : nat -> Z) : sumZ n (fun i => (f i - g i)%Z) = (sumZ n f - sumZ n g)%Z.
  Proof. induction n as [|n IH]; cbn; [reflexivity | rewrite IH; lia]. Qed.
  Lemma sumZ_scal n (f : nat -> Z) k : sumZ n (fun i => (f i * k)%Z) = (sumZ n f * k)%Z.
  Proof. induction n as [|n IH]; cbn; [reflexivity | rewrite IH; lia]. Qed.
  Lemma sumZ_zero n : sumZ n (fun _ => 0%Z) = 0%Z.
  Proof. induction n as [|n IH]; cbn; [reflexivity | rewrite IH; lia]. Qed.
End Pow.

Section Algebra.
  Context {F : Type} {o : Ops F} {Fc : FieldC o}.
  Add Field FFa : (field_c : FieldTh o).

  Variable U : nat.
  Variable cv : nat -> F.
  Variable ud : nat -> nat -> Z.
  Hypothesis cv_nz : forall j, (j < U)%nat -> cv j <> 0.

  (** pint side: conversion factors form a group homomorphism on exponent vectors *)
  Lemma conv_nz e : conv U cv e <> 0.
  Proof. apply prodn_nz. intros j Hj. apply zpow_nz. now apply cv_nz. Qed.

  Lemma conv_umul e1 e2 : conv U cv (umul e1 e2) = conv U cv e1 * conv U cv e2.
  Proof.
    unfold conv, umul. rewrite <- prodn_mul. apply prodn_ext. intros j Hj.
    apply zpow_add. now apply cv_nz.
  Qed.

  Lemma conv_udiv e1 e2 : conv U cv (udiv e1 e2) = conv U cv e1 / conv U cv e2.
  Proof.
    unfold conv, udiv.
    rewrite (prodn_ext U _ (fun j => zpow (cv j) (e1 j) * (1 / zpow (cv j) (e2 j)))).
    - rewrite prodn_mul, prodn_div1.
      + field. apply (conv_nz e2).
      + intros j Hj. apply zpow_nz. now apply cv_nz.
    - intros j Hj. rewrite zpow_sub by now apply cv_nz. field. apply zpow_nz. now apply cv_nz.
  Qed.

  Lemma conv_upow e k : conv U cv (upow e k) = zpow (conv U cv e) k.
  Proof.
    unfold conv, upow. rewrite <- prodn_zpow.
    - apply prodn_ext. intros j Hj. apply zpow_mul_exp. now apply cv_nz.
    - intros j Hj. apply zpow_nz. now apply cv_nz.
  Qed.

  Lemma conv_uone : conv U cv uone = 1.
  Proof. unfold conv, uone. cbn [zpow]. apply prodn_one. Qed.

  Lemma dimof_umul e1 e2 i : dimof U ud (umul e1 e2) i = (dimof U ud e1 i + dimof U ud e2 i)%Z.
  Proof. unfold dimof, umul. rewrite <- sumZ_add. apply sumZ_ext. intros; lia. Qed.
  Lemma dimof_udiv e1 e2 i : dimof U ud (udiv e1 e2) i = (dimof U ud e1 i - dimof U ud e2 i)%Z.
  Proof. unfold dimof, udiv. rewrite <- sumZ_sub. apply sumZ_ext. intros; lia. Qed.
  Lemma dimof_upow e k i : dimof U ud (upow e k) i = (dimof U ud e i * k)%Z.
  Proof. unfold dimof, upow. rewrite <- sumZ_scal. apply sumZ_ext. intros; lia. Qed.
  Lemma dimof_uone i : dimof U ud uone i = 0%Z.
  Proof. unfold dimof, uone. cbn. apply sumZ_zero. Qed.

  (** scale side *)
  Variable n : nat.
  Variable sc : nat -> F.
  Hypothesis sc_nz : forall i, (i < n)%nat -> sc i <> 0.

  Lemma factor_nz d : factor n sc d <> 0.
  Proof. unfold factor. apply fmul_nz; [exact f1_nz|]. apply prodn_nz. intros i Hi. apply zpow_nz. now apply sc_nz. Qed.

  Lemma factor_ext d d' : (forall i, (i < n)%nat -> d i = d' i) -> factor n sc d = factor n sc d'.
  Proof. intros H. unfold factor. f_equal. apply prodn_ext. intros i Hi. now rewrite H. Qed.

  Lemma factor_add d1 d2 : factor n sc (fun i => (d1 i + d2 i)%Z) = factor n sc d1 * factor n sc d2.
  Proof.
    unfold factor. rewrite (prodn_ext n _ (fun i => zpow (sc i) (d1 i) * zpow (sc i) (d2 i))).
    - rewrite prodn_mul. ring.
    - intros i Hi. apply zpow_add. now apply sc_nz.
  Qed.

  Lemma factor_sub d1 d2 : factor n sc (fun i => (d1 i - d2 i)%Z) = factor n sc d1 / factor n sc d2.
  Proof.
    unfold factor. rewrite (prodn_ext n _ (fun i => zpow (sc i) (d1 i) * (1 / zpow (sc i) (d2 i)))).
    - rewrite prodn_mul, prodn_div1.
      + field; repeat split; try exact f1_nz; apply prodn_nz; intros i Hi; apply zpow_nz; now apply sc_nz.
      + intros i Hi. apply zpow_nz. now apply sc_nz.
    - intros i Hi. rewrite zpow_sub by now apply sc_nz. field. apply zpow_nz. now apply sc_nz.
  Qed.

  Lemma factor_scal d k : factor n sc (fun i => (d i * k)%Z) = zpow (factor n sc d) k.
  Proof.
    unfold factor. replace (1 * prodn n (fun i => zpow (sc i) (d i))) with (prodn n (fun i => zpow (sc i) (d i))) by ring.
    rewrite <- prodn_zpow.
    - replace (1 * prodn n (fun i => zpow (sc i) (d i * k))) with (prodn n (fun i => zpow (sc i) (d i * k))) by ring.
      apply prodn_ext. intros i Hi. apply zpow_mul_exp. now apply sc_nz.
    - intros i Hi. apply zpow_nz. now apply sc_nz.
  Qed.

  Lemma factor_zero : factor n sc (fun _ => 0%Z) = 1.
  Proof. unfold factor. cbn [zpow]. rewrite prodn_one. ring. Qed.

  Ltac nzs := repeat split; first [apply conv_nz | apply factor_nz | exact f1_nz | assumption | apply zpow_nz, factor_nz].
  Notation nondim := (nondim U cv ud n sc).
  Notation dimen := (dimen U cv ud n sc).
  Notation conv := (conv U cv).
  Notation dimof := (dimof U ud).

  (** dimensionalize (nondimensionalize q) in the same unit returns the magnitude *)
  Theorem dim_nondim_same m e : dimen (nondim m e) e = m.
  Proof. unfold Units.dimen, Units.nondim. field; nzs. Qed.

  (** ... and in any unit of the same dimension it returns the same quantity
      (equal base-unit values) *)
  Theorem dim_nondim_inverse m e e' :
    (forall i, (i < n)%nat -> dimof e i = dimof e' i) ->
    base_value U cv (dimen (nondim m e) e') e' = base_value U cv m e.
  Proof.
    intros Hd. unfold Units.dimen, Units.nondim, base_value.
    rewrite (factor_ext (dimof e') (dimof e)) by (intros; symmetry; auto).
    field; nzs.
  Qed.

  Theorem nondim_dim_inverse v e : nondim (dimen v e) e = v.
  Proof. unfold Units.dimen, Units.nondim. field; nzs. Qed.

  (** the same quantity expressed in two units has one non-dimensional value *)
  Theorem nondim_unit_independent m e m' e' :
    (forall i, (i < n)%nat -> dimof e i = dimof e' i) ->
    base_value U cv m e = base_value U cv m' e' ->
    nondim m e = nondim m' e'.
  Proof.
    intros Hd Hb. unfold Units.nondim, base_value in *.
    rewrite (factor_ext (dimof e') (dimof e)) by (intros; symmetry; auto).
    replace (m / factor n sc (dimof e) * conv e) with (m * conv e / factor n sc (dimof e)) by (field; nzs).
    rewrite Hb. field; nzs.
  Qed.

  Theorem nondim_mul m1 e1 m2 e2 :
    nondim (m1 * m2) (umul e1 e2) = nondim m1 e1 * nondim m2 e2.
  Proof.
    unfold Units.nondim. rewrite conv_umul.
    rewrite (factor_ext (dimof (umul e1 e2)) (fun i => (dimof e1 i + dimof e2 i)%Z)) by (intros; apply dimof_umul).
    rewrite factor_add. field; nzs.
  Qed.

  Theorem nondim_div m1 e1 m2 e2 :
    m2 <> 0 ->
    nondim (m1 / m2) (udiv e1 e2) = nondim m1 e1 / nondim m2 e2.
  Proof.
    intros Hm. unfold Units.nondim. rewrite conv_udiv.
    rewrite (factor_ext (dimof (udiv e1 e2)) (fun i => (dimof e1 i - dimof e2 i)%Z)) by (intros; apply dimof_udiv).
    rewrite factor_sub. field; nzs.
  Qed.

  Theorem nondim_pow m e k :
    m <> 0 ->
    nondim (zpow m k) (upow e k) = zpow (nondim m e) k.
  Proof.
    intros Hm. unfold Units.nondim. rewrite conv_upow.
    rewrite (factor_ext (dimof (upow e k)) (fun i => (dimof e i * k)%Z)) by (intros; apply dimof_upow).
    rewrite factor_scal.
    replace (m / factor n sc (dimof e) * conv e) with (m * (1 / factor n sc (dimof e)) * conv e) by (field; nzs).
    rewrite !zpow_mul_base, zpow_div1_base;
      try solve [ exact Hm | apply factor_nz | apply conv_nz | apply fdiv1_nz, factor_nz
                | apply fmul_nz; [exact Hm | apply fdiv1_nz, factor_nz] ].
    field; nzs.
  Qed.

  (** a dimensionless quantity is its own non-dimensional value *)
  Theorem nondim_dimensionless m : nondim m uone = m.
  Proof.
    unfold Units.nondim. rewrite conv_uone.
    rewrite (factor_ext (dimof uone) (fun _ => 0%Z)) by (intros; apply dimof_uone).
    rewrite factor_zero. field; nzs.
  Qed.

  Lemma nondim_ext m e e' : (forall j, (j < U)%nat -> e j = e' j) -> nondim m e = nondim m e'.
  Proof.
    intros H. unfold Units.nondim.
    assert (Ec : conv e = conv e') by (apply prodn_ext; intros j Hj; now rewrite H).
    assert (Ed : forall i, dimof e i = dimof e' i) by (intros i; apply sumZ_ext; intros j Hj; now rewrite H).
    rewrite Ec, (factor_ext (dimof e) (dimof e')) by (intros; apply Ed). reflexivity.
  Qed.

  (** a rate expressed per unit [e] times the non-dimensional length of one such
      unit is the bare number: nondim(p / e) * nondim(1 e) = p  (orbital rates:
      2 pi / day times one day is a full turn) *)
  Theorem rate_times_period p e : nondim p (upow e (-1)) * nondim 1 e = p.
  Proof.
    rewrite <- nondim_mul.
    rewrite (nondim_ext _ (umul (upow e (-1)) e) uone) by (intros j Hj; unfold umul, upow, uone; lia).
    rewrite nondim_dimensionless. ring.
  Qed.

  (** the ValueError branch: a result is produced exactly when every dimension
      of the unit with non-zero exponent has a scale *)
  Lemma covers_spec has k d :
    covers has k d = true <-> forall i, (i < k)%nat -> has i = true \/ d i = 0%Z.
  Proof.
    induction k as [|k IH]; cbn.
    - split; [intros _ i Hi; lia | reflexivity].
    - rewrite Bool.andb_true_iff, IH, Bool.orb_true_iff, Z.eqb_eq. split.
      + intros [H1 H2] i Hi. destruct (Nat.eq_dec i k) as [->|Hne]; [exact H2 | apply H1; lia].
      + intros H. split; [intros i Hi; apply H; lia | apply H; lia].
  Qed.

  Theorem nondim_opt_defined has m e :
    (exists v, nondim_opt U cv ud n has sc m e = Some v) <->
    forall i, (i < n)%nat -> has i = true \/ dimof e i = 0%Z.
  Proof.
    unfold nondim_opt. rewrite <- covers_spec. destruct (covers has n (dimof e)); split; intros H; eauto.
    - destruct H as [v H]; discriminate.
    - discriminate.
  Qed.
End Algebra.

(** Phase reduction [x - floor(x/p) * p] over the reals ([Zfloor] of Flocq). *)
From Coq Require Import Reals Lra.
From Flocq Require Import Raux.
From Dino Require Import Base.Inst.

Section PhaseR.
  Local Open Scope R_scope.
  Notation reduceR := (@reduce R ROps Zfloor).
  Notation phaseR := (@phase_at R ROps Zfloor).

  Lemma reduceR_eq p x : reduceR p x = x - IZR (Zfloor (x / p)) * p.
  Proof. reflexivity. Qed.

  Theorem phase_reduced p x : 0 < p ->
    0 <= reduceR p x < p /\ exists k : Z, reduceR p x = x - IZR k * p.
  Proof.
    intros Hp. rewrite reduceR_eq. split; [|now exists (Zfloor (x / p))].
    pose proof (Zfloor_lb (x / p)) as H1. pose proof (Zfloor_ub (x / p)) as H2.
    set (k := IZR (Zfloor (x / p))) in *.
    assert (E : x = x / p * p) by (field; lra).
    split.
    - assert (k * p <= x / p * p) by (apply Rmult_le_compat_r; lra). lra.
    - assert (x / p * p < (k + 1) * p) by (apply Rmult_lt_compat_r; lra). lra.
  Qed.

  (** the reduced phase is the only representative of x modulo p in [0, p) *)
  Theorem phase_unique p x y (k : Z) : 0 < p -> 0 <= y < p -> x - y = IZR k * p -> y = reduceR p x.
  Proof.
    intros Hp Hy E. rewrite reduceR_eq.
    assert (F : Zfloor (x / p) = k).
    { apply Zfloor_imp. rewrite plus_IZR. simpl.
      replace (x / p) with (IZR k + y / p) by (replace x with (y + IZR k * p) by lra; field; lra).
      assert (0 <= y / p < 1).
      { split; [apply Rmult_le_pos; [lra | left; now apply Rinv_0_lt_compat]|].
        apply Rmult_lt_reg_r with p; [exact Hp|]. replace (y / p * p) with y by (field; lra). lra. }
      lra. }
    rewrite F. lra.
  Qed.

  Theorem phase_period p x (k : Z) : 0 < p -> reduceR p (x + IZR k * p) = reduceR p x.
  Proof.
    intros Hp. symmetry.
    destruct (phase_reduced p x Hp) as (Hr & k0 & Ek).
    apply (phase_unique p (x + IZR k * p) (reduceR p x) (k0 + k) Hp Hr).
    rewrite plus_IZR, Ek. ring.
  Qed.

  (** [time_to_orbital_time]: advancing the time by dt advances the phase by
      rate * dt, modulo the period *)
  Theorem phase_advance p ref rate t dt : 0 < p ->
    phaseR p ref rate (t + dt) = reduceR p (phaseR p ref rate t + rate * dt).
  Proof.
    intros Hp. unfold phase_at.
    destruct (phase_reduced p (@fadd R ROps ref (@fmul R ROps rate t)) Hp) as (_ & k & Ek).
    rewrite Ek. cbn [fadd fmul ROps].
    replace (ref + rate * t - IZR k * p + rate * dt) with (ref + rate * (t + dt) + IZR (- k) * p)
      by (rewrite opp_IZR; ring).
    now rewrite phase_period.
  Qed.

  (** elapsed time of one full period (rate * dt = k * p) returns the same phase *)
  Theorem phase_full_turns p ref rate t dt (k : Z) : 0 < p -> rate * dt = IZR k * p ->
    phaseR p ref rate (t + dt) = phaseR p ref rate t.
  Proof.
    intros Hp E. unfold phase_at. cbn [fadd fmul ROps].
    replace (ref + rate * (t + dt)) with (ref + rate * t + IZR k * p) by (rewrite <- E; ring).
    now apply phase_period.
  Qed.
End PhaseR.
