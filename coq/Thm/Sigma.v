(** Theorems about the sigma-coordinate model (property C13), for every
    field, every layer count K and every boundary list. *)
From Dino Require Import Base.Ops Base.Sums Base.Ord Model.Sigma.
Local Open Scope F_scope.

Section SigmaThm.
  Context {F : Type} {o : Ops F} {Fc : FieldC o}.
  Add Field FFs : (field_c : FieldTh o).
  Hypothesis two_nz : two <> 0.

  Lemma ind_true : ind true = 1. Proof. reflexivity. Qed.
  Lemma ind_false : ind false = 0. Proof. reflexivity. Qed.

  (** *** cumulative sums: all strategies agree *)
  Lemma cumsum_dot_seq K (x : nat -> F) j : (j < K)%nat -> cumsum_dot K x j = cumsum_seq x j.
  Proof.
    intros Hj. unfold cumsum_dot, cumsum_seq.
    rewrite <- (sumn_prefix_mask K (S j) x) by lia.
    apply (sumn_ext). intros i Hi.
    destruct (Nat.leb_spec i j), (Nat.ltb_spec i (S j)); try lia; cbn; ring.
  Qed.

  (** suffix sums *)
  Lemma revcumsum_dot_step K (y : nat -> F) j :
    (j < K)%nat -> revcumsum_dot K y j = y j + revcumsum_dot K y (S j).
  Proof.
    intros Hj. unfold revcumsum_dot.
    rewrite <- (sumn_delta_l K j y Hj) at 1.
    rewrite <- (sumn_add).
    apply (sumn_ext). intros i Hi. unfold delta.
    destruct (Nat.leb_spec j i), (Nat.eqb_spec j i), (Nat.leb_spec (S j) i); try lia; cbn; ring.
  Qed.

  Lemma revcumsum_dot_out K (y : nat -> F) j : (K <= j)%nat -> revcumsum_dot K y j = 0.
  Proof.
    intros Hj. unfold revcumsum_dot. apply (sumn_zero). intros i Hi.
    destruct (Nat.leb_spec j i); try lia. cbn. ring.
  Qed.

  Lemma revcumsum_seq_step K (y : nat -> F) j :
    (S j < K)%nat -> revcumsum_seq K y j = y j + revcumsum_seq K y (S j).
  Proof.
    intros Hj. unfold revcumsum_seq.
    replace (K - 1 - j)%nat with (S (K - 1 - S j)) by lia.
    cbn [sumn]. replace (K - 1 - S (K - 1 - S j))%nat with j by lia. ring.
  Qed.

  Lemma revcumsum_dot_seq K (y : nat -> F) j : (j < K)%nat -> revcumsum_dot K y j = revcumsum_seq K y j.
  Proof.
    intros Hj.
    remember (K - 1 - j)%nat as d eqn:Hd. revert j Hj Hd.
    induction d as [|d IH]; intros j Hj Hd.
    - assert (j = K - 1)%nat by lia. subst j.
      rewrite revcumsum_dot_step by lia. rewrite revcumsum_dot_out by lia.
      unfold revcumsum_seq. replace (K - 1 - (K - 1))%nat with 0%nat by lia. cbn.
      replace (K - 1 - 0)%nat with (K - 1)%nat by lia. ring.
    - rewrite revcumsum_dot_step by lia. rewrite revcumsum_seq_step by lia.
      rewrite (IH (S j)) by lia. reflexivity.
  Qed.

  Theorem cumsum_methods_agree K (x : nat -> F) j (d1 d2 : bool) :
    (j < K)%nat ->
    cumsum_m d1 K x j = cumsum_m d2 K x j /\ revcumsum_m d1 K x j = revcumsum_m d2 K x j.
  Proof.
    intros Hj. split; destruct d1, d2; cbn; try reflexivity;
      try (now apply cumsum_dot_seq); try (symmetry; now apply cumsum_dot_seq);
      try (now apply revcumsum_dot_seq); symmetry; now apply revcumsum_dot_seq.
  Qed.

  (** *** cumulative integrals end at the total; down + up = total + local *)
  Lemma cumsum_seq_last K (y : nat -> F) : (0 < K)%nat -> cumsum_seq y (K - 1) = sumn K y.
  Proof. intros HK. unfold cumsum_seq. now replace (S (K - 1)) with K by lia. Qed.

  Lemma revcumsum_dot_first K (y : nat -> F) : revcumsum_dot K y 0 = sumn K y.
  Proof. unfold revcumsum_dot. apply (sumn_ext). intros i Hi. cbn. ring. Qed.

  Lemma down_plus_up_dot K (y : nat -> F) j :
    (j < K)%nat -> cumsum_dot K y j + revcumsum_dot K y j = sumn K y + y j.
  Proof.
    intros Hj. unfold cumsum_dot, revcumsum_dot.
    rewrite <- (sumn_add).
    rewrite <- (sumn_delta_l K j y Hj).
    rewrite <- (sumn_add).
    apply (sumn_ext). intros i Hi. unfold delta.
    destruct (Nat.leb_spec i j), (Nat.leb_spec j i), (Nat.eqb_spec j i); try lia; cbn; ring.
  Qed.

  Theorem cumint_last_is_total (dot : bool) K (b x : nat -> F) :
    (0 < K)%nat ->
    cum_sigma_integral dot true K b x (K - 1) = sigma_integral K b x /\
    cum_sigma_integral dot false K b x 0 = sigma_integral K b x.
  Proof.
    intros HK. unfold cum_sigma_integral, sigma_integral. split.
    - destruct (cumsum_methods_agree K (xdsigma b x) (K - 1) dot false ltac:(lia)) as [-> _].
      cbn. now apply cumsum_seq_last.
    - destruct (cumsum_methods_agree K (xdsigma b x) 0 dot true ltac:(lia)) as [_ ->].
      cbn. apply revcumsum_dot_first.
  Qed.

  Theorem down_plus_up (d1 d2 : bool) K (b x : nat -> F) j :
    (j < K)%nat ->
    cum_sigma_integral d1 true K b x j + cum_sigma_integral d2 false K b x j
    = sigma_integral K b x + x j * thickness b j.
  Proof.
    intros Hj. unfold cum_sigma_integral, sigma_integral.
    destruct (cumsum_methods_agree K (xdsigma b x) j d1 true Hj) as [-> _].
    destruct (cumsum_methods_agree K (xdsigma b x) j d2 true Hj) as [_ ->].
    cbn. now rewrite down_plus_up_dot.
  Qed.

  (** *** centred differences are exact on affine profiles *)
  Theorem centered_difference_affine (b x : nat -> F) (a c : F) k :
    c2c b k <> 0 ->
    x k = a * centers b k + c -> x (S k) = a * centers b (S k) + c ->
    centered_difference b x k = a.
  Proof.
    intros Hc H0 H1. unfold centered_difference. rewrite H0, H1.
    unfold c2c in *. field. exact Hc.
  Qed.

  (** [center_to_center] is half the sum of the adjacent thicknesses. *)
  Lemma c2c_thickness (b : nat -> F) k : thickness b k + thickness b (S k) = two * c2c b k.
  Proof. unfold thickness, c2c, centers. field. exact two_nz. Qed.

  (** *** summation by parts for centred vertical advection *)
  Lemma sum_pairs m (a g : nat -> F) :
    g 0%nat = 0 -> g (S m) = 0 ->
    sumn (S m) (fun n => a n * (g (S n) + g n)) = sumn m (fun n => (a n + a (S n)) * g (S n)).
  Proof.
    intros G0 GK.
    rewrite (sumn_ext (S m) _ (fun n => a n * g (S n) + a n * g n)) by (intros; ring).
    rewrite (sumn_add).
    rewrite (sumn_S_first m (fun n => a n * g n)). rewrite G0.
    change (sumn (S m) (fun n => a n * g (S n))) with (sumn m (fun n => a n * g (S n)) + a m * g (S m)).
    rewrite GK.
    rewrite (sumn_ext m (fun n => (a n + a (S n)) * g (S n)) (fun n => a n * g (S n) + a (S n) * g (S n))) by (intros; ring).
    rewrite (sumn_add). ring.
  Qed.

  Lemma pad_tb_0 K t bt (v : nat -> F) : pad_tb K t bt v 0 = t.
  Proof. reflexivity. Qed.
  Lemma pad_tb_K K t bt (v : nat -> F) : (0 < K)%nat -> pad_tb K t bt v K = bt.
  Proof. intros. unfold pad_tb. destruct (Nat.eqb_spec K 0); [lia|]. destruct (Nat.ltb_spec K K); [lia|reflexivity]. Qed.
  Lemma pad_tb_mid K t bt (v : nat -> F) n : (S n < K)%nat -> pad_tb K t bt v (S n) = v n.
  Proof.
    intros. unfold pad_tb. cbn [Nat.eqb]. destruct (Nat.ltb_spec (S n) K); [|lia].
    f_equal. lia.
  Qed.

  Theorem advection_sbp K (b w x : nat -> F) (dt db : F) :
    (0 < K)%nat ->
    (forall k, (S k < K)%nat -> c2c b k <> 0) ->
    sumn K (fun n => thickness b n * centered_vertical_advection K b w x 0 0 dt db n)
    = sumn K (fun n => x n * (pad_tb K 0 0 w (S n) - pad_tb K 0 0 w n)).
  Proof.
    intros HK Hc. destruct K as [|m]; [lia|].
    unfold centered_vertical_advection.
    set (wp := pad_tb (S m) 0 0 w).
    set (dp := pad_tb (S m) dt db (centered_difference b x)).
    set (g := fun k => wp k * dp k).
    assert (G0 : g 0%nat = 0) by (unfold g, wp; rewrite pad_tb_0; ring).
    assert (GK : g (S m) = 0) by (unfold g, wp; rewrite pad_tb_K by lia; ring).
    rewrite (sumn_ext (S m) _ (fun n => (- half) * (thickness b n * (g (S n) + g n)))) by (intros; unfold g; ring).
    rewrite (sumn_scal_l). rewrite (sum_pairs m (thickness b) g G0 GK).
    (* left side: - sum_j w j (x (j+1) - x j) *)
    rewrite (sumn_ext m _ (fun n => two * (w n * (x (S n) - x n)))).
    2:{ intros n Hn. rewrite c2c_thickness. unfold g, wp, dp.
        rewrite !pad_tb_mid by lia. unfold centered_difference. field. apply Hc. lia. }
    rewrite (sumn_scal_l).
    (* right side *)
    rewrite (sumn_ext (S m) (fun n => x n * (wp (S n) - wp n)) (fun n => x n * wp (S n) - x n * wp n)) by (intros; ring).
    rewrite (sumn_sub).
    rewrite (sumn_S_first m (fun n => x n * wp n)).
    change (sumn (S m) (fun n => x n * wp (S n))) with (sumn m (fun n => x n * wp (S n)) + x m * wp (S m)).
    assert (W0 : wp 0%nat = 0) by (unfold wp; apply pad_tb_0).
    assert (WK : wp (S m) = 0) by (unfold wp; apply pad_tb_K; lia).
    rewrite W0, WK.
    rewrite (sumn_ext m (fun n => x n * wp (S n)) (fun n => x n * w n)) by (intros n Hn; unfold wp; rewrite pad_tb_mid by lia; reflexivity).
    rewrite (sumn_ext m (fun n => x (S n) * wp (S n)) (fun n => x (S n) * w n)) by (intros n Hn; unfold wp; rewrite pad_tb_mid by lia; reflexivity).
    rewrite (sumn_ext m (fun n => w n * (x (S n) - x n)) (fun n => x (S n) * w n - x n * w n)) by (intros; ring).
    rewrite (sumn_sub). unfold half. field. exact two_nz.
  Qed.

  (** *** geopotential operator = R * trapezoid rule in log sigma *)
  Lemma geo_dense_step K R (ls T : nat -> F) j :
    (S j < K)%nat ->
    geo_diff_dense K R ls T j
    = R * (alpha K ls j * (T j + T (S j))) + geo_diff_dense K R ls T (S j).
  Proof.
    intros Hj. unfold geo_diff_dense.
    assert (E : forall k, (k < K)%nat ->
              geo_weights K R ls j k * T k
              = R * alpha K ls j * (delta j k * T k) + R * alpha K ls j * (delta (S j) k * T k)
                + geo_weights K R ls (S j) k * T k).
    { intros k Hk. unfold geo_weights, delta.
      destruct (Nat.eqb_spec j k), (Nat.eqb_spec (S j) k), (Nat.ltb_spec j k), (Nat.ltb_spec (S j) k); try lia; subst.
      - ring.
      - replace (S j - 1)%nat with j by lia. ring.
      - ring.
      - ring. }
    rewrite (sumn_ext K _ _ E).
    rewrite !(sumn_add), !(sumn_scal_l).
    rewrite (sumn_delta_l) by lia. rewrite (sumn_delta_l) by lia. ring.
  Qed.

  Lemma geo_dense_last K R (ls T : nat -> F) :
    (0 < K)%nat -> geo_diff_dense K R ls T (K - 1) = R * (alpha K ls (K - 1) * T (K - 1)%nat).
  Proof.
    intros HK. unfold geo_diff_dense.
    rewrite (sumn_ext K _ (fun k => R * alpha K ls (K - 1) * (delta (K - 1) k * T k))).
    - rewrite (sumn_scal_l), (sumn_delta_l) by lia. ring.
    - intros k Hk. unfold geo_weights, delta.
      destruct (Nat.eqb_spec (K - 1) k), (Nat.ltb_spec (K - 1) k); try lia; ring.
  Qed.

  Definition log_xd K (ls T : nat -> F) (k : nat) : F := log_integrand K T k * dlog K ls k.

  Lemma log_xd_mid K ls T k : (S k < K)%nat -> log_xd K ls T k = alpha K ls k * (T k + T (S k)).
  Proof.
    intros H. unfold log_xd, log_integrand, dlog, alpha.
    destruct (Nat.ltb_spec (S k) K); [|lia]. field. exact two_nz.
  Qed.
  Lemma log_xd_last K ls T : (0 < K)%nat -> log_xd K ls T (K - 1) = alpha K ls (K - 1) * T (K - 1)%nat.
  Proof.
    intros H. unfold log_xd, log_integrand, dlog, alpha.
    destruct (Nat.ltb_spec (S (K - 1)) K); [lia|]. ring.
  Qed.

  Theorem geopotential_is_trapezoid (dot : bool) K R (ls T : nat -> F) j :
    (j < K)%nat ->
    geo_diff_dense K R ls T j = R * cum_log_sigma_integral dot false K ls T j.
  Proof.
    intros Hj. unfold cum_log_sigma_integral. fold (log_xd K ls T).
    destruct (cumsum_methods_agree K (log_xd K ls T) j dot true Hj) as [_ ->]. cbn.
    remember (K - 1 - j)%nat as d eqn:Hd. revert j Hj Hd.
    induction d as [|d IH]; intros j Hj Hd.
    - assert (j = K - 1)%nat by lia. subst j.
      rewrite geo_dense_last by lia. rewrite revcumsum_dot_step by lia.
      rewrite revcumsum_dot_out by lia. rewrite log_xd_last by lia. ring.
    - rewrite geo_dense_step by lia. rewrite revcumsum_dot_step by lia.
      rewrite (IH (S j)) by lia. rewrite log_xd_mid by lia. ring.
  Qed.

  (** the cumulative-sum ("sparse") form of the geopotential operator *)
  Theorem geo_sparse_eq_dense K R (ls T : nat -> F) j :
    (j < K)%nat -> geo_diff_sparse K R ls T j = geo_diff_dense K R ls T j.
  Proof.
    intros Hj. unfold geo_diff_sparse, geo_diff_dense, revcumsum_dot.
    rewrite <- (sumn_delta_l K j (fun j => (R * alpha K ls j - (if Nat.eqb j 0 then 0 else R * alpha K ls j + R * alpha K ls (j - 1)%nat)) * T j) Hj).
    rewrite <- (sumn_add).
    apply (sumn_ext). intros k Hk. unfold geo_weights, delta.
    destruct (Nat.leb_spec j k), (Nat.eqb_spec j k), (Nat.ltb_spec j k), (Nat.eqb_spec k 0); try lia; subst; cbn; ring.
  Qed.

  (** *** rejection of bad level sets (order part is stated over the boolean tests) *)
  Lemma all_increasing_spec n (b : nat -> F) :
    all_increasing n b = true <-> forall k, (k < n)%nat -> fltb (b k) (b (S k)) = true.
  Proof.
    induction n as [|n IH]; cbn.
    - split; [intros _ k Hk; lia | auto].
    - rewrite andb_true_iff, IH. split.
      + intros [H1 H2] k Hk. destruct (Nat.eq_dec k n) as [->|]; [exact H2|apply H1; lia].
      + intros H. split; [intros k Hk; apply H; lia | apply H; lia].
  Qed.

  Theorem rejects_bad_levels tol0 tol1 K (b : nat -> F) :
    sigma_accepts tol0 tol1 K b = true <->
    (fleb (fabs (b 0%nat)) tol0 = true /\ fleb (fabs (b K - 1)) tol1 = true /\
     forall k, (k < K)%nat -> fleb (b (S k)) (b k) = false).
  Proof.
    unfold sigma_accepts. rewrite !andb_true_iff, all_increasing_spec.
    unfold fltb. split.
    - intros [[H1 H2] H3]. repeat split; auto. intros k Hk. apply negb_true_iff. auto.
    - intros (H1 & H2 & H3). repeat split; auto. intros k Hk. apply negb_true_iff. auto.
  Qed.
End SigmaThm.
