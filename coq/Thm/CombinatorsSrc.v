(** The arithmetic of the accumulation / digital-filter-initialisation combinators in
    Model/Combinators.v (and the sim_time round-off fix of Model/Invariants.v) is the code of
    dinosaur/time_integration.py: each expression equals its transcription regenerated from the
    AST on every run (Gen/CombinatorsSrc.v, tools/translate/gen_combinators.py). *)
From Dino Require Import Base.Ops Base.Sums Base.Ord Model.Filters Model.Combinators Model.Invariants Gen.CombinatorsSrc.
Local Open Scope F_scope.

Section CombinatorsSrcThm.
  Context {F : Type} {o : Ops F} {Fc : FieldC o}.
  Add Field FFcsrc : (field_c : FieldTh o).

  Lemma two_fnat_c : (fnat 2 : F) = Combinators.two.
  Proof. unfold Combinators.two. cbn [fnat]. ring. Qed.

  (** accumulate_repeated: the leafwise update of the model is the transcribed lambda *)
  Lemma acc_update_matches_source (step_fn : V -> V) (weights : list F) (state : V) :
    accumulate_repeated step_fn weights state =
    snd (fst (scan (fun (carry : V * V) weight =>
                      let state' := step_fn (fst carry) in
                      ((state', map2 (fun s a => acc_update_src a weight s) state' (snd carry)), tt))
                   (state, zeros_like state) weights)).
  Proof. reflexivity. Qed.

  (** digital_filter_initialization: weights of the model's [dfi] are the transcribed ones *)
  Lemma dfi_matches_source (ode_solver : ImEx -> F -> V -> V) (equation : ImEx)
        (filters : list (V -> V -> V)) (weights : list F) (dt : F) (state : V) :
    dfi ode_solver equation filters weights dt state =
    let forward_step := step_with_filters (ode_solver equation dt) filters in
    let backward_step := step_with_filters (ode_solver (time_reversed equation) dt) filters in
    let total_weight := dfi_total_weight_src (vsum weights) in
    let init_weight := dfi_init_weight_src / total_weight in
    let weights' := map (fun w => w / total_weight) weights in
    let init_term := map (fun x => dfi_init_term_src x init_weight) state in
    let forward_term := accumulate_repeated forward_step weights' state in
    let backward_term := accumulate_repeated backward_step weights' state in
    map2 (fun ab c => ab + c) (map2 (fun a b => 0 + a + b) init_term forward_term) backward_term.
  Proof.
    unfold dfi, dfi_total_weight_src, dfi_init_weight_src, dfi_init_term_src. rewrite two_fnat_c. reflexivity.
  Qed.

  (** the final python [sum] over the three terms, as the model nests it *)
  Lemma dfi_sum3_matches_source (a b c : F) : (0 + a + b) + c = dfi_sum3_src a b c.
  Proof. reflexivity. Qed.

  (** _dfi_lanczos_weights: the documented arguments *)
  Lemma lanczos_args_match_documentation (n nn time_span cutoff_period dt : F) :
    dfi_round_arg_src time_span dt = time_span / (Combinators.two * dt) /\
    dfi_sinc1_arg_src n nn = n / (nn + 1) /\
    dfi_sinc2_arg_src n nn time_span cutoff_period = n * time_span / (cutoff_period * nn).
  Proof. unfold dfi_round_arg_src, dfi_sinc1_arg_src, dfi_sinc2_arg_src. rewrite two_fnat_c. repeat split. Qed.

  (** maybe_fix_sim_time_roundoff *)
  Lemma fix_time_matches_source (rnd : F -> Z) (dt t : F) :
    fix_time rnd dt t = fix_time_src (fun x => fofZ (rnd x)) dt t.
  Proof. reflexivity. Qed.
End CombinatorsSrcThm.

Lemma gen_combinators_complete : gen_combinators_ok = true.
Proof. reflexivity. Qed.
