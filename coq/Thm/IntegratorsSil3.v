(** C06: A-stability of the SIL3 implicit part, for all dt >= 0 and Re z <= 0. *)
From Dino Require Import Base.Ops Base.Inst Gen.Tableaux Model.Integrators Thm.Integrators Thm.IntegratorsStab Thm.IntegratorsArk.
From Coq Require Import Reals Lra Lia Qreals Psatz.
From Coquelicot Require Import Complex.

(** * additive RK steps commute with module homomorphisms that commute with F, G, G_inv *)
Section ArkHom.
  Context {F : Type} {o : Ops F} {V1 V2 : Type} {vo1 : VOps F V1} {vo2 : VOps F V2}.
  Variable phi : V1 -> V2.
  Hypothesis phi_add : forall x y, phi (vadd x y) = vadd (phi x) (phi y).
  Hypothesis phi_scal : forall c x, phi (vscal c x) = vscal c (phi x).
  Hypothesis phi_zero : phi vzero = vzero.
  Variable Fx1 G1 : V1 -> V1.
  Variable Ginv1 : V1 -> F -> V1.
  Variable Fx2 G2 : V2 -> V2.
  Variable Ginv2 : V2 -> F -> V2.
  Hypothesis phi_F : forall x, phi (Fx1 x) = Fx2 (phi x).
  Hypothesis phi_G : forall x, phi (G1 x) = G2 (phi x).
  Hypothesis phi_Ginv : forall x eta, phi (Ginv1 x eta) = Ginv2 (phi x) eta.

  Lemma wsum_hom : forall cs xs acc, phi (wsum cs xs acc) = wsum cs (map phi xs) (phi acc).
  Proof.
    induction cs as [|c cs IH]; intros xs acc; [reflexivity|].
    destruct xs as [|x xs]; [reflexivity|]. cbn [wsum map]. rewrite IH, phi_add, phi_scal. reflexivity.
  Qed.

  Lemma wsum_hom0 cs xs : wsum cs (map phi xs) vzero = phi (wsum cs xs vzero).
  Proof. now rewrite wsum_hom, phi_zero. Qed.

  Lemma ark_stages_hom dt y0 : forall rex rim i fs gs,
    ark_stages Fx2 G2 Ginv2 dt (phi y0) i rex rim (map phi fs) (map phi gs) =
    (map phi (fst (ark_stages Fx1 G1 Ginv1 dt y0 i rex rim fs gs)),
     map phi (snd (ark_stages Fx1 G1 Ginv1 dt y0 i rex rim fs gs))).
  Proof.
    induction rex as [|re rex IH]; intros rim i fs gs; [reflexivity|].
    destruct rim as [|ri rim]; [reflexivity|].
    cbn [ark_stages]. cbv zeta.
    rewrite !wsum_hom0, <- !phi_scal, <- !phi_add, <- phi_Ginv, <- phi_F, <- phi_G.
    match goal with |- ark_stages _ _ _ _ _ _ _ _ (map phi fs ++ [phi ?a]) (map phi gs ++ [phi ?b]) = _ =>
      replace (map phi fs ++ [phi a]) with (map phi (fs ++ [a])) by (now rewrite map_app);
      replace (map phi gs ++ [phi b]) with (map phi (gs ++ [b])) by (now rewrite map_app)
    end.
    apply IH.
  Qed.

  Theorem ark_step_hom dt a_ex a_im b_ex b_im y0 :
    ark_step Fx2 G2 Ginv2 dt a_ex a_im b_ex b_im (phi y0) =
    phi (ark_step Fx1 G1 Ginv1 dt a_ex a_im b_ex b_im y0).
  Proof.
    unfold ark_step.
    pose proof (ark_stages_hom dt y0 a_ex a_im 1 [Fx1 y0] [G1 y0]) as H.
    cbn [map] in H. rewrite phi_F, phi_G in H. rewrite H.
    destruct (ark_stages Fx1 G1 Ginv1 dt y0 1 a_ex a_im [Fx1 y0] [G1 y0]) as [fs gs]. cbn [fst snd].
    now rewrite !wsum_hom0, <- !phi_scal, <- !phi_add.
  Qed.
End ArkHom.

Local Open Scope R_scope.

(** * complex scalar problems are linear in the initial value: step(u) = r * u *)
Lemma Gz_one u : Gz (1, 0) u = u.
Proof. destruct u; unfold Gz; cbn. f_equal; ring. Qed.
Lemma nsq_Gz s u : nsq (Gz s u) = nsq s * nsq u.
Proof. destruct s, u; unfold nsq, Gz; cbn. ring. Qed.

Lemma ark_step_linear z dt a_ex a_im b_ex b_im u :
  ark_step (o := ROps) (vo := CVOps) F0 (Gz z) (Ginvz z) dt a_ex a_im b_ex b_im u =
  Gz (ark_step (o := ROps) (vo := CVOps) F0 (Gz z) (Ginvz z) dt a_ex a_im b_ex b_im (1, 0)) u.
Proof.
  rewrite <- (Gz_one u) at 1.
  apply (ark_step_hom (fun s => Gz s u)).
  - intros [a b] [c d]; destruct u; unfold Gz; cbn; f_equal; ring.
  - intros c [a b]; destruct u; unfold Gz; cbn; f_equal; ring.
  - destruct u; unfold Gz; cbn; f_equal; ring.
  - intros [a b]; destruct u; unfold Gz, F0; cbn; f_equal; ring.
  - intros [a b]; destruct u, z; unfold Gz; cbn; f_equal; ring.
  - intros [a b] eta; destruct u, z; unfold Gz, Ginvz, Rdiv; cbn; f_equal; ring.
Qed.

Definition RL (l : list Q) : list R := map Q2R l.
Definition RLL (l : list (list Q)) : list (list R) := map (map Q2R) l.
Definition sil3_r (z : Cplx) (dt : R) : Cplx :=
  ark_step (o := ROps) (vo := CVOps) F0 (Gz z) (Ginvz z) dt
    (RLL sil3_a_ex) (RLL sil3_a_im) (RL sil3_b_ex) (RL sil3_b_im) (1, 0).


(** * bridge to the complex field of Coquelicot (same representation R * R) *)
Lemma vadd_C (a b : Cplx) : vadd a b = Cplus a b.
Proof. reflexivity. Qed.
Lemma vscal_C (c : R) (a : Cplx) : vscal c a = Cmult (RtoC c) a.
Proof. destruct a. unfold Cmult, RtoC. cbn. f_equal; ring. Qed.
Lemma Gz_C (z u : Cplx) : Gz z u = Cmult z u.
Proof. reflexivity. Qed.
Lemma Ginvz_C (z u : Cplx) (eta : R) : Dz z eta <> 0 ->
  Ginvz z u eta = Cdiv u (Cminus (RtoC 1) (Cmult (RtoC eta) z)).
Proof.
  intros H. destruct z as [x y], u as [a b].
  unfold Ginvz, Cdiv, Cmult, Cinv, Cminus, Cplus, Copp, RtoC, Dz in *. cbn [fst snd] in *.
  assert (E : ((1 + - (eta * x - 0 * y)) ^ 2 + (0 + - (eta * y + 0 * x)) ^ 2
               = (1 - eta * x) * (1 - eta * x) + eta * y * (eta * y))%R) by ring.
  f_equal; field; intro E2; apply H; rewrite <- E2; ring.
Qed.

(** numerals: rationals as complex field expressions over 1, +, *, / *)
Local Open Scope C_scope.
Fixpoint CofPos (p : positive) : C :=
  match p with
  | xH => 1
  | xO p => (1 + 1) * CofPos p
  | xI p => 1 + (1 + 1) * CofPos p
  end.
Definition CofZ (z : Z) : C :=
  match z with Z0 => 0 | Zpos p => CofPos p | Zneg p => - CofPos p end.
Lemma CofPos_ok p : CofPos p = RtoC (IZR (Zpos p)).
Proof.
  induction p as [p IH|p IH|]; cbn [CofPos]; try rewrite IH.
  - rewrite Pos2Z.inj_xI, plus_IZR, mult_IZR. unfold RtoC, Cplus, Cmult. cbn [fst snd]. f_equal; ring.
  - rewrite Pos2Z.inj_xO, mult_IZR. unfold RtoC, Cplus, Cmult. cbn [fst snd]. f_equal; ring.
  - reflexivity.
Qed.
Lemma CofZ_ok z : CofZ z = RtoC (IZR z).
Proof.
  destruct z as [|p|p]; cbn [CofZ]; [reflexivity|apply CofPos_ok|].
  rewrite CofPos_ok. change (Zneg p) with (- Zpos p)%Z. rewrite opp_IZR.
  unfold RtoC, Copp. cbn [fst snd]. f_equal; ring.
Qed.
Lemma RtoC_Q2R q : RtoC (Q2R q) = CofZ (Qnum q) / CofPos (Qden q).
Proof.
  unfold Q2R. rewrite RtoC_mult, RtoC_inv, CofZ_ok, CofPos_ok; [reflexivity|].
  apply not_0_IZR. lia.
Qed.

Lemma C_nonzero_re (c : C) : fst c <> 0%R -> c <> 0.
Proof. intros H E. apply H. rewrite E. reflexivity. Qed.

(** * the implicit stability function of the generated SIL3 tableau *)
Lemma sil3_r_closed z dt : (0 <= dt)%R -> (fst z <= 0)%R ->
  let w := RtoC dt * z in
  sil3_r z dt = (CofPos 12 + CofPos 5 * w) / ((w - CofPos 3) * (w - CofPos 4)).
Proof.
  intros Hd Hx w.
  unfold sil3_r, ark_step, RLL, RL, sil3_a_ex, sil3_a_im, sil3_b_ex, sil3_b_im.
  cbn [map ark_stages wsum nth app].
  unfold F0.
  assert (HD : forall c : Q, (0 <= c)%Q -> Dz z (dt * Q2R c)%R <> 0%R).
  { intros c Hc. apply Qle_Rle in Hc. replace (Q2R 0) with 0%R in Hc by (unfold Q2R; cbn; lra).
    pose proof (Dz_ge_1 z (dt * Q2R c)%R (Rmult_le_pos _ _ Hd Hc) Hx). lra. }
  change (@fmul R ROps) with Rmult.
  rewrite !Ginvz_C by (apply HD; vm_compute; discriminate).
  repeat rewrite vscal_C.
  change (@vadd R Cplx CVOps) with Cplus. change Gz with Cmult.
  change (@vzero R Cplx CVOps) with (RtoC 0). change ((1, 0)%R : Cplx) with (RtoC 1).
  change ((0, 0)%R : Cplx) with (RtoC 0).
  repeat rewrite RtoC_mult. repeat rewrite RtoC_Q2R. cbn [CofZ CofPos Qnum Qden].
  subst w.
  match goal with |- ?a = ?b => change (@eq C a b) end.
  field.
  destruct z as [x y]. cbn [fst] in Hx.
  assert (Hxd : (dt * x <= 0)%R) by nra.
  repeat match goal with |- _ /\ _ => split end;
    apply C_nonzero_re; unfold Cminus, Cplus, Copp, Cmult, RtoC; cbn [fst snd]; lra.
Qed.

(** |D|^2 - |N|^2 = t^4 + 14 t^3 + 48 t^2 + 288 t + 2 t^2 s + 14 t s + s^2 with
    t = - Re w >= 0 and s = (Im w)^2 >= 0: only non-negative coefficients. *)
Lemma sil3_certificate (X Y : R) : (X <= 0)%R ->
  ((12 + 5 * X) * (12 + 5 * X) + (5 * Y) * (5 * Y)
   <= ((X - 3) * (X - 3) + Y * Y) * ((X - 4) * (X - 4) + Y * Y))%R.
Proof.
  intros HX. set (t := (- X)%R). set (s := (Y * Y)%R).
  assert (Ht : (0 <= t)%R) by (unfold t; lra).
  assert (Hs : (0 <= s)%R) by (unfold s; apply Rle_0_sqr).
  match goal with |- (?L <= ?Rr)%R =>
    replace Rr with (L + (t*t*t*t + 14*(t*t*t) + 48*(t*t) + 288*t + 2*(t*t*s) + 14*(t*s) + s*s))%R
      by (unfold t, s; ring)
  end.
  clearbody t s.
  assert (0 <= t*t*t*t + 14*(t*t*t) + 48*(t*t) + 288*t + 2*(t*t*s) + 14*(t*s) + s*s)%R; [|lra].
  repeat apply Rplus_le_le_0_compat; repeat apply Rmult_le_pos; try assumption; lra.
Qed.


Lemma nsq_Cmult (a b : C) : nsq (a * b) = (nsq a * nsq b)%R.
Proof. apply (nsq_Gz a b). Qed.

Lemma nsq_Cdiv_le (N D : C) : (0 < nsq D)%R -> (nsq N <= nsq D)%R -> (nsq (N / D)%C <= 1)%R.
Proof.
  intros HD HN.
  assert (D <> 0) by (intros ->; unfold nsq in HD; cbn in HD; lra).
  assert (E : N / D * D = N) by (field; assumption).
  apply (f_equal nsq) in E. rewrite nsq_Cmult in E.
  apply (Rmult_le_reg_r (nsq D)); [exact HD|]. rewrite E. lra.
Qed.

Lemma sil3_r_bound z dt : (0 <= dt)%R -> (fst z <= 0)%R -> (nsq (sil3_r z dt) <= 1)%R.
Proof.
  intros Hd Hx. rewrite (sil3_r_closed z dt Hd Hx). cbv zeta.
  destruct z as [x y]. cbn [fst] in Hx.
  set (X := (dt * x)%R). set (Y := (dt * y)%R).
  assert (HX : (X <= 0)%R) by (unfold X; nra).
  assert (EN : nsq (CofPos 12 + CofPos 5 * (RtoC dt * (x, y)))
               = ((12 + 5 * X) * (12 + 5 * X) + (5 * Y) * (5 * Y))%R)
    by (cbn [CofPos]; unfold nsq, Cmult, Cplus, RtoC, X, Y; cbn [fst snd]; ring).
  assert (ED : nsq ((RtoC dt * (x, y) - CofPos 3) * (RtoC dt * (x, y) - CofPos 4))
               = (((X - 3) * (X - 3) + Y * Y) * ((X - 4) * (X - 4) + Y * Y))%R)
    by (cbn [CofPos]; unfold nsq, Cmult, Cminus, Cplus, Copp, RtoC, X, Y; cbn [fst snd]; ring).
  apply nsq_Cdiv_le; rewrite ?EN, ED.
  - assert (0 <= Y * Y)%R by apply Rle_0_sqr. clearbody X Y.
    apply Rmult_lt_0_compat; nra.
  - now apply sil3_certificate.
Qed.

(** A-stability of the SIL3 scheme: generated tableau, every step size, every z
    in the closed left half-plane, through the zero-skipping interpreter. *)
Theorem A_stable_sil3 z u dt : (0 <= dt)%R -> (fst z <= 0)%R ->
  exists y, imex_step (o := ROps) (vo := CVOps) F0 (Gz z) (Ginvz z) dt
              (RLL sil3_a_ex) (RLL sil3_a_im) (RL sil3_b_ex) (RL sil3_b_im) u = Some y /\
            (nsq y <= nsq u)%R.
Proof.
  intros Hd Hx. eexists. split.
  - apply imex_is_ark.
    + intros c H. unfold nz in H. apply Bool.negb_false_iff in H. cbn in H. unfold Reqb in H.
      destruct (Req_EM_T c 0); [assumption|discriminate].
    + intros [a b]. cbn. f_equal; ring.
    + intros [a b]. cbn. f_equal; ring.
  - rewrite ark_step_linear, nsq_Gz. fold (sil3_r z dt).
    pose proof (sil3_r_bound z dt Hd Hx).
    assert (0 <= nsq u)%R by (unfold nsq; pose proof (Rle_0_sqr (fst u)); pose proof (Rle_0_sqr (snd u)); unfold Rsqr in *; lra).
    nra.
Qed.

(** * non-vacuity of the hypotheses of the generic theorems: C over R is a module,
    and for z = i the operator G_inv solves y = x + eta z y for every real eta *)
Lemma Cplx_module : ModuleC ROps CVOps.
Proof.
  constructor.
  - intros [a b] [c d]. cbn. f_equal; ring.
  - intros [a b] [c d] [e f]. cbn. f_equal; ring.
  - intros [a b]. cbn. f_equal; ring.
  - intros c [a b] [e f]. cbn. f_equal; ring.
  - intros a b [e f]. cbn. f_equal; ring.
  - intros a b [e f]. cbn. f_equal; ring.
  - intros [a b]. cbn. f_equal; ring.
  - intros [a b]. cbn. f_equal; ring.
Qed.
Lemma Ginvz_solves_imag (x : Cplx) (eta : R) :
  Ginvz (0, 1)%R x eta = vadd x (vscal eta (Gz (0, 1)%R (Ginvz (0, 1)%R x eta))).
Proof.
  destruct x as [a b]. unfold Ginvz, Gz, Dz. cbn [fst snd vadd vscal CVOps].
  assert (((1 - eta * 0) * (1 - eta * 0) + eta * 1 * (eta * 1))%R <> 0%R).
  { pose proof (Rle_0_sqr eta). unfold Rsqr in *. lra. }
  f_equal; field; nra.
Qed.
