(** Proofs about Model/Filters.v (property C15). *)
From Dino Require Import Base.Ops Base.Sums Base.Ord Model.Filters.
Local Open Scope F_scope.

(** * Shapes and broadcasting *)
Section Shapes.
  Lemma bdim_refl a : bdim a a = Some a.
  Proof. unfold bdim. now rewrite Nat.eqb_refl. Qed.
  Lemma bdim_1_r a : bdim a 1 = Some a.
  Proof. unfold bdim. destruct (Nat.eqb a 1) eqn:E; reflexivity. Qed.
  Lemma bdim_1_l b : bdim 1 b = Some b.
  Proof.
    unfold bdim. destruct (Nat.eqb 1 b) eqn:E; [|reflexivity].
    apply Nat.eqb_eq in E. now subst.
  Qed.
  (** the target dimension survives iff the other one is equal to it or 1 *)
  Lemma bdim_keeps a b : bdim a b = Some a <-> (b = a \/ b = 1%nat).
  Proof.
    unfold bdim.
    destruct (Nat.eqb_spec a b) as [E|E]; [subst; tauto|].
    destruct (Nat.eqb_spec a 1) as [E1|E1].
    - subst. split; [intros H; inversion H; lia | intros [H|H]; congruence].
    - destruct (Nat.eqb_spec b 1) as [E2|E2].
      + tauto.
      + split; [discriminate | intros [H|H]; congruence].
  Qed.

  Lemma shape_eqb_eq a b : shape_eqb a b = true <-> a = b.
  Proof.
    revert b. induction a as [|x a IH]; intros [|y b]; cbn; try (split; [discriminate|congruence]).
    - tauto.
    - rewrite andb_true_iff, Nat.eqb_eq, IH. split; [intros [-> ->]; reflexivity | intros H; inversion H; auto].
  Qed.
  Lemma shape_eqb_refl a : shape_eqb a a = true.
  Proof. now apply shape_eqb_eq. Qed.

  Lemma bzip_length a b r : bzip a b = Some r -> length a = length b /\ length r = length a.
  Proof.
    revert b r. induction a as [|x a IH]; intros [|y b] r H; cbn in H; try discriminate.
    - inversion H. auto.
    - destruct (bdim x y); [|discriminate]. destruct (bzip a b) as [r'|] eqn:E; [|discriminate].
      inversion H; subst. destruct (IH _ _ E). cbn. auto.
  Qed.

  (** broadcasting leaves [a] unchanged iff every dimension of [b] equals the
      one of [a] or is 1 *)
  Lemma bzip_keeps a b :
    bzip a b = Some a <-> Forall2 (fun da db => db = da \/ db = 1%nat) a b.
  Proof.
    revert b. induction a as [|x a IH]; intros [|y b]; cbn.
    - split; auto.
    - split; [discriminate | intros H; inversion H].
    - split; [discriminate | intros H; inversion H].
    - split.
      + intros H. destruct (bdim x y) as [d|] eqn:Ed; [|discriminate].
        destruct (bzip a b) as [r|] eqn:Er; [|discriminate].
        inversion H; subst. constructor; [now apply bdim_keeps | now apply IH].
      + intros H. inversion H; subst.
        rewrite (proj2 (bdim_keeps x y)) by assumption.
        rewrite (proj2 (IH b)) by assumption. reflexivity.
  Qed.

  Lemma bzip_ones_prefix pre a b :
    bzip (pre ++ a) (repeat 1%nat (length pre) ++ b) =
    match bzip a b with Some r => Some (pre ++ r) | None => None end.
  Proof.
    induction pre as [|x pre IH]; cbn.
    - destruct (bzip a b); reflexivity.
    - rewrite bdim_1_r, IH. destruct (bzip a b); reflexivity.
  Qed.

  Lemma lpad_id n s : (n <= length s)%nat -> lpad n s = s.
  Proof. intros H. unfold lpad. replace (n - length s)%nat with 0%nat by lia. reflexivity. Qed.

  (** ** what [_preserves_shape] accepts: exactly the leaves whose trailing
      dimensions are matched by the scaling (equal, or 1 in the scaling) *)
  Theorem preserves_shape_spec (t s : list nat) :
    preserves_shape t s = true <->
    exists pre suf, t = pre ++ suf /\ Forall2 (fun dt ds => ds = dt \/ ds = 1%nat) suf s.
  Proof.
    unfold preserves_shape, broadcast_shapes.
    destruct (Nat.le_gt_cases (length s) (length t)) as [Hl|Hl].
    - rewrite Nat.max_l by assumption. rewrite lpad_id by lia.
      unfold lpad.
      set (k := (length t - length s)%nat).
      assert (Ht : t = firstn k t ++ skipn k t) by (symmetry; apply firstn_skipn).
      assert (Hk : length (firstn k t) = k) by (rewrite firstn_length; lia).
      replace (bzip t (repeat 1%nat k ++ s))
        with (bzip (firstn k t ++ skipn k t) (repeat 1%nat (length (firstn k t)) ++ s))
        by (rewrite Hk, firstn_skipn; reflexivity).
      rewrite bzip_ones_prefix.
      split.
      + intros H. destruct (bzip (skipn k t) s) as [r|] eqn:Er; [|discriminate].
        apply shape_eqb_eq in H. rewrite Ht in H at 1. apply app_inv_head in H. subst r.
        exists (firstn k t), (skipn k t). split; [exact Ht|]. now apply bzip_keeps.
      + intros (pre & suf & E & Hf).
        assert (Hls : length suf = length s).
        { clear - Hf. induction Hf; cbn; auto. }
        assert (Hpre : length pre = k).
        { unfold k. rewrite E, app_length. lia. }
        assert (E1 : firstn k t = pre).
        { rewrite E, <- Hpre. rewrite firstn_app, firstn_all, Nat.sub_diag. cbn. apply app_nil_r. }
        assert (E2 : skipn k t = suf).
        { rewrite E, <- Hpre. rewrite skipn_app, skipn_all, Nat.sub_diag. reflexivity. }
        rewrite E2. rewrite (proj2 (bzip_keeps suf s)) by assumption.
        apply shape_eqb_eq. rewrite E1. exact E.
    - rewrite Nat.max_r by lia. split.
      + intros H. destruct (bzip (lpad (length s) t) (lpad (length s) s)) as [r|] eqn:Er; [|discriminate].
        apply shape_eqb_eq in H. subst r. apply bzip_length in Er. destruct Er as [_ Er].
        unfold lpad in Er. rewrite app_length, repeat_length in Er. lia.
      + intros (pre & suf & E & Hf).
        assert (Hls : length suf = length s).
        { clear - Hf. induction Hf; cbn; auto. }
        rewrite E, app_length in Hl. lia.
  Qed.

  (** leaves are never reshaped *)
  (** 1-D scalings (scalar strengths): [scaling.shape = (L,)] *)
  Corollary preserves_shape_1d (t : list nat) (L : nat) :
    preserves_shape t [L] = true <-> exists pre d, t = pre ++ [d] /\ (L = d \/ L = 1%nat).
  Proof.
    rewrite preserves_shape_spec. split.
    - intros (pre & suf & E & Hf). inversion Hf as [|d x suf' s' Hd Hf' E1 E2]; subst.
      inversion Hf'; subst. exists pre, d. auto.
    - intros (pre & d & E & Hd). exists pre, [d]. split; [exact E|]. constructor; [exact Hd|constructor].
  Qed.

  Corollary scalar_not_rescaled (s : list nat) : s <> [] -> preserves_shape [] s = false.
  Proof.
    intros Hs. destruct (preserves_shape [] s) eqn:E; [|reflexivity]. exfalso.
    apply preserves_shape_spec in E. destruct E as (pre & suf & E & Hf).
    symmetry in E. apply app_eq_nil in E. destruct E; subst. inversion Hf. now subst.
  Qed.

  Corollary clock_not_rescaled (L : nat) : L <> 1%nat -> preserves_shape [1%nat] [L] = false.
  Proof.
    intros HL. destruct (preserves_shape [1%nat] [L]) eqn:E; [|reflexivity]. exfalso.
    apply preserves_shape_1d in E. destruct E as (pre & d & E & Hd).
    destruct pre as [|x pre]; cbn in E.
    - inversion E; subst. lia.
    - inversion E as [[E1 E2]]. destruct pre; discriminate.
  Qed.

  Corollary unrelated_not_rescaled (pre : list nat) (d L : nat) :
    L <> d -> L <> 1%nat -> preserves_shape (pre ++ [d]) [L] = false.
  Proof.
    intros H1 H2. destruct (preserves_shape (pre ++ [d]) [L]) eqn:E; [|reflexivity]. exfalso.
    apply preserves_shape_1d in E. destruct E as (pre' & d' & E & Hd).
    apply app_inj_tail in E. destruct E; subst. lia.
  Qed.

  Corollary spectral_rescaled (pre : list nat) (L : nat) : preserves_shape (pre ++ [L]) [L] = true.
  Proof. apply preserves_shape_1d. exists pre, L. auto. Qed.

  (** same leading dimension, equal ranks: the test is the test on the slices *)
  Lemma preserves_shape_cons T ls ss :
    length ls = length ss -> preserves_shape (T :: ls) (T :: ss) = preserves_shape ls ss.
  Proof.
    intros Hl. unfold preserves_shape, broadcast_shapes. cbn [length].
    rewrite Hl, !Nat.max_id. rewrite !lpad_id by (cbn; lia).
    cbn [bzip]. rewrite bdim_refl. destruct (bzip ls ss); [|reflexivity].
    cbn. now rewrite Nat.eqb_refl.
  Qed.

  Lemma bidx_cons T ss i idx :
    length idx = length ss -> (i < T)%nat -> bidx (T :: ss) (i :: idx) = i :: bidx ss idx.
  Proof.
    intros Hl Hi. unfold bidx. cbn [length]. rewrite Hl, !Nat.sub_diag. cbn.
    destruct (Nat.eqb_spec T 1); [f_equal; lia | reflexivity].
  Qed.

  Lemma bidx_1d L pre j : (j < L)%nat -> bidx [L] (pre ++ [j]) = [j].
  Proof.
    intros Hj. unfold bidx. rewrite app_length. cbn [length].
    replace (length pre + 1 - 1)%nat with (length pre) by lia.
    rewrite skipn_app, skipn_all, Nat.sub_diag. cbn.
    destruct (Nat.eqb_spec L 1); [f_equal; lia | reflexivity].
  Qed.

  Lemma bidx_nil idx : bidx [] idx = [].
  Proof. reflexivity. Qed.

  Lemma maxn_ge n (f : nat -> nat) j : (j < n)%nat -> (f j <= maxn n f)%nat.
  Proof.
    induction n as [|n IH]; intros Hj; [lia|]. cbn.
    destruct (Nat.eq_dec j n) as [->|Hn]; [lia|]. assert (j < n)%nat by lia. specialize (IH H). lia.
  Qed.
  Lemma maxn_attained n (f : nat -> nat) : (0 < n)%nat -> exists j, (j < n)%nat /\ f j = maxn n f.
  Proof.
    induction n as [|n IH]; intros Hn; [lia|]. cbn.
    destruct n as [|n].
    - exists 0%nat. cbn. split; lia.
    - destruct IH as (j & Hj & E); [lia|].
      destruct (Nat.le_gt_cases (f (S n)) (maxn (S n) f)) as [H|H].
      + exists j. split; [lia|]. rewrite E. lia.
      + exists (S n). split; [lia|]. lia.
  Qed.
End Shapes.

(** * [rescale]: which leaves are rescaled, and by what *)
Section Rescale.
  Context {F : Type} {o : Ops F} {Fc : FieldC o}.
  Add Field FFr : (field_c : FieldTh o).

  Lemma rescale_shape (sc x : @arr F) : fst (rescale sc x) = fst x.
  Proof. unfold rescale. destruct (preserves_shape (fst x) (fst sc)); reflexivity. Qed.

  (** both directions: a leaf is multiplied by the broadcast scaling iff
      broadcasting preserves its shape; otherwise it is returned as is *)
  Lemma rescale_spec (sc x : arr) :
    (preserves_shape (fst x) (fst sc) = true /\
     rescale sc x = (fst x, fun idx => snd sc (bidx (fst sc) idx) * snd x idx)) \/
    (preserves_shape (fst x) (fst sc) = false /\ rescale sc x = x).
  Proof. unfold rescale. destruct (preserves_shape (fst x) (fst sc)); auto. Qed.

  Lemma rescale_true (sc x : arr) idx :
    preserves_shape (fst x) (fst sc) = true ->
    snd (rescale sc x) idx = snd sc (bidx (fst sc) idx) * snd x idx.
  Proof. intros H. unfold rescale. rewrite H. reflexivity. Qed.
  Lemma rescale_false (sc x : arr) :
    preserves_shape (fst x) (fst sc) = false -> rescale sc x = x.
  Proof. intros H. unfold rescale. rewrite H. reflexivity. Qed.

  (** broadcast lemma: with a common leading axis and equal ranks, the
      rescaled leaf restricted to [i] is the slice rescaled by the slice of the
      scaling *)
  Lemma rescale_slice (T : nat) (ss ls : list nat) (s x : list nat -> F) i idx :
    length ss = length ls -> length idx = length ls -> (i < T)%nat ->
    snd (rescale (T :: ss, s) (T :: ls, x)) (i :: idx)
    = snd (rescale (slice i (T :: ss, s)) (slice i (T :: ls, x))) idx.
  Proof.
    intros H1 H2 Hi. unfold rescale, slice. cbn [fst snd tl].
    rewrite preserves_shape_cons by lia.
    destruct (preserves_shape ls ss); cbn [fst snd]; [|reflexivity].
    rewrite bidx_cons by lia. reflexivity.
  Qed.

  (** twice the "half" scaling = once the "full" one *)
  Lemma rescale_twice (sh sf : arr) (x : arr) idx :
    fst sh = fst sf ->
    (forall i, snd sf i = snd sh i * snd sh i) ->
    fst (rescale sh (rescale sh x)) = fst (rescale sf x) /\
    snd (rescale sh (rescale sh x)) idx = snd (rescale sf x) idx.
  Proof.
    intros Hs Hv. split; [now rewrite !rescale_shape|].
    unfold rescale at 2. unfold rescale at 2. rewrite <- Hs.
    destruct (preserves_shape (fst x) (fst sh)) eqn:E.
    - rewrite rescale_true by (cbn [fst]; exact E). cbn [snd]. rewrite Hv. ring.
    - now rewrite rescale_false.
  Qed.

  (** ** Robert-Asselin *)
  Lemma ra_value_linear (r p c f : F) : p + f = ftwo * c -> ra_value r p c f = c.
  Proof. intros H. unfold ra_value. rewrite H. unfold ftwo. ring. Qed.

  Lemma map3_spec (g : @arr F -> @arr F -> @arr F -> @arr F) (a b c r : @tree F) (d : @arr F) :
    map3 g a b c = Some r ->
    length r = length b /\ length a = length b /\ length c = length b /\
    forall n, (n < length b)%nat -> nth n r d = g (nth n a d) (nth n b d) (nth n c d).
  Proof.
    revert b c r. induction a as [|x a IH]; intros [|y b] [|z c] r H; cbn in H; try discriminate.
    - inversion H; subst. cbn. repeat split; auto. intros n Hn. lia.
    - destruct (map3 g a b c) as [r'|] eqn:E; [|discriminate]. inversion H; subst.
      destruct (IH _ _ _ E) as (H1 & H2 & H3 & H4). cbn [length]. repeat split; try lia.
      intros [|n] Hn; cbn; [reflexivity|]. apply H4. cbn in Hn. lia.
  Qed.

  Lemma map3_total (g : @arr F -> @arr F -> @arr F -> @arr F) (a b c : @tree F) :
    length a = length b -> length c = length b -> exists r, map3 g a b c = Some r.
  Proof.
    revert b c. induction a as [|x a IH]; intros [|y b] [|z c] H1 H2; cbn in *; try discriminate.
    - eauto.
    - destruct (IH b c) as (r & E); [lia|lia|]. rewrite E. eauto.
  Qed.

  (** returns (filtered current, future): the newest level is untouched, the
      structure and shapes of [current] are kept, and wherever
      previous + future = 2 current the value of [current] is kept *)
  Theorem robert_asselin_spec (r : F) (prev cur u0 fut res1 res2 : tree) (d : arr) :
    robert_asselin_leapfrog_filter r (prev, cur) (u0, fut) = Some (res1, res2) ->
    res2 = fut /\ length res1 = length cur /\
    forall n, (n < length cur)%nat ->
      fst (nth n res1 d) = fst (nth n cur d) /\
      forall idx,
        snd (nth n res1 d) idx
        = (1 - ftwo * r) * snd (nth n cur d) idx + r * (snd (nth n prev d) idx + snd (nth n fut d) idx) /\
        (snd (nth n prev d) idx + snd (nth n fut d) idx = ftwo * snd (nth n cur d) idx ->
         snd (nth n res1 d) idx = snd (nth n cur d) idx).
  Proof.
    unfold robert_asselin_leapfrog_filter. cbn [fst snd].
    destruct (map3 (ra_leaf r) prev cur fut) as [c'|] eqn:E; [|discriminate].
    intros H. inversion H; subst. destruct (map3_spec _ _ _ _ _ d E) as (H1 & H2 & H3 & H4).
    split; [reflexivity|]. split; [exact H1|]. intros n Hn. rewrite H4 by assumption.
    cbn [ra_leaf fst snd]. split; [reflexivity|]. intros idx. split; [reflexivity|].
    intros Hl. now apply ra_value_linear.
  Qed.

  Theorem robert_asselin_defined (r : F) (prev cur u0 fut : tree) :
    length prev = length cur -> length fut = length cur ->
    exists res, robert_asselin_leapfrog_filter r (prev, cur) (u0, fut) = Some (res, fut).
  Proof.
    intros H1 H2. unfold robert_asselin_leapfrog_filter. cbn [fst snd].
    destruct (map3_total (ra_leaf r) prev cur fut H1 H2) as (res & E). rewrite E. eauto.
  Qed.

  (** ** linearity of the exponents in the strength (semigroup in dt) *)
  Lemma exp_exponent_add (a b c : F) p lmax l :
    exp_exponent (a + b) c p lmax l = exp_exponent a c p lmax l + exp_exponent b c p lmax l.
  Proof. unfold exp_exponent. cbv zeta. ring. Qed.
  Lemma hd_exponent_add (a b r : F) order l :
    hd_exponent (a + b) r order l = hd_exponent a r order l + hd_exponent b r order l.
  Proof. unfold hd_exponent. ring. Qed.

  Lemma fdiv0 (x : F) : 0 / x = 0.
  Proof. rewrite (Fdiv_def field_c). ring. Qed.

  Lemma fpow_0 n : fpow 0 (S n) = 0.
  Proof. cbn. ring. Qed.

  (** the global mean: exponent 0 (any attenuation, any order, any L) *)
  Lemma hd_exponent_mean (scale r : F) order : (1 <= order)%nat -> hd_exponent scale r order 0 = 0.
  Proof.
    intros Ho. destruct order as [|n]; [lia|]. unfold hd_exponent, lap_eig.
    replace (- (- fnat 0 * (fnat 0 + 1) / (r * r))) with (0:F).
    - rewrite fpow_0. ring.
    - cbn [fnat]. replace (- (0) * (0 + 1)) with (0:F) by ring. rewrite fdiv0. ring.
  Qed.
End Rescale.

(** * Order properties of the exponents (every ordered field) *)
Section Order.
  Context {F : Type} {o : Ops F} {Oc : OrdFieldC o}.
  Add Field FFq : (field_c : FieldTh o).

  Lemma fle_0_opp (x : F) : fle 0 x -> fle (- x) 0.
  Proof. intros H. apply fle_opp in H. replace (- 0) with (0:F) in H by ring. exact H. Qed.
  Lemma fle_le_add1 (x : F) : fle x (x + 1).
  Proof.
    pose proof (fle_add2 x x 0 1 (fle_refl x) fle_0_1) as H.
    replace (x + 0) with x in H by ring. exact H.
  Qed.
  Lemma fnat_nonneg n : fle 0 (fnat n).
  Proof.
    induction n as [|n IH]; cbn [fnat]; [apply fle_refl|].
    eapply fle_trans; [exact IH|apply fle_le_add1].
  Qed.
  Lemma fnat_mono n m : (n <= m)%nat -> fle (fnat n) (fnat m).
  Proof.
    induction 1 as [|m H IH]; [apply fle_refl|]. cbn [fnat].
    eapply fle_trans; [exact IH|apply fle_le_add1].
  Qed.
  Lemma fnat_pos n : (0 < n)%nat -> flt 0 (fnat n).
  Proof.
    intros Hn. destruct n as [|k]; [lia|]. cbn [fnat].
    apply (flt_le_trans 0 1); [apply flt_0_1|].
    pose proof (fle_add _ _ 1 (fnat_nonneg k)) as H. replace (0 + 1) with (1:F) in H by ring. exact H.
  Qed.
  Lemma ftwo_pos : flt 0 (ftwo : F).
  Proof. unfold ftwo. apply (flt_le_trans 0 1); [apply flt_0_1|apply fle_le_add1]. Qed.
  Lemma ftwo_neq0 : (ftwo : F) <> 0.
  Proof. apply fpos_neq0, ftwo_pos. Qed.

  Lemma fmul_le_mono (a b c d : F) : fle 0 a -> fle a b -> fle 0 c -> fle c d -> fle (a * c) (b * d).
  Proof.
    intros Ha Hab Hc Hcd.
    apply (fle_trans _ (b * c)).
    - replace (a * c) with (c * a) by ring. replace (b * c) with (c * b) by ring. now apply fle_mul_l.
    - apply fle_mul_l; [|assumption]. apply (fle_trans 0 a b); assumption.
  Qed.
  Lemma fpow_nonneg (x : F) n : fle 0 x -> fle 0 (fpow x n).
  Proof. intros H. induction n as [|n IH]; cbn [fpow]; [apply fle_0_1|now apply fle_mul_pos]. Qed.
  Lemma fpow_mono (x y : F) n : fle 0 x -> fle x y -> fle (fpow x n) (fpow y n).
  Proof.
    intros H0 H. induction n as [|n IH]; cbn [fpow]; [apply fle_refl|].
    apply fmul_le_mono; auto. now apply fpow_nonneg.
  Qed.
  Lemma fpow_even (x : F) p : fle 0 (fpow x (2 * p)).
  Proof.
    induction p as [|p IH]; [cbn; apply fle_0_1|].
    replace (2 * S p)%nat with (S (S (2 * p))) by lia. cbn [fpow].
    replace (x * (x * fpow x (2 * p))) with ((x * x) * fpow x (2 * p)) by ring.
    apply fle_mul_pos; [apply fle_sq|exact IH].
  Qed.
  Lemma fdiv_le_mono (x y z : F) : fle x y -> flt 0 z -> fle (x / z) (y / z).
  Proof.
    intros H Hz. assert (z <> 0) by now apply fpos_neq0.
    replace (x / z) with ((1 / z) * x) by (field; auto).
    replace (y / z) with ((1 / z) * y) by (field; auto).
    apply fle_mul_l; [|assumption]. apply flt_le. now apply finv_pos.
  Qed.
  Lemma fdiv_pos_pos (x z : F) : flt 0 x -> flt 0 z -> flt 0 (x / z).
  Proof.
    intros Hx Hz. assert (z <> 0) by now apply fpos_neq0.
    replace (x / z) with (x * (1 / z)) by (field; auto).
    apply fmul_pos_pos; [assumption|now apply finv_pos].
  Qed.
  Lemma fmul_neq0 (x y : F) : x <> 0 -> y <> 0 -> x * y <> 0.
  Proof.
    intros Hx Hy E. apply Hy. assert (H : y = (x * y) / x) by (field; auto).
    rewrite E in H. rewrite H. apply fdiv0.
  Qed.
  Lemma fpow_neq0 (x : F) n : x <> 0 -> fpow x n <> 0.
  Proof.
    intros Hx. induction n as [|n IH]; cbn [fpow].
    - intro E. apply f01. now symmetry.
    - now apply fmul_neq0.
  Qed.
  Lemma rr_pos (r : F) : r <> 0 -> flt 0 (r * r).
  Proof.
    intros Hr. destruct (fle_lt_or_eq _ _ (fle_sq r)) as [H|H]; [exact H|].
    exfalso. symmetry in H. now apply (fmul_neq0 r r).
  Qed.

  (** ** exponential filter *)
  Lemma exp_exponent_nonpos (a c : F) p lmax l :
    fle 0 a -> fle (exp_exponent a c p lmax l) 0.
  Proof.
    intros Ha. unfold exp_exponent. cbv zeta.
    set (x := (fnat l / fnat lmax - c) / (1 - c)).
    destruct (fltb c (fnat l / fnat lmax)); cbn [indb].
    - replace (1 * (- a * fpow x (2 * p))) with (- (a * fpow x (2 * p))) by ring.
      apply fle_0_opp. apply fle_mul_pos; [assumption|apply fpow_even].
    - replace (0 * (- a * fpow x (2 * p))) with (0:F) by ring. apply fle_refl.
  Qed.

  Lemma exp_exponent_mean (a c : F) p lmax : fle 0 c -> exp_exponent a c p lmax 0 = 0.
  Proof.
    intros Hc. unfold exp_exponent. cbv zeta. cbn [fnat]. rewrite fdiv0.
    unfold fltb. unfold fle in Hc. rewrite Hc. cbn [negb indb]. ring.
  Qed.

  Lemma exp_exponent_mono (a c : F) p lmax l l' :
    (l <= l')%nat -> (0 < lmax)%nat -> fle 0 a -> flt c 1 ->
    fle (exp_exponent a c p lmax l') (exp_exponent a c p lmax l).
  Proof.
    intros Hl Hm Ha Hc.
    destruct (fltb c (fnat l / fnat lmax)) eqn:E.
    - assert (Hk : fle (fnat l / fnat lmax) (fnat l' / fnat lmax)).
      { apply fdiv_le_mono; [now apply fnat_mono|now apply fnat_pos]. }
      assert (E1 : flt c (fnat l / fnat lmax)) by now apply fltb_true.
      assert (E2 : fltb c (fnat l' / fnat lmax) = true).
      { apply fltb_true. eapply flt_le_trans; eauto. }
      unfold exp_exponent. cbv zeta. rewrite E, E2. cbn [indb].
      set (k := fnat l / fnat lmax) in *. set (k' := fnat l' / fnat lmax) in *.
      assert (H1c : flt 0 (1 - c)) by (apply (proj1 (flt_sub c 1)); exact Hc).
      assert (Hx0 : fle 0 ((k - c) / (1 - c))).
      { apply fdiv_pos; [|assumption]. apply fle_sub_1. now apply flt_le. }
      assert (Hxx : fle ((k - c) / (1 - c)) ((k' - c) / (1 - c))).
      { apply fdiv_le_mono; [|assumption].
        pose proof (fle_add _ _ (- c) Hk) as H.
        replace (k + - c) with (k - c) in H by ring. replace (k' + - c) with (k' - c) in H by ring. exact H. }
      replace (1 * (- a * fpow ((k' - c) / (1 - c)) (2 * p))) with (- (a * fpow ((k' - c) / (1 - c)) (2 * p))) by ring.
      replace (1 * (- a * fpow ((k - c) / (1 - c)) (2 * p))) with (- (a * fpow ((k - c) / (1 - c)) (2 * p))) by ring.
      apply fle_opp. apply fle_mul_l; [assumption|]. now apply fpow_mono.
    - replace (exp_exponent a c p lmax l) with (0:F).
      + now apply exp_exponent_nonpos.
      + unfold exp_exponent. cbv zeta. rewrite E. cbn [indb]. ring.
  Qed.

  Lemma exp_step_semigroup (dt tau c : F) p lmax l :
    tau <> 0 ->
    exp_exponent (dt / tau) c p lmax l = ftwo * exp_exponent ((dt / ftwo) / tau) c p lmax l.
  Proof.
    intros Ht. pose proof ftwo_neq0 as H2.
    replace (dt / tau) with ((dt / ftwo) / tau + (dt / ftwo) / tau) by (unfold ftwo in *; field; auto).
    rewrite exp_exponent_add. unfold ftwo. ring.
  Qed.

  (** ** horizontal diffusion *)
  Lemma neg_lap_eig (r : F) l : r <> 0 -> - lap_eig r l = fnat l * (fnat l + 1) / (r * r).
  Proof. intros Hr. unfold lap_eig. field. auto. Qed.
  Lemma neg_lap_eig_nonneg (r : F) l : r <> 0 -> fle 0 (- lap_eig r l).
  Proof.
    intros Hr. rewrite neg_lap_eig by assumption. apply fdiv_pos; [|now apply rr_pos].
    apply fle_mul_pos; [apply fnat_nonneg|]. eapply fle_trans; [apply fnat_nonneg|apply fle_le_add1].
  Qed.
  Lemma neg_lap_eig_mono (r : F) l l' : r <> 0 -> (l <= l')%nat -> fle (- lap_eig r l) (- lap_eig r l').
  Proof.
    intros Hr Hl. rewrite !neg_lap_eig by assumption. apply fdiv_le_mono; [|now apply rr_pos].
    apply fmul_le_mono.
    - apply fnat_nonneg.
    - now apply fnat_mono.
    - eapply fle_trans; [apply fnat_nonneg|apply fle_le_add1].
    - apply fle_add. now apply fnat_mono.
  Qed.
  Lemma neg_lap_eig_pos (r : F) l : r <> 0 -> (0 < l)%nat -> flt 0 (- lap_eig r l).
  Proof.
    intros Hr Hl. rewrite neg_lap_eig by assumption. apply fdiv_pos_pos; [|now apply rr_pos].
    apply fmul_pos_pos; [now apply fnat_pos|].
    eapply flt_le_trans; [apply fnat_pos; eassumption|apply fle_le_add1].
  Qed.

  Lemma hd_exponent_nonpos (scale r : F) order l :
    fle 0 scale -> r <> 0 -> fle (hd_exponent scale r order l) 0.
  Proof.
    intros Hs Hr. unfold hd_exponent.
    replace (- scale * fpow (- lap_eig r l) order) with (- (scale * fpow (- lap_eig r l) order)) by ring.
    apply fle_0_opp. apply fle_mul_pos; [assumption|]. apply fpow_nonneg. now apply neg_lap_eig_nonneg.
  Qed.
  Lemma hd_exponent_mono (scale r : F) order l l' :
    (l <= l')%nat -> fle 0 scale -> r <> 0 ->
    fle (hd_exponent scale r order l') (hd_exponent scale r order l).
  Proof.
    intros Hl Hs Hr. unfold hd_exponent.
    replace (- scale * fpow (- lap_eig r l') order) with (- (scale * fpow (- lap_eig r l') order)) by ring.
    replace (- scale * fpow (- lap_eig r l) order) with (- (scale * fpow (- lap_eig r l) order)) by ring.
    apply fle_opp. apply fle_mul_l; [assumption|].
    apply fpow_mono; [now apply neg_lap_eig_nonneg|now apply neg_lap_eig_mono].
  Qed.

  (** the normalisation [abs(eigenvalues).max()] is the eigenvalue of the
      largest total wavenumber present (padded columns carry l = 0) *)
  Lemma fmax_lub (x y b : F) : fle x b -> fle y b -> fle (fmax x y) b.
  Proof. intros Hx Hy. unfold fmax. destruct (fleb x y); assumption. Qed.
  Lemma fmaxn_ge n (f : nat -> F) j : (j <= n)%nat -> fle (f j) (fmaxn n f).
  Proof.
    induction n as [|n IH]; intros Hj.
    - replace j with 0%nat by lia. apply fle_refl.
    - cbn [fmaxn]. destruct (Nat.eq_dec j (S n)) as [->|Hn]; [apply fmax_ge_r|].
      eapply fle_trans; [apply IH; lia|apply fmax_ge_l].
  Qed.
  Lemma fmaxn_lub n (f : nat -> F) b : (forall j, (j <= n)%nat -> fle (f j) b) -> fle (fmaxn n f) b.
  Proof.
    induction n as [|n IH]; intros H; cbn [fmaxn]; [apply H; lia|].
    apply fmax_lub; [apply IH; intros; apply H; lia|apply H; lia].
  Qed.
  Lemma fabs_nonpos (x : F) : fle x 0 -> fabs x = - x.
  Proof.
    intros H. unfold fabs. destruct (fleb 0 x) eqn:E; [|reflexivity].
    assert (x = 0) by (apply fle_antisym; assumption). subst. ring.
  Qed.
  Lemma lap_eig_nonpos (r : F) l : r <> 0 -> fle (lap_eig r l) 0.
  Proof.
    intros Hr. replace (lap_eig r l) with (- (- lap_eig r l)) by ring.
    apply fle_0_opp. now apply neg_lap_eig_nonneg.
  Qed.

  Theorem max_abs_eig_top (L : nat) (lw : nat -> nat) (r : F) :
    (0 < L)%nat -> r <> 0 -> max_abs_eig L lw r = - lap_eig r (maxn L lw).
  Proof.
    intros HL Hr. unfold max_abs_eig. apply fle_antisym.
    - apply fmaxn_lub. intros j Hj. rewrite fabs_nonpos by now apply lap_eig_nonpos.
      apply neg_lap_eig_mono; [assumption|]. apply maxn_ge. lia.
    - destruct (maxn_attained L lw HL) as (j & Hj & E). rewrite <- E.
      rewrite <- (fabs_nonpos (lap_eig r (lw j))) by now apply lap_eig_nonpos.
      apply (fmaxn_ge (L - 1) (fun j0 => fabs (lap_eig r (lw j0))) j). lia.
  Qed.

  Lemma max_abs_eig_pos (L : nat) (lw : nat -> nat) (r : F) :
    (0 < L)%nat -> (0 < maxn L lw)%nat -> r <> 0 -> flt 0 (max_abs_eig L lw r).
  Proof. intros HL Hm Hr. rewrite max_abs_eig_top by assumption. now apply neg_lap_eig_pos. Qed.

  Definition hd_step_scale_s (L : nat) (lw : nat -> nat) (dt tau r : F) (order : nat) : F :=
    dt / (tau * fpow (max_abs_eig L lw r) order).

  Lemma hd_step_scale_scalar L lw (dt tau r : F) order idx :
    snd (hd_step_scale L lw dt (scalar_arr tau) r order) idx = hd_step_scale_s L lw dt tau r order.
  Proof. reflexivity. Qed.

  Lemma hd_step_scale_nonneg L lw (dt tau r : F) order :
    (0 < L)%nat -> (0 < maxn L lw)%nat -> r <> 0 -> fle 0 dt -> flt 0 tau ->
    fle 0 (hd_step_scale_s L lw dt tau r order).
  Proof.
    intros HL Hm Hr Hdt Htau. unfold hd_step_scale_s. apply fdiv_pos; [assumption|].
    pose proof (max_abs_eig_pos L lw r HL Hm Hr) as HM.
    apply fmul_pos_pos; [assumption|].
    destruct (fle_lt_or_eq _ _ (fpow_nonneg (max_abs_eig L lw r) order (flt_le _ _ HM))) as [H|H]; [exact H|].
    exfalso. symmetry in H. revert H. apply fpow_neq0. now apply fpos_neq0.
  Qed.

  Lemma hd_step_semigroup L lw (dt tau r : F) order l :
    (0 < L)%nat -> (0 < maxn L lw)%nat -> r <> 0 -> tau <> 0 ->
    hd_exponent (hd_step_scale_s L lw dt tau r order) r order l
    = ftwo * hd_exponent (hd_step_scale_s L lw (dt / ftwo) tau r order) r order l.
  Proof.
    intros HL Hm Hr Ht. pose proof ftwo_neq0 as H2.
    assert (HM : fpow (max_abs_eig L lw r) order <> 0).
    { apply fpow_neq0. apply fpos_neq0. now apply max_abs_eig_pos. }
    unfold hd_step_scale_s. set (M := fpow (max_abs_eig L lw r) order) in *.
    replace (dt / (tau * M)) with ((dt / ftwo) / (tau * M) + (dt / ftwo) / (tau * M))
      by (unfold ftwo in *; field; auto).
    rewrite hd_exponent_add. unfold ftwo. ring.
  Qed.

  (** docstring of [horizontal_diffusion_step_filter]: the top mode decays with time scale tau *)
  Theorem hd_step_top_mode L lw (dt tau r : F) order :
    (0 < L)%nat -> (0 < maxn L lw)%nat -> r <> 0 -> tau <> 0 ->
    hd_exponent (hd_step_scale_s L lw dt tau r order) r order (maxn L lw) = - (dt / tau).
  Proof.
    intros HL Hm Hr Ht.
    assert (HM : fpow (max_abs_eig L lw r) order <> 0).
    { apply fpow_neq0. apply fpos_neq0. now apply max_abs_eig_pos. }
    unfold hd_exponent, hd_step_scale_s. rewrite <- max_abs_eig_top by assumption.
    set (M := fpow (max_abs_eig L lw r) order) in *. field. auto.
  Qed.
End Order.

(** * The filters as maps on leaves, for any function [fexp] with the
      properties of the exponential *)
Section Exp.
  Context {F : Type} {o : Ops F} {Oc : OrdFieldC o}.
  Add Field FFe : (field_c : FieldTh o).
  Variable fexp : F -> F.
  Hypothesis H_exp_0 : fexp 0 = 1.
  Hypothesis H_exp_add : forall x y, fexp (x + y) = fexp x * fexp y.
  Hypothesis H_exp_pos : forall x, flt 0 (fexp x).
  Hypothesis H_exp_mono : forall x y, fle x y -> fle (fexp x) (fexp y).

  Lemma scaling_unit (e : F) : fle e 0 -> flt 0 (fexp e) /\ fle (fexp e) 1.
  Proof. intros H. split; [apply H_exp_pos|]. rewrite <- H_exp_0. now apply H_exp_mono. Qed.

  Lemma scaling_double (e : F) : fexp (ftwo * e) = fexp e * fexp e.
  Proof. rewrite <- H_exp_add. f_equal. unfold ftwo. ring. Qed.

  (** scalar strengths: the exponent array has shape (L,) *)
  Lemma exp_filter_exponent_scalar L lw (a c : F) p :
    exp_filter_exponent L lw (scalar_arr a) c p
    = Some ([L], fun idx => exp_exponent a c p (maxn L lw) (lw (last idx 0%nat))).
  Proof.
    unfold exp_filter_exponent, broadcast_shapes, lpad, scalar_arr.
    cbn [fst snd length Nat.max Nat.sub repeat app bzip]. rewrite bdim_1_l. reflexivity.
  Qed.
  Lemma hd_filter_exponent_scalar L lw (s r : F) order :
    hd_filter_exponent L lw (scalar_arr s) r order
    = Some ([L], fun idx => hd_exponent s r order (lw (last idx 0%nat))).
  Proof.
    unfold hd_filter_exponent, broadcast_shapes, lpad, scalar_arr.
    cbn [fst snd length Nat.max Nat.sub repeat app bzip]. rewrite bdim_1_l. reflexivity.
  Qed.

  (** a 1-D scaling acts on a spectral leaf (..., L) by the factor of the last index *)
  Lemma rescale_1d (L : nat) (s : list nat -> F) (x : arr) pre ipre j :
    fst x = pre ++ [L] -> (j < L)%nat ->
    snd (rescale ([L], s) x) (ipre ++ [j]) = s [j] * snd x (ipre ++ [j]).
  Proof.
    intros Hx Hj. rewrite rescale_true by (cbn [fst]; rewrite Hx; apply spectral_rescaled).
    cbn [fst snd]. now rewrite bidx_1d.
  Qed.

  (** [depends_on_l_only]: coefficient (..., m, j) of a spectral leaf is
      multiplied by fexp(e(l_j)), whatever the other indices are *)
  Theorem exponential_filter_leaf L lw (a c : F) p (x : arr) pre :
    fst x = pre ++ [L] ->
    exists y, exponential_filter fexp L lw (scalar_arr a) c p [x] = Some [y] /\ fst y = fst x /\
      forall ipre j, (j < L)%nat ->
        snd y (ipre ++ [j]) = fexp (exp_exponent a c p (maxn L lw) (lw j)) * snd x (ipre ++ [j]).
  Proof.
    intros Hx. unfold exponential_filter. rewrite exp_filter_exponent_scalar.
    cbn [filter_tree map]. eexists. split; [reflexivity|]. split; [apply rescale_shape|].
    intros ipre j Hj. unfold map_arr. cbn [fst snd].
    rewrite (rescale_1d L _ x pre ipre j Hx Hj). reflexivity.
  Qed.
  Theorem horizontal_diffusion_filter_leaf L lw (s r : F) order (x : arr) pre :
    fst x = pre ++ [L] ->
    exists y, horizontal_diffusion_filter fexp L lw (scalar_arr s) r order [x] = Some [y] /\ fst y = fst x /\
      forall ipre j, (j < L)%nat ->
        snd y (ipre ++ [j]) = fexp (hd_exponent s r order (lw j)) * snd x (ipre ++ [j]).
  Proof.
    intros Hx. unfold horizontal_diffusion_filter. rewrite hd_filter_exponent_scalar.
    cbn [filter_tree map]. eexists. split; [reflexivity|]. split; [apply rescale_shape|].
    intros ipre j Hj. unfold map_arr. cbn [fst snd].
    rewrite (rescale_1d L _ x pre ipre j Hx Hj). reflexivity.
  Qed.

  (** non-spectral leaves come back unchanged (scalar strengths, L <> 1):
      scalars, 1-element clocks, anything whose last axis is not L *)
  Theorem exponential_filter_nonspectral L lw (a c : F) p (x : arr) :
    L <> 1%nat ->
    (fst x = [] \/ fst x = [1%nat] \/ exists pre d, fst x = pre ++ [d] /\ d <> L) ->
    exponential_filter fexp L lw (scalar_arr a) c p [x] = Some [x].
  Proof.
    intros HL Hx. unfold exponential_filter. rewrite exp_filter_exponent_scalar.
    cbn [filter_tree map]. rewrite rescale_false; [reflexivity|]. unfold map_arr. cbn [fst].
    destruct Hx as [E|[E|(pre & d & E & Hd)]]; rewrite E.
    - apply scalar_not_rescaled. discriminate.
    - now apply clock_not_rescaled.
    - apply unrelated_not_rescaled; auto.
  Qed.

  Theorem horizontal_diffusion_filter_nonspectral L lw (s r : F) order (x : arr) :
    L <> 1%nat ->
    (fst x = [] \/ fst x = [1%nat] \/ exists pre d, fst x = pre ++ [d] /\ d <> L) ->
    horizontal_diffusion_filter fexp L lw (scalar_arr s) r order [x] = Some [x].
  Proof.
    intros HL Hx. unfold horizontal_diffusion_filter. rewrite hd_filter_exponent_scalar.
    cbn [filter_tree map]. rewrite rescale_false; [reflexivity|]. unfold map_arr. cbn [fst].
    destruct Hx as [E|[E|(pre & d & E & Hd)]]; rewrite E.
    - apply scalar_not_rescaled. discriminate.
    - now apply clock_not_rescaled.
    - apply unrelated_not_rescaled; auto.
  Qed.

  (** step-size consistency on leaves: two half steps = one full step *)
  Theorem exponential_step_twice L lw (dt tau c : F) p (x : arr) idx eh ef :
    tau <> 0 ->
    exp_filter_exponent L lw (exp_step_att (dt / ftwo) (scalar_arr tau)) c p = Some eh ->
    exp_filter_exponent L lw (exp_step_att dt (scalar_arr tau)) c p = Some ef ->
    fst (rescale (map_arr fexp eh) (rescale (map_arr fexp eh) x)) = fst (rescale (map_arr fexp ef) x) /\
    snd (rescale (map_arr fexp eh) (rescale (map_arr fexp eh) x)) idx = snd (rescale (map_arr fexp ef) x) idx.
  Proof.
    intros Ht Eh Ef.
    change (exp_step_att (dt / ftwo) (scalar_arr tau)) with (scalar_arr ((dt / ftwo) / tau)) in Eh.
    change (exp_step_att dt (scalar_arr tau)) with (scalar_arr (dt / tau)) in Ef.
    rewrite exp_filter_exponent_scalar in Eh, Ef. inversion Eh; subst eh. inversion Ef; subst ef.
    apply rescale_twice; [reflexivity|]. intros i. unfold map_arr. cbn [fst snd].
    rewrite exp_step_semigroup by assumption. apply scaling_double.
  Qed.
  Theorem horizontal_diffusion_step_twice L lw (dt tau r : F) order (x : arr) idx eh ef :
    (0 < L)%nat -> (0 < maxn L lw)%nat -> r <> 0 -> tau <> 0 ->
    hd_filter_exponent L lw (hd_step_scale L lw (dt / ftwo) (scalar_arr tau) r order) r order = Some eh ->
    hd_filter_exponent L lw (hd_step_scale L lw dt (scalar_arr tau) r order) r order = Some ef ->
    fst (rescale (map_arr fexp eh) (rescale (map_arr fexp eh) x)) = fst (rescale (map_arr fexp ef) x) /\
    snd (rescale (map_arr fexp eh) (rescale (map_arr fexp eh) x)) idx = snd (rescale (map_arr fexp ef) x) idx.
  Proof.
    intros HL Hm Hr Ht Eh Ef.
    change (hd_step_scale L lw (dt / ftwo) (scalar_arr tau) r order)
      with (scalar_arr (hd_step_scale_s L lw (dt / ftwo) tau r order)) in Eh.
    change (hd_step_scale L lw dt (scalar_arr tau) r order)
      with (scalar_arr (hd_step_scale_s L lw dt tau r order)) in Ef.
    rewrite hd_filter_exponent_scalar in Eh, Ef. inversion Eh; subst eh. inversion Ef; subst ef.
    apply rescale_twice; [reflexivity|]. intros i. unfold map_arr. cbn [fst snd].
    rewrite hd_step_semigroup by assumption. apply scaling_double.
  Qed.

  (** array-valued strengths of shape (T,1,1,1) on leaves (T,K,M,L) *)
  Lemma preserves_shape_4 T K M L : preserves_shape [T; K; M; L] [T; 1%nat; 1%nat; L] = true.
  Proof.
    apply preserves_shape_spec. exists [], [T; K; M; L]. split; [reflexivity|].
    constructor; [left; reflexivity|]. constructor; [right; reflexivity|].
    constructor; [right; reflexivity|]. constructor; [left; reflexivity|constructor].
  Qed.
  Lemma preserves_shape_3 K M L : preserves_shape [K; M; L] [L] = true.
  Proof. apply (spectral_rescaled [K; M] L). Qed.
  Lemma bidx_4 T L i k m j : (i < T)%nat -> (j < L)%nat ->
    bidx [T; 1%nat; 1%nat; L] [i; k; m; j] = [i; 0%nat; 0%nat; j].
  Proof.
    intros Hi Hj. unfold bidx. cbn.
    destruct (Nat.eqb_spec T 1), (Nat.eqb_spec L 1); repeat f_equal; lia.
  Qed.
  Lemma bidx_4a T i j : (i < T)%nat ->
    bidx [T; 1%nat; 1%nat; 1%nat] [i; 0%nat; 0%nat; j] = [i; 0%nat; 0%nat; 0%nat].
  Proof. intros Hi. unfold bidx. cbn. destruct (Nat.eqb_spec T 1); repeat f_equal; lia. Qed.

  Lemma exp_filter_exponent_4 T L lw (av : list nat -> F) c p :
    exp_filter_exponent L lw ([T; 1%nat; 1%nat; 1%nat], av) c p
    = Some ([T; 1%nat; 1%nat; L], fun idx =>
        exp_exponent (av (bidx [T; 1%nat; 1%nat; 1%nat] idx)) c p (maxn L lw) (lw (last idx 0%nat))).
  Proof.
    unfold exp_filter_exponent, broadcast_shapes, lpad.
    cbn [fst snd length Nat.max Nat.sub repeat app bzip]. rewrite !bdim_1_r, bdim_1_l. reflexivity.
  Qed.
  Lemma hd_filter_exponent_4 T L lw (av : list nat -> F) r order :
    hd_filter_exponent L lw ([T; 1%nat; 1%nat; 1%nat], av) r order
    = Some ([T; 1%nat; 1%nat; L], fun idx =>
        hd_exponent (av (bidx [T; 1%nat; 1%nat; 1%nat] idx)) r order (lw (last idx 0%nat))).
  Proof.
    unfold hd_filter_exponent, broadcast_shapes, lpad.
    cbn [fst snd length Nat.max Nat.sub repeat app bzip]. rewrite !bdim_1_r, bdim_1_l. reflexivity.
  Qed.

  Theorem exp_filter_slicewise T K M L lw (av : list nat -> F) c p (x : list nat -> F) i k m j eA eS :
    (i < T)%nat -> (j < L)%nat ->
    exp_filter_exponent L lw ([T; 1%nat; 1%nat; 1%nat], av) c p = Some eA ->
    exp_filter_exponent L lw (scalar_arr (av [i; 0%nat; 0%nat; 0%nat])) c p = Some eS ->
    fst eA = [T; 1%nat; 1%nat; L] /\
    snd (rescale (map_arr fexp eA) ([T; K; M; L], x)) [i; k; m; j]
    = snd (rescale (map_arr fexp eS) (slice i ([T; K; M; L], x))) [k; m; j].
  Proof.
    intros Hi Hj EA ES. rewrite exp_filter_exponent_4 in EA. rewrite exp_filter_exponent_scalar in ES.
    inversion EA; subst eA. inversion ES; subst eS. split; [reflexivity|].
    rewrite rescale_true by (cbn [fst map_arr]; apply preserves_shape_4).
    rewrite rescale_true by (cbn [fst map_arr slice tl]; apply preserves_shape_3).
    cbn [fst snd map_arr slice]. rewrite bidx_4 by assumption. rewrite bidx_4a by assumption.
    change [k; m; j] with ([k; m] ++ [j]). rewrite bidx_1d by assumption. reflexivity.
  Qed.
  Theorem hd_filter_slicewise T K M L lw (av : list nat -> F) r order (x : list nat -> F) i k m j eA eS :
    (i < T)%nat -> (j < L)%nat ->
    hd_filter_exponent L lw ([T; 1%nat; 1%nat; 1%nat], av) r order = Some eA ->
    hd_filter_exponent L lw (scalar_arr (av [i; 0%nat; 0%nat; 0%nat])) r order = Some eS ->
    fst eA = [T; 1%nat; 1%nat; L] /\
    snd (rescale (map_arr fexp eA) ([T; K; M; L], x)) [i; k; m; j]
    = snd (rescale (map_arr fexp eS) (slice i ([T; K; M; L], x))) [k; m; j].
  Proof.
    intros Hi Hj EA ES. rewrite hd_filter_exponent_4 in EA. rewrite hd_filter_exponent_scalar in ES.
    inversion EA; subst eA. inversion ES; subst eS. split; [reflexivity|].
    rewrite rescale_true by (cbn [fst map_arr]; apply preserves_shape_4).
    rewrite rescale_true by (cbn [fst map_arr slice tl]; apply preserves_shape_3).
    cbn [fst snd map_arr slice]. rewrite bidx_4 by assumption. rewrite bidx_4a by assumption.
    change [k; m; j] with ([k; m] ++ [j]). rewrite bidx_1d by assumption. reflexivity.
  Qed.
End Exp.
